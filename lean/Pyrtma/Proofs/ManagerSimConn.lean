import Pyrtma.Proofs.ManagerSimData
/-!
# Refinement of the history-based Spec by the manager model M1 — part 5: CONNECT

`connect_module` rewrites the record of the requesting connection step by step (identity fields first, `connected` and
the logger set last) with nested activity (DEBUG log lines of the clash loop) in between.  Every path through it is:
a rewrite of fields of `u`, a stretch of nested activity, and then either the refusal (`logger.error`, `remove_module`) or
the acceptance (`connected := true`, logger set).
-/
namespace Pyrtma.Mgr
open Spec (A AMod)

/-- a stretch of nested activity that writes no ACKNOWLEDGE and keeps the top-level invariants -/
structure CStep (cfg : Cfg) (c s' : State) : Prop where
  nest : Nest c s'
  pres : Pres c s'
  quiet : Quiet isAck c s'
  qinfo : Quiet isInfo c s'
  top : Top cfg c → Top cfg s'
  j : J c → J s'
  dep : Top cfg c → Dep cfg none none c s'

theorem cstep_refl (cfg : Cfg) (c : State) : CStep cfg c c :=
  ⟨Nest.refl c, Pres.refl c, Quiet.refl _ c, Quiet.refl _ c, id, id, fun _ => Dep.refl _ _ _ c⟩

section
variable {cfg : Cfg} (ok : CfgOK cfg) (hfuel : cfg.fuel = 0) (hall : OrdAll cfg)
include ok hfuel hall

theorem clashLoop_cstep (me : Module) : ∀ (os : List Module) (s : State), CStep cfg s (clashLoop cfg me os s).1
  | [], s => cstep_refl cfg s
  | o :: rest, s => by
    unfold clashLoop
    split
    · exact cstep_refl cfg s
    · have ih := clashLoop_cstep me rest (if me.name.isEmpty then s else logAt cfg (fwdTop cfg) 10 s)
      have h1 : CStep cfg s (if me.name.isEmpty then s else logAt cfg (fwdTop cfg) 10 s) := by
        split
        · exact cstep_refl cfg s
        · exact ⟨logTop_nest cfg 10 s, (logAt_ok cfg (tag_ack cfg) (fwdTop_ok cfg (tag_ack cfg)) 10 s).1, qa_log cfg 10 s,
            (logAt_ok cfg (tag_isInfo cfg) (fwdTop_ok cfg (tag_isInfo cfg)) 10 s).2,
            fun h => top_log ok hfuel h 10, fun h => logAt_J (fwdTop_J cfg) h 10,
            fun h => (dt_log ok hall hfuel h 10).dep⟩
      exact ⟨h1.nest.trans ih.nest, h1.pres.trans ih.pres, h1.quiet.trans ih.quiet, h1.qinfo.trans ih.qinfo,
        fun h => ih.top (h1.top h), fun h => ih.j (h1.j h),
        fun h => (h1.dep h).trans (ih.dep (h1.top h)) (ih.nest.back cfg)⟩

omit ok hfuel hall in
theorem clashLoop_flag (me : Module) : ∀ (os : List Module) (s : State),
    ((clashLoop cfg me os s).2 = true → ∃ o ∈ os, clash me o = true) ∧
    ((clashLoop cfg me os s).2 = false → ∀ o ∈ os, clash me o = false)
  | [], s => ⟨fun h => by simp [clashLoop] at h, fun _ o ho => by cases ho⟩
  | o :: rest, s => by
    unfold clashLoop
    cases hc : clash me o with
    | true => simp only [if_true]; exact ⟨fun _ => ⟨o, by simp, hc⟩, fun h => by cases h⟩
    | false =>
      simp only [Bool.false_eq_true, if_false]
      obtain ⟨h1, h2⟩ := clashLoop_flag me rest (if me.name.isEmpty then s else logAt cfg (fwdTop cfg) 10 s)
      refine ⟨fun h => ?_, fun h x hx => ?_⟩
      · obtain ⟨x, hx, hxc⟩ := h1 h; exact ⟨x, by simp [hx], hxc⟩
      · cases hx with
        | head => exact hc
        | tail _ hx' => exact h2 h x hx'

/-- why `connect_module` refuses -/
inductive RefuseWhy (cfg : Cfg) (s : State) (u : Nat) (h : Hdr) (m : Module) : Prop
  | badName : (if h.mtype == cfg.mtConnectV2 then cstr s.buf 12 32 else some m.name) = none → RefuseWhy cfg s u h m
  | range (nm : List Nat) : (if h.mtype == cfg.mtConnectV2 then cstr s.buf 12 32 else some m.name) = some nm →
      (setAll cfg s.buf h nm m).modId ≠ 0 →
      ((setAll cfg s.buf h nm m).modId < 1 ∨ (setAll cfg s.buf h nm m).modId > cfg.dynStart) → RefuseWhy cfg s u h m
  | clash (nm : List Nat) (o : Module) : (if h.mtype == cfg.mtConnectV2 then cstr s.buf 12 32 else some m.name) = some nm →
      (setAll cfg s.buf h nm m).modId ≠ 0 → o ∈ (s.upd u (setAll cfg s.buf h nm)).mods → o.uid ≠ u →
      Mgr.clash (setAll cfg s.buf h nm m) o = true → RefuseWhy cfg s u h m
  | full (nm : List Nat) : (if h.mtype == cfg.mtConnectV2 then cstr s.buf 12 32 else some m.name) = some nm →
      (setAll cfg s.buf h nm m).modId = 0 → assignId cfg (s.upd u (setAll cfg s.buf h nm)) = none → RefuseWhy cfg s u h m

/-- the two ways `connect_module` ends for a connection that is not connected yet -/
theorem connect_paths (s : State) (u : Nat) (h : Hdr) (m : Module) (hm : s.find u = some m) (hcn : m.connected = false) :
    (∃ g s2, (∀ x, (g x).uid = x.uid ∧ (g x).closed = x.closed ∧ (g x).subs = x.subs) ∧ CStep cfg (s.upd u g) s2 ∧
      RefuseWhy cfg s u h m ∧
      connectModule cfg s u h = (removeModule cfg (fwdTop cfg) (logAt cfg (fwdTop cfg) 40 s2) u, false)) ∨
    (∃ nm s2 G s3, (if h.mtype == cfg.mtConnectV2 then cstr s.buf 12 32 else some m.name) = some nm ∧
      CStep cfg (s.upd u (setAll cfg s.buf h nm)) s2 ∧
      ((∀ x, G x = { x with connected := true }) ∧ (setAll cfg s.buf h nm m).modId ≠ 0 ∧
          ¬((setAll cfg s.buf h nm m).modId < 1 ∨ (setAll cfg s.buf h nm m).modId > cfg.dynStart) ∧
          (∀ o ∈ (s.upd u (setAll cfg s.buf h nm)).mods, o.uid ≠ u → Mgr.clash (setAll cfg s.buf h nm m) o = false) ∧
          s3.nextDyn = s2.nextDyn ∨
        (setAll cfg s.buf h nm m).modId = 0 ∧ ∃ id off, assignId cfg (s.upd u (setAll cfg s.buf h nm)) = some (id, off) ∧
          (∀ x, G x = { x with modId := id, connected := true }) ∧ s3.nextDyn = off) ∧
      s3.mods = (s2.upd u G).mods ∧
      s3.loggers = (if (setAll cfg s.buf h nm m).isLogger then setAdd s2.loggers u else s2.loggers) ∧
      s3.idx = s2.idx ∧ s3.nextUid = s2.nextUid ∧ s3.fail = s2.fail ∧ s3.buf = s2.buf ∧ s3.wlist = s2.wlist ∧
      s3.out = s2.out ∧ s3.crashed = s2.crashed ∧
      connectModule cfg s u h = (s3, true)) := by
  have hl : lookupMod s u = m := by unfold lookupMod; rw [hm]; rfl
  unfold connectModule
  simp only [hl, hcn, Bool.false_eq_true, if_false]
  generalize hnr : (if h.mtype == cfg.mtConnectV2 then cstr s.buf 12 32 else some m.name) = nameR
  cases nameR with
  | none =>
    refine Or.inl ⟨setReq cfg s.buf h, _, fun x => ?_, cstep_refl cfg _, RefuseWhy.badName hnr, rfl⟩
    exact ⟨(setReq_closed cfg s.buf h x).1, (setReq_closed cfg s.buf h x).2, (setReq_keeps cfg s.buf h x).2⟩
  | some nm =>
    have hg : ∀ x, (setAll cfg s.buf h nm x).uid = x.uid ∧ (setAll cfg s.buf h nm x).closed = x.closed ∧
        (setAll cfg s.buf h nm x).subs = x.subs := fun x =>
      ⟨(setAll_keeps cfg s.buf h nm x).1, by unfold setAll; exact (setReq_closed cfg s.buf h x).2,
       (setAll_keeps cfg s.buf h nm x).2⟩
    dsimp only
    split
    · rename_i hid
      have hid' : (setAll cfg s.buf h nm m).modId ≠ 0 := by simpa using hid
      split
      · rename_i hrg
        refine Or.inl ⟨setAll cfg s.buf h nm, _, hg, cstep_refl cfg _, RefuseWhy.range nm hnr hid' (by simpa using hrg), rfl⟩
      · rename_i hrg
        have hcs := clashLoop_cstep ok hfuel hall (setAll cfg s.buf h nm m)
          ((s.upd u (setAll cfg s.buf h nm)).mods.filter (·.uid != u)) (s.upd u (setAll cfg s.buf h nm))
        have hfl := clashLoop_flag (cfg := cfg) (setAll cfg s.buf h nm m)
          ((s.upd u (setAll cfg s.buf h nm)).mods.filter (·.uid != u)) (s.upd u (setAll cfg s.buf h nm))
        generalize clashLoop cfg (setAll cfg s.buf h nm m)
          ((s.upd u (setAll cfg s.buf h nm)).mods.filter (·.uid != u)) (s.upd u (setAll cfg s.buf h nm)) = r at hcs hfl
        obtain ⟨s2, cl⟩ := r
        dsimp only at hcs hfl ⊢
        split
        · rename_i hcl
          obtain ⟨o, ho, hoc⟩ := hfl.1 hcl
          obtain ⟨ho1, ho2⟩ := List.mem_filter.mp ho
          exact Or.inl ⟨setAll cfg s.buf h nm, s2, hg, hcs,
            RefuseWhy.clash nm o hnr hid' ho1 (by simpa using ho2) hoc, rfl⟩
        · rename_i hcl
          have hcl' : cl = false := by simpa using hcl
          refine Or.inr ⟨nm, s2, fun x => { x with connected := true },
            { (s2.upd u fun x => { x with connected := true }) with
              loggers := if (setAll cfg s.buf h nm m).isLogger then setAdd s2.loggers u else s2.loggers }, rfl, hcs,
            Or.inl ⟨fun _ => rfl, hid', by simpa using hrg, fun o ho hou => ?_, rfl⟩,
            rfl, rfl, rfl, rfl, rfl, rfl, rfl, rfl, rfl, rfl⟩
          exact hfl.2 hcl' o (List.mem_filter.mpr ⟨ho, by simpa using hou⟩)
    · rename_i hid
      have hid' : (setAll cfg s.buf h nm m).modId = 0 := by simpa using hid
      split
      · rename_i hnone
        exact Or.inl ⟨setAll cfg s.buf h nm, _, hg, cstep_refl cfg _, RefuseWhy.full nm hnr hid' hnone, rfl⟩
      · rename_i dynId off hsome
        refine Or.inr ⟨nm, s.upd u (setAll cfg s.buf h nm),
          fun x => { x with modId := dynId, connected := true },
          { (({ (s.upd u (setAll cfg s.buf h nm)) with nextDyn := off } : State).upd u
              fun x => { x with modId := dynId, connected := true }) with
            loggers := if (setAll cfg s.buf h nm m).isLogger then
              setAdd ({ (s.upd u (setAll cfg s.buf h nm)) with nextDyn := off } : State).loggers u
              else ({ (s.upd u (setAll cfg s.buf h nm)) with nextDyn := off } : State).loggers }, rfl, cstep_refl cfg _,
          Or.inr ⟨hid', dynId, off, hsome, fun _ => rfl, rfl⟩, rfl, rfl, rfl, rfl, rfl, rfl, rfl, rfl, rfl, rfl⟩

end

/-! ## helpers: the relation on the other connections, re-establishing it for the requester -/

theorem find_upd_ne (s : State) (u v : Nat) (g : Module → Module) (hg : ∀ x, (g x).uid = x.uid) (hne : v ≠ u) :
    (s.upd u g).find v = s.find v := by
  rw [find_upd s u v g hg]
  cases hv : s.find v with
  | none => rfl
  | some x =>
    have : (x.uid == u) = false := by rw [find_uid hv]; simpa using hne
    simp only [Option.map_some, this, Bool.false_eq_true, if_false]

/-- a step that touches only the table entry of `u` and `u`'s membership of the logger set -/
theorem simOn_ne_step {cfg : Cfg} {a : A} {s s' : State} {u : Nat} (hs : SimOn (· ≠ u) cfg a s)
    (hfind : ∀ v, v ≠ u → s'.find v = s.find v) (hlog : ∀ v, v ≠ u → (v ∈ s'.loggers ↔ v ∈ s.loggers))
    (hnd : s'.loggers.Nodup) (hbd : ∀ v, v ∈ s'.loggers → v ≤ s'.nextUid) (hi : s'.idx = s.idx)
    (hmi : MInvOn (· ≠ u) cfg s')
    (hn : s'.nextUid = s.nextUid) (hf : s'.fail = s.fail) (hb : s'.buf = s.buf)
    (hw : s'.wlist = s.wlist) : SimOn (· ≠ u) cfg a s' :=
  ⟨hs.uids, by rw [hn]; exact hs.nacc, by rw [hf]; exact hs.fail, by rw [hb]; exact hs.buf,
   fun v hp hv => by rw [hfind v hp]; exact hs.live v hp hv,
   fun v am m hp h1 h2 => hs.mods v am m hp h1 (by rw [← hfind v hp]; exact h2),
   fun v hp hl => by rw [hw]; exact hs.w v hp hl,
   fun v m hp h1 h2 => (hlog v hp).mpr (hs.logIn v m hp (by rw [← hfind v hp]; exact h1) h2),
   fun v m hp h1 h2 => hs.logOut v m hp ((hlog v hp).mp h1) (by rw [← hfind v hp]; exact h2),
   fun v m hp h1 h2 => hs.logConn v m hp (by rw [← hfind v hp]; exact h1) h2, hnd, hbd,
   fun v m t hp h1 h2 => by rw [hi]; exact hs.idxIn v m t hp (by rw [← hfind v hp]; exact h1) h2,
   by rw [hi]; exact hs.idxPos, hmi⟩

/-- a change of the abstract entry of `u` -/
theorem simOn_ne_updA {cfg : Cfg} {a : A} {s : State} {u : Nat} (hs : SimOn (· ≠ u) cfg a s) (f : AMod → AMod)
    (hf : ∀ x, (f x).uid = x.uid) : SimOn (· ≠ u) cfg (a.upd u f) s := by
  have hlive : ∀ v, v ≠ u → (a.upd u f).live v = a.live v := by
    intro v hv; unfold Spec.A.live; rw [Spec.get_upd_ne a u v f hf hv]
  exact ⟨by rw [Spec.uids_upd a u f hf]; exact hs.uids, hs.nacc, hs.fail, hs.buf,
    fun v hp hv => by rw [hlive v hp]; exact hs.live v hp hv,
    fun v am m hp h1 h2 => hs.mods v am m hp (by rw [← hlive v hp]; exact h1) h2,
    fun v hp hl => hs.w v hp (by rw [← hlive v hp]; exact hl), hs.logIn, hs.logOut, hs.logConn, hs.logNodup, hs.logBound, hs.idxIn, hs.idxPos, hs.minv⟩

theorem simOn_coreExt {P : Nat → Prop} {cfg : Cfg} {T : List String} {a a' : A} {s : State} (hs : SimOn P cfg a s)
    (h : Spec.CoreExt T a a') : SimOn P cfg a' s := by
  have hget : ∀ u, a'.get u = a.get u := fun u => by unfold Spec.A.get; rw [h.mods]
  have hlive : ∀ u, a'.live u = a.live u := fun u => by unfold Spec.A.live; rw [hget]
  exact ⟨by rw [h.mods, h.nAccepted]; exact hs.uids, by rw [h.nAccepted]; exact hs.nacc, by rw [h.fail]; exact hs.fail,
    by rw [h.buf]; exact hs.buf, fun u hp hu => by rw [hlive]; exact hs.live u hp hu,
    fun u am m hp h1 h2 => hs.mods u am m hp (by rw [← hlive]; exact h1) h2,
    fun u hp hl => by rw [h.w]; exact hs.w u hp (by rw [← hlive]; exact hl), hs.logIn, hs.logOut, hs.logConn, hs.logNodup, hs.logBound, hs.idxIn, hs.idxPos, hs.minv⟩

/-- the requester is gone on both sides -/
theorem simOn_dead {cfg : Cfg} {a : A} {s : State} {u : Nat} (hs : SimOn (· ≠ u) cfg a s) (ha : a.live u = none)
    (hm : s.find u = none) : SimM cfg a s := by
  refine ⟨hs.uids, hs.nacc, hs.fail, hs.buf, fun v hv => ?_, fun v am m h1 h2 => ?_, fun v hl => ?_, fun v m h1 h2 => ?_,
    fun v m h1 h2 => ?_, fun v m h1 h2 => ?_, hs.logNodup, hs.logBound, fun v m t h1 h2 => ?_, hs.idxPos,
    minv_close (hs.minv.mono (fun _ h => h.2)) (fun m' hm' _ => by rw [hm] at hm'; cases hm')⟩
  rotate_right
  · by_cases hvu : v = u
    · subst hvu; rw [hm] at h1; cases h1
    · exact hs.idxIn v m t hvu h1 h2
  · by_cases hvu : v = u
    · subst hvu; simp [ha, hm]
    · exact hs.live v hvu hv
  · by_cases hvu : v = u
    · subst hvu; rw [hm] at h2; cases h2
    · exact hs.mods v am m hvu h1 h2
  · by_cases hvu : v = u
    · subst hvu; rw [ha] at hl; cases hl
    · exact hs.w v hvu hl
  · by_cases hvu : v = u
    · subst hvu; rw [hm] at h1; cases h1
    · exact hs.logIn v m hvu h1 h2
  · by_cases hvu : v = u
    · subst hvu; rw [hm] at h2; cases h2
    · exact hs.logOut v m hvu h1 h2
  · by_cases hvu : v = u
    · subst hvu; rw [hm] at h1; cases h1
    · exact hs.logConn v m hvu h1 h2

/-- the requester is there on both sides, with matching records -/
theorem simOn_alive {cfg : Cfg} {a : A} {s : State} {u : Nat} (hs : SimOn (· ≠ u) cfg a s) (am : AMod) (m : Module)
    (ha : a.live u = some am) (hm : s.find u = some m) (hsm : SimMod cfg am m) (hw : u ∈ a.w ↔ u ∈ s.wlist)
    (hlog : m.isLogger = true ↔ u ∈ s.loggers) (hconn : m.isLogger = true → m.connected = true)
    (hidxU : ∀ t, t ∈ m.subs → u ∈ idxGet s.idx t) (hunc : m.connected = false → m.modId = 0) : SimM cfg a s := by
  refine ⟨hs.uids, hs.nacc, hs.fail, hs.buf, fun v hv => ?_, fun v am' m' h1 h2 => ?_, fun v hl => ?_, fun v m' h1 h2 => ?_,
    fun v m' h1 h2 => ?_, fun v m' h1 h2 => ?_, hs.logNodup, hs.logBound, fun v m' t h1 h2 => ?_, hs.idxPos,
    minv_close (hs.minv.mono (fun _ h => h.2)) (fun m' hm' hc => by rw [hm] at hm'; cases hm'; exact hunc hc)⟩
  rotate_right
  · by_cases hvu : v = u
    · subst hvu; rw [hm] at h1; cases h1; exact hidxU t h2
    · exact hs.idxIn v m' t hvu h1 h2
  · by_cases hvu : v = u
    · subst hvu; simp [ha, hm]
    · exact hs.live v hvu hv
  · by_cases hvu : v = u
    · subst hvu; rw [hm] at h2; rw [ha] at h1; cases h1; cases h2; exact hsm
    · exact hs.mods v am' m' hvu h1 h2
  · by_cases hvu : v = u
    · subst hvu; exact hw
    · exact hs.w v hvu hl
  · by_cases hvu : v = u
    · subst hvu; rw [hm] at h1; cases h1; exact hlog.mp h2
    · exact hs.logIn v m' hvu h1 h2
  · by_cases hvu : v = u
    · subst hvu; rw [hm] at h2; cases h2; exact hlog.mpr h1
    · exact hs.logOut v m' hvu h1 h2
  · by_cases hvu : v = u
    · subst hvu; rw [hm] at h1; cases h1; exact hconn h2
    · exact hs.logConn v m' hvu h1 h2

/-- two abstract states with the same live entries (and the same shared fields) simulate the same model states -/
theorem sim_liveEq {cfg : Cfg} {a b : A} {s : State} (hs : SimM cfg b s) (hl : ∀ v, a.live v = b.live v)
    (hu : a.mods.map (·.uid) = b.mods.map (·.uid)) (hn : a.nAccepted = b.nAccepted) (hf : a.fail = b.fail)
    (hb : a.buf = b.buf) (hw : a.w = b.w) : SimM cfg a s :=
  ⟨by rw [hu, hn]; exact hs.uids, by rw [hn]; exact hs.nacc, by rw [hf]; exact hs.fail, by rw [hb]; exact hs.buf,
   fun v hv => by rw [hl]; exact hs.live v hv, fun v am m h1 h2 => hs.mods v am m (by rw [← hl]; exact h1) h2,
   fun v h => by rw [hw]; exact hs.w v (by rw [← hl]; exact h), hs.logIn, hs.logOut, hs.logConn, hs.logNodup, hs.logBound, hs.idxIn, hs.idxPos, hs.minv⟩

theorem closes_app (a b : List Ev) : Spec.closes (a ++ b) = Spec.closes a ++ Spec.closes b := by
  simp [Spec.closes]

theorem applyDepartures_append (a : A) (e1 e2 : List Ev) :
    Spec.applyDepartures (Spec.applyDepartures a e1) e2 = Spec.applyDepartures a (e1 ++ e2) := by
  unfold Spec.applyDepartures
  rw [closes_app, List.foldl_append]

/-- what the connect request says (Spec: `reqOf` on the abstract entry) is what `connect_module` writes into the record
    (model: `setAll` on the module record) -/
theorem req_setAll {cfg : Cfg} {am : AMod} {m : Module} (hsm : SimMod cfg am m) (buf : List Nat) (h : Hdr) (nm : List Nat)
    (hnr : (if h.mtype == cfg.mtConnectV2 then cstr buf 12 32 else some m.name) = some nm) :
    (Spec.reqOf cfg am h buf).name = some nm ∧ (Spec.reqOf cfg am h buf).modId = (setAll cfg buf h nm m).modId ∧
    (Spec.reqOf cfg am h buf).unique = (setAll cfg buf h nm m).unique ∧
    (Spec.reqOf cfg am h buf).isLogger = (setAll cfg buf h nm m).isLogger ∧
    (Spec.reqOf cfg am h buf).isDaemon = (setAll cfg buf h nm m).isDaemon ∧
    (Spec.reqOf cfg am h buf).pid = (setAll cfg buf h nm m).pid ∧ (setAll cfg buf h nm m).name = nm ∧
    (setAll cfg buf h nm m).subs = m.subs ∧ (setAll cfg buf h nm m).connected = m.connected := by
  unfold Spec.reqOf setAll setReq
  by_cases hv : (h.mtype == cfg.mtConnectV2) = true
  · rw [if_pos hv] at hnr
    rw [if_pos hv, if_pos hv]
    exact ⟨hnr, rfl, rfl, rfl, rfl, rfl, rfl, rfl, rfl⟩
  · rw [if_neg hv] at hnr
    rw [if_neg hv, if_neg hv]
    have : m.name = nm := by simpa using hnr
    exact ⟨by show some am.name = some nm; rw [hsm.name, this], rfl, hsm.unique, rfl, rfl, hsm.pid, rfl, rfl, rfl⟩

/-- a failed write to `u` leaves `u` out of the table -/
theorem trySend_fail_gone (cfg : Cfg) (s : State) (u : Nat) (f : Frame) (m : Module) (hm : s.find u = some m)
    (hc : m.closed = false) (hfl : failOf s u ≠ none) (hcr : s.crashed = none) (ao' : AllOpen (trySend cfg (fwdTop cfg) s u f)) :
    (trySend cfg (fwdTop cfg) s u f).find u = none := by
  have hok : (sendRaw s u f).2 = false := by
    rw [sendRaw_ok]; unfold canTake; simp [hm]
    cases h : failOf s u with
    | none => exact absurd h hfl
    | some _ => simp
  have hnc : (sendRaw s u f).1.crashed.isSome = false := by
    unfold sendRaw; simp only [hm, hc, Bool.false_eq_true, if_false]
    have hfo : failOf (s.upd u fun m => { m with msgCount := m.msgCount + 1 }) u = failOf s u := rfl
    rw [hfo]
    cases h : failOf s u with
    | none => exact absurd h hfl
    | some x => cases x <;> simp [State.emit, State.upd, hcr]
  have key : ∃ d, trySend cfg (fwdTop cfg) s u f =
      failedMsg cfg (fwdTop cfg) (logAt cfg (fwdTop cfg) 40 (removeModule cfg (fwdTop cfg) (sendRaw s u f).1 u)) d f := by
    refine ⟨(match s.find u with | some m => m.modId | none => 0), ?_⟩
    unfold trySend
    simp only [hok, Bool.false_eq_true, if_false, hnc]
    rfl
  obtain ⟨d, key⟩ := key
  rw [key] at ao' ⊢
  have n : Nest (removeModule cfg (fwdTop cfg) (sendRaw s u f).1 u)
      (failedMsg cfg (fwdTop cfg) (logAt cfg (fwdTop cfg) 40 (removeModule cfg (fwdTop cfg) (sendRaw s u f).1 u)) d f) :=
    (logTop_nest cfg 40 _).trans (failedMsg_nest (fwdTop_nest cfg) _ d f)
  exact nest_gone n ao' u (removeModule_none cfg (fwdTop cfg) _ u)

/-! ## the connect decision (C06) -/

theorem mem_upd_ne {s : State} {u : Nat} {g : Module → Module} {o : Module} (ho : o ∈ (s.upd u g).mods) (hou : o.uid ≠ u)
    (hg : ∀ x, (g x).uid = x.uid) : o ∈ s.mods := by
  unfold State.upd at ho
  obtain ⟨x, hx, rfl⟩ := List.mem_map.mp ho
  by_cases hxu : (x.uid == u) = true
  · simp only [hxu, if_true] at hou
    rw [hg] at hou; exact absurd (by simpa using hxu) hou
  · simp only [hxu, Bool.false_eq_true, if_false]; exact hx

theorem mem_upd_of {s : State} {u : Nat} (g : Module → Module) {o : Module} (ho : o ∈ s.mods) (hou : o.uid ≠ u) :
    o ∈ (s.upd u g).mods := by
  unfold State.upd
  refine List.mem_map.mpr ⟨o, ho, ?_⟩
  have : (o.uid == u) = false := by simpa using hou
  simp [this]

/-- the abstract entry of a table entry other than the manager's own -/
theorem entry_of_mem {cfg : Cfg} {a : A} {s : State} (hs : SimM cfg a s) {o : Module} (ho : o ∈ s.mods) (h0 : o.uid ≠ 0) :
    ∃ ao, a.live o.uid = some ao ∧ ao ∈ a.mods ∧ ao.uid = o.uid ∧ SimMod cfg ao o := by
  have hf := find_of_mem (s := s) hs.minv.distinct ho
  obtain ⟨ao, hao⟩ := Option.isSome_iff_exists.mp ((hs.live o.uid h0).mpr (by simp [hf]))
  obtain ⟨hg, _⟩ := Spec.live_some.mp hao
  exact ⟨ao, hao, Spec.get_mem hg, Spec.get_uid hg, hs.mods o.uid ao o hao hf⟩

/-- the table entry of a live abstract entry -/
theorem mem_of_entry {cfg : Cfg} {a : A} {s : State} (hs : SimM cfg a s) {ao : AMod} (hao : ao ∈ a.mods) (hal : ao.alive = true) :
    ∃ o, o ∈ s.mods ∧ o.uid = ao.uid ∧ SimMod cfg ao o := by
  have hlive := live_of_mem (uids_nodup hs.uids) hao hal
  have h0 := uid_pos hs.uids hao
  obtain ⟨o, ho⟩ := Option.isSome_iff_exists.mp ((hs.live ao.uid h0).mp (by simp [hlive]))
  exact ⟨o, mem_of_find ho, find_uid ho, hs.mods ao.uid ao o hlive ho⟩

/-- a clash found by `connect_module` is a reason the Spec tolerates -/
theorem may_of_clash {cfg : Cfg} {a : A} {s : State} (hs : SimM cfg a s) (u : Nat) (r : Spec.Req) (nm : List Nat)
    (me o : Module) (ho : o ∈ s.mods) (hou : o.uid ≠ u) (hcl : clash me o = true) (hid : me.modId ≠ 0)
    (h1 : r.modId = me.modId) (h2 : r.unique = me.unique) (h3 : me.name = nm) :
    Spec.mayRefuse cfg a u r nm = true := by
  have hrid : (r.modId != 0) = true := by rw [h1]; simpa using hid
  unfold clash at hcl
  unfold Spec.mayRefuse Spec.mustRefuse
  by_cases h0 : o.uid = 0
  · -- the manager's own entry
    have hf := find_of_mem (s := s) hs.minv.distinct ho
    rw [h0] at hf
    obtain ⟨hm1, hm2, _⟩ := hs.minv.mgr o hf
    have hne : (o.modId == me.modId) = false := by rw [hm1]; simpa using fun e => hid e.symm
    simp only [hne, Bool.false_and, Bool.false_or, Bool.and_eq_true, Bool.not_eq_true', beq_iff_eq] at hcl
    have : nm = mmName := by rw [← h3, ← hcl.2, hm2]
    have hnm : (nm == "message_manager".toList.map (·.toNat)) = true := by rw [this]; exact beq_self_eq_true _
    simp only [hrid, hnm, Bool.true_and, Bool.true_or, Bool.or_true]
  · obtain ⟨ao, hlive, haom, hauid, hsm⟩ := entry_of_mem hs ho h0
    have halive : ao.alive = true := (Spec.live_some.mp hlive).2
    have hane : (ao.uid != u) = true := by rw [hauid]; simpa using hou
    rcases Bool.or_eq_true_iff.mp hcl with hc | hc
    · -- same id: the holder is connected
      simp only [Bool.and_eq_true, beq_iff_eq] at hc
      have hconn : o.connected = true := by
        cases hcc : o.connected with
        | true => rfl
        | false =>
          have := hs.minv.unconn o.uid o trivial (find_of_mem (s := s) hs.minv.distinct ho) hcc
          rw [hc.1] at this; exact absurd this hid
      have hany : a.mods.any (fun o' => o'.alive && o'.uid != u && o'.connected && o'.modId == r.modId &&
          (o'.unique || r.unique)) = true := by
        rw [List.any_eq_true]
        refine ⟨ao, haom, ?_⟩
        rw [halive, hane, hsm.connected, hconn, hsm.modId, hsm.unique, h1, h2, hc.1]
        simpa using hc.2
      simp only [hrid, hany, Bool.true_and, Bool.true_or, Bool.or_true]
    · simp only [Bool.and_eq_true, Bool.not_eq_true', beq_iff_eq, Bool.or_eq_true] at hc
      obtain ⟨⟨hne, huq⟩, hname⟩ := hc
      have hnmne : (!nm.isEmpty) = true := by rw [← h3]; simpa using hne
      have haname : ao.name = nm := by rw [hsm.name, hname, h3]
      rcases huq with huq | huq
      · have hany : a.mods.any (fun o' => o'.alive && o'.uid != u && !nm.isEmpty && o'.unique && o'.name == nm) = true := by
          rw [List.any_eq_true]
          exact ⟨ao, haom, by rw [halive, hane, hnmne, hsm.unique, huq, haname]; simp⟩
        simp only [hrid, hany, Bool.true_and, Bool.true_or, Bool.or_true]
      · have hany : a.mods.any (fun o' => o'.alive && o'.uid != u && !nm.isEmpty && r.unique && o'.name == nm) = true := by
          rw [List.any_eq_true]
          exact ⟨ao, haom, by rw [halive, hane, hnmne, h2, huq, haname]; simp⟩
        simp only [hrid, hany, Bool.true_and, Bool.true_or, Bool.or_true]

/-- no clash in the snapshot: the Spec does not demand a refusal -/
theorem must_false {cfg : Cfg} {a : A} {s : State} (hs : SimM cfg a s) (u : Nat) (r : Spec.Req) (nm : List Nat) (me : Module)
    (hno : ∀ o ∈ s.mods, o.uid ≠ u → clash me o = false)
    (hrg : ¬(me.modId < 1 ∨ me.modId > cfg.dynStart))
    (h1 : r.modId = me.modId) (h2 : r.unique = me.unique) (h3 : me.name = nm) :
    Spec.mustRefuse cfg a u r nm = false := by
  unfold Spec.mustRefuse
  have hr1 : decide (r.modId < 1) = false := by rw [h1]; simpa using fun h => hrg (Or.inl h)
  have hr2 : decide (r.modId > cfg.dynStart) = false := by rw [h1]; simpa using fun h => hrg (Or.inr h)
  have hany1 : a.mods.any (fun o' => o'.alive && o'.uid != u && o'.connected && o'.modId == r.modId &&
      (o'.unique || r.unique)) = false := by
    rw [List.any_eq_false]
    intro ao hao hc
    simp only [Bool.and_eq_true, bne_iff_ne, beq_iff_eq, Bool.or_eq_true] at hc
    obtain ⟨⟨⟨⟨hal, hne⟩, _⟩, hid⟩, huq⟩ := hc
    obtain ⟨o, ho, hou, hsm⟩ := mem_of_entry hs hao hal
    have := hno o ho (by rw [hou]; exact hne)
    unfold clash at this
    rw [Bool.or_eq_false_iff] at this
    have h := this.1
    rw [← hsm.modId, ← hsm.unique, ← h1, ← h2, hid] at h
    simp only [beq_self_eq_true, Bool.true_and] at h
    rcases huq with huq | huq <;> simp [huq] at h
  have hany2 : a.mods.any (fun o' => o'.alive && o'.uid != u && !nm.isEmpty && o'.unique && o'.name == nm) = false := by
    rw [List.any_eq_false]
    intro ao hao hc
    simp only [Bool.and_eq_true, bne_iff_ne, beq_iff_eq, Bool.not_eq_true'] at hc
    obtain ⟨⟨⟨⟨hal, hne⟩, hnm⟩, huq⟩, hname⟩ := hc
    obtain ⟨o, ho, hou, hsm⟩ := mem_of_entry hs hao hal
    have := hno o ho (by rw [hou]; exact hne)
    unfold clash at this
    rw [Bool.or_eq_false_iff] at this
    have h := this.2
    rw [h3, ← hsm.unique, ← hsm.name, huq, hname, hnm] at h
    simp at h
  simp only [hr1, hr2, hany1, hany2, Bool.or_self, Bool.and_false]

/-- `assign_module_id` finds nothing only when every candidate it probes is taken -/
theorem assignLoop_none (ds : Int) (md : Nat) (used : List Int) : ∀ (n o : Nat), assignLoop ds md used n o = none → o < md →
    (∀ i : Nat, o ≤ i → i < md → i < o + n → used.contains (ds + (i : Int)) = true) ∧
    (md ≤ o + n → assignLoop ds md used (o + n - md) 0 = none)
  | 0, o, _, ho => ⟨fun i h1 _ h3 => by omega, fun h => by omega⟩
  | n + 1, o, h, ho => by
    unfold assignLoop at h
    dsimp only at h
    have hused : used.contains (ds + (o : Int)) = true := by
      cases hc : used.contains (ds + (o : Int)) with
      | true => rfl
      | false => rw [hc] at h; simp at h
    rw [hused] at h
    simp only [if_true] at h
    by_cases hw : (o + 1 == md) = true
    · have hw' : o + 1 = md := by simpa using hw
      simp only [hw, if_true] at h
      refine ⟨fun i h1 h2 _ => ?_, fun _ => ?_⟩
      · have : i = o := by omega
        rw [this]; exact hused
      · have : o + (n + 1) - md = n := by omega
        rw [this]; exact h
    · have hw' : o + 1 ≠ md := by simpa using hw
      simp only [hw, Bool.false_eq_true, if_false] at h
      obtain ⟨ih1, ih2⟩ := assignLoop_none ds md used n (o + 1) h (by omega)
      refine ⟨fun i h1 h2 h3 => ?_, fun hm => ?_⟩
      · by_cases hio : i = o
        · rw [hio]; exact hused
        · exact ih1 i (by omega) h2 (by omega)
      · have : o + (n + 1) - md = o + 1 + n - md := by omega
        rw [this]; exact ih2 (by omega)

theorem assignLoop_full (ds : Int) (md : Nat) (used : List Int) (o : Nat) (h : assignLoop ds md used md o = none) (ho : o < md)
    (i : Nat) (hi : i < md) : used.contains (ds + (i : Int)) = true := by
  obtain ⟨h1, h2⟩ := assignLoop_none ds md used md o h ho
  by_cases hio : o ≤ i
  · exact h1 i hio hi (by omega)
  · have h3 := h2 (by omega)
    have : o + md - md = o := by omega
    rw [this] at h3
    exact (assignLoop_none ds md used o 0 h3 (by omega)).1 i (by omega) hi (by omega)

/-- a refusal of a dynamic-id request: every dynamic id is held by a live connection -/
theorem dynFull_of_none {cfg : Cfg} {a : A} {s : State} (hs : SimM cfg a s) (u : Nat) (m : Module) (hm : s.find u = some m)
    (g : Module → Module) (hg : ∀ x, (g x).uid = x.uid) (hgm : (g m).modId = 0) (hmc : m.connected = false)
    (hu0 : u ≠ 0) (h : assignId cfg (s.upd u g) = none) : Spec.dynFull cfg a = true := by
  unfold Spec.dynFull
  rw [List.all_eq_true]
  intro i hi
  have hi' : i < maxDyn cfg := List.mem_range.mp hi
  rcases hs.minv.ndyn with hz | hlt
  · omega
  · unfold assignId at h
    have hcont := assignLoop_full _ _ _ _ h hlt i hi'
    rw [List.contains_iff_mem, List.mem_map] at hcont
    obtain ⟨o, ho, hoid⟩ := hcont
    rw [List.contains_iff_mem, List.mem_map]
    -- the holder: the requester itself (id 0), the manager (id 0), or another live connection
    have hzero : ∀ x : AMod, x ∈ a.mods → x.alive = true → x.modId = 0 → cfg.dynStart + (i : Int) = 0 →
        ∃ y, y ∈ a.mods.filter (·.alive) ∧ y.modId = cfg.dynStart + (i : Int) :=
      fun x hx hal hx0 he => ⟨x, List.mem_filter.mpr ⟨hx, hal⟩, by rw [hx0, he]⟩
    obtain ⟨au, hau⟩ := Option.isSome_iff_exists.mp ((hs.live u hu0).mpr (by simp [hm]))
    obtain ⟨hgu, halu⟩ := Spec.live_some.mp hau
    have hsmu := hs.mods u au m hau hm
    have hau0 : au.modId = 0 := by rw [hsmu.modId]; exact hs.minv.unconn u m trivial hm hmc
    by_cases hou : o.uid = u
    · -- the requester's rewritten entry
      have : o = g m := by
        have hfo := find_of_mem (s := s.upd u g)
          (by show ((s.upd u g).mods.map (·.uid)).Nodup; rw [uids_upd s u g hg]; exact hs.minv.distinct) ho
        rw [hou, find_upd_self s u g hg hm] at hfo
        exact (Option.some.inj hfo).symm
      rw [this, hgm] at hoid
      exact hzero au (Spec.get_mem hgu) halu hau0 hoid.symm
    · have ho' := mem_upd_ne ho hou hg
      by_cases h0 : o.uid = 0
      · have hf := find_of_mem (s := s) hs.minv.distinct ho'
        rw [h0] at hf
        rw [(hs.minv.mgr o hf).1] at hoid
        exact hzero au (Spec.get_mem hgu) halu hau0 hoid.symm
      · obtain ⟨ao, hlive, haom, _, hsm⟩ := entry_of_mem hs ho' h0
        exact ⟨ao, List.mem_filter.mpr ⟨haom, (Spec.live_some.mp hlive).2⟩, by rw [hsm.modId]; exact hoid⟩

/-- the dynamic id handed out is held by no live connection -/
theorem dyn_fresh {cfg : Cfg} {a : A} {s : State} (hs : SimM cfg a s) (u : Nat) (g : Module → Module) (id : Int) (off : Nat)
    (h : assignId cfg (s.upd u g) = some (id, off)) :
    a.mods.any (fun o => o.alive && o.uid != u && o.modId == id) = false := by
  rw [List.any_eq_false]
  intro ao hao hc
  simp only [Bool.and_eq_true, bne_iff_ne, beq_iff_eq] at hc
  obtain ⟨⟨hal, hne⟩, hid⟩ := hc
  obtain ⟨o, ho, hou, hsm⟩ := mem_of_entry hs hao hal
  unfold assignId at h
  have := assignLoop_notin _ _ _ _ _ _ _ h
  apply this
  rw [List.mem_map]
  exact ⟨o, mem_upd_of g ho (by rw [hou]; exact hne), by rw [← hsm.modId]; exact hid⟩

/-- the dynamic-id cursor stays in range, and so does the id found -/
theorem assignLoop_range (ds : Int) (md : Nat) (used : List Int) :
    ∀ (n off : Nat) (id : Int) (off' : Nat), assignLoop ds md used n off = some (id, off') → off < md →
      off' < md ∧ ∃ k : Nat, k < md ∧ id = ds + (k : Int)
  | 0, _, _, _, h, _ => by simp [assignLoop] at h
  | n + 1, off, id, off', h, ho => by
    unfold assignLoop at h
    dsimp only at h
    have hnext : (if off + 1 == md then 0 else off + 1) < md := by split <;> rename_i hx <;> simp at hx <;> omega
    split at h
    · exact assignLoop_range ds md used n _ id off' h hnext
    · simp only [Option.some.injEq, Prod.mk.injEq] at h
      obtain ⟨rfl, rfl⟩ := h
      exact ⟨hnext, off, ho, rfl⟩

/-- the model invariants on the other connections survive a rewrite of the requester's entry -/
theorem minv_updU {cfg : Cfg} {s : State} {u : Nat} (h : MInvOn (fun _ => True) cfg s) (hu0 : u ≠ 0) (g : Module → Module)
    (hg : ∀ x, (g x).uid = x.uid) : MInvOn (· ≠ u) cfg (s.upd u g) :=
  (minv_find (fm := g) h hu0 (uids_upd s u g hg) (fun v => find_upd s u v g hg) rfl).mono (fun _ hv => ⟨trivial, hv⟩)

theorem req_name_none {cfg : Cfg} (am : AMod) (buf : List Nat) (h : Hdr) (mname : List Nat)
    (hnr : (if h.mtype == cfg.mtConnectV2 then cstr buf 12 32 else some mname) = none) :
    (Spec.reqOf cfg am h buf).name = none := by
  unfold Spec.reqOf
  by_cases hv : (h.mtype == cfg.mtConnectV2) = true
  · rw [if_pos hv] at hnr; rw [if_pos hv]; exact hnr
  · rw [if_neg hv] at hnr; cases hnr

/-- `send_ack` writes no CLIENT_INFO frame -/
theorem sendAck_info (cfg : Cfg) (s : State) (u : Nat) : Pres s (sendAck cfg s u) ∧ Quiet isInfo s (sendAck cfg s u) := by
  unfold sendAck
  cases hm : s.find u with
  | none => exact ⟨Pres.refl s, Quiet.refl _ s⟩
  | some m =>
    dsimp only
    have h1 := trySend_ok cfg (tag_isInfo cfg) (fwdTop_ok cfg (tag_isInfo cfg)) s u (ackFrame cfg m.modId)
    have h2 := toLoggers_sends cfg (tag_isInfo cfg) (ackFrame cfg m.modId)
      (cfg.order (trySend cfg (fwdTop cfg) s u (ackFrame cfg m.modId)).loggers) (trySend cfg (fwdTop cfg) s u (ackFrame cfg m.modId))
    refine ⟨h1.1.trans h2.1, ?_⟩
    unfold Quiet
    rw [h2.2, h1.2]
    have : isInfo (ackFrame cfg m.modId).body = false := rfl
    simp [this]

/-- the record `send_client_info(src_module)` describes after an accepted connect -/
theorem connectRecord_body (cfg : Cfg) (s : State) (u : Nat) (h : Hdr) (m : Module) (hm : s.find u = some m) (nm : List Nat)
    (hnr : (if h.mtype == cfg.mtConnectV2 then cstr s.buf 12 32 else some m.name) = some nm) :
    (setAll cfg s.buf h nm m).modId ≠ 0 ∧
      connectRecord cfg s u h = { setAll cfg s.buf h nm m with connected := true } ∨
    (setAll cfg s.buf h nm m).modId = 0 ∧ ∀ id off, assignId cfg (s.upd u (setAll cfg s.buf h nm)) = some (id, off) →
      connectRecord cfg s u h = { setAll cfg s.buf h nm m with modId := id, connected := true } := by
  have hl : lookupMod s u = m := by unfold lookupMod; rw [hm]; rfl
  have hnm : (if h.mtype == cfg.mtConnectV2 then (cstr s.buf 12 32).getD [] else m.name) = nm := by
    by_cases hv : (h.mtype == cfg.mtConnectV2) = true
    · rw [if_pos hv] at hnr ⊢; rw [hnr]; rfl
    · rw [if_neg hv] at hnr ⊢; exact Option.some.inj hnr
  unfold connectRecord
  simp only [hl, hnm]
  by_cases hid : (setAll cfg s.buf h nm m).modId = 0
  · right
    refine ⟨hid, fun id off hass => ?_⟩
    have : ((setAll cfg s.buf h nm m).modId != 0) = false := by simp [hid]
    simp only [this, Bool.false_eq_true, if_false, hass]
  · left
    refine ⟨hid, ?_⟩
    have : ((setAll cfg s.buf h nm m).modId != 0) = true := by simpa using hid
    simp only [this, if_true]

/-- the state `connect_module` leaves when it accepts, and an abstract state that simulates it -/
theorem connect_accept_state {cfg : Cfg} (ok : CfgOK cfg) (hfuel : cfg.fuel = 0) {a0 : A} {s0 : State}
    (hs0 : SimM cfg a0 s0) (t0 : Top cfg s0) (j0 : J s0) (u : Nat) (hu0 : u ≠ 0) (m : Module) (hm : s0.find u = some m)
    (am : AMod) (hlive : a0.live u = some am) (hsm : SimMod cfg am m) (hcn : m.connected = false) (h : Hdr) (nm : List Nat)
    (hnr : (if h.mtype == cfg.mtConnectV2 then cstr s0.buf 12 32 else some m.name) = some nm)
    (s02 : State) (G : Module → Module) (s3 : State) (cs : CStep cfg (s0.upd u (setAll cfg s0.buf h nm)) s02)
    (hGr : (∀ x, G x = { x with connected := true }) ∧ (setAll cfg s0.buf h nm m).modId ≠ 0 ∧
          ¬((setAll cfg s0.buf h nm m).modId < 1 ∨ (setAll cfg s0.buf h nm m).modId > cfg.dynStart) ∧
          (∀ o ∈ (s0.upd u (setAll cfg s0.buf h nm)).mods, o.uid ≠ u → Mgr.clash (setAll cfg s0.buf h nm m) o = false) ∧
          s3.nextDyn = s02.nextDyn ∨
        (setAll cfg s0.buf h nm m).modId = 0 ∧ ∃ id off, assignId cfg (s0.upd u (setAll cfg s0.buf h nm)) = some (id, off) ∧
          (∀ x, G x = { x with modId := id, connected := true }) ∧ s3.nextDyn = off)
    (hmods : s3.mods = (s02.upd u G).mods)
    (hlog : s3.loggers = (if (setAll cfg s0.buf h nm m).isLogger then setAdd s02.loggers u else s02.loggers))
    (hidx : s3.idx = s02.idx)
    (hn : s3.nextUid = s02.nextUid) (hf : s3.fail = s02.fail) (hb : s3.buf = s02.buf) (hw : s3.wlist = s02.wlist)
    (ho : s3.out = s02.out) :
    ∃ e1 b3, s3.out = s0.out ++ e1 ∧ dataSends isAck e1 = [] ∧ SimM cfg b3 s3 ∧
      b3.mods.map (·.uid) = a0.mods.map (·.uid) ∧ b3.nAccepted = a0.nAccepted ∧ b3.fail = a0.fail ∧ b3.buf = a0.buf ∧
      b3.w = a0.w ∧
      (∀ v, v ≠ u → b3.live v = (Spec.applyDepartures a0 e1).live v) ∧
      (∀ v, (s0.find v).isSome → failOf s0 v = none → (s3.find v).isSome) ∧
      ((s3.find u = none ∧ b3.live u = none ∧ Ev.close u ∈ e1) ∨
       (∃ m3, s3.find u = some m3 ∧ Ev.close u ∉ e1 ∧
          b3.live u = some (Spec.connUpd (Spec.reqOf cfg am h a0.buf) nm m3.modId am) ∧
          ((Spec.reqOf cfg am h a0.buf).modId ≠ 0 → m3.modId = (Spec.reqOf cfg am h a0.buf).modId) ∧
          infoBody m3 = infoBody (connectRecord cfg s0 u h) ∧
          ((Spec.reqOf cfg am h a0.buf).modId = 0 → ∃ off, assignId cfg (s0.upd u (setAll cfg s0.buf h nm)) = some (m3.modId, off)))) := by
  have hG : (∀ x, G x = { x with connected := true }) ∧ (setAll cfg s0.buf h nm m).modId ≠ 0 ∨
      (setAll cfg s0.buf h nm m).modId = 0 ∧ ∃ id, ∀ x, G x = { x with modId := id, connected := true } := by
    rcases hGr with ⟨h1, h2, _⟩ | ⟨h1, id, off, _, h2, _⟩
    · exact Or.inl ⟨h1, h2⟩
    · exact Or.inr ⟨h1, id, h2⟩
  -- the dynamic-id cursor after the acceptance
  have hdyn3 : maxDyn cfg = 0 ∨ s3.nextDyn < maxDyn cfg := by
    rcases hGr with ⟨_, _, _, _, h5⟩ | ⟨_, id, off, hass, _, h5⟩
    · rw [h5, cs.nest.ndyn]; exact hs0.minv.ndyn
    · rw [h5]
      rcases hs0.minv.ndyn with hz | hlt
      · exact Or.inl hz
      · unfold assignId at hass
        exact Or.inr (assignLoop_range _ _ _ _ _ _ _ hass hlt).1
  -- what `send_client_info` will describe
  have hrecBody : ∀ m2 : Module, m2.uid = u → m2.pid = (setAll cfg s0.buf h nm m).pid →
      m2.isLogger = (setAll cfg s0.buf h nm m).isLogger → m2.unique = (setAll cfg s0.buf h nm m).unique →
      m2.name = (setAll cfg s0.buf h nm m).name → m2.modId = (setAll cfg s0.buf h nm m).modId →
      infoBody (G m2) = infoBody (connectRecord cfg s0 u h) ∧
      ((setAll cfg s0.buf h nm m).modId = 0 → ∃ off, assignId cfg (s0.upd u (setAll cfg s0.buf h nm)) = some ((G m2).modId, off)) := by
    intro m2 e1 e2 e3 e4 e5 e6
    have huid : (setAll cfg s0.buf h nm m).uid = u := by rw [(setAll_keeps cfg s0.buf h nm m).1]; exact find_uid hm
    rcases connectRecord_body cfg s0 u h m hm nm hnr with ⟨hid, hrec⟩ | ⟨hid, hrec⟩
    · rcases hGr with ⟨hG1, _⟩ | ⟨hz, _⟩
      · rw [hrec, hG1]
        refine ⟨?_, fun hz => absurd hz hid⟩
        unfold infoBody; simp only [e1, e2, e3, e4, e5, e6, huid]
      · exact absurd hz hid
    · rcases hGr with ⟨_, hnz, _⟩ | ⟨_, id, off, hass, hG2, _⟩
      · exact absurd hid hnz
      · rw [hrec id off hass, hG2]
        refine ⟨?_, fun _ => ⟨off, hass⟩⟩
        unfold infoBody; simp only [e1, e2, e3, e4, e5, huid]
  clear hGr
  have hbuf : a0.buf = s0.buf := hs0.buf
  rw [hbuf]
  obtain ⟨r1, r2, r3, r4, r5, r6, r7, r8, r9⟩ := req_setAll hsm s0.buf h nm hnr
  generalize hSA : setAll cfg s0.buf h nm = SA at *
  have hSAk : ∀ x, (SA x).uid = x.uid ∧ (SA x).closed = x.closed ∧ (SA x).subs = x.subs := by
    intro x; rw [← hSA]
    exact ⟨(setAll_keeps cfg s0.buf h nm x).1, by unfold setAll; exact (setReq_closed cfg s0.buf h x).2,
      (setAll_keeps cfg s0.buf h nm x).2⟩
  have hGuid : ∀ x, (G x).uid = x.uid := by
    rcases hG with ⟨hG, _⟩ | ⟨_, id, hG⟩ <;> intro x <;> rw [hG]
  have hGcl : ∀ x, (G x).closed = x.closed := by
    rcases hG with ⟨hG, _⟩ | ⟨_, id, hG⟩ <;> intro x <;> rw [hG]
  -- the field rewrite
  have t01 : Top cfg (s0.upd u SA) :=
    top_upd ok hfuel t0 u SA (fun x => (hSAk x).1) (fun x => (hSAk x).2.2) (fun x => (hSAk x).2.1)
  have j01 : J (s0.upd u SA) := J_upd j0 u SA (fun x => (hSAk x).1) (fun x => (hSAk x).2.1)
  have h01 : SimOn (· ≠ u) cfg a0 (s0.upd u SA) :=
    simOn_ne_step (hs0.on _) (fun v hv => find_upd_ne s0 u v SA (fun x => (hSAk x).1) hv) (fun _ _ => Iff.rfl)
      hs0.logNodup hs0.logBound rfl (minv_updU hs0.minv hu0 SA (fun x => (hSAk x).1)) rfl rfl rfl rfl
  have hfind01 : (s0.upd u SA).find u = some (SA m) := find_upd_self s0 u SA (fun x => (hSAk x).1) hm
  -- the nested stretch
  have t02 := cs.top t01
  have j02 := cs.j j01
  obtain ⟨e1, he1, _, hcl1⟩ := cs.nest.ext
  have h02 := simOn_quiet h01 t01.aopen t02.aopen cs.nest j02 e1 he1
  -- the acceptance
  have hfind3 : ∀ v, s3.find v = (s02.upd u G).find v := fun v => by unfold State.find; rw [hmods]
  have hnd3 : s3.loggers.Nodup := by
    rw [hlog]; split
    · exact nodup_setAdd _ _ h02.logNodup
    · exact h02.logNodup
  have hbd3 : ∀ v, v ∈ s3.loggers → v ≤ s3.nextUid := by
    intro v hv
    rw [hn]
    rw [hlog] at hv
    split at hv
    · rcases (mem_setAdd _ _ _).mp hv with h | h
      · exact h02.logBound v h
      · subst h
        rw [cs.nest.nuid]
        show v ≤ s0.nextUid
        cases Nat.lt_or_ge s0.nextUid v with
        | inl hlt => have := sim_fresh hs0 v hlt; rw [hm] at this; cases this
        | inr hge => exact hge
    · exact h02.logBound v hv
  have hmi3 : MInvOn (· ≠ u) cfg s3 := by
    have h2 := h02.minv
    refine ⟨by rw [hmods, uids_upd s02 u G hGuid]; exact h2.distinct, fun m0 hm0 => ?_, fun v mv hv hmv hc => ?_, hdyn3⟩
    · rw [hfind3, find_upd_ne s02 u 0 G hGuid (fun e => hu0 e.symm)] at hm0; exact h2.mgr m0 hm0
    · rw [hfind3, find_upd_ne s02 u v G hGuid hv] at hmv; exact h2.unconn v mv hv hmv hc
  have h3 : SimOn (· ≠ u) cfg (Spec.applyDepartures a0 e1) s3 :=
    simOn_ne_step h02 (fun v hv => by rw [hfind3, find_upd_ne s02 u v G hGuid hv])
      (fun v hv => by
        rw [hlog]; split
        · rw [mem_setAdd]; exact ⟨fun h => h.resolve_right hv, Or.inl⟩
        · exact Iff.rfl) hnd3 hbd3 hidx hmi3 hn hf hb hw
  have hlive1 : ∀ v, (Spec.applyDepartures a0 e1).live v = if (Spec.closes e1).contains v then none else a0.live v :=
    Spec.applyDepartures_live a0 e1
  obtain ⟨c1, c2, c3, c4, c5⟩ := Spec.applyDepartures_core a0 e1
  have hout : s3.out = s0.out ++ e1 := by rw [ho, he1]; rfl
  have hq : dataSends isAck e1 = [] := quiet_ext he1 cs.quiet
  have hsurv : ∀ v, (s0.find v).isSome → failOf s0 v = none → (s3.find v).isSome := by
    intro v hv hfv
    have h1 : ((s0.upd u SA).find v).isSome := by rw [find_upd s0 u v SA (fun x => (hSAk x).1), Option.isSome_map]; exact hv
    have h2 := pres_survive cs.pres v hfv h1
    rw [hfind3, find_upd s02 u v G hGuid, Option.isSome_map]; exact h2
  cases h2u : s02.find u with
  | none =>
    -- dropped during the nested stretch
    have hclose : Ev.close u ∈ e1 :=
      hcl1 u ⟨SA m, hfind01, by rw [(hSAk m).2.1]; exact t0.aopen u m hm⟩ (fun ⟨x, hx, _⟩ => by rw [h2u] at hx; cases hx)
    have h3u : s3.find u = none := by rw [hfind3, find_upd s02 u u G hGuid, h2u]; rfl
    have hdead : (Spec.applyDepartures a0 e1).live u = none := by
      rw [hlive1]
      have : (Spec.closes e1).contains u = true := by simpa using (mem_closes e1 u).mpr hclose
      simp only [this, if_true]
    refine ⟨e1, Spec.applyDepartures a0 e1, hout, hq, simOn_dead h3 hdead h3u, Spec.applyDepartures_uids a0 e1, c4, c2, c1.trans hbuf, c3,
      fun _ _ => rfl, hsurv, Or.inl ⟨h3u, hdead, hclose⟩⟩
  | some m2 =>
    obtain ⟨m1, hm1, hcore⟩ := cs.nest.surv u m2 h2u (t02.aopen u m2 h2u)
    rw [hfind01] at hm1; cases hm1
    have hm2 : m2.modId = (SA m).modId ∧ m2.unique = (SA m).unique ∧ m2.isLogger = (SA m).isLogger ∧
        m2.isDaemon = (SA m).isDaemon ∧ m2.name = (SA m).name ∧ m2.pid = (SA m).pid ∧ m2.subs = (SA m).subs := by
      unfold Module.core at hcore; cases m2; cases hsa : SA m; simp_all
    have h3u : s3.find u = some (G m2) := by rw [hfind3]; exact find_upd_self s02 u G hGuid h2u
    have hnotclosed : Ev.close u ∉ e1 := by
      intro hc
      have := closed_gone t02.aopen j02 e1 he1 u hc
      rw [h2u] at this; cases this
    have halive : (Spec.applyDepartures a0 e1).live u = some am := by
      rw [hlive1]
      have : (Spec.closes e1).contains u = false := by
        cases hc : (Spec.closes e1).contains u with
        | false => rfl
        | true => exact absurd ((mem_closes e1 u).mp (by simpa using hc)) hnotclosed
      simp only [this, Bool.false_eq_true, if_false]; exact hlive
    generalize hr : Spec.reqOf cfg am h s0.buf = r at *
    have hcu : ∀ x, (Spec.connUpd r nm (G m2).modId x).uid = x.uid := fun _ => rfl
    have hca : ∀ x, (Spec.connUpd r nm (G m2).modId x).alive = x.alive := fun _ => rfl
    have hb3live : ∀ v, ((Spec.applyDepartures a0 e1).upd u (Spec.connUpd r nm (G m2).modId)).live v =
        ((Spec.applyDepartures a0 e1).live v).map (fun x => if x.uid == u then Spec.connUpd r nm (G m2).modId x else x) :=
      fun v => live_upd _ u v _ hcu hca
    have hamuid : am.uid = u := Spec.get_uid (Spec.live_some.mp hlive).1
    have hb3u : ((Spec.applyDepartures a0 e1).upd u (Spec.connUpd r nm (G m2).modId)).live u =
        some (Spec.connUpd r nm (G m2).modId am) := by
      rw [hb3live, halive]; simp [hamuid]
    -- the record of the requester after the acceptance
    have hGf : (G m2).connected = true ∧ (G m2).unique = m2.unique ∧ (G m2).isLogger = m2.isLogger ∧
        (G m2).isDaemon = m2.isDaemon ∧ (G m2).name = m2.name ∧ (G m2).pid = m2.pid ∧ (G m2).subs = m2.subs := by
      rcases hG with ⟨hG, _⟩ | ⟨_, id, hG⟩ <;> rw [hG] <;> exact ⟨rfl, rfl, rfl, rfl, rfl, rfl, rfl⟩
    have hsm3 : SimMod cfg (Spec.connUpd r nm (G m2).modId am) (G m2) := by
      obtain ⟨g1, g2, g3, g4, g5, g6, g7⟩ := hGf
      obtain ⟨k1, k2, k3, k4, k5, k6, k7⟩ := hm2
      exact ⟨g1.symm, rfl, by show r.unique = _; rw [g2, k2, r3], by show r.isLogger = _; rw [g3, k3, r4],
        by show r.isDaemon = _; rw [g4, k4, r5], by show nm = _; rw [g5, k5, r7], by show r.pid = _; rw [g6, k6, r6],
        by show (G m2).subs = if am.subAll then _ else am.types; rw [g7, k7, r8]; exact hsm.subs, hsm.noAll⟩
    have hlog3 : (G m2).isLogger = true ↔ u ∈ s3.loggers := by
      rw [hGf.2.2.1, hm2.2.2.1, hlog]
      by_cases hlg : (SA m).isLogger = true
      · simp only [hlg, if_true, mem_setAdd, or_true]
      · simp only [hlg, Bool.false_eq_true, if_false, false_iff]
        intro hin
        have hin0 : u ∈ s0.loggers := cs.nest.logSub.subset hin
        have := hs0.logConn u m hm (hs0.logOut u m hin0 hm)
        rw [hcn] at this; cases this
    have hw3 : u ∈ ((Spec.applyDepartures a0 e1).upd u (Spec.connUpd r nm (G m2).modId)).w ↔ u ∈ s3.wlist := by
      show u ∈ (Spec.applyDepartures a0 e1).w ↔ _
      rw [c3, hw, cs.nest.wlist]
      exact hs0.w u (by simp [hlive])
    have hidxU : ∀ t, t ∈ (G m2).subs → u ∈ idxGet s3.idx t := by
      intro t ht
      rw [hGf.2.2.2.2.2.2, hm2.2.2.2.2.2.2, r8] at ht
      rw [hidx]
      exact cs.nest.idxKeep t u (hs0.idxIn u m t hm ht) ⟨m2, h2u, t02.aopen u m2 h2u⟩
    have hsim3 := simOn_alive (simOn_ne_updA h3 _ hcu) _ (G m2) hb3u h3u hsm3 hw3 hlog3 (fun _ => hGf.1) hidxU
      (fun hc => by rw [hGf.1] at hc; cases hc)
    have hrb := hrecBody m2 (find_uid h2u) (by rw [hm2.2.2.2.2.2.1]) (by rw [hm2.2.2.1]) (by rw [hm2.2.1]) (by rw [hm2.2.2.2.2.1])
      (by rw [hm2.1])
    refine ⟨e1, _, hout, hq, hsim3, by rw [Spec.uids_upd _ u _ hcu, Spec.applyDepartures_uids], c4, c2, c1.trans hbuf, c3, ?_, hsurv,
      Or.inr ⟨G m2, h3u, hnotclosed, hb3u, fun hne => ?_, hrb.1, fun hz => hrb.2 (by rw [← r2]; exact hz)⟩⟩
    · intro v hv
      show ((Spec.applyDepartures a0 e1).upd u (Spec.connUpd r nm (G m2).modId)).live v = _
      unfold Spec.A.live
      rw [Spec.get_upd_ne _ u v _ hcu hv]
    · rcases hG with ⟨hG, _⟩ | ⟨hz, _⟩
      · rw [hG, r2]; exact hm2.1
      · exact absurd (r2.trans hz) hne

theorem contains_app (l1 l2 : List Nat) (v : Nat) : (l1 ++ l2).contains v = (l1.contains v || l2.contains v) := by
  simp

/-- live entries after the whole segment, computed in one go (Spec) or in two stretches (model) -/
theorem liveEq_two (a0 b3 x : A) (e1 e2 : List Ev) (u : Nat)
    (hne : ∀ v, v ≠ u → b3.live v = (Spec.applyDepartures a0 e1).live v) (hx : ∀ v, v ≠ u → x.live v = a0.live v)
    (hu : (Spec.applyDepartures x (e1 ++ e2)).live u = (Spec.applyDepartures b3 e2).live u) :
    ∀ v, (Spec.applyDepartures x (e1 ++ e2)).live v = (Spec.applyDepartures b3 e2).live v := by
  intro v
  by_cases hv : v = u
  · subst hv; exact hu
  · rw [Spec.applyDepartures_live, Spec.applyDepartures_live, hne v hv, Spec.applyDepartures_live, hx v hv, closes_app]
    rw [contains_app]
    cases h1 : (Spec.closes e1).contains v <;> cases h2 : (Spec.closes e2).contains v <;> rfl

/-! ## CONNECT from a connection that is not connected yet -/

section conn
variable {cfg : Cfg} (ok : CfgOK cfg) (hfuel : cfg.fuel = 0) (hperm : OrdPerm cfg)
  {a : A} {s : State} (inv : Inv cfg a s) (rd : Read) (hu0 : rd.uid ≠ 0) (m : Module) (hm : s.find rd.uid = some m)
  (am : AMod) (hget : a.get rd.uid = some am) (hal : am.alive = true) (hsm : SimMod cfg am m)
  (s2 : State) (evs : List Ev) (he : s2.out = (rdState cfg s rd).out ++ evs)
  (hb : Spec.brokenRd cfg rd = false)
  (hc : (rd.h.mtype == cfg.mtConnect || rd.h.mtype == cfg.mtConnectV2) = true) (hcn : am.connected = false)
include ok hfuel hperm inv hu0 hm hget hal hsm he hb hc hcn

/-- the refusal: fields of `u` rewritten (`g`), nested activity, `logger.error`, `remove_module` -/
theorem seg_connect_refused (g : Module → Module) (s02 : State)
    (hg : ∀ x, (g x).uid = x.uid ∧ (g x).closed = x.closed ∧ (g x).subs = x.subs)
    (cs : CStep cfg ((rdState cfg s rd).upd rd.uid g) s02)
    (why : RefuseWhy cfg (rdState cfg s rd) rd.uid rd.h m)
    (q : QuietTo cfg (removeModule cfg (fwdTop cfg) (logAt cfg (fwdTop cfg) 40 s02) rd.uid) s2) :
    SegGoal cfg a rd evs s2 := by
  have hs0 := rdState_sim inv.sim rd
  have t00 := rdState_top ok hfuel inv.top rd
  have hm0 : (rdState cfg s rd).find rd.uid = some m := hm
  have hcn' : m.connected = false := by rw [← hsm.connected]; exact hcn
  have t01 : Top cfg ((rdState cfg s rd).upd rd.uid g) :=
    top_upd ok hfuel t00 rd.uid g (fun x => (hg x).1) (fun x => (hg x).2.2) (fun x => (hg x).2.1)
  have n : Nest ((rdState cfg s rd).upd rd.uid g) s2 :=
    ((cs.nest.trans (logTop_nest cfg 40 s02)).trans (removeTop_nest cfg _ rd.uid)).trans q.nest
  have qa : Quiet isAck ((rdState cfg s rd).upd rd.uid g) s2 :=
    ((cs.quiet.trans (qa_log cfg 40 s02)).trans (qa_remove cfg _ rd.uid)).trans q.noAck
  have he' : s2.out = ((rdState cfg s rd).upd rd.uid g).out ++ evs := he
  have hnil : Spec.ackSends evs = [] := ackSends_nil evs (quiet_ext he' qa)
  have hbufs := bufs_eq inv.sim rd
  have hall : OrdAll cfg := OrdAll_of_perm hperm
  have dE : DepE cfg (some rd.uid) none s2 evs := by
    have dtL := dt_log ok hall hfuel (cs.top t01) 40
    have dtR := dt_remove ok hall hfuel dtL.top rd.uid
    exact depE_of ((((cs.dep t01).anyJ _).trans (dtL.dep.anyJ _) dtL.bk).trans dtR.dep dtR.bk) q evs he'
  -- the decision is one the Spec tolerates
  have hok : ¬(Spec.ackSends evs = [] ∧ (Spec.afterBuf cfg a rd).failing rd.uid = true) → ∀ nm,
      (Spec.reqOf cfg am rd.h (Spec.afterBuf cfg a rd).buf).name = some nm →
      Spec.ConnOK cfg (Spec.afterBuf cfg a rd) rd.uid (Spec.reqOf cfg am rd.h (Spec.afterBuf cfg a rd).buf) nm evs := by
    intro _ nm hnm
    rw [hbufs] at hnm ⊢
    unfold Spec.ConnOK
    cases why with
    | badName hbad =>
      rw [req_name_none am _ rd.h m.name hbad] at hnm; cases hnm
    | range nm' hnr hid hrg =>
      obtain ⟨r1, r2, r3, _, _, _, r7, _, _⟩ := req_setAll hsm (rdState cfg s rd).buf rd.h nm' hnr
      rw [r1] at hnm; cases hnm
      have hrid : ((Spec.reqOf cfg am rd.h (rdState cfg s rd).buf).modId != 0) = true := by rw [r2]; simpa using hid
      rw [if_pos hrid]
      refine ⟨fun hne => absurd hnil hne, fun _ => ?_⟩
      unfold Spec.mayRefuse Spec.mustRefuse
      have : (decide ((Spec.reqOf cfg am rd.h (rdState cfg s rd).buf).modId < 1) ||
          decide ((Spec.reqOf cfg am rd.h (rdState cfg s rd).buf).modId > cfg.dynStart)) = true := by
        rw [r2]; rcases hrg with h | h <;> simp [h]
      simp only [hrid, this, Bool.true_and, Bool.true_or]
    | clash nm' o hnr hid ho hou hcl =>
      obtain ⟨r1, r2, r3, _, _, _, r7, _, _⟩ := req_setAll hsm (rdState cfg s rd).buf rd.h nm' hnr
      rw [r1] at hnm; cases hnm
      have hrid : ((Spec.reqOf cfg am rd.h (rdState cfg s rd).buf).modId != 0) = true := by rw [r2]; simpa using hid
      rw [if_pos hrid]
      refine ⟨fun hne => absurd hnil hne, fun _ => ?_⟩
      have ho' := mem_upd_ne ho hou (fun x => (setAll_keeps cfg _ rd.h nm x).1)
      have := may_of_clash hs0 rd.uid (Spec.reqOf cfg am rd.h (rdState cfg s rd).buf) nm _ o ho' hou hcl hid r2 r3 r7
      rw [← hbufs] at this ⊢
      exact this
    | full nm' hnr hid hnone =>
      obtain ⟨r1, r2, _⟩ := req_setAll hsm (rdState cfg s rd).buf rd.h nm' hnr
      rw [r1] at hnm; cases hnm
      have hrid : ((Spec.reqOf cfg am rd.h (rdState cfg s rd).buf).modId != 0) = false := by rw [r2, hid]; rfl
      rw [hrid]
      simp only [Bool.false_eq_true, if_false]
      refine ⟨fun hne => absurd hnil hne, fun _ => ?_⟩
      exact dynFull_of_none hs0 rd.uid m hm0 _ (fun x => (setAll_keeps cfg _ rd.h nm x).1) hid hcn' hu0 hnone
  obtain ⟨Y, hY, hcases⟩ := Spec.segment_connect_cases_c06 cfg a rd evs am hget hal hb hc hcn hok (fun _ => hnil)
  -- the CLIENT_INFO frames (of the periodic section) describe the table as it was; the requester is not connected
  have hinfo : InfoTo (rdState cfg s rd) (· = rd.uid) (rdState cfg s rd) s2 := by
    have i0 : InfoTo (rdState cfg s rd) (· = rd.uid) (rdState cfg s rd) ((rdState cfg s rd).upd rd.uid g) := infoTo_same rfl
    have i1 : InfoTo (rdState cfg s rd) (· = rd.uid) ((rdState cfg s rd).upd rd.uid g) s02 := infoTo_quiet cs.pres cs.qinfo
    have i2 := infoTo_log cfg (rdState cfg s rd) (· = rd.uid) 40 s02
    have i3 := infoTo_remove cfg (rdState cfg s rd) (· = rd.uid) (logAt cfg (fwdTop cfg) 40 s02) rd.uid
    have b0 : IdBack (rdState cfg s rd) ((rdState cfg s rd).upd rd.uid g) (· = rd.uid) :=
      idBack_find _ rfl (fun v hv m' hm' => by rw [find_upd_ne _ rd.uid v g (fun x => (hg x).1) hv] at hm'; exact hm')
    have b1 := idBack_pres (· = rd.uid) (cs.pres.trans (logAt_presAny cfg 40 s02))
    have b2 := idBack_remove cfg (· = rd.uid) (logAt cfg (fwdTop cfg) 40 s02) rd.uid
    have i4 := infoTo_rebaseE (infoTo_mono q.info (fun _ h => h.elim)) (idBack_trans (idBack_trans b0 b1) b2)
    exact infoTo_trans (infoTo_trans (infoTo_trans (infoTo_trans i0 i1) i2) i3) i4
  -- the other connections
  have h0 : SimOn (· ≠ rd.uid) cfg (Spec.afterBuf cfg a rd) ((rdState cfg s rd).upd rd.uid g) :=
    simOn_ne_step (hs0.on _) (fun v hv => find_upd_ne _ rd.uid v g (fun x => (hg x).1) hv)
      (fun _ _ => Iff.rfl) hs0.logNodup hs0.logBound rfl (minv_updU hs0.minv hu0 g (fun x => (hg x).1)) rfl rfl rfl rfl
  have h2 := simOn_quiet h0 t01.aopen q.top.aopen n q.j evs he'
  -- the requester: closed in the segment, gone from the table
  have hgone : s2.find rd.uid = none :=
    nest_gone q.nest q.top.aopen rd.uid (removeModule_none cfg (fwdTop cfg) _ rd.uid)
  have hopen : openIn ((rdState cfg s rd).upd rd.uid g) rd.uid :=
    ⟨g m, find_upd_self _ rd.uid g (fun x => (hg x).1) hm0, by rw [(hg m).2.1]; exact inv.top.aopen rd.uid m hm⟩
  obtain ⟨ext, hext, _, hcl⟩ := n.ext
  have hee : ext = evs := List.append_cancel_left (hext.symm.trans he')
  subst hee
  have hclosed : Ev.close rd.uid ∈ ext := hcl rd.uid hopen (fun ⟨x, hx, _⟩ => by rw [hgone] at hx; cases hx)
  have hdead : (Spec.applyDepartures (Spec.afterBuf cfg a rd) ext).live rd.uid = none := by
    rw [Spec.applyDepartures_live]
    have : (Spec.closes ext).contains rd.uid = true := by simpa using (mem_closes ext rd.uid).mpr hclosed
    simp only [this, if_true]
  have hsim := simOn_dead h2 hdead hgone
  have hW : ∃ W, Spec.CoreExt othersCore (Spec.afterBuf cfg a rd) W ∧
      Spec.segment cfg a rd ext = Spec.applyDepartures W ext := by
    rcases hcases with ⟨_, hw⟩ | ⟨nm, _, hne, _⟩
    · obtain ⟨W, hseg, hform⟩ := hw hnil
      have hD := dep_ext_fin _ ext hsim q.top.aopen q.j q.t he' hY.core (some rd.uid) dE
        (fun u hu => by cases hu; exact hclosed)
      rcases hform with ⟨_, rfl⟩ | ⟨_, rfl⟩
      · exact ⟨_, (ext_others hY).trans (ext_others hD), hseg⟩
      · refine ⟨_, ?_, hseg⟩
        rw [checkInfos_pass hs0 hinfo ext he (fun v am' hv hg' => by
          rw [hv] at hg'
          have hg'' : a.get rd.uid = some am' := hg'
          rw [hget] at hg''; cases hg''; exact hcn) (hD.mods.trans hY.mods)]
        exact (ext_others hY).trans (ext_others hD)
    · exact absurd hnil hne
  obtain ⟨W, hW, hseg⟩ := hW
  refine segGoal_of hseg rfl ⟨⟨sim_coreExt hsim (Spec.applyDepartures_coreExt hW ext), q.top, q.j, q.t⟩, fun p hp hn => ?_⟩
  exact noErr_applyDepartures ext (hW.noErr hp hn)

/-- the acceptance: fields rewritten, nested activity, `connected := true` and the logger set, then `send_ack`,
    CLIENT_INFO and the INFO log line -/
theorem seg_connect_accepted (nm : List Nat) (s02 : State) (G : Module → Module) (s3 : State)
    (hnr : (if rd.h.mtype == cfg.mtConnectV2 then cstr (rdState cfg s rd).buf 12 32 else some m.name) = some nm)
    (cs : CStep cfg ((rdState cfg s rd).upd rd.uid (setAll cfg (rdState cfg s rd).buf rd.h nm)) s02)
    (hG : (∀ x, G x = { x with connected := true }) ∧ (setAll cfg (rdState cfg s rd).buf rd.h nm m).modId ≠ 0 ∧
          ¬((setAll cfg (rdState cfg s rd).buf rd.h nm m).modId < 1 ∨
            (setAll cfg (rdState cfg s rd).buf rd.h nm m).modId > cfg.dynStart) ∧
          (∀ o ∈ ((rdState cfg s rd).upd rd.uid (setAll cfg (rdState cfg s rd).buf rd.h nm)).mods, o.uid ≠ rd.uid →
            Mgr.clash (setAll cfg (rdState cfg s rd).buf rd.h nm m) o = false) ∧
          s3.nextDyn = s02.nextDyn ∨
        (setAll cfg (rdState cfg s rd).buf rd.h nm m).modId = 0 ∧ ∃ id off,
          assignId cfg ((rdState cfg s rd).upd rd.uid (setAll cfg (rdState cfg s rd).buf rd.h nm)) = some (id, off) ∧
          (∀ x, G x = { x with modId := id, connected := true }) ∧ s3.nextDyn = off)
    (hmods : s3.mods = (s02.upd rd.uid G).mods)
    (hlog : s3.loggers = (if (setAll cfg (rdState cfg s rd).buf rd.h nm m).isLogger then setAdd s02.loggers rd.uid
      else s02.loggers))
    (hidx : s3.idx = s02.idx)
    (hn : s3.nextUid = s02.nextUid) (hf : s3.fail = s02.fail) (hbf : s3.buf = s02.buf) (hw : s3.wlist = s02.wlist)
    (ho : s3.out = s02.out)
    (hconn : connectModule cfg (rdState cfg s rd) rd.uid rd.h = (s3, true))
    (q : QuietTo cfg (logAt cfg (fwdTop cfg) 20 (infoOf cfg (sendAck cfg s3 rd.uid)
      (connectRecord cfg (rdState cfg s rd) rd.uid rd.h))) s2) :
    SegGoal cfg a rd evs s2 := by
  have hs0 := rdState_sim inv.sim rd
  have t00 := rdState_top ok hfuel inv.top rd
  have j00 : J (rdState cfg s rd) := rdState_J inv.j rd
  have hm0 : (rdState cfg s rd).find rd.uid = some m := hm
  have hlive0 : (Spec.afterBuf cfg a rd).live rd.uid = some am := Spec.live_some.mpr ⟨hget, hal⟩
  have hcn' : m.connected = false := by rw [← hsm.connected]; exact hcn
  have hall : OrdAll cfg := OrdAll_of_perm hperm
  have hGk : ∀ x, (G x).uid = x.uid ∧ (G x).closed = x.closed ∧ (G x).isLogger = x.isLogger := by
    intro x
    rcases hG with ⟨h1, _⟩ | ⟨_, id', off', _, h1, _⟩ <;> (rw [h1 x]; exact ⟨rfl, rfl, rfl⟩)
  have bk23 : Back cfg s02 s3 := by
    intro o ⟨m', hm', hc', hf', hi', hw'⟩
    have hfind : s3.find o = (s02.find o).map (fun x => if x.uid == rd.uid then G x else x) := by
      have : s3.find o = (s02.upd rd.uid G).find o := by unfold State.find; rw [hmods]
      rw [this]; exact find_upd s02 rd.uid o G (fun x => (hGk x).1)
    rw [hfind] at hm'
    cases h0 : s02.find o with
    | none => simp [h0] at hm'
    | some x =>
      simp only [h0, Option.map_some, Option.some.injEq] at hm'
      refine ⟨x, h0, ?_, by rw [← failOf_congr hf]; exact hf', by rw [← hidx]; exact hi', ?_⟩
      · subst hm'; split at hc'
        · rw [← (hGk x).2.1]; exact hc'
        · exact hc'
      · rcases hw' with h | h
        · exact Or.inl (by rw [← hw]; exact h)
        · right; subst hm'; split at h
          · rw [← (hGk x).2.2]; exact h
          · exact h
  have t01 : Top cfg ((rdState cfg s rd).upd rd.uid (setAll cfg (rdState cfg s rd).buf rd.h nm)) :=
    top_upd ok hfuel t00 rd.uid _ (fun x => (setAll_keeps cfg _ rd.h nm x).1) (fun x => (setAll_keeps cfg _ rd.h nm x).2)
      (fun x => by unfold setAll; exact (setReq_closed cfg _ rd.h x).2)
  obtain ⟨e1, b3, hout3, hq1, hsim3, hu3, hna3, hfl3, hbf3, hw3, hne3, hsurv3, hcase⟩ :=
    connect_accept_state ok hfuel hs0 t00 j00 rd.uid hu0 m hm0 am hlive0 hsm hcn' rd.h nm hnr s02 G s3 cs hG hmods hlog hidx hn hf hbf hw ho
  have t3 : Top cfg s3 := by have := top_connect ok hfuel t00 rd.uid rd.h; rw [hconn] at this; exact this
  have j3 : J s3 := by have := connect_J cfg j00 rd.uid rd.h; rw [hconn] at this; exact this
  have tA : Top cfg (sendAck cfg s3 rd.uid) := top_sendAck ok hfuel t3 rd.uid
  have nA := sendAck_nest cfg s3 rd.uid
  generalize hrecdef : connectRecord cfg (rdState cfg s rd) rd.uid rd.h = rec at q hcase
  have n34 : Nest (sendAck cfg s3 rd.uid) (logAt cfg (fwdTop cfg) 20 (infoOf cfg (sendAck cfg s3 rd.uid) rec)) :=
    (infoOf_nest cfg _ rec).trans (logTop_nest cfg 20 _)
  have q34 : Quiet isAck (sendAck cfg s3 rd.uid) s2 := ((qa_info cfg _ rec).trans (qa_log cfg 20 _)).trans q.noAck
  have n3 : Nest s3 s2 := nA.trans (n34.trans q.nest)
  have dE : DepE cfg none none s2 evs := by
    have dt := ((dt_sendAck ok hall hfuel t3 rd.uid).bind (fun h' => dt_infoOf ok hall hfuel h' rec)).bind
      (fun h' => dt_log ok hall hfuel h' 20)
    exact depE_of (((cs.dep t01).trans (dep_same ho) bk23).trans dt.dep dt.bk) q evs he
  obtain ⟨e2, he2, _, hcl2⟩ := n3.ext
  obtain ⟨eA, heA, _, _⟩ := nA.ext
  obtain ⟨eR, heR, _, _⟩ := (n34.trans q.nest).ext
  have hevs : evs = e1 ++ e2 := by
    have : (rdState cfg s rd).out ++ evs = (rdState cfg s rd).out ++ (e1 ++ e2) := by
      rw [← he, he2, hout3, List.append_assoc]
    exact List.append_cancel_left this
  have he2' : e2 = eA ++ eR := by
    have : s3.out ++ e2 = s3.out ++ (eA ++ eR) := by rw [← he2, heR, heA, List.append_assoc]
    exact List.append_cancel_left this
  have hacksEq : dataSends isAck evs = dataSends isAck eA := by
    rw [hevs, he2', dataSends_append, dataSends_append, hq1, quiet_ext heR q34]; simp
  have hb4 : SimM cfg (Spec.applyDepartures b3 e2) s2 := sim_quiet hsim3 t3.aopen q.top.aopen n3 q.j e2 he2
  have hbufs := bufs_eq inv.sim rd
  obtain ⟨r1, r2, r3, _, _, _, r7, _, _⟩ := req_setAll hsm (rdState cfg s rd).buf rd.h nm hnr
  rw [hbufs] at hcase
  have hfail3 : s3.fail = (rdState cfg s rd).fail := by rw [← hsim3.fail, hfl3, hs0.fail]
  -- no acknowledgement at all: the requester's own connection is broken
  have hfailIfNil : Spec.ackSends evs = [] → (Spec.afterBuf cfg a rd).failing rd.uid = true := by
    intro hnil
    cases hfa : (Spec.afterBuf cfg a rd).failing rd.uid with
    | true => rfl
    | false =>
      have hnf0 : failOf (rdState cfg s rd) rd.uid = none := (failing_iff hs0.fail rd.uid).mp hfa
      have hin3 := hsurv3 rd.uid (by simp [hm0]) hnf0
      rcases hcase with ⟨h3none, _, _⟩ | ⟨m3, h3u, _, _, _, _, _⟩
      · rw [h3none] at hin3; cases hin3
      · have hnf3 : failOf s3 rd.uid = none := by rw [failOf_congr hfail3]; exact hnf0
        have f1 := (sendAck_facts cfg hperm hsim3 t3.aopen rd.uid m3 h3u eA heA).1 hnf3
        have : dataSends isAck eA = [] := by rw [← hacksEq]; rw [← ackSends_map, hnil]; rfl
        rw [this] at f1
        simp only [List.filter_nil, List.length_nil] at f1
        split at f1 <;> omega
  -- the decision is the one the Spec demands
  have hok : ¬(Spec.ackSends evs = [] ∧ (Spec.afterBuf cfg a rd).failing rd.uid = true) → ∀ nm',
      (Spec.reqOf cfg am rd.h (Spec.afterBuf cfg a rd).buf).name = some nm' →
      Spec.ConnOK cfg (Spec.afterBuf cfg a rd) rd.uid (Spec.reqOf cfg am rd.h (Spec.afterBuf cfg a rd).buf) nm' evs := by
    rw [hbufs]
    intro hnf nm' hnm'
    rw [r1] at hnm'; cases hnm'
    have hne : Spec.ackSends evs ≠ [] := fun hnil => hnf ⟨hnil, hfailIfNil hnil⟩
    unfold Spec.ConnOK
    by_cases hrid : ((Spec.reqOf cfg am rd.h (rdState cfg s rd).buf).modId != 0) = true
    · rw [if_pos hrid]
      refine ⟨fun _ => ?_, fun hnil => absurd hnil hne⟩
      rcases hG with ⟨_, _, hrg, hno, _⟩ | ⟨hz, _⟩
      · refine must_false hs0 rd.uid _ nm (setAll cfg (rdState cfg s rd).buf rd.h nm m) (fun o ho hou => ?_) hrg r2 r3 r7
        exact hno o (mem_upd_of _ ho hou) hou
      · rw [r2, hz] at hrid; cases hrid
    · rw [if_neg hrid]
      have hrz : (Spec.reqOf cfg am rd.h (rdState cfg s rd).buf).modId = 0 := by simpa using hrid
      refine ⟨fun _ => ?_, fun hnil => absurd hnil hne⟩
      -- the id the first ACKNOWLEDGE is addressed to is the id assigned
      rcases hcase with ⟨h3none, _, _⟩ | ⟨m3, h3u, _, _, _, _, hass⟩
      · exfalso; apply hne
        apply ackSends_nil; rw [hacksEq]
        have : eA = [] := by
          rw [sendAck_none cfg s3 rd.uid h3none] at heA
          exact List.append_right_eq_self.mp heA.symm
        rw [this]; rfl
      · obtain ⟨off, hassign⟩ := hass hrz
        have hcid : Spec.connId (Spec.reqOf cfg am rd.h (rdState cfg s rd).buf) evs = m3.modId := by
          unfold Spec.connId
          simp only [hrid, Bool.false_eq_true, if_false]
          cases hh : (Spec.ackSends evs).head? with
          | none => exact absurd (List.head?_eq_none_iff.mp hh) hne
          | some p =>
            have hp : p ∈ Spec.ackSends evs := List.mem_of_head? hh
            have := ackSends_frames evs (fun f => f = ackFrame cfg m3.modId)
              (fun p hp => sendAck_frames cfg s3 rd.uid m3 h3u eA heA p (by rw [← hacksEq]; exact hp)) p hp
            simp only at this ⊢
            rw [this]; rfl
        rw [hcid]
        refine ⟨?_, dyn_fresh hs0 rd.uid _ m3.modId off hassign⟩
        -- the id is in the dynamic range
        rcases hs0.minv.ndyn with hz | hlt
        · unfold assignId at hassign
          rw [hz] at hassign
          simp [assignLoop] at hassign
        · unfold assignId at hassign
          obtain ⟨_, k, hk, hidk⟩ := assignLoop_range _ _ _ _ _ _ _ hassign hlt
          rw [hidk]
          unfold maxDyn at hk
          omega
  obtain ⟨Y, hY, hcases⟩ := Spec.segment_connect_cases_c06 cfg a rd evs am hget hal hb hc hcn hok
    (fun hnone => by rw [hbufs, r1] at hnone; cases hnone)
  rw [hbufs] at hcases
  -- the end when the Spec makes no table update
  have noUpd : Spec.ackSends evs = [] →
      (Spec.applyDepartures (Spec.afterBuf cfg a rd) (e1 ++ e2)).live rd.uid = (Spec.applyDepartures b3 e2).live rd.uid →
      Ev.close rd.uid ∈ evs → SegGoal cfg a rd evs s2 := by
    intro hnil hlu hclosedU
    have hleq := liveEq_two (Spec.afterBuf cfg a rd) b3 (Spec.afterBuf cfg a rd) e1 e2 rd.uid hne3 (fun _ _ => rfl) hlu
    obtain ⟨c1, c2, c3, c4, _⟩ := Spec.applyDepartures_core (Spec.afterBuf cfg a rd) (e1 ++ e2)
    obtain ⟨d1, d2, d3, d4, _⟩ := Spec.applyDepartures_core b3 e2
    have hsim : SimM cfg (Spec.applyDepartures (Spec.afterBuf cfg a rd) evs) s2 := by
      rw [hevs]
      exact sim_liveEq hb4 hleq (by rw [Spec.applyDepartures_uids, Spec.applyDepartures_uids, hu3])
        (by rw [c4, d4, hna3]) (by rw [c2, d2, hfl3]) (by rw [c1, d1, hbf3]) (by rw [c3, d3, hw3])
    have hW : ∃ W, Spec.CoreExt othersCore (Spec.afterBuf cfg a rd) W ∧
        Spec.segment cfg a rd evs = Spec.applyDepartures W evs := by
      rcases hcases with ⟨_, hw⟩ | ⟨nm', _, hne, _⟩
      · obtain ⟨W, hseg, hform⟩ := hw hnil
        rcases hform with ⟨_, rfl⟩ | ⟨hnf, _⟩
        · exact ⟨_, (ext_others hY).trans (ext_others (dep_ext_fin _ evs hsim q.top.aopen q.j q.t he hY.core
            (some rd.uid) (dE.anyJ _) (fun u hu => by cases hu; exact hclosedU))), hseg⟩
        · rw [hfailIfNil hnil] at hnf; cases hnf
      · exact absurd hnil hne
    obtain ⟨W, hW, hseg⟩ := hW
    refine segGoal_of hseg rfl ⟨⟨sim_coreExt hsim (Spec.applyDepartures_coreExt hW evs), q.top, q.j, q.t⟩, fun p hp hn => ?_⟩
    exact noErr_applyDepartures evs (hW.noErr hp hn)
  rcases hcase with ⟨h3none, hb3none, hclose1⟩ | ⟨m3, h3u, hnc1, hb3u, hmid, hrecb, _⟩
  · -- the requester was dropped before it was accepted
    have hnil : Spec.ackSends evs = [] := by
      apply ackSends_nil; rw [hacksEq]
      have : eA = [] := by
        rw [sendAck_none cfg s3 rd.uid h3none] at heA
        exact List.append_right_eq_self.mp heA.symm
      rw [this]; rfl
    refine noUpd hnil ?_ (by rw [hevs]; exact List.mem_append.mpr (Or.inl hclose1))
    rw [Spec.applyDepartures_live, Spec.applyDepartures_live, hb3none, closes_app, contains_app]
    have : (Spec.closes e1).contains rd.uid = true := by simpa using (mem_closes e1 rd.uid).mpr hclose1
    rw [this]; cases (Spec.closes e2).contains rd.uid <;> rfl
  · have hopen3 : openIn s3 rd.uid := ⟨m3, h3u, t3.aopen rd.uid m3 h3u⟩
    have hc1 : (Spec.closes e1).contains rd.uid = false := by
      cases hcc : (Spec.closes e1).contains rd.uid with
      | false => rfl
      | true => exact absurd ((mem_closes e1 rd.uid).mp (by simpa using hcc)) hnc1
    by_cases hnil : Spec.ackSends evs = []
    · -- accepted, but the acknowledgement could not be written: the requester's own connection is broken
      refine noUpd hnil ?_ ?_
      rotate_left
      · rw [hevs]; refine List.mem_append.mpr (Or.inr ?_)
        have hfailing : failOf s3 rd.uid ≠ none := by
          intro hnf
          have := (failing_iff hs0.fail rd.uid).mpr (by rw [← failOf_congr hfail3]; exact hnf)
          rw [hfailIfNil hnil] at this; cases this
        have hgoneA : (sendAck cfg s3 rd.uid).find rd.uid = none := by
          have hts := trySend_fail_gone cfg s3 rd.uid (ackFrame cfg m3.modId) m3 h3u (t3.aopen rd.uid m3 h3u) hfailing
            t3.good.ok (top_trySend ok hfuel t3 rd.uid _ m3 h3u).aopen
          have : sendAck cfg s3 rd.uid = toLoggers cfg (ackFrame cfg m3.modId)
              (cfg.order (trySend cfg (fwdTop cfg) s3 rd.uid (ackFrame cfg m3.modId)).loggers)
              (trySend cfg (fwdTop cfg) s3 rd.uid (ackFrame cfg m3.modId)) := by
            unfold sendAck; simp only [h3u]
          rw [this] at tA ⊢
          exact nest_gone (toLoggers_nest cfg _ _ _) tA.aopen rd.uid hts
        have hgone2 : s2.find rd.uid = none := nest_gone (n34.trans q.nest) q.top.aopen rd.uid hgoneA
        exact hcl2 rd.uid hopen3 (fun ⟨x, hx, _⟩ => by rw [hgone2] at hx; cases hx)
      have hfailing : failOf s3 rd.uid ≠ none := by
        intro hnf
        have := (failing_iff hs0.fail rd.uid).mpr (by rw [← failOf_congr hfail3]; exact hnf)
        rw [hfailIfNil hnil] at this; cases this
      have hgoneA : (sendAck cfg s3 rd.uid).find rd.uid = none := by
        have hts := trySend_fail_gone cfg s3 rd.uid (ackFrame cfg m3.modId) m3 h3u (t3.aopen rd.uid m3 h3u) hfailing
          t3.good.ok (top_trySend ok hfuel t3 rd.uid _ m3 h3u).aopen
        have : sendAck cfg s3 rd.uid = toLoggers cfg (ackFrame cfg m3.modId)
            (cfg.order (trySend cfg (fwdTop cfg) s3 rd.uid (ackFrame cfg m3.modId)).loggers)
            (trySend cfg (fwdTop cfg) s3 rd.uid (ackFrame cfg m3.modId)) := by
          unfold sendAck; simp only [h3u]
        rw [this] at tA ⊢
        exact nest_gone (toLoggers_nest cfg _ _ _) tA.aopen rd.uid hts
      have hgone2 : s2.find rd.uid = none := nest_gone (n34.trans q.nest) q.top.aopen rd.uid hgoneA
      have hclose2 : Ev.close rd.uid ∈ e2 := hcl2 rd.uid hopen3 (fun ⟨x, hx, _⟩ => by rw [hgone2] at hx; cases hx)
      rw [Spec.applyDepartures_live, Spec.applyDepartures_live, closes_app, contains_app]
      have : (Spec.closes e2).contains rd.uid = true := by simpa using (mem_closes e2 rd.uid).mpr hclose2
      rw [this, Bool.or_true]; rfl
    · -- accepted and acknowledged
      rcases hcases with ⟨hor, _⟩ | ⟨nm', hnm', _, hseg⟩
      · rcases hor with h | h
        · exact absurd h hnil
        · rw [r1] at h; cases h
      · rw [r1] at hnm'; cases hnm'
        generalize hr : Spec.reqOf cfg am rd.h (rdState cfg s rd).buf = r at *
        -- the id the Spec records is the one the manager assigned
        have hcid : Spec.connId r evs = m3.modId := by
          unfold Spec.connId
          by_cases hz : (r.modId != 0) = true
          · simp only [hz, if_true]; exact (hmid (by simpa using hz)).symm
          · simp only [hz, Bool.false_eq_true, if_false]
            cases hh : (Spec.ackSends evs).head? with
            | none => exact absurd (List.head?_eq_none_iff.mp hh) hnil
            | some p =>
              have hp : p ∈ Spec.ackSends evs := List.mem_of_head? hh
              have := ackSends_frames evs (fun f => f = ackFrame cfg m3.modId)
                (fun p hp => sendAck_frames cfg s3 rd.uid m3 h3u eA heA p (by rw [← hacksEq]; exact hp)) p hp
              simp only at this ⊢
              rw [this]; rfl
        rw [hcid] at hseg
        have hYlive : ∀ v, Y.live v = (Spec.afterBuf cfg a rd).live v := by
          intro v; unfold Spec.A.live Spec.A.get; rw [hY.mods]
        have hcu : ∀ x, (Spec.connUpd r nm m3.modId x).uid = x.uid := fun _ => rfl
        have hca : ∀ x, (Spec.connUpd r nm m3.modId x).alive = x.alive := fun _ => rfl
        have hXlive : ∀ v, (Y.upd rd.uid (Spec.connUpd r nm m3.modId)).live v =
            ((Spec.afterBuf cfg a rd).live v).map (fun x => if x.uid == rd.uid then Spec.connUpd r nm m3.modId x else x) := by
          intro v; rw [live_upd Y rd.uid v _ hcu hca, hYlive]
        have hXu : (Y.upd rd.uid (Spec.connUpd r nm m3.modId)).live rd.uid = some (Spec.connUpd r nm m3.modId am) := by
          rw [hXlive, hlive0]; simp [Spec.get_uid hget]
        have hXne : ∀ v, v ≠ rd.uid → (Y.upd rd.uid (Spec.connUpd r nm m3.modId)).live v = (Spec.afterBuf cfg a rd).live v := by
          intro v hv; unfold Spec.A.live; rw [Spec.get_upd_ne Y rd.uid v _ hcu hv]
          show (match Y.get v with | some m => if m.alive then some m else none | none => none) = _
          have := hYlive v; unfold Spec.A.live at this; exact this
        have hXuids : (Y.upd rd.uid (Spec.connUpd r nm m3.modId)).mods.map (·.uid) =
            (List.range (Spec.afterBuf cfg a rd).nAccepted).map (· + 1) := by
          rw [Spec.uids_upd Y rd.uid _ hcu, hY.mods]; exact hs0.uids
        -- the live entries of the model-side abstract state are entries of the Spec's
        have hH1 : ∀ v bl, b3.live v = some bl → (Y.upd rd.uid (Spec.connUpd r nm m3.modId)).live v = some bl := by
          intro v bl hbl
          by_cases hv : v = rd.uid
          · subst hv; rw [hb3u] at hbl; rw [hXu]; exact hbl
          · rw [hne3 v hv, Spec.applyDepartures_live] at hbl
            rw [hXne v hv]
            split at hbl
            · cases hbl
            · exact hbl
        have hck : Spec.checkAcks cfg (Y.upd rd.uid (Spec.connUpd r nm m3.modId)) rd.uid true evs =
            Y.upd rd.uid (Spec.connUpd r nm m3.modId) := by
          refine checkAcks_via cfg hperm hsim3 t3.aopen rd.uid hu0 _ hXu ?_ hXuids hH1 ?_ eA evs heA hacksEq
          · show Y.fail = s3.fail
            rw [hY.fail, ← hfl3, hsim3.fail]
          · intro v l hl hfv
            have hsome : ((Spec.afterBuf cfg a rd).live v).isSome := by
              by_cases hv : v = rd.uid
              · subst hv; simp [hlive0]
              · rw [← hXne v hv, hl]; rfl
            obtain ⟨l0, hl0⟩ := Option.isSome_iff_exists.mp hsome
            have hv0 : v ≠ 0 := by
              rw [← Spec.get_uid (Spec.live_some.mp hl0).1]
              exact uid_pos hs0.uids (Spec.get_mem (Spec.live_some.mp hl0).1)
            have hin0 := (hs0.live v hv0).mp hsome
            have := hsurv3 v hin0 (by rw [← failOf_congr hfail3]; exact hfv)
            exact (hsim3.live v hv0).mpr this
        rw [hck] at hseg
        -- the CLIENT_INFO frames describe the table after the acceptance
        have hinfo : InfoTo s3 (fun _ => False) (rdState cfg s rd) s2 := by
          obtain ⟨pA, qA⟩ := sendAck_info cfg s3 rd.uid
          have i0 : InfoTo s3 (fun _ => False) (rdState cfg s rd)
              ((rdState cfg s rd).upd rd.uid (setAll cfg (rdState cfg s rd).buf rd.h nm)) := infoTo_same rfl
          have i0' : InfoTo s3 (fun _ => False) ((rdState cfg s rd).upd rd.uid (setAll cfg (rdState cfg s rd).buf rd.h nm)) s02 :=
            infoTo_quiet cs.pres cs.qinfo
          have i0'' : InfoTo s3 (fun _ => False) s02 s3 := infoTo_same ho
          have i1 : InfoTo s3 (fun _ => False) s3 (sendAck cfg s3 rd.uid) := infoTo_quiet pA qA
          have i2 : InfoTo s3 (fun _ => False) (sendAck cfg s3 rd.uid) (infoOf cfg (sendAck cfg s3 rd.uid) rec) := by
            refine infoTo_infoOf cfg s3 _ _ rec (Or.inr ⟨m3, ?_, hrecb⟩)
            have : rec.uid = rd.uid := by
              have h1 : infoBody m3 = infoBody rec := hrecb
              unfold infoBody at h1
              simp only [Body.info.injEq] at h1
              rw [← h1.1]; exact find_uid h3u
            rw [this]; exact h3u
          have i3 := infoTo_log cfg s3 (fun _ => False) 20 (infoOf cfg (sendAck cfg s3 rd.uid) rec)
          have p3 := (pA.trans (infoOf_presAny cfg _ rec)).trans (logAt_presAny cfg 20 _)
          exact infoTo_trans (infoTo_trans (infoTo_trans i0 i0') i0'')
            (infoTo_trans (infoTo_trans (infoTo_trans i1 i2) i3) (infoTo_rebase q.info p3))
        have hD0 := Spec.checkDepartures_ext cfg (Y.upd rd.uid (Spec.connUpd r nm m3.modId)) none evs
        have hinfos : Spec.checkInfos (Spec.checkDepartures cfg (Y.upd rd.uid (Spec.connUpd r nm m3.modId)) none evs) evs =
            Spec.checkDepartures cfg (Y.upd rd.uid (Spec.connUpd r nm m3.modId)) none evs := by
          have hgetX : ∀ v, (Spec.checkDepartures cfg (Y.upd rd.uid (Spec.connUpd r nm m3.modId)) none evs).get v =
              (Y.upd rd.uid (Spec.connUpd r nm m3.modId)).get v := fun v => by unfold Spec.A.get; rw [hD0.mods]
          refine checkInfos_core (cfg := cfg) hinfo evs he (fun v mv amv hmv hgv _ => ?_) (fun _ _ h => h.elim)
          rw [hgetX] at hgv
          have hv0 : v ≠ 0 := by rw [← Spec.get_uid hgv]; exact uid_pos hXuids (Spec.get_mem hgv)
          obtain ⟨bv, hbv⟩ := Option.isSome_iff_exists.mp ((hsim3.live v hv0).mpr (by simp [hmv]))
          have := (Spec.live_some.mp (hH1 v bv hbv)).1
          rw [hgv] at this; cases this
          exact hsim3.mods v amv mv hbv hmv
        rw [hinfos] at hseg
        have hlu : (Spec.applyDepartures (Y.upd rd.uid (Spec.connUpd r nm m3.modId)) (e1 ++ e2)).live rd.uid =
            (Spec.applyDepartures b3 e2).live rd.uid := by
          rw [Spec.applyDepartures_live, Spec.applyDepartures_live, closes_app, contains_app, hXu, hb3u, hc1,
            Bool.false_or]
        have hleq := liveEq_two (Spec.afterBuf cfg a rd) b3 (Y.upd rd.uid (Spec.connUpd r nm m3.modId)) e1 e2 rd.uid hne3
          hXne hlu
        obtain ⟨c1, c2, c3, c4, _⟩ := Spec.applyDepartures_core (Y.upd rd.uid (Spec.connUpd r nm m3.modId)) (e1 ++ e2)
        obtain ⟨d1, d2, d3, d4, _⟩ := Spec.applyDepartures_core b3 e2
        have hsim : SimM cfg (Spec.applyDepartures (Y.upd rd.uid (Spec.connUpd r nm m3.modId)) evs) s2 := by
          rw [hevs]
          refine sim_liveEq hb4 hleq ?_ ?_ ?_ ?_ ?_
          · rw [Spec.applyDepartures_uids, Spec.applyDepartures_uids, hu3, Spec.uids_upd Y rd.uid _ hcu, hY.mods]
          · rw [c4, d4, hna3]; exact hY.nAccepted
          · rw [c2, d2, hfl3]; exact hY.fail
          · rw [c1, d1, hbf3]; exact hY.buf
          · rw [c3, d3, hw3]; exact hY.w
        have hW : Spec.CoreExt othersCore (Y.upd rd.uid (Spec.connUpd r nm m3.modId))
            (Spec.checkDepartures cfg (Y.upd rd.uid (Spec.connUpd r nm m3.modId)) none evs) :=
          ext_others (dep_ext_fin _ evs hsim q.top.aopen q.j q.t he (Spec.CoreExt.refl [] _) none dE
            (fun u hu => by cases hu))
        refine segGoal_of2 hseg (a0 := Y.upd rd.uid (Spec.connUpd r nm m3.modId)) (fun p hp hn => ?_)
          ⟨⟨sim_coreExt hsim (Spec.applyDepartures_coreExt hW evs), q.top, q.j, q.t⟩, fun p hp hn =>
            noErr_applyDepartures evs (hW.noErr hp hn)⟩
        have : Spec.NoErr p Y := (ext_others hY).noErr hp (by unfold Spec.NoErr; exact hn)
        exact this

theorem seg_connect (q : QuietTo cfg (readOne cfg s rd) s2) : SegGoal cfg a rd evs s2 := by
  rw [readOne_whole cfg s rd inv.top.good.ok m hm hb, pm_connect cfg _ _ _ hc] at q
  have hcn' : m.connected = false := by rw [← hsm.connected]; exact hcn
  have hm0 : (rdState cfg s rd).find rd.uid = some m := hm
  rcases connect_paths ok hfuel (OrdAll_of_perm hperm) (rdState cfg s rd) rd.uid rd.h m hm0 hcn' with
    ⟨g, s02, hg, cs, why, hconn⟩ | ⟨nm, s02, G, s3, hnr, cs, hG, hmods, hlog, hidx, hn, hf, hbf, hw, ho, _, hconn⟩
  · rw [hconn] at q
    simp only [Bool.false_eq_true, if_false] at q
    exact seg_connect_refused ok hfuel hperm inv rd hu0 m hm am hget hal hsm s2 evs he hb hc hcn g s02 hg cs why q
  · rw [hconn] at q
    simp only [if_true] at q
    exact seg_connect_accepted ok hfuel hperm inv rd hu0 m hm am hget hal hsm s2 evs he hb hc hcn nm s02 G s3 hnr cs hG
      hmods hlog hidx hn hf hbf hw ho hconn q

end conn

/-! ## one frame read: all cases -/

/-- **One frame.**  The model reads a frame from connection `rd.uid` (which is in its table) in a state the abstract
state simulates, handles it (`readOne`), possibly goes on with a quiet continuation (the periodic section of the round);
`evs` are the events after the `rd` marker.  Then `Spec.segment` on those events re-establishes the simulation — and
reports no violation of a proved property. -/
theorem segment_ok {cfg : Cfg} (ok : CfgOK cfg) (hfuel : cfg.fuel = 0) (hperm : OrdPerm cfg) {a : A} {s : State}
    (inv : Inv cfg a s) (rd : Read) (hu0 : rd.uid ≠ 0) (m : Module) (hm : s.find rd.uid = some m)
    (s2 : State) (q : QuietTo cfg (readOne cfg s rd) s2) (evs : List Ev) (he : s2.out = s.out ++ Ev.rd rd.uid :: evs) :
    SegGoal cfg a rd evs s2 := by
  have he' : s2.out = (rdState cfg s rd).out ++ evs := by rw [rdState_out, he]; simp
  obtain ⟨am, ham⟩ := Option.isSome_iff_exists.mp ((inv.sim.live rd.uid hu0).mpr (by simp [hm]))
  obtain ⟨hget, hal⟩ := Spec.live_some.mp ham
  have hsm := inv.sim.mods rd.uid am m ham hm
  by_cases hb : Spec.brokenRd cfg rd = true
  · exact seg_broken ok hfuel (OrdAll_of_perm hperm) inv rd m hm am hget hal hsm s2 evs he' hb q
  · have hb' : Spec.brokenRd cfg rd = false := by simpa using hb
    by_cases hc : (rd.h.mtype == cfg.mtConnect || rd.h.mtype == cfg.mtConnectV2) = true
    · by_cases hcn : am.connected = true
      · exact seg_reconnect ok hfuel (OrdAll_of_perm hperm) inv rd m hm am hget hal hsm s2 evs he' hb' q hc hcn
      · exact seg_connect ok hfuel hperm inv rd hu0 m hm am hget hal hsm s2 evs he' hb' hc (by simpa using hcn) q
    · have hc' : (rd.h.mtype == cfg.mtConnect || rd.h.mtype == cfg.mtConnectV2) = false := by simpa using hc
      by_cases hd : (rd.h.mtype == cfg.mtDisconnect) = true
      · exact seg_disconnect ok hfuel (OrdAll_of_perm hperm) inv rd m hm am hget hal hsm s2 evs he' hb' q hc' hd
      · have hd' : (rd.h.mtype == cfg.mtDisconnect) = false := by simpa using hd
        by_cases hs : (rd.h.mtype == cfg.mtSubscribe || rd.h.mtype == cfg.mtResume || rd.h.mtype == cfg.mtUnsubscribe ||
            rd.h.mtype == cfg.mtPause) = true
        · exact seg_sub ok hfuel hperm inv rd hu0 m hm am hget hal hsm s2 evs he' hb' q hc' hd' hs
        · have hs' : (rd.h.mtype == cfg.mtSubscribe || rd.h.mtype == cfg.mtResume || rd.h.mtype == cfg.mtUnsubscribe ||
              rd.h.mtype == cfg.mtPause) = false := by simpa using hs
          by_cases hn : (rd.h.mtype == cfg.mtSetName) = true
          · cases hnm : cstr (rdState cfg s rd).buf 0 32 with
            | none => exact seg_setName_bad ok hfuel (OrdAll_of_perm hperm) inv rd m hm am hget hal hsm s2 evs he' hb' q hc' hd' hs' hn hnm
            | some nm => exact seg_setName ok hfuel (OrdAll_of_perm hperm) inv rd hu0 m hm am hget hal s2 evs he' hb' q hc' hd' hs' hn nm hnm
          · have hn' : (rd.h.mtype == cfg.mtSetName) = false := by simpa using hn
            by_cases hr : (rd.h.mtype == cfg.mtModuleReady) = true
            · exact seg_ready ok hfuel (OrdAll_of_perm hperm) inv rd hu0 m hm am hget hal s2 evs he' hb' q hc' hd' hs' hn' hr
            · exact (seg_data ok hfuel hperm inv rd m hm am hget hal s2 evs he' hb' q hc' hd' hs' hn' (by simpa using hr)).1

/-- **C14, "a logger is waited for", frame by frame.**  In the situation of `segment_ok`: the clause `checkLoggerWaited` that
`Spec.roundBody` evaluates on the events of the frame adds nothing — a logger that subscribes to the type of a data frame
gets its copy whether its connection is writable or not (for a data frame this is part of the exact-routing argument of
C01; a control frame or a broken frame is not routed). -/
theorem loggerWaited_ok {cfg : Cfg} (ok : CfgOK cfg) (hfuel : cfg.fuel = 0) (hperm : OrdPerm cfg) {a : A} {s : State}
    (inv : Inv cfg a s) (rd : Read) (hu0 : rd.uid ≠ 0) (m : Module) (hm : s.find rd.uid = some m)
    (s2 : State) (q : QuietTo cfg (readOne cfg s rd) s2) (evs : List Ev) (he : s2.out = s.out ++ Ev.rd rd.uid :: evs)
    (X : A) (hXm : X.mods = a.mods) (hXf : X.fail = a.fail) : Spec.checkLoggerWaited cfg X rd evs = X := by
  have he' : s2.out = (rdState cfg s rd).out ++ evs := by rw [rdState_out, he]; simp
  obtain ⟨am, ham⟩ := Option.isSome_iff_exists.mp ((inv.sim.live rd.uid hu0).mpr (by simp [hm]))
  obtain ⟨hget, hal⟩ := Spec.live_some.mp ham
  by_cases hb : Spec.brokenRd cfg rd = true
  · exact Spec.checkLoggerWaited_skip cfg X rd evs (Or.inl hb)
  · have hb' : Spec.brokenRd cfg rd = false := by simpa using hb
    by_cases hctl : Spec.isControl cfg rd.h.mtype = true
    · exact Spec.checkLoggerWaited_skip cfg X rd evs (Or.inr hctl)
    · have hctl' : Spec.isControl cfg rd.h.mtype = false := by simpa using hctl
      unfold Spec.isControl at hctl'
      simp only [Bool.or_eq_false_iff] at hctl'
      obtain ⟨⟨⟨⟨⟨⟨⟨⟨h1, h2⟩, h3⟩, h4⟩, h5⟩, h6⟩, h7⟩, h8⟩, h9⟩ := hctl'
      exact (seg_data ok hfuel hperm inv rd m hm am hget hal s2 evs he' hb' q (by simp [h1, h2]) h3
        (by simp [h4, h5, h6, h7]) h8 h9).2.1 X hXm hXf

/-- **All clauses of `Spec.checkData` on one data frame.**  The model reads a data frame (header and payload complete, not
a control type) from `rd.uid` in a state the abstract state `a` simulates and handles it, possibly followed by the periodic
section; `evs` are the events after the `rd` marker.  Then `Spec.checkData`, evaluated by `Spec.segment` on the abstract
state after the payload read, returns that state: the copies are as C01 demands, and every observer of FAILED_MESSAGE
that can take it has been written, about every subscriber the frame could not be handed to, at least as many notices
naming its module id and the frame's type, source and destination as there are such subscribers with that id (C14). -/
theorem dataClauses_ok {cfg : Cfg} (ok : CfgOK cfg) (hfuel : cfg.fuel = 0) (hperm : OrdPerm cfg) {a : A} {s : State}
    (inv : Inv cfg a s) (rd : Read) (hu0 : rd.uid ≠ 0) (m : Module) (hm : s.find rd.uid = some m)
    (s2 : State) (q : QuietTo cfg (readOne cfg s rd) s2) (evs : List Ev) (he : s2.out = s.out ++ Ev.rd rd.uid :: evs)
    (hb : Spec.brokenRd cfg rd = false) (hctl : Spec.isControl cfg rd.h.mtype = false) :
    Spec.checkData cfg (Spec.afterBuf cfg a rd) rd.h evs = Spec.afterBuf cfg a rd := by
  have he' : s2.out = (rdState cfg s rd).out ++ evs := by rw [rdState_out, he]; simp
  obtain ⟨am, ham⟩ := Option.isSome_iff_exists.mp ((inv.sim.live rd.uid hu0).mpr (by simp [hm]))
  obtain ⟨hget, hal⟩ := Spec.live_some.mp ham
  unfold Spec.isControl at hctl
  simp only [Bool.or_eq_false_iff] at hctl
  obtain ⟨⟨⟨⟨⟨⟨⟨⟨h1, h2⟩, h3⟩, h4⟩, h5⟩, h6⟩, h7⟩, h8⟩, h9⟩ := hctl
  exact (seg_data ok hfuel hperm inv rd m hm am hget hal s2 evs he' hb q (by simp [h1, h2]) h3
    (by simp [h4, h5, h6, h7]) h8 h9).2.2.1

end Pyrtma.Mgr
