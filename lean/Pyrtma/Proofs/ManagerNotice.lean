import Pyrtma.Proofs.ManagerSafe
import Pyrtma.Proofs.ManagerClose
/-! CLIENT_CLOSED notices in the manager model M1, globally: in every reachable state every connection has been written
    at most one CLIENT_CLOSED notice about any given departed connection.  Needs the subscription-index invariant (the
    subscriber snapshot of CLIENT_CLOSED lists nobody twice) and crash-freedom (a half-removed module is in no
    subscriber list, so its removal is never re-entered). -/
namespace Pyrtma.Mgr

def aboutClosed (v : Nat) : Body → Bool
  | .closed w _ _ _ _ _ => w == v
  | _ => false

/-- a CLIENT_CLOSED frame about `v` written to `o` -/
def isNotice (o v : Nat) : Ev → Bool
  | .send u _ f => u == o && aboutClosed v f.body
  | _ => false

def nTo (evs : List Ev) (o v : Nat) : Nat := evs.countP (isNotice o v)

def opn (s : State) (v : Nat) : Nat := if isOpen s v then 1 else 0

theorem nTo_snoc (evs : List Ev) (e : Ev) (o v : Nat) :
    nTo (evs ++ [e]) o v = nTo evs o v + (if isNotice o v e then 1 else 0) := by
  unfold nTo; rw [List.countP_append]; simp [List.countP_cons]

/-- (A) the potential `notices so far + [v still open]` does not grow; a connection that is not open stays so -/
structure StepA (o v : Nat) (s s' : State) : Prop where
  pot : nTo s'.out o v + opn s' v ≤ nTo s.out o v + opn s v
  stay : isOpen s v = false → isOpen s' v = false
  nuid : s'.nextUid = s.nextUid

/-- (B) at most `k` more notices, and `v` is not open afterwards -/
structure StepB (o v : Nat) (k : Nat) (s s' : State) : Prop where
  cnt : nTo s'.out o v ≤ nTo s.out o v + k
  stay : isOpen s' v = false
  nuid : s'.nextUid = s.nextUid

theorem StepA.refl (o v : Nat) (s : State) : StepA o v s s := ⟨Nat.le_refl _, id, rfl⟩

theorem StepA.trans {o v : Nat} {a b c : State} (h1 : StepA o v a b) (h2 : StepA o v b c) : StepA o v a c :=
  ⟨Nat.le_trans h2.pot h1.pot, fun h => h2.stay (h1.stay h), h2.nuid.trans h1.nuid⟩

theorem StepA.toB {o v : Nat} {s s' : State} (h : StepA o v s s') (hc : isOpen s v = false) : StepB o v 0 s s' := by
  have hs := h.stay hc
  have hp := h.pot
  unfold opn at hp
  rw [hc, hs] at hp
  exact ⟨by simpa using hp, hs, h.nuid⟩

theorem StepB.trans {o v k1 k2 : Nat} {a b c : State} (h1 : StepB o v k1 a b) (h2 : StepB o v k2 b c) :
    StepB o v (k1 + k2) a c :=
  ⟨by have := h1.cnt; have := h2.cnt; omega, h2.stay, h2.nuid.trans h1.nuid⟩

theorem StepB.weaken {o v k k' : Nat} {s s' : State} (h : StepB o v k s s') (hk : k ≤ k') : StepB o v k' s s' :=
  ⟨by have := h.cnt; omega, h.stay, h.nuid⟩

/-- (B) followed by (A) -/
theorem StepB.thenA {o v k : Nat} {a b c : State} (h1 : StepB o v k a b) (h2 : StepA o v b c) : StepB o v k a c := by
  have := (h2.toB h1.stay)
  simpa using h1.trans this

theorem stepA_same {o v : Nat} {s s' : State} (hm : s'.mods = s.mods) (ho : s'.out = s.out) (hn : s'.nextUid = s.nextUid) :
    StepA o v s s' := by
  have hop : isOpen s' v = isOpen s v := by unfold isOpen; rw [hm]
  exact ⟨by unfold opn; rw [ho, hop]; exact Nat.le_refl _, fun h => by rw [hop]; exact h, hn⟩

theorem stepA_upd (o v : Nat) (s : State) (u : Nat) (f : Module → Module) (hu : ∀ m, (f m).uid = m.uid)
    (hc : ∀ m, (f m).closed = m.closed) : StepA o v s (s.upd u f) := by
  have hop := isOpen_upd s u v f hu hc
  exact ⟨by unfold opn; rw [hop]; exact Nat.le_refl _, fun h => by rw [hop]; exact h, rfl⟩

theorem stepA_emit (o v : Nat) (s : State) (e : Ev) (he : isNotice o v e = false) : StepA o v s (s.emit e) := by
  have hop : isOpen (s.emit e) v = isOpen s v := rfl
  refine ⟨?_, fun h => by rw [hop]; exact h, rfl⟩
  show nTo (s.out ++ [e]) o v + opn (s.emit e) v ≤ _
  rw [nTo_snoc, he]; unfold opn; rw [hop]; simp

theorem stepA_crash (o v : Nat) (s : State) (w : String) : StepA o v s (s.crash w) := by
  unfold State.crash; split
  · exact StepA.refl o v s
  · exact stepA_same rfl rfl rfl

theorem stepA_count (cfg : Cfg) (o v : Nat) (s : State) (t : Int) : StepA o v s (countMsg cfg s t) := by
  unfold countMsg; split
  · exact stepA_same rfl rfl rfl
  · exact stepA_same rfl rfl rfl

theorem stepA_filter (o v : Nat) (s : State) (u : Nat) : StepA o v s { s with mods := s.mods.filter (·.uid != u) } := by
  have hop : isOpen { s with mods := s.mods.filter (·.uid != u) } v = true → isOpen s v = true := by
    intro hv
    unfold isOpen at hv ⊢
    rw [List.any_eq_true] at hv ⊢
    obtain ⟨x, hx, hp⟩ := hv
    exact ⟨x, (List.mem_filter.mp hx).1, hp⟩
  refine ⟨?_, fun h => ?_, rfl⟩
  · show nTo s.out o v + opn { s with mods := s.mods.filter (·.uid != u) } v ≤ nTo s.out o v + opn s v
    unfold opn
    cases h1 : isOpen { s with mods := s.mods.filter (·.uid != u) } v with
    | false => simp
    | true => rw [hop h1]; exact Nat.le_refl _
  · cases h1 : isOpen { s with mods := s.mods.filter (·.uid != u) } v with
    | false => rfl
    | true => rw [hop h1] at h; cases h

/-- writing a frame to `u` that is no notice about `v` to `o` -/
theorem sendRaw_A (o v : Nat) (s : State) (u : Nat) (f : Frame) (hf : (u == o && aboutClosed v f.body) = false) :
    StepA o v s (sendRaw s u f).1 := by
  unfold sendRaw
  cases s.find u with
  | none => exact stepA_crash o v s _
  | some m =>
    simp only
    split
    · exact stepA_crash o v s _
    · have h1 := stepA_upd o v s u (fun m => { m with msgCount := m.msgCount + 1 }) (fun _ => rfl) (fun _ => rfl)
      split
      · exact h1.trans (stepA_emit o v _ (.wfail u) rfl)
      · exact (h1.trans (stepA_emit o v _ (.partialW u) rfl)).trans (stepA_emit o v _ (.wfail u) rfl)
      · exact h1.trans (stepA_emit o v _ (.send u (m.msgCount + 1) f) hf)

/-- writing any frame to `u` when `v` is not open: at most one more notice, and only if `u = o` -/
theorem sendRaw_B (o v : Nat) (s : State) (u : Nat) (f : Frame) (hv : isOpen s v = false) :
    StepB o v (if u == o then 1 else 0) s (sendRaw s u f).1 := by
  cases huo : (u == o) with
  | false =>
    simp only [Bool.false_eq_true, if_false]
    exact (sendRaw_A o v s u f (by simp [huo])).toB hv
  | true =>
    simp only [if_true]
    unfold sendRaw
    cases s.find u with
    | none => exact ((stepA_crash o v s _).toB hv).weaken (Nat.zero_le 1)
    | some m =>
      simp only
      split
      · exact ((stepA_crash o v s _).toB hv).weaken (Nat.zero_le 1)
      · have h1 := (stepA_upd o v s u (fun m => { m with msgCount := m.msgCount + 1 }) (fun _ => rfl) (fun _ => rfl)).toB hv
        split
        · exact (h1.thenA (stepA_emit o v _ (.wfail u) rfl)).weaken (Nat.zero_le 1)
        · exact (h1.thenA ((stepA_emit o v _ (.partialW u) rfl).trans (stepA_emit o v _ (.wfail u) rfl))).weaken (Nat.zero_le 1)
        · refine ⟨?_, h1.stay, rfl⟩
          show nTo ((s.upd u fun m => { m with msgCount := m.msgCount + 1 }).out ++ [Ev.send u (m.msgCount + 1) f]) o v ≤ _
          rw [nTo_snoc]
          have : nTo (s.upd u fun m => { m with msgCount := m.msgCount + 1 }).out o v = nTo s.out o v := rfl
          rw [this]
          split <;> omega

theorem removePrep_A (o v : Nat) (s : State) (u : Nat) (m : Module) : StepA o v s (removePrep s u m) := by
  unfold removePrep
  dsimp only
  have h0 : StepA o v s ({ s with idx := m.subs.foldl (fun i t => idxDiscard i t u) s.idx,
                                  loggers := s.loggers.filter (· != u) } : State) := stepA_same rfl rfl rfl
  have hcl : ∀ s0 : State, StepA o v s0 (s0.upd u (fun m => { m with closed := true, connected := false })) := by
    intro s0
    have hop := isOpen_closed_upd s0 u v
    refine ⟨?_, fun h => by rw [hop, h]; simp, rfl⟩
    show nTo s0.out o v + opn (s0.upd u (fun m => { m with closed := true, connected := false })) v ≤ nTo s0.out o v + opn s0 v
    unfold opn
    rw [hop]
    cases h1 : isOpen s0 v <;> cases h2 : (v != u) <;> simp
  split
  · exact h0.trans (hcl _)
  · exact (h0.trans (stepA_emit o v _ (.close u) rfl)).trans (hcl _)

theorem removePrep_nTo (o v : Nat) (s : State) (u : Nat) (m : Module) :
    nTo (removePrep s u m).out o v = nTo s.out o v := by
  unfold removePrep
  dsimp only
  split
  · rfl
  · show nTo (s.out ++ [Ev.close u]) o v = _
    rw [nTo_snoc]; rfl

theorem removePrep_closed (s : State) (u : Nat) (m : Module) : isOpen (removePrep s u m) u = false := by
  unfold removePrep
  dsimp only
  split <;> (rw [isOpen_closed_upd]; simp)

/-- the nested-forward contract -/
def NOK (cfg : Cfg) (fwd : Fwd) (n : Nat) : Prop :=
  ∀ s g, Good cfg s → need cfg s g ≤ n → ∀ o v,
    (aboutClosed v g.body = false → StepA o v s (fwd s g)) ∧
    (aboutClosed v g.body = true → g.mtype ≠ cfg.allTypes → isOpen s v = false → StepB o v 1 s (fwd s g))

/-- iteration orders that neither invent nor repeat elements -/
def OrdOK (cfg : Cfg) : Prop := ∀ l : List Nat, l.Nodup → (cfg.order l).Nodup ∧ ∀ x, x ∈ cfg.order l → x ∈ l

section chain
variable {cfg : Cfg} (ok : CfgOK cfg) (hmt : cfg.mtClosed ≠ cfg.allTypes) {fwd : Fwd} {n : Nat}
  (hs : Safe cfg fwd n) (hn : NOK cfg fwd n)
include ok hmt hs hn

theorem logAt_A (o v : Nat) (lvl : Nat) {s : State} (h : Good cfg s) (hb : 2 * live s + 1 ≤ n) :
    StepA o v s (logAt cfg fwd lvl s) := by
  unfold logAt; split
  · exact (hn s _ h (by rw [need_log cfg ok]; exact hb) o v).1 rfl
  · exact StepA.refl o v s

theorem failedMsg_A (o v : Nat) {s : State} (h : Good cfg s) (d : Int) (f : Frame) (hb : 2 * live s + gcost cfg f ≤ n) :
    StepA o v s (failedMsg cfg fwd s d f) := by
  unfold failedMsg; split
  · exact StepA.refl o v s
  · rename_i hg
    have : gcost cfg f = 1 := by unfold gcost; simp [hg]
    exact (hn s _ h (by rw [need_failed cfg ok]; omega) o v).1 rfl

theorem removeModule_A (o v : Nat) {s : State} (h : Good cfg s) (u : Nat) (m : Module) (hm : s.find u = some m)
    (hcl : m.closed = false) (hb : 2 * live s ≤ n) : StepA o v s (removeModule cfg fwd s u) := by
  unfold removeModule
  simp only [hm]
  obtain ⟨g1, hl1, _, _, _⟩ := removePrep_good h u m hm hcl
  have a1 := removePrep_A o v s u m
  obtain ⟨g2, st2⟩ := logAt_safe ok hs 10 g1 (by omega)
  have hl2 := st2.live
  have a2 := logAt_A ok hmt hs hn o v 10 g1 (by omega)
  have hneed : need cfg (logAt cfg fwd 10 (removePrep s u m)) (closedFrame cfg { m with connected := false }) ≤ n := by
    rw [need_closed cfg ok]; omega
  have c3 := hn _ (closedFrame cfg { m with connected := false }) g2 hneed o v
  have hbody : aboutClosed v (closedFrame cfg { m with connected := false }).body = (u == v) := by
    have := find_uid hm
    simp [closedFrame, mgrFrame, aboutClosed, this]
  by_cases huv : u = v
  · subst huv
    have hopen : isOpen s u = true := isOpen_of_find hm hcl
    have hc1 : isOpen (removePrep s u m) u = false := removePrep_closed s u m
    have hc2 := a2.stay hc1
    have b3 := c3.2 (by rw [hbody]; simp) hmt hc2
    have b4 := b3.thenA (stepA_filter o u _ u)
    refine ⟨?_, fun hx => (by rw [hopen] at hx; cases hx), (b4.nuid.trans a2.nuid).trans a1.nuid⟩
    have p1 := a1.pot
    have p2 := a2.pot
    have p4 := b4.cnt
    have o0 : opn s u = 1 := by unfold opn; rw [hopen]; rfl
    have o1 : opn (removePrep s u m) u = 0 := by unfold opn; rw [hc1]; rfl
    have o2 : opn (logAt cfg fwd 10 (removePrep s u m)) u = 0 := by unfold opn; rw [hc2]; rfl
    have o4 := b4.stay
    have o4' : ∀ s4 : State, isOpen s4 u = false → opn s4 u = 0 := fun s4 h4 => by unfold opn; rw [h4]; rfl
    have e1 := removePrep_nTo o u s u m
    rw [o4' _ o4, o0]
    rw [o1, o2] at p2
    omega
  · have a3 := c3.1 (by rw [hbody]; simpa using huv)
    exact ((a1.trans a2).trans a3).trans (stepA_filter o v _ u)

theorem trySend_A (o v : Nat) {s : State} (h : Good cfg s) (u : Nat) (f : Frame) (m : Module)
    (hm : s.find u = some m) (hcl : m.closed = false) (hf : aboutClosed v f.body = false)
    (hb : 2 * live s + gcost cfg f ≤ n) : StepA o v s (trySend cfg fwd s u f) := by
  unfold trySend
  dsimp only
  obtain ⟨g1, st1⟩ := sendRaw_good h u f m hm hcl
  obtain ⟨m1, hm1, hc1, _⟩ := sendRaw_find (s := s) u f m hm hcl
  have a1 := sendRaw_A o v s u f (by simp [hf])
  generalize hsr : sendRaw s u f = r at g1 st1 hm1 a1
  obtain ⟨s1, okb⟩ := r
  simp only at g1 st1 hm1 a1 ⊢
  cases okb with
  | true => simp only [if_true]; exact a1.trans (stepA_upd o v s1 u (fun m => { m with drops := 0 }) (fun _ => rfl) (fun _ => rfl))
  | false =>
    simp only [Bool.false_eq_true, if_false]
    have hcr : s1.crashed.isSome = false := by rw [g1.ok]; rfl
    simp only [hcr, Bool.false_eq_true, if_false]
    have hl1 := st1.live
    obtain ⟨g2, st2, hl2⟩ := removeModule_safe ok hs g1 u m1 hm1 hc1 (by omega)
    have a2 := removeModule_A ok hmt hs hn o v g1 u m1 hm1 hc1 (by omega)
    obtain ⟨g3, st3⟩ := logAt_safe ok hs 40 g2 (by omega)
    have a3 := logAt_A ok hmt hs hn o v 40 g2 (by omega)
    have hl3 := st3.live
    have a4 := failedMsg_A ok hmt hs hn o v g3 (match s.find u with | some m => m.modId | none => 0) f (by omega)
    exact ((a1.trans a2).trans a3).trans a4

theorem trySend_B (o v : Nat) {s : State} (h : Good cfg s) (u : Nat) (f : Frame) (m : Module)
    (hm : s.find u = some m) (hcl : m.closed = false) (hv : isOpen s v = false)
    (hb : 2 * live s + gcost cfg f ≤ n) : StepB o v (if u == o then 1 else 0) s (trySend cfg fwd s u f) := by
  unfold trySend
  dsimp only
  obtain ⟨g1, st1⟩ := sendRaw_good h u f m hm hcl
  obtain ⟨m1, hm1, hc1, _⟩ := sendRaw_find (s := s) u f m hm hcl
  have b1 := sendRaw_B o v s u f hv
  generalize hsr : sendRaw s u f = r at g1 st1 hm1 b1
  obtain ⟨s1, okb⟩ := r
  simp only at g1 st1 hm1 b1 ⊢
  cases okb with
  | true => simp only [if_true]; exact b1.thenA (stepA_upd o v s1 u (fun m => { m with drops := 0 }) (fun _ => rfl) (fun _ => rfl))
  | false =>
    simp only [Bool.false_eq_true, if_false]
    have hcr : s1.crashed.isSome = false := by rw [g1.ok]; rfl
    simp only [hcr, Bool.false_eq_true, if_false]
    have hl1 := st1.live
    obtain ⟨g2, st2, hl2⟩ := removeModule_safe ok hs g1 u m1 hm1 hc1 (by omega)
    have a2 := removeModule_A ok hmt hs hn o v g1 u m1 hm1 hc1 (by omega)
    obtain ⟨g3, st3⟩ := logAt_safe ok hs 40 g2 (by omega)
    have a3 := logAt_A ok hmt hs hn o v 40 g2 (by omega)
    have hl3 := st3.live
    have a4 := failedMsg_A ok hmt hs hn o v g3 (match s.find u with | some m => m.modId | none => 0) f (by omega)
    exact b1.thenA ((a2.trans a3).trans a4)

theorem deliverOne_A (o v : Nat) {s : State} (h : Good cfg s) (f : Frame) (u : Nat)
    (hopen : ∀ m, s.find u = some m → m.closed = false) (hf : aboutClosed v f.body = false)
    (hb : 2 * live s + gcost cfg f ≤ n) : StepA o v s (deliverOne cfg fwd f s u) := by
  unfold deliverOne
  cases hm : s.find u with
  | none => exact StepA.refl o v s
  | some m =>
    simp only
    have hcl := hopen m hm
    split
    · split
      · exact trySend_A ok hmt hs hn o v h u f m hm hcl hf hb
      · exact StepA.refl o v s
    · split
      · exact trySend_A ok hmt hs hn o v h u f m hm hcl hf hb
      · have h1 := good_upd h u (fun m => { m with drops := m.drops + 1 }) (fun _ => rfl) (fun _ => rfl) (fun _ => rfl)
        have hl := h1.2.live
        exact (stepA_upd o v s u (fun m => { m with drops := m.drops + 1 }) (fun _ => rfl) (fun _ => rfl)).trans
          (failedMsg_A ok hmt hs hn o v h1.1 m.modId f (by omega))

theorem deliverOne_B (o v : Nat) {s : State} (h : Good cfg s) (f : Frame) (u : Nat)
    (hopen : ∀ m, s.find u = some m → m.closed = false) (hv : isOpen s v = false)
    (hb : 2 * live s + gcost cfg f ≤ n) : StepB o v (if u == o then 1 else 0) s (deliverOne cfg fwd f s u) := by
  generalize hk : (if u == o then 1 else 0) = k
  have zero : ∀ {s' : State}, StepA o v s s' → StepB o v k s s' := fun a => (a.toB hv).weaken (Nat.zero_le k)
  unfold deliverOne
  cases hm : s.find u with
  | none => exact zero (StepA.refl o v s)
  | some m =>
    simp only
    have hcl := hopen m hm
    have ts : StepB o v k s (trySend cfg fwd s u f) := by
      rw [← hk]; exact trySend_B ok hmt hs hn o v h u f m hm hcl hv hb
    split
    · split
      · exact ts
      · exact zero (StepA.refl o v s)
    · split
      · exact ts
      · have h1 := good_upd h u (fun m => { m with drops := m.drops + 1 }) (fun _ => rfl) (fun _ => rfl) (fun _ => rfl)
        have hl := h1.2.live
        exact zero ((stepA_upd o v s u (fun m => { m with drops := m.drops + 1 }) (fun _ => rfl) (fun _ => rfl)).trans
          (failedMsg_A ok hmt hs hn o v h1.1 m.modId f (by omega)))

theorem deliver_A (o v : Nat) (f : Frame) (hf : aboutClosed v f.body = false) : ∀ (rs : List Nat) {s : State}, Good cfg s →
    (∀ u ∈ rs, ∀ m, s.find u = some m → m.closed = false) → 2 * live s + gcost cfg f ≤ n →
    StepA o v s (deliver cfg fwd f rs s)
  | [], s, _, _, _ => StepA.refl o v s
  | u :: rest, s, h, hopen, hb => by
    unfold deliver
    obtain ⟨g1, st1⟩ := deliverOne_safe ok hs h f u (hopen u (by simp)) hb
    have a1 := deliverOne_A ok hmt hs hn o v h f u (hopen u (by simp)) hf hb
    have hl := st1.live
    have hopen' : ∀ w ∈ rest, ∀ m, (deliverOne cfg fwd f s u).find w = some m → m.closed = false := by
      intro w hw m' hm'
      cases hcl : m'.closed with
      | false => rfl
      | true =>
        obtain ⟨m0, hm0, c0⟩ := st1.nnc w m' hm' hcl
        have := hopen w (by simp [hw]) m0 hm0
        rw [this] at c0; cases c0
    exact a1.trans (deliver_A o v f hf rest g1 hopen' (by omega))

theorem deliver_B (o v : Nat) (f : Frame) : ∀ (rs : List Nat) {s : State}, Good cfg s →
    (∀ u ∈ rs, ∀ m, s.find u = some m → m.closed = false) → isOpen s v = false → 2 * live s + gcost cfg f ≤ n →
    StepB o v (rs.count o) s (deliver cfg fwd f rs s)
  | [], s, _, _, hv, _ => (StepA.refl o v s).toB hv
  | u :: rest, s, h, hopen, hv, hb => by
    unfold deliver
    obtain ⟨g1, st1⟩ := deliverOne_safe ok hs h f u (hopen u (by simp)) hb
    have b1 := deliverOne_B ok hmt hs hn o v h f u (hopen u (by simp)) hv hb
    have hl := st1.live
    have hopen' : ∀ w ∈ rest, ∀ m, (deliverOne cfg fwd f s u).find w = some m → m.closed = false := by
      intro w hw m' hm'
      cases hcl : m'.closed with
      | false => rfl
      | true =>
        obtain ⟨m0, hm0, c0⟩ := st1.nnc w m' hm' hcl
        have := hopen w (by simp [hw]) m0 hm0
        rw [this] at c0; cases c0
    have b2 := deliver_B o v f rest g1 hopen' b1.stay (by omega)
    refine (b1.trans b2).weaken ?_
    rw [List.count_cons]
    omega

end chain

theorem forward_NOK {cfg : Cfg} (ok : CfgOK cfg) (hmt : cfg.mtClosed ≠ cfg.allTypes) (hord : OrdOK cfg) :
    ∀ n, NOK cfg (forward cfg n) n
  | 0 => fun s g _ hn => by unfold need at hn; omega
  | n + 1 => fun s g h hneed o v => by
    have ih := forward_NOK ok hmt hord n
    have ihs := forward_safe ok n
    obtain ⟨gc, stc⟩ := good_count h g.mtype
    have hlc : live (countMsg cfg s g.mtype) = live s := by unfold live countMsg; split <;> rfl
    have ac := stepA_count cfg o v s g.mtype
    have hoor : oor cfg g = ((g.dest < 0 || g.dest > cfg.maxModules) || (g.destHost < 0 || g.destHost > cfg.maxHosts)) := rfl
    unfold need at hneed
    have hlog : oor cfg g = true → StepA o v s (logAt cfg (forward cfg n) 40 (countMsg cfg s g.mtype)) := by
      intro ho
      rw [ho] at hneed
      exact ac.trans (logAt_A ok hmt ihs ih o v 40 gc (by rw [hlc]; simp at hneed; omega))
    constructor
    · intro hf
      unfold forward
      simp only [h.ok, Option.isSome_none, Bool.false_eq_true, if_false]
      by_cases h1 : (g.dest < 0 || g.dest > cfg.maxModules) = true
      · simp only [h1, if_true]
        exact hlog (by rw [hoor, h1]; rfl)
      · have h1' : (g.dest < 0 || g.dest > cfg.maxModules) = false := by simpa using h1
        simp only [h1', Bool.false_eq_true, if_false]
        by_cases h2 : (g.destHost < 0 || g.destHost > cfg.maxHosts) = true
        · simp only [h2, if_true]
          exact hlog (by rw [hoor, h1', h2]; rfl)
        · have h2' : (g.destHost < 0 || g.destHost > cfg.maxHosts) = false := by simpa using h2
          simp only [h2', Bool.false_eq_true, if_false]
          exact ac.trans (deliver_A ok hmt ihs ih o v g hf _ gc (recipients_open ok gc g.mtype) (by rw [hlc]; omega))
    · intro hf hty hv
      have hvc : isOpen (countMsg cfg s g.mtype) v = false := ac.stay hv
      unfold forward
      simp only [h.ok, Option.isSome_none, Bool.false_eq_true, if_false]
      by_cases h1 : (g.dest < 0 || g.dest > cfg.maxModules) = true
      · simp only [h1, if_true]
        exact ((hlog (by rw [hoor, h1]; rfl)).toB hv).weaken (Nat.zero_le _)
      · have h1' : (g.dest < 0 || g.dest > cfg.maxModules) = false := by simpa using h1
        simp only [h1', Bool.false_eq_true, if_false]
        by_cases h2 : (g.destHost < 0 || g.destHost > cfg.maxHosts) = true
        · simp only [h2, if_true]
          exact ((hlog (by rw [hoor, h1', h2]; rfl)).toB hv).weaken (Nat.zero_le _)
        · have h2' : (g.destHost < 0 || g.destHost > cfg.maxHosts) = false := by simpa using h2
          simp only [h2', Bool.false_eq_true, if_false]
          have hb := deliver_B ok hmt ihs ih o v g (recipients cfg (countMsg cfg s g.mtype) g.mtype) gc
            (recipients_open ok gc g.mtype) hvc (by rw [hlc]; omega)
          have hnd : (recipients cfg (countMsg cfg s g.mtype) g.mtype).Nodup := snapshot_nodup gc.inv g.mtype hty hord
          have hcount : (recipients cfg (countMsg cfg s g.mtype) g.mtype).count o ≤ 1 := List.nodup_iff_count.mp hnd o
          have := ((ac.toB hv).trans hb).weaken (k' := 1) (by omega)
          exact this

/-! ## top level -/

theorem fwdTop_NOK {cfg : Cfg} (ok : CfgOK cfg) (hmt : cfg.mtClosed ≠ cfg.allTypes) (hord : OrdOK cfg) (hfuel : cfg.fuel = 0)
    (n : Nat) : NOK cfg (fwdTop cfg) n := by
  intro s g h _ o v
  unfold fwdTop fuelOf autoFuel
  simp only [hfuel, beq_self_eq_true, if_true]
  refine forward_NOK ok hmt hord _ s g h ?_ o v
  unfold need gcost
  have := live_le_length s
  split <;> split <;> omega

/-- the state `__init__` builds before its first log line -/
def s00 (cfg : Cfg) : State :=
  { mods := [{ uid := 0, name := "message_manager".toList.map (·.toNat), pid := cfg.mmPid, connected := true }] }

theorem top_s00 (cfg : Cfg) : Top cfg (s00 cfg) := by
  unfold s00
  refine ⟨⟨?_, fun u m hm c => ?_, rfl⟩, fun u m hm => ?_⟩
  · refine ⟨fun t u hu => by simp [idxGet] at hu, fun t => by simp [idxGet], fun u m hm ha => ?_⟩
    simp only [State.find, List.find?_cons, List.find?_nil] at hm
    split at hm
    · cases hm; simp at ha
    · cases hm
  · simp only [State.find, List.find?_cons, List.find?_nil] at hm
    split at hm
    · cases hm; simp at c
    · cases hm
  · simp only [State.find, List.find?_cons, List.find?_nil] at hm
    split at hm
    · cases hm; rfl
    · cases hm

/-- `s'` is a crash-free tidy state and every per-(observer, departed) potential is non-increasing from `s` to `s'` -/
def TA (cfg : Cfg) (s s' : State) : Prop := Top cfg s' ∧ ∀ o v, StepA o v s s'

theorem TA.bind {cfg : Cfg} {a b c : State} (h1 : TA cfg a b) (f : Top cfg b → TA cfg b c) : TA cfg a c :=
  ⟨(f h1.1).1, fun o v => (h1.2 o v).trans ((f h1.1).2 o v)⟩

theorem TA.refl {cfg : Cfg} {s : State} (h : Top cfg s) : TA cfg s s := ⟨h, fun o v => StepA.refl o v s⟩

section top
variable {cfg : Cfg} (ok : CfgOK cfg) (hmt : cfg.mtClosed ≠ cfg.allTypes) (hord : OrdOK cfg) (hfuel : cfg.fuel = 0)
include ok hmt hord hfuel

theorem ta_fwd {s : State} (h : Top cfg s) (g : Frame) (hg : ∀ v, aboutClosed v g.body = false) : TA cfg s (fwdTop cfg s g) :=
  ⟨top_fwd ok hfuel h g, fun o v => (fwdTop_NOK ok hmt hord hfuel _ s g h.good (Nat.le_refl _) o v).1 (hg v)⟩

theorem ta_log {s : State} (h : Top cfg s) (lvl : Nat) : TA cfg s (logAt cfg (fwdTop cfg) lvl s) := by
  unfold logAt; split
  · exact ta_fwd ok hmt hord hfuel h _ (fun _ => rfl)
  · exact TA.refl h

theorem ta_remove {s : State} (h : Top cfg s) (u : Nat) : TA cfg s (removeModule cfg (fwdTop cfg) s u) := by
  refine ⟨top_remove ok hfuel h u, fun o v => ?_⟩
  cases hm : s.find u with
  | none => unfold removeModule; simp only [hm]; exact StepA.refl o v s
  | some m =>
    exact removeModule_A ok hmt (fwdTop_Safe ok hfuel (2 * live s)) (fwdTop_NOK ok hmt hord hfuel (2 * live s)) o v h.good u m hm
      (h.aopen u m hm) (Nat.le_refl _)

theorem ta_trySend {s : State} (h : Top cfg s) (u : Nat) (f : Frame) (m : Module) (hm : s.find u = some m)
    (hf : ∀ v, aboutClosed v f.body = false) : TA cfg s (trySend cfg (fwdTop cfg) s u f) :=
  ⟨top_trySend ok hfuel h u f m hm, fun o v =>
    trySend_A ok hmt (fwdTop_Safe ok hfuel _) (fwdTop_NOK ok hmt hord hfuel _) o v h.good u f m hm (h.aopen u m hm) (hf v) (Nat.le_refl _)⟩

theorem ta_toLoggers (f : Frame) (hf : ∀ v, aboutClosed v f.body = false) : ∀ (ls : List Nat) {s : State}, Top cfg s →
    TA cfg s (toLoggers cfg f ls s)
  | [], _, h => TA.refl h
  | u :: rest, s, h => by
    unfold toLoggers
    have h1 : TA cfg s (loggerOne cfg f s u) := by
      unfold loggerOne
      cases hm : s.find u with
      | none => exact TA.refl h
      | some m => exact ta_trySend ok hmt hord hfuel h u f m hm hf
    exact h1.bind (fun h' => ta_toLoggers f hf rest h')

theorem ta_sendAck {s : State} (h : Top cfg s) (u : Nat) : TA cfg s (sendAck cfg s u) := by
  unfold sendAck
  cases hm : s.find u with
  | none => exact TA.refl h
  | some m =>
    exact (ta_trySend ok hmt hord hfuel h u _ m hm (fun _ => rfl)).bind
      (fun h' => ta_toLoggers ok hmt hord hfuel _ (fun _ => rfl) _ h')

theorem ta_infoOf {s : State} (h : Top cfg s) (m : Module) : TA cfg s (infoOf cfg s m) := by
  unfold infoOf
  exact (ta_log ok hmt hord hfuel h 10).bind (fun h' => ta_fwd ok hmt hord hfuel h' _ (fun _ => rfl))

theorem ta_sendInfo {s : State} (h : Top cfg s) (u : Nat) : TA cfg s (sendInfo cfg s u) := by
  unfold sendInfo
  cases s.find u with
  | none => exact TA.refl h
  | some m => exact ta_infoOf ok hmt hord hfuel h m

theorem ta_upd {s : State} (h : Top cfg s) (u : Nat) (f : Module → Module) (hu : ∀ m, (f m).uid = m.uid)
    (hsb : ∀ m, (f m).subs = m.subs) (hc : ∀ m, (f m).closed = m.closed) : TA cfg s (s.upd u f) :=
  ⟨top_upd ok hfuel h u f hu hsb hc, fun o v => stepA_upd o v s u f hu hc⟩

theorem ta_same {s : State} (h : Top cfg s) (s' : State) (hm : s'.mods = s.mods) (hi : s'.idx = s.idx)
    (hc : s'.crashed = s.crashed) (ho : s'.out = s.out) (hn : s'.nextUid = s.nextUid) : TA cfg s s' :=
  ⟨top_same ok hfuel h s' hm hi hc, fun _ _ => stepA_same hm ho hn⟩

theorem ta_clashLoop (me : Module) : ∀ (os : List Module) {s : State}, Top cfg s → TA cfg s (clashLoop cfg me os s).1
  | [], _, h => TA.refl h
  | o :: rest, s, h => by
    unfold clashLoop
    split
    · exact TA.refl h
    · have h1 : TA cfg s (if me.name.isEmpty then s else logAt cfg (fwdTop cfg) 10 s) := by
        split
        · exact TA.refl h
        · exact ta_log ok hmt hord hfuel h 10
      exact h1.bind (fun h' => ta_clashLoop me rest h')

theorem setReq_closed' (buf : List Nat) (hd : Hdr) (x : Module) : (setReq cfg buf hd x).closed = x.closed := by
  unfold setReq; split <;> rfl

theorem ta_connect {s : State} (h : Top cfg s) (u : Nat) (hd : Hdr) : TA cfg s (connectModule cfg s u hd).1 := by
  unfold connectModule
  dsimp only
  have refuse : ∀ {s0 : State}, TA cfg s s0 → TA cfg s (removeModule cfg (fwdTop cfg) (logAt cfg (fwdTop cfg) 40 s0) u) :=
    fun t0 => (t0.bind (fun h' => ta_log ok hmt hord hfuel h' 40)).bind (fun h' => ta_remove ok hmt hord hfuel h' u)
  split
  · exact TA.refl h
  · split
    · exact refuse (ta_upd ok hmt hord hfuel h u (setReq cfg s.buf hd) (fun m => (setReq_keeps cfg s.buf hd m).1)
        (fun m => (setReq_keeps cfg s.buf hd m).2) (fun m => setReq_closed' ok hmt hord hfuel s.buf hd m))
    · rename_i nm _
      have h1 : TA cfg s (s.upd u (setAll cfg s.buf hd nm)) :=
        ta_upd ok hmt hord hfuel h u (setAll cfg s.buf hd nm) (fun m => (setAll_keeps cfg s.buf hd nm m).1)
          (fun m => (setAll_keeps cfg s.buf hd nm m).2) (fun m => by unfold setAll; exact setReq_closed' ok hmt hord hfuel s.buf hd m)
      split
      · split
        · exact refuse h1
        · have hl := h1.bind (fun h' => ta_clashLoop ok hmt hord hfuel (setAll cfg s.buf hd nm (lookupMod s u))
            ((s.upd u (setAll cfg s.buf hd nm)).mods.filter (·.uid != u)) h')
          generalize clashLoop cfg (setAll cfg s.buf hd nm (lookupMod s u))
            ((s.upd u (setAll cfg s.buf hd nm)).mods.filter (·.uid != u)) (s.upd u (setAll cfg s.buf hd nm)) = r at hl
          obtain ⟨s2, cl⟩ := r
          dsimp only at hl ⊢
          split
          · exact refuse hl
          · exact (hl.bind (fun h' => ta_upd ok hmt hord hfuel h' u (fun m => { m with connected := true })
              (fun _ => rfl) (fun _ => rfl) (fun _ => rfl))).bind (fun h' => ta_same ok hmt hord hfuel h' _ rfl rfl rfl rfl rfl)
      · split
        · exact refuse h1
        · rename_i id off _
          have h2 : TA cfg s ({ (s.upd u (setAll cfg s.buf hd nm)) with nextDyn := off } : State) :=
            h1.bind (fun h' => ta_same ok hmt hord hfuel h' _ rfl rfl rfl rfl rfl)
          exact (h2.bind (fun h' => ta_upd ok hmt hord hfuel h' u (fun m => { m with modId := id, connected := true })
            (fun _ => rfl) (fun _ => rfl) (fun _ => rfl))).bind (fun h' => ta_same ok hmt hord hfuel h' _ rfl rfl rfl rfl rfl)

theorem ta_setSubs {s : State} (i : List (Int × List Nat)) (u : Nat) (l : List Int) (o v : Nat) :
    StepA o v s (({ s with idx := i } : State).setSubs u l) := by
  unfold State.setSubs
  have a1 : StepA o v s ({ s with idx := i } : State) := stepA_same rfl rfl rfl
  exact a1.trans (stepA_upd o v ({ s with idx := i } : State) u (fun m => { m with subs := l }) (fun _ => rfl) (fun _ => rfl))

theorem ta_addSub {s : State} (h : Top cfg s) (u : Nat) (t : Int) (m : Module) (hm : s.find u = some m) :
    TA cfg s (addSub cfg s u t) := by
  have hc : TA cfg s (addSubCore cfg s u t) := by
    refine ⟨top_addSubCore ok hfuel h u t m hm, fun o v => ?_⟩
    unfold addSubCore; dsimp only
    split
    · exact ta_setSubs ok hmt hord hfuel _ u _ o v
    · split
      · exact StepA.refl o v s
      · exact ta_setSubs ok hmt hord hfuel _ u _ o v
  unfold addSub; split
  · exact hc.bind (fun h' => ta_log ok hmt hord hfuel h' 10)
  · exact hc

theorem ta_removeSub {s : State} (h : Top cfg s) (u : Nat) (t : Int) (m : Module) (hm : s.find u = some m) :
    TA cfg s (removeSub cfg s u t) := by
  have hc : TA cfg s (removeSubCore cfg s u t) := by
    refine ⟨top_removeSubCore ok hfuel h u t m hm, fun o v => ?_⟩
    unfold removeSubCore; dsimp only
    split
    · exact ta_setSubs ok hmt hord hfuel _ u _ o v
    · split
      · exact StepA.refl o v s
      · exact ta_setSubs ok hmt hord hfuel _ u _ o v
  unfold removeSub; split
  · exact hc.bind (fun h' => ta_log ok hmt hord hfuel h' 10)
  · exact hc

theorem ta_process {s : State} (h : Top cfg s) (u : Nat) (m : Module) (hm : s.find u = some m) (hd : Hdr) :
    TA cfg s (processMessage cfg s u hd) := by
  unfold processMessage
  dsimp only
  split
  · have hc := ta_connect ok hmt hord hfuel h u hd
    generalize connectModule cfg s u hd = r at hc
    obtain ⟨s1, okb⟩ := r
    dsimp only at hc ⊢
    split
    · exact ((hc.bind (fun h' => ta_sendAck ok hmt hord hfuel h' u)).bind (fun h' => ta_infoOf ok hmt hord hfuel h' _)).bind
        (fun h' => ta_log ok hmt hord hfuel h' 20)
    · exact hc
  · split
    · exact (ta_remove ok hmt hord hfuel h u).bind (fun h' => ta_log ok hmt hord hfuel h' 20)
    · split
      · exact (ta_addSub ok hmt hord hfuel h u _ m hm).bind (fun h' => ta_sendAck ok hmt hord hfuel h' u)
      · split
        · exact (ta_removeSub ok hmt hord hfuel h u _ m hm).bind (fun h' => ta_sendAck ok hmt hord hfuel h' u)
        · split
          · split
            · exact (ta_log ok hmt hord hfuel h 40).bind (fun h' => ta_remove ok hmt hord hfuel h' u)
            · rename_i nm _
              exact ((ta_upd ok hmt hord hfuel h u (fun m => { m with name := nm }) (fun _ => rfl) (fun _ => rfl) (fun _ => rfl)).bind
                (fun h' => ta_log ok hmt hord hfuel h' 20)).bind (fun h' => ta_infoOf ok hmt hord hfuel h' _)
          · split
            · exact (ta_upd ok hmt hord hfuel h u (fun m => { m with pid := bufI32 s.buf 0 }) (fun _ => rfl) (fun _ => rfl)
                (fun _ => rfl)).bind (fun h' => ta_sendInfo ok hmt hord hfuel h' u)
            · exact (ta_log ok hmt hord hfuel h 10).bind (fun h' => ta_fwd ok hmt hord hfuel h' _ (fun _ => rfl))

theorem ta_readOne {s : State} (h : Top cfg s) (r : Read) : TA cfg s (readOne cfg s r) := by
  unfold readOne
  split
  · exact TA.refl h
  · cases hm : s.find r.uid with
    | none => exact TA.refl h
    | some m =>
      dsimp only
      have he : TA cfg s (s.emit (.rd r.uid)) :=
        ⟨top_of h (good_emit h.good _), fun o v => stepA_emit o v s (.rd r.uid) rfl⟩
      have hb : ∀ b, TA cfg s { (s.emit (.rd r.uid)) with buf := b } :=
        fun b => he.bind (fun h' => ta_same ok hmt hord hfuel h' _ rfl rfl rfl rfl rfl)
      have rm : ∀ {s' : State}, TA cfg s s' → ∀ lvl, TA cfg s (logAt cfg (fwdTop cfg) lvl (removeModule cfg (fwdTop cfg) s' r.uid)) :=
        fun t' lvl => (t'.bind (fun h' => ta_remove ok hmt hord hfuel h' r.uid)).bind (fun h' => ta_log ok hmt hord hfuel h' lvl)
      split
      · exact rm he 40
      · split
        · exact rm he 30
        · split
          · exact rm he 30
          · split
            · split
              · exact rm he 40
              · split
                · exact rm (hb _) 30
                · exact (hb _).bind (fun h' => ta_process ok hmt hord hfuel h' _ m hm _)
            · exact he.bind (fun h' => ta_process ok hmt hord hfuel h' _ m hm _)

theorem ta_readAll : ∀ (rs : List Read) {s : State}, Top cfg s → TA cfg s (readAll cfg rs s)
  | [], _, h => TA.refl h
  | r :: rest, s, h => by
    unfold readAll
    exact (ta_readOne ok hmt hord hfuel h r).bind (fun h' => ta_readAll rest h')

theorem ta_foldl_fwd : ∀ (fs : List Frame) {s : State}, (∀ f ∈ fs, ∀ v, aboutClosed v f.body = false) → Top cfg s →
    TA cfg s (fs.foldl (fwdTop cfg) s)
  | [], _, _, h => TA.refl h
  | f :: rest, s, hf, h => by
    simp only [List.foldl_cons]
    exact (ta_fwd ok hmt hord hfuel h f (hf f (by simp))).bind
      (fun h' => ta_foldl_fwd rest (fun g hg => hf g (by simp [hg])) h')

theorem ta_infoAll : ∀ (ms : List Module) {s : State}, Top cfg s → TA cfg s (infoAll cfg ms s)
  | [], _, h => TA.refl h
  | m :: rest, s, h => by
    unfold infoAll
    exact (ta_infoOf ok hmt hord hfuel h _).bind (fun h' => ta_infoAll rest h')

theorem ta_ticks {s : State} (h : Top cfg s) : TA cfg s (ticks cfg s) := by
  unfold ticks
  have h1 : TA cfg s (if cfg.timing && s.now - s.tTiming > cfg.pTiming then { sendTiming cfg s with tTiming := s.now } else s) := by
    split
    · unfold sendTiming
      have a1 : TA cfg s ({ s with counts := [], inTraffic := true } : State) := ta_same ok hmt hord hfuel h _ rfl rfl rfl rfl rfl
      exact (a1.bind (fun h' => ta_fwd ok hmt hord hfuel h' _ (fun _ => rfl))).bind
        (fun h' => ta_same ok hmt hord hfuel h' _ rfl rfl rfl rfl rfl)
    · exact TA.refl h
  generalize (if cfg.timing && s.now - s.tTiming > cfg.pTiming then { sendTiming cfg s with tTiming := s.now } else s) = s1 at h1
  dsimp only
  have h2 : TA cfg s (if s1.now - s1.tTraffic > cfg.pTraffic then sendTraffic cfg s1 else s1) := by
    split
    · unfold sendTraffic
      have a1 : TA cfg s ({ s1 with inTraffic := true } : State) := h1.bind (fun h' => ta_same ok hmt hord hfuel h' _ rfl rfl rfl rfl rfl)
      refine ((a1.bind (fun h' => ta_log ok hmt hord hfuel h' 10)).bind
        (fun h' => ta_foldl_fwd ok hmt hord hfuel _ ?_ h')).bind (fun h' => ta_same ok hmt hord hfuel h' _ rfl rfl rfl rfl rfl)
      intro f hf v
      unfold trafficFrames at hf
      obtain ⟨p, _, rfl⟩ := List.mem_map.mp hf
      rfl
    · exact h1
  generalize (if s1.now - s1.tTraffic > cfg.pTraffic then sendTraffic cfg s1 else s1) = s2 at h2
  split
  · unfold sendActive
    exact (((h2.bind (fun h' => ta_log ok hmt hord hfuel h' 10)).bind (fun h' => ta_infoAll ok hmt hord hfuel _ h')).bind
      (fun h' => ta_fwd ok hmt hord hfuel h' _ (fun _ => rfl))).bind (fun h' => ta_same ok hmt hord hfuel h' _ rfl rfl rfl rfl rfl)
  · exact h2

/-- the global invariant: per (observer, departed) at most one notice, none while the connection is open or not yet accepted -/
def T (s : State) : Prop := ∀ o v, nTo s.out o v + opn s v + (if s.nextUid < v then 1 else 0) ≤ 1

omit ok hmt hord hfuel in
theorem T_of_A {s s' : State} (h : T s) (a : ∀ o v, StepA o v s s') : T s' := by
  intro o v
  have := h o v
  have p := (a o v).pot
  rw [(a o v).nuid]
  omega

theorem accept_T {s : State} (h : Top cfg s) (ht : T s) : T (acceptStep cfg s) := by
  unfold acceptStep
  have h1 := ta_log ok hmt hord hfuel h 20
  have t1 := T_of_A ht h1.2
  generalize logAt cfg (fwdTop cfg) 20 s = s1 at h1 t1
  dsimp only
  intro o v
  have := t1 o v
  have ho : isOpen { s1 with nextUid := s1.nextUid + 1, mods := s1.mods ++ [{ uid := s1.nextUid + 1 }] } v =
      (isOpen s1 v || (s1.nextUid + 1 == v)) := by
    unfold isOpen; simp [List.any_append]
  unfold opn at this ⊢
  rw [ho]
  show nTo s1.out o v + _ + (if s1.nextUid + 1 < v then 1 else 0) ≤ 1
  by_cases hv : s1.nextUid + 1 = v
  · subst hv
    have h2 : s1.nextUid < s1.nextUid + 1 := Nat.lt_succ_self _
    simp only [h2, if_true] at this
    simp only [beq_self_eq_true, Bool.or_true, if_true, Nat.lt_irrefl, if_false]
    cases h5 : isOpen s1 (s1.nextUid + 1) <;> simp only [h5, if_true, Bool.false_eq_true, if_false] at this ⊢ <;> omega
  · have h2 : (s1.nextUid + 1 == v) = false := by simpa using hv
    rw [h2, Bool.or_false]
    by_cases h3 : s1.nextUid + 1 < v
    · have h4 : s1.nextUid < v := by omega
      simp only [h3, h4, if_true] at this ⊢; exact this
    · simp only [h3, if_false]
      cases h5 : isOpen s1 v <;> simp only [h5, if_true, Bool.false_eq_true, if_false] at this ⊢ <;> omega

theorem readAll_TT (rds : List Read) (a : State) (w : List Nat) (h : Top cfg a) (t : T a) :
    Top cfg (readAll cfg rds { a with wlist := w }) ∧ T (readAll cfg rds { a with wlist := w }) := by
  have hw := ta_same ok hmt hord hfuel h { a with wlist := w } rfl rfl rfl rfl rfl
  have hr := hw.bind (fun h' => ta_readAll ok hmt hord hfuel rds h')
  exact ⟨hr.1, T_of_A t hr.2⟩

theorem step_T {s : State} (h : Top cfg s) (ht : T s) (r : Round) : T (step cfg s r) := by
  unfold step
  split
  · exact ht
  · dsimp only
    have h0 : TA cfg s (envStep s r) := by unfold envStep; exact ta_same ok hmt hord hfuel h _ rfl rfl rfl rfl rfl
    have t0 := T_of_A ht h0.2
    generalize envStep s r = e at h0 t0
    have hio : Top cfg (ioStep cfg e r.accept r.writable (r.reads.filter (fun rd => (e.find rd.uid).isSome))) ∧
        T (ioStep cfg e r.accept r.writable (r.reads.filter (fun rd => (e.find rd.uid).isSome))) := by
      unfold ioStep
      split
      · dsimp only
        have ha : Top cfg (if r.accept then acceptStep cfg e else e) ∧ T (if r.accept then acceptStep cfg e else e) := by
          split
          · exact ⟨top_accept ok hfuel h0.1, accept_T ok hmt hord hfuel h0.1 t0⟩
          · exact ⟨h0.1, t0⟩
        generalize (if r.accept then acceptStep cfg e else e) = a at ha
        exact readAll_TT ok hmt hord hfuel _ a _ ha.1 ha.2
      · exact ⟨h0.1, t0⟩
    have hk := ta_ticks ok hmt hord hfuel hio.1
    exact T_of_A hio.2 hk.2

theorem run_T (rs : List Round) : T (run cfg rs) := by
  have hinit : Top cfg (init cfg) ∧ T (init cfg) := by
    refine ⟨top_init ok hfuel, ?_⟩
    have he : init cfg = logAt cfg (fwdTop cfg) 20 (s00 cfg) := rfl
    rw [he]
    refine T_of_A ?_ (ta_log ok hmt hord hfuel (top_s00 cfg) 20).2
    intro o v
    unfold nTo opn isOpen s00
    simp only [List.countP_nil, List.any_cons, List.any_nil, Bool.or_false, Nat.zero_add]
    by_cases hv : v = 0
    · subst hv; simp
    · have : (0 == v) = false := by simp; omega
      simp [this]; split <;> omega
  have : ∀ (rs : List Round) (s : State), Top cfg s → T s → Top cfg (rs.foldl (step cfg) s) ∧ T (rs.foldl (step cfg) s) := by
    intro rs; induction rs with
    | nil => intro s h t; exact ⟨h, t⟩
    | cons r rest ih => intro s h t; exact ih _ (top_step ok hfuel h r) (step_T ok hmt hord hfuel h t r)
  unfold run
  exact (this rs _ hinit.1 hinit.2).2

end top

end Pyrtma.Mgr
