import Pyrtma.Proofs.ManagerSimOwed
/-!
# The counted lower bound of the notices about an undeliverable CLIENT_CLOSED (C14), model side

A stretch of manager activity that closes `c` connections: every connection that can take a FAILED_MESSAGE at the end has
been written at least `c · |U|` frames `failed d CLIENT_CLOSED 0 0`, for every duplicate-free list `U` of subscribers of
CLIENT_CLOSED with module id `d` that are not writable, are no loggers and are still in the table at the end — one notice
per departure and subscriber.  All these notices have the same body, so the forward of a CLIENT_CLOSED frame (`|U|` notices
about that frame), the forward of such a notice itself (one copy to the observer) and the departures nested in either are
counted together (`bonus`).
-/
namespace Pyrtma.Mgr

/-- the notice about a CLIENT_CLOSED frame that module id `d` could not be handed -/
def Bc (cfg : Cfg) (d : Int) : Body := .failed d cfg.mtClosed 0 0

def closeN (ext : List Ev) : Nat := ext.countP (fun e => match e with | .close _ => true | _ => false)

theorem closeN_append (a b : List Ev) : closeN (a ++ b) = closeN a + closeN b := by
  unfold closeN; rw [List.countP_append]

/-- `g` has the header of a CLIENT_CLOSED frame -/
def closedHdr (cfg : Cfg) (g : Frame) : Prop := g.mtype = cfg.mtClosed ∧ g.src = 0 ∧ g.dest = 0 ∧ g.destHost = 0

/-- `g` is the notice itself -/
def isNote (cfg : Cfg) (d : Int) (g : Frame) : Prop :=
  g.mtype = cfg.mtFailed ∧ g.dest = 0 ∧ g.destHost = 0 ∧ g.body = Bc cfg d

section count
variable {cfg : Cfg} (ok : CfgOK cfg) (o : Nat) (d : Int) (U : List Nat)

/-- what a stretch ending in `s'` with events `ext` guarantees, `b` notices on top of those for its departures -/
def PostC (cfg : Cfg) (o : Nat) (d : Int) (U : List Nat) (s' : State) (ext : List Ev) (b : Nat) : Prop :=
  StableF cfg s' o → (∀ u ∈ U, Owed cfg cfg.mtClosed d s' u) → closeN ext * U.length + b ≤ fcnt o (Bc cfg d) ext

theorem postC_nil (s' : State) : PostC cfg o d U s' [] 0 := fun _ _ => by simp [closeN]

theorem PostC.append {b c : State} {e1 e2 : List Ev} {x1 x2 : Nat} (h1 : PostC cfg o d U b e1 x1)
    (h2 : PostC cfg o d U c e2 x2) (n : Nest b c) : PostC cfg o d U c (e1 ++ e2) (x1 + x2) := by
  intro hst hU
  have a1 := h1 (n.backF cfg o hst) (fun u hu => n.backO cfg _ _ u (hU u hu))
  have a2 := h2 hst hU
  rw [closeN_append, fcnt_append, Nat.add_mul]
  omega

theorem PostC.back {b c : State} {e : List Ev} {x : Nat} (h : PostC cfg o d U b e x) (n : Nest b c) :
    PostC cfg o d U c e x :=
  fun hst hU => h (n.backF cfg o hst) (fun u hu => n.backO cfg _ _ u (hU u hu))

/-- the nested-forward contract -/
def CK (cfg : Cfg) (o : Nat) (d : Int) (U : List Nat) (fwd : Fwd) (n : Nat) : Prop :=
  ∀ s g, Good cfg s → need cfg s g ≤ n →
    ∃ ext, (fwd s g).out = s.out ++ ext ∧
      ∀ b1 b2 : Nat, (b1 = 0 ∨ (b1 = 1 ∧ isNote cfg d g)) →
        (b2 = 0 ∨ (b2 = U.length ∧ closedHdr cfg g)) → PostC cfg o d U (fwd s g) ext (b1 + b2)

variable {fwd : Fwd} {n : Nat} (hs : Safe cfg fwd n) (hnest : NestOK fwd) (hd : CK cfg o d U fwd n)
include ok hs hnest hd

omit hs hnest in
theorem c_logAt (lvl : Nat) {s : State} (h : Good cfg s) (hb : 2 * live s + 1 ≤ n) :
    ∃ ext, (logAt cfg fwd lvl s).out = s.out ++ ext ∧ PostC cfg o d U (logAt cfg fwd lvl s) ext 0 := by
  unfold logAt; split
  · obtain ⟨e, oe, x⟩ := hd s (logFrame cfg lvl) h (by rw [need_log cfg ok]; exact hb)
    exact ⟨e, oe, x 0 0 (Or.inl rfl) (Or.inl rfl)⟩
  · exact ⟨[], by simp, postC_nil o d U s⟩

omit hs hnest in
theorem c_failedMsg {s : State} (h : Good cfg s) (d' : Int) (f : Frame) (hb : 2 * live s + gcost cfg f ≤ n) (b1 : Nat)
    (hb1 : b1 = 0 ∨ (b1 = 1 ∧ inGuard cfg f.mtype = false ∧ (failedFrame cfg d' f).body = Bc cfg d)) :
    ∃ ext, (failedMsg cfg fwd s d' f).out = s.out ++ ext ∧ PostC cfg o d U (failedMsg cfg fwd s d' f) ext b1 := by
  unfold failedMsg; split
  · rename_i hg
    refine ⟨[], by simp, ?_⟩
    rcases hb1 with h0 | ⟨_, hg', _⟩
    · rw [h0]; exact postC_nil o d U s
    · rw [hg] at hg'; cases hg'
  · rename_i hg
    have : gcost cfg f = 1 := by unfold gcost; simp [hg]
    obtain ⟨e, oe, x⟩ := hd s (failedFrame cfg d' f) h (by rw [need_failed cfg ok]; omega)
    refine ⟨e, oe, ?_⟩
    have := x b1 0 (hb1.imp id (fun ⟨h1, _, h3⟩ => ⟨h1, rfl, rfl, rfl, h3⟩)) (Or.inl rfl)
    simpa using this

theorem c_removeModule {s : State} (h : Good cfg s) (u : Nat) (m : Module) (hm : s.find u = some m)
    (hcl : m.closed = false) (hb : 2 * live s ≤ n) :
    ∃ ext, (removeModule cfg fwd s u).out = s.out ++ ext ∧ PostC cfg o d U (removeModule cfg fwd s u) ext 0 := by
  unfold removeModule
  simp only [hm]
  obtain ⟨g1, hl1, _, _, _⟩ := removePrep_good h u m hm hcl
  have o1 : (removePrep s u m).out = s.out ++ [Ev.close u] := by rw [removePrep_out, hcl]; rfl
  obtain ⟨g2, st2⟩ := logAt_safe ok hs 10 g1 (by omega)
  have hl2 := st2.live
  obtain ⟨e2, o2, d2⟩ := c_logAt ok o d U hd 10 g1 (by omega)
  have hneed : need cfg (logAt cfg fwd 10 (removePrep s u m)) (closedFrame cfg { m with connected := false }) ≤ n := by
    rw [need_closed cfg ok]; omega
  obtain ⟨e3, o3, d3⟩ := hd _ (closedFrame cfg { m with connected := false }) g2 hneed
  have d3' := d3 0 U.length (Or.inl rfl) (Or.inr ⟨rfl, rfl, rfl, rfl, rfl⟩)
  generalize hs3 : fwd (logAt cfg fwd 10 (removePrep s u m)) (closedFrame cfg { m with connected := false }) = s3
    at o3 d3'
  have n3 : Nest (logAt cfg fwd 10 (removePrep s u m)) s3 := by rw [← hs3]; exact hnest _ _
  have hno : ¬ openIn s3 u := fun ho =>
    removePrep_notOpen s u m (((logAt_nest (cfg := cfg) hnest 10 (removePrep s u m)).trans n3).stay u ho)
  have n4 : Nest s3 { s3 with mods := s3.mods.filter (·.uid != u) } := nest_dropMod s3 u hno
  refine ⟨Ev.close u :: (e2 ++ e3), ?_, ?_⟩
  · show s3.out = _
    rw [o3, o2, o1]; simp
  · have d23 := (d2.append o d U d3' n3).back o d U n4
    intro hst hU
    have := d23 hst hU
    have e1 : closeN (Ev.close u :: (e2 ++ e3)) = closeN (e2 ++ e3) + 1 := by simp [closeN]
    have e2' : fcnt o (Bc cfg d) (Ev.close u :: (e2 ++ e3)) = fcnt o (Bc cfg d) (e2 ++ e3) := by simp [fcnt]
    rw [e1, e2', Nat.add_mul]
    omega

theorem c_trySend {s : State} (h : Good cfg s) (u : Nat) (f : Frame) (m : Module)
    (hm : s.find u = some m) (hcl : m.closed = false) (hb : 2 * live s + gcost cfg f ≤ n) (b1 : Nat)
    (hb1 : b1 = 0 ∨ (b1 = 1 ∧ u = o ∧ f.body = Bc cfg d)) :
    ∃ ext, (trySend cfg fwd s u f).out = s.out ++ ext ∧ PostC cfg o d U (trySend cfg fwd s u f) ext b1 := by
  unfold trySend
  dsimp only
  obtain ⟨g1, st1⟩ := sendRaw_good h u f m hm hcl
  obtain ⟨m1, hm1, hc1, _⟩ := sendRaw_find (s := s) u f m hm hcl
  have hx := sendRaw_ext s u f m hm hcl
  have n0 := sendRaw_nest s u f
  generalize hsr : sendRaw s u f = r at g1 st1 hm1 hx n0
  obtain ⟨s1, okb⟩ := r
  simp only at g1 st1 hm1 hx n0 ⊢
  rcases hx with ⟨hf, hok, ho⟩ | ⟨hf, hok, ho⟩
  · subst hok
    simp only [if_true]
    refine ⟨[Ev.send u (m.msgCount + 1) f], by show s1.out = _; exact ho, fun _ _ => ?_⟩
    rcases hb1 with h0 | ⟨h1, hu, hbd⟩
    · rw [h0]; simp [closeN]
    · rw [h1, hu]; simp [closeN, fcnt, hbd]
  · subst hok
    simp only [Bool.false_eq_true, if_false]
    have hcr : s1.crashed.isSome = false := by rw [g1.ok]; rfl
    simp only [hcr, Bool.false_eq_true, if_false]
    have hl1 := st1.live
    obtain ⟨g2, st2, hl2⟩ := removeModule_safe ok hs g1 u m1 hm1 hc1 (by omega)
    obtain ⟨e2, o2, d2⟩ := c_removeModule ok o d U hs hnest hd g1 u m1 hm1 hc1 (by omega)
    obtain ⟨g3, st3⟩ := logAt_safe ok hs 40 g2 (by omega)
    obtain ⟨e3, o3, d3⟩ := c_logAt ok o d U hd 40 g2 (by omega)
    have hl3 := st3.live
    obtain ⟨e4, o4, d4⟩ := c_failedMsg ok o d U hd g3 (match s.find u with | some m => m.modId | none => 0) f (by omega) 0
      (Or.inl rfl)
    have n1 := removeModule_nest (cfg := cfg) hnest s1 u
    have n2 := logAt_nest (cfg := cfg) hnest 40 (removeModule cfg fwd s1 u)
    have n3 := failedMsg_nest (cfg := cfg) hnest (logAt cfg fwd 40 (removeModule cfg fwd s1 u))
      (match s.find u with | some m => m.modId | none => 0) f
    have d234 := (d2.append o d U d3 n2).append o d U d4 n3
    have nAll := ((n0.trans n1).trans n2).trans n3
    obtain ⟨pre, hpre, hc0, hf0⟩ : ∃ pre, s1.out = s.out ++ pre ∧ closeN pre = 0 ∧ fcnt o (Bc cfg d) pre = 0 := by
      rcases ho with ho | ho
      · exact ⟨_, ho, rfl, rfl⟩
      · exact ⟨_, ho, rfl, rfl⟩
    refine ⟨pre ++ ((e2 ++ e3) ++ e4), o4.trans (by rw [o3, o2, hpre]; simp), fun hst hU => ?_⟩
    rcases hb1 with h0 | ⟨_, hu, _⟩
    · have := d234 hst hU
      rw [closeN_append, fcnt_append, hc0, hf0, h0, Nat.zero_add, Nat.zero_add]
      omega
    · exfalso
      obtain ⟨_, _, _, hfo, _⟩ := nAll.backF cfg o hst
      rw [hu] at hf
      exact hf hfo

theorem c_deliverOne {s : State} (h : Good cfg s) (f : Frame) (u : Nat)
    (hopen : ∀ m, s.find u = some m → m.closed = false) (hb : 2 * live s + gcost cfg f ≤ n) (b1 b2 : Nat)
    (hb1 : b1 = 0 ∨ (b1 = 1 ∧ u = o ∧ isNote cfg d f))
    (hb2 : b2 = 0 ∨ (b2 = 1 ∧ u ∈ U ∧ closedHdr cfg f ∧ inGuard cfg f.mtype = false)) :
    ∃ ext, (deliverOne cfg fwd f s u).out = s.out ++ ext ∧ PostC cfg o d U (deliverOne cfg fwd f s u) ext (b1 + b2) := by
  have nD := deliverOne_nest (cfg := cfg) hnest f s u
  -- what the demands say about `u` at the start
  have ho1 : b1 = 1 → StableF cfg (deliverOne cfg fwd f s u) o → StableF cfg s u := by
    intro hb hst
    rcases hb1 with h0 | ⟨_, hu, _⟩
    · omega
    · rw [hu]; exact nD.backF cfg o hst
  have ho2 : b2 = 1 → (∀ w ∈ U, Owed cfg cfg.mtClosed d (deliverOne cfg fwd f s u) w) → Owed cfg cfg.mtClosed d s u := by
    intro hb hU
    rcases hb2 with h0 | ⟨_, hu, _⟩
    · omega
    · exact nD.backO cfg _ _ u (hU u hu)
  have hb1' : b1 = 0 ∨ b1 = 1 := hb1.imp id (fun x => x.1)
  have hb2' : b2 = 0 ∨ b2 = 1 := hb2.imp id (fun x => x.1)
  -- nothing happens: no demand can be open
  have hnone : (deliverOne cfg fwd f s u).out = s.out → (b1 = 1 → StableF cfg s u → False) → (Owed cfg cfg.mtClosed d s u → False) →
      ∃ ext, (deliverOne cfg fwd f s u).out = s.out ++ ext ∧ PostC cfg o d U (deliverOne cfg fwd f s u) ext (b1 + b2) := by
    intro hout hn1 hn2
    refine ⟨[], by simp [hout], fun hst hU => ?_⟩
    have : b1 = 0 := by
      rcases hb1' with x | x
      · exact x
      · exact absurd (ho1 x hst) (hn1 x)
    have : b2 = 0 := by
      rcases hb2' with x | x
      · exact x
      · exact absurd (ho2 x hU) hn2
    simp [closeN, *]
  -- a write attempt: `u` is not owed a notice
  have htry : ∀ m, s.find u = some m → (Owed cfg cfg.mtClosed d s u → False) →
      deliverOne cfg fwd f s u = trySend cfg fwd s u f →
      ∃ ext, (deliverOne cfg fwd f s u).out = s.out ++ ext ∧ PostC cfg o d U (deliverOne cfg fwd f s u) ext (b1 + b2) := by
    intro m hm hn2 e
    obtain ⟨ext, oe, x⟩ := c_trySend ok o d U hs hnest hd h u f m hm (hopen m hm) hb b1
      (hb1.imp id (fun ⟨h1, h2, h3⟩ => ⟨h1, h2, h3.2.2.2⟩))
    rw [e]
    refine ⟨ext, oe, fun hst hU => ?_⟩
    have : b2 = 0 := by
      rcases hb2' with x | x
      · exact x
      · exact absurd (ho2 x (by rw [e]; exact hU)) hn2
    rw [this]; exact x hst hU
  cases hm : s.find u with
  | none =>
    refine hnone (by unfold deliverOne; simp [hm]) (fun _ ⟨m, hm', _⟩ => by rw [hm] at hm'; cases hm')
      (fun ⟨m, hm', _⟩ => by rw [hm] at hm'; cases hm')
  | some m =>
    by_cases hw : u ∈ s.wlist
    · have hn2 : Owed cfg cfg.mtClosed d s u → False := fun ⟨_, _, _, _, _, hnw, _⟩ => hnw hw
      by_cases hdst : (f.dest == 0 || m.modId == f.dest || m.isLogger) = true
      · exact htry m hm hn2 (by unfold deliverOne; simp only [hm, hw, if_true, hdst])
      · refine hnone (by unfold deliverOne; simp only [hm, hw, if_true, hdst]; rfl) ?_ hn2
        intro hb _
        -- `b1 = 1` needs a broadcast
        rcases hb1 with h0 | ⟨_, _, hn⟩
        · omega
        · simp [hn.2.1] at hdst
    · by_cases hlg : m.isLogger = true
      · exact htry m hm (fun ⟨m', hm', _, _, hl', _⟩ => by rw [hm] at hm'; cases hm'; rw [hlg] at hl'; cases hl')
          (by unfold deliverOne; simp only [hm, hw, if_false, hlg, if_true])
      · -- not ready, no logger: the notice about `f` to `u`
        have hlg' : m.isLogger = false := by simpa using hlg
        have e : deliverOne cfg fwd f s u =
            failedMsg cfg fwd (s.upd u (fun m => { m with drops := m.drops + 1 })) m.modId f := by
          unfold deliverOne; simp [hm, hw, hlg']
        have h1 := good_upd h u (fun m => { m with drops := m.drops + 1 }) (fun _ => rfl) (fun _ => rfl) (fun _ => rfl)
        have hlv := h1.2.live
        have hb1z : StableF cfg s u → b1 = 0 := by
          intro ⟨m', hm', _, _, _, hwl⟩
          rw [hm] at hm'; cases hm'
          rcases hwl with x | x
          · exact absurd x hw
          · rw [hlg'] at x; cases x
        have hfin : ∀ b2' : Nat, (b2' = b2 ∨ (b2' = 0 ∧ (Owed cfg cfg.mtClosed d s u → b2 = 0))) →
            (b2' = 0 ∨ (b2' = 1 ∧ inGuard cfg f.mtype = false ∧ (failedFrame cfg m.modId f).body = Bc cfg d)) →
            ∃ ext, (deliverOne cfg fwd f s u).out = s.out ++ ext ∧
              PostC cfg o d U (deliverOne cfg fwd f s u) ext (b1 + b2) := by
          intro b2' hrel hb2c
          obtain ⟨ext, oe, x⟩ := c_failedMsg ok o d U hd h1.1 m.modId f (by omega) b2' hb2c
          rw [e]
          refine ⟨ext, by rw [oe]; rfl, fun hst hU => ?_⟩
          have z1 : b1 = 0 := by
            rcases hb1' with y | y
            · exact y
            · exact hb1z (ho1 y (by rw [e]; exact hst))
          have z2 : b2' = b2 := by
            rcases hrel with y | ⟨y, hy⟩
            · exact y
            · rcases hb2' with w | w
              · rw [y, w]
              · rw [y]; exact (hy (ho2 w (by rw [e]; exact hU))).symm
          have := x hst hU
          rw [z1, ← z2]; simpa using this
        by_cases hmd : m.modId = d
        · refine hfin b2 (Or.inl rfl) (hb2.imp id (fun ⟨y1, _, y3, y4⟩ => ⟨y1, y4, ?_⟩))
          show Body.failed m.modId f.mtype f.src f.dest = Bc cfg d
          unfold Bc; rw [hmd, y3.1, y3.2.1, y3.2.2.1]
        · refine hfin 0 (Or.inr ⟨rfl, fun ⟨m', hm', _, hd', _⟩ => ?_⟩) (Or.inl rfl)
          rw [hm] at hm'; cases hm'
          exact absurd hd' hmd

theorem c_deliver (f : Frame) : ∀ (rs : List Nat) {s : State}, Good cfg s →
    (∀ u ∈ rs, ∀ m, s.find u = some m → m.closed = false) → 2 * live s + gcost cfg f ≤ n →
    ∃ ext, (deliver cfg fwd f rs s).out = s.out ++ ext ∧
      ∀ (bo : Nat) (V : List Nat), (bo = 0 ∨ (bo = 1 ∧ isNote cfg d f)) → V.Nodup →
        (V = [] ∨ (closedHdr cfg f ∧ inGuard cfg f.mtype = false)) →
        StableF cfg (deliver cfg fwd f rs s) o → (∀ u ∈ U, Owed cfg cfg.mtClosed d (deliver cfg fwd f rs s) u) →
        (bo = 1 → o ∈ rs) → (∀ u ∈ V, u ∈ U ∧ u ∈ rs) →
        closeN ext * U.length + (bo + V.length) ≤ fcnt o (Bc cfg d) ext
  | [], s, _, _, _ => ⟨[], by simp [deliver], fun bo V hbo _ _ _ _ ho hV => by
      have : bo = 0 := by
        rcases hbo with x | ⟨x, _⟩
        · exact x
        · exact absurd (ho x) (by simp)
      have : V = [] := by
        cases V with
        | nil => rfl
        | cons x _ => exact absurd (hV x (by simp)).2 (by simp)
      simp [closeN, *]⟩
  | u :: rest, s, h, hopen, hb => by
    unfold deliver
    obtain ⟨g1, st1⟩ := deliverOne_safe ok hs h f u (hopen u (by simp)) hb
    have hl := st1.live
    have hopen' : ∀ w ∈ rest, ∀ m, (deliverOne cfg fwd f s u).find w = some m → m.closed = false := by
      intro w hw m' hm'
      cases hcl : m'.closed with
      | false => rfl
      | true =>
        obtain ⟨m0, hm0, c0⟩ := st1.nnc w m' hm' hcl
        have := hopen w (by simp [hw]) m0 hm0
        rw [this] at c0; cases c0
    obtain ⟨e2, o2, x2⟩ := c_deliver f rest g1 hopen' (by omega)
    have n2 := deliver_nest (cfg := cfg) hnest f rest (deliverOne cfg fwd f s u)
    have n1 := deliverOne_nest (cfg := cfg) hnest f s u
    obtain ⟨e1, o1, _, _⟩ := n1.ext
    refine ⟨e1 ++ e2, by rw [o2, o1, List.append_assoc], fun bo V hbo hnd hc hst hU ho hV => ?_⟩
    -- this iteration's share of the demands
    have hb1 : (if bo = 1 ∧ u = o then 1 else 0) = 0 ∨
        ((if bo = 1 ∧ u = o then 1 else 0) = 1 ∧ u = o ∧ isNote cfg d f) := by
      split
      · rename_i hx
        rcases hbo with y | ⟨_, y⟩
        · omega
        · exact Or.inr ⟨rfl, hx.2, y⟩
      · exact Or.inl rfl
    have hb2 : (if u ∈ V then 1 else 0) = 0 ∨
        ((if u ∈ V then 1 else 0) = 1 ∧ u ∈ U ∧ closedHdr cfg f ∧ inGuard cfg f.mtype = false) := by
      split
      · rename_i hx
        rcases hc with y | y
        · rw [y] at hx; cases hx
        · exact Or.inr ⟨rfl, (hV u hx).1, y⟩
      · exact Or.inl rfl
    obtain ⟨e1', o1', x1⟩ := c_deliverOne ok o d U hs hnest hd h f u (hopen u (by simp)) hb _ _ hb1 hb2
    have : e1' = e1 := List.append_cancel_left (o1'.symm.trans o1)
    subst this
    have a1 := x1 (n2.backF cfg o hst) (fun w hw => n2.backO cfg _ _ w (hU w hw))
    -- the rest of the loop
    have hbo' : (if u = o then 0 else bo) = 0 ∨ ((if u = o then 0 else bo) = 1 ∧ isNote cfg d f) := by
      split
      · exact Or.inl rfl
      · exact hbo
    have ho' : (if u = o then 0 else bo) = 1 → o ∈ rest := by
      split
      · intro x; cases x
      · rename_i hne
        intro x
        rcases List.mem_cons.mp (ho x) with y | y
        · exact absurd y.symm hne
        · exact y
    have hV' : ∀ w ∈ V.erase u, w ∈ U ∧ w ∈ rest := by
      intro w hw
      have hw' := (List.Nodup.mem_erase_iff hnd).mp hw
      obtain ⟨h1, h2⟩ := hV w hw'.2
      refine ⟨h1, ?_⟩
      rcases List.mem_cons.mp h2 with y | y
      · exact absurd y hw'.1
      · exact y
    have hc' : V.erase u = [] ∨ (closedHdr cfg f ∧ inGuard cfg f.mtype = false) := by
      rcases hc with y | y
      · left; rw [y]; rfl
      · exact Or.inr y
    have a2 := x2 _ (V.erase u) hbo' (hnd.erase u) hc' hst hU ho' hV'
    have hlen : (if u ∈ V then 1 else 0) + (V.erase u).length = V.length := by
      split
      · rename_i hx
        rw [List.length_erase_of_mem hx]
        have := List.length_pos_of_mem hx
        omega
      · rename_i hx
        rw [List.erase_of_not_mem hx]; omega
    have hbos : (if bo = 1 ∧ u = o then 1 else 0) + (if u = o then 0 else bo) = bo := by
      rcases hbo with y | ⟨y, _⟩
      · rw [y]; by_cases hx : u = o <;> simp [hx]
      · rw [y]; by_cases hx : u = o <;> simp [hx]
    rw [closeN_append, fcnt_append, Nat.add_mul]
    omega

end count

theorem forward_CK {cfg : Cfg} (ok : CfgOK cfg) (hall : OrdAll cfg) (o : Nat) (d : Int) (U : List Nat) (hU : U.Nodup) :
    ∀ n, CK cfg o d U (forward cfg n) n
  | 0 => fun s g _ hn => by unfold need at hn; omega
  | n + 1 => fun s g h hneed => by
    have ih := forward_CK ok hall o d U hU n
    have ihs := forward_safe ok n
    have ihn := forward_nest cfg n
    obtain ⟨gc, stc⟩ := good_count h g.mtype
    have hlc : live (countMsg cfg s g.mtype) = live s := by unfold live countMsg; split <;> rfl
    have oc : (countMsg cfg s g.mtype).out = s.out := countMsg_out cfg s g.mtype
    have hoor : oor cfg g = ((g.dest < 0 || g.dest > cfg.maxModules) || (g.destHost < 0 || g.destHost > cfg.maxHosts)) := rfl
    unfold need at hneed
    have hin : g.dest = 0 → g.destHost = 0 → oor cfg g = false := by
      intro h1 h2
      rw [hoor, h1, h2]
      have := ok.modsNonneg; have := ok.hostsNonneg
      simp; omega
    have hlog : oor cfg g = true →
        ∃ ext, (logAt cfg (forward cfg n) 40 (countMsg cfg s g.mtype)).out = s.out ++ ext ∧
          ∀ b1 b2 : Nat, (b1 = 0 ∨ (b1 = 1 ∧ isNote cfg d g)) → (b2 = 0 ∨ (b2 = U.length ∧ closedHdr cfg g)) →
            PostC cfg o d U (logAt cfg (forward cfg n) 40 (countMsg cfg s g.mtype)) ext (b1 + b2) := by
      intro ho
      rw [ho] at hneed
      obtain ⟨e, oe, x⟩ := c_logAt ok o d U ih 40 gc (by rw [hlc]; simp at hneed; omega)
      refine ⟨e, by rw [oe, oc], fun b1 b2 hb1 hb2 => ?_⟩
      have z1 : b1 = 0 := by
        rcases hb1 with y | ⟨_, y⟩
        · exact y
        · rw [hin y.2.1 y.2.2.1] at ho; cases ho
      have z2 : b2 = 0 := by
        rcases hb2 with y | ⟨_, y⟩
        · exact y
        · rw [hin y.2.2.1 y.2.2.2] at ho; cases ho
      rw [z1, z2]; exact x
    unfold forward
    simp only [h.ok, Option.isSome_none, Bool.false_eq_true, if_false]
    by_cases h1 : (g.dest < 0 || g.dest > cfg.maxModules) = true
    · simp only [h1, if_true]
      exact hlog (by rw [hoor, h1]; rfl)
    · have h1' : (g.dest < 0 || g.dest > cfg.maxModules) = false := by simpa using h1
      simp only [h1', Bool.false_eq_true, if_false]
      by_cases h2 : (g.destHost < 0 || g.destHost > cfg.maxHosts) = true
      · simp only [h2, if_true]
        exact hlog (by rw [hoor, h1', h2]; rfl)
      · have h2' : (g.destHost < 0 || g.destHost > cfg.maxHosts) = false := by simpa using h2
        simp only [h2', Bool.false_eq_true, if_false]
        have ho0 : oor cfg g = false := by rw [hoor, h1', h2']; rfl
        rw [ho0] at hneed
        obtain ⟨e, oe, x⟩ := c_deliver ok o d U ihs ihn ih g (recipients cfg (countMsg cfg s g.mtype) g.mtype) gc
          (recipients_open ok gc g.mtype) (by rw [hlc]; simp at hneed; omega)
        have nd := deliver_nest (cfg := cfg) ihn g (recipients cfg (countMsg cfg s g.mtype) g.mtype)
          (countMsg cfg s g.mtype)
        refine ⟨e, by rw [oe, oc], fun b1 b2 hb1 hb2 hst hUo => ?_⟩
        have hmemO : b1 = 1 → o ∈ recipients cfg (countMsg cfg s g.mtype) g.mtype := by
          intro hb
          rcases hb1 with y | ⟨_, y⟩
          · omega
          · obtain ⟨_, _, _, _, hidx, _⟩ := nd.backF cfg o hst
            have e : idxGet (countMsg cfg s g.mtype).idx g.mtype = idxGet (countMsg cfg s g.mtype).idx cfg.mtFailed :=
              congrArg _ y.1
            unfold recipients
            rw [e]
            rcases hidx with z | z
            · exact List.mem_append.mpr (Or.inl (hall _ _ z))
            · exact List.mem_append.mpr (Or.inr (hall _ _ z))
        rcases hb2 with z | ⟨z, hch⟩
        · have := x b1 [] (hb1.imp id (fun y => ⟨y.1, y.2⟩)) List.nodup_nil (Or.inl rfl) hst hUo hmemO (by simp)
          rw [z]; simpa using this
        · have hg : inGuard cfg g.mtype = false := by rw [hch.1]; exact ok.closedNotGuard
          have := x b1 U (hb1.imp id (fun y => ⟨y.1, y.2⟩)) hU (Or.inr ⟨hch, hg⟩) hst hUo hmemO (fun u hu => ⟨hu, by
            obtain ⟨_, _, _, _, _, _, hidx⟩ := nd.backO cfg _ _ u (hUo u hu)
            have e : idxGet (countMsg cfg s g.mtype).idx g.mtype = idxGet (countMsg cfg s g.mtype).idx cfg.mtClosed :=
              congrArg _ hch.1
            unfold recipients
            rw [e]
            rcases hidx with w | w
            · exact List.mem_append.mpr (Or.inl (hall _ _ w))
            · exact List.mem_append.mpr (Or.inr (hall _ _ w))⟩)
          rw [z]; exact this

theorem fwdTop_CK {cfg : Cfg} (ok : CfgOK cfg) (hall : OrdAll cfg) (hfuel : cfg.fuel = 0) (o : Nat) (d : Int) (U : List Nat)
    (hU : U.Nodup) (n : Nat) : CK cfg o d U (fwdTop cfg) n := by
  intro s g h _
  unfold fwdTop fuelOf autoFuel
  simp only [hfuel, beq_self_eq_true, if_true]
  refine forward_CK ok hall o d U hU _ s g h ?_
  unfold need gcost
  have := live_le_length s
  split <;> split <;> omega

/-- **One departure handled at top level** (`remove_module` with everything nested in it — the CLIENT_CLOSED forward,
the notices about it, the departures of connections that fail meanwhile): every connection that can take a
FAILED_MESSAGE at the end has been written at least (number of connections closed) · `|U|` notices
`failed d CLIENT_CLOSED 0 0`, for every duplicate-free list `U` of subscribers of CLIENT_CLOSED with module id `d` that
are not writable, are no loggers and are still in the table at the end. -/
theorem removeTop_counted {cfg : Cfg} (ok : CfgOK cfg) (hall : OrdAll cfg) (hfuel : cfg.fuel = 0) {s : State}
    (h : Top cfg s) (u : Nat) (m : Module) (hm : s.find u = some m) (o : Nat) (d : Int) (U : List Nat) (hU : U.Nodup) :
    ∃ ext, (removeModule cfg (fwdTop cfg) s u).out = s.out ++ ext ∧
      PostC cfg o d U (removeModule cfg (fwdTop cfg) s u) ext 0 :=
  c_removeModule ok o d U (fwdTop_Safe ok hfuel (2 * live s)) (fwdTop_nest cfg) (fwdTop_CK ok hall hfuel o d U hU _)
    h.good u m hm (h.aopen u m hm) (Nat.le_refl _)

end Pyrtma.Mgr
