import Pyrtma.Proofs.ManagerSimSeg
/-!
# Refinement of the history-based Spec by the manager model M1 — part 4: the acknowledged control frames

SUBSCRIBE / RESUME / UNSUBSCRIBE / PAUSE and CONNECT: a table update, possibly some nested activity (DEBUG log lines),
then `send_ack`; the Spec's `checkAcks` is evaluated on the abstract state *before* the departures of the segment are
applied, `send_ack` runs in the model state *after* the nested activity that precedes it.
-/
namespace Pyrtma.Mgr
open Spec (A AMod)

/-! ## uids of the abstract table -/

/-- no table entry beyond the uids handed out -/
theorem sim_fresh {cfg : Cfg} {a : A} {s : State} (hs : SimM cfg a s) (u : Nat) (hu : s.nextUid < u) : s.find u = none := by
  cases hf : s.find u with
  | none => rfl
  | some m =>
    have hu0 : u ≠ 0 := by omega
    obtain ⟨am, ham⟩ := Option.isSome_iff_exists.mp ((hs.live u hu0).mpr (by simp [hf]))
    obtain ⟨hg, _⟩ := Spec.live_some.mp ham
    have : am.uid ∈ a.mods.map (·.uid) := List.mem_map.mpr ⟨am, Spec.get_mem hg, rfl⟩
    rw [hs.uids, Spec.get_uid hg] at this
    obtain ⟨k, hk, hk'⟩ := List.mem_map.mp this
    have := List.mem_range.mp hk
    rw [hs.nacc] at this
    omega


/-! ## `checkInfos` through the simulation -/

/-- `checkInfos` passes when every CLIENT_INFO frame among the events describes a module as the table of `base` has it
    (`InfoTo`), and the entries of `X` match the table of `base` (connections in `E` excepted — those are not connected
    in `X`) -/
theorem checkInfos_core {cfg : Cfg} {X : A} {base s0 s2 : State} {E : Nat → Prop}
    (hi : InfoTo base E s0 s2) (evs : List Ev) (he : s2.out = s0.out ++ evs)
    (h2 : ∀ v m am, base.find v = some m → X.get v = some am → am.connected = true → SimMod cfg am m)
    (hE : ∀ v am, E v → X.get v = some am → am.connected = false) :
    Spec.checkInfos X evs = X := by
  apply Spec.checkInfos_ok
  intro p hp v pid mid lg uq nm hb am hget hconn
  have hin : (p.1, p.2.2) ∈ dataSends isInfo evs := by
    rw [← sends_filter_map]
    exact List.mem_map.mpr ⟨p, List.mem_filter.mpr ⟨hp, by simp [hb, isInfo]⟩, rfl⟩
  rcases hi.2 evs he (p.1, p.2.2) hin v pid mid lg uq nm hb with h | ⟨m, hm, hbody⟩
  · rw [hE v am h hget] at hconn; cases hconn
  · have hsm := h2 v m am hm hget hconn
    have hb' : infoBody m = Body.info v pid mid lg uq nm := by rw [hbody]; exact hb
    unfold infoBody at hb'
    simp only [Body.info.injEq] at hb'
    obtain ⟨_, h2', h3, h4, h5, h6⟩ := hb'
    exact ⟨by rw [← h3, hsm.modId], by rw [← h4, hsm.isLogger], by rw [← h5, hsm.unique], by rw [← h6, hsm.name],
      by rw [← h2', hsm.pid]⟩

/-- **`checkInfos` passes.**  `a` simulates `base`; every CLIENT_INFO frame among the events describes a module as the
table of `base` has it (`InfoTo`), frames about connections in `E` excepted — and those are not connected in `a`. -/
theorem checkInfos_pass {cfg : Cfg} {a X : A} {base s0 s2 : State} {E : Nat → Prop} (hs : SimM cfg a base)
    (hi : InfoTo base E s0 s2) (evs : List Ev) (he : s2.out = s0.out ++ evs)
    (hE : ∀ v am, E v → a.get v = some am → am.connected = false) (hX : X.mods = a.mods) :
    Spec.checkInfos X evs = X := by
  have hget : ∀ v, X.get v = a.get v := fun v => by unfold Spec.A.get; rw [hX]
  refine checkInfos_core (cfg := cfg) hi evs he (fun v m am hm hg _ => ?_)
    (fun v am hv hg => hE v am hv (by rw [← hget]; exact hg))
  rw [hget] at hg
  have hv0 : v ≠ 0 := by rw [← Spec.get_uid hg]; exact uid_pos hs.uids (Spec.get_mem hg)
  obtain ⟨am', ham'⟩ := Option.isSome_iff_exists.mp ((hs.live v hv0).mpr (by simp [hm]))
  have : am' = am := by
    have := (Spec.live_some.mp ham').1
    rw [hg] at this; cases this; rfl
  subst this
  exact hs.mods v am' m ham' hm

/-! ## `checkAcks` through a simulation at the state where `send_ack` runs -/

/-- `x`: the abstract state `checkAcks` is evaluated on; `b`: an abstract state that simulates the model state `sL` in
which `send_ack` runs; every live entry of `b` is a live entry of `x`, and a live entry of `x` whose connection does not
fail is still live in `b` (only failing connections were dropped in between). -/
theorem checkAcks_via (cfg : Cfg) (hperm : OrdPerm cfg) {x b : A} {sL : State} (hs : SimM cfg b sL) (ao : AllOpen sL)
    (u : Nat) (hu0 : u ≠ 0) (xu : AMod) (hxu : x.live u = some xu) (hfail : x.fail = sL.fail) {n : Nat}
    (hxuids : x.mods.map (·.uid) = (List.range n).map (· + 1))
    (H1 : ∀ v bl, b.live v = some bl → x.live v = some bl)
    (H2 : ∀ v l, x.live v = some l → failOf sL v = none → (b.live v).isSome)
    (ext evs : List Ev) (he : (sendAck cfg sL u).out = sL.out ++ ext) (hevs : dataSends isAck evs = dataSends isAck ext) :
    Spec.checkAcks cfg x u true evs = x := by
  have hnd := uids_nodup hxuids
  -- the table entry of a live connection of `b`
  have tbl : ∀ v, v ≠ 0 → ∀ ml, sL.find v = some ml → ∃ l, x.live v = some l ∧ SimMod cfg l ml := by
    intro v hv ml hml
    have := (hs.live v hv).mpr (by simp [hml])
    obtain ⟨bl, hbl⟩ := Option.isSome_iff_exists.mp this
    exact ⟨bl, H1 v bl hbl, hs.mods v bl ml hbl hml⟩
  refine checkAcks_sendAck cfg hperm hs ao u xu (Spec.live_some.mp hxu).1 hfail ?_ ?_ ?_ ?_ ext evs he hevs
  · intro mL hmL
    obtain ⟨l, hl, hsm⟩ := tbl u hu0 mL hmL
    rw [hxu] at hl; cases hl
    exact ⟨hsm.modId.symm, hsm.isLogger.symm⟩
  · intro hf
    exact (hs.live u hu0).mp (H2 u xu hxu hf)
  · intro l hl hlu hal hlg _ hf
    have hlive := live_of_mem hnd hl hal
    have hl0 := uid_pos hxuids hl
    obtain ⟨ml, hml⟩ := Option.isSome_iff_exists.mp ((hs.live l.uid hl0).mp (H2 l.uid l hlive hf))
    obtain ⟨l', hl', hsm⟩ := tbl l.uid hl0 ml hml
    rw [hlive] at hl'; cases hl'
    exact ⟨ml, hml, by rw [← hsm.isLogger]; exact hlg⟩
  · intro l hl hlu hal ml hml hmlg
    have hlive := live_of_mem hnd hl hal
    have hl0 := uid_pos hxuids hl
    obtain ⟨l', hl', hsm⟩ := tbl l.uid hl0 ml hml
    rw [hlive] at hl'; cases hl'
    exact ⟨by rw [hsm.isLogger]; exact hmlg, by rw [hsm.connected]; exact hs.logConn l.uid ml hml hmlg⟩


/-! ## the subscription requests as table updates -/

def addSubsOf (cfg : Cfg) (t : Int) (l : List Int) : List Int :=
  if t == cfg.allTypes then [t] else if l.contains cfg.allTypes then l else if l.contains t then l else l ++ [t]

def rmSubsOf (cfg : Cfg) (t : Int) (l : List Int) : List Int :=
  if t == cfg.allTypes then [] else if l.contains cfg.allTypes then l else l.filter (· != t)

theorem find_self_map {s : State} {u : Nat} {m : Module} (hm : s.find u = some m) (v : Nat) :
    s.find v = (s.find v).map (fun x => if x.uid == u then { x with subs := m.subs } else x) := by
  cases hv : s.find v with
  | none => rfl
  | some x =>
    simp only [Option.map_some, Option.some.injEq]
    split
    · rename_i hxu
      have : v = u := by rw [← find_uid hv]; simpa using hxu
      subst this
      rw [hm] at hv; cases hv; rfl
    · rfl

theorem addSubCore_find (cfg : Cfg) (s : State) (u : Nat) (t : Int) (m : Module) (hm : s.find u = some m) (v : Nat) :
    (addSubCore cfg s u t).find v =
      (s.find v).map (fun x => if x.uid == u then { x with subs := addSubsOf cfg t m.subs } else x) := by
  have hl : lookupMod s u = m := by unfold lookupMod; rw [hm]; rfl
  unfold addSubCore addSubsOf
  simp only [hl]
  split
  · exact find_setSubs _ u v _
  · split
    · exact find_self_map hm v
    · exact find_setSubs _ u v _

theorem removeSubCore_find (cfg : Cfg) (s : State) (u : Nat) (t : Int) (m : Module) (hm : s.find u = some m) (v : Nat) :
    (removeSubCore cfg s u t).find v =
      (s.find v).map (fun x => if x.uid == u then { x with subs := rmSubsOf cfg t m.subs } else x) := by
  have hl : lookupMod s u = m := by unfold lookupMod; rw [hm]; rfl
  unfold removeSubCore rmSubsOf
  simp only [hl]
  split
  · exact find_setSubs _ u v _
  · split
    · exact find_self_map hm v
    · exact find_setSubs _ u v _

theorem addSubCore_misc (cfg : Cfg) (s : State) (u : Nat) (t : Int) :
    (addSubCore cfg s u t).loggers = s.loggers ∧ (addSubCore cfg s u t).nextUid = s.nextUid ∧
    (addSubCore cfg s u t).fail = s.fail ∧ (addSubCore cfg s u t).buf = s.buf ∧
    (addSubCore cfg s u t).wlist = s.wlist ∧ (addSubCore cfg s u t).out = s.out := by
  unfold addSubCore; dsimp only
  split
  · exact ⟨rfl, rfl, rfl, rfl, rfl, rfl⟩
  · split <;> exact ⟨rfl, rfl, rfl, rfl, rfl, rfl⟩

theorem removeSubCore_misc (cfg : Cfg) (s : State) (u : Nat) (t : Int) :
    (removeSubCore cfg s u t).loggers = s.loggers ∧ (removeSubCore cfg s u t).nextUid = s.nextUid ∧
    (removeSubCore cfg s u t).fail = s.fail ∧ (removeSubCore cfg s u t).buf = s.buf ∧
    (removeSubCore cfg s u t).wlist = s.wlist ∧ (removeSubCore cfg s u t).out = s.out := by
  unfold removeSubCore; dsimp only
  split
  · exact ⟨rfl, rfl, rfl, rfl, rfl, rfl⟩
  · split <;> exact ⟨rfl, rfl, rfl, rfl, rfl, rfl⟩

/-- whether the module record says "subscribed to everything" is what the abstract entry says -/
theorem contains_all {cfg : Cfg} {am : AMod} {m : Module} (h : SimMod cfg am m) :
    m.subs.contains cfg.allTypes = am.subAll := by
  rw [h.subs]
  cases hsa : am.subAll with
  | true => simp
  | false =>
    simp only [Bool.false_eq_true, if_false]
    have := h.noAll
    simpa using this

theorem simMod_add {cfg : Cfg} {am : AMod} {m : Module} (t : Int) (h : SimMod cfg am m) :
    SimMod cfg (Spec.subUpdA cfg t true am) { m with subs := addSubsOf cfg t m.subs } := by
  have hca := contains_all h
  unfold Spec.subUpdA addSubsOf
  by_cases ht : (t == cfg.allTypes) = true
  · have : t = cfg.allTypes := by simpa using ht
    simp only [ht, if_true]
    exact ⟨h.connected, h.modId, h.unique, h.isLogger, h.isDaemon, h.name, h.pid, by simp [this], by simp⟩
  · have ht' : (t == cfg.allTypes) = false := by simpa using ht
    simp only [ht', Bool.false_eq_true, if_false, hca]
    cases hsa : am.subAll with
    | true => simp only [if_true]; exact ⟨h.connected, h.modId, h.unique, h.isLogger, h.isDaemon, h.name, h.pid, h.subs, h.noAll⟩
    | false =>
      have hsub : m.subs = am.types := by rw [h.subs, hsa]; rfl
      simp only [Bool.false_eq_true, if_false, hsub]
      refine ⟨h.connected, h.modId, h.unique, h.isLogger, h.isDaemon, h.name, h.pid, by simp, ?_⟩
      show cfg.allTypes ∉ (if am.types.contains t = true then am.types else am.types ++ [t])
      split
      · exact h.noAll
      · intro hmem
        rcases List.mem_append.mp hmem with h1 | h1
        · exact h.noAll h1
        · simp at h1; exact ht (by simp [h1])

theorem simMod_rm {cfg : Cfg} {am : AMod} {m : Module} (t : Int) (h : SimMod cfg am m) :
    SimMod cfg (Spec.subUpdA cfg t false am) { m with subs := rmSubsOf cfg t m.subs } := by
  have hca := contains_all h
  unfold Spec.subUpdA rmSubsOf
  by_cases ht : (t == cfg.allTypes) = true
  · simp only [ht, if_true]
    exact ⟨h.connected, h.modId, h.unique, h.isLogger, h.isDaemon, h.name, h.pid, by simp, by simp⟩
  · have ht' : (t == cfg.allTypes) = false := by simpa using ht
    simp only [ht', Bool.false_eq_true, if_false, hca]
    cases hsa : am.subAll with
    | true => simp only [if_true]; exact ⟨h.connected, h.modId, h.unique, h.isLogger, h.isDaemon, h.name, h.pid, h.subs, h.noAll⟩
    | false =>
      have hsub : m.subs = am.types := by rw [h.subs, hsa]; rfl
      simp only [Bool.false_eq_true, if_false, hsub]
      refine ⟨h.connected, h.modId, h.unique, h.isLogger, h.isDaemon, h.name, h.pid, by simp, ?_⟩
      intro hmem
      exact h.noAll (List.mem_filter.mp hmem).1

theorem mem_idxAdd (idx : List (Int × List Nat)) (t t' : Int) (u v : Nat) :
    v ∈ idxGet (idxAdd idx t u) t' ↔ v ∈ idxGet idx t' ∨ (t' = t ∧ v = u) := by
  rw [idxAdd_get]
  by_cases h : t' = t
  · simp [h, mem_setAdd]
  · simp [h]

theorem mem_idxDiscard (idx : List (Int × List Nat)) (t t' : Int) (u v : Nat) :
    v ∈ idxGet (idxDiscard idx t u) t' ↔ v ∈ idxGet idx t' ∧ ¬(t' = t ∧ v = u) := by
  rw [idxDiscard_get]
  by_cases h : t' = t
  · simp [h, List.mem_filter]
  · simp [h]

/-- the subscription index after `add_subscription` -/
theorem addSubCore_idx (cfg : Cfg) (s : State) (u : Nat) (t : Int) (m : Module) (hm : s.find u = some m) (t' : Int) (v : Nat) :
    v ∈ idxGet (addSubCore cfg s u t).idx t' ↔
      if t == cfg.allTypes then (v ∈ idxGet s.idx t' ∧ ¬(t' ∈ m.subs ∧ v = u)) ∨ (t' = t ∧ v = u)
      else if m.subs.contains cfg.allTypes then v ∈ idxGet s.idx t'
      else v ∈ idxGet s.idx t' ∨ (t' = t ∧ v = u) := by
  have hl : lookupMod s u = m := by unfold lookupMod; rw [hm]; rfl
  unfold addSubCore
  simp only [hl]
  split
  · show v ∈ idxGet (idxAdd _ t u) t' ↔ _
    rw [mem_idxAdd, mem_discards]
  · split
    · exact Iff.rfl
    · show v ∈ idxGet (idxAdd s.idx t u) t' ↔ _
      rw [mem_idxAdd]

/-- the subscription index after `remove_subscription` -/
theorem removeSubCore_idx (cfg : Cfg) (s : State) (u : Nat) (t : Int) (m : Module) (hm : s.find u = some m) (t' : Int)
    (v : Nat) (h : v ∈ idxGet (removeSubCore cfg s u t).idx t') : v ∈ idxGet s.idx t' := by
  have hl : lookupMod s u = m := by unfold lookupMod; rw [hm]; rfl
  unfold removeSubCore at h
  simp only [hl] at h
  split at h
  · have h' : v ∈ idxGet (m.subs.foldl (fun i t' => idxDiscard i t' u) (idxDiscard s.idx t u)) t' := h
    rw [mem_discards, mem_idxDiscard] at h'
    exact h'.1.1
  · split at h
    · exact h
    · have h' : v ∈ idxGet (idxDiscard s.idx t u) t' := h
      rw [mem_idxDiscard] at h'
      exact h'.1

theorem removeSubCore_idx_keep (cfg : Cfg) (s : State) (u : Nat) (t : Int) (m : Module) (hm : s.find u = some m) (t' : Int)
    (v : Nat) (h : v ∈ idxGet s.idx t') (hk : v ≠ u ∨ (t' ≠ t ∧ t ≠ cfg.allTypes)) :
    v ∈ idxGet (removeSubCore cfg s u t).idx t' := by
  have hl : lookupMod s u = m := by unfold lookupMod; rw [hm]; rfl
  unfold removeSubCore
  simp only [hl]
  split
  · rename_i ht
    show v ∈ idxGet (m.subs.foldl (fun i t' => idxDiscard i t' u) (idxDiscard s.idx t u)) t'
    rw [mem_discards, mem_idxDiscard]
    rcases hk with hk | hk
    · exact ⟨⟨h, fun hh => hk hh.2⟩, fun hh => hk hh.2⟩
    · exact absurd (by simpa using ht) hk.2
  · split
    · exact h
    · show v ∈ idxGet (idxDiscard s.idx t u) t'
      rw [mem_idxDiscard]
      rcases hk with hk | hk
      · exact ⟨h, fun hh => hk hh.2⟩
      · exact ⟨h, fun hh => hk.1 hh.1⟩

theorem addSubCore_uids (cfg : Cfg) (s : State) (u : Nat) (t : Int) :
    (addSubCore cfg s u t).mods.map (·.uid) = s.mods.map (·.uid) ∧ (addSubCore cfg s u t).nextDyn = s.nextDyn := by
  unfold addSubCore; dsimp only
  split
  · exact ⟨uids_upd _ u _ (fun _ => rfl), rfl⟩
  · split
    · exact ⟨rfl, rfl⟩
    · exact ⟨uids_upd _ u _ (fun _ => rfl), rfl⟩

theorem removeSubCore_uids (cfg : Cfg) (s : State) (u : Nat) (t : Int) :
    (removeSubCore cfg s u t).mods.map (·.uid) = s.mods.map (·.uid) ∧ (removeSubCore cfg s u t).nextDyn = s.nextDyn := by
  unfold removeSubCore; dsimp only
  split
  · exact ⟨uids_upd _ u _ (fun _ => rfl), rfl⟩
  · split
    · exact ⟨rfl, rfl⟩
    · exact ⟨uids_upd _ u _ (fun _ => rfl), rfl⟩

/-- a rewrite of `subs` only keeps the model invariants -/
theorem minv_subs {cfg : Cfg} {s s' : State} {u : Nat} (h : MInvOn (fun _ => True) cfg s) (hu0 : u ≠ 0) (l : List Int)
    (huids : s'.mods.map (·.uid) = s.mods.map (·.uid))
    (hfind : ∀ v, s'.find v = (s.find v).map (fun m => if m.uid == u then { m with subs := l } else m))
    (hd : s'.nextDyn = s.nextDyn) : MInvOn (fun _ => True) cfg s' := by
  refine minv_close (minv_find (fm := fun m => { m with subs := l }) h hu0 huids hfind hd) (fun m' hm' hc => ?_)
  rw [hfind] at hm'
  cases h0 : s.find u with
  | none => simp [h0] at hm'
  | some x =>
    simp only [h0, Option.map_some, Option.some.injEq] at hm'
    subst hm'
    split at hc <;> rename_i hx
    · simp only [hx, if_true]; exact h.unconn u x trivial h0 hc
    · simp only [hx, Bool.false_eq_true, if_false]; exact h.unconn u x trivial h0 hc

/-- the table update of a subscription request keeps the simulation -/
theorem subCore_sim {cfg : Cfg} {a : A} {s : State} (hs : SimM cfg a s) (u : Nat) (hu0 : u ≠ 0) (t : Int) (add : Bool)
    (m : Module) (hm : s.find u = some m) :
    SimM cfg (a.upd u (Spec.subUpdA cfg t add)) (if add = true then addSubCore cfg s u t else removeSubCore cfg s u t) := by
  have huid : ∀ x, (Spec.subUpdA cfg t add x).uid = x.uid := by
    intro x; unfold Spec.subUpdA; split
    · split <;> rfl
    · split
      · rfl
      · split <;> rfl
  have hal : ∀ x, (Spec.subUpdA cfg t add x).alive = x.alive := by
    intro x; unfold Spec.subUpdA; split
    · split <;> rfl
    · split
      · rfl
      · split <;> rfl
  cases add with
  | true =>
    simp only [if_true]
    obtain ⟨h1, h2, h3, h4, h5, _⟩ := addSubCore_misc cfg s u t
    refine sim_upd_find hs u _ (fun x => { x with subs := addSubsOf cfg t m.subs }) huid hal
      (addSubCore_find cfg s u t m hm) h1 h2 h3 h4 h5 ?_ ?_
      (minv_subs hs.minv hu0 _ (addSubCore_uids cfg s u t).1 (addSubCore_find cfg s u t m hm) (addSubCore_uids cfg s u t).2)
      (fun am m' _ hm' h => by rw [hm] at hm'; cases hm'; exact simMod_add t h) (fun _ => rfl) (fun _ => rfl)
    · intro v m' t' hm' ht'
      rw [addSubCore_find cfg s u t m hm] at hm'
      rw [addSubCore_idx cfg s u t m hm]
      cases hm0 : s.find v with
      | none => simp [hm0] at hm'
      | some m0 =>
        simp only [hm0, Option.map_some, Option.some.injEq] at hm'
        have hv := find_uid hm0
        by_cases hvu : v = u
        · subst hvu
          rw [hm] at hm0; cases hm0
          have hc : (m.uid == v) = true := by simp [hv]
          rw [hc] at hm'; simp only [if_true] at hm'
          subst hm'
          unfold addSubsOf at ht'
          split
          · rename_i hta
            simp only [hta, if_true, List.mem_singleton] at ht'
            exact Or.inr ⟨ht', rfl⟩
          · rename_i hta
            simp only [hta, Bool.false_eq_true, if_false] at ht'
            split
            · rename_i hca
              simp only [hca, if_true] at ht'
              exact hs.idxIn v m t' hm ht'
            · rename_i hca
              simp only [hca, Bool.false_eq_true, if_false] at ht'
              split at ht'
              · exact Or.inl (hs.idxIn v m t' hm ht')
              · rcases List.mem_append.mp ht' with h | h
                · exact Or.inl (hs.idxIn v m t' hm h)
                · exact Or.inr ⟨by simpa using h, rfl⟩
        · have hc : (m0.uid == u) = false := by rw [hv]; simpa using hvu
          rw [hc] at hm'; simp only [Bool.false_eq_true, if_false] at hm'
          subst hm'
          have hold := hs.idxIn v m0 t' hm0 ht'
          split
          · exact Or.inl ⟨hold, fun h => hvu h.2⟩
          · split
            · exact hold
            · exact Or.inl hold
    · intro t' v hv
      rw [addSubCore_idx cfg s u t m hm] at hv
      split at hv
      · rcases hv with h | h
        · exact hs.idxPos t' v h.1
        · rw [h.2]; exact hu0
      · split at hv
        · exact hs.idxPos t' v hv
        · rcases hv with h | h
          · exact hs.idxPos t' v h
          · rw [h.2]; exact hu0
  | false =>
    simp only [Bool.false_eq_true, if_false]
    obtain ⟨h1, h2, h3, h4, h5, _⟩ := removeSubCore_misc cfg s u t
    refine sim_upd_find hs u _ (fun x => { x with subs := rmSubsOf cfg t m.subs }) huid hal
      (removeSubCore_find cfg s u t m hm) h1 h2 h3 h4 h5 ?_ ?_
      (minv_subs hs.minv hu0 _ (removeSubCore_uids cfg s u t).1 (removeSubCore_find cfg s u t m hm)
        (removeSubCore_uids cfg s u t).2)
      (fun am m' _ hm' h => by rw [hm] at hm'; cases hm'; exact simMod_rm t h) (fun _ => rfl) (fun _ => rfl)
    · intro v m' t' hm' ht'
      rw [removeSubCore_find cfg s u t m hm] at hm'
      cases hm0 : s.find v with
      | none => simp [hm0] at hm'
      | some m0 =>
        simp only [hm0, Option.map_some, Option.some.injEq] at hm'
        have hv := find_uid hm0
        by_cases hvu : v = u
        · subst hvu
          rw [hm] at hm0; cases hm0
          have hc : (m.uid == v) = true := by simp [hv]
          rw [hc] at hm'; simp only [if_true] at hm'
          subst hm'
          unfold rmSubsOf at ht'
          by_cases hta : (t == cfg.allTypes) = true
          · simp only [hta, if_true, List.not_mem_nil] at ht'
          · have hta' : (t == cfg.allTypes) = false := by simpa using hta
            simp only [hta', Bool.false_eq_true, if_false] at ht'
            by_cases hca : m.subs.contains cfg.allTypes = true
            · simp only [hca, if_true] at ht'
              have : removeSubCore cfg s v t = s := by
                unfold removeSubCore
                have hl : lookupMod s v = m := by unfold lookupMod; rw [hm]; rfl
                simp only [hl, hta', Bool.false_eq_true, if_false, hca, if_true]
              rw [this]; exact hs.idxIn v m t' hm ht'
            · have hca' : m.subs.contains cfg.allTypes = false := by simpa using hca
              simp only [hca', Bool.false_eq_true, if_false] at ht'
              obtain ⟨hin, hne⟩ := List.mem_filter.mp ht'
              exact removeSubCore_idx_keep cfg s v t m hm t' v (hs.idxIn v m t' hm hin)
                (Or.inr ⟨by simpa using hne, by simpa using hta⟩)
        · have hc : (m0.uid == u) = false := by rw [hv]; simpa using hvu
          rw [hc] at hm'; simp only [Bool.false_eq_true, if_false] at hm'
          subst hm'
          exact removeSubCore_idx_keep cfg s u t m hm t' v (hs.idxIn v m0 t' hm0 ht') (Or.inl hvu)
    · intro t' v hv
      exact hs.idxPos t' v (removeSubCore_idx cfg s u t m hm t' v hv)

/-! ## SUBSCRIBE / RESUME / UNSUBSCRIBE / PAUSE -/

/-- an optional DEBUG log line -/
structure LogStep (cfg : Cfg) (c sL : State) : Prop where
  nest : Nest c sL
  pres : Pres c sL
  quiet : Quiet isAck c sL

theorem logStep_refl (cfg : Cfg) (c : State) : LogStep cfg c c := ⟨Nest.refl c, Pres.refl c, Quiet.refl _ c⟩

theorem logStep_log (cfg : Cfg) (lvl : Nat) (c : State) : LogStep cfg c (logAt cfg (fwdTop cfg) lvl c) :=
  ⟨logTop_nest cfg lvl c, (logAt_ok cfg (tag_ack cfg) (fwdTop_ok cfg (tag_ack cfg)) lvl c).1, qa_log cfg lvl c⟩

/-- non-failing table entries survive a step that keeps `Pres` -/
theorem pres_survive {s s' : State} (h : Pres s s') (v : Nat) (hf : failOf s v = none) (hv : (s.find v).isSome) :
    (s'.find v).isSome := by
  have := h.keep v hf
  obtain ⟨m, hm⟩ := Option.isSome_iff_exists.mp hv
  rw [hm] at this
  cases h' : s'.find v with
  | none => simp [h'] at this
  | some _ => rfl

/-- **The acknowledged part of a control frame.**  The table update has been made on both sides (`a0`, `c`), the model
then runs some nested activity that keeps `Pres` and writes no ACKNOWLEDGE (`c → sL`), then `send_ack`, then a quiet
continuation; `checkAcks … true` on `a0` for the events of all that returns `a0` unchanged. -/
theorem ack_part {cfg : Cfg} (hperm : OrdPerm cfg) {a0 : A} {c sL s2 : State} (hs0 : SimM cfg a0 c) (t0 : Top cfg c)
    (ls : LogStep cfg c sL) (tL : Top cfg sL) (jL : J sL) (u : Nat) (hu0 : u ≠ 0) (xu : AMod) (hxu : a0.live u = some xu)
    (q : QuietTo cfg (sendAck cfg sL u) s2) (evs : List Ev) (he : s2.out = c.out ++ evs) :
    Spec.checkAcks cfg a0 u true evs = a0 ∧ Nest c (sendAck cfg sL u) := by
  obtain ⟨e1, he1, _, _⟩ := ls.nest.ext
  obtain ⟨e2, he2, _, _⟩ := (sendAck_nest cfg sL u).ext
  obtain ⟨e3, he3, _, _⟩ := q.nest.ext
  have hevs : evs = e1 ++ (e2 ++ e3) := by
    have : c.out ++ evs = c.out ++ (e1 ++ (e2 ++ e3)) := by
      rw [← he, he3, he2, he1]; simp [List.append_assoc]
    exact List.append_cancel_left this
  have hq1 : dataSends isAck e1 = [] := quiet_ext he1 ls.quiet
  have hq3 : dataSends isAck e3 = [] := quiet_ext he3 q.noAck
  have hd : dataSends isAck evs = dataSends isAck e2 := by
    rw [hevs, dataSends_append, dataSends_append, hq1, hq3]; simp
  have hsL : SimM cfg (Spec.applyDepartures a0 e1) sL := sim_quiet hs0 t0.aopen tL.aopen ls.nest jL e1 he1
  have hlive : ∀ v, (Spec.applyDepartures a0 e1).live v = if (Spec.closes e1).contains v then none else a0.live v :=
    Spec.applyDepartures_live a0 e1
  refine ⟨?_, ls.nest.trans (sendAck_nest cfg sL u)⟩
  refine checkAcks_via cfg hperm hsL tL.aopen u hu0 xu hxu ?_ hs0.uids ?_ ?_ e2 evs he2 hd
  · rw [← hsL.fail, (Spec.applyDepartures_core a0 e1).2.1]
  · intro v bl hb
    rw [hlive] at hb
    split at hb
    · cases hb
    · exact hb
  · intro v l hl hf
    rw [hlive]
    have hmem : l ∈ a0.mods := Spec.get_mem (Spec.live_some.mp hl).1
    have hv0 : v ≠ 0 := by rw [← Spec.get_uid (Spec.live_some.mp hl).1]; exact uid_pos hs0.uids hmem
    have hin : (c.find v).isSome := (hs0.live v hv0).mp (by simp [hl])
    have hin' := pres_survive ls.pres v (by rw [← failOf_congr ls.pres.fail]; exact hf) hin
    have : ¬ (Spec.closes e1).contains v = true := by
      intro hc
      have := closed_gone tL.aopen jL e1 he1 v ((mem_closes e1 v).mp (by simpa using hc))
      rw [this] at hin'; cases hin'
    have this' : (Spec.closes e1).contains v = false := by simpa using this
    simp only [this', Bool.false_eq_true, if_false, hl, Option.isSome_some]


section sub
variable {cfg : Cfg} (ok : CfgOK cfg) (hfuel : cfg.fuel = 0) (hperm : OrdPerm cfg)
  {a : A} {s : State} (inv : Inv cfg a s) (rd : Read) (hu0 : rd.uid ≠ 0) (m : Module) (hm : s.find rd.uid = some m)
  (am : AMod) (hget : a.get rd.uid = some am) (hal : am.alive = true) (hsm : SimMod cfg am m)
  (s2 : State) (evs : List Ev) (he : s2.out = (rdState cfg s rd).out ++ evs)
  (hb : Spec.brokenRd cfg rd = false) (q : QuietTo cfg (readOne cfg s rd) s2)
  (hc : (rd.h.mtype == cfg.mtConnect || rd.h.mtype == cfg.mtConnectV2) = false)
  (hd : (rd.h.mtype == cfg.mtDisconnect) = false)
include ok hfuel hperm inv hu0 hm hget hal hsm he hb q hc hd

theorem seg_sub (hs : (rd.h.mtype == cfg.mtSubscribe || rd.h.mtype == cfg.mtResume || rd.h.mtype == cfg.mtUnsubscribe ||
      rd.h.mtype == cfg.mtPause) = true) : SegGoal cfg a rd evs s2 := by
  rw [readOne_whole cfg s rd inv.top.good.ok m hm hb, pm_sub cfg _ _ _ hc hd hs] at q
  have hseg := Spec.segment_sub cfg a rd evs am hget hal hb hc hd hs
  rw [bufs_eq inv.sim rd] at hseg
  generalize bufI32 (rdState cfg s rd).buf 0 = ty at q hseg
  generalize (rd.h.mtype == cfg.mtSubscribe || rd.h.mtype == cfg.mtResume) = add at q hseg
  have hm0 : (rdState cfg s rd).find rd.uid = some m := hm
  have t00 := rdState_top ok hfuel inv.top rd
  have j00 : J (rdState cfg s rd) := rdState_J inv.j rd
  -- the table update
  have hs0 := subCore_sim (rdState_sim inv.sim rd) rd.uid hu0 ty add m hm0
  generalize hC : (if add = true then addSubCore cfg (rdState cfg s rd) rd.uid ty
    else removeSubCore cfg (rdState cfg s rd) rd.uid ty) = c at hs0
  have t0 : Top cfg c := by
    rw [← hC]; cases add
    · exact top_removeSubCore ok hfuel t00 rd.uid ty m hm0
    · exact top_addSubCore ok hfuel t00 rd.uid ty m hm0
  have j0 : J c := by
    rw [← hC]; cases add
    · exact removeSubCore_J cfg j00 rd.uid ty
    · exact addSubCore_J cfg j00 rd.uid ty
  have hout : c.out = (rdState cfg s rd).out := by
    rw [← hC]; cases add
    · exact (removeSubCore_misc cfg _ rd.uid ty).2.2.2.2.2
    · exact (addSubCore_misc cfg _ rd.uid ty).2.2.2.2.2
  -- the optional DEBUG line
  have hall : OrdAll cfg := OrdAll_of_perm hperm
  obtain ⟨sL, hsL, ls, dtL⟩ : ∃ sL, (if add = true then addSub cfg (rdState cfg s rd) rd.uid ty
      else removeSub cfg (rdState cfg s rd) rd.uid ty) = sL ∧ LogStep cfg c sL ∧ (Top cfg c → DT cfg none c sL) := by
    refine ⟨_, rfl, ?_⟩
    rw [← hC]
    cases add
    · simp only [Bool.false_eq_true, if_false]
      unfold removeSub; split
      · exact ⟨logStep_log cfg 10 _, fun h => dt_log ok hall hfuel h 10⟩
      · exact ⟨logStep_refl cfg _, fun h => DT.refl h _⟩
    · simp only [if_true]
      unfold addSub; split
      · exact ⟨logStep_log cfg 10 _, fun h => dt_log ok hall hfuel h 10⟩
      · exact ⟨logStep_refl cfg _, fun h => DT.refl h _⟩
  rw [hsL] at q
  have tL : Top cfg sL := by
    rw [← hsL]; cases add
    · exact top_removeSub ok hfuel t00 rd.uid ty m hm0
    · exact top_addSub ok hfuel t00 rd.uid ty m hm0
  have jL : J sL := by
    rw [← hsL]; cases add
    · exact removeSub_J cfg j00 rd.uid ty
    · exact addSub_J cfg j00 rd.uid ty
  have hlive0 : (Spec.afterBuf cfg a rd).live rd.uid = some am := Spec.live_some.mpr ⟨hget, hal⟩
  have huid : ∀ x, (Spec.subUpdA cfg ty add x).uid = x.uid := by
    intro x; unfold Spec.subUpdA; split
    · split <;> rfl
    · split
      · rfl
      · split <;> rfl
  have halv : ∀ x, (Spec.subUpdA cfg ty add x).alive = x.alive := by
    intro x; unfold Spec.subUpdA; split
    · split <;> rfl
    · split
      · rfl
      · split <;> rfl
  have hxu : ((Spec.afterBuf cfg a rd).upd rd.uid (Spec.subUpdA cfg ty add)).live rd.uid =
      some (Spec.subUpdA cfg ty add am) := by
    rw [live_upd _ _ _ _ huid halv, hlive0]
    simp [Spec.get_uid hget]
  obtain ⟨hck, n⟩ := ack_part hperm hs0 t0 ls tL jL rd.uid hu0 _ hxu q evs (by rw [hout]; exact he)
  have hW : Spec.CoreExt othersCore ((Spec.afterBuf cfg a rd).upd rd.uid (Spec.subUpdA cfg ty add))
      (Spec.checkDepartures cfg (Spec.checkAcks cfg ((Spec.afterBuf cfg a rd).upd rd.uid (Spec.subUpdA cfg ty add))
        rd.uid true evs) none evs) := by
    rw [hck]
    exact ext_others (dep_ext hs0 t0 n q evs (by rw [hout]; exact he) (Spec.CoreExt.refl [] _) none
      ((dtL t0).bind (fun h' => dt_sendAck ok hall hfuel h' rd.uid)).dep (fun u hu => by cases hu))
  exact segGoal_of hseg rfl (seg_close hs0 t0 n q evs (by rw [hout]; exact he) hW)

end sub

end Pyrtma.Mgr
