import Pyrtma.Proofs.ValidatorsSound
/-!
# Floats: what does not depend on the rounding function, and what follows from named hypotheses about it

`roundMag` is `opaque`.  Part 1 is about the Spec's own arithmetic (`magValue` is strictly increasing in the bit
pattern, a finite pattern is the nearest pattern to its own value and does not overflow).  Part 2 states the hypotheses
(`RoundHyp`) and derives the three facts the soundness theorems use (`FltStoreSound`, `FltCopySound`, `FltWidenWF`).
-/
namespace Pyrtma.Validators

/-! ## part 1: the value of a bit pattern -/


/-- exponent offset of the scaled values: `2^K` is the scaled value of one unit in the last place of a subnormal -/
def Fmt.K (f : Fmt) : Nat := (f.emin + 1100).toNat

/-- the formats we talk about: the scale `2^-1100` is fine enough -/
def Fmt.ok (f : Fmt) : Prop := 0 ≤ f.emin + 1100

theorem fmt32_ok : fmt32.ok := by unfold Fmt.ok; decide
theorem fmt64_ok : fmt64.ok := by unfold Fmt.ok; decide

/-- closed form of the value of a magnitude pattern -/
theorem magValue_eq (f : Fmt) (hf : f.ok) (p : Nat) :
    magValue f p =
      if p / 2 ^ f.mbits = 0 then (p % 2 ^ f.mbits) * 2 ^ f.K
      else (p % 2 ^ f.mbits + 2 ^ f.mbits) * 2 ^ (f.K + p / 2 ^ f.mbits - 1) := by
  unfold magValue scaled Fmt.K Fmt.ok at *
  simp only [beq_iff_eq]
  split
  · rfl
  · rename_i hE
    congr 2
    omega

theorem divmod_step (B q r : Nat) (hB : 0 < B) (hr : r < B) : (B * q + r) / B = q ∧ (B * q + r) % B = r := by
  constructor
  · rw [Nat.mul_add_div hB, Nat.div_eq_of_lt hr]; rfl
  · rw [Nat.mul_add_mod, Nat.mod_eq_of_lt hr]

theorem magValue_strict (f : Fmt) (hf : f.ok) (p : Nat) : magValue f p < magValue f (p + 1) := by
  rw [magValue_eq f hf, magValue_eq f hf]
  have hpos : 0 < 2 ^ f.mbits := Nat.pow_pos (by decide)
  generalize 2 ^ f.mbits = B at *
  generalize f.K = K
  have hr : p % B < B := Nat.mod_lt p hpos
  have hp : p = B * (p / B) + p % B := (Nat.div_add_mod p B).symm
  generalize p / B = q at *
  generalize p % B = r at *
  subst hp
  by_cases hc : r + 1 < B
  · have h1 := divmod_step B q (r + 1) hpos hc
    rw [Nat.add_assoc, h1.1, h1.2]
    split
    · exact Nat.mul_lt_mul_of_pos_right (by omega) (Nat.pow_pos (by decide))
    · exact Nat.mul_lt_mul_of_pos_right (by omega) (Nat.pow_pos (by decide))
  · have hrB : r + 1 = B := by omega
    have e : B * q + r + 1 = B * (q + 1) + 0 := by rw [Nat.mul_add]; omega
    have h1 := divmod_step B (q + 1) 0 hpos hpos
    rw [e, h1.1, h1.2]
    have hne : ¬ (q + 1 = 0) := by omega
    simp only [hne, if_false, Nat.zero_add]
    split
    · rename_i hE
      subst hE
      simp only [Nat.zero_add, Nat.add_sub_cancel]
      exact Nat.mul_lt_mul_of_pos_right (by omega) (Nat.pow_pos (by decide))
    · rename_i hE
      have e2 : K + (q + 1) - 1 = (K + q - 1) + 1 := by omega
      rw [e2, Nat.pow_succ]
      have hp2 : 0 < 2 ^ (K + q - 1) := Nat.pow_pos (by decide)
      generalize 2 ^ (K + q - 1) = Q at *
      have : (r + B) * Q < B * (Q * 2) := by
        rw [Nat.mul_comm Q 2, ← Nat.mul_assoc]
        exact Nat.mul_lt_mul_of_pos_right (by omega) hp2
      exact this

theorem magValue_mono (f : Fmt) (hf : f.ok) : ∀ (p q : Nat), p ≤ q → magValue f p ≤ magValue f q := by
  intro p q h
  induction q with
  | zero => have : p = 0 := by omega
            subst this; exact Nat.le_refl _
  | succ q ih =>
    by_cases hq : p ≤ q
    · exact Nat.le_trans (ih hq) (Nat.le_of_lt (magValue_strict f hf q))
    · have : p = q + 1 := by omega
      subst this; exact Nat.le_refl _

/-- a finite pattern is the nearest pattern to its own value -/
theorem isNearestMag_self (f : Fmt) (hf : f.ok) (p : Nat) (hp : p < f.infPat) :
    isNearestMag f (magValue f p) p = true := by
  unfold isNearestMag
  have h2 := magValue_strict f hf p
  simp only [Bool.and_eq_true, decide_eq_true_eq, Bool.or_eq_true, beq_iff_eq]
  refine ⟨⟨hp, ?_⟩, ?_⟩
  · by_cases h0 : p = 0
    · left; exact h0
    · right; left
      have h1 := magValue_strict f hf (p - 1)
      have : p - 1 + 1 = p := by omega
      rw [this] at h1
      omega
  · left; omega

/-- a finite pattern does not overflow -/
theorem not_overflows_finite (f : Fmt) (hf : f.ok) (p : Nat) (hp : p < f.infPat) :
    overflowsMag f (magValue f p) = false := by
  unfold overflowsMag
  have h1 := magValue_mono f hf p (f.infPat - 1) (by omega)
  have h2 := magValue_strict f hf (f.infPat - 1)
  have : f.infPat - 1 + 1 = f.infPat := by omega
  rw [this] at h2
  simp only [decide_eq_false_iff_not, ge_iff_le, Nat.not_le]
  omega


/-! ### constants and the classification of bit patterns -/


theorem fmt32_sign : fmt32.sign = 2147483648 := by decide
theorem fmt64_sign : fmt64.sign = 9223372036854775808 := by decide
theorem fmt32_inf : fmt32.infPat = 2139095040 := by decide
theorem fmt64_inf : fmt64.infPat = 9218868437227405312 := by decide
theorem fmt32_mb : fmt32.mbits = 23 := by decide
theorem fmt64_mb : fmt64.mbits = 52 := by decide

theorem decodeMag_value (f : Fmt) (p m : Nat) (e : Int) (h : decodeMag f p = .fin m e) :
    magValue f p = scaled m e := by
  unfold decodeMag at h
  unfold magValue
  simp only at h ⊢
  split at h
  · split at h <;> cases h
  · split at h
    · rename_i hE
      simp only [FV.fin.injEq] at h
      simp only [hE, if_true, ← h.1, ← h.2]
    · rename_i hE
      simp only [FV.fin.injEq] at h
      simp only [hE, Bool.false_eq_true, if_false, ← h.1, ← h.2]

/-- classification of a 63-bit magnitude of a double -/
theorem decodeMag64_cases (p : Nat) (hp : p < 2 ^ 63) :
    (p < fmt64.infPat ∧ ∃ m e, decodeMag fmt64 p = .fin m e) ∨
    (p = fmt64.infPat ∧ decodeMag fmt64 p = .inf) ∨
    (p > fmt64.infPat ∧ decodeMag fmt64 p = .nan) := by
  rw [fmt64_inf]
  unfold decodeMag
  simp only [fmt64_mb, show fmt64.ebits = 11 from rfl, show fmt64.emin = -1074 from by decide]
  by_cases h1 : p / 2 ^ 52 ≥ 2 ^ 11 - 1
  · simp only [h1, if_true]
    by_cases h2 : p % 2 ^ 52 = 0
    · right; left
      simp only [h2, beq_self_eq_true, if_true, and_true]
      omega
    · right; right
      have : (p % 2 ^ 52 == 0) = false := by simpa using h2
      simp only [this, Bool.false_eq_true, if_false, and_true]
      omega
  · left
    simp only [h1, if_false]
    refine ⟨by omega, ?_⟩
    split <;> exact ⟨_, _, rfl⟩

theorem decodeMag32_cases (p : Nat) (hp : p < 2 ^ 31) :
    (p < fmt32.infPat ∧ ∃ m e, decodeMag fmt32 p = .fin m e) ∨
    (p = fmt32.infPat ∧ decodeMag fmt32 p = .inf) ∨
    (p > fmt32.infPat ∧ decodeMag fmt32 p = .nan) := by
  rw [fmt32_inf]
  unfold decodeMag
  simp only [fmt32_mb, show fmt32.ebits = 8 from rfl, show fmt32.emin = -149 from by decide]
  by_cases h1 : p / 2 ^ 23 ≥ 2 ^ 8 - 1
  · simp only [h1, if_true]
    by_cases h2 : p % 2 ^ 23 = 0
    · right; left
      simp only [h2, beq_self_eq_true, if_true, and_true]
      omega
    · right; right
      have : (p % 2 ^ 23 == 0) = false := by simpa using h2
      simp only [this, Bool.false_eq_true, if_false, and_true]
      omega
  · left
    simp only [h1, if_false]
    refine ⟨by omega, ?_⟩
    split <;> exact ⟨_, _, rfl⟩


/-! ## part 2: the hypotheses, and what follows from them -/


/-- **named hypotheses about the opaque rounding function** (`roundMag f m e` = magnitude pattern of `m·2^e` rounded
into `f`; a result `≥ f.infPat` means overflow).  Each one is a property of IEEE-754 round-to-nearest; none is checked by
the kernel; the harness checks their consequences on every generated case (bit patterns against ctypes, the Spec's
`isNearestMag` / `overflowsMag` on the implementation's bytes). -/
structure RoundHyp : Prop where
  /-- a finite result is a nearest pattern (ties to even) -/
  nearest32 : ∀ m e, roundMag fmt32 m e < fmt32.infPat → isNearestMag fmt32 (scaled m e) (roundMag fmt32 m e) = true
  nearest64 : ∀ m e, roundMag fmt64 m e < fmt64.infPat → isNearestMag fmt64 (scaled m e) (roundMag fmt64 m e) = true
  /-- a value at or beyond the IEEE overflow threshold is not rounded to a finite pattern -/
  overflow32 : ∀ m e, overflowsMag fmt32 (scaled m e) = true → fmt32.infPat ≤ roundMag fmt32 m e
  overflow64 : ∀ m e, overflowsMag fmt64 (scaled m e) = true → fmt64.infPat ≤ roundMag fmt64 m e
  /-- representable values are fixed: every float32 value is a double … -/
  widenExact : ∀ p m e, p < fmt32.infPat → decodeMag fmt32 p = .fin m e →
    roundMag fmt64 m e < fmt64.infPat ∧ magValue fmt64 (roundMag fmt64 m e) = scaled m e
  /-- … and so is every integer up to 2^53 -/
  intExact : ∀ n : Nat, n ≤ 2 ^ 53 →
    roundMag fmt64 n 0 < fmt64.infPat ∧ magValue fmt64 (roundMag fmt64 n 0) = scaled n 0
  /-- monotonicity, in the one place it is used: a big integer that is still finite after `int → double → float` was
  below the float32 overflow threshold to begin with (rounding to double cannot carry a value across that threshold
  downwards, because the threshold itself is a double) -/
  bigIntNarrow : ∀ (n m : Nat) (e : Int), 2 ^ 53 < n → roundMag fmt64 n 0 < fmt64.infPat →
    decodeMag fmt64 (roundMag fmt64 n 0) = .fin m e → roundMag fmt32 m e < fmt32.infPat →
    overflowsMag fmt32 (scaled n 0) = false

/-! ### `narrow`, `widen`, `ofInt` case by case -/

theorem narrow_fin (b m : Nat) (e : Int) (h : decodeMag fmt64 (b % 2 ^ 63) = .fin m e) :
    narrow b = b / 2 ^ 63 % 2 * 2 ^ 31 + min (roundMag fmt32 m e) fmt32.infPat := by
  unfold narrow
  simp only [h]

theorem narrow_inf (b : Nat) (h : decodeMag fmt64 (b % 2 ^ 63) = .inf) :
    narrow b = b / 2 ^ 63 % 2 * 2 ^ 31 + fmt32.infPat := by
  unfold narrow
  simp only [h]

theorem narrow_nan (b : Nat) (h : decodeMag fmt64 (b % 2 ^ 63) = .nan) :
    narrow b = b / 2 ^ 63 % 2 * 2 ^ 31 + (0x7fc00000 + (b % 2 ^ 63 % 2 ^ 51) / 2 ^ 29) := by
  unfold narrow
  simp only [h]

theorem widen_fin (p m : Nat) (e : Int) (h : decodeMag fmt32 (p % 2 ^ 31) = .fin m e) :
    widen p = p / 2 ^ 31 % 2 * 2 ^ 63 + roundMag fmt64 m e := by
  unfold widen
  simp only [h]

theorem widen_inf (p : Nat) (h : decodeMag fmt32 (p % 2 ^ 31) = .inf) :
    widen p = p / 2 ^ 31 % 2 * 2 ^ 63 + fmt64.infPat := by
  unfold widen
  simp only [h]

theorem widen_nan (p : Nat) (h : decodeMag fmt32 (p % 2 ^ 31) = .nan) :
    widen p = p / 2 ^ 31 % 2 * 2 ^ 63 + (0x7ff8000000000000 + (p % 2 ^ 31 % 2 ^ 22) * 2 ^ 29) := by
  unfold widen
  simp only [h]

theorem ofInt_some (n : Int) (d : Nat) (h : ofInt n = some d) :
    roundMag fmt64 n.natAbs 0 < fmt64.infPat ∧ d = (if n < 0 then 2 ^ 63 else 0) + roundMag fmt64 n.natAbs 0 := by
  unfold ofInt at h
  simp only at h
  split at h
  · cases h
  · rename_i hlt
    simp only [Option.some.injEq] at h
    exact ⟨by omega, h.symm⟩

theorem fromLE_toLE4 (x : Nat) (h : x < 2 ^ 32) : fromLE (toLE 4 x) = x := by
  rw [fromLE_toLE]; exact Nat.mod_eq_of_lt (by simpa using h)
theorem fromLE_toLE8 (x : Nat) (h : x < 2 ^ 64) : fromLE (toLE 8 x) = x := by
  rw [fromLE_toLE]; exact Nat.mod_eq_of_lt (by simpa using h)

/-- the `holds1` clause for a Python float, spelled out -/
theorem holds1_flt_flt (k : FK) (b : Nat) (c : Bytes) :
    holds1 (.flt k) (.flt b) c =
      (let pat := fromLE c
       let f := fmtOf k
       let mag := pat % f.sign
       if isNaN64 b then decide (mag > f.infPat)
       else match k with
         | .f64 => pat == b
         | .f32 =>
           match realOf (.flt b) with
           | none => isInf64 b && mag == f.infPat && ((pat / f.sign % 2 == 1) == (b / 2 ^ 63 % 2 == 1))
           | some (neg, a) => (pat / f.sign % 2 == 1) == neg && isNearestMag f a mag) := by
  cases k <;> rfl

/-- the `holds1` clause for a Python int or bool, spelled out -/
theorem holds1_flt_num (k : FK) (x : Scalar) (hx : (∃ n, x = .int n) ∨ ∃ t, x = .bool t) (c : Bytes) :
    holds1 (.flt k) x c =
      (let pat := fromLE c
       let f := fmtOf k
       let mag := pat % f.sign
       match realOf x with
       | none => false
       | some (neg, a) =>
         decide (mag < f.infPat) && (a == 0 || (pat / f.sign % 2 == 1) == neg) &&
         (decide (a > scaled (2 ^ 53) 0) || isNearestMag f a mag)) := by
  rcases hx with ⟨n, rfl⟩ | ⟨t, rfl⟩ <;> cases k <;> rfl


/-! ### the first fact: what is stored for a number that passed validation -/

theorem fmtOf32 : fmtOf .f32 = fmt32 := rfl
theorem fmtOf64 : fmtOf .f64 = fmt64 := rfl

/-- a finite double stored into a float32 field that is not infinite afterwards: what was stored -/
theorem narrow_finite (b m : Nat) (e : Int) (_hb : b < 2 ^ 64) (h : decodeMag fmt64 (b % 2 ^ 63) = .fin m e)
    (hinf : infAfter .f32 b = false) :
    roundMag fmt32 m e < fmt32.infPat ∧ narrow b < 2 ^ 32 ∧ narrow b % 2 ^ 31 = roundMag fmt32 m e ∧
    narrow b / 2 ^ 31 % 2 = b / 2 ^ 63 % 2 := by
  have hn := narrow_fin b m e h
  simp only [infAfter, isInf32, beq_eq_false_iff_ne, ne_eq] at hinf
  rw [hn, fmt32_inf] at hinf
  rw [hn, fmt32_inf]
  generalize roundMag fmt32 m e = r at *
  have hs : b / 2 ^ 63 % 2 < 2 := Nat.mod_lt _ (by decide)
  generalize b / 2 ^ 63 % 2 = sg at *
  omega

/-- the first float fact for a Python float on the right-hand side -/
theorem store_flt_sound (R : RoundHyp) (k : FK) (b : Nat) (hb : b < 2 ^ 64) (hinf : infAfter k b = false) :
    fltDom k (.flt b) = true ∧ holds1 (.flt k) (.flt b) (encFlt k b) = true := by
  have hm : b % 2 ^ 63 < 2 ^ 63 := Nat.mod_lt _ (by decide)
  rcases decodeMag64_cases (b % 2 ^ 63) hm with ⟨hlt, m, e, hd⟩ | ⟨heq, hd⟩ | ⟨hgt, hd⟩
  · -- finite
    have hval := decodeMag_value fmt64 _ m e hd
    have hnan : isNaN64 b = false := by
      simp only [isNaN64, decide_eq_false_iff_not]; omega
    have hreal : realOf (.flt b) = some (b / 2 ^ 63 % 2 == 1, scaled m e) := by simp [realOf, hd]
    cases k with
    | f64 =>
      refine ⟨?_, ?_⟩
      · simp only [fltDom, isNaNScalar, hnan, hreal, Bool.false_or, fmtOf64, Bool.not_eq_true']
        rw [← hval]; exact not_overflows_finite fmt64 fmt64_ok _ hlt
      · rw [holds1_flt_flt]
        simp only [hnan, Bool.false_eq_true, if_false, encFlt, fromLE_toLE8 b hb, beq_self_eq_true]
    | f32 =>
      obtain ⟨hr, hn32, hmag, hsg⟩ := narrow_finite b m e hb hd hinf
      refine ⟨?_, ?_⟩
      · simp only [fltDom, isNaNScalar, hnan, hreal, Bool.false_or, fmtOf32, Bool.not_eq_true']
        cases ho : overflowsMag fmt32 (scaled m e) with
        | false => rfl
        | true => have := R.overflow32 m e ho; omega
      · rw [holds1_flt_flt]
        simp only [hnan, Bool.false_eq_true, if_false, encFlt, fromLE_toLE4 _ hn32, hreal, fmtOf32, fmt32_sign]
        have e1 : narrow b % 2147483648 = roundMag fmt32 m e := by simpa using hmag
        have e2 : narrow b / 2147483648 % 2 = b / 2 ^ 63 % 2 := by simpa using hsg
        rw [e1, e2, R.nearest32 m e hr]
        simp
  · -- infinite: refused, whatever the field
    exfalso
    cases k with
    | f64 => simp [infAfter, isInf64, heq] at hinf
    | f32 =>
      have hn := narrow_inf b hd
      simp only [infAfter, isInf32, beq_eq_false_iff_ne, ne_eq] at hinf
      rw [hn, fmt32_inf] at hinf
      have hs : b / 2 ^ 63 % 2 < 2 := Nat.mod_lt _ (by decide)
      omega
  · -- NaN
    have hnan : isNaN64 b = true := by simp only [isNaN64, decide_eq_true_eq]; omega
    refine ⟨by simp [fltDom, isNaNScalar, hnan], ?_⟩
    rw [holds1_flt_flt]
    simp only [hnan, if_true, decide_eq_true_eq]
    cases k with
    | f64 =>
      simp only [encFlt, fromLE_toLE8 b hb, fmtOf64, fmt64_sign]
      rw [fmt64_inf] at hgt ⊢
      omega
    | f32 =>
      have hn := narrow_nan b hd
      have hs : b / 2 ^ 63 % 2 < 2 := Nat.mod_lt _ (by decide)
      have hlt : narrow b < 2 ^ 32 := by rw [hn]; omega
      simp only [encFlt, fromLE_toLE4 _ hlt, fmtOf32, fmt32_sign, fmt32_inf]
      rw [hn]
      omega


/-- the common part of "an int / a bool goes into a float field" -/
theorem num_core (k : FK) (x : Scalar) (hx : (∃ n, x = .int n) ∨ ∃ t, x = .bool t) (neg : Bool) (a : Nat)
    (hreal : realOf x = some (neg, a)) (d : Nat) (hd : d < 2 ^ 64) (hfin : d % 2 ^ 63 < fmt64.infPat)
    (hsign : (d / 2 ^ 63 % 2 == 1) = neg) (hinf : infAfter k d = false)
    (h64 : overflowsMag fmt64 a = false ∧ isNearestMag fmt64 a (d % 2 ^ 63) = true)
    (h32 : ∀ m e, decodeMag fmt64 (d % 2 ^ 63) = .fin m e → roundMag fmt32 m e < fmt32.infPat →
      overflowsMag fmt32 a = false ∧
      (decide (a > scaled (2 ^ 53) 0) || isNearestMag fmt32 a (roundMag fmt32 m e)) = true) :
    fltDom k x = true ∧ holds1 (.flt k) x (encFlt k d) = true := by
  have hnn : isNaNScalar x = false := by rcases hx with ⟨n, rfl⟩ | ⟨t, rfl⟩ <;> rfl
  rw [holds1_flt_num k x hx]
  simp only [fltDom, hnn, hreal, Bool.false_or, Bool.not_eq_true']
  cases k with
  | f64 =>
    simp only [fmtOf64, encFlt, fromLE_toLE8 d hd, fmt64_sign]
    have e1 : d % 9223372036854775808 = d % 2 ^ 63 := rfl
    have e2 : d / 9223372036854775808 % 2 = d / 2 ^ 63 % 2 := rfl
    rw [e1, e2, hsign, h64.2]
    simp [h64.1, hfin]
  | f32 =>
    have hm : d % 2 ^ 63 < 2 ^ 63 := Nat.mod_lt _ (by decide)
    rcases decodeMag64_cases (d % 2 ^ 63) hm with ⟨_, m, e, hdm⟩ | ⟨heq, _⟩ | ⟨hgt, _⟩
    · obtain ⟨hr, hn32, hmag, hsg⟩ := narrow_finite d m e hd hdm hinf
      obtain ⟨ho, hn⟩ := h32 m e hdm hr
      simp only [fmtOf32, encFlt, fromLE_toLE4 _ hn32, fmt32_sign]
      have e1 : narrow d % 2147483648 = roundMag fmt32 m e := by simpa using hmag
      have e2 : narrow d / 2147483648 % 2 = d / 2 ^ 63 % 2 := by simpa using hsg
      rw [e1, e2, hsign]
      simp only [Bool.or_eq_true, decide_eq_true_eq] at hn
      simp [ho, hr, hn]
    · omega
    · omega


set_option exponentiation.threshold 2000 in
theorem scaled_zero_exp (n : Nat) : scaled n 0 = n * 2 ^ 1100 := by unfold scaled; rfl

set_option exponentiation.threshold 2000 in
theorem scaled_lt {n n' : Nat} (h : n < n') : scaled n 0 < scaled n' 0 := by
  rw [scaled_zero_exp, scaled_zero_exp]
  exact Nat.mul_lt_mul_of_pos_right h (Nat.pow_pos (by decide))

/-- ints -/
theorem store_int_sound (R : RoundHyp) (k : FK) (n : Int) (d : Nat) (hd : toDouble (.int n) = .ok d)
    (hinf : infAfter k d = false) :
    fltDom k (.int n) = true ∧ holds1 (.flt k) (.int n) (encFlt k d) = true := by
  have hof : ofInt n = some d := by
    simp only [toDouble] at hd
    split at hd
    · simp only [Except.ok.injEq] at hd; subst hd; assumption
    · cases hd
  obtain ⟨hr64, hdv⟩ := ofInt_some n d hof
  rw [fmt64_inf] at hr64
  have hmod : d % 2 ^ 63 = roundMag fmt64 n.natAbs 0 := by
    rw [hdv]; split <;> omega
  have hsg : (d / 2 ^ 63 % 2 == 1) = decide (n < 0) := by
    rw [hdv]
    by_cases hn : n < 0
    · simp only [hn, if_true, decide_true, beq_iff_eq]; omega
    · simp only [hn, if_false, decide_false, beq_eq_false_iff_ne]; omega
  have hd64 : d < 2 ^ 64 := by rw [hdv]; split <;> omega
  apply num_core k (.int n) (Or.inl ⟨n, rfl⟩) (decide (n < 0)) (scaled n.natAbs 0) rfl d hd64
    (by rw [hmod, fmt64_inf]; exact hr64) hsg hinf
  · rw [hmod]
    refine ⟨?_, R.nearest64 _ _ (by rw [fmt64_inf]; exact hr64)⟩
    cases ho : overflowsMag fmt64 (scaled n.natAbs 0) with
    | false => rfl
    | true => have := R.overflow64 _ _ ho; rw [fmt64_inf] at this; omega
  · intro m e hdm hr32
    rw [hmod] at hdm
    by_cases hsmall : n.natAbs ≤ 2 ^ 53
    · have hex := (R.intExact n.natAbs hsmall).2
      rw [decodeMag_value fmt64 _ m e hdm] at hex
      rw [← hex]
      refine ⟨?_, by rw [R.nearest32 m e hr32]; simp⟩
      cases ho : overflowsMag fmt32 (scaled m e) with
      | false => rfl
      | true => have := R.overflow32 _ _ ho; omega
    · have hbig : 2 ^ 53 < n.natAbs := by omega
      refine ⟨R.bigIntNarrow n.natAbs m e hbig (by rw [fmt64_inf]; exact hr64) hdm hr32, ?_⟩
      have := scaled_lt hbig
      simp [this]

theorem one_pattern : decodeMag fmt64 (0x3ff0000000000000 % 2 ^ 63) = .fin (2 ^ 52) (-52) := by decide
theorem zero_pattern : decodeMag fmt64 (0 % 2 ^ 63) = .fin 0 (-1074) := by decide
set_option exponentiation.threshold 2000 in
theorem scaled_one : scaled (2 ^ 52) (-52) = scaled 1 0 := by
  unfold scaled
  have : ((-52 : Int) + 1100).toNat = 1048 := by decide
  rw [this, ← Nat.pow_add]; simp
set_option exponentiation.threshold 2000 in
theorem scaled_zero : scaled 0 (-1074) = scaled 0 0 := by unfold scaled; simp

/-- bools (`True` is 1.0, `False` is 0.0: exact in both formats) -/
theorem store_bool_sound (R : RoundHyp) (k : FK) (t : Bool) (d : Nat) (hd : toDouble (.bool t) = .ok d)
    (hinf : infAfter k d = false) :
    fltDom k (.bool t) = true ∧ holds1 (.flt k) (.bool t) (encFlt k d) = true := by
  simp only [toDouble, Except.ok.injEq] at hd
  -- the double is a finite pattern whose value is exactly 1 resp. 0
  have key : ∃ m e, decodeMag fmt64 (d % 2 ^ 63) = .fin m e ∧ scaled m e = scaled (if t then 1 else 0) 0 ∧
      d < 2 ^ 63 := by
    cases t with
    | true => simp only [if_true] at hd ⊢; subst hd; exact ⟨_, _, one_pattern, scaled_one, by decide⟩
    | false => simp only [Bool.false_eq_true, if_false] at hd ⊢; subst hd; exact ⟨_, _, zero_pattern, scaled_zero, by decide⟩
  obtain ⟨m, e, hdm, hsc, hlt⟩ := key
  have hmod : d % 2 ^ 63 = d := Nat.mod_eq_of_lt hlt
  have hfin : d % 2 ^ 63 < fmt64.infPat := by
    rcases decodeMag64_cases (d % 2 ^ 63) (Nat.mod_lt _ (by decide)) with ⟨h, _⟩ | ⟨_, h⟩ | ⟨_, h⟩
    · exact h
    · rw [hdm] at h; cases h
    · rw [hdm] at h; cases h
  have hval := decodeMag_value fmt64 _ m e hdm
  apply num_core k (.bool t) (Or.inr ⟨t, rfl⟩) false (scaled (if t then 1 else 0) 0) rfl d (by omega) hfin
    (by have : d / 2 ^ 63 = 0 := Nat.div_eq_of_lt hlt
        rw [this]; rfl) hinf
  · rw [← hsc, ← hval]
    exact ⟨not_overflows_finite fmt64 fmt64_ok _ hfin, isNearestMag_self fmt64 fmt64_ok _ hfin⟩
  · intro m' e' hdm' hr32
    rw [hdm] at hdm'
    simp only [FV.fin.injEq] at hdm'
    obtain ⟨rfl, rfl⟩ := hdm'
    rw [← hsc]
    refine ⟨?_, by rw [R.nearest32 m e hr32]; simp⟩
    cases ho : overflowsMag fmt32 (scaled m e) with
    | false => rfl
    | true => have := R.overflow32 _ _ ho; omega

/-- **the first float fact** -/
theorem fltStoreSound_of (R : RoundHyp) : FltStoreSound := by
  intro k x d hw hd hinf
  cases x with
  | flt b =>
    simp only [toDouble, Except.ok.injEq] at hd; subst hd
    exact store_flt_sound R k b (by simpa [scalarWF] using hw) hinf
  | int n => exact store_int_sound R k n d hd hinf
  | bool t => exact store_bool_sound R k t d hd hinf
  | _ => simp [toDouble] at hd


/-! ### the other two facts -/


/-- **the third float fact**: `(double)f` is a 64-bit pattern -/
theorem fltWidenWF_of (R : RoundHyp) : FltWidenWF := by
  intro p
  have hs : p / 2 ^ 31 % 2 < 2 := Nat.mod_lt _ (by decide)
  have hm : p % 2 ^ 31 < 2 ^ 31 := Nat.mod_lt _ (by decide)
  rcases decodeMag32_cases (p % 2 ^ 31) hm with ⟨hlt, m, e, hd⟩ | ⟨_, hd⟩ | ⟨_, hd⟩
  · have := (R.widenExact _ m e hlt hd).1
    rw [fmt64_inf] at this
    rw [widen_fin p m e hd]; omega
  · rw [widen_inf p hd, fmt64_inf]; omega
  · rw [widen_nan p hd]; omega

/-- `realOf` of a double whose magnitude decodes to a finite value / to infinity (stated for an arbitrary pattern `w`:
the kernel must never be asked to look inside `widen`) -/
theorem realOf_fin (w m : Nat) (e : Int) (h : decodeMag fmt64 (w % 2 ^ 63) = .fin m e) :
    realOf (.flt w) = some (w / 2 ^ 63 % 2 == 1, scaled m e) := by simp [realOf, h]
theorem realOf_inf (w : Nat) (h : decodeMag fmt64 (w % 2 ^ 63) = .inf) : realOf (.flt w) = none := by
  simp [realOf, h]

theorem copy32 (R : RoundHyp) (p : Nat) (c : Bytes) (hc : fromLE c = p) (_hp : p < 2 ^ 32) (w : Nat)
    (hw : w = widen p) : holds1 (.flt .f32) (.flt w) c = true := by
  have hs : p / 2 ^ 31 % 2 < 2 := Nat.mod_lt _ (by decide)
  have hm : p % 2 ^ 31 < 2 ^ 31 := Nat.mod_lt _ (by decide)
  rw [holds1_flt_flt]
  simp only [fmtOf32, fmt32_sign, hc]
  have e1 : p % 2147483648 = p % 2 ^ 31 := rfl
  have e2 : p / 2147483648 % 2 = p / 2 ^ 31 % 2 := rfl
  rw [e1, e2]
  rcases decodeMag32_cases (p % 2 ^ 31) hm with ⟨hlt32, m, e, hd⟩ | ⟨heq, hd⟩ | ⟨hgt, hd⟩
  · -- a finite float32: exactly a double
    obtain ⟨hr64, hex⟩ := R.widenExact _ m e hlt32 hd
    rw [widen_fin p m e hd] at hw
    rw [fmt64_inf] at hr64
    generalize roundMag fmt64 m e = r64 at *
    have hmod : w % 2 ^ 63 = r64 := by rw [hw]; omega
    have hsg : w / 2 ^ 63 % 2 = p / 2 ^ 31 % 2 := by rw [hw]; omega
    have hnan : isNaN64 w = false := by
      simp only [isNaN64, hmod, fmt64_inf, decide_eq_false_iff_not]; omega
    rcases decodeMag64_cases r64 (by omega) with ⟨_, m', e', hd'⟩ | ⟨h, _⟩ | ⟨h, _⟩
    · have hv' := decodeMag_value fmt64 _ m' e' hd'
      rw [← hmod] at hd'
      simp only [hnan, Bool.false_eq_true, if_false, realOf_fin w m' e' hd', hsg]
      rw [← hv', hex, ← decodeMag_value fmt32 _ m e hd, isNearestMag_self fmt32 fmt32_ok _ hlt32]
      simp
    · rw [fmt64_inf] at h; omega
    · rw [fmt64_inf] at h; omega
  · -- an infinity
    rw [widen_inf p hd, fmt64_inf] at hw
    have hmod : w % 2 ^ 63 = 9218868437227405312 := by rw [hw]; omega
    have hsg : w / 2 ^ 63 % 2 = p / 2 ^ 31 % 2 := by rw [hw]; omega
    have hnan : isNaN64 w = false := by simp only [isNaN64, hmod, fmt64_inf]; decide
    have hinf : isInf64 w = true := by simp only [isInf64, hmod, fmt64_inf]; decide
    have hreal : realOf (.flt w) = none := by
      apply realOf_inf; rw [hmod]; decide
    simp only [hnan, Bool.false_eq_true, if_false, hreal, hinf, hsg, heq]
    simp
  · -- a NaN
    rw [widen_nan p hd] at hw
    have hnan : isNaN64 w = true := by
      simp only [isNaN64, fmt64_inf, decide_eq_true_eq]; rw [hw]; omega
    simp only [hnan, if_true, decide_eq_true_eq]
    exact hgt

/-- **the second float fact**: element bytes copied from another message's float array represent the number they
decode to (an infinity included: it is copied as it is) -/
theorem fltCopySound_of (R : RoundHyp) : FltCopySound := by
  intro k c hl hb
  have hlt := fromLE_lt c hb
  cases k with
  | f64 =>
    simp only [FK.size] at hl
    rw [hl] at hlt
    simp only [decodeOne]
    rw [holds1_flt_flt]
    simp only [fmtOf64, fmt64_sign]
    split
    · rename_i hn
      simpa [isNaN64] using hn
    · simp
  | f32 =>
    simp only [FK.size] at hl
    rw [hl] at hlt
    have hp : fromLE c < 2 ^ 32 := by simpa using hlt
    simp only [decodeOne]
    exact copy32 R (fromLE c) c rfl hp (widen (fromLE c)) rfl


/-- all three, for every element kind -/
theorem floatOK_of (R : RoundHyp) (vk : VK) : FloatOK vk :=
  fun _ _ => ⟨fltStoreSound_of R, fltCopySound_of R, fltWidenWF_of R⟩

/-! ### refusals that need one hypothesis only -/

/-- a finite double beyond the float32 range is infinite after the cast -/
theorem overflow32_infAfter (ho : ∀ m e, overflowsMag fmt32 (scaled m e) = true → fmt32.infPat ≤ roundMag fmt32 m e)
    (b m : Nat) (e : Int) (hd : decodeMag fmt64 (b % 2 ^ 63) = .fin m e)
    (hov : overflowsMag fmt32 (scaled m e) = true) : infAfter .f32 b = true := by
  have hn := narrow_fin b m e hd
  have hr := ho m e hov
  have hs : b / 2 ^ 63 % 2 < 2 := Nat.mod_lt _ (by decide)
  simp only [infAfter, isInf32, beq_iff_eq]
  rw [hn, fmt32_inf] at *
  generalize roundMag fmt32 m e = r at *
  omega

theorem inf_infAfter (k : FK) (b : Nat) (h : isInf64 b = true) : infAfter k b = true := by
  cases k with
  | f64 => exact h
  | f32 =>
    simp only [isInf64, beq_iff_eq] at h
    have hm : b % 2 ^ 63 < 2 ^ 63 := Nat.mod_lt _ (by decide)
    rcases decodeMag64_cases (b % 2 ^ 63) hm with ⟨hlt, _⟩ | ⟨_, hd⟩ | ⟨hgt, _⟩
    · omega
    · have hn := narrow_inf b hd
      have hs : b / 2 ^ 63 % 2 < 2 := Nat.mod_lt _ (by decide)
      simp only [infAfter, isInf32, beq_iff_eq]
      rw [hn, fmt32_inf]; omega
    · omega

theorem nan_not_infAfter (k : FK) (b : Nat) (h : isNaN64 b = true) : infAfter k b = false := by
  simp only [isNaN64, decide_eq_true_eq] at h
  cases k with
  | f64 => simp only [infAfter, isInf64, beq_eq_false_iff_ne, ne_eq]; omega
  | f32 =>
    have hm : b % 2 ^ 63 < 2 ^ 63 := Nat.mod_lt _ (by decide)
    rcases decodeMag64_cases (b % 2 ^ 63) hm with ⟨hlt, _⟩ | ⟨heq, _⟩ | ⟨_, hd⟩
    · omega
    · omega
    · have hn := narrow_nan b hd
      have hs : b / 2 ^ 63 % 2 < 2 := Nat.mod_lt _ (by decide)
      simp only [infAfter, isInf32, beq_eq_false_iff_ne, ne_eq]
      rw [hn, fmt32_inf]; omega

end Pyrtma.Validators
