import Pyrtma.Proofs.ManagerSimRun
/-!
# Refinement of the history-based Spec by the manager model M1 — C14: a notice is never invented

Every FAILED_MESSAGE the model writes is built by `failedMsg` from the frame in flight: it carries the type, source and
destination of that frame — the data frame just read, or a frame the manager originates (source 0; destination 0, or, for
an ACKNOWLEDGE, the requester) — and names the module id of a table entry other than the manager's own.  A contract-based
induction through the nested `forward` (`OrigOK`), then every top-level operation (`NT`), then the Spec's clause
`Spec.checkNoticeOrigin` through the simulation.
-/
namespace Pyrtma.Mgr

/-- type, source, destination of a frame the manager originates -/
def Own (cfg : Cfg) (t s d : Int) : Prop := Spec.isMgrType cfg t = true ∧ s = 0 ∧ (d = 0 ∨ t = cfg.mtAck)

/-- a FAILED_MESSAGE body is justified: it reports a manager frame or the frame `g` in flight, and names an id in `P` -/
def JB (cfg : Cfg) (P : Int → Prop) (g : Option (Int × Int × Int)) : Body → Prop
  | .failed dm t s d => (Own cfg t s d ∨ g = some (t, s, d)) ∧ P dm
  | _ => True

/-- a FAILED_MESSAGE about frame `f` would be justified (or is never built: recursion guard) -/
def OkF (cfg : Cfg) (g : Option (Int × Int × Int)) (f : Frame) : Prop :=
  inGuard cfg f.mtype = true ∨ Own cfg f.mtype f.src f.dest ∨ g = some (f.mtype, f.src, f.dest)

def NJ (cfg : Cfg) (P : Int → Prop) (g : Option (Int × Int × Int)) (ext : List Ev) : Prop :=
  ∀ o c f, Ev.send o c f ∈ ext → JB cfg P g f.body

theorem nj_nil (cfg : Cfg) (P : Int → Prop) (g : Option (Int × Int × Int)) : NJ cfg P g [] := fun _ _ _ h => by cases h

theorem nj_append {cfg : Cfg} {P : Int → Prop} {g : Option (Int × Int × Int)} {a b : List Ev} (ha : NJ cfg P g a)
    (hb : NJ cfg P g b) : NJ cfg P g (a ++ b) := fun o c f h => by
  rcases List.mem_append.mp h with x | x
  · exact ha o c f x
  · exact hb o c f x

/-- the module id of every table entry but the manager's own is in `P` -/
def W (P : Int → Prop) (s : State) : Prop := ∀ u m, s.find u = some m → u ≠ 0 → P m.modId

/-- the manager's own entry subscribes to nothing -/
def IdxPos (s : State) : Prop := ∀ t u, u ∈ idxGet s.idx t → u ≠ 0

theorem w_pres {P : Int → Prop} {s s' : State} (h : Pres s s') (hw : W P s) : W P s' := by
  intro u m' hm' hu
  obtain ⟨m, hm, hid, _⟩ := h.sub u m' hm'
  have : m'.modId = m.modId := by
    unfold Module.ident at hid
    exact (Prod.mk.inj (Prod.mk.inj hid).2).1
  rw [this]; exact hw u m hm hu

theorem idxPos_pres {s s' : State} (h : Pres s s') (hi : IdxPos s) : IdxPos s' :=
  fun t u hu => hi t u (h.idx t u hu)

/-- what the nested forward never invents -/
def B0 : Body → Bool := fun _ => false

theorem tag_B0 (cfg : Cfg) : Tag cfg B0 := ⟨fun _ _ _ _ _ _ => rfl, fun _ => rfl, fun _ _ _ _ _ => rfl⟩

/-- the nested-forward contract -/
def OrigOK (cfg : Cfg) (P : Int → Prop) (g : Option (Int × Int × Int)) (fwd : Fwd) : Prop :=
  ∀ s gf, W P s → IdxPos s → OkF cfg g gf → JB cfg P g gf.body →
    ∃ ext, (fwd s gf).out = s.out ++ ext ∧ NJ cfg P g ext

theorem crash_out (s : State) (w : String) : (s.crash w).out = s.out := by
  unfold State.crash; cases s.crashed <;> rfl

theorem sendRaw_sends (s : State) (u : Nat) (f : Frame) :
    ∃ ext, (sendRaw s u f).1.out = s.out ++ ext ∧ ∀ o c f', Ev.send o c f' ∈ ext → f' = f := by
  cases hm : s.find u with
  | none =>
    refine ⟨[], ?_, fun _ _ _ h => by cases h⟩
    unfold sendRaw; rw [hm]; simp [crash_out]
  | some m =>
    cases hc : m.closed with
    | true =>
      refine ⟨[], ?_, fun _ _ _ h => by cases h⟩
      unfold sendRaw; simp only [hm, hc, if_true]; simp [crash_out]
    | false =>
      rcases sendRaw_ext s u f m hm hc with ⟨_, _, ho⟩ | ⟨_, _, ho | ho⟩
      · refine ⟨_, ho, fun o c f' h => ?_⟩
        simp only [List.mem_singleton] at h
        injection h with _ _ e3
      · exact ⟨_, ho, fun _ _ _ h => by simp at h⟩
      · exact ⟨_, ho, fun _ _ _ h => by simp at h⟩

theorem own_closed (cfg : Cfg) : Own cfg cfg.mtClosed 0 0 := ⟨by simp [Spec.isMgrType], rfl, Or.inl rfl⟩

section chain
variable {cfg : Cfg} {P : Int → Prop} {g : Option (Int × Int × Int)} {fwd : Fwd}
  (hp : FwdOK B0 fwd) (hj : OrigOK cfg P g fwd)
include hp hj

theorem logAt_nj (lvl : Nat) {s : State} (hw : W P s) (hi : IdxPos s) :
    ∃ ext, (logAt cfg fwd lvl s).out = s.out ++ ext ∧ NJ cfg P g ext := by
  unfold logAt; split
  · exact hj s _ hw hi (Or.inl (guard_log cfg lvl)) trivial
  · exact ⟨[], by simp, nj_nil _ _ _⟩

theorem failedMsg_nj {s : State} (hw : W P s) (hi : IdxPos s) (d : Int) (f : Frame) (hok : OkF cfg g f) (hd : P d) :
    ∃ ext, (failedMsg cfg fwd s d f).out = s.out ++ ext ∧ NJ cfg P g ext := by
  unfold failedMsg; split
  · exact ⟨[], by simp, nj_nil _ _ _⟩
  · rename_i hg
    refine hj s _ hw hi (Or.inl (by simp [failedFrame, mgrFrame, inGuard])) ?_
    show JB cfg P g (.failed d f.mtype f.src f.dest)
    rcases hok with h | h | h
    · exact absurd h hg
    · exact ⟨Or.inl h, hd⟩
    · exact ⟨Or.inr h, hd⟩

theorem removeModule_nj {s : State} (hw : W P s) (hi : IdxPos s) (u : Nat) :
    ∃ ext, (removeModule cfg fwd s u).out = s.out ++ ext ∧ NJ cfg P g ext := by
  unfold removeModule
  cases hm : s.find u with
  | none => exact ⟨[], by simp, nj_nil _ _ _⟩
  | some m =>
    dsimp only
    have w1 : W P (removePrep s u m) := by
      intro v m' hm' hv
      rw [removePrep_find] at hm'
      cases h0 : s.find v with
      | none => simp [h0] at hm'
      | some x =>
        simp only [h0, Option.map_some, Option.some.injEq] at hm'
        have : m'.modId = x.modId := by subst hm'; split <;> rfl
        rw [this]; exact hw v x h0 hv
    have i1 : IdxPos (removePrep s u m) := fun t v hv => hi t v ((removePrep_nest s u m hm).idxSub t v hv)
    have o1 := removePrep_out s u m
    have n1 : NJ cfg P g (if m.closed = true then ([] : List Ev) else [Ev.close u]) := by
      intro o c f hmem
      split at hmem <;> simp at hmem
    generalize (if m.closed = true then [] else [Ev.close u]) = e1 at o1 n1
    obtain ⟨e2, o2, n2⟩ := logAt_nj hp hj 10 w1 i1
    have p2 := (logAt_ok cfg (tag_B0 cfg) hp 10 (removePrep s u m)).1
    obtain ⟨e3, o3, n3⟩ := hj _ (closedFrame cfg { m with connected := false }) (w_pres p2 w1) (idxPos_pres p2 i1)
      (Or.inr (Or.inl (own_closed cfg))) trivial
    exact ⟨e1 ++ (e2 ++ e3), by show (fwd _ _).out = _; rw [o3, o2, o1]; simp, nj_append n1 (nj_append n2 n3)⟩

theorem trySend_core_nj {s : State} (hw : W P s) (hi : IdxPos s) (u : Nat) (f : Frame) (hok : OkF cfg g f)
    (hb : JB cfg P g f.body) (mid : Int) (hmid : P mid ∨ s.find u = none) :
    ∃ ext, (if (sendRaw s u f).2 = true then (sendRaw s u f).1.upd u (fun m => { m with drops := 0 })
      else if (sendRaw s u f).1.crashed.isSome = true then (sendRaw s u f).1
      else failedMsg cfg fwd (logAt cfg fwd 40 (removeModule cfg fwd (sendRaw s u f).1 u)) mid f).out = s.out ++ ext ∧
      NJ cfg P g ext := by
  obtain ⟨e1, o1, hs1⟩ := sendRaw_sends s u f
  have n1 : NJ cfg P g e1 := fun o c f' hmem => by rw [hs1 o c f' hmem]; exact hb
  have p1 := sendRaw_pres s u f
  have hfalse := sendRaw_false s u f
  have hcrash : s.find u = none → (sendRaw s u f).1.crashed.isSome = true := by
    intro hn; unfold sendRaw; rw [hn]; exact crash_isSome _ _
  generalize sendRaw s u f = r at o1 p1 hfalse hcrash
  obtain ⟨s1, okb⟩ := r
  simp only at o1 p1 hfalse hcrash ⊢
  cases okb with
  | true => simp only [if_true]; exact ⟨e1, o1, n1⟩
  | false =>
    simp only [Bool.false_eq_true, if_false]
    split
    · exact ⟨e1, o1, n1⟩
    · rename_i hc
      have hc' : s1.crashed.isSome = false := by simpa using hc
      have hPm : P mid := by
        rcases hmid with h | h
        · exact h
        · rw [hcrash h] at hc'; cases hc'
      have hf1 : failOf s1 u ≠ none := by rw [failOf_congr p1.fail]; exact hfalse rfl hc'
      have w1 := w_pres p1 hw
      have i1 := idxPos_pres p1 hi
      obtain ⟨e2, o2, n2⟩ := removeModule_nj hp hj w1 i1 u
      have p2 := (removeModule_ok cfg (tag_B0 cfg) hp s1 u hf1).1
      have w2 := w_pres p2 w1
      have i2 := idxPos_pres p2 i1
      obtain ⟨e3, o3, n3⟩ := logAt_nj hp hj 40 w2 i2
      have p3 := (logAt_ok cfg (tag_B0 cfg) hp 40 (removeModule cfg fwd s1 u)).1
      obtain ⟨e4, o4, n4⟩ := failedMsg_nj hp hj (w_pres p3 w2) (idxPos_pres p3 i2) mid f hok hPm
      exact ⟨e1 ++ (e2 ++ (e3 ++ e4)), by rw [o4, o3, o2, o1]; simp, nj_append n1 (nj_append n2 (nj_append n3 n4))⟩

theorem trySend_nj {s : State} (hw : W P s) (hi : IdxPos s) (u : Nat) (hu : u ≠ 0) (f : Frame) (hok : OkF cfg g f)
    (hb : JB cfg P g f.body) : ∃ ext, (trySend cfg fwd s u f).out = s.out ++ ext ∧ NJ cfg P g ext := by
  unfold trySend
  dsimp only
  cases hm : s.find u with
  | none => exact trySend_core_nj hp hj hw hi u f hok hb 0 (Or.inr hm)
  | some m => exact trySend_core_nj hp hj hw hi u f hok hb m.modId (Or.inl (hw u m hm hu))

theorem deliverOne_nj {s : State} (hw : W P s) (hi : IdxPos s) (f : Frame) (hok : OkF cfg g f) (hb : JB cfg P g f.body)
    (u : Nat) (hu : u ≠ 0) : ∃ ext, (deliverOne cfg fwd f s u).out = s.out ++ ext ∧ NJ cfg P g ext := by
  unfold deliverOne
  cases hm : s.find u with
  | none => exact ⟨[], by simp, nj_nil _ _ _⟩
  | some m =>
    simp only
    split
    · split
      · exact trySend_nj hp hj hw hi u hu f hok hb
      · exact ⟨[], by simp, nj_nil _ _ _⟩
    · split
      · exact trySend_nj hp hj hw hi u hu f hok hb
      · have p1 : Pres s (s.upd u fun m => { m with drops := m.drops + 1 }) :=
          pres_upd_core s u _ (fun _ => rfl) (fun _ => rfl) (fun _ h => h) (fun _ => rfl)
        obtain ⟨e, o, n⟩ := failedMsg_nj hp hj (w_pres p1 hw) (idxPos_pres p1 hi) m.modId f hok (hw u m hm hu)
        exact ⟨e, o, n⟩

theorem deliver_nj (f : Frame) (hok : OkF cfg g f) (hb : JB cfg P g f.body) : ∀ (rs : List Nat) {s : State},
    W P s → IdxPos s → (∀ u ∈ rs, u ≠ 0) → ∃ ext, (deliver cfg fwd f rs s).out = s.out ++ ext ∧ NJ cfg P g ext
  | [], s, _, _, _ => ⟨[], by simp [deliver], nj_nil _ _ _⟩
  | u :: rest, s, hw, hi, hr => by
    unfold deliver
    obtain ⟨e1, o1, n1⟩ := deliverOne_nj hp hj hw hi f hok hb u (hr u (by simp))
    have p1 := (deliverOne_ok cfg (tag_B0 cfg) hp f s u).1
    obtain ⟨e2, o2, n2⟩ := deliver_nj f hok hb rest (w_pres p1 hw) (idxPos_pres p1 hi) (fun x hx => hr x (by simp [hx]))
    exact ⟨e1 ++ e2, by rw [o2, o1, List.append_assoc], nj_append n1 n2⟩

end chain

theorem forward_OrigOK {cfg : Cfg} (ok : CfgOK cfg) (P : Int → Prop) (g : Option (Int × Int × Int)) :
    ∀ n, OrigOK cfg P g (forward cfg n)
  | 0 => fun s gf _ _ _ _ => ⟨[], by unfold forward; simp [crash_out], nj_nil _ _ _⟩
  | n + 1 => fun s gf hw hi hok hb => by
    have ih := forward_OrigOK ok P g n
    have ihp := forward_ok cfg (tag_B0 cfg) n
    unfold forward
    split
    · exact ⟨[], by simp, nj_nil _ _ _⟩
    · dsimp only
      have pc := countMsg_pres cfg s gf.mtype
      have oc := countMsg_out cfg s gf.mtype
      have wc := w_pres pc hw
      have ic := idxPos_pres pc hi
      split
      · obtain ⟨e, o, n'⟩ := logAt_nj ihp ih 40 wc ic
        exact ⟨e, by rw [o, oc], n'⟩
      · split
        · obtain ⟨e, o, n'⟩ := logAt_nj ihp ih 40 wc ic
          exact ⟨e, by rw [o, oc], n'⟩
        · obtain ⟨e, o, n'⟩ := deliver_nj ihp ih gf hok hb (recipients cfg (countMsg cfg s gf.mtype) gf.mtype) wc ic
            (fun u hu => by
              unfold recipients at hu
              rcases List.mem_append.mp hu with x | x
              · exact ic _ u (ok.order _ _ x)
              · exact ic _ u (ok.order _ _ x))
          exact ⟨e, by rw [o, oc], n'⟩

theorem fwdTop_OrigOK {cfg : Cfg} (ok : CfgOK cfg) (P : Int → Prop) (g : Option (Int × Int × Int)) : OrigOK cfg P g (fwdTop cfg) :=
  fun s gf hw hi hok hb => forward_OrigOK ok P g _ s gf hw hi hok hb

/-! ## top level -/

/-- the manager's own entry is never a recipient: it subscribes to nothing, and it is in the logger set only if it is not
    in the table -/
def Z (s : State) : Prop := IdxPos s ∧ (0 ∈ s.loggers → s.find 0 = none)

theorem find_none_iff (s : State) (u : Nat) : s.find u = none ↔ u ∉ s.mods.map (·.uid) := by
  unfold State.find
  rw [List.find?_eq_none]
  constructor
  · intro h hm
    obtain ⟨m, hm1, hm2⟩ := List.mem_map.mp hm
    exact h m hm1 (by simp [hm2])
  · intro h m hm e
    exact h (List.mem_map.mpr ⟨m, hm, by simpa using e⟩)

theorem z_nest {s s' : State} (n : Nest s s') (hz : Z s) : Z s' := by
  refine ⟨fun t u hu => hz.1 t u (n.idxSub t u hu), fun h0 => ?_⟩
  have := hz.2 (n.logSub.subset h0)
  rw [find_none_iff] at this ⊢
  exact fun hm => this (n.uids.subset hm)

theorem w_idBack {P : Int → Prop} {s s' : State} (h : IdBack s s' (fun _ => False)) (hw : W P s) : W P s' := by
  intro u m' hm' hu
  rcases h u m' hm' with x | ⟨m, hm, e⟩
  · exact x.elim
  · have : m.modId = m'.modId := by unfold infoBody at e; injection e
    rw [← this]; exact hw u m hm hu

/-- a top-level step: the two invariants are kept and every FAILED_MESSAGE written is justified -/
def NT (cfg : Cfg) (P : Int → Prop) (g : Option (Int × Int × Int)) (s s' : State) : Prop :=
  W P s → Z s → W P s' ∧ Z s' ∧ ∃ ext, s'.out = s.out ++ ext ∧ NJ cfg P g ext

theorem NT.refl (cfg : Cfg) (P : Int → Prop) (g : Option (Int × Int × Int)) (s : State) : NT cfg P g s s :=
  fun hw hz => ⟨hw, hz, [], by simp, nj_nil _ _ _⟩

theorem NT.trans {cfg : Cfg} {P : Int → Prop} {g : Option (Int × Int × Int)} {a b c : State} (h1 : NT cfg P g a b)
    (h2 : NT cfg P g b c) : NT cfg P g a c := by
  intro hw hz
  obtain ⟨w1, z1, e1, o1, n1⟩ := h1 hw hz
  obtain ⟨w2, z2, e2, o2, n2⟩ := h2 w1 z1
  exact ⟨w2, z2, e1 ++ e2, by rw [o2, o1, List.append_assoc], nj_append n1 n2⟩

/-- a change of the table that keeps uids and module ids, the index and the logger set, and writes nothing -/
theorem nt_quiet {cfg : Cfg} {P : Int → Prop} {g : Option (Int × Int × Int)} {s s' : State}
    (hf : ∀ u m', s'.find u = some m' → ∃ m, s.find u = some m ∧ m'.modId = m.modId)
    (hn : s.find 0 = none → s'.find 0 = none) (hi : s'.idx = s.idx) (hl : s'.loggers = s.loggers) (ho : s'.out = s.out) :
    NT cfg P g s s' := by
  intro hw hz
  refine ⟨fun u m' hm' hu => ?_, ⟨by unfold IdxPos; rw [hi]; exact hz.1, fun h0 => hn (hz.2 (by rw [← hl]; exact h0))⟩,
    [], by simp [ho], nj_nil _ _ _⟩
  obtain ⟨m, hm, e⟩ := hf u m' hm'
  rw [e]; exact hw u m hm hu

theorem nt_upd {cfg : Cfg} {P : Int → Prop} {g : Option (Int × Int × Int)} (s : State) (u : Nat) (f : Module → Module)
    (hu : ∀ m, (f m).uid = m.uid) (hid : ∀ m, (f m).modId = m.modId) : NT cfg P g s (s.upd u f) := by
  refine nt_quiet (fun v m' hm' => ?_) (fun h => ?_) rfl rfl rfl
  · rw [find_upd s u v f hu] at hm'
    cases h0 : s.find v with
    | none => simp [h0] at hm'
    | some x =>
      simp only [h0, Option.map_some, Option.some.injEq] at hm'
      exact ⟨x, rfl, by subst hm'; split <;> simp [hid]⟩
  · rw [find_upd s u 0 f hu, h]; rfl

theorem nt_same {cfg : Cfg} {P : Int → Prop} {g : Option (Int × Int × Int)} (s s' : State) (hm : s'.mods = s.mods)
    (hi : s'.idx = s.idx) (hl : s'.loggers = s.loggers) (ho : s'.out = s.out) : NT cfg P g s s' := by
  have hfind : ∀ u, s'.find u = s.find u := fun u => by unfold State.find; rw [hm]
  exact nt_quiet (fun u m' h => ⟨m', by rw [← hfind]; exact h, rfl⟩) (fun h => by rw [hfind]; exact h) hi hl ho

section top
variable {cfg : Cfg} (ok : CfgOK cfg) {P : Int → Prop} {g : Option (Int × Int × Int)}
include ok

theorem nt_fwd (s : State) (gf : Frame) (hok : OkF cfg g gf) (hb : JB cfg P g gf.body) : NT cfg P g s (fwdTop cfg s gf) :=
  fun hw hz => ⟨w_pres (fwdTop_presAny cfg s gf) hw, z_nest (fwdTop_nest cfg s gf) hz,
    fwdTop_OrigOK ok P g s gf hw hz.1 hok hb⟩

theorem nt_log (lvl : Nat) (s : State) : NT cfg P g s (logAt cfg (fwdTop cfg) lvl s) :=
  fun hw hz => ⟨w_pres (logAt_presAny cfg lvl s) hw, z_nest (logTop_nest cfg lvl s) hz,
    logAt_nj (fwdTop_ok cfg (tag_B0 cfg)) (fwdTop_OrigOK ok P g) lvl hw hz.1⟩

theorem nt_remove (s : State) (u : Nat) : NT cfg P g s (removeModule cfg (fwdTop cfg) s u) :=
  fun hw hz => ⟨w_idBack (idBack_remove cfg _ s u) hw, z_nest (removeTop_nest cfg s u) hz,
    removeModule_nj (fwdTop_ok cfg (tag_B0 cfg)) (fwdTop_OrigOK ok P g) hw hz.1 u⟩

theorem nt_trySend (s : State) (u : Nat) (hu : s.find u ≠ none → u ≠ 0) (f : Frame) (hok : OkF cfg g f) (hb : JB cfg P g f.body) :
    NT cfg P g s (trySend cfg (fwdTop cfg) s u f) := by
  intro hw hz
  refine ⟨w_pres (trySend_ok cfg (tag_B0 cfg) (fwdTop_ok cfg (tag_B0 cfg)) s u f).1 hw,
    z_nest (trySend_nest (fwdTop_nest cfg) s u f) hz, ?_⟩
  by_cases h0 : s.find u = none
  · -- not in the table: the write crashes, nothing is written
    refine ⟨[], ?_, nj_nil _ _ _⟩
    unfold trySend sendRaw
    simp only [h0]
    have : (s.crash "send to a module that is not in the table").crashed.isSome = true := crash_isSome _ _
    simp [this, crash_out]
  · exact trySend_nj (fwdTop_ok cfg (tag_B0 cfg)) (fwdTop_OrigOK ok P g) hw hz.1 u (hu h0) f hok hb

theorem nt_toLoggers (f : Frame) (hok : OkF cfg g f) (hb : JB cfg P g f.body) : ∀ (ls : List Nat) (s : State),
    (∀ u ∈ ls, u = 0 → s.find 0 = none) → NT cfg P g s (toLoggers cfg f ls s)
  | [], s, _ => NT.refl _ _ _ s
  | u :: rest, s, h0 => by
    unfold toLoggers
    have h1 : NT cfg P g s (loggerOne cfg f s u) := by
      unfold loggerOne
      cases hm : s.find u with
      | none => exact NT.refl _ _ _ s
      | some m =>
        refine nt_trySend ok s u (fun _ hu => ?_) f hok hb
        subst hu
        rw [h0 0 (by simp) rfl] at hm; cases hm
    refine h1.trans (nt_toLoggers f hok hb rest _ (fun v hv e => ?_))
    have hn : Nest s (loggerOne cfg f s u) := by
      unfold loggerOne
      cases s.find u with
      | none => exact Nest.refl s
      | some _ => exact trySend_nest (fwdTop_nest cfg) s u f
    have := h0 v (by simp [hv]) e
    rw [find_none_iff] at this ⊢
    exact fun hm => this (hn.uids.subset hm)

omit ok in
theorem own_ack (cfg : Cfg) (d : Int) : Own cfg cfg.mtAck 0 d := ⟨by simp [Spec.isMgrType], rfl, Or.inr rfl⟩

theorem nt_sendAck (s : State) (u : Nat) (hu : u ≠ 0) : NT cfg P g s (sendAck cfg s u) := by
  unfold sendAck
  cases hm : s.find u with
  | none => exact NT.refl _ _ _ s
  | some m =>
    dsimp only
    have hokA : OkF cfg g (ackFrame cfg m.modId) := Or.inr (Or.inl (own_ack cfg m.modId))
    intro hw hz
    have h1 := nt_trySend ok (P := P) (g := g) s u (fun _ => hu) (ackFrame cfg m.modId) hokA trivial hw hz
    obtain ⟨w1, z1, e1, o1, n1⟩ := h1
    have h2 := nt_toLoggers ok (P := P) (g := g) (ackFrame cfg m.modId) hokA trivial
      (cfg.order (trySend cfg (fwdTop cfg) s u (ackFrame cfg m.modId)).loggers) _
      (fun v hv e => z1.2 (by subst e; exact ok.order _ _ hv)) w1 z1
    obtain ⟨w2, z2, e2, o2, n2⟩ := h2
    exact ⟨w2, z2, e1 ++ e2, by rw [o2, o1, List.append_assoc], nj_append n1 n2⟩

omit ok in
theorem own_mgr (cfg : Cfg) (t : Int) (h : Spec.isMgrType cfg t = true) : Own cfg t 0 0 := ⟨h, rfl, Or.inl rfl⟩

theorem nt_infoOf (s : State) (m : Module) : NT cfg P g s (infoOf cfg s m) := by
  unfold infoOf
  exact (nt_log ok 10 s).trans (nt_fwd ok _ _ (Or.inr (Or.inl (own_mgr cfg cfg.mtInfo (by simp [Spec.isMgrType])))) (by trivial))

theorem nt_sendInfo (s : State) (u : Nat) : NT cfg P g s (sendInfo cfg s u) := by
  unfold sendInfo
  cases s.find u with
  | none => exact NT.refl _ _ _ s
  | some m => exact nt_infoOf ok s m

theorem nt_clashLoop (me : Module) : ∀ (os : List Module) (s : State), NT cfg P g s (clashLoop cfg me os s).1
  | [], s => NT.refl _ _ _ s
  | o :: rest, s => by
    unfold clashLoop
    split
    · exact NT.refl _ _ _ s
    · have h1 : NT cfg P g s (if me.name.isEmpty then s else logAt cfg (fwdTop cfg) 10 s) := by
        split
        · exact NT.refl _ _ _ s
        · exact nt_log ok 10 s
      exact h1.trans (nt_clashLoop me rest _)

theorem nt_foldl_fwd : ∀ (fs : List Frame) (s : State), (∀ f ∈ fs, OkF cfg g f ∧ JB cfg P g f.body) →
    NT cfg P g s (fs.foldl (fwdTop cfg) s)
  | [], s, _ => NT.refl _ _ _ s
  | f :: rest, s, hf =>
    (nt_fwd ok s f (hf f (by simp)).1 (hf f (by simp)).2).trans (nt_foldl_fwd rest _ (fun x hx => hf x (by simp [hx])))

theorem nt_infoAll : ∀ (ms : List Module) (s : State), NT cfg P g s (infoAll cfg ms s)
  | [], s => NT.refl _ _ _ s
  | m :: rest, s => by
    unfold infoAll
    exact (nt_infoOf ok s _).trans (nt_infoAll rest _)

theorem nt_ticks (s : State) : NT cfg P g s (ticks cfg s) := by
  unfold ticks
  have h1 : NT cfg P g s (if cfg.timing && s.now - s.tTiming > cfg.pTiming then { sendTiming cfg s with tTiming := s.now } else s) := by
    split
    · unfold sendTiming
      have a1 : NT cfg P g s ({ s with counts := [], inTraffic := true } : State) := nt_same _ _ rfl rfl rfl rfl
      exact (a1.trans (nt_fwd ok _ _ (Or.inr (Or.inl (own_mgr cfg cfg.mtTiming (by simp [Spec.isMgrType])))) (by trivial))).trans
        (nt_same _ _ rfl rfl rfl rfl)
    · exact NT.refl _ _ _ s
  generalize (if cfg.timing && s.now - s.tTiming > cfg.pTiming then { sendTiming cfg s with tTiming := s.now } else s) = s1 at h1
  dsimp only
  have h2 : NT cfg P g s (if s1.now - s1.tTraffic > cfg.pTraffic then sendTraffic cfg s1 else s1) := by
    split
    · unfold sendTraffic
      have a1 : NT cfg P g s ({ s1 with inTraffic := true } : State) := h1.trans (nt_same _ _ rfl rfl rfl rfl)
      refine ((a1.trans (nt_log ok 10 _)).trans (nt_foldl_fwd ok _ _ ?_)).trans (nt_same _ _ rfl rfl rfl rfl)
      intro f hf
      unfold trafficFrames at hf
      obtain ⟨p, _, rfl⟩ := List.mem_map.mp hf
      exact ⟨Or.inr (Or.inl (own_mgr cfg cfg.mtTraffic (by simp [Spec.isMgrType]))), trivial⟩
    · exact h1
  generalize (if s1.now - s1.tTraffic > cfg.pTraffic then sendTraffic cfg s1 else s1) = s2 at h2
  split
  · unfold sendActive
    exact (((h2.trans (nt_log ok 10 _)).trans (nt_infoAll ok _ _)).trans
      (nt_fwd ok _ _ (Or.inr (Or.inl (own_mgr cfg cfg.mtActive (by simp [Spec.isMgrType])))) (by trivial))).trans
      (nt_same _ _ rfl rfl rfl rfl)
  · exact h2

end top

/-! ## the table updates of the control frames, one frame, the preamble -/

/-- a table update for connection `u` (not the manager's own entry): module ids kept (or `P` holds of everything), index
    and logger set grow by `u` at most, nothing written -/
theorem nt_tab {cfg : Cfg} {P : Int → Prop} {g : Option (Int × Int × Int)} {s s' : State} (u : Nat) (hu : u ≠ 0)
    (hf : (∀ d, P d) ∨ ∀ v m', s'.find v = some m' → ∃ m, s.find v = some m ∧ m'.modId = m.modId)
    (hn : s.find 0 = none → s'.find 0 = none)
    (hi : ∀ t v, v ∈ idxGet s'.idx t → v ∈ idxGet s.idx t ∨ v = u)
    (hl : ∀ v, v ∈ s'.loggers → v ∈ s.loggers ∨ v = u) (ho : s'.out = s.out) : NT cfg P g s s' := by
  intro hw hz
  refine ⟨fun v m' hm' hv => ?_, ⟨fun t v hv => ?_, fun h0 => ?_⟩, [], by simp [ho], nj_nil _ _ _⟩
  · rcases hf with h | h
    · exact h _
    · obtain ⟨m, hm, e⟩ := h v m' hm'
      rw [e]; exact hw v m hm hv
  · rcases hi t v hv with h | h
    · exact hz.1 t v h
    · rw [h]; exact hu
  · rcases hl 0 h0 with h | h
    · exact hn (hz.2 h)
    · exact absurd h.symm hu

theorem find_upd_none (s : State) (u : Nat) (f : Module → Module) (hu : ∀ m, (f m).uid = m.uid) (v : Nat)
    (h : s.find v = none) : (s.upd u f).find v = none := by rw [find_upd s u v f hu, h]; rfl

section frames
variable {cfg : Cfg} (ok : CfgOK cfg) {P : Int → Prop} {g : Option (Int × Int × Int)}
include ok

theorem nt_connect (hP : ∀ d, P d) (s : State) (u : Nat) (hu : u ≠ 0) (hd : Hdr) : NT cfg P g s (connectModule cfg s u hd).1 := by
  unfold connectModule
  dsimp only
  have refuse : ∀ {s0 : State}, NT cfg P g s s0 → NT cfg P g s (removeModule cfg (fwdTop cfg) (logAt cfg (fwdTop cfg) 40 s0) u) :=
    fun t0 => (t0.trans (nt_log ok 40 _)).trans (nt_remove ok _ u)
  have hupd : ∀ (s0 : State) (f : Module → Module), (∀ m, (f m).uid = m.uid) → NT cfg P g s0 (s0.upd u f) := fun s0 f hf =>
    nt_tab u hu (Or.inl hP) (find_upd_none s0 u f hf 0) (fun _ _ h => Or.inl h) (fun _ h => Or.inl h) rfl
  split
  · exact NT.refl _ _ _ s
  · split
    · exact refuse (hupd s _ (fun m => (setReq_keeps cfg s.buf hd m).1))
    · rename_i nm _
      have h1 : NT cfg P g s (s.upd u (setAll cfg s.buf hd nm)) := hupd s _ (fun m => (setAll_keeps cfg s.buf hd nm m).1)
      split
      · split
        · exact refuse h1
        · have hl := h1.trans (nt_clashLoop ok (setAll cfg s.buf hd nm (lookupMod s u))
            ((s.upd u (setAll cfg s.buf hd nm)).mods.filter (·.uid != u)) (s.upd u (setAll cfg s.buf hd nm)))
          generalize clashLoop cfg (setAll cfg s.buf hd nm (lookupMod s u))
            ((s.upd u (setAll cfg s.buf hd nm)).mods.filter (·.uid != u)) (s.upd u (setAll cfg s.buf hd nm)) = r at hl
          obtain ⟨s2, cl⟩ := r
          dsimp only at hl ⊢
          split
          · exact refuse hl
          · refine hl.trans (nt_tab u hu (Or.inl hP) (fun h => find_upd_none s2 u (fun m => { m with connected := true }) (fun _ => rfl) 0 h) (fun _ _ h => Or.inl h) (fun v h => ?_) rfl)
            dsimp only at h
            split at h
            · exact (mem_setAdd _ _ _).mp h
            · exact Or.inl h
      · split
        · exact refuse h1
        · rename_i id off _
          have h2 : NT cfg P g s ({ (s.upd u (setAll cfg s.buf hd nm)) with nextDyn := off } : State) :=
            h1.trans (nt_same _ _ rfl rfl rfl rfl)
          refine h2.trans (nt_tab u hu (Or.inl hP) (fun h => find_upd_none _ u (fun m => { m with modId := id, connected := true }) (fun _ => rfl) 0 h) (fun _ _ h => Or.inl h) (fun v h => ?_) rfl)
          dsimp only at h
          split at h
          · exact (mem_setAdd _ _ _).mp h
          · exact Or.inl h

theorem nt_addSub (s : State) (u : Nat) (hu : u ≠ 0) (t : Int) (m : Module) (hm : s.find u = some m) :
    NT cfg P g s (addSub cfg s u t) := by
  have hc : NT cfg P g s (addSubCore cfg s u t) := by
    refine nt_tab u hu (Or.inr (fun v m' hm' => ?_)) (fun h => ?_) (fun t' v hv => ?_)
      (fun v h => Or.inl (by rw [← (addSubCore_misc cfg s u t).1]; exact h)) (addSubCore_misc cfg s u t).2.2.2.2.2
    · rw [addSubCore_find cfg s u t m hm] at hm'
      cases h0 : s.find v with
      | none => simp [h0] at hm'
      | some x =>
        simp only [h0, Option.map_some, Option.some.injEq] at hm'
        exact ⟨x, rfl, by subst hm'; split <;> rfl⟩
    · rw [find_none_iff] at h ⊢; rw [(addSubCore_uids cfg s u t).1]; exact h
    · have := (addSubCore_idx cfg s u t m hm t' v).mp hv
      split at this
      · rcases this with x | x
        · exact Or.inl x.1
        · exact Or.inr x.2
      · split at this
        · exact Or.inl this
        · rcases this with x | x
          · exact Or.inl x
          · exact Or.inr x.2
  unfold addSub; split
  · exact hc.trans (nt_log ok 10 _)
  · exact hc

theorem nt_removeSub (s : State) (u : Nat) (hu : u ≠ 0) (t : Int) (m : Module) (hm : s.find u = some m) :
    NT cfg P g s (removeSub cfg s u t) := by
  have hc : NT cfg P g s (removeSubCore cfg s u t) := by
    refine nt_tab u hu (Or.inr (fun v m' hm' => ?_)) (fun h => ?_) (fun t' v hv => Or.inl (removeSubCore_idx cfg s u t m hm t' v hv))
      (fun v h => Or.inl (by rw [← (removeSubCore_misc cfg s u t).1]; exact h)) (removeSubCore_misc cfg s u t).2.2.2.2.2
    · rw [removeSubCore_find cfg s u t m hm] at hm'
      cases h0 : s.find v with
      | none => simp [h0] at hm'
      | some x =>
        simp only [h0, Option.map_some, Option.some.injEq] at hm'
        exact ⟨x, rfl, by subst hm'; split <;> rfl⟩
    · rw [find_none_iff] at h ⊢; rw [(removeSubCore_uids cfg s u t).1]; exact h
  unfold removeSub; split
  · exact hc.trans (nt_log ok 10 _)
  · exact hc

/-- the frame in flight, as the Spec describes it -/
def flight (cfg : Cfg) (hd : Hdr) : Option (Int × Int × Int) :=
  if Spec.isControl cfg hd.mtype then none else some (hd.mtype, hd.src, hd.dest)

theorem nt_process (s : State) (u : Nat) (hu : u ≠ 0) (m : Module) (hm : s.find u = some m) (hd : Hdr)
    (hP : (hd.mtype == cfg.mtConnect || hd.mtype == cfg.mtConnectV2) = true → ∀ d, P d) :
    NT cfg P (flight cfg hd) s (processMessage cfg s u hd) := by
  unfold processMessage
  dsimp only
  split
  · rename_i hc
    have hcn := nt_connect ok (P := P) (g := flight cfg hd) (hP hc) s u hu hd
    generalize connectModule cfg s u hd = r at hcn
    obtain ⟨s1, okb⟩ := r
    dsimp only at hcn ⊢
    split
    · exact ((hcn.trans (nt_sendAck ok s1 u hu)).trans (nt_infoOf ok _ _)).trans (nt_log ok 20 _)
    · exact hcn
  · rename_i h1
    split
    · exact (nt_remove ok s u).trans (nt_log ok 20 _)
    · rename_i h2
      split
      · exact (nt_addSub ok s u hu _ m hm).trans (nt_sendAck ok _ u hu)
      · rename_i h3
        split
        · exact (nt_removeSub ok s u hu _ m hm).trans (nt_sendAck ok _ u hu)
        · rename_i h4
          split
          · split
            · exact (nt_log ok 40 s).trans (nt_remove ok _ u)
            · refine NT.trans (NT.trans ?_ (nt_log ok 20 _)) (nt_infoOf ok _ _)
              exact nt_upd s u _ (fun _ => rfl) (fun _ => rfl)
          · rename_i h5
            split
            · refine NT.trans ?_ (nt_sendInfo ok _ u)
              exact nt_upd s u _ (fun _ => rfl) (fun _ => rfl)
            · rename_i h6
              refine (nt_log ok 10 s).trans (nt_fwd ok _ _ (Or.inr (Or.inr ?_)) (by trivial))
              unfold flight
              have : Spec.isControl cfg hd.mtype = false := by
                unfold Spec.isControl
                simp only [Bool.or_eq_true, not_or, Bool.not_eq_true] at h1 h3 h4
                simp only [Bool.not_eq_true] at h2 h5 h6
                simp [h1.1, h1.2, h2, h3.1, h3.2, h4.1, h4.2, h5, h6]
              rw [this]; rfl

/-- the frame in flight while the frame of read `r` is handled: none when its header was not read -/
def flightR (cfg : Cfg) (r : Read) : Option (Int × Int × Int) :=
  if r.hdrErr || !r.hdrOk then none else flight cfg r.h

theorem nt_readOne (s : State) (r : Read) (hu : r.uid ≠ 0)
    (hP : (r.h.mtype == cfg.mtConnect || r.h.mtype == cfg.mtConnectV2) = true → ∀ d, P d) :
    NT cfg P (flightR cfg r) s (readOne cfg s r) := by
  unfold readOne
  split
  · exact NT.refl _ _ _ s
  · cases hm : s.find r.uid with
    | none => exact NT.refl _ _ _ s
    | some m =>
      dsimp only
      have he : ∀ g, NT cfg P g s (s.emit (.rd r.uid)) := by
        intro g
        intro hw hz
        exact ⟨hw, hz, [.rd r.uid], rfl, fun _ _ _ h => by simp at h⟩
      have hb : ∀ g b, NT cfg P g s { (s.emit (.rd r.uid)) with buf := b } :=
        fun g b => (he g).trans (nt_same _ _ rfl rfl rfl rfl)
      have rm : ∀ {g} {s' : State}, NT cfg P g s s' → ∀ lvl,
          NT cfg P g s (logAt cfg (fwdTop cfg) lvl (removeModule cfg (fwdTop cfg) s' r.uid)) :=
        fun t' lvl => (t'.trans (nt_remove ok _ r.uid)).trans (nt_log ok lvl _)
      have key : ∀ s' : State, s'.find r.uid = some m → NT cfg P (flight cfg r.h) s s' →
          NT cfg P (flight cfg r.h) s (processMessage cfg s' r.uid r.h) :=
        fun s' h' t' => t'.trans (nt_process ok s' r.uid hu m h' r.h hP)
      split
      · exact rm (he _) 40
      · rename_i h1
        split
        · exact rm (he _) 30
        · rename_i h2
          have eg : flightR cfg r = flight cfg r.h := by
            unfold flightR
            simp only [Bool.not_eq_true] at h1
            simp only [Bool.not_eq_true, Bool.not_eq_false'] at h2
            simp [h1, h2]
          rw [eg]
          split
          · exact rm (he _) 30
          · split
            · split
              · exact rm (he _) 40
              · split
                · exact rm (hb _ _) 30
                · exact key _ hm (hb _ _)
            · exact key _ hm (he _)

theorem nt_accept (hP0 : P 0) (s : State) : NT cfg P g s (acceptStep cfg s) := by
  unfold acceptStep
  refine (nt_log ok 20 s).trans ?_
  generalize logAt cfg (fwdTop cfg) 20 s = s1
  intro hw hz
  have hfind : ∀ v, ({ s1 with nextUid := s1.nextUid + 1, mods := s1.mods ++ [{ uid := s1.nextUid + 1 }] } : State).find v =
      (s1.find v).or (List.find? (fun x => x.uid == v) [({ uid := s1.nextUid + 1 } : Module)]) := by
    intro v
    unfold State.find
    rw [List.find?_append]
  refine ⟨fun v m' hm' hv => ?_, ⟨hz.1, fun h0 => ?_⟩, [], by simp, nj_nil _ _ _⟩
  · rw [hfind] at hm'
    cases h1 : s1.find v with
    | none =>
      rw [h1] at hm'
      simp only [Option.none_or] at hm'
      have := List.mem_of_find?_eq_some hm'
      simp only [List.mem_singleton] at this
      rw [this]; exact hP0
    | some x =>
      rw [h1] at hm'
      simp only [Option.some_or, Option.some.injEq] at hm'
      subst hm'; exact hw v x h1 hv
  · rw [hfind, hz.2 h0]
    simp only [Option.none_or]
    rw [List.find?_cons]
    simp

end frames

/-! ## the Spec's clause -/

/-- "names a module of the table" (`Spec.noticeJustified`), with the exemption of a CONNECT frame -/
def PJ (mods : List Spec.AMod) (conn : Bool) (dm : Int) : Prop :=
  (conn || mods.any (fun m => m.alive && m.modId == dm)) = true

theorem w_of_sim {cfg : Cfg} {a : Spec.A} {s : State} (sim : SimM cfg a s) (mods : List Spec.AMod)
    (hsub : ∀ am, am ∈ a.mods → am ∈ mods) (conn : Bool) : W (PJ mods conn) s := by
  intro u m hm hu
  have hl := (sim.live u hu).mpr (by simp [hm])
  cases hl' : a.live u with
  | none => simp [hl'] at hl
  | some am =>
    have hmod := (sim.mods u am m hl' hm).modId
    obtain ⟨hg, hal⟩ := Spec.live_some.mp hl'
    have hmem : am ∈ a.mods := List.mem_of_find?_eq_some hg
    unfold PJ
    simp only [Bool.or_eq_true, List.any_eq_true]
    exact Or.inr ⟨am, hsub am hmem, by simp [hal, hmod]⟩

theorem z_of_sim {cfg : Cfg} {a : Spec.A} {s : State} (sim : SimM cfg a s) : Z s := by
  refine ⟨sim.idxPos, fun h0 => ?_⟩
  cases hf : s.find 0 with
  | none => rfl
  | some m0 =>
    have h1 := sim.logOut 0 m0 h0 hf
    have h2 := (sim.minv.mgr m0 hf).2.2
    rw [h1] at h2; cases h2

/-- what the Spec accepts as the frame in flight -/
def gOf (cfg : Cfg) : Option Read → Option (Int × Int × Int)
  | none => none
  | some r => flightR cfg r

def connOf (cfg : Cfg) : Option Read → Bool
  | none => false
  | some r => r.h.mtype == cfg.mtConnect || r.h.mtype == cfg.mtConnectV2

theorem justified_of_jb (cfg : Cfg) (a : Spec.A) (rd : Option Read) (f : Frame)
    (h : JB cfg (PJ a.mods (connOf cfg rd)) (gOf cfg rd) f.body) : Spec.noticeJustified cfg a rd f = true := by
  unfold Spec.noticeJustified
  cases hb : f.body with
  | failed dm t s d =>
    rw [hb] at h
    obtain ⟨h1, h2⟩ := h
    cases rd with
    | none =>
      unfold PJ connOf at h2
      simp only [Bool.false_or] at h2
      dsimp only
      rcases h1 with ⟨o1, o2, o3⟩ | hg
      · rcases o3 with o3 | o3
        · simp [o1, o2, o3, h2]
        · simp [o1, o2, ← o3, h2]
      · cases hg
    | some r =>
      unfold PJ connOf at h2
      dsimp only at h2 ⊢
      rw [h2, Bool.and_true]
      rcases h1 with ⟨o1, o2, o3⟩ | hg
      · rcases o3 with o3 | o3
        · simp [o1, o2, o3]
        · simp [o1, o2, ← o3]
      · have hg' : flightR cfg r = some (t, s, d) := hg
        unfold flightR at hg'
        split at hg'
        · cases hg'
        · rename_i hh
          unfold flight at hg'
          split at hg'
          · cases hg'
          · rename_i hc
            cases hg'
            simp only [Bool.or_eq_true, not_or, Bool.not_eq_true, Bool.not_eq_false'] at hh
            simp [hh.1, hh.2, hc]
  | _ => rfl

theorem checkNoticeOrigin_ok (cfg : Cfg) (a : Spec.A) (rd : Option Read) (evs : List Ev)
    (h : NJ cfg (PJ a.mods (connOf cfg rd)) (gOf cfg rd) evs) : Spec.checkNoticeOrigin cfg a rd evs = a := by
  unfold Spec.checkNoticeOrigin
  have : (Spec.sends evs).find? (fun p => !Spec.noticeJustified cfg a rd p.2.2) = none := by
    rw [List.find?_eq_none]
    intro p hp
    unfold Spec.sends at hp
    rw [List.mem_filterMap] at hp
    obtain ⟨e, he, hs⟩ := hp
    cases e <;> simp at hs
    rename_i o c f
    subst hs
    simp [justified_of_jb cfg a rd f (h o c f he)]
  rw [this]

section link
variable {cfg : Cfg} (ok : CfgOK cfg)
include ok

/-- **the origin of the notices, one frame**: the model reads a frame in a state the abstract state `a` simulates and
handles it (`q = false`), possibly followed by the periodic section (`q = true`: the last frame of a round); `evs` are
the events after the `rd` marker.  Every FAILED_MESSAGE among them is justified: `Spec.checkNoticeOrigin` returns its
argument — for every state `X` with the table of `a`. -/
theorem noticeOrigin_frame {a : Spec.A} {s : State} (sim : SimM cfg a s) (rd : Read) (hu0 : rd.uid ≠ 0) (q : Bool)
    (evs : List Ev) (he : (if q then ticks cfg (readOne cfg s rd) else readOne cfg s rd).out = s.out ++ Ev.rd rd.uid :: evs)
    (X : Spec.A) (hX : X.mods = a.mods) : Spec.checkNoticeOrigin cfg X (some rd) evs = X := by
  apply checkNoticeOrigin_ok
  rw [hX]
  have hP : (rd.h.mtype == cfg.mtConnect || rd.h.mtype == cfg.mtConnectV2) = true →
      ∀ d, PJ a.mods (connOf cfg (some rd)) d := by
    intro h d
    unfold PJ connOf
    dsimp only
    rw [h]; rfl
  have h1 := nt_readOne ok (P := PJ a.mods (connOf cfg (some rd))) s rd hu0 hP
  have h2 : NT cfg (PJ a.mods (connOf cfg (some rd))) (gOf cfg (some rd)) s
      (if q then ticks cfg (readOne cfg s rd) else readOne cfg s rd) := by
    cases q
    · exact h1
    · exact h1.trans (nt_ticks ok _)
  obtain ⟨_, _, ext, hext, hnj⟩ := h2 (w_of_sim sim a.mods (fun _ h => h) _) (z_of_sim sim)
  have : ext = Ev.rd rd.uid :: evs := List.append_cancel_left (hext.symm.trans he)
  subst this
  exact fun o c f hf => hnj o c f (List.mem_cons_of_mem _ hf)

/-- **the origin of the notices, the stretch before the first read of a round** (clock, failure environment, `accept`
with its log line, the poll; followed by the periodic section when no frame is read in the round: `q = true`) -/
theorem noticeOrigin_pre {a : Spec.A} {s : State} (sim : SimM cfg a s) (r : Round) (q : Bool) (evs : List Ev)
    (he : (if q then ticks cfg (preS cfg s r) else preS cfg s r).out = s.out ++ evs)
    (X : Spec.A) (hX : X.mods = (preAcc a r).mods) : Spec.checkNoticeOrigin cfg X none evs = X := by
  apply checkNoticeOrigin_ok
  rw [hX]
  have hsub : ∀ am, am ∈ a.mods → am ∈ (preAcc a r).mods := by
    intro am h
    unfold preAcc envA
    dsimp only
    split
    · exact List.mem_append_left _ h
    · exact h
  have h0 : NT cfg (PJ (preAcc a r).mods false) none s (envStep s r) := nt_same _ _ rfl rfl rfl rfl
  have h1 : NT cfg (PJ (preAcc a r).mods false) none s (preS cfg s r) := by
    unfold preS
    dsimp only
    split
    · refine NT.trans (b := if r.accept then acceptStep cfg (envStep s r) else envStep s r) ?_ (nt_same _ _ rfl rfl rfl rfl)
      cases hacc : r.accept with
      | false => exact h0
      | true =>
        refine h0.trans (nt_accept ok ?_ _)
        unfold PJ preAcc
        simp [hacc]
    · exact h0
  have h2 : NT cfg (PJ (preAcc a r).mods (connOf cfg none)) (gOf cfg none) s
      (if q then ticks cfg (preS cfg s r) else preS cfg s r) := by
    cases q
    · exact h1
    · exact h1.trans (nt_ticks ok _)
  obtain ⟨_, _, ext, hext, hnj⟩ := h2 (w_of_sim sim _ hsub _) (z_of_sim sim)
  have : ext = evs := List.append_cancel_left (hext.symm.trans he)
  subst this
  exact hnj

end link

end Pyrtma.Mgr
