import Pyrtma.Proofs.ManagerSimData
/-!
# Every receiver of an input frame gets the same number of copies of it

`run_mult`: in the log of every run whose frames carry increasing serial numbers, for every input frame `k` there is a
number `c` (1, or 2 for a frame whose type is the ALL sentinel: a subscriber of everything is listed twice) such that every
connection was written either no copy or exactly `c` copies of `k`.  With the per-receiver order (`run_ordered`) this is
the "same relative order at any two receivers" clause of `Spec.checkC05`.
-/
namespace Pyrtma.Mgr

/-- copies of frame `k` written to `u` -/
theorem kcount_eq (k u : Nat) : ∀ (evs : List Ev),
    (dataKs evs u).count k = ((dataSends (cp k) evs).filter (·.1 == u)).length
  | [] => rfl
  | e :: rest => by
    have h1 : dataKs (e :: rest) u = dataKs [e] u ++ dataKs rest u := dataKs_append [e] rest u
    have h2 : dataSends (cp k) (e :: rest) = dataSends (cp k) [e] ++ dataSends (cp k) rest := dataSends_append _ [e] rest
    rw [h1, h2, List.count_append, List.filter_append, List.length_append, kcount_eq k u rest]
    congr 1
    cases e with
    | send v c f =>
      by_cases hv : v = u
      · subst hv
        cases hb : f.body with
        | data k' =>
          by_cases hk : k' = k
          · subst hk; simp [dataKs, dataSends, cp, hb]
          · have : (Body.data k' == Body.data k) = false := by simpa using hk
            simp [dataKs, dataSends, cp, hb, hk, this]
        | _ => simp [dataKs, dataSends, cp, hb]
      · have hvu : (v == u) = false := by simpa using hv
        cases hb : f.body with
        | data k' =>
          by_cases hk : k' = k
          · subst hk; simp [dataKs, dataSends, cp, hb, hvu, hv]
          · have : (Body.data k' == Body.data k) = false := by simpa using hk
            simp [dataKs, dataSends, cp, hb, hvu, hv, hk, this]
        | _ => simp [dataKs, dataSends, cp, hb, hvu, hv]
    | _ => simp [dataKs, dataSends]

/-- the events of a step hold the same number of copies of frame `k` for everybody who got one -/
def PK (k : Nat) (s s' : State) : Prop :=
  ∃ ext, s'.out = s.out ++ ext ∧ ∃ c, ∀ u, (dataKs ext u).count k = 0 ∨ (dataKs ext u).count k = c

theorem kcount_zero_of_quiet {k : Nat} {ext : List Ev} (h : dataSends (cp k) ext = []) (u : Nat) :
    (dataKs ext u).count k = 0 := by rw [kcount_eq, h]; rfl

theorem pk_of_QE {k : Nat} {s s' : State} (h : QE (cp k) s s') : PK k s s' := by
  obtain ⟨ext, ho, hq⟩ := h
  exact ⟨ext, ho, 0, fun u => Or.inl (kcount_zero_of_quiet hq u)⟩

theorem PK.after {k : Nat} {a b c : State} (h1 : QE (cp k) a b) (h2 : PK k b c) : PK k a c := by
  obtain ⟨e1, o1, q1⟩ := h1
  obtain ⟨e2, o2, n, hn⟩ := h2
  refine ⟨e1 ++ e2, by rw [o2, o1, List.append_assoc], n, fun u => ?_⟩
  rw [dataKs_append, List.count_append, kcount_zero_of_quiet q1 u, Nat.zero_add]
  exact hn u

theorem PK.before {k : Nat} {a b c : State} (h1 : PK k a b) (h2 : QE (cp k) b c) : PK k a c := by
  obtain ⟨e1, o1, n, hn⟩ := h1
  obtain ⟨e2, o2, q2⟩ := h2
  refine ⟨e1 ++ e2, by rw [o2, o1, List.append_assoc], n, fun u => ?_⟩
  rw [dataKs_append, List.count_append, kcount_zero_of_quiet q2 u, Nat.add_zero]
  exact hn u

/-- the snapshot of subscribers lists everybody it lists equally often: once, or twice for the ALL sentinel -/
theorem recipients_count {cfg : Cfg} (hperm : OrdPerm cfg) {s : State} (h : SubInv cfg s) (t : Int) :
    ∃ c, ∀ u, (recipients cfg s t).count u = 0 ∨ (recipients cfg s t).count u = c := by
  by_cases ht : t = cfg.allTypes
  · subst ht
    refine ⟨2, fun u => ?_⟩
    unfold recipients
    rw [List.count_append, (hperm _).count_eq]
    have := List.nodup_iff_count.mp (h.nodup cfg.allTypes) u
    omega
  · refine ⟨1, fun u => ?_⟩
    have hnd := snapshot_nodup h t ht (fun l hl => ⟨(hperm l).nodup_iff.mpr hl, fun x hx => (hperm l).mem_iff.mp hx⟩)
    have := List.nodup_iff_count.mp hnd u
    omega

section pass
variable {cfg : Cfg} (ok : CfgOK cfg) (hfuel : cfg.fuel = 0) (hperm : OrdPerm cfg)
include ok hfuel hperm

/-- the top-level forward of a data frame -/
theorem fwd_pk {s : State} (h : Top cfg s) (f : Frame) (k : Nat) (hb : f.body = .data k) : PK k s (fwdTop cfg s f) := by
  obtain ⟨ext, ho, _, _⟩ := (fwdTop_nest cfg s f).ext
  have hc := forward_copies cfg hfuel s f k hb h.good.ok k
  rw [ho, dataSends_append, if_pos rfl] at hc
  have hL := List.append_cancel_left hc
  refine ⟨ext, ho, ?_⟩
  by_cases hoor : oor cfg f = true
  · rw [if_pos hoor] at hL
    exact ⟨0, fun u => Or.inl (kcount_zero_of_quiet hL u)⟩
  · rw [if_neg hoor] at hL
    obtain ⟨c, hc'⟩ := recipients_count hperm h.good.inv f.mtype
    refine ⟨c, fun u => ?_⟩
    rw [kcount_eq, hL, List.filter_map, List.length_map]
    have e1 : ((recipients cfg s f.mtype).filter (elig f s)).filter ((fun x : Nat × Frame => x.1 == u) ∘ fun v => (v, f)) =
        ((recipients cfg s f.mtype).filter (elig f s)).filter (· == u) := by congr 1
    rw [e1, List.filter_filter]
    have e2 : ((recipients cfg s f.mtype).filter (fun v => (v == u) && elig f s v)).length =
        if elig f s u then (recipients cfg s f.mtype).count u else 0 := by
      have : (recipients cfg s f.mtype).filter (fun v => (v == u) && elig f s v) =
          (recipients cfg s f.mtype).filter (fun v => (v == u) && elig f s u) := by
        apply List.filter_congr
        intro v _
        by_cases hv : v = u
        · subst hv; rfl
        · have : (v == u) = false := by simpa using hv
          simp [this]
      rw [this]
      cases elig f s u with
      | true =>
        simp only [Bool.and_true, if_true]
        rw [List.count_eq_length_filter]
      | false => simp
    rw [e2]
    split
    · exact hc' u
    · exact Or.inl rfl

theorem process_pk {s : State} (h : Top cfg s) (u : Nat) (hd : Hdr) : PK hd.k s (processMessage cfg s u hd) := by
  have hB := tag_cp cfg hd.k
  have hc := ctl_cp hd.k
  unfold processMessage
  dsimp only
  split
  · have hcn := connect_QE cfg hB hc s u hd
    generalize connectModule cfg s u hd = r at hcn
    obtain ⟨s1, okb⟩ := r
    dsimp only at hcn ⊢
    split
    · exact pk_of_QE (((hcn.trans (sendAck_QE cfg hB hc s1 u)).trans (infoOf_QE cfg hB hc _ _)).trans (logAt_QE cfg hB hc 20 _))
    · exact pk_of_QE hcn
  · split
    · exact pk_of_QE ((removeModule_QE cfg hB hc s u).trans (logAt_QE cfg hB hc 20 _))
    · split
      · exact pk_of_QE ((addSub_QE cfg hB hc s u _).trans (sendAck_QE cfg hB hc _ u))
      · split
        · exact pk_of_QE ((removeSub_QE cfg hB hc s u _).trans (sendAck_QE cfg hB hc _ u))
        · split
          · split
            · exact pk_of_QE ((logAt_QE cfg hB hc 40 s).trans (removeModule_QE cfg hB hc _ u))
            · exact pk_of_QE (((QE_same (s' := s.upd u _) rfl).trans (logAt_QE cfg hB hc 20 _)).trans (infoOf_QE cfg hB hc _ _))
          · split
            · exact pk_of_QE ((QE_same (s' := s.upd u _) rfl).trans (sendInfo_QE cfg hB hc _ u))
            · exact PK.after (logAt_QE cfg hB hc 10 s) (fwd_pk ok hfuel hperm (top_log ok hfuel h 10) _ hd.k rfl)

theorem readOne_pk {s : State} (h : Top cfg s) (r : Read) : PK r.h.k s (readOne cfg s r) := by
  have hB := tag_cp cfg r.h.k
  have hc := ctl_cp r.h.k
  unfold readOne
  split
  · exact pk_of_QE (QE.refl _ s)
  · cases s.find r.uid with
    | none => exact pk_of_QE (QE.refl _ s)
    | some m =>
      dsimp only
      have h1 : QE (cp r.h.k) s (s.emit (.rd r.uid)) := QE_emit _ s _ (by intro _ _ _ h; cases h)
      have t1 : Top cfg (s.emit (.rd r.uid)) := top_of h (good_emit h.good _)
      have hb : ∀ b, QE (cp r.h.k) s { (s.emit (.rd r.uid)) with buf := b } := fun b => h1.trans (QE_same rfl)
      have tb : ∀ b, Top cfg ({ (s.emit (.rd r.uid)) with buf := b } : State) := fun b => top_same ok hfuel t1 _ rfl rfl rfl
      have rm : ∀ (s' : State), QE (cp r.h.k) s s' → ∀ lvl,
          PK r.h.k s (logAt cfg (fwdTop cfg) lvl (removeModule cfg (fwdTop cfg) s' r.uid)) :=
        fun s' h' lvl => pk_of_QE ((h'.trans (removeModule_QE cfg hB hc s' r.uid)).trans (logAt_QE cfg hB hc lvl _))
      split
      · exact rm _ h1 40
      · split
        · exact rm _ h1 30
        · split
          · exact rm _ h1 30
          · split
            · split
              · exact rm _ h1 40
              · split
                · exact rm _ (hb _) 30
                · exact PK.after (hb _) (process_pk ok hfuel hperm (tb _) _ _)
            · exact PK.after h1 (process_pk ok hfuel hperm t1 _ _)

end pass

/-- the state-level invariant -/
def Mult (s : State) : Prop := ∀ k, ∃ c, ∀ u, (dataKs s.out u).count k = 0 ∨ (dataKs s.out u).count k = c

/-- an operation that writes no copy of any frame -/
theorem mult_quiet {s s' : State} (h : Mult s) (hq : ∀ j, QE (cp j) s s') : Mult s' := by
  intro k
  obtain ⟨c, hc⟩ := h k
  obtain ⟨ext, ho, hq'⟩ := hq k
  refine ⟨c, fun u => ?_⟩
  rw [ho, dataKs_append, List.count_append, kcount_zero_of_quiet hq' u, Nat.add_zero]
  exact hc u

/-- an operation that writes copies of frame `k` only, `k` at or above the bound -/
theorem mult_step {s s' : State} {b k : Nat} (h : Mult s) (ho : Ordered s b) (hk : b ≤ k) (hq : ∀ j, j ≠ k → QE (cp j) s s')
    (hp : PK k s s') : Mult s' := by
  intro j
  by_cases hj : j = k
  · subst hj
    obtain ⟨ext, hout, c, hc⟩ := hp
    refine ⟨c, fun u => ?_⟩
    rw [hout, dataKs_append, List.count_append]
    have : (dataKs s.out u).count j = 0 := by
      apply List.count_eq_zero.mpr
      intro hm
      have := (ho u).2 j hm
      omega
    rw [this, Nat.zero_add]
    exact hc u
  · obtain ⟨c, hc⟩ := h j
    obtain ⟨ext, hout, hq'⟩ := hq j hj
    refine ⟨c, fun u => ?_⟩
    rw [hout, dataKs_append, List.count_append, kcount_zero_of_quiet hq' u, Nat.add_zero]
    exact hc u

section run
variable {cfg : Cfg} (ok : CfgOK cfg) (hfuel : cfg.fuel = 0) (hperm : OrdPerm cfg)
include ok hfuel hperm

theorem readAll_mult : ∀ (rs : List Read) (s : State) (b : Nat), Top cfg s → Ordered s b → Mult s → IncFrom b rs →
    Mult (readAll cfg rs s)
  | [], _, _, _, _, h, _ => h
  | r :: rest, s, b, t, ho, hm, hi => by
    unfold readAll
    have hq : ∀ j, j ≠ r.h.k → QE (cp j) s (readOne cfg s r) := fun j hj =>
      readOne_QE cfg (tag_cp cfg j) (ctl_cp j) s r (by show (Body.data r.h.k == Body.data j) = false; simp; exact fun e => hj e.symm)
    exact readAll_mult rest _ _ (top_readOne ok hfuel t r) (ordered_step ho hi.1 hq)
      (mult_step hm ho hi.1 hq (readOne_pk ok hfuel hperm t r)) hi.2

theorem step_mult {s : State} (t : Top cfg s) (r : Round) (b : Nat) (ho : Ordered s b) (hm : Mult s) (hi : IncFrom b r.reads) :
    Mult (step cfg s r) := by
  unfold step
  split
  · exact hm
  · dsimp only
    refine mult_quiet ?_ (fun j => ticks_QE cfg (tag_cp cfg j) (ctl_cp j) _)
    unfold ioStep
    have t0 : Top cfg (envStep s r) := by unfold envStep; exact top_same ok hfuel t _ rfl rfl rfl
    have o0 : Ordered (envStep s r) b := ordered_quiet ho (fun j => QE_same rfl)
    have m0 : Mult (envStep s r) := mult_quiet hm (fun j => QE_same rfl)
    split
    · dsimp only
      have ha : Top cfg (if r.accept then acceptStep cfg (envStep s r) else envStep s r) ∧
          Ordered (if r.accept then acceptStep cfg (envStep s r) else envStep s r) b ∧
          Mult (if r.accept then acceptStep cfg (envStep s r) else envStep s r) := by
        split
        · exact ⟨top_accept ok hfuel t0, ordered_quiet o0 (fun j => accept_QE cfg (tag_cp cfg j) (ctl_cp j) _),
            mult_quiet m0 (fun j => accept_QE cfg (tag_cp cfg j) (ctl_cp j) _)⟩
        · exact ⟨t0, o0, m0⟩
      generalize (if r.accept then acceptStep cfg (envStep s r) else envStep s r) = sa at ha
      have hf := IncFrom_filter (fun rd => ((envStep s r).find rd.uid).isSome) r.reads b hi
      exact readAll_mult ok hfuel hperm _ _ b (top_same ok hfuel ha.1 _ rfl rfl rfl)
        (ordered_quiet ha.2.1 (fun j => QE_same rfl)) (mult_quiet ha.2.2 (fun j => QE_same rfl)) hf
    · exact m0

/-- **In every run every receiver of an input frame gets the same number of copies of it.** -/
theorem run_mult (rs : List Round) (hi : IncRounds 0 rs) : Mult (run cfg rs) := by
  unfold run
  have h0 : Ordered (init cfg) 0 := by
    unfold init
    refine ordered_quiet ?_ (fun j => logAt_QE cfg (tag_cp cfg j) (ctl_cp j) 20 _)
    intro u; simp [dataKs]
  have m0 : Mult (init cfg) := by
    unfold init
    refine mult_quiet ?_ (fun j => logAt_QE cfg (tag_cp cfg j) (ctl_cp j) 20 _)
    intro k; exact ⟨0, fun u => Or.inl (by simp [dataKs])⟩
  have : ∀ (rs : List Round) (s : State) (b : Nat), Top cfg s → Ordered s b → Mult s → IncRounds b rs →
      Mult (rs.foldl (step cfg) s) := by
    intro rs
    induction rs with
    | nil => intro s b _ _ h _; exact h
    | cons r rest ih =>
      intro s b t ho hm hi
      exact ih _ _ (top_step ok hfuel t r) (step_ordered cfg s r b ho hi.1) (step_mult ok hfuel hperm t r b ho hm hi.1) hi.2
  exact this rs _ 0 (top_init ok hfuel) h0 m0 hi

end run

end Pyrtma.Mgr
