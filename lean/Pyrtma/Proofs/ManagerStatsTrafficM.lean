import Pyrtma.Proofs.ManagerInv
import Pyrtma.Proofs.ManagerStatsQuiet
import Pyrtma.Proofs.ManagerStatsRecv
import Pyrtma.Proofs.ManagerId
import Pyrtma.Proofs.ManagerStatsTab
/-!
# The receivers of one frame after another (model side of the MESSAGE_TRAFFIC clause)

Nested manager activity drops only *failing* connections from the subscription index (`IKP`), so a connection that can
take the first sub-message of a report can take them all; `forward_exactB`: the copies of a frame of kind `B` that
`forward` writes are exactly one per eligible occurrence in the subscriber snapshot.
-/
namespace Pyrtma.Mgr

/-- sockets fail as before, and a connection whose socket works keeps its places in the subscription index -/
def IKP (s s' : State) : Prop :=
  s'.fail = s.fail ∧ ∀ t v, failOf s v = none → v ∈ idxGet s.idx t → v ∈ idxGet s'.idx t

theorem IKP.refl (s : State) : IKP s s := ⟨rfl, fun _ _ _ h => h⟩
theorem IKP.trans {a b c : State} (h1 : IKP a b) (h2 : IKP b c) : IKP a c :=
  ⟨h2.1.trans h1.1, fun t v hv hm => h2.2 t v (by rw [failOf_congr h1.1]; exact hv) (h1.2 t v hv hm)⟩

theorem ikp_same {s s' : State} (hf : s'.fail = s.fail) (hi : s'.idx = s.idx) : IKP s s' :=
  ⟨hf, fun _ _ _ h => by rw [hi]; exact h⟩

theorem ikp_crash (s : State) (w : String) : IKP s (s.crash w) := by
  unfold State.crash; split
  · exact IKP.refl s
  · exact ikp_same rfl rfl

theorem sendRaw_ikp (s : State) (u : Nat) (f : Frame) : IKP s (sendRaw s u f).1 := by
  unfold sendRaw
  split
  · exact ikp_crash _ _
  · split
    · exact ikp_crash _ _
    · dsimp only; split <;> exact ikp_same rfl rfl

theorem removePrep_ikp (s : State) (u : Nat) (m : Module) (hfail : failOf s u ≠ none) : IKP s (removePrep s u m) := by
  refine ⟨by unfold removePrep; dsimp only; split <;> rfl, fun t v hv hm => ?_⟩
  rw [removePrep_idx, mem_discards]
  exact ⟨hm, fun h => hfail (h.2 ▸ hv)⟩

def IKOK (fwd : Fwd) : Prop := ∀ s g, IKP s (fwd s g)

section chain
variable {cfg : Cfg} {fwd : Fwd} (hf : IKOK fwd)
include hf

theorem logAt_ikp (lvl : Nat) (s : State) : IKP s (logAt cfg fwd lvl s) := by
  unfold logAt; split
  · exact hf s _
  · exact IKP.refl s

theorem removeModule_ikp (s : State) (u : Nat) (hfail : failOf s u ≠ none) : IKP s (removeModule cfg fwd s u) := by
  unfold removeModule
  split
  · exact IKP.refl s
  · rename_i m _
    dsimp only
    exact (((removePrep_ikp s u m hfail).trans (logAt_ikp hf 10 _)).trans (hf _ _)).trans (ikp_same rfl rfl)

theorem failedMsg_ikp (s : State) (d : Int) (f : Frame) : IKP s (failedMsg cfg fwd s d f) := by
  unfold failedMsg; split
  · exact IKP.refl s
  · exact hf s _

theorem trySend_ikp (s : State) (u : Nat) (f : Frame) : IKP s (trySend cfg fwd s u f) := by
  unfold trySend
  dsimp only
  have h1 := sendRaw_ikp s u f
  have hfalse := sendRaw_false s u f
  generalize sendRaw s u f = r at h1 hfalse
  obtain ⟨s1, okb⟩ := r
  simp only at h1 hfalse ⊢
  split
  · exact h1.trans (ikp_same rfl rfl)
  · rename_i hok
    split
    · exact h1
    · rename_i hcr
      have hfail : failOf s u ≠ none := hfalse (by simpa using hok) (by simpa using hcr)
      have hf1 : failOf s1 u ≠ none := by rw [failOf_congr h1.1]; exact hfail
      exact ((h1.trans (removeModule_ikp hf s1 u hf1)).trans (logAt_ikp hf 40 _)).trans (failedMsg_ikp hf _ _ f)

theorem deliverOne_ikp (f : Frame) (s : State) (u : Nat) : IKP s (deliverOne cfg fwd f s u) := by
  unfold deliverOne
  split
  · exact IKP.refl s
  · split
    · split
      · exact trySend_ikp hf s u f
      · exact IKP.refl s
    · split
      · exact trySend_ikp hf s u f
      · exact (ikp_same (s := s) (s' := s.upd u fun m => { m with drops := m.drops + 1 }) rfl rfl).trans (failedMsg_ikp hf _ _ f)

theorem deliver_ikp (f : Frame) : ∀ (rs : List Nat) (s : State), IKP s (deliver cfg fwd f rs s)
  | [], s => IKP.refl s
  | u :: rest, s => by unfold deliver; exact (deliverOne_ikp hf f s u).trans (deliver_ikp f rest _)

end chain

theorem forward_ikp (cfg : Cfg) : ∀ n, IKOK (forward cfg n)
  | 0 => fun s g => by unfold forward; exact ikp_crash _ _
  | n + 1 => fun s g => by
    have ih := forward_ikp cfg n
    have hc : IKP s (countMsg cfg s g.mtype) := by unfold countMsg; split <;> exact ikp_same rfl rfl
    unfold forward
    split
    · exact IKP.refl s
    · dsimp only
      split
      · exact hc.trans (logAt_ikp ih 40 _)
      · split
        · exact hc.trans (logAt_ikp ih 40 _)
        · exact hc.trans (deliver_ikp ih g _ _)

theorem fwdTop_ikp (cfg : Cfg) : IKOK (fwdTop cfg) := fun s g => forward_ikp cfg _ s g

/-- **the copies of a frame of kind `B`**: `forward` appends exactly one per eligible occurrence in the subscriber
    snapshot (none when the destination ids are out of range) -/
theorem forward_exactB (cfg : Cfg) {B : Body → Bool} (hB : Tag cfg B) (fuel : Nat) (s : State) (f : Frame)
    (hb : B f.body = true) (hc : s.crashed = none) :
    dataSends B (forward cfg (fuel + 1) s f).out =
      dataSends B s.out ++
        (if (f.dest < 0 || f.dest > cfg.maxModules) || (f.destHost < 0 || f.destHost > cfg.maxHosts) then []
         else ((recipients cfg s f.mtype).filter (elig f s)).map (fun u => (u, f))) := by
  have ih := forward_ok cfg hB fuel
  unfold forward
  simp only [hc, Option.isSome_none, Bool.false_eq_true, if_false]
  have pc := countMsg_pres cfg s f.mtype
  have qc : dataSends B (countMsg cfg s f.mtype).out = dataSends B s.out := by rw [countMsg_out]
  have hrc : recipients cfg (countMsg cfg s f.mtype) f.mtype = recipients cfg s f.mtype := by
    unfold recipients countMsg; split <;> rfl
  by_cases h1 : (f.dest < 0 || f.dest > cfg.maxModules) = true
  · simp only [h1, if_true, Bool.true_or]
    rw [(logAt_ok cfg hB ih 40 (countMsg cfg s f.mtype)).2, qc]; simp
  · have h1' : (f.dest < 0 || f.dest > cfg.maxModules) = false := by simpa using h1
    simp only [h1', Bool.false_eq_true, if_false, Bool.false_or]
    by_cases h2 : (f.destHost < 0 || f.destHost > cfg.maxHosts) = true
    · simp only [h2, if_true]
      rw [(logAt_ok cfg hB ih 40 (countMsg cfg s f.mtype)).2, qc]; simp
    · have h2' : (f.destHost < 0 || f.destHost > cfg.maxHosts) = false := by simpa using h2
      simp only [h2', Bool.false_eq_true, if_false]
      rw [(deliver_ok cfg hB ih f _ (countMsg cfg s f.mtype)).2, qc, hrc]
      have he : (recipients cfg s f.mtype).filter (elig f (countMsg cfg s f.mtype)) =
                (recipients cfg s f.mtype).filter (elig f s) := by
        congr 1; funext v; exact elig_pres pc f v
      rw [he]
      simp only [hb, if_true]

/-! ## who receives a broadcast frame, one frame after another -/

theorem filter_eq_of_nodup (p : Nat → Bool) (o : Nat) : ∀ (l : List Nat), l.Nodup →
    l.filter (fun u => u == o && p u) = if (l.contains o && p o) = true then [o] else []
  | [], _ => by simp
  | a :: l, hnd => by
    have hnd' := List.nodup_cons.mp hnd
    have ih := filter_eq_of_nodup p o l hnd'.2
    rw [List.filter_cons, ih]
    by_cases hao : a = o
    · subst hao
      have hnot : l.contains a = false := by simpa using hnd'.1
      simp only [beq_self_eq_true, Bool.true_and, hnot, Bool.false_and, Bool.false_eq_true, if_false,
        List.contains_cons, Bool.true_or]
    · have h1 : (a == o) = false := by simpa using hao
      have h2 : ¬ o = a := fun e => hao e.symm
      simp [h1, h2, List.contains_cons]

theorem elig_dest (f g : Frame) (h : f.dest = g.dest) (s : State) (u : Nat) : elig f s u = elig g s u := by
  unfold elig; rw [h]

/-- `o` is in the subscriber snapshot of type `t` and can take a broadcast frame -/
def recvB (cfg : Cfg) (s : State) (t : Int) (f : Frame) (o : Nat) : Bool :=
  (recipients cfg s t).contains o && elig f s o

theorem mem_recipients {cfg : Cfg} (hord : OrderGood cfg) {s : State} (hi : SubInv cfg s) (t : Int) (o : Nat) :
    o ∈ recipients cfg s t ↔ (o ∈ idxGet s.idx t ∨ o ∈ idxGet s.idx cfg.allTypes) := by
  unfold recipients
  rw [List.mem_append, (hord _ (hi.nodup t)).2, (hord _ (hi.nodup cfg.allTypes)).2]

theorem elig_fail {f : Frame} {s : State} {o : Nat} (h : elig f s o = true) : failOf s o = none := by
  unfold elig at h
  split at h
  · cases h
  · simp only [Bool.and_eq_true] at h
    have := h.1
    unfold canTake at this
    split at this
    · simp only [Bool.and_eq_true, Option.isNone_iff_eq_none] at this; exact this.2
    · cases this

/-- **who can take one broadcast frame can take the next**: handling any frame changes neither the subscriber snapshot
    nor the eligibility of a connection that is eligible, and makes nobody eligible -/
theorem recvB_stable {cfg : Cfg} (hord : OrderGood cfg) {s : State} (hi : SubInv cfg s) (g f : Frame) (t : Int) (o : Nat) :
    recvB cfg (fwdTop cfg s g) t f o = recvB cfg s t f o := by
  have hk := fwdTop_ikp cfg s g
  have hi' := fwdTop_inv cfg s g hi
  have hpres : Pres s (fwdTop cfg s g) := fwdTop_pres cfg s g
  unfold recvB
  rw [elig_pres hpres f o]
  cases he : elig f s o with
  | false => simp
  | true =>
    simp only [Bool.and_true]
    rw [Bool.eq_iff_iff, List.contains_iff_mem, List.contains_iff_mem, mem_recipients hord hi', mem_recipients hord hi]
    have hfo := elig_fail he
    constructor
    · rintro (h | h)
      · exact Or.inl (hpres.idx t o h)
      · exact Or.inr (hpres.idx _ o h)
    · rintro (h | h)
      · exact Or.inl (hk.2 t o hfo h)
      · exact Or.inr (hk.2 _ o hfo h)

section withcfg
variable {cfg : Cfg} (ok : CfgOK cfg) (hfuel : cfg.fuel = 0)
include ok hfuel

/-- **a report of several sub-messages reaches every receiver whole and in order**: handling the broadcast frames `F` (all
    of kind `B`, type `t`, destination 0) one after the other appends, for each connection `o`, either all of them in
    order (if `o` is in the subscriber snapshot and can take the first) or none -/
theorem broadcast_foldl {B : Body → Bool} (hB : Tag cfg B) (hord : OrderGood cfg) (t : Int) (ht : t ≠ cfg.allTypes) (f0 : Frame)
    (h0 : f0.dest = 0) (o : Nat) : ∀ (F : List Frame) {s : State}, Top cfg s →
    (∀ f ∈ F, B f.body = true ∧ f.mtype = t ∧ f.dest = 0 ∧ f.destHost = 0) →
    (dataSends B (F.foldl (fwdTop cfg) s).out).filter (·.1 == o) =
      (dataSends B s.out).filter (·.1 == o) ++ (if recvB cfg s t f0 o then F.map (fun f => (o, f)) else [])
  | [], s, _, _ => by simp
  | f :: rest, s, hT, hF => by
    simp only [List.foldl_cons]
    obtain ⟨hb, hmt, hd, hdh⟩ := hF f (by simp)
    rw [broadcast_foldl hB hord t ht f0 h0 o rest (top_fwd ok hfuel hT f) (fun g hg => hF g (by simp [hg]))]
    rw [recvB_stable hord hT.good.inv f f0 t o]
    have hfw : fwdTop cfg s f = forward cfg (fuelOf cfg s - 1 + 1) s f := by
      unfold fwdTop
      have : fuelOf cfg s ≠ 0 := fuelOf_ne_zero cfg s
      rw [Nat.sub_add_cancel (Nat.pos_of_ne_zero this)]
    rw [hfw, forward_exactB cfg hB _ s f hb hT.good.ok, hmt]
    have hoor : ((f.dest < 0 || f.dest > cfg.maxModules) || (f.destHost < 0 || f.destHost > cfg.maxHosts)) = false := by
      rw [hd, hdh]
      have := ok.modsNonneg; have := ok.hostsNonneg
      simp; omega
    simp only [hoor, Bool.false_eq_true, if_false, List.filter_append, List.append_assoc]
    congr 1
    have hnd := snapshot_nodup hT.good.inv t ht hord.weak
    have hone : (((recipients cfg s t).filter (elig f s)).map (fun u => (u, f))).filter (·.1 == o) =
        if recvB cfg s t f0 o then [(o, f)] else [] := by
      rw [List.filter_map]
      have hcomp : ((fun p : Nat × Frame => p.1 == o) ∘ fun u => (u, f)) = (· == o) := rfl
      rw [hcomp, List.filter_filter]
      have hcnt : ((recipients cfg s t).filter (fun u => u == o && elig f s u)).map (fun u => (u, f)) =
          if recvB cfg s t f0 o then [(o, f)] else [] := by
        have hfl : (recipients cfg s t).filter (fun u => u == o && elig f s u) =
            if recvB cfg s t f0 o then [o] else [] := by
          unfold recvB
          rw [elig_dest f0 f (h0.trans hd.symm)]
          exact filter_eq_of_nodup (elig f s) o _ hnd
        rw [hfl]; split <;> rfl
      exact hcnt
    rw [hone]
    split <;> simp

omit ok hfuel in
theorem trafficFrames_props (seq : Nat) (c : List (Int × Nat)) :
    ∀ f ∈ trafficFrames cfg seq c, isTrafficB f.body = true ∧ f.mtype = cfg.mtTraffic ∧ f.dest = 0 ∧ f.destHost = 0 := by
  intro f hf
  unfold trafficFrames at hf
  obtain ⟨p, _, rfl⟩ := List.mem_map.mp hf
  exact ⟨rfl, rfl, rfl, rfl⟩

omit ok hfuel in
theorem pres_of_same {s s' : State} (hm : s'.mods = s.mods) (hi : s'.idx = s.idx) (hl : s'.loggers = s.loggers)
    (hw : s'.wlist = s.wlist) (hf : s'.fail = s.fail) (ho : s'.out = s.out) (hn : s'.nextUid = s.nextUid) : Pres s s' := by
  have hfind : ∀ u, s'.find u = s.find u := fun u => by unfold State.find; rw [hm]
  exact ⟨hw, hf, fun u _ => by rw [hfind], fun u h => by rw [hfind]; exact h, fun u m h => ⟨m, by rw [← hfind]; exact h, rfl, id⟩,
    fun t u h => by rw [← hi]; exact h, fun u h => by rw [← hl]; exact h, ⟨[], by simp [ho]⟩, by rw [hm]; exact List.Sublist.refl _, hn⟩

/-- what the statistics sends before the MESSAGE_TRAFFIC sub-messages leave untouched -/
structure TF (s s' : State) : Prop where
  qe : QE isTrafficB s s'
  pres : Pres s s'
  ikp : IKP s s'
  rk : RK s s'
  traffic : s'.traffic = s.traffic
  seq : s'.trafficSeq = s.trafficSeq
  now : s'.now = s.now
  tR : s'.tTraffic = s.tTraffic

omit ok hfuel in
theorem TF.refl (s : State) : TF s s := ⟨QE.refl _ s, Pres.refl s, IKP.refl s, RKP.refl _ s, rfl, rfl, rfl, rfl⟩

omit ok hfuel in
theorem TF.trans {a b c : State} (h1 : TF a b) (h2 : TF b c) : TF a c :=
  ⟨h1.qe.trans h2.qe, h1.pres.trans h2.pres, h1.ikp.trans h2.ikp, h1.rk.trans h2.rk, h2.traffic.trans h1.traffic,
   h2.seq.trans h1.seq, h2.now.trans h1.now, h2.tR.trans h1.tR⟩

omit ok hfuel in
theorem tf_same {s s' : State} (hm : s'.mods = s.mods) (hi : s'.idx = s.idx) (hl : s'.loggers = s.loggers)
    (hw : s'.wlist = s.wlist) (hf : s'.fail = s.fail) (ho : s'.out = s.out) (hn : s'.nextUid = s.nextUid)
    (h1 : s'.traffic = s.traffic) (h2 : s'.trafficSeq = s.trafficSeq) (h3 : s'.now = s.now) (h4 : s'.tTraffic = s.tTraffic) :
    TF s s' :=
  ⟨QE_same ho, pres_of_same hm hi hl hw hf ho hn, ikp_same hf hi, rkp_same hm, h1, h2, h3, h4⟩

omit ok hfuel in
/-- a frame that is no MESSAGE_TRAFFIC sub-message, handled inside the statistics context -/
theorem tf_fwdTop_stats {s : State} (hin : s.inTraffic = true) (g : Frame) (hb : isTrafficB g.body = false) :
    TF s (fwdTop cfg s g) := by
  obtain ⟨e, ha⟩ := fwdTop_any cfg s g
  have hm : Marks (fun _ => true) true e := by have := ha.marks; rw [hin] at this; exact this
  exact ⟨fwdTop_QI cfg (tag_traffic cfg) ctlIO_traffic s g hb, fwdTop_pres cfg s g, fwdTop_ikp cfg s g,
    fwdTop_rk cfg (fun _ => false) s g, by rw [ha.traffic, tallyOn_stats _ hm], ha.seq, ha.now, ha.tR⟩

omit ok hfuel in
theorem tf_logAt_stats {s : State} (hin : s.inTraffic = true) (lvl : Nat) : TF s (logAt cfg (fwdTop cfg) lvl s) := by
  unfold logAt; split
  · exact tf_fwdTop_stats hin _ rfl
  · exact TF.refl s

/-- the TIMING part of the periodic section leaves the MESSAGE_TRAFFIC state alone -/
theorem timingPart_tf {s : State} (hT : Top cfg s) (hidle : s.inTraffic = false) (t1 : Bool) :
    TF s (if t1 = true then { sendTiming cfg s with tTiming := s.now } else s) ∧
    Top cfg (if t1 = true then { sendTiming cfg s with tTiming := s.now } else s) ∧
    (if t1 = true then { sendTiming cfg s with tTiming := s.now } else s).inTraffic = false := by
  cases t1 with
  | false => exact ⟨TF.refl s, hT, hidle⟩
  | true =>
    simp only [if_true]
    unfold sendTiming
    dsimp only
    generalize hfr : mgrFrame cfg.mtTiming 0 cfg.szTiming (Body.timing (timingEntries cfg s.counts) (pidEntries s.mods)) = fr
    have hbf : isTrafficB fr.body = false := by subst hfr; rfl
    generalize hs0 : ({ s with counts := [], inTraffic := true } : State) = s0
    have h0 : TF s s0 := by subst hs0; exact tf_same rfl rfl rfl rfl rfl rfl rfl rfl rfl rfl rfl
    have hT0 : Top cfg s0 := by subst hs0; exact top_same ok hfuel hT _ rfl rfl rfl
    have hin0 : s0.inTraffic = true := by subst hs0; rfl
    have h1 := tf_fwdTop_stats (cfg := cfg) hin0 fr hbf
    have hT1 := top_fwd ok hfuel hT0 fr
    generalize fwdTop cfg s0 fr = s1 at h1 hT1
    exact ⟨(h0.trans h1).trans (tf_same rfl rfl rfl rfl rfl rfl rfl rfl rfl rfl rfl), top_same ok hfuel hT1 _ rfl rfl rfl, rfl⟩

/-- the MESSAGE_TRAFFIC report itself: every receiver gets it whole and in order, or not at all -/
theorem sendTraffic_rows (hna : MgrNotAll cfg) (hord : OrderGood cfg) {s1 : State} (t1 : Top cfg s1) (f0 : Frame) (h0 : f0.dest = 0) :
    ∃ sL, TF s1 sL ∧ Top cfg sL ∧ ∀ o,
      (dataSends isTrafficB (sendTraffic cfg s1).out).filter (·.1 == o) = (dataSends isTrafficB s1.out).filter (·.1 == o) ++
        (if recvB cfg sL cfg.mtTraffic f0 o = true
         then (trafficFrames cfg s1.trafficSeq s1.traffic).map (fun f => (o, f)) else []) := by
  have hB := tag_traffic cfg
  have htt : cfg.mtTraffic ≠ cfg.allTypes := hna _ (by unfold mgrType; simp)
  unfold sendTraffic
  dsimp only
  generalize hsa : ({ s1 with inTraffic := true } : State) = sa
  have ha : TF s1 sa := by subst hsa; exact tf_same rfl rfl rfl rfl rfl rfl rfl rfl rfl rfl rfl
  have hTa : Top cfg sa := by subst hsa; exact top_same ok hfuel t1 _ rfl rfl rfl
  have hina : sa.inTraffic = true := by subst hsa; rfl
  have hL := tf_logAt_stats (cfg := cfg) hina 10
  have hTL := top_log ok hfuel hTa 10
  generalize logAt cfg (fwdTop cfg) 10 sa = sL at hL hTL
  have tfL := ha.trans hL
  rw [tfL.traffic, tfL.seq]
  refine ⟨sL, tfL, hTL, fun o => ?_⟩
  have hfold := broadcast_foldl ok hfuel hB hord cfg.mtTraffic htt f0 h0 o (trafficFrames cfg s1.trafficSeq s1.traffic) hTL
    (trafficFrames_props s1.trafficSeq s1.traffic)
  show (dataSends isTrafficB ((trafficFrames cfg s1.trafficSeq s1.traffic).foldl (fwdTop cfg) sL).out).filter _ = _
  rw [hfold, dataSends_of_QE tfL.qe]

/-- **the MESSAGE_TRAFFIC frames of the periodic section, per receiver**: a connection gets either the whole report of the
    interval — the sub-messages built from the counter table and the interval number as they are when the section starts,
    in order — or nothing; `sL` is the state in which the first sub-message is handled -/
theorem ticks_traffic (hna : MgrNotAll cfg) (hord : OrderGood cfg) {s : State} (hT : Top cfg s) (hidle : s.inTraffic = false)
    (f0 : Frame) (h0 : f0.dest = 0) :
    ∃ sL, Pres s sL ∧ IKP s sL ∧ RK s sL ∧ Top cfg sL ∧ ∀ o,
      (dataSends isTrafficB (ticks cfg s).out).filter (·.1 == o) = (dataSends isTrafficB s.out).filter (·.1 == o) ++
        (if s.now - s.tTraffic > cfg.pTraffic ∧ recvB cfg sL cfg.mtTraffic f0 o = true
         then (trafficFrames cfg s.trafficSeq s.traffic).map (fun f => (o, f)) else []) := by
  have hB := tag_traffic cfg
  have hC := ctlIO_traffic
  have hactive : ∀ s2 : State, QE isTrafficB s2 (if s2.now - s2.tInfo > cfg.pInfo then sendActive cfg s2 else s2) := by
    intro s2
    split
    · unfold sendActive
      exact (((logAt_QI cfg hB hC 10 _).trans (infoAll_QI cfg hB hC _ _)).trans (fwdTop_QI cfg hB hC _ _ rfl)).trans (QE_same rfl)
    · exact QE.refl _ _
  unfold ticks
  dsimp only
  obtain ⟨tf1, t1, id1⟩ := timingPart_tf ok hfuel hT hidle (cfg.timing && decide (s.now - s.tTiming > cfg.pTiming))
  generalize (if (cfg.timing && decide (s.now - s.tTiming > cfg.pTiming)) = true then
      { sendTiming cfg s with tTiming := s.now } else s) = s1 at tf1 t1 id1 ⊢
  rw [tf1.now, tf1.tR]
  by_cases ht2 : s.now - s.tTraffic > cfg.pTraffic
  · simp only [ht2, if_true, true_and]
    obtain ⟨sL, tfL, hTL, hrows⟩ := sendTraffic_rows ok hfuel hna hord t1 f0 h0
    have tf := tf1.trans tfL
    refine ⟨sL, tf.pres, tf.ikp, tf.rk, hTL, fun o => ?_⟩
    rw [dataSends_of_QE (hactive _), hrows o, dataSends_of_QE tf1.qe, tf1.traffic, tf1.seq]
  · simp only [ht2, if_false, false_and]
    refine ⟨s1, tf1.pres, tf1.ikp, tf1.rk, t1, fun o => ?_⟩
    rw [dataSends_of_QE (hactive _), dataSends_of_QE tf1.qe]; simp

end withcfg

end Pyrtma.Mgr
