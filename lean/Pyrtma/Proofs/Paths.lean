import Pyrtma.Model.Paths
import Pyrtma.Proofs.Combined
/-!
# Determinism of `compile()` (C16): the environment cancels out

* path arithmetic: resolving an already resolved path is the identity, whatever the working directory
  (`resolveAt_abs`), hence `trim_root` with a *resolved* `root_path` does not depend on the working directory in
  which `os.path.relpath` happens to be evaluated (`srcOf_abs`);
* `compileRun` depends on the environment only through the resolved root file (`compile_env_irrelevant`);
* the Python, JavaScript and MATLAB programs do not depend on where the files live at all (`emit_unc`).
-/
namespace Pyrtma.Emit

theorem walk_names : ∀ (a : List Nat) (d : AbsPath), walk d (a.map .name) = d ++ a
  | [], d => by simp [walk]
  | x :: a, d => by simp [walk, walk_names a]

/-- resolving a resolved path gives it back, in every working directory -/
theorem resolveAt_abs (cwd a : AbsPath) : resolveAt cwd (absSpelled a) = a := by
  simp [resolveAt, absSpelled, walk_names]

/-- `os.path.relpath(p, start)` of two resolved paths is the same in every working directory -/
theorem relpath_abs (cwd p start : AbsPath) : relpath cwd (absSpelled p) (absSpelled start) = relAbs p start := by
  simp [relpath, resolveAt_abs]

theorem srcOf_abs (root file : AbsPath) : srcOf (absSpelled root) file = relAbs file root := by
  simp [srcOf, relpath_abs]

theorem walk_append : ∀ (s1 s2 : List Seg) (d : AbsPath), walk d (s1 ++ s2) = walk (walk d s1) s2
  | [], _, _ => rfl
  | .up :: s1, s2, d => by simp [walk, walk_append s1 s2]
  | .cur :: s1, s2, d => by simp [walk, walk_append s1 s2]
  | .name x :: s1, s2, d => by simp [walk, walk_append s1 s2]

/-- a root path spelled with the file name last: its resolved parent is the parent of the resolved file -/
theorem resolve_parent {cwd : AbsPath} {p : Spelled} {f : Nat} (h : p.segs.getLast? = some (.name f)) :
    resolveAt cwd p.parent = (resolveAt cwd p).dropLast := by
  obtain ⟨init, hinit⟩ : ∃ init, p.segs = init ++ [.name f] := by
    rcases List.eq_nil_or_concat p.segs with h0 | ⟨init, x, hx⟩
    · rw [h0] at h; simp at h
    · rw [hx] at h; simp at h; exact ⟨init, by rw [hx, h]; simp⟩
  simp only [resolveAt, Spelled.parent, hinit, List.dropLast_concat, walk_append, walk]
  split <;> simp

/-- **the environment cancels out**: two calls whose root paths are spelled with a file name last and resolve to the
same file store the same `root_path` -/
theorem storedRoot_eq {e1 e2 : Env} {f1 f2 : Nat} (h1 : e1.root.segs.getLast? = some (.name f1))
    (h2 : e2.root.segs.getLast? = some (.name f2)) (h : e1.rootFile = e2.rootFile) : storedRoot e1 = storedRoot e2 := by
  simp only [storedRoot, resolve_parent h1, resolve_parent h2]
  rw [show resolveAt e1.cwd e1.root = resolveAt e2.cwd e2.root from h]

/-- **`compile_env_irrelevant`.**  Two `compile()` calls on the same files — from any two working directories, with
the root path spelled in any two ways (absolute, relative, through `..`), into any two output directories — produce
the same outcome, the same four programs, the same `type_source` strings and the same combined YAML. -/
theorem compile_env_irrelevant (T : Tables) (ap : Bool) (k : Nat) (d : Disk) {e1 e2 : Env} {f1 f2 : Nat}
    (h1 : e1.root.segs.getLast? = some (.name f1)) (h2 : e2.root.segs.getLast? = some (.name f2))
    (h : e1.rootFile = e2.rootFile) : compileRun T ap k e1 d = compileRun T ap k e2 d := by
  simp only [compileRun, compileWith, storedRoot_eq h1 h2 h]

end Pyrtma.Emit

namespace Pyrtma.Emit

/-! ## the outputs do not depend on where the files live -/

theorem elabItem_unc_eq {T : Tables} (hC : TablesCt T) (ap c : Bool) (R : Reg) (it : Item) :
    elabItem T ap false R.unc it = (elabItem T ap c R it).map Reg.unc := by
  rw [elabItem_eq, elabItem_eq, delta_unc hC ap c R it]
  cases delta T ap c R it with
  | error e => rfl
  | ok e => simp [Except.map, push_unc]

theorem elaborate_unc_eq {T : Tables} (hC : TablesCt T) (ap : Bool) :
    ∀ (l : List (Bool × Item)) (R : Reg), elaborate T ap (uncItems l) R.unc = (elaborate T ap l R).map Reg.unc
  | [], R => rfl
  | (c, it) :: l, R => by
    simp only [uncItems, List.map_cons, elaborate]
    rw [elabItem_unc_eq hC ap c R it]
    cases h : elabItem T ap c R it with
    | error e => rfl
    | ok R1 =>
      simp only [Except.map]
      exact elaborate_unc_eq hC ap l R1

theorem isSome_findAlias_unc (R : Reg) (n : Name) : (findAlias R.unc n).isSome = (findAlias R n).isSome := by
  rw [findAlias_unc]; simp
theorem isSome_findStruct_unc (R : Reg) (n : Name) : (findStruct R.unc n).isSome = (findStruct R n).isSome := by
  rw [findStruct_unc]; simp
theorem isSome_findMsg_unc (R : Reg) (n : Name) : (findMsg R.unc n).isSome = (findMsg R n).isSome := by
  rw [findMsg_unc]; simp

theorem refTy_unc (R : Reg) (ty : Name) : refTy R.unc ty = refTy R ty := by
  simp only [refTy, isSome_findAlias_unc, isSome_findStruct_unc, isSome_findMsg_unc]

theorem tblTy_unc (tbl : List (Name × Den)) (R : Reg) (ty : Name) : tblTy tbl R.unc ty = tblTy tbl R ty := by
  simp only [tblTy, refTy_unc]

theorem refAlias_unc (R : Reg) (a : AliasR) : refAlias R.unc a.unc = refAlias R a := by
  simp only [refAlias, isSome_findAlias_unc, isSome_findStruct_unc, isSome_findMsg_unc, AliasR.unc]

theorem tblAlias_unc (tbl : List (Name × Den)) (R : Reg) (a : AliasR) : tblAlias tbl R.unc a.unc = tblAlias tbl R a := by
  simp only [tblAlias, refAlias_unc]; rfl

theorem pyDescBase_unc (T : Tables) (R : Reg) (ty : Name) (flen : Nat) :
    pyDescBase T R.unc ty flen = pyDescBase T R ty flen := by
  simp only [pyDescBase, isSome_findStruct_unc, isSome_findMsg_unc]

theorem pyDescriptor_unc (T : Tables) (R : Reg) (flen : Nat) : ∀ (fuel : Nat) (ty : Name),
    pyDescriptor T R.unc flen fuel ty = pyDescriptor T R flen fuel ty
  | 0, ty => by simp only [pyDescriptor, pyDescBase_unc]
  | fuel + 1, ty => by
    simp only [pyDescriptor, pyDescBase_unc, findAlias_unc]
    cases pyDescBase T R ty flen with
    | some r => rfl
    | none =>
      cases findAlias R ty with
      | none => rfl
      | some a => simp only [Option.map, AliasR.unc]; exact pyDescriptor_unc T R flen fuel a.target

theorem pyField_unc (T : Tables) (R : Reg) (f : FieldR) : pyField T R.unc f = pyField T R f := by
  simp only [pyField, pyDescriptor_unc]

theorem jsField_unc (T : Tables) (R : Reg) (f : FieldR) : jsField T R.unc f = jsField T R f := by
  simp only [jsField, jsTy, refTy_unc]

theorem unc_consts (R : Reg) : R.unc.consts = R.consts.map (fun c => (c.1, c.2.1, false)) := rfl
theorem unc_strs (R : Reg) : R.unc.strs = R.strs.map (fun c => (c.1, c.2.1, false)) := rfl
theorem unc_hosts (R : Reg) : R.unc.hosts = R.hosts.map (fun c => (c.1, c.2.1, false)) := rfl
theorem unc_mods (R : Reg) : R.unc.mods = R.mods.map (fun c => (c.1, c.2.1, false)) := rfl
theorem unc_msgIds (R : Reg) : R.unc.msgIds = R.msgIds.map (fun c => (c.1, c.2.1, false)) := rfl
theorem unc_aliases (R : Reg) : R.unc.aliases = R.aliases.map AliasR.unc := rfl
theorem unc_structs (R : Reg) : R.unc.structs = R.structs.map DefR.unc := rfl
theorem unc_msgs (R : Reg) : R.unc.msgs = R.msgs.map DefR.unc := rfl

theorem pyDef_unc (T : Tables) (R : Reg) (sp : Space) (d : DefR) : pyDef T R.unc sp d.unc = pyDef T R sp d := by
  simp only [pyDef, DefR.unc]
  congr 1
  apply List.map_congr_left; intro f _
  exact pyField_unc T R f

theorem jsDef_unc (T : Tables) (R : Reg) (sp : Space) (d : DefR) : jsDef T R.unc sp d.unc = jsDef T R sp d := by
  simp only [jsDef, DefR.unc]
  congr 1
  apply List.map_congr_left; intro f _
  exact jsField_unc T R f

theorem mDef_unc (T : Tables) (R : Reg) (sp : Space) (d : DefR) : mDef T R.unc sp d.unc = mDef T R sp d := by
  simp only [mDef, DefR.unc]
  congr 1
  apply List.map_congr_left; intro f _
  simp only [mField, tblTy_unc]

theorem unc_name (d : DefR) : d.unc.name = d.name := rfl
theorem unc_hash (d : DefR) : d.unc.hash = d.hash := rfl

theorem jsAlias_unc (T : Tables) (R : Reg) (a : AliasR) : jsAlias T R.unc a.unc = jsAlias T R a := by
  simp only [jsAlias, refAlias_unc]; rfl

theorem pyAlias_unc (T : Tables) (a : AliasR) : pyAlias T a.unc = pyAlias T a := rfl

/-- the Python program does not depend on the `core` marks, i.e. on where the files live -/
theorem emitPy_unc (T : Tables) (R : Reg) : emitPy T R.unc = emitPy T R := by
  simp only [emitPy, unc_consts, unc_strs, unc_hosts, unc_mods, unc_msgIds, unc_aliases, unc_structs, unc_msgs,
    List.map_map, Function.comp_def, pyDef_unc, pyAlias_unc]

theorem emitJs_unc (T : Tables) (R : Reg) : emitJs T R.unc = emitJs T R := by
  simp only [emitJs, unc_consts, unc_strs, unc_hosts, unc_mods, unc_msgIds, unc_aliases, unc_structs, unc_msgs,
    List.map_map, Function.comp_def, jsDef_unc, jsAlias_unc, unc_name, unc_hash]

theorem emitM_unc (T : Tables) (R : Reg) : emitM T R.unc = emitM T R := by
  simp only [emitM, unc_consts, unc_strs, unc_hosts, unc_mods, unc_msgIds, unc_aliases, unc_structs, unc_msgs,
    List.map_map, Function.comp_def, mDef_unc, tblAlias_unc, unc_name, unc_hash]

/-- **`relocation_irrelevant`.**  Two closures with the same items file by file — wherever the files live, whatever is
marked as "came from core_defs/" — have the same outcome and the same Python, JavaScript and MATLAB programs (the C
header differs by what it leaves to RTMA.h) and the same combined YAML. -/
theorem relocation_irrelevant {T : Tables} (hC : TablesCt T) (ap : Bool) (fs1 fs2 : List FileItems)
    (h : fs1.map (·.items) = fs2.map (·.items)) :
    (match elaborate T ap (flattenFiles fs1) {}, elaborate T ap (flattenFiles fs2) {} with
     | .ok R1, .ok R2 => emitPy T R1 = emitPy T R2 ∧ emitJs T R1 = emitJs T R2 ∧ emitM T R1 = emitM T R2
     | .error e1, .error e2 => e1 = e2
     | _, _ => False) ∧ combinedSections fs1 = combinedSections fs2 := by
  have hu : uncItems (flattenFiles fs1) = uncItems (flattenFiles fs2) := by
    simp only [unc_flatten, allItems]
    have : ∀ fs : List FileItems, fs.flatMap (·.items) = (fs.map (·.items)).flatten := by
      intro fs; simp [List.flatMap]
    rw [this, this, h]
  have h1 := elaborate_unc_eq hC ap (flattenFiles fs1) {}
  have h2 := elaborate_unc_eq hC ap (flattenFiles fs2) {}
  rw [hu] at h1
  rw [h1] at h2
  constructor
  · cases e1 : elaborate T ap (flattenFiles fs1) {} <;> cases e2 : elaborate T ap (flattenFiles fs2) {} <;>
      simp only [e1, e2, Except.map] at h2
    · simpa using h2
    · cases h2
    · cases h2
    · rename_i R1 R2
      have hr : R1.unc = R2.unc := by simpa using h2
      refine ⟨?_, ?_, ?_⟩
      · rw [← emitPy_unc T R1, ← emitPy_unc T R2, hr]
      · rw [← emitJs_unc T R1, ← emitJs_unc T R2, hr]
      · rw [← emitM_unc T R1, ← emitM_unc T R2, hr]
  · have ha : allItems fs1 = allItems fs2 := by
      have : ∀ fs : List FileItems, allItems fs = (fs.map (·.items)).flatten := by
        intro fs; simp [allItems, List.flatMap]
      rw [this, this, h]
    have hm : ∀ (a b : List FileItems), a.map (·.items) = b.map (·.items) → msgDict a = msgDict b := by
      intro a
      induction a with
      | nil => intro b hb; cases b <;> simp_all
      | cons f r ih =>
        intro b hb
        cases b with
        | nil => simp at hb
        | cons g s =>
          simp only [List.map_cons, List.cons.injEq] at hb
          have hfg : f.msgs = g.msgs ∧ f.res = g.res := by simp [FileItems.msgs, FileItems.res, hb.1]
          have hall : ∀ fs : List FileItems, allItems fs = (fs.map (·.items)).flatten := by
            intro fs; simp [allItems, List.flatMap]
          have hres : ∀ (x y : List FileItems), x.map (·.items) = y.map (·.items) →
              x.flatMap FileItems.res = y.flatMap FileItems.res ∧ x.flatMap FileItems.msgs = y.flatMap FileItems.msgs := by
            intro x y hxy
            rw [flatMap_res, flatMap_res, flatMap_msgs, flatMap_msgs, hall x, hall y, hxy]; exact ⟨rfl, rfl⟩
          simp only [msgDict, hfg.1, hfg.2, List.flatMap_cons, ih s hb.2, (hres r s hb.2).1, (hres r s hb.2).2]
    simp only [combinedSections, secDict, ha, hm fs1 fs2 h]

end Pyrtma.Emit
