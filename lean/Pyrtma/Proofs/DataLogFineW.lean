import Pyrtma.Proofs.DataLogFine
/-!
# Preservation of the fine-granularity invariant by every step of the writer thread
-/
set_option linter.unusedSimpArgs false
set_option linter.unusedVariables false

namespace Pyrtma.DataLog.Fine

section
variable {c : Cfg} {all : List RecOp} {s : State}

local macro "sameR" : term => `(⟨rfl, rfl, rfl, rfl, rfl, rfl, rfl, rfl, rfl⟩)

theorem stepW_fmtGet (h : Inv c all s) (hno : rcls s.rpc ≠ .raised) (i : Nat)
    (hw : s.wpc = .fmtGet i) : Inv c all (stepW c s) := by
  have hcl : wcls s.wpc = .ds i false := by rw [hw]; rfl
  have hf := fileOk_of h hno hcl
  obtain ⟨hsafe, _, _⟩ := safe_of_wds h.compat hno hcl
  have hi : i < c.n := h.widx i (wIdx_of_cls _ _ _ hcl)
  simp only [stepW, hw]
  simp only [hw, subPh, FileOk] at hf
  refine h.of_W_inDs i false false hno hcl rfl sameR (fun _ _ => rfl) ?_ (h.rbwb i hi) (by simp)
    (fileInv_of .normal (by simp [subPh]) hsafe (by simpa [FileOk] using hf))
    (dataEq_transfer sameR hsafe (by simp [pendW, hw]))
  simp [WLoc, hf.2.1]

theorem stepW_wbufGet (h : Inv c all s) (hno : rcls s.rpc ≠ .raised) (i : Nat)
    (hw : s.wpc = .wbufGet i) : Inv c all (stepW c s) := by
  have hcl : wcls s.wpc = .ds i false := by rw [hw]; rfl
  have hf := fileOk_of h hno hcl
  obtain ⟨hsafe, _, _⟩ := safe_of_wds h.compat hno hcl
  have hi : i < c.n := h.widx i (wIdx_of_cls _ _ _ hcl)
  have hl := h.wloc
  simp only [WLoc, hw] at hl
  simp only [stepW, hw]
  simp only [hw, subPh, FileOk] at hf
  refine h.of_W_inDs i false false hno hcl rfl sameR (fun _ _ => rfl) ?_ (h.rbwb i hi) (by simp)
    (fileInv_of .normal (by simp [subPh]) hsafe (by simpa [FileOk] using hf))
    (dataEq_transfer sameR hsafe (by simp [pendW, hw, callPend]))
  simp [WLoc, hl, callOk]

theorem stepW_wbufGet2 (h : Inv c all s) (hno : rcls s.rpc ≠ .raised) (i : Nat)
    (hw : s.wpc = .wbufGet2 i) : Inv c all (stepW c s) := by
  have hcl : wcls s.wpc = .ds i false := by rw [hw]; rfl
  have hf := fileOk_of h hno hcl
  obtain ⟨hsafe, _, _⟩ := safe_of_wds h.compat hno hcl
  have hi : i < c.n := h.widx i (wIdx_of_cls _ _ _ hcl)
  simp only [stepW, hw]
  simp only [hw, subPh, FileOk] at hf
  refine h.of_W_inDs i false false hno hcl rfl sameR (fun _ _ => rfl) ?_ (h.rbwb i hi) (by simp)
    (fileInv_of .normal (by simp [subPh]) hsafe (by simpa [FileOk] using hf))
    (dataEq_transfer sameR hsafe (by simp [pendW, hw]))
  simp [WLoc]

theorem stepW_clear (h : Inv c all s) (hno : rcls s.rpc ≠ .raised) (i : Nat)
    (hw : s.wpc = .clear i) : Inv c all (stepW c s) := by
  have hcl : wcls s.wpc = .ds i false := by rw [hw]; rfl
  have hf := fileOk_of h hno hcl
  obtain ⟨hsafe, _, _⟩ := safe_of_wds h.compat hno hcl
  have hi : i < c.n := h.widx i (wIdx_of_cls _ _ _ hcl)
  have hl := h.wloc
  simp only [WLoc, hw] at hl
  have hrw := h.rbwb i hi
  simp only [stepW, hw]
  simp only [hw, subPh, FileOk] at hf
  refine h.of_W_inDs i false true hno hcl rfl sameR (fun j hj => by simp [setDs_other _ _ hj]) ?_
    (by simpa using hrw) (by simp [hl])
    (fileInv_of .normal (by simp [subPh]) hsafe (by simpa [FileOk] using hf))
    (dataEq_transfer sameR hsafe ?_)
  · simp [WLoc]
  · have : (s.ds i).rb ≠ (s.ds i).wb := by omega
    simp [pendW, hw, hl, upd_other _ _ this, written_eq]

theorem stepW_call (h : Inv c all s) (hno : rcls s.rpc ≠ .raised) (i : Nat)
    (hw : s.wpc = .call i) : Inv c all (stepW c s) := by
  have hcl : wcls s.wpc = .ds i false := by rw [hw]; rfl
  have hf := fileOk_of h hno hcl
  obtain ⟨hsafe, _, _⟩ := safe_of_wds h.compat hno hcl
  have hi : i < c.n := h.widx i (wIdx_of_cls _ _ _ hcl)
  have hl := h.wloc
  simp only [WLoc, hw] at hl
  obtain ⟨hlf, hll, hlok, hlck⟩ := hl
  have hspec := callStep_spec (c.kind i) (c.fault s.ioc) (s.ds i) s.wcall hlok
  have hrw := h.rbwb i hi
  simp only [hw, subPh, FileOk] at hf
  simp only [stepW, hw]
  cases hres : callStep (c.kind i) (c.fault s.ioc) (s.ds i) s.wcall with
  | cont d k' =>
    rw [hres] at hspec
    obtain ⟨hfr, hf', hl', hck', hok', hpend, htc⟩ := hspec
    simp only
    refine h.of_W_inDs i false false hno hcl rfl sameR (fun j hj => by simp [setDs_other _ _ hj]) ?_
      (by simpa [hfr.wb, hfr.rb] using hrw) (by simp)
      (fileInv_of .normal (by simp [subPh]) hsafe ?_) (dataEq_transfer sameR hsafe ?_)
    · simp [WLoc, hf', hl', hck', hok', hlf, hll, hlck, hfr.sub, hfr.wb]
    · simp only [setDs_same, FileOk]
      rw [hfr.fd, hfr.fmt, hfr.sub, ← hlf, hfr.closed, htc, hlf]
      simpa using hf
    · simp only [setDs_same, pendW, hw, if_true]
      rw [written_of_frame hfr hlf, hfr.lists, hfr.wb, hfr.rb, ← hll, ← hpend]
      simp
  | ret d =>
    rw [hres] at hspec
    obtain ⟨hfr, hpend, htc⟩ := hspec
    simp only
    refine h.of_W_inDs i false false hno hcl rfl sameR (fun j hj => by simp [setDs_other _ _ hj]) ?_
      (by simpa [hfr.wb, hfr.rb] using hrw) (by simp)
      (fileInv_of .normal (by simp [subPh]) hsafe ?_) (dataEq_transfer sameR hsafe ?_)
    · simp [WLoc]
    · simp only [setDs_same, FileOk]
      rw [hfr.fd, hfr.fmt, hfr.sub, ← hlf, hfr.closed, htc hlck, hlf]
      simpa using hf
    · simp only [setDs_same, pendW, hw, if_true]
      rw [written_of_frame hfr hlf, hfr.lists, hfr.rb, ← hll, hpend]
      simp
  | exc =>
    simp only
    exact h.of_W_dead i false hno hcl rfl sameR rfl

theorem empty_late (h : Inv c all s) (hno : rcls s.rpc ≠ .raised) (i : Nat) (hcl : wcls s.wpc = .ds i true) :
    (s.ds i).lists (s.ds i).wb = [] := by
  obtain ⟨hsafe, _, _⟩ := safe_of_wds h.compat hno hcl
  apply h.empty i (h.widx i (wIdx_of_cls _ _ _ hcl))
  unfold mustBeEmpty; rw [hcl, hsafe]; simp [mustBeEmptyC]

theorem stepW_stopGet (h : Inv c all s) (hno : rcls s.rpc ≠ .raised) (i : Nat)
    (hw : s.wpc = .stopGet i) : Inv c all (stepW c s) := by
  have hcl : wcls s.wpc = .ds i true := by rw [hw]; rfl
  have hf := fileOk_of h hno hcl
  obtain ⟨hsafe, _, _⟩ := safe_of_wds h.compat hno hcl
  have hi : i < c.n := h.widx i (wIdx_of_cls _ _ _ hcl)
  have he := empty_late h hno i hcl
  simp only [hw, subPh, FileOk] at hf
  simp only [stepW, hw]
  split
  · exact h.of_W_nextDs i hno hcl rfl sameR (fun _ _ => rfl) (h.rbwb i hi) he (by simpa [FileOk] using hf)
      (by simp [pendW, hw])
  · exact h.of_W_inDs i true true hno hcl rfl sameR (fun _ _ => rfl) (by simp [WLoc]) (h.rbwb i hi) (fun _ => he)
      (fileInv_of .normal (by simp [subPh]) hsafe (by simpa [FileOk] using hf))
      (dataEq_transfer sameR hsafe (by simp [pendW, hw]))

theorem stepW_flagGet (h : Inv c all s) (hno : rcls s.rpc ≠ .raised) (i : Nat)
    (hw : s.wpc = .flagGet i) : Inv c all (stepW c s) := by
  have hcl : wcls s.wpc = .ds i true := by rw [hw]; rfl
  have hf := fileOk_of h hno hcl
  obtain ⟨hsafe, _, _⟩ := safe_of_wds h.compat hno hcl
  have hi : i < c.n := h.widx i (wIdx_of_cls _ _ _ hcl)
  have he := empty_late h hno i hcl
  simp only [hw, subPh, FileOk] at hf
  simp only [stepW, hw]
  split
  · exact h.of_W_inDs i true true hno hcl rfl sameR (fun _ _ => rfl) (by simp [WLoc]) (h.rbwb i hi) (fun _ => he)
      (fileInv_of .normal (by simp [subPh]) hsafe (by simpa [FileOk] using hf))
      (dataEq_transfer sameR hsafe (by simp [pendW, hw]))
  · exact h.of_W_nextDs i hno hcl rfl sameR (fun _ _ => rfl) (h.rbwb i hi) he (by simpa [FileOk] using hf)
      (by simp [pendW, hw])

theorem stepW_flagSet (h : Inv c all s) (hno : rcls s.rpc ≠ .raised) (i : Nat)
    (hw : s.wpc = .flagSet i) : Inv c all (stepW c s) := by
  have hcl : wcls s.wpc = .ds i true := by rw [hw]; rfl
  have hf := fileOk_of h hno hcl
  obtain ⟨hsafe, _, _⟩ := safe_of_wds h.compat hno hcl
  have hi : i < c.n := h.widx i (wIdx_of_cls _ _ _ hcl)
  have he := empty_late h hno i hcl
  simp only [hw, subPh, FileOk] at hf
  simp only [stepW, hw]
  exact h.of_W_inDs i true true hno hcl rfl sameR (fun j hj => by simp [setDs_other _ _ hj]) (by simp [WLoc])
    (by simpa using h.rbwb i hi) (fun _ => by simpa using he)
    (fileInv_of .normal (by simp [subPh]) hsafe (by simpa [FileOk] using hf))
    (dataEq_transfer sameR hsafe (by simp [pendW, hw, written_eq]))

theorem stepW_dFmtGet (h : Inv c all s) (hno : rcls s.rpc ≠ .raised) (i : Nat)
    (hw : s.wpc = .dFmtGet i) : Inv c all (stepW c s) := by
  have hcl : wcls s.wpc = .ds i true := by rw [hw]; rfl
  have hf := fileOk_of h hno hcl
  obtain ⟨hsafe, _, _⟩ := safe_of_wds h.compat hno hcl
  have hi : i < c.n := h.widx i (wIdx_of_cls _ _ _ hcl)
  have he := empty_late h hno i hcl
  simp only [hw, subPh, FileOk] at hf
  simp only [stepW, hw]
  exact h.of_W_inDs i true true hno hcl rfl sameR (fun _ _ => rfl) (by simp [WLoc, hf.2.1]) (h.rbwb i hi)
    (fun _ => he) (fileInv_of .normal (by simp [subPh]) hsafe (by simpa [FileOk] using hf))
    (dataEq_transfer sameR hsafe (by simp [pendW, hw]))

theorem stepW_dWbufGet (h : Inv c all s) (hno : rcls s.rpc ≠ .raised) (i : Nat)
    (hw : s.wpc = .dWbufGet i) : Inv c all (stepW c s) := by
  have hcl : wcls s.wpc = .ds i true := by rw [hw]; rfl
  have hf := fileOk_of h hno hcl
  obtain ⟨hsafe, _, _⟩ := safe_of_wds h.compat hno hcl
  have hi : i < c.n := h.widx i (wIdx_of_cls _ _ _ hcl)
  have he := empty_late h hno i hcl
  have hl := h.wloc
  simp only [WLoc, hw] at hl
  simp only [hw, subPh, FileOk] at hf
  simp only [stepW, hw]
  exact h.of_W_inDs i true true hno hcl rfl sameR (fun _ _ => rfl) (by simp [WLoc, hl, callOk]) (h.rbwb i hi)
    (fun _ => he) (fileInv_of .normal (by simp [subPh]) hsafe (by simpa [FileOk] using hf))
    (dataEq_transfer sameR hsafe (by simp [pendW, hw, callPend]))

theorem stepW_dCall (h : Inv c all s) (hno : rcls s.rpc ≠ .raised) (i : Nat)
    (hw : s.wpc = .dCall i) : Inv c all (stepW c s) := by
  have hcl : wcls s.wpc = .ds i true := by rw [hw]; rfl
  have hf := fileOk_of h hno hcl
  obtain ⟨hsafe, _, _⟩ := safe_of_wds h.compat hno hcl
  have hi : i < c.n := h.widx i (wIdx_of_cls _ _ _ hcl)
  have he := empty_late h hno i hcl
  have hl := h.wloc
  simp only [WLoc, hw] at hl
  obtain ⟨hlf, hll, hlok⟩ := hl
  have hspec := callStep_spec (c.kind i) (c.fault s.ioc) (s.ds i) s.wcall hlok
  have hrw := h.rbwb i hi
  simp only [hw, subPh, FileOk] at hf
  simp only [stepW, hw]
  cases hres : callStep (c.kind i) (c.fault s.ioc) (s.ds i) s.wcall with
  | cont d k' =>
    rw [hres] at hspec
    obtain ⟨hfr, hf', hl', hck', hok', hpend, htc⟩ := hspec
    simp only
    refine h.of_W_inDs i true true hno hcl rfl sameR (fun j hj => by simp [setDs_other _ _ hj]) ?_
      (by simpa [hfr.wb, hfr.rb] using hrw) (fun _ => by simpa [hfr.wb, hfr.lists] using he)
      (fileInv_of .normal (by simp [subPh]) hsafe ?_) (dataEq_transfer sameR hsafe ?_)
    · simp [WLoc, hf', hl', hok', hlf, hll, hfr.sub, hfr.wb]
    · simp only [setDs_same, FileOk]
      rw [hfr.fd, hfr.fmt, hfr.sub, ← hlf, hfr.closed, htc, hlf]
      simpa using hf
    · simp only [setDs_same, pendW, hw, if_true]
      rw [written_of_frame hfr hlf, hfr.lists, hfr.wb, hfr.rb, ← hll, ← hpend]
      simp
  | ret d =>
    rw [hres] at hspec
    obtain ⟨hfr, hpend, htc⟩ := hspec
    simp only
    refine h.of_W_inDs i true true hno hcl rfl sameR (fun j hj => by simp [setDs_other _ _ hj]) ?_
      (by simpa [hfr.wb, hfr.rb] using hrw) (fun _ => by simpa [hfr.wb, hfr.lists] using he)
      (fileInv_of .fin (by simp [subPh]) hsafe ?_) (dataEq_transfer sameR hsafe ?_)
    · simp [WLoc]
    · simp only [setDs_same, FileOk]
      rw [hfr.fd, hfr.fmt, hfr.sub, ← hlf, hfr.closed, hlf]
      exact ⟨hf.1, hf.2.1, hf.2.2.1⟩
    · simp only [setDs_same, pendW, hw, if_true]
      rw [written_of_frame hfr hlf, hfr.lists, hfr.wb, hfr.rb, ← hll, hpend, hll, he]
      simp
  | exc =>
    simp only
    exact h.of_W_dead i true hno hcl rfl sameR rfl

theorem stepW_dFdGet (h : Inv c all s) (hno : rcls s.rpc ≠ .raised) (i : Nat)
    (hw : s.wpc = .dFdGet i) : Inv c all (stepW c s) := by
  have hcl : wcls s.wpc = .ds i true := by rw [hw]; rfl
  have hf := fileOk_of h hno hcl
  obtain ⟨hsafe, _, _⟩ := safe_of_wds h.compat hno hcl
  have hi : i < c.n := h.widx i (wIdx_of_cls _ _ _ hcl)
  have he := empty_late h hno i hcl
  simp only [hw, subPh, FileOk, if_true] at hf
  simp only [stepW, hw]
  exact h.of_W_inDs i true true hno hcl rfl sameR (fun _ _ => rfl) (by simp [WLoc]) (h.rbwb i hi)
    (fun _ => he) (fileInv_of .fin (by simp [subPh]) hsafe (by simpa [FileOk] using hf))
    (dataEq_transfer sameR hsafe (by simp [pendW, hw]))

theorem stepW_dFdGet2 (h : Inv c all s) (hno : rcls s.rpc ≠ .raised) (i : Nat)
    (hw : s.wpc = .dFdGet2 i) : Inv c all (stepW c s) := by
  have hcl : wcls s.wpc = .ds i true := by rw [hw]; rfl
  have hf := fileOk_of h hno hcl
  obtain ⟨hsafe, _, _⟩ := safe_of_wds h.compat hno hcl
  have hi : i < c.n := h.widx i (wIdx_of_cls _ _ _ hcl)
  have he := empty_late h hno i hcl
  simp only [hw, subPh, FileOk, if_true] at hf
  simp only [stepW, hw]
  exact h.of_W_inDs i true true hno hcl rfl sameR (fun _ _ => rfl) (by simp [WLoc, hf.1]) (h.rbwb i hi)
    (fun _ => he) (fileInv_of .fin (by simp [subPh]) hsafe (by simpa [FileOk] using hf))
    (dataEq_transfer sameR hsafe (by simp [pendW, hw]))

theorem stepW_dClose (h : Inv c all s) (hno : rcls s.rpc ≠ .raised) (i : Nat)
    (hw : s.wpc = .dClose i) : Inv c all (stepW c s) := by
  have hcl : wcls s.wpc = .ds i true := by rw [hw]; rfl
  have hf := fileOk_of h hno hcl
  obtain ⟨hsafe, _, _⟩ := safe_of_wds h.compat hno hcl
  have hi : i < c.n := h.widx i (wIdx_of_cls _ _ _ hcl)
  have he := empty_late h hno i hcl
  have hl := h.wloc
  simp only [WLoc, hw] at hl
  simp only [hw, subPh, FileOk, if_true] at hf
  simp only [stepW, hw]
  split
  · exact h.of_W_dead i true hno hcl rfl sameR rfl
  · exact h.of_W_inDs i true true hno hcl rfl sameR (fun j hj => by simp [setDs_other _ _ hj]) (by simp [WLoc])
      (by simpa using h.rbwb i hi) (fun _ => by simpa using he)
      (fileInv_of .closedOld (by simp [subPh]) hsafe (by simp [FileOk, hf.1, hf.2.1]))
      (dataEq_transfer sameR hsafe (by simp [pendW, hw, written_setFile]))

theorem written_open (d : Ds) :
    (({ d with sub := d.sub + 1 } : Ds).setFile (d.sub + 1) {}).written = d.written := by
  rw [written_eq, written_eq]
  simp only [setFile_sub]
  rw [List.range_succ, List.map_append, List.flatten_append]
  simp only [List.map_cons, List.map_nil, setFile_files_same, List.flatten_cons, List.flatten_nil, List.append_nil]
  apply flatten_map_congr
  intro x hx
  rw [setFile_files_other _ _ (by simp at hx; omega)]

theorem stepW_dOpen (h : Inv c all s) (hno : rcls s.rpc ≠ .raised) (i : Nat)
    (hw : s.wpc = .dOpen i) : Inv c all (stepW c s) := by
  have hcl : wcls s.wpc = .ds i true := by rw [hw]; rfl
  have hf := fileOk_of h hno hcl
  obtain ⟨hsafe, _, _⟩ := safe_of_wds h.compat hno hcl
  have hi : i < c.n := h.widx i (wIdx_of_cls _ _ _ hcl)
  have he := empty_late h hno i hcl
  simp only [hw, subPh, FileOk, if_true] at hf
  simp only [stepW, hw]
  split
  · exact h.of_W_dead i true hno hcl rfl sameR rfl
  · exact h.of_W_inDs i true true hno hcl rfl sameR (fun j hj => by simp [setDs_other _ _ hj]) (by simp [WLoc])
      (by simpa using h.rbwb i hi) (fun _ => by simpa using he)
      (fileInv_of .opened (by simp [subPh]) hsafe (by simp [FileOk, hf.1, hf.2]))
      (dataEq_transfer sameR hsafe (by simp [pendW, hw, written_open]))

theorem stepW_dFdSet (h : Inv c all s) (hno : rcls s.rpc ≠ .raised) (i : Nat)
    (hw : s.wpc = .dFdSet i) : Inv c all (stepW c s) := by
  have hcl : wcls s.wpc = .ds i true := by rw [hw]; rfl
  have hf := fileOk_of h hno hcl
  obtain ⟨hsafe, _, _⟩ := safe_of_wds h.compat hno hcl
  have hi : i < c.n := h.widx i (wIdx_of_cls _ _ _ hcl)
  have he := empty_late h hno i hcl
  have hl := h.wloc
  simp only [WLoc, hw] at hl
  simp only [hw, subPh, FileOk, if_true] at hf
  simp only [stepW, hw]
  exact h.of_W_inDs i true true hno hcl rfl sameR (fun j hj => by simp [setDs_other _ _ hj]) (by simp [WLoc])
    (by simpa using h.rbwb i hi) (fun _ => by simpa using he)
    (fileInv_of .fdSet (by simp [subPh]) hsafe (by simp [FileOk, hl, hf.2]))
    (dataEq_transfer sameR hsafe (by simp [pendW, hw, written_eq]))

theorem stepW_dFdGet3 (h : Inv c all s) (hno : rcls s.rpc ≠ .raised) (i : Nat)
    (hw : s.wpc = .dFdGet3 i) : Inv c all (stepW c s) := by
  have hcl : wcls s.wpc = .ds i true := by rw [hw]; rfl
  have hf := fileOk_of h hno hcl
  obtain ⟨hsafe, _, _⟩ := safe_of_wds h.compat hno hcl
  have hi : i < c.n := h.widx i (wIdx_of_cls _ _ _ hcl)
  have he := empty_late h hno i hcl
  simp only [hw, subPh, FileOk, if_true] at hf
  simp only [stepW, hw]
  split
  · exact h.of_W_inDs i true true hno hcl rfl sameR (fun _ _ => rfl) (by simp [WLoc, hf.1]) (h.rbwb i hi)
      (fun _ => he) (fileInv_of .fdSet (by simp [subPh]) hsafe (by simpa [FileOk] using hf))
      (dataEq_transfer sameR hsafe (by simp [pendW, hw]))
  · rename_i hne
    refine h.of_W_inDs i true true hno hcl rfl sameR (fun _ _ => rfl) ?_ (h.rbwb i hi)
      (fun _ => he) (fileInv_of .fdSet (by simp [subPh]) hsafe (by simpa [FileOk] using hf))
      (dataEq_transfer sameR hsafe (by simp [pendW, hw]))
    simp only [WLoc, hf.1, true_and]
    exact List.length_pos_iff.2 (by simpa using hne)

theorem stepW_dCtor (h : Inv c all s) (hno : rcls s.rpc ≠ .raised) (i k : Nat)
    (hw : s.wpc = .dCtor i k) : Inv c all (stepW c s) := by
  have hcl : wcls s.wpc = .ds i true := by rw [hw]; rfl
  have hf := fileOk_of h hno hcl
  obtain ⟨hsafe, _, _⟩ := safe_of_wds h.compat hno hcl
  have hi : i < c.n := h.widx i (wIdx_of_cls _ _ _ hcl)
  have he := empty_late h hno i hcl
  have hl := h.wloc
  simp only [WLoc, hw] at hl
  simp only [hw, subPh, FileOk, if_true] at hf
  simp only [stepW, hw]
  split
  · exact h.of_W_dead i true hno hcl rfl sameR rfl
  · split
    · exact h.of_W_dead i true hno hcl rfl sameR rfl
    · split
      · rename_i hlt
        exact h.of_W_inDs i true true hno hcl rfl sameR (fun _ _ => rfl) (by simp [WLoc, hl.1, hlt]) (h.rbwb i hi)
          (fun _ => he) (fileInv_of .fdSet (by simp [subPh]) hsafe (by simpa [FileOk] using hf))
          (dataEq_transfer sameR hsafe (by simp [pendW, hw]))
      · exact h.of_W_inDs i true true hno hcl rfl sameR (fun _ _ => rfl) (by simp [WLoc, hl.1]) (h.rbwb i hi)
          (fun _ => he) (fileInv_of .fdSet (by simp [subPh]) hsafe (by simpa [FileOk] using hf))
          (dataEq_transfer sameR hsafe (by simp [pendW, hw]))

theorem stepW_dFmtSet (h : Inv c all s) (hno : rcls s.rpc ≠ .raised) (i : Nat)
    (hw : s.wpc = .dFmtSet i) : Inv c all (stepW c s) := by
  have hcl : wcls s.wpc = .ds i true := by rw [hw]; rfl
  have hf := fileOk_of h hno hcl
  obtain ⟨hsafe, _, _⟩ := safe_of_wds h.compat hno hcl
  have hi : i < c.n := h.widx i (wIdx_of_cls _ _ _ hcl)
  have he := empty_late h hno i hcl
  have hl := h.wloc
  simp only [WLoc, hw] at hl
  simp only [hw, subPh, FileOk, if_true] at hf
  simp only [stepW, hw]
  exact h.of_W_nextDs i hno hcl rfl sameR (fun j hj => by simp [setDs_other _ _ hj])
    (by simpa using h.rbwb i hi) (by simpa using he) (by simp [FileOk, hl, hf.1, hf.2.2])
    (by simp [pendW, hw, written_eq])

theorem waiting_safe (r : RPc) (h : waiting r = true) : rcls r = .safe := by
  cases r <;> simp_all [waiting, rcls]

theorem stepW_wait (h : Inv c all s) (hw : s.wpc = .wait) : Inv c all (stepW c s) := by
  simp only [stepW, hw]
  split
  · rename_i htd
    have hc := h.compat
    unfold Fine.compat at hc
    rw [hw] at hc
    refine h.of_W_flags rfl rfl rfl rfl rfl rfl rfl rfl (by rw [hw]; exact plainW_wait) (plainW_firstW c) ?_ ?_ ?_ ?_
      (by simp [hw])
    · unfold firstW; split <;> simp [WLoc]
    · intro k hk; unfold firstW at hk; split at hk <;> simp [wIdx] at hk; omega
    · unfold Fine.compat
      have : wcls (firstW c) = .ds 0 false ∨ wcls (firstW c) = .setFin := by
        unfold firstW; split <;> simp [wcls]
      simp only
      rcases this with e | e <;> rw [e] <;> cases hr : rcls s.rpc <;> simp_all [compatC, wcls]
    · intro i hi
      unfold mustBeEmpty
      simp only [hw]
      have : wcls (firstW c) = .ds 0 false := by unfold firstW; rw [if_pos (by omega)]; rfl
      rw [this]
      cases hr : rcls s.rpc <;> simp_all [mustBeEmptyC, wcls, compatC, RC.safe?]
  · exact h

theorem stepW_setFin (h : Inv c all s) (hw : s.wpc = .setFin) : Inv c all (stepW c s) := by
  simp only [stepW, hw]
  have hc := h.compat
  unfold Fine.compat at hc
  rw [hw] at hc
  refine h.of_W_flags rfl rfl rfl rfl rfl rfl rfl rfl (by rw [hw]; exact plainW_setFin) plainW_clrTD (by simp [WLoc])
    (by simp [wIdx]) ?_ ?_ (by simp [hw])
  · unfold Fine.compat
    simp only
    cases hr : rcls s.rpc <;> simp_all [compatC, wcls, RC.safe?, RC.trig?]
  · intro i hi
    unfold mustBeEmpty
    simp only [hw]
    cases hr : rcls s.rpc <;> simp_all [mustBeEmptyC, wcls]

theorem stepW_clrTD (h : Inv c all s) (hw : s.wpc = .clrTD) : Inv c all (stepW c s) := by
  simp only [stepW, hw]
  have hc := h.compat
  unfold Fine.compat at hc
  rw [hw] at hc
  refine h.of_W_flags rfl rfl rfl rfl rfl rfl rfl rfl (by rw [hw]; exact plainW_clrTD) plainW_wait (by simp [WLoc])
    (by simp [wIdx]) ?_ ?_ (by simp [hw])
  · unfold Fine.compat
    simp only
    cases hwt : waiting s.rpc
    · cases hr : rcls s.rpc <;> simp_all [compatC, wcls, RC.safe?, RC.trig?]
    · have := waiting_safe _ hwt
      simp_all [compatC, wcls, RC.safe?, RC.trig?]
  · intro i hi
    unfold mustBeEmpty
    simp only [hw]
    cases hr : rcls s.rpc <;> simp_all [mustBeEmptyC, wcls]

/-- every step of the writer preserves the invariant (as long as the session is not over) -/
theorem stepW_inv (h : Inv c all s) (hno : rcls s.rpc ≠ .raised) : Inv c all (stepW c s) := by
  cases hw : s.wpc with
  | wait => exact stepW_wait h hw
  | fmtGet i => exact stepW_fmtGet h hno i hw
  | wbufGet i => exact stepW_wbufGet h hno i hw
  | call i => exact stepW_call h hno i hw
  | wbufGet2 i => exact stepW_wbufGet2 h hno i hw
  | clear i => exact stepW_clear h hno i hw
  | stopGet i => exact stepW_stopGet h hno i hw
  | flagGet i => exact stepW_flagGet h hno i hw
  | flagSet i => exact stepW_flagSet h hno i hw
  | dFmtGet i => exact stepW_dFmtGet h hno i hw
  | dWbufGet i => exact stepW_dWbufGet h hno i hw
  | dCall i => exact stepW_dCall h hno i hw
  | dFdGet i => exact stepW_dFdGet h hno i hw
  | dFdGet2 i => exact stepW_dFdGet2 h hno i hw
  | dClose i => exact stepW_dClose h hno i hw
  | dOpen i => exact stepW_dOpen h hno i hw
  | dFdSet i => exact stepW_dFdSet h hno i hw
  | dFdGet3 i => exact stepW_dFdGet3 h hno i hw
  | dCtor i k => exact stepW_dCtor h hno i k hw
  | dFmtSet i => exact stepW_dFmtSet h hno i hw
  | setFin => exact stepW_setFin h hw
  | clrTD => exact stepW_clrTD h hw
  | dead => simp only [stepW, hw]; exact h

end
end Pyrtma.DataLog.Fine
