import Pyrtma.Model.Manager
/-! Helper lemmas for the manager model M1: the `Pres` relation (what nested manager activity may change) and the
    exact account of which `B`-tagged frames one delivery emits.  Core Lean only. -/
namespace Pyrtma.Mgr

/-! ## basic table lemmas -/

/-- what routing decisions read of a module record (everything but the two counters) -/
def Module.core (m : Module) : Module := { m with drops := 0, msgCount := 0 }

@[simp] theorem find_emit (s : State) (e : Ev) (u : Nat) : (s.emit e).find u = s.find u := rfl
@[simp] theorem find_crash (s : State) (w : String) (u : Nat) : (s.crash w).find u = s.find u := by
  unfold State.crash; split <;> rfl
@[simp] theorem wlist_emit (s : State) (e : Ev) : (s.emit e).wlist = s.wlist := rfl
@[simp] theorem fail_emit (s : State) (e : Ev) : (s.emit e).fail = s.fail := rfl
@[simp] theorem wlist_crash (s : State) (w : String) : (s.crash w).wlist = s.wlist := by
  unfold State.crash; split <;> rfl
@[simp] theorem fail_crash (s : State) (w : String) : (s.crash w).fail = s.fail := by
  unfold State.crash; split <;> rfl
@[simp] theorem wlist_upd (s : State) (u : Nat) (f) : (s.upd u f).wlist = s.wlist := rfl
@[simp] theorem fail_upd (s : State) (u : Nat) (f) : (s.upd u f).fail = s.fail := rfl
@[simp] theorem out_upd (s : State) (u : Nat) (f) : (s.upd u f).out = s.out := rfl
@[simp] theorem out_crash (s : State) (w : String) : (s.crash w).out = s.out := by
  unfold State.crash; split <;> rfl
@[simp] theorem out_emit (s : State) (e : Ev) : (s.emit e).out = s.out ++ [e] := rfl

theorem failOf_congr {s s' : State} (h : s'.fail = s.fail) (u : Nat) : failOf s' u = failOf s u := by
  unfold failOf; rw [h]

theorem find_upd_gen (l : List Module) (u v : Nat) (f : Module → Module) (hf : ∀ m, (f m).uid = m.uid) :
    (l.map (fun m => if m.uid == u then f m else m)).find? (·.uid == v) =
    (l.find? (·.uid == v)).map (fun m => if m.uid == u then f m else m) := by
  induction l with
  | nil => rfl
  | cons a l ih =>
    rw [List.map_cons, List.find?_cons, List.find?_cons, ih]
    cases hau : (a.uid == u) <;> cases hav : (a.uid == v) <;> simp [hf, hav] <;> simp_all

theorem find_upd (s : State) (u v : Nat) (f : Module → Module) (hf : ∀ m, (f m).uid = m.uid) :
    (s.upd u f).find v = (s.find v).map (fun m => if m.uid == u then f m else m) := by
  unfold State.upd State.find; exact find_upd_gen _ _ _ _ hf

theorem find_upd_self (s : State) (u : Nat) (f : Module → Module) (hf : ∀ m, (f m).uid = m.uid) {m : Module}
    (h : s.find u = some m) : (s.upd u f).find u = some (f m) := by
  have hu : m.uid = u := by unfold State.find at h; have := List.find?_some h; simpa using this
  rw [find_upd s u u f hf, h]; simp [hu]

theorem find_uid {s : State} {u : Nat} {m : Module} (h : s.find u = some m) : m.uid = u := by
  unfold State.find at h; have := List.find?_some h; simpa using this

theorem find_filter_ne (l : List Module) (u v : Nat) (h : v ≠ u) :
    (l.filter (·.uid != u)).find? (·.uid == v) = l.find? (·.uid == v) := by
  induction l with
  | nil => rfl
  | cons a l ih =>
    rw [List.filter_cons]
    cases hau : (a.uid != u)
    · have : (a.uid == v) = false := by simp at hau ⊢; omega
      simp [this, ih]
    · simp [List.find?_cons, ih]

theorem find_filter_eq (l : List Module) (u : Nat) :
    (l.filter (·.uid != u)).find? (·.uid == u) = none := by
  induction l with
  | nil => rfl
  | cons a l ih =>
    rw [List.filter_cons]
    cases hau : (a.uid != u)
    · simp [ih]
    · have : (a.uid == u) = false := by simpa using hau
      simp [this]

/-! ## index helpers -/

theorem idxGet_discard (idx : List (Int × List Nat)) (t t' : Int) (u v : Nat)
    (h : v ∈ idxGet (idxDiscard idx t u) t') : v ∈ idxGet idx t' := by
  unfold idxGet idxDiscard at *
  induction idx with
  | nil => simp at h
  | cons p idx ih =>
    simp only [List.map_cons, List.find?_cons] at h ⊢
    cases hp : (p.1 == t) <;> cases hp' : (p.1 == t') <;> simp only [hp, hp', if_true, if_false, Bool.false_eq_true] at h ⊢
    · exact ih h
    · exact h
    · exact ih h
    · simp at h; exact h.1

theorem idxGet_discards (ts : List Int) (idx : List (Int × List Nat)) (t' : Int) (u v : Nat)
    (h : v ∈ idxGet (ts.foldl (fun i t => idxDiscard i t u) idx) t') : v ∈ idxGet idx t' := by
  induction ts generalizing idx with
  | nil => exact h
  | cons t ts ih => exact idxGet_discard idx t t' u v (ih _ h)

/-! ## `Pres`: what nested manager activity may change -/

/-- the declared identity of a module -/
def Module.ident (m : Module) : Nat × Int × Bool × List Nat × Int × Bool × Bool :=
  (m.uid, m.modId, m.unique, m.name, m.pid, m.isLogger, m.isDaemon)

/-- `s'` is reached from `s` by manager activity that may drop *failing* modules and bump counters: nothing else that
    routing reads changes, nothing is added to any table -/
structure Pres (s s' : State) : Prop where
  wlist : s'.wlist = s.wlist
  fail : s'.fail = s.fail
  keep : ∀ u, failOf s u = none → (s'.find u).map Module.core = (s.find u).map Module.core
  gone : ∀ u, s.find u = none → s'.find u = none
  sub : ∀ u m', s'.find u = some m' →
          ∃ m, s.find u = some m ∧ m'.ident = m.ident ∧ (m'.connected = true → m.connected = true)
  idx : ∀ t u, u ∈ idxGet s'.idx t → u ∈ idxGet s.idx t
  loggers : ∀ u, u ∈ s'.loggers → u ∈ s.loggers
  out : ∃ ext, s'.out = s.out ++ ext            -- the event log only grows
  uids : (s'.mods.map (·.uid)).Sublist (s.mods.map (·.uid))   -- table entries are only dropped, never added or reordered
  nuid : s'.nextUid = s.nextUid

theorem Pres.refl (s : State) : Pres s s :=
  ⟨rfl, rfl, fun _ _ => rfl, fun _ h => h, fun _ m h => ⟨m, h, rfl, id⟩, fun _ _ h => h, fun _ h => h, ⟨[], by simp⟩,
   List.Sublist.refl _, rfl⟩

theorem Pres.trans {a b c : State} (h1 : Pres a b) (h2 : Pres b c) : Pres a c :=
  ⟨h2.wlist.trans h1.wlist, h2.fail.trans h1.fail,
   fun u hu => (h2.keep u (by rw [failOf_congr h1.fail]; exact hu)).trans (h1.keep u hu),
   fun u hu => h2.gone u (h1.gone u hu),
   fun u m'' h => by
     obtain ⟨m', hm', hi', hc'⟩ := h2.sub u m'' h
     obtain ⟨m, hm, hi, hc⟩ := h1.sub u m' hm'
     exact ⟨m, hm, hi'.trans hi, fun x => hc (hc' x)⟩,
   fun t u h => h1.idx t u (h2.idx t u h), fun u h => h1.loggers u (h2.loggers u h),
   by obtain ⟨e1, h1'⟩ := h1.out; obtain ⟨e2, h2'⟩ := h2.out; exact ⟨e1 ++ e2, by rw [h2', h1', List.append_assoc]⟩,
   h2.uids.trans h1.uids, h2.nuid.trans h1.nuid⟩

theorem uids_upd (s : State) (u : Nat) (f : Module → Module) (hu : ∀ m, (f m).uid = m.uid) :
    (s.upd u f).mods.map (·.uid) = s.mods.map (·.uid) := by
  unfold State.upd
  simp only [List.map_map]
  apply List.map_congr_left
  intro m _
  simp only [Function.comp]
  split
  · exact hu m
  · rfl

theorem pres_emit (s : State) (e : Ev) : Pres s (s.emit e) :=
  ⟨rfl, rfl, fun _ _ => rfl, fun _ h => h, fun _ m h => ⟨m, h, rfl, id⟩, fun _ _ h => h, fun _ h => h, ⟨[e], rfl⟩,
   List.Sublist.refl _, rfl⟩

theorem pres_crash (s : State) (w : String) : Pres s (s.crash w) := by
  unfold State.crash; split
  · exact Pres.refl s
  · exact ⟨rfl, rfl, fun _ _ => rfl, fun _ h => h, fun _ m h => ⟨m, h, rfl, id⟩, fun _ _ h => h, fun _ h => h, ⟨[], by simp⟩,
      List.Sublist.refl _, rfl⟩

theorem pres_upd (s : State) (u : Nat) (f : Module → Module) (hu : ∀ m, (f m).uid = m.uid)
    (hi : ∀ m, (f m).ident = m.ident) (hcn : ∀ m, (f m).connected = true → m.connected = true)
    (hk : ∀ v m, failOf s v = none → s.find v = some m → m.uid = u → (f m).core = m.core) :
    Pres s (s.upd u f) := by
  refine ⟨rfl, rfl, fun v hv => ?_, fun v hv => ?_, fun v m' h => ?_, fun _ _ h => h, fun _ h => h, ⟨[], by simp [State.upd]⟩,
    by rw [uids_upd s u f hu]; exact List.Sublist.refl _, rfl⟩
  · rw [find_upd s u v f hu]
    cases h : s.find v with
    | none => rfl
    | some m =>
      simp only [Option.map_some]
      by_cases hmu : m.uid = u
      · simp [hmu, hk v m hv h hmu]
      · simp [hmu]
  · rw [find_upd s u v f hu, hv]; rfl
  · rw [find_upd s u v f hu] at h
    cases h0 : s.find v with
    | none => simp [h0] at h
    | some m =>
      simp only [h0, Option.map_some, Option.some.injEq] at h
      refine ⟨m, rfl, ?_, ?_⟩ <;> (subst h; split <;> simp_all)

/-- an update of one module that leaves its routing-relevant fields alone -/
theorem pres_upd_core (s : State) (u : Nat) (f : Module → Module) (hu : ∀ m, (f m).uid = m.uid)
    (hi : ∀ m, (f m).ident = m.ident) (hcn : ∀ m, (f m).connected = true → m.connected = true)
    (hc : ∀ m, (f m).core = m.core) : Pres s (s.upd u f) :=
  pres_upd s u f hu hi hcn (fun _ m _ _ _ => hc m)

/-- an update of a *failing* module (e.g. marking it closed) -/
theorem pres_upd_failing (s : State) (u : Nat) (f : Module → Module) (hu : ∀ m, (f m).uid = m.uid)
    (hi : ∀ m, (f m).ident = m.ident) (hcn : ∀ m, (f m).connected = true → m.connected = true)
    (hf : failOf s u ≠ none) : Pres s (s.upd u f) :=
  pres_upd s u f hu hi hcn (fun v m hv hm hmu => by
    have := find_uid hm; rw [this] at hmu; subst hmu; exact absurd hv hf)

/-- (recipient, frame) of every frame written whose body satisfies `B`, in emission order (`msg_count` dropped) -/
def dataSends (B : Body → Bool) (evs : List Ev) : List (Nat × Frame) :=
  evs.filterMap (fun e => match e with
    | .send u _ f => if B f.body then some (u, f) else none
    | _ => none)

/-- a body predicate that is false on everything the manager sends on its own behalf inside a delivery
    (CLIENT_CLOSED, RTMA_LOG*, FAILED_MESSAGE): e.g. "is the copy of input frame k", "is an ACKNOWLEDGE" -/
def Tag (cfg : Cfg) (B : Body → Bool) : Prop :=
  (∀ u p m l q n, B (.closed u p m l q n) = false) ∧ (∀ l, B (.log l) = false) ∧
  (∀ d t x y, inGuard cfg t = false → B (.failed d t x y) = false)

theorem tag_data (cfg : Cfg) (k : Nat) : Tag cfg (fun b => b == .data k) :=
  ⟨by intros; rfl, by intros; rfl, by intros; rfl⟩
theorem tag_ack (cfg : Cfg) : Tag cfg (fun b => b == .ack) := ⟨by intros; rfl, by intros; rfl, by intros; rfl⟩

/-- "is a FAILED_MESSAGE that reports the failed delivery of a FAILED_MESSAGE or RTMA_LOG message" -/
def guardNotice (cfg : Cfg) : Body → Bool
  | .failed _ t _ _ => inGuard cfg t
  | _ => false

theorem tag_guardNotice (cfg : Cfg) : Tag cfg (guardNotice cfg) :=
  ⟨by intros; rfl, by intros; rfl, by intro d t x y h; simpa [guardNotice] using h⟩

theorem dataSends_append (B : Body → Bool) (a b : List Ev) : dataSends B (a ++ b) = dataSends B a ++ dataSends B b := by
  simp [dataSends]

def Quiet (B : Body → Bool) (s s' : State) : Prop := dataSends B s'.out = dataSends B s.out

theorem Quiet.refl (B) (s : State) : Quiet B s s := rfl
theorem Quiet.trans {B} {a b c : State} (h1 : Quiet B a b) (h2 : Quiet B b c) : Quiet B a c :=
  Eq.trans h2 h1

/-- the contract of the nested forward handed to the per-recipient loop -/
def FwdOK (B : Body → Bool) (fwd : Fwd) : Prop :=
  ∀ s g, B g.body = false → Pres s (fwd s g) ∧ Quiet B s (fwd s g)

theorem crash_isSome (s : State) (w : String) : (s.crash w).crashed.isSome = true := by
  unfold State.crash; split <;> simp [*]

/-! ## `sendRaw` -/

def canTake (s : State) (u : Nat) : Bool :=
  match s.find u with
  | some m => !m.closed && (failOf s u).isNone
  | none => false

theorem sendRaw_pres (s : State) (u : Nat) (f : Frame) : Pres s (sendRaw s u f).1 := by
  unfold sendRaw
  split
  · exact pres_crash _ _
  · split
    · exact pres_crash _ _
    · have hp : Pres s (s.upd u fun m => { m with msgCount := m.msgCount + 1 }) :=
        pres_upd_core s u _ (fun _ => rfl) (fun _ => rfl) (fun _ h => h) (fun _ => rfl)
      dsimp only
      split
      · exact hp.trans (pres_emit _ _)
      · exact hp.trans ((pres_emit _ _).trans (pres_emit _ _))
      · exact hp.trans (pres_emit _ _)

theorem sendRaw_ok (s : State) (u : Nat) (f : Frame) : (sendRaw s u f).2 = canTake s u := by
  unfold sendRaw canTake
  split
  · simp [*]
  · rename_i m hm
    simp only [hm]
    split
    · simp [*]
    · have hfo : failOf (s.upd u fun m => { m with msgCount := m.msgCount + 1 }) u = failOf s u := rfl
      rw [hfo]
      cases failOf s u with
      | none => simp [*]
      | some x => cases x <;> simp [*]

theorem sendRaw_data (B : Body → Bool) (s : State) (u : Nat) (f : Frame) :
    dataSends B (sendRaw s u f).1.out =
      dataSends B s.out ++ (if canTake s u = true ∧ B f.body = true then [(u, f)] else []) := by
  unfold sendRaw canTake
  split
  · simp [*]
  · rename_i m hm
    simp only [hm]
    split
    · simp [*]
    · have hfo : failOf (s.upd u fun m => { m with msgCount := m.msgCount + 1 }) u = failOf s u := rfl
      rw [hfo]
      cases failOf s u with
      | none => simp [*, dataSends]; split <;> simp_all
      | some x => cases x <;> simp [*, dataSends]

/-- a failed write that is not a crash happened on a failing socket -/
theorem sendRaw_false (s : State) (u : Nat) (f : Frame) (h : (sendRaw s u f).2 = false)
    (hc : (sendRaw s u f).1.crashed.isSome = false) : failOf s u ≠ none := by
  intro hnone
  have hk := sendRaw_ok s u f
  rw [h] at hk
  unfold canTake at hk
  unfold sendRaw at hc
  cases hfind : s.find u with
  | none => simp [hfind, crash_isSome] at hc
  | some m =>
    simp [hfind, hnone] at hk
    simp [hfind, hk, crash_isSome] at hc

/-! ## nested operations preserve `Pres` / `Quiet` -/

theorem logAt_ok (cfg : Cfg) {B} (hB : Tag cfg B) {fwd : Fwd} (hf : FwdOK B fwd) (lvl : Nat) (s : State) :
    Pres s (logAt cfg fwd lvl s) ∧ Quiet B s (logAt cfg fwd lvl s) := by
  unfold logAt; split
  · exact hf s _ (hB.2.1 lvl)
  · exact ⟨Pres.refl s, Quiet.refl B s⟩

theorem failedMsg_ok (cfg : Cfg) {B} (hB : Tag cfg B) {fwd : Fwd} (hf : FwdOK B fwd) (s : State) (d : Int) (f : Frame) :
    Pres s (failedMsg cfg fwd s d f) ∧ Quiet B s (failedMsg cfg fwd s d f) := by
  unfold failedMsg; split
  · exact ⟨Pres.refl s, Quiet.refl B s⟩
  · rename_i hg; exact hf s _ (hB.2.2 _ _ _ _ (by simpa using hg))

theorem pres_dropMod (s : State) (u : Nat) (hf : failOf s u ≠ none) :
    Pres s { s with mods := s.mods.filter (·.uid != u) } := by
  refine ⟨rfl, rfl, fun v hv => ?_, fun v hv => ?_, fun v m' h => ?_, fun _ _ h => h, fun _ h => h, ⟨[], by simp⟩,
    List.Sublist.map _ List.filter_sublist, rfl⟩
  · have hne : v ≠ u := by intro h; subst h; exact hf hv
    show Option.map Module.core ((s.mods.filter (·.uid != u)).find? (·.uid == v)) = _
    rw [find_filter_ne _ _ _ hne]; rfl
  · by_cases hne : v = u
    · subst hne; exact find_filter_eq _ _
    · show (s.mods.filter (·.uid != u)).find? (·.uid == v) = none
      rw [find_filter_ne _ _ _ hne]; exact hv
  · by_cases hne : v = u
    · subst hne
      have : (s.mods.filter (·.uid != v)).find? (·.uid == v) = none := find_filter_eq _ _
      have h' : (s.mods.filter (·.uid != v)).find? (·.uid == v) = some m' := h
      rw [this] at h'; cases h'
    · have h' : (s.mods.filter (·.uid != u)).find? (·.uid == v) = some m' := h
      rw [find_filter_ne _ _ _ hne] at h'
      exact ⟨m', h', rfl, id⟩

theorem removePrep_idx (s : State) (u : Nat) (m : Module) :
    (removePrep s u m).idx = m.subs.foldl (fun i t => idxDiscard i t u) s.idx := by
  unfold removePrep; dsimp only; split <;> rfl

theorem removePrep_loggers (s : State) (u : Nat) (m : Module) :
    (removePrep s u m).loggers = s.loggers.filter (· != u) := by
  unfold removePrep; dsimp only; split <;> rfl

theorem removePrep_ok (B : Body → Bool) (s : State) (u : Nat) (m : Module) (hfail : failOf s u ≠ none) :
    Pres s (removePrep s u m) ∧ Quiet B s (removePrep s u m) := by
  unfold removePrep
  dsimp only
  generalize hs1 : ({ s with idx := m.subs.foldl (fun i t => idxDiscard i t u) s.idx,
                             loggers := s.loggers.filter (· != u) } : State) = s1
  have p1 : Pres s s1 := by
    subst hs1
    exact ⟨rfl, rfl, fun _ _ => rfl, fun _ h => h, fun _ m h => ⟨m, h, rfl, id⟩,
           fun t v h => idxGet_discards m.subs s.idx t u v h, fun v h => (List.mem_filter.mp h).1, ⟨[], by simp⟩,
           List.Sublist.refl _, rfl⟩
  have q1 : Quiet B s s1 := by subst hs1; rfl
  generalize hs2 : (if m.closed then s1 else s1.emit (.close u)) = s2
  have p2 : Pres s1 s2 := by subst hs2; split; exact Pres.refl _; exact pres_emit _ _
  have q2 : Quiet B s1 s2 := by
    subst hs2; split; exact Quiet.refl B _; simp [Quiet, dataSends]
  have hf2 : failOf s2 u ≠ none := by rw [failOf_congr (p1.trans p2).fail]; exact hfail
  have p3 : Pres s2 (s2.upd u (fun m => { m with closed := true, connected := false })) :=
    pres_upd_failing s2 u _ (fun _ => rfl) (fun _ => rfl) (fun _ h => by simp at h) hf2
  exact ⟨(p1.trans p2).trans p3, (q1.trans q2).trans rfl⟩

theorem removeModule_ok (cfg : Cfg) {B} (hB : Tag cfg B) {fwd : Fwd} (hf : FwdOK B fwd) (s : State) (u : Nat)
    (hfail : failOf s u ≠ none) :
    Pres s (removeModule cfg fwd s u) ∧ Quiet B s (removeModule cfg fwd s u) := by
  unfold removeModule
  split
  · exact ⟨Pres.refl s, Quiet.refl B s⟩
  · rename_i m hm
    dsimp only
    have h3 := removePrep_ok B s u m hfail
    have hl := logAt_ok cfg hB hf 10 (removePrep s u m)
    have h4 := hf (logAt cfg fwd 10 (removePrep s u m)) (closedFrame cfg { m with connected := false })
      (by simp [closedFrame, mgrFrame, hB.1])
    have hf4 : failOf (fwd (logAt cfg fwd 10 (removePrep s u m)) (closedFrame cfg { m with connected := false })) u ≠ none := by
      rw [failOf_congr ((h3.1.trans hl.1).trans h4.1).fail]; exact hfail
    exact ⟨((h3.1.trans hl.1).trans h4.1).trans (pres_dropMod _ u hf4), ((h3.2.trans hl.2).trans h4.2).trans rfl⟩

/-- removing any module (failing or not) writes no `B`-frame -/
theorem removeModule_quiet (cfg : Cfg) {B} (hB : Tag cfg B) {fwd : Fwd} (hf : FwdOK B fwd) (s : State) (u : Nat) :
    Quiet B s (removeModule cfg fwd s u) := by
  unfold removeModule
  split
  · exact Quiet.refl B s
  · rename_i m hm
    dsimp only
    have hl := (logAt_ok cfg hB hf 10 (removePrep s u m)).2
    have h4 := (hf (logAt cfg fwd 10 (removePrep s u m)) (closedFrame cfg { m with connected := false })
      (by simp [closedFrame, mgrFrame, hB.1])).2
    have h3 : Quiet B s (removePrep s u m) := by
      unfold removePrep Quiet; dsimp only; split <;> simp [dataSends]
    exact ((h3.trans hl).trans h4).trans rfl

/-- `trySend`: `Pres`, and exactly one `B`-frame iff the recipient can take it -/
theorem trySend_ok (cfg : Cfg) {B} (hB : Tag cfg B) {fwd : Fwd} (hf : FwdOK B fwd) (s : State) (u : Nat) (f : Frame) :
    Pres s (trySend cfg fwd s u f) ∧
    dataSends B (trySend cfg fwd s u f).out =
      dataSends B s.out ++ (if canTake s u = true ∧ B f.body = true then [(u, f)] else []) := by
  unfold trySend
  dsimp only
  have hp := sendRaw_pres s u f
  have hd := sendRaw_data B s u f
  generalize hsr : sendRaw s u f = r at hp hd
  obtain ⟨s1, ok⟩ := r
  simp only at hp hd ⊢
  cases ok with
  | true =>
    simp only [if_true]
    exact ⟨hp.trans (pres_upd_core s1 u _ (fun _ => rfl) (fun _ => rfl) (fun _ h => h) (fun _ => rfl)), by simpa using hd⟩
  | false =>
    simp only [Bool.false_eq_true, if_false]
    split
    · exact ⟨hp, hd⟩
    · rename_i hcr
      have hfail : failOf s u ≠ none := by
        apply sendRaw_false s u f (by rw [hsr]) (by rw [hsr]; simpa using hcr)
      have hf1 : failOf s1 u ≠ none := by rw [failOf_congr hp.fail]; exact hfail
      have r1 := removeModule_ok cfg hB hf s1 u hf1
      have r2 := logAt_ok cfg hB hf 40 (removeModule cfg fwd s1 u)
      have r3 := failedMsg_ok cfg hB hf (logAt cfg fwd 40 (removeModule cfg fwd s1 u))
                  (match s.find u with | some m => m.modId | none => 0) f
      exact ⟨((hp.trans r1.1).trans r2.1).trans r3.1, Eq.trans r3.2 (Eq.trans r2.2 (Eq.trans r1.2 hd))⟩

/-! ## the per-recipient loop -/

/-- recipient `u` of the snapshot gets the frame: it is still in the table, its socket works, and it is writable and
    passes the destination filter — or it is a logger -/
def elig (f : Frame) (s : State) (u : Nat) : Bool :=
  match s.find u with
  | none => false
  | some m => canTake s u &&
      (if u ∈ s.wlist then (f.dest == 0 || m.modId == f.dest || m.isLogger) else m.isLogger)

theorem core_fields {a b : Module} (h : a.core = b.core) :
    a.closed = b.closed ∧ a.modId = b.modId ∧ a.isLogger = b.isLogger ∧ a.uid = b.uid := by
  unfold Module.core at h
  cases a; cases b; simp_all

theorem elig_pres {s s' : State} (h : Pres s s') (f : Frame) (v : Nat) : elig f s' v = elig f s v := by
  unfold elig canTake
  rw [failOf_congr h.fail, h.wlist]
  cases hfo : failOf s v with
  | some x => cases s'.find v <;> cases s.find v <;> simp
  | none =>
    have hk := h.keep v hfo
    cases h1 : s'.find v <;> cases h2 : s.find v <;> simp [h1, h2] at hk ⊢
    obtain ⟨hc, hm, hl, _⟩ := core_fields hk
    simp [hc, hm, hl]

theorem deliverOne_ok (cfg : Cfg) {B} (hB : Tag cfg B) {fwd : Fwd} (hf : FwdOK B fwd) (f : Frame) (s : State) (u : Nat) :
    Pres s (deliverOne cfg fwd f s u) ∧ dataSends B (deliverOne cfg fwd f s u).out =
      dataSends B s.out ++ (if B f.body = true ∧ elig f s u = true then [(u, f)] else []) := by
  unfold deliverOne elig
  cases hfind : s.find u with
  | none => exact ⟨Pres.refl s, by simp⟩
  | some m =>
    simp only
    have ht := trySend_ok cfg hB hf s u f
    by_cases hw : u ∈ s.wlist
    · simp only [hw, if_true]
      by_cases hd : (f.dest == 0 || m.modId == f.dest || m.isLogger) = true
      · simp only [hd, if_true]
        refine ⟨ht.1, ?_⟩
        rw [ht.2]; congr 1
        by_cases hc : canTake s u = true <;> by_cases hb : B f.body = true <;> simp [hc, hb]
      · have hd' : (f.dest == 0 || m.modId == f.dest || m.isLogger) = false := by simpa using hd
        simp only [hd', Bool.false_eq_true, if_false]
        exact ⟨Pres.refl s, by simp⟩
    · simp only [hw, if_false]
      by_cases hl : m.isLogger = true
      · simp only [hl, if_true]
        refine ⟨ht.1, ?_⟩
        rw [ht.2]; congr 1
        by_cases hc : canTake s u = true <;> by_cases hb : B f.body = true <;> simp [hc, hb]
      · have hl' : m.isLogger = false := by simpa using hl
        simp only [hl', Bool.false_eq_true, if_false]
        have hb : Pres s (s.upd u fun m => { m with drops := m.drops + 1 }) :=
          pres_upd_core s u _ (fun _ => rfl) (fun _ => rfl) (fun _ h => h) (fun _ => rfl)
        have hm := failedMsg_ok cfg hB hf (s.upd u fun m => { m with drops := m.drops + 1 }) m.modId f
        refine ⟨hb.trans hm.1, ?_⟩
        rw [hm.2]; simp

theorem deliver_ok (cfg : Cfg) {B} (hB : Tag cfg B) {fwd : Fwd} (hf : FwdOK B fwd) (f : Frame) :
    ∀ (rs : List Nat) (s : State),
    Pres s (deliver cfg fwd f rs s) ∧
    dataSends B (deliver cfg fwd f rs s).out =
      dataSends B s.out ++ (if B f.body = true then (rs.filter (elig f s)).map (fun u => (u, f)) else [])
  | [], s => ⟨Pres.refl s, by simp [deliver]⟩
  | u :: rest, s => by
    unfold deliver
    obtain ⟨hp, hd⟩ := deliverOne_ok cfg hB hf f s u
    have ih := deliver_ok cfg hB hf f rest (deliverOne cfg fwd f s u)
    refine ⟨hp.trans ih.1, ?_⟩
    rw [ih.2, hd, List.filter_cons]
    have he : rest.filter (elig f (deliverOne cfg fwd f s u)) = rest.filter (elig f s) := by
      congr 1; funext v; exact elig_pres hp f v
    rw [he]
    by_cases hb : B f.body = true <;> by_cases hel : elig f s u = true <;> simp [hb, hel]

theorem countMsg_pres (cfg : Cfg) (s : State) (t : Int) : Pres s (countMsg cfg s t) := by
  unfold countMsg; split
  · exact ⟨rfl, rfl, fun _ _ => rfl, fun _ h => h, fun _ m h => ⟨m, h, rfl, id⟩, fun _ _ h => h, fun _ h => h, ⟨[], by simp⟩,
      List.Sublist.refl _, rfl⟩
  · exact ⟨rfl, rfl, fun _ _ => rfl, fun _ h => h, fun _ m h => ⟨m, h, rfl, id⟩, fun _ _ h => h, fun _ h => h, ⟨[], by simp⟩,
      List.Sublist.refl _, rfl⟩

theorem countMsg_out (cfg : Cfg) (s : State) (t : Int) : (countMsg cfg s t).out = s.out := by
  unfold countMsg; split <;> rfl

/-- `forward` with any fuel meets the nested-forward contract -/
theorem forward_ok (cfg : Cfg) {B} (hB : Tag cfg B) : ∀ fuel, FwdOK B (forward cfg fuel)
  | 0 => fun s g _ => ⟨pres_crash _ _, by simp [forward, Quiet]⟩
  | fuel + 1 => fun s g hg => by
    have ih := forward_ok cfg hB fuel
    unfold forward
    split
    · exact ⟨Pres.refl s, Quiet.refl B s⟩
    · have pc := countMsg_pres cfg s g.mtype
      have qc : Quiet B s (countMsg cfg s g.mtype) := by unfold Quiet; rw [countMsg_out]
      dsimp only
      split
      · have := logAt_ok cfg hB ih 40 (countMsg cfg s g.mtype)
        exact ⟨pc.trans this.1, qc.trans this.2⟩
      · split
        · have := logAt_ok cfg hB ih 40 (countMsg cfg s g.mtype)
          exact ⟨pc.trans this.1, qc.trans this.2⟩
        · have := deliver_ok cfg hB ih g (recipients cfg (countMsg cfg s g.mtype) g.mtype) (countMsg cfg s g.mtype)
          refine ⟨pc.trans this.1, ?_⟩
          unfold Quiet; rw [this.2, qc]; simp [hg]

theorem fwdTop_ok (cfg : Cfg) {B} (hB : Tag cfg B) : FwdOK B (fwdTop cfg) :=
  fun s g hg => forward_ok cfg hB (fuelOf cfg s) s g hg

end Pyrtma.Mgr
