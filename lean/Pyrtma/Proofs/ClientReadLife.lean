import Pyrtma.Spec.ClientReadLife
import Pyrtma.Proofs.ClientRead
/-! Lemmas for the read path over several sessions (second layer of M3).  Core Lean only. -/
namespace Pyrtma.ClientRead

/-- subscribed to nothing -/
def noSub : Sub := ⟨false, []⟩

/-- a frame the handshake drops on its way to the ACK: decodable (no version check) and not an ACK -/
theorem skipF_noSub (cfg : Cfg) (f : Frame) :
    skipF cfg noSub hsArgs f = (kind cfg false f.hdr == .good && !(hType f.hdr == cfg.ack)) := by
  simp [skipF, wanted, noSub, hsArgs]

/-- whatever the (stale) subscription state skips while waiting for the ACK, the empty state skips too -/
theorem skipF_stale_imp (cfg : Cfg) (sub : Sub) (f : Frame) (h : skipF cfg sub hsArgs f = true) :
    skipF cfg noSub hsArgs f = true := by
  rw [skipF_noSub]
  simp only [skipF, wanted, hsArgs, Bool.and_eq_true, beq_iff_eq, Bool.not_eq_true', Bool.or_eq_false_iff,
    Bool.true_and] at h ⊢
  exact ⟨h.1, by simpa using h.2.2⟩

/-- the non-`msg` results pass through the `match` of `waitAck` unchanged -/
theorem waitAck_pass (cfg : Cfg) (sub : Sub) (fuel : Nat) (s : Sock) (r : Res × Sock)
    (hr : readLoop cfg sub .pos true false (s.data.length + 1) s = r) (hn : ∀ h p, r.1 ≠ .msg h p) :
    waitAck cfg sub (fuel + 1) s = r := by
  unfold waitAck
  rw [hr]
  obtain ⟨res, s'⟩ := r
  cases res with
  | msg h p => exact absurd rfl (hn h p)
  | _ => rfl

theorem waitAck_msg (cfg : Cfg) (sub : Sub) (fuel : Nat) (s s' : Sock) (h p : Bytes)
    (hr : readLoop cfg sub .pos true false (s.data.length + 1) s = (.msg h p, s')) :
    waitAck cfg sub (fuel + 1) s = if hType h == cfg.ack then (.msg h p, s') else waitAck cfg sub fuel s' := by
  conv => lhs; unfold waitAck
  rw [hr]

/-- **The wait for the ACK, on a well-formed stream, is the frame-level reference of a `read_message(timeout>0,
ack=True)` by a client subscribed to nothing** — whatever the subscription state is while it waits. -/
theorem waitAck_eq_ref (cfg : Cfg) (sub : Sub) (tail : Bytes) (e : End) (hs : 48 ≤ cfg.hsize)
    (hi : tailIncomplete cfg tail = true) (hb : tailBadLen cfg tail = false) :
    ∀ (fuel : Nat) (fs : List Frame), fs.all (Frame.wf cfg) = true → fs.length < fuel →
      waitAck cfg sub fuel ⟨streamOf fs tail, e⟩ = ref cfg noSub hsArgs tail e fs
  | 0, _, _, hf => by omega
  | fuel + 1, fs, hw, hf => by
    have hloop : readLoop cfg sub .pos true false ((streamOf fs tail).length + 1) ⟨streamOf fs tail, e⟩ =
        ref cfg sub hsArgs tail e fs := readLoop_fuel cfg sub hsArgs tail e hs hi hb fs hw
    have hpos : hsArgs.tmo ≠ .zero := by simp [hsArgs]
    have ho := ref_outcome cfg sub hsArgs tail e hi hb fs
    generalize hr : ref cfg sub hsArgs tail e fs = r at ho hloop
    cases ho with
    | decided init f rest h1 h2 _ =>
      have h1' : init.all (skipF cfg noSub hsArgs) = true := by
        rw [List.all_eq_true] at h1 ⊢
        exact fun g hg => skipF_stale_imp cfg sub g (h1 g hg)
      have hwrest : rest.all (Frame.wf cfg) = true := by
        simp only [List.all_append, List.all_cons, Bool.and_eq_true] at hw; exact hw.2.2
      have hlrest : rest.length < fuel := by simp at hf; omega
      cases hk : kind cfg false f.hdr with
      | good =>
        have hres : resOfFrame cfg hsArgs.sync f = .msg f.hdr f.payload := by simp [resOfFrame, hsArgs, hk]
        rw [hres] at hloop
        rw [waitAck_msg cfg sub fuel _ _ _ _ hloop]
        by_cases hack : hType f.hdr = cfg.ack
        · have hne : skipF cfg noSub hsArgs f = false := by rw [skipF_noSub]; simp [hk, hack]
          simp only [hack, beq_self_eq_true, if_true]
          rw [ref_decided cfg noSub hsArgs tail e init f rest h1' hne (fun h => absurd h hpos), hres]
        · have hsk : skipF cfg noSub hsArgs f = true := by rw [skipF_noSub]; simp [hk, hack]
          have hnb : (hType f.hdr == cfg.ack) = false := by simpa using hack
          simp only [hnb, Bool.false_eq_true, if_false]
          rw [waitAck_eq_ref cfg sub tail e hs hi hb fuel rest hwrest hlrest]
          have hall : (init ++ [f]).all (skipF cfg noSub hsArgs) = true := by simp [h1', hsk]
          have := ref_skip_prefix cfg noSub hsArgs tail e hpos (init ++ [f]) rest hall
          simpa using this.symm
      | unknown =>
        have hne : skipF cfg noSub hsArgs f = false := by rw [skipF_noSub]; simp [hk]
        have hres : resOfFrame cfg hsArgs.sync f = .unknownType f.hdr f.payload := by simp [resOfFrame, hsArgs, hk]
        rw [waitAck_pass cfg sub fuel _ _ hloop (by rw [hres]; intro h p; simp)]
        rw [ref_decided cfg noSub hsArgs tail e init f rest h1' hne (fun h => absurd h hpos)]
      | wrongSize =>
        have hne : skipF cfg noSub hsArgs f = false := by rw [skipF_noSub]; simp [hk]
        have hres : resOfFrame cfg hsArgs.sync f = .invalidDef := by simp [resOfFrame, hsArgs, hk]
        rw [waitAck_pass cfg sub fuel _ _ hloop (by rw [hres]; intro h p; simp)]
        rw [ref_decided cfg noSub hsArgs tail e init f rest h1' hne (fun h => absurd h hpos)]
      | wrongVersion =>
        have hne : skipF cfg noSub hsArgs f = false := by rw [skipF_noSub]; simp [hk]
        have hres : resOfFrame cfg hsArgs.sync f = .invalidDef := by simp [resOfFrame, hsArgs, hk]
        rw [waitAck_pass cfg sub fuel _ _ hloop (by rw [hres]; intro h p; simp)]
        rw [ref_decided cfg noSub hsArgs tail e init f rest h1' hne (fun h => absurd h hpos)]
    | zeroSkip f rest h1 _ => exact absurd h1 hpos
    | atTail _ _ h1 _ ht =>
      have h1' : fs.all (skipF cfg noSub hsArgs) = true := by
        rw [List.all_eq_true] at h1 ⊢
        exact fun g hg => skipF_stale_imp cfg sub g (h1 g hg)
      have e1 := ref_skip_prefix cfg sub hsArgs tail e hpos fs [] h1
      have e2 := ref_skip_prefix cfg noSub hsArgs tail e hpos fs [] h1'
      simp only [List.append_nil] at e1 e2
      obtain ⟨res, s'⟩ := r
      rw [waitAck_pass cfg sub fuel _ _ hloop (fun h p => tail_not_msg ht h p)]
      rw [e2, ← hr, e1]
      rfl

theorem length_le_framesLen : ∀ (fs : List Frame), allPos fs → fs.length ≤ framesLen fs
  | [], _ => by simp [framesLen]
  | f :: fs, hp => by
    have h1 := hp f (by simp)
    have h2 := length_le_framesLen fs (fun g hg => hp g (by simp [hg]))
    simp only [List.length_cons, framesLen]; omega

theorem wire_fuel {cfg : Cfg} {w : Wire} (hw : w.pre.wf cfg = true) : w.fs.length < w.sock.data.length + 1 := by
  obtain ⟨hs, hwf, _, _⟩ := wf_parts hw
  have := length_le_framesLen w.fs (allPos_of_wf hs hwf)
  simp only [Wire.sock, streamOf_length]; omega

/-- … hence the handshake does not depend on what the client believes to be subscribed to -/
theorem waitAck_sub_irrelevant (cfg : Cfg) (sub sub' : Sub) (w : Wire) (hw : w.pre.wf cfg = true) :
    waitAck cfg sub (w.sock.data.length + 1) w.sock = waitAck cfg sub' (w.sock.data.length + 1) w.sock := by
  obtain ⟨hs, hwf, hi, hb⟩ := wf_parts hw
  have hlen := wire_fuel hw
  simp only [Wire.sock] at hlen ⊢
  rw [waitAck_eq_ref cfg sub w.tail w.e hs hi hb _ w.fs hwf hlen,
      waitAck_eq_ref cfg sub' w.tail w.e hs hi hb _ w.fs hwf hlen]

def Res.isMsg : Res → Bool
  | .msg _ _ => true
  | _ => false

/-- **`connect()` is, for the read path, one `read_message(timeout>0, ack=True)` of a client subscribed to nothing on
the new connection** — plus, exactly when that read returned (the ACK), the reset of the subscription state; in every
other case the client ends disconnected from a closed socket with its sets untouched. -/
theorem connectCall_eq (cfg : Cfg) (st : St) (w : Wire) (hw : w.pre.wf cfg = true) :
    connectCall cfg st w.sock =
      (⟨CRes.ofRes (readMessage cfg .pos true false w.pre.st).1.res, (readMessage cfg .pos true false w.pre.st).1.consumed,
        (readMessage cfg .pos true false w.pre.st).1.res.isMsg⟩,
       if (readMessage cfg .pos true false w.pre.st).1.res.isMsg then
         ⟨(readMessage cfg .pos true false w.pre.st).2.sock, true, noSub⟩
       else ⟨Sock.dead, false, subAtHandshake st⟩) := by
  obtain ⟨hs, hwf, hi, hb⟩ := wf_parts hw
  have hlen := wire_fuel hw
  have hwait : ∀ sub, waitAck cfg sub (w.sock.data.length + 1) w.sock =
      readLoop cfg noSub .pos true false (w.sock.data.length + 1) w.sock := by
    intro sub
    have h1 := waitAck_eq_ref cfg sub w.tail w.e hs hi hb (w.sock.data.length + 1) w.fs hwf hlen
    have h2 := readLoop_fuel cfg noSub hsArgs w.tail w.e hs hi hb w.fs hwf
    simp only [Wire.sock, hsArgs] at h1 h2 ⊢
    rw [h1, h2]
  unfold connectCall readMessage
  have hst : w.pre.st = ⟨w.sock, true, noSub⟩ := rfl
  simp only [hst, Bool.not_true, Bool.false_eq_true, if_false, hwait]
  generalize readLoop cfg noSub .pos true false (w.sock.data.length + 1) w.sock = r
  obtain ⟨res, s'⟩ := r
  cases res <;> simp [connectOut, CRes.ofRes, Res.isMsg, noSub]

/-- the handshake as an observation of that read -/
def hsObs (cfg : Cfg) (w : Wire) : Obs := (readMessage cfg .pos true false w.pre.st).1

def cobsOf (o : Obs) : CObs := ⟨CRes.ofRes o.res, o.consumed, o.res.isMsg⟩

theorem ofRes_lost (r : Res) : (CRes.ofRes r == .lost) = (r == .lost) := by cases r <;> rfl
theorem ofRes_normal (r : Res) : (CRes.ofRes r).isNormal = r.isNormal := by cases r <;> rfl
theorem ofRes_blocked (r : Res) : (CRes.ofRes r != .blocked) = (r != .blocked) := by cases r <;> rfl
theorem ofRes_crash (r : Res) : (CRes.ofRes r != .crash) = (r != .crash) := by cases r <;> rfl

/-- the clauses for a `connect()` follow from the clauses of that read -/
theorem connOk_of_specOk (cfg : Cfg) (w : Wire) (o : Obs) (h : specOk cfg w.pre hsArgs o = true) :
    connOk cfg w (cobsOf o) = true := by
  simp only [specOk, clauses, List.all_cons, List.all_nil, Bool.and_true, Bool.and_eq_true] at h
  obtain ⟨hnc, hwhole, _, _, _, _, hlost, _, hdoc⟩ := h
  have hconn : w.pre.connected = true := rfl
  simp only [hconn, Bool.not_true, Bool.false_or] at hwhole hlost hnc
  have hnotnc : (o.res == .notConnected) = false := by
    cases hr : o.res <;> simp_all
  simp only [connOk, connClauses, cobsOf, List.all_cons, List.all_nil, Bool.and_true, Bool.and_eq_true]
  refine ⟨?_, ?_, ?_⟩
  · -- whole frames
    rw [ofRes_normal]
    simp only [Bool.or_eq_true] at hwhole ⊢
    rcases hwhole with (h1 | h1) | h1
    · exact .inl (.inl h1)
    · exact .inl (.inr h1)
    · right
      simp only [drainExc, Bool.and_eq_true] at h1
      obtain ⟨⟨⟨⟨⟨⟨h1, h2⟩, h3⟩, h4⟩, _⟩, h6⟩, h7⟩ := h1
      simp only [drainExcC, Bool.and_eq_true]
      refine ⟨⟨⟨⟨⟨?_, h2⟩, h3⟩, h4⟩, h6⟩, ?_⟩
      · revert h1; cases o.res <;> simp [CRes.ofRes]
      · have h7' : resMatchesKind o.res (kind cfg false (w.tail.take cfg.hsize)) = true := h7
        revert h7' h1
        cases o.res <;> cases kind cfg false (List.take cfg.hsize w.tail) <;>
          simp [resMatchesKind, cresMatchesKind, CRes.ofRes]
  · simp only [ofRes_lost, ofRes_normal]
    revert hlost
    cases o.res <;> simp [Res.isMsg, CRes.ofRes, Res.isNormal]
    intro _ h1 h2 h3
    exact ⟨⟨h1, h2⟩, h3⟩
  · rw [ofRes_crash]
    refine ⟨⟨hdoc.1, ?_⟩, ?_⟩
    · cases hr : o.res <;> simp_all [CRes.ofRes]
    · have h2 : (o.res != .blocked || w.e == .idle) = true := hdoc.2
      revert h2
      cases o.res <;> simp [CRes.ofRes]

theorem readMessage_connected (cfg : Cfg) (tmo : Tmo) (ack sync : Bool) (st : St) :
    (readMessage cfg tmo ack sync st).2.connected = (readMessage cfg tmo ack sync st).1.connected := by
  unfold readMessage
  by_cases hc : st.connected = true
  · simp [hc]
  · have : st.connected = false := by simpa using hc
    simp [this]

theorem readMessage_sub (cfg : Cfg) (tmo : Tmo) (ack sync : Bool) (st : St) :
    (readMessage cfg tmo ack sync st).2.sub = st.sub := by
  unfold readMessage
  by_cases hc : st.connected = true <;> simp [hc]

/-- a call never puts bytes back: what is left on the socket is at most what was there -/
theorem ref_shrinks (cfg : Cfg) (sub : Sub) (a : Args) (tail : Bytes) (e : End)
    (hi : tailIncomplete cfg tail = true) (hb : tailBadLen cfg tail = false) (fs : List Frame) :
    (ref cfg sub a tail e fs).2.data.length ≤ (streamOf fs tail).length := by
  have ho := ref_outcome cfg sub a tail e hi hb fs
  generalize ref cfg sub a tail e fs = r at ho
  cases ho with
  | decided init f rest _ _ _ => simp only [streamOf_length, framesLen_append, framesLen]; omega
  | zeroSkip f rest _ _ => simp only [streamOf_length, framesLen]; omega
  | atTail _ _ _ _ ht =>
    cases ht with
    | none _ _ _ => simp only [streamOf_length]; omega
    | blocked s _ hle => simp only [streamOf_length]; omega
    | lost _ => simp [Sock.dead]
    | drainErr _ _ _ _ _ _ => simp [Sock.dead]

/-- `read_message` of a connected client on a well-formed stream, through the frame-level reference -/
theorem readMessage_ref (cfg : Cfg) (p : Pre) (a : Args) (hw : p.wf cfg = true) (hc : p.connected = true) :
    readMessage cfg a.tmo a.ack a.sync p.st =
      (⟨(ref cfg p.sub a p.tail p.e p.fs).1, p.total - (ref cfg p.sub a p.tail p.e p.fs).2.data.length,
        (ref cfg p.sub a p.tail p.e p.fs).1 != .lost⟩,
       ⟨(ref cfg p.sub a p.tail p.e p.fs).2, (ref cfg p.sub a p.tail p.e p.fs).1 != .lost, p.sub⟩) := by
  obtain ⟨hs, hwf, hi, hb⟩ := wf_parts hw
  have hfuel := readLoop_fuel cfg p.sub a p.tail p.e hs hi hb p.fs hwf
  unfold readMessage
  simp only [Pre.st, hc, Bool.not_true, Bool.false_eq_true, if_false, Pre.sock, hfuel]
  simp [Pre.total, streamOf_length]

end Pyrtma.ClientRead
