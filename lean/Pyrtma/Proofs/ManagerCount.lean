import Pyrtma.Proofs.ManagerSafe
/-! The sequence-number invariant of M1: on every connection the stamped counts are 1, 2, 3, … -/
namespace Pyrtma.Mgr

/-- the `msg_count` values of the frames written to `u`, in order -/
def countsOf (evs : List Ev) (u : Nat) : List Nat :=
  evs.filterMap (fun e => match e with | .send v c _ => if v == u then some c else none | _ => none)

def iota (n : Nat) : List Nat := (List.range n).map (· + 1)

theorem iota_succ (n : Nat) : iota (n + 1) = iota n ++ [n + 1] := by
  unfold iota; rw [List.range_succ]; simp

theorem countsOf_append (a b : List Ev) (u : Nat) : countsOf (a ++ b) u = countsOf a u ++ countsOf b u := by
  simp [countsOf]

/-- (a) the counts written to any uid so far are 1..n, and a module that is in the table with an open socket has
    `msgCount = n`; (b) uids that were never handed out have nothing written to them and are not in the table -/
structure Cnt (s : State) : Prop where
  seq : ∀ u, ∃ n, countsOf s.out u = iota n ∧ ∀ m, s.find u = some m → m.closed = false → m.msgCount = n
  fresh : ∀ u, s.nextUid < u → countsOf s.out u = [] ∧ s.find u = none

/-- same event log, same `nextUid`, and every open table entry of `s'` is an open entry of `s` with the same counter -/
theorem cnt_of_same {s s' : State} (h : Cnt s) (ho : s'.out = s.out) (hn : s'.nextUid = s.nextUid)
    (hm : ∀ u m', s'.find u = some m' → m'.closed = false → ∃ m, s.find u = some m ∧ m.closed = false ∧ m.msgCount = m'.msgCount)
    (hg : ∀ u, s.find u = none → s'.find u = none) : Cnt s' := by
  refine ⟨fun u => ?_, fun u hu => ?_⟩
  · obtain ⟨n, hn1, hn2⟩ := h.seq u
    refine ⟨n, by rw [ho]; exact hn1, fun m' hm' hc => ?_⟩
    obtain ⟨m, hm0, hc0, he⟩ := hm u m' hm' hc
    rw [← he]; exact hn2 m hm0 hc0
  · rw [hn] at hu
    have := h.fresh u hu
    exact ⟨by rw [ho]; exact this.1, hg u this.2⟩

theorem cnt_misc {s : State} (h : Cnt s) (s' : State) (hm : s'.mods = s.mods) (ho : s'.out = s.out)
    (hn : s'.nextUid = s.nextUid) : Cnt s' := by
  have hf : ∀ u, s'.find u = s.find u := fun u => by unfold State.find; rw [hm]
  exact cnt_of_same h ho hn (fun u m' hm' hc => ⟨m', by rw [← hf]; exact hm', hc, rfl⟩) (fun u hu => by rw [hf]; exact hu)

theorem cnt_upd {s : State} (h : Cnt s) (u : Nat) (f : Module → Module) (hu : ∀ m, (f m).uid = m.uid)
    (hk : ∀ m, (f m).closed = false → m.closed = false ∧ (f m).msgCount = m.msgCount) : Cnt (s.upd u f) := by
  refine cnt_of_same h rfl rfl (fun v m' hm' hc => ?_) (fun v hv => by rw [find_upd s u v f hu, hv]; rfl)
  rw [find_upd s u v f hu] at hm'
  cases h0 : s.find v with
  | none => simp [h0] at hm'
  | some m0 =>
    simp only [h0, Option.map_some, Option.some.injEq] at hm'
    refine ⟨m0, rfl, ?_⟩
    subst hm'
    split at hc
    · have := hk m0 hc; split <;> simp_all
    · rename_i hne; simp [hne]; exact hc

theorem cnt_emit {s : State} (h : Cnt s) (e : Ev) (he : ∀ v c f, e ≠ .send v c f) : Cnt (s.emit e) := by
  have hc : ∀ u, countsOf (s.out ++ [e]) u = countsOf s.out u := by
    intro u; rw [countsOf_append]
    have : countsOf [e] u = [] := by
      unfold countsOf; cases e <;> simp_all
    rw [this]; simp
  refine ⟨fun u => ?_, fun u hu => ?_⟩
  · obtain ⟨n, hn1, hn2⟩ := h.seq u
    exact ⟨n, by show countsOf (s.out ++ [e]) u = _; rw [hc]; exact hn1, hn2⟩
  · have := h.fresh u hu
    exact ⟨by show countsOf (s.out ++ [e]) u = _; rw [hc]; exact this.1, this.2⟩

theorem cnt_crash {s : State} (h : Cnt s) (w : String) : Cnt (s.crash w) := by
  unfold State.crash; split
  · exact h
  · exact cnt_misc h _ rfl rfl rfl

theorem cnt_count {cfg : Cfg} {s : State} (h : Cnt s) (t : Int) : Cnt (countMsg cfg s t) := by
  unfold countMsg; split
  · exact cnt_misc h _ rfl rfl rfl
  · exact cnt_misc h _ rfl rfl rfl

/-- a successful write: the next count, stamped and recorded -/
theorem sendRaw_cnt_ok {s : State} (h : Cnt s) (u : Nat) (f : Frame) (hok : (sendRaw s u f).2 = true) :
    Cnt (sendRaw s u f).1 := by
  unfold sendRaw at hok ⊢
  cases hm : s.find u with
  | none => simp [hm] at hok
  | some m =>
    simp only [hm] at hok ⊢
    by_cases hc : m.closed = true
    · simp [hc] at hok
    · have hc' : m.closed = false := by simpa using hc
      simp only [hc', Bool.false_eq_true, if_false] at hok ⊢
      have hfo : failOf (s.upd u fun m => { m with msgCount := m.msgCount + 1 }) u = failOf s u := rfl
      rw [hfo] at hok ⊢
      cases hf : failOf s u with
      | some x => cases x <;> simp [hf] at hok
      | none =>
        simp only []
        have hmu := find_uid hm
        refine ⟨fun v => ?_, fun v hv => ?_⟩
        · obtain ⟨n, hn1, hn2⟩ := h.seq v
          show ∃ n, countsOf (s.out ++ [Ev.send u (m.msgCount + 1) f]) v = iota n ∧ _
          rw [countsOf_append]
          by_cases hvu : v = u
          · subst hvu
            have hmn : m.msgCount = n := hn2 m hm hc'
            refine ⟨n + 1, ?_, fun m' hm' _ => ?_⟩
            · rw [hn1, iota_succ, hmn]; simp [countsOf]
            · rw [find_emit, find_upd_self s v (fun m => { m with msgCount := m.msgCount + 1 }) (fun _ => rfl) hm] at hm'
              cases hm'; simp [hmn]
          · refine ⟨n, ?_, fun m' hm' hcl => ?_⟩
            · have : countsOf [Ev.send u (m.msgCount + 1) f] v = [] := by
                unfold countsOf; simp; intro e; exact absurd e.symm hvu
              rw [this, hn1]; simp
            · rw [find_emit, find_upd s u v (fun m => { m with msgCount := m.msgCount + 1 }) (fun _ => rfl)] at hm'
              cases h0 : s.find v with
              | none => simp [h0] at hm'
              | some m0 =>
                have hv0 := find_uid h0
                have hne : (m0.uid == u) = false := by simp; rw [hv0]; exact hvu
                simp only [h0, Option.map_some, hne, Bool.false_eq_true, if_false, Option.some.injEq] at hm'
                subst hm'; exact hn2 m0 h0 hcl
        · have := h.fresh v hv
          have hvu : v ≠ u := by intro e; subst e; rw [hm] at this; cases this.2
          refine ⟨?_, ?_⟩
          · show countsOf (s.out ++ [Ev.send u (m.msgCount + 1) f]) v = []
            rw [countsOf_append, this.1]
            unfold countsOf; simp; intro e; exact absurd e.symm hvu
          · rw [find_emit, find_upd s u v (fun m => { m with msgCount := m.msgCount + 1 }) (fun _ => rfl), this.2]; rfl

/-- `Cnt`, except that the counter of `x` may be ahead (a write to `x` just failed; `x` is about to be closed) -/
structure CntEx (x : Nat) (s : State) : Prop where
  seq : ∀ u, ∃ n, countsOf s.out u = iota n ∧ (u ≠ x → ∀ m, s.find u = some m → m.closed = false → m.msgCount = n)
  fresh : ∀ u, s.nextUid < u → countsOf s.out u = [] ∧ s.find u = none

theorem Cnt.toEx {s : State} (h : Cnt s) (x : Nat) : CntEx x s :=
  ⟨fun u => by obtain ⟨n, h1, h2⟩ := h.seq u; exact ⟨n, h1, fun _ => h2⟩, h.fresh⟩

/-- whatever `sendRaw` does, at most the addressee's counter is ahead afterwards -/
theorem sendRaw_cntEx {s : State} (h : Cnt s) (u : Nat) (f : Frame) : CntEx u (sendRaw s u f).1 := by
  cases hok : (sendRaw s u f).2 with
  | true => exact (sendRaw_cnt_ok h u f hok).toEx u
  | false =>
    unfold sendRaw at hok ⊢
    cases hm : s.find u with
    | none => simp only [hm]; exact (cnt_crash h _).toEx u
    | some m =>
      simp only [hm] at hok ⊢
      by_cases hc : m.closed = true
      · simp only [hc, if_true]; exact (cnt_crash h _).toEx u
      · have hc' : m.closed = false := by simpa using hc
        simp only [hc', Bool.false_eq_true, if_false] at hok ⊢
        have hfo : failOf (s.upd u fun m => { m with msgCount := m.msgCount + 1 }) u = failOf s u := rfl
        rw [hfo] at hok ⊢
        have key : ∀ (s' : State), s'.out = s.out ++ (s'.out.drop s.out.length) →
            (∀ v, countsOf s'.out v = countsOf s.out v) → s'.nextUid = s.nextUid →
            (∀ v, s'.find v = (s.upd u fun m => { m with msgCount := m.msgCount + 1 }).find v) → CntEx u s' := by
          intro s' _ hcs hn hfind
          refine ⟨fun v => ?_, fun v hv => ?_⟩
          · obtain ⟨n, hn1, hn2⟩ := h.seq v
            refine ⟨n, by rw [hcs]; exact hn1, fun hvu m' hm' hcl => ?_⟩
            rw [hfind, find_upd s u v (fun m => { m with msgCount := m.msgCount + 1 }) (fun _ => rfl)] at hm'
            cases h0 : s.find v with
            | none => simp [h0] at hm'
            | some m0 =>
              have hv0 := find_uid h0
              have hne : (m0.uid == u) = false := by simp; rw [hv0]; exact hvu
              simp only [h0, Option.map_some, hne, Bool.false_eq_true, if_false, Option.some.injEq] at hm'
              subst hm'; exact hn2 m0 h0 hcl
          · rw [hn] at hv
            have := h.fresh v hv
            refine ⟨by rw [hcs]; exact this.1, ?_⟩
            rw [hfind, find_upd s u v (fun m => { m with msgCount := m.msgCount + 1 }) (fun _ => rfl), this.2]; rfl
        cases hf : failOf s u with
        | none => simp [hf] at hok
        | some x =>
          cases x
          · exact key _ (by simp [State.emit, State.upd]) (fun v => by
              show countsOf (s.out ++ [Ev.wfail u]) v = _; rw [countsOf_append]; simp [countsOf]) rfl (fun v => rfl)
          · exact key _ (by simp [State.emit, State.upd]) (fun v => by
              show countsOf ((s.out ++ [Ev.partialW u]) ++ [Ev.wfail u]) v = _
              rw [countsOf_append, countsOf_append]; simp [countsOf]) rfl (fun v => rfl)

/-- closing `x` resolves the exemption -/
theorem removePrep_cnt {x : Nat} {s : State} (h : CntEx x s) (m : Module) : Cnt (removePrep s x m) := by
  have hfind := removePrep_find s x m
  have hout : ∀ v, countsOf (removePrep s x m).out v = countsOf s.out v := by
    intro v; unfold removePrep; dsimp only; split
    · rfl
    · show countsOf (s.out ++ [Ev.close x]) v = _; rw [countsOf_append]; simp [countsOf]
  have hn : (removePrep s x m).nextUid = s.nextUid := by unfold removePrep; dsimp only; split <;> rfl
  refine ⟨fun v => ?_, fun v hv => ?_⟩
  · obtain ⟨n, hn1, hn2⟩ := h.seq v
    refine ⟨n, by rw [hout]; exact hn1, fun m' hm' hcl => ?_⟩
    rw [hfind] at hm'
    cases h0 : s.find v with
    | none => simp [h0] at hm'
    | some m0 =>
      have hv0 := find_uid h0
      simp only [h0, Option.map_some, Option.some.injEq] at hm'
      by_cases hvx : v = x
      · subst hvx
        have : (m0.uid == v) = true := by simp [hv0]
        simp only [this, if_true] at hm'; subst hm'; simp at hcl
      · have hne : (m0.uid == x) = false := by simp; rw [hv0]; exact hvx
        simp only [hne, Bool.false_eq_true, if_false] at hm'; subst hm'
        exact hn2 hvx m0 h0 hcl
  · rw [hn] at hv
    have := h.fresh v hv
    exact ⟨by rw [hout]; exact this.1, by rw [hfind, this.2]; rfl⟩

theorem cnt_dropMod {s : State} (h : Cnt s) (u : Nat) : Cnt { s with mods := s.mods.filter (·.uid != u) } := by
  refine cnt_of_same h rfl rfl (fun v m' hm' hc => ?_) (fun v hv => ?_)
  · by_cases hvu : v = u
    · subst hvu
      have : (s.mods.filter (·.uid != v)).find? (·.uid == v) = none := find_filter_eq _ _
      have hm'' : (s.mods.filter (·.uid != v)).find? (·.uid == v) = some m' := hm'
      rw [this] at hm''; cases hm''
    · have hm'' : (s.mods.filter (·.uid != u)).find? (·.uid == v) = some m' := hm'
      rw [find_filter_ne _ _ _ hvu] at hm''
      exact ⟨m', hm'', hc, rfl⟩
  · by_cases hvu : v = u
    · subst hvu; exact find_filter_eq _ _
    · show (s.mods.filter (·.uid != u)).find? (·.uid == v) = none
      rw [find_filter_ne _ _ _ hvu]; exact hv

/-- the nested-forward contract for the counters (on top of the crash-freedom contract) -/
def CntSafe (cfg : Cfg) (fwd : Fwd) (n : Nat) : Prop :=
  ∀ s g, Good cfg s → Cnt s → need cfg s g ≤ n → Cnt (fwd s g)

section chain
variable {cfg : Cfg} (ok : CfgOK cfg) {fwd : Fwd} {n : Nat} (hs : Safe cfg fwd n) (hc : CntSafe cfg fwd n)
include ok hs hc

theorem logAt_cnt2 (lvl : Nat) {s : State} (h : Good cfg s) (hcn : Cnt s) (hb : 2 * live s + 1 ≤ n) :
    Cnt (logAt cfg fwd lvl s) := by
  unfold logAt; split
  · exact hc s _ h hcn (by rw [need_log cfg ok]; exact hb)
  · exact hcn

theorem removeModule_cnt2 {s : State} (h : Good cfg s) {x : Nat} (hx : CntEx x s) (m : Module) (hm : s.find x = some m)
    (hcl : m.closed = false) (hb : 2 * live s ≤ n) : Cnt (removeModule cfg fwd s x) := by
  unfold removeModule
  simp only [hm]
  obtain ⟨h3, hl3, _, _, _⟩ := removePrep_good h x m hm hcl
  obtain ⟨g3l, st3l⟩ := logAt_safe ok hs 10 h3 (by omega)
  have hl3l := st3l.live
  have c3l := logAt_cnt2 ok hs hc 10 h3 (removePrep_cnt hx m) (by omega)
  have := hc (logAt cfg fwd 10 (removePrep s x m)) (closedFrame cfg { m with connected := false }) g3l c3l
    (by rw [need_closed cfg ok]; omega)
  exact cnt_dropMod this x

theorem failedMsg_cnt2 {s : State} (h : Good cfg s) (hcn : Cnt s) (d : Int) (f : Frame)
    (hb : 2 * live s + gcost cfg f ≤ n) : Cnt (failedMsg cfg fwd s d f) := by
  unfold failedMsg; split
  · exact hcn
  · rename_i hg
    have : gcost cfg f = 1 := by unfold gcost; simp [hg]
    exact hc s _ h hcn (by rw [need_failed cfg ok]; omega)

theorem trySend_cnt2 {s : State} (h : Good cfg s) (hcn : Cnt s) (u : Nat) (f : Frame) (m : Module)
    (hm : s.find u = some m) (hcl : m.closed = false) (hb : 2 * live s + gcost cfg f ≤ n) :
    Cnt (trySend cfg fwd s u f) := by
  unfold trySend
  dsimp only
  obtain ⟨g1, st1⟩ := sendRaw_good h u f m hm hcl
  obtain ⟨m1, hm1, hc1, _⟩ := sendRaw_find (s := s) u f m hm hcl
  have hex := sendRaw_cntEx hcn u f
  have hokc := fun hok => sendRaw_cnt_ok hcn u f hok
  generalize hsr : sendRaw s u f = r at g1 st1 hm1 hex hokc
  obtain ⟨s1, okb⟩ := r
  simp only at g1 st1 hm1 hex hokc ⊢
  cases okb with
  | true =>
    simp only [if_true]
    exact cnt_upd (hokc rfl) u (fun m => { m with drops := 0 }) (fun _ => rfl) (fun _ hc => ⟨hc, rfl⟩)
  | false =>
    simp only [Bool.false_eq_true, if_false]
    have hcr : s1.crashed.isSome = false := by rw [g1.ok]; rfl
    simp only [hcr, Bool.false_eq_true, if_false]
    have hl1 := st1.live
    have c2 := removeModule_cnt2 ok hs hc g1 hex m1 hm1 hc1 (by omega)
    obtain ⟨g2, st2, hl2⟩ := removeModule_safe ok hs g1 u m1 hm1 hc1 (by omega)
    have c3 := logAt_cnt2 ok hs hc 40 g2 c2 (by omega)
    obtain ⟨g3, st3⟩ := logAt_safe ok hs 40 g2 (by omega)
    have hl3 := st3.live
    exact failedMsg_cnt2 ok hs hc g3 c3 _ f (by omega)

theorem deliverOne_cnt2 {s : State} (h : Good cfg s) (hcn : Cnt s) (f : Frame) (u : Nat)
    (hopen : ∀ m, s.find u = some m → m.closed = false) (hb : 2 * live s + gcost cfg f ≤ n) :
    Cnt (deliverOne cfg fwd f s u) := by
  unfold deliverOne
  cases hm : s.find u with
  | none => exact hcn
  | some m =>
    simp only
    have hcl := hopen m hm
    split
    · split
      · exact trySend_cnt2 ok hs hc h hcn u f m hm hcl hb
      · exact hcn
    · split
      · exact trySend_cnt2 ok hs hc h hcn u f m hm hcl hb
      · have h1 := good_upd h u (fun m => { m with drops := m.drops + 1 }) (fun _ => rfl) (fun _ => rfl) (fun _ => rfl)
        have c1 := cnt_upd hcn u (fun m => { m with drops := m.drops + 1 }) (fun _ => rfl) (fun _ hc => ⟨hc, rfl⟩)
        have hl := h1.2.live
        exact failedMsg_cnt2 ok hs hc h1.1 c1 m.modId f (by omega)

theorem deliver_cnt2 (f : Frame) : ∀ (rs : List Nat) {s : State}, Good cfg s → Cnt s →
    (∀ u ∈ rs, ∀ m, s.find u = some m → m.closed = false) → 2 * live s + gcost cfg f ≤ n →
    Cnt (deliver cfg fwd f rs s)
  | [], _, _, hcn, _, _ => hcn
  | u :: rest, s, h, hcn, hopen, hb => by
    unfold deliver
    obtain ⟨g1, st1⟩ := deliverOne_safe ok hs h f u (hopen u (by simp)) hb
    have c1 := deliverOne_cnt2 ok hs hc h hcn f u (hopen u (by simp)) hb
    have hl := st1.live
    have hopen' : ∀ v ∈ rest, ∀ m, (deliverOne cfg fwd f s u).find v = some m → m.closed = false := by
      intro v hv m' hm'
      cases hcl : m'.closed with
      | false => rfl
      | true =>
        obtain ⟨m0, hm0, c0⟩ := st1.nnc v m' hm' hcl
        have := hopen v (by simp [hv]) m0 hm0
        rw [this] at c0; cases c0
    exact deliver_cnt2 f rest g1 c1 hopen' (by omega)

end chain

theorem forward_cnt {cfg : Cfg} (ok : CfgOK cfg) : ∀ n, CntSafe cfg (forward cfg n) n
  | 0 => fun s g _ _ hn => by unfold need at hn; omega
  | n + 1 => fun s g h hcn hn => by
    have ih := forward_cnt ok n
    have ihs := forward_safe ok n
    unfold forward
    simp only [h.ok, Option.isSome_none, Bool.false_eq_true, if_false]
    obtain ⟨gc, stc⟩ := good_count h g.mtype
    have cc := cnt_count (cfg := cfg) hcn g.mtype
    have hlc : live (countMsg cfg s g.mtype) = live s := by unfold live countMsg; split <;> rfl
    have hoor : oor cfg g = ((g.dest < 0 || g.dest > cfg.maxModules) || (g.destHost < 0 || g.destHost > cfg.maxHosts)) := rfl
    unfold need at hn
    by_cases h1 : (g.dest < 0 || g.dest > cfg.maxModules) = true
    · simp only [h1, if_true]
      have : oor cfg g = true := by rw [hoor, h1]; rfl
      rw [this] at hn
      exact logAt_cnt2 ok ihs ih 40 gc cc (by rw [hlc]; simp at hn; omega)
    · have h1' : (g.dest < 0 || g.dest > cfg.maxModules) = false := by simpa using h1
      simp only [h1', Bool.false_eq_true, if_false]
      by_cases h2 : (g.destHost < 0 || g.destHost > cfg.maxHosts) = true
      · simp only [h2, if_true]
        have : oor cfg g = true := by rw [hoor, h1', h2]; rfl
        rw [this] at hn
        exact logAt_cnt2 ok ihs ih 40 gc cc (by rw [hlc]; simp at hn; omega)
      · have h2' : (g.destHost < 0 || g.destHost > cfg.maxHosts) = false := by simpa using h2
        simp only [h2', Bool.false_eq_true, if_false]
        exact deliver_cnt2 ok ihs ih g (recipients cfg (countMsg cfg s g.mtype) g.mtype) gc cc
          (recipients_open ok gc g.mtype) (by rw [hlc]; omega)

theorem fwdTop_cnt {cfg : Cfg} (ok : CfgOK cfg) (hfuel : cfg.fuel = 0) {s : State} (h : Good cfg s) (hcn : Cnt s)
    (g : Frame) : Cnt (fwdTop cfg s g) := by
  unfold fwdTop fuelOf autoFuel
  simp only [hfuel, beq_self_eq_true, if_true]
  refine forward_cnt ok _ s g h hcn ?_
  unfold need gcost
  have := live_le_length s
  split <;> split <;> omega

theorem fwdTop_CntSafe {cfg : Cfg} (ok : CfgOK cfg) (hfuel : cfg.fuel = 0) (n : Nat) : CntSafe cfg (fwdTop cfg) n :=
  fun _ g h hcn _ => fwdTop_cnt ok hfuel h hcn g

/-! ## top level -/

structure Top2 (cfg : Cfg) (s : State) : Prop where
  top : Top cfg s
  cnt : Cnt s

section top
variable {cfg : Cfg} (ok : CfgOK cfg) (hfuel : cfg.fuel = 0)
include ok hfuel

theorem t2_fwd {s : State} (h : Top2 cfg s) (g : Frame) : Top2 cfg (fwdTop cfg s g) :=
  ⟨top_fwd ok hfuel h.top g, fwdTop_cnt ok hfuel h.top.good h.cnt g⟩

theorem t2_log {s : State} (h : Top2 cfg s) (lvl : Nat) : Top2 cfg (logAt cfg (fwdTop cfg) lvl s) := by
  unfold logAt; split
  · exact t2_fwd ok hfuel h _
  · exact h

theorem t2_remove {s : State} (h : Top2 cfg s) (u : Nat) : Top2 cfg (removeModule cfg (fwdTop cfg) s u) := by
  refine ⟨top_remove ok hfuel h.top u, ?_⟩
  cases hm : s.find u with
  | none => unfold removeModule; simp only [hm]; exact h.cnt
  | some m =>
    exact removeModule_cnt2 ok (fwdTop_Safe ok hfuel (2 * live s)) (fwdTop_CntSafe ok hfuel (2 * live s)) h.top.good
      (h.cnt.toEx u) m hm (h.top.aopen u m hm) (Nat.le_refl _)

theorem t2_trySend {s : State} (h : Top2 cfg s) (u : Nat) (f : Frame) (m : Module) (hm : s.find u = some m) :
    Top2 cfg (trySend cfg (fwdTop cfg) s u f) :=
  ⟨top_trySend ok hfuel h.top u f m hm,
   trySend_cnt2 ok (fwdTop_Safe ok hfuel _) (fwdTop_CntSafe ok hfuel _) h.top.good h.cnt u f m hm (h.top.aopen u m hm) (Nat.le_refl _)⟩

theorem t2_toLoggers (f : Frame) : ∀ (ls : List Nat) {s : State}, Top2 cfg s → Top2 cfg (toLoggers cfg f ls s)
  | [], _, h => h
  | u :: rest, s, h => by
    unfold toLoggers
    apply t2_toLoggers f rest
    unfold loggerOne
    cases hm : s.find u with
    | none => exact h
    | some m => exact t2_trySend ok hfuel h u f m hm

theorem t2_sendAck {s : State} (h : Top2 cfg s) (u : Nat) : Top2 cfg (sendAck cfg s u) := by
  unfold sendAck
  cases hm : s.find u with
  | none => exact h
  | some m => exact t2_toLoggers ok hfuel _ _ (t2_trySend ok hfuel h u _ m hm)

theorem t2_upd {s : State} (h : Top2 cfg s) (u : Nat) (f : Module → Module)
    (hu : ∀ m, (f m).uid = m.uid) (hs : ∀ m, (f m).subs = m.subs) (hc : ∀ m, (f m).closed = m.closed)
    (hk : ∀ m, (f m).msgCount = m.msgCount) : Top2 cfg (s.upd u f) :=
  ⟨top_upd ok hfuel h.top u f hu hs hc, cnt_upd h.cnt u f hu (fun m hcl => ⟨by rw [← hc]; exact hcl, hk m⟩)⟩

theorem t2_same {s : State} (h : Top2 cfg s) (s' : State) (hm : s'.mods = s.mods) (hi : s'.idx = s.idx)
    (hc : s'.crashed = s.crashed) (ho : s'.out = s.out) (hn : s'.nextUid = s.nextUid) : Top2 cfg s' :=
  ⟨top_same ok hfuel h.top s' hm hi hc, cnt_misc h.cnt s' hm ho hn⟩

omit ok hfuel in
theorem setReq_cnt (cfg : Cfg) (buf : List Nat) (h : Hdr) (x : Module) :
    (setReq cfg buf h x).closed = x.closed ∧ (setReq cfg buf h x).msgCount = x.msgCount := by
  unfold setReq; split <;> exact ⟨rfl, rfl⟩

theorem t2_clashLoop (me : Module) : ∀ (os : List Module) {s : State}, Top2 cfg s → Top2 cfg (clashLoop cfg me os s).1
  | [], _, h => h
  | o :: rest, s, h => by
    unfold clashLoop
    split
    · exact h
    · apply t2_clashLoop me rest
      split
      · exact h
      · exact t2_log ok hfuel h 10

theorem t2_connect {s : State} (h : Top2 cfg s) (u : Nat) (hd : Hdr) : Top2 cfg (connectModule cfg s u hd).1 := by
  unfold connectModule
  dsimp only
  split
  · exact h
  · split
    · exact t2_remove ok hfuel (t2_log ok hfuel (t2_upd ok hfuel h u (setReq cfg s.buf hd)
        (fun m => (setReq_keeps cfg s.buf hd m).1) (fun m => (setReq_keeps cfg s.buf hd m).2)
        (fun m => (setReq_cnt cfg s.buf hd m).1) (fun m => (setReq_cnt cfg s.buf hd m).2)) 40) u
    · rename_i nm _
      have h1 := t2_upd ok hfuel h u (setAll cfg s.buf hd nm) (fun m => (setAll_keeps cfg s.buf hd nm m).1)
        (fun m => (setAll_keeps cfg s.buf hd nm m).2) (fun m => by unfold setAll; exact (setReq_cnt cfg s.buf hd m).1)
        (fun m => by unfold setAll; exact (setReq_cnt cfg s.buf hd m).2)
      split
      · split
        · exact t2_remove ok hfuel (t2_log ok hfuel h1 40) u
        · have hl := t2_clashLoop ok hfuel (setAll cfg s.buf hd nm (lookupMod s u))
            ((s.upd u (setAll cfg s.buf hd nm)).mods.filter (·.uid != u)) h1
          generalize clashLoop cfg (setAll cfg s.buf hd nm (lookupMod s u))
            ((s.upd u (setAll cfg s.buf hd nm)).mods.filter (·.uid != u)) (s.upd u (setAll cfg s.buf hd nm)) = r at hl
          obtain ⟨s2, cl⟩ := r
          dsimp only at hl ⊢
          split
          · exact t2_remove ok hfuel (t2_log ok hfuel hl 40) u
          · exact t2_same ok hfuel (t2_upd ok hfuel hl u (fun m => { m with connected := true })
              (fun _ => rfl) (fun _ => rfl) (fun _ => rfl) (fun _ => rfl)) _ rfl rfl rfl rfl rfl
      · split
        · exact t2_remove ok hfuel (t2_log ok hfuel h1 40) u
        · rename_i id off _
          have h2 : Top2 cfg ({ (s.upd u (setAll cfg s.buf hd nm)) with nextDyn := off } : State) :=
            t2_same ok hfuel h1 _ rfl rfl rfl rfl rfl
          exact t2_same ok hfuel (t2_upd ok hfuel h2 u (fun m => { m with modId := id, connected := true })
            (fun _ => rfl) (fun _ => rfl) (fun _ => rfl) (fun _ => rfl)) _ rfl rfl rfl rfl rfl

theorem t2_infoOf {s : State} (h : Top2 cfg s) (m : Module) : Top2 cfg (infoOf cfg s m) := by
  unfold infoOf; exact t2_fwd ok hfuel (t2_log ok hfuel h 10) _

theorem t2_sendInfo {s : State} (h : Top2 cfg s) (u : Nat) : Top2 cfg (sendInfo cfg s u) := by
  unfold sendInfo; split
  · exact h
  · exact t2_infoOf ok hfuel h _

omit ok hfuel in
theorem cnt_setSubs {s : State} (h : Cnt s) (i : List (Int × List Nat)) (u : Nat) (l : List Int) :
    Cnt (({ s with idx := i } : State).setSubs u l) := by
  have h1 : Cnt ({ s with idx := i } : State) := cnt_misc h _ rfl rfl rfl
  exact cnt_upd h1 u (fun m => { m with subs := l }) (fun _ => rfl) (fun _ hc => ⟨hc, rfl⟩)

theorem t2_addSubCore {s : State} (h : Top2 cfg s) (u : Nat) (t : Int) (m : Module) (hm : s.find u = some m) :
    Top2 cfg (addSubCore cfg s u t) := by
  refine ⟨top_addSubCore ok hfuel h.top u t m hm, ?_⟩
  unfold addSubCore; dsimp only
  split
  · exact cnt_setSubs h.cnt _ u _
  · split
    · exact h.cnt
    · exact cnt_setSubs h.cnt _ u _

theorem t2_addSub {s : State} (h : Top2 cfg s) (u : Nat) (t : Int) (m : Module) (hm : s.find u = some m) :
    Top2 cfg (addSub cfg s u t) := by
  unfold addSub; split
  · exact t2_log ok hfuel (t2_addSubCore ok hfuel h u t m hm) 10
  · exact t2_addSubCore ok hfuel h u t m hm

theorem t2_removeSubCore {s : State} (h : Top2 cfg s) (u : Nat) (t : Int) (m : Module) (hm : s.find u = some m) :
    Top2 cfg (removeSubCore cfg s u t) := by
  refine ⟨top_removeSubCore ok hfuel h.top u t m hm, ?_⟩
  unfold removeSubCore; dsimp only
  split
  · exact cnt_setSubs h.cnt _ u _
  · split
    · exact h.cnt
    · exact cnt_setSubs h.cnt _ u _

theorem t2_removeSub {s : State} (h : Top2 cfg s) (u : Nat) (t : Int) (m : Module) (hm : s.find u = some m) :
    Top2 cfg (removeSub cfg s u t) := by
  unfold removeSub; split
  · exact t2_log ok hfuel (t2_removeSubCore ok hfuel h u t m hm) 10
  · exact t2_removeSubCore ok hfuel h u t m hm

theorem t2_process {s : State} (h : Top2 cfg s) (u : Nat) (m : Module) (hm : s.find u = some m) (hd : Hdr) :
    Top2 cfg (processMessage cfg s u hd) := by
  unfold processMessage
  dsimp only
  split
  · have hc := t2_connect ok hfuel h u hd
    generalize connectModule cfg s u hd = r at hc
    obtain ⟨s1, okb⟩ := r
    simp only at hc ⊢
    split
    · exact t2_log ok hfuel (t2_infoOf ok hfuel (t2_sendAck ok hfuel hc u) _) 20
    · exact hc
  · split
    · exact t2_log ok hfuel (t2_remove ok hfuel h u) 20
    · split
      · exact t2_sendAck ok hfuel (t2_addSub ok hfuel h u (bufI32 s.buf 0) m hm) u
      · split
        · exact t2_sendAck ok hfuel (t2_removeSub ok hfuel h u (bufI32 s.buf 0) m hm) u
        · split
          · split
            · exact t2_remove ok hfuel (t2_log ok hfuel h 40) u
            · rename_i nm _
              exact t2_infoOf ok hfuel (t2_log ok hfuel
                (t2_upd ok hfuel h u (fun m => { m with name := nm }) (fun _ => rfl) (fun _ => rfl) (fun _ => rfl) (fun _ => rfl)) 20) _
          · split
            · exact t2_sendInfo ok hfuel (t2_upd ok hfuel h u (fun m => { m with pid := bufI32 s.buf 0 })
                (fun _ => rfl) (fun _ => rfl) (fun _ => rfl) (fun _ => rfl)) u
            · exact t2_fwd ok hfuel (t2_log ok hfuel h 10) _

theorem t2_readOne {s : State} (h : Top2 cfg s) (r : Read) : Top2 cfg (readOne cfg s r) := by
  unfold readOne
  split
  · exact h
  · split
    · exact h
    · rename_i m hm
      have he : Top2 cfg (s.emit (.rd r.uid)) :=
        ⟨top_of h.top (good_emit h.top.good _), cnt_emit h.cnt _ (by intro v c f e; cases e)⟩
      dsimp only
      split
      · exact t2_log ok hfuel (t2_remove ok hfuel he _) 40
      · split
        · exact t2_log ok hfuel (t2_remove ok hfuel he _) 30
        · split
          · exact t2_log ok hfuel (t2_remove ok hfuel he _) 30
          · split
            · split
              · exact t2_log ok hfuel (t2_remove ok hfuel he _) 40
              · split
                · exact t2_log ok hfuel (t2_remove ok hfuel
                    (t2_same ok hfuel he { (s.emit (.rd r.uid)) with buf := bufWrite (s.emit (.rd r.uid)).buf r.pay r.avail } rfl rfl rfl rfl rfl) _) 30
                · exact t2_process ok hfuel
                    (t2_same ok hfuel he { (s.emit (.rd r.uid)) with buf := bufWrite (s.emit (.rd r.uid)).buf r.pay r.h.nbytes.toNat } rfl rfl rfl rfl rfl)
                    _ m hm _
            · exact t2_process ok hfuel he _ m hm _

theorem t2_readAll : ∀ (rs : List Read) {s : State}, Top2 cfg s → Top2 cfg (readAll cfg rs s)
  | [], _, h => h
  | r :: rest, _, h => by unfold readAll; exact t2_readAll rest (t2_readOne ok hfuel h r)

theorem t2_foldl_fwd : ∀ (fs : List Frame) {s : State}, Top2 cfg s → Top2 cfg (fs.foldl (fwdTop cfg) s)
  | [], _, h => h
  | f :: rest, _, h => by simp only [List.foldl_cons]; exact t2_foldl_fwd rest (t2_fwd ok hfuel h f)

theorem t2_infoAll : ∀ (ms : List Module) {s : State}, Top2 cfg s → Top2 cfg (infoAll cfg ms s)
  | [], _, h => h
  | m :: rest, _, h => by unfold infoAll; exact t2_infoAll rest (t2_infoOf ok hfuel h _)

theorem t2_accept {s : State} (h : Top2 cfg s) : Top2 cfg (acceptStep cfg s) := by
  refine ⟨top_accept ok hfuel h.top, ?_⟩
  unfold acceptStep
  dsimp only
  have hl := t2_log ok hfuel h 20
  generalize logAt cfg (fwdTop cfg) 20 s = s1 at hl
  have c1 := hl.cnt
  have hfr := c1.fresh (s1.nextUid + 1) (Nat.lt_succ_self _)
  refine ⟨fun v => ?_, fun v hv => ?_⟩
  · obtain ⟨n, hn1, hn2⟩ := c1.seq v
    refine ⟨n, hn1, fun m' hm' hcl => ?_⟩
    have hm'' : (s1.mods ++ [({ uid := s1.nextUid + 1 } : Module)]).find? (·.uid == v) = some m' := hm'
    rw [List.find?_append] at hm''
    cases h0 : s1.mods.find? (·.uid == v) with
    | some m0 => rw [h0] at hm''; simp at hm''; subst hm''; exact hn2 m0 h0 hcl
    | none =>
      rw [h0] at hm''; simp at hm''
      obtain ⟨hv1, rfl⟩ := hm''
      have : v = s1.nextUid + 1 := hv1.symm
      subst this
      rw [hfr.1] at hn1
      cases n with
      | zero => rfl
      | succ k => rw [iota_succ] at hn1; simp at hn1
  · have hv' : s1.nextUid < v := by show s1.nextUid < v; exact Nat.lt_of_succ_lt hv
    have := c1.fresh v hv'
    refine ⟨this.1, ?_⟩
    show (s1.mods ++ [({ uid := s1.nextUid + 1 } : Module)]).find? (·.uid == v) = none
    rw [List.find?_append]
    have h0 : s1.mods.find? (·.uid == v) = none := this.2
    rw [h0]; simp
    intro e
    have : s1.nextUid + 1 < v := hv
    omega

theorem t2_io {s : State} (h : Top2 cfg s) (a : Bool) (w : List Nat) (rs : List Read) : Top2 cfg (ioStep cfg s a w rs) := by
  unfold ioStep
  split
  · dsimp only
    apply t2_readAll ok hfuel
    split
    · exact t2_same ok hfuel (t2_accept ok hfuel h) _ rfl rfl rfl rfl rfl
    · exact t2_same ok hfuel h _ rfl rfl rfl rfl rfl
  · exact h

theorem t2_ticks {s : State} (h : Top2 cfg s) : Top2 cfg (ticks cfg s) := by
  unfold ticks
  dsimp only
  have h1 : Top2 cfg (if (cfg.timing && decide (s.now - s.tTiming > cfg.pTiming)) = true then
      { sendTiming cfg s with tTiming := s.now } else s) := by
    split
    · unfold sendTiming; dsimp only
      have a1 : Top2 cfg ({ s with counts := [], inTraffic := true } : State) := t2_same ok hfuel h _ rfl rfl rfl rfl rfl
      have a2 := t2_fwd ok hfuel a1 (mgrFrame cfg.mtTiming 0 cfg.szTiming (Body.timing (timingEntries cfg s.counts) (pidEntries s.mods)))
      exact t2_same ok hfuel (t2_same ok hfuel a2 _ rfl rfl rfl rfl rfl) _ rfl rfl rfl rfl rfl
    · exact h
  generalize (if (cfg.timing && decide (s.now - s.tTiming > cfg.pTiming)) = true then
      { sendTiming cfg s with tTiming := s.now } else s) = s1 at h1 ⊢
  have h2 : Top2 cfg (if s1.now - s1.tTraffic > cfg.pTraffic then sendTraffic cfg s1 else s1) := by
    split
    · unfold sendTraffic; dsimp only
      have a1 : Top2 cfg ({ s1 with inTraffic := true } : State) := t2_same ok hfuel h1 _ rfl rfl rfl rfl rfl
      have a1' := t2_log ok hfuel a1 10
      generalize logAt cfg (fwdTop cfg) 10 ({ s1 with inTraffic := true } : State) = s1' at a1'
      have a2 := t2_foldl_fwd ok hfuel (trafficFrames cfg s1'.trafficSeq s1'.traffic) a1'
      exact t2_same ok hfuel a2 _ rfl rfl rfl rfl rfl
    · exact h1
  generalize (if s1.now - s1.tTraffic > cfg.pTraffic then sendTraffic cfg s1 else s1) = s2 at h2 ⊢
  split
  · unfold sendActive; dsimp only
    have a0 := t2_log ok hfuel h2 10
    generalize logAt cfg (fwdTop cfg) 10 s2 = s3 at a0
    have a1 := t2_infoAll ok hfuel s3.mods a0
    have a2 := t2_fwd ok hfuel a1 (mgrFrame cfg.mtActive 0 cfg.szActive
      (Body.active (((infoAll cfg s3.mods s3).mods.length : Int) - 1) (trimZeros ((s3.mods.take cfg.maxActive).map (·.modId)))
        (trimZeros ((s3.mods.take cfg.maxActive).map (·.pid)))))
    exact t2_same ok hfuel a2 _ rfl rfl rfl rfl rfl
  · exact h2

theorem t2_step {s : State} (h : Top2 cfg s) (r : Round) : Top2 cfg (step cfg s r) := by
  unfold step
  split
  · exact h
  · dsimp only
    have h0 : Top2 cfg (envStep s r) := by unfold envStep; exact t2_same ok hfuel h _ rfl rfl rfl rfl rfl
    exact t2_ticks ok hfuel (t2_io ok hfuel h0 _ _ _)

theorem t2_init : Top2 cfg (init cfg) := by
  unfold init
  apply t2_log ok hfuel
  refine ⟨?_, ⟨fun u => ⟨0, rfl, fun m hm _ => ?_⟩, fun u hu => ⟨rfl, ?_⟩⟩⟩
  · -- `Top` of the initial table (as in `top_init`, before the log line)
    refine ⟨⟨?_, fun u m hm c => ?_, rfl⟩, fun u m hm => ?_⟩
    · refine ⟨fun t u hu => by simp [idxGet] at hu, fun t => by simp [idxGet], fun u m hm ha => ?_⟩
      simp only [State.find, List.find?_cons, List.find?_nil] at hm
      split at hm
      · cases hm; simp at ha
      · cases hm
    · simp only [State.find, List.find?_cons, List.find?_nil] at hm
      split at hm
      · cases hm; simp at c
      · cases hm
    · simp only [State.find, List.find?_cons, List.find?_nil] at hm
      split at hm
      · cases hm; rfl
      · cases hm
  · simp only [State.find, List.find?_cons, List.find?_nil] at hm
    split at hm
    · cases hm; rfl
    · cases hm
  · simp only [State.find, List.find?_cons, List.find?_nil]
    have : ((0:Nat) == u) = false := by simp; show ¬ 0 = u; intro e; rw [← e] at hu; exact Nat.lt_irrefl 0 hu
    simp [this]

/-- **Gap-free sequence numbers, in every reachable state, on every connection** — including connections that are
gone: the `msg_count` values of the frames ever written to uid `u` are exactly 1, 2, …, n, whatever mix of client
traffic, acknowledgements, failure notices, log and periodic manager messages went to it, and for a module still in the
table n is its counter. -/
theorem seq_gap_free (rs : List Round) (u : Nat) :
    ∃ n, countsOf (run cfg rs).out u = iota n ∧
      ∀ m, (run cfg rs).find u = some m → m.msgCount = n := by
  have : ∀ (rs : List Round) (s : State), Top2 cfg s → Top2 cfg (rs.foldl (step cfg) s) := by
    intro rs; induction rs with
    | nil => intro s h; exact h
    | cons r rs ih => intro s h; exact ih _ (t2_step ok hfuel h r)
  have h := this rs _ (t2_init ok hfuel)
  obtain ⟨n, h1, h2⟩ := h.cnt.seq u
  exact ⟨n, h1, fun m hm => h2 m hm (h.top.aopen u m hm)⟩

end top

end Pyrtma.Mgr
