import Pyrtma.Proofs.Manager
/-! Module identity in the manager model M1, globally: in every reachable state no two connected modules hold the same
    non-zero id unless both allow multiple instances, and the table never lists a connection twice.
    No side condition (neither the index invariant nor fuel adequacy is needed). -/
namespace Pyrtma.Mgr

/-- no two connected modules hold the same non-zero id unless both allow multiple instances -/
def IdInv (s : State) : Prop :=
  ∀ a b, a ∈ s.mods → b ∈ s.mods → a.uid ≠ b.uid → a.connected = true → b.connected = true →
    a.modId = b.modId → a.modId ≠ 0 → a.unique = false ∧ b.unique = false

theorem mem_of_find {s : State} {u : Nat} {m : Module} (h : s.find u = some m) : m ∈ s.mods := by
  unfold State.find at h; exact List.mem_of_find?_eq_some h

/-- uids in the table are pairwise distinct (each accept creates a fresh uid) -/
def UidsDistinct (s : State) : Prop := (s.mods.map (·.uid)).Nodup

theorem find_of_mem {s : State} (hd : UidsDistinct s) {m : Module} (h : m ∈ s.mods) : s.find m.uid = some m := by
  unfold State.find UidsDistinct at *
  generalize s.mods = l at *
  induction l with
  | nil => cases h
  | cons a l ih =>
    simp only [List.map_cons, List.nodup_cons] at hd
    simp only [List.find?_cons]
    cases h with
    | head => simp
    | tail _ h' =>
      have : a.uid ≠ m.uid := by
        intro e; apply hd.1; rw [e]; exact List.mem_map.mpr ⟨m, h', rfl⟩
      have hf : (a.uid == m.uid) = false := by simpa using this
      rw [hf]; exact ih hd.2 h'

/-- what `IdInv` reads of a module survives: id and uniqueness flag unchanged, nothing gets connected -/
def IdShrink (s s' : State) : Prop :=
  ∀ u m', s'.find u = some m' → ∃ m, s.find u = some m ∧ m'.modId = m.modId ∧ m'.unique = m.unique ∧
    (m'.connected = true → m.connected = true)

/-- `s'` is reached from `s` without connecting anything, changing an id or a uniqueness flag, or adding a table entry -/
structure R (s s' : State) : Prop where
  shr : IdShrink s s'
  uids : (s'.mods.map (·.uid)).Sublist (s.mods.map (·.uid))
  nuid : s'.nextUid = s.nextUid

theorem R.refl (s : State) : R s s := ⟨fun _ m h => ⟨m, h, rfl, rfl, id⟩, List.Sublist.refl _, rfl⟩

theorem R.trans {a b c : State} (h1 : R a b) (h2 : R b c) : R a c :=
  ⟨fun u m'' h => by
     obtain ⟨m', hm', e1, e2, e3⟩ := h2.shr u m'' h
     obtain ⟨m, hm, f1, f2, f3⟩ := h1.shr u m' hm'
     exact ⟨m, hm, e1.trans f1, e2.trans f2, fun x => f3 (e3 x)⟩,
   h2.uids.trans h1.uids, h2.nuid.trans h1.nuid⟩

theorem R_of_pres {s s' : State} (h : Pres s s') : R s s' :=
  ⟨fun u m' hm' => by
     obtain ⟨m, hm, hi, hc⟩ := h.sub u m' hm'
     unfold Module.ident at hi
     simp only [Prod.mk.injEq] at hi
     exact ⟨m, hm, hi.2.1, hi.2.2.1, hc⟩,
   h.uids, h.nuid⟩

theorem R_same {s s' : State} (hm : s'.mods = s.mods) (hn : s'.nextUid = s.nextUid) : R s s' :=
  ⟨fun u m' h => ⟨m', by unfold State.find at h ⊢; rw [← hm]; exact h, rfl, rfl, id⟩, by rw [hm]; exact List.Sublist.refl _, hn⟩

theorem R_upd (s : State) (u : Nat) (f : Module → Module) (hu : ∀ m, (f m).uid = m.uid)
    (hi : ∀ m, (f m).modId = m.modId) (hq : ∀ m, (f m).unique = m.unique)
    (hc : ∀ m, (f m).connected = true → m.connected = true) : R s (s.upd u f) := by
  refine ⟨fun v m' h => ?_, by rw [uids_upd s u f hu]; exact List.Sublist.refl _, rfl⟩
  rw [find_upd s u v f hu] at h
  cases h0 : s.find v with
  | none => simp [h0] at h
  | some m =>
    simp only [h0, Option.map_some, Option.some.injEq] at h
    refine ⟨m, rfl, ?_⟩
    subst h
    split
    · exact ⟨hi m, hq m, hc m⟩
    · exact ⟨rfl, rfl, id⟩

theorem R_filter (s : State) (u : Nat) : R s { s with mods := s.mods.filter (·.uid != u) } := by
  refine ⟨fun v m' h => ?_, List.Sublist.map _ List.filter_sublist, rfl⟩
  by_cases hvu : v = u
  · subst hvu
    have : (s.mods.filter (·.uid != v)).find? (·.uid == v) = none := find_filter_eq _ _
    have h' : (s.mods.filter (·.uid != v)).find? (·.uid == v) = some m' := h
    rw [this] at h'; cases h'
  · have h' : (s.mods.filter (·.uid != u)).find? (·.uid == v) = some m' := h
    rw [find_filter_ne _ _ _ hvu] at h'
    exact ⟨m', h', rfl, rfl, id⟩

/-- the invariant: unique ids among connected modules, distinct uids, every uid has been handed out -/
structure K (s : State) : Prop where
  ids : IdInv s
  distinct : UidsDistinct s
  bound : ∀ m ∈ s.mods, m.uid ≤ s.nextUid

theorem K_of_R {s s' : State} (h : K s) (r : R s s') : K s' := by
  have hd' : UidsDistinct s' := List.Sublist.nodup r.uids h.distinct
  refine ⟨fun a b ha hb hne hac hbc hid hnz => ?_, hd', fun m hm => ?_⟩
  · obtain ⟨a0, ha0, ia, qa, ca⟩ := r.shr a.uid a (find_of_mem hd' ha)
    obtain ⟨b0, hb0, ib, qb, cb⟩ := r.shr b.uid b (find_of_mem hd' hb)
    have := h.ids a0 b0 (mem_of_find ha0) (mem_of_find hb0)
      (by rw [find_uid ha0, find_uid hb0]; exact hne) (ca hac) (cb hbc) (by rw [← ia, ← ib]; exact hid) (by rw [← ia]; exact hnz)
    rw [qa, qb]; exact this
  · have : m.uid ∈ s'.mods.map (·.uid) := List.mem_map.mpr ⟨m, hm, rfl⟩
    have := r.uids.subset this
    obtain ⟨m0, hm0, e⟩ := List.mem_map.mp this
    rw [r.nuid, ← e]; exact h.bound m0 hm0

/-! ## every manager operation except accepting a connection / a CONNECT is an `R` step -/

/-- for every frame there is a tag that is false on it -/
theorem fwdTop_pres (cfg : Cfg) (s : State) (g : Frame) : Pres s (fwdTop cfg s g) := by
  cases hb : g.body with
  | data j =>
    exact (fwdTop_ok cfg (tag_data cfg (j + 1)) s g (by simp [hb])).1
  | _ => exact (fwdTop_ok cfg (tag_data cfg 0) s g (by simp [hb])).1

theorem fwdTop_R (cfg : Cfg) (s : State) (g : Frame) : R s (fwdTop cfg s g) := R_of_pres (fwdTop_pres cfg s g)

theorem logAt_R (cfg : Cfg) (lvl : Nat) (s : State) : R s (logAt cfg (fwdTop cfg) lvl s) := by
  unfold logAt; split
  · exact fwdTop_R cfg s _
  · exact R.refl s

theorem trySend_R (cfg : Cfg) (s : State) (u : Nat) (f : Frame) : R s (trySend cfg (fwdTop cfg) s u f) :=
  R_of_pres (trySend_ok cfg (tag_data cfg 0) (fwdTop_ok cfg (tag_data cfg 0)) s u f).1

theorem removePrep_R (s : State) (u : Nat) (m : Module) : R s (removePrep s u m) := by
  unfold removePrep
  dsimp only
  have r1 : R s ({ s with idx := m.subs.foldl (fun i t => idxDiscard i t u) s.idx,
                          loggers := s.loggers.filter (· != u) } : State) := R_same rfl rfl
  refine r1.trans ?_
  have hclose : ∀ s0 : State, R s0 (s0.upd u (fun m => { m with closed := true, connected := false })) :=
    fun s0 => R_upd s0 u _ (fun _ => rfl) (fun _ => rfl) (fun _ => rfl) (fun _ h => by cases h)
  split
  · exact hclose _
  · have re : ∀ s0 : State, R s0 (s0.emit (.close u)) := fun s0 => R_same rfl rfl
    exact (re _).trans (hclose _)

theorem removeModule_R (cfg : Cfg) (s : State) (u : Nat) : R s (removeModule cfg (fwdTop cfg) s u) := by
  unfold removeModule
  cases s.find u with
  | none => exact R.refl s
  | some m =>
    dsimp only
    exact (((removePrep_R s u m).trans (logAt_R cfg 10 _)).trans (fwdTop_R cfg _ _)).trans (R_filter _ u)

theorem toLoggers_R (cfg : Cfg) (f : Frame) : ∀ (ls : List Nat) (s : State), R s (toLoggers cfg f ls s)
  | [], s => R.refl s
  | u :: rest, s => by
    unfold toLoggers
    refine R.trans ?_ (toLoggers_R cfg f rest _)
    unfold loggerOne
    cases s.find u with
    | none => exact R.refl s
    | some _ => exact trySend_R cfg s u f

theorem sendAck_R (cfg : Cfg) (s : State) (u : Nat) : R s (sendAck cfg s u) := by
  unfold sendAck
  cases s.find u with
  | none => exact R.refl s
  | some m => exact (trySend_R cfg s u _).trans (toLoggers_R cfg _ _ _)

theorem infoOf_R (cfg : Cfg) (s : State) (m : Module) : R s (infoOf cfg s m) := by
  unfold infoOf; exact (logAt_R cfg 10 s).trans (fwdTop_R cfg _ _)

theorem sendInfo_R (cfg : Cfg) (s : State) (u : Nat) : R s (sendInfo cfg s u) := by
  unfold sendInfo
  cases s.find u with
  | none => exact R.refl s
  | some m => exact infoOf_R cfg s m

theorem setSubs_R (s : State) (i : List (Int × List Nat)) (u : Nat) (l : List Int) :
    R s (({ s with idx := i } : State).setSubs u l) := by
  unfold State.setSubs
  have r1 : R s ({ s with idx := i } : State) := R_same rfl rfl
  exact r1.trans
    (R_upd ({ s with idx := i } : State) u (fun m => { m with subs := l }) (fun _ => rfl) (fun _ => rfl) (fun _ => rfl) (fun _ h => h))

theorem addSub_R (cfg : Cfg) (s : State) (u : Nat) (t : Int) : R s (addSub cfg s u t) := by
  have hc : R s (addSubCore cfg s u t) := by
    unfold addSubCore; dsimp only
    split
    · exact setSubs_R s _ u _
    · split
      · exact R.refl s
      · exact setSubs_R s _ u _
  unfold addSub; split
  · exact hc.trans (logAt_R cfg 10 _)
  · exact hc

theorem removeSub_R (cfg : Cfg) (s : State) (u : Nat) (t : Int) : R s (removeSub cfg s u t) := by
  have hc : R s (removeSubCore cfg s u t) := by
    unfold removeSubCore; dsimp only
    split
    · exact setSubs_R s _ u _
    · split
      · exact R.refl s
      · exact setSubs_R s _ u _
  unfold removeSub; split
  · exact hc.trans (logAt_R cfg 10 _)
  · exact hc

/-- the clash loop only logs; when it runs through, nothing in the snapshot clashes -/
theorem clashLoop_R (cfg : Cfg) (me : Module) : ∀ (os : List Module) (s : State),
    R s (clashLoop cfg me os s).1 ∧ ((clashLoop cfg me os s).2 = false → ∀ o ∈ os, clash me o = false)
  | [], s => ⟨R.refl s, fun _ o ho => by cases ho⟩
  | o :: rest, s => by
    unfold clashLoop
    cases hc : clash me o with
    | true => simp only [if_true]; exact ⟨R.refl s, fun h => by cases h⟩
    | false =>
      simp only [Bool.false_eq_true, if_false]
      have hl : R s (if me.name.isEmpty then s else logAt cfg (fwdTop cfg) 10 s) := by
        split
        · exact R.refl s
        · exact logAt_R cfg 10 s
      obtain ⟨r, hno⟩ := clashLoop_R cfg me rest (if me.name.isEmpty then s else logAt cfg (fwdTop cfg) 10 s)
      refine ⟨hl.trans r, fun h x hx => ?_⟩
      cases hx with
      | head => exact hc
      | tail _ hx' => exact hno h x hx'

/-! ## `K` steps that are not `R` steps -/

/-- rewriting the identity fields of a module that is not connected (what CONNECT does before it checks anything) -/
theorem K_upd_unconnected {s : State} (h : K s) (u : Nat) (f : Module → Module) (hu : ∀ m, (f m).uid = m.uid)
    (hc : ∀ m, (f m).connected = m.connected) (hun : ∀ m, s.find u = some m → m.connected = false) : K (s.upd u f) := by
  have huids := uids_upd s u f hu
  refine ⟨fun a b ha hb hne hac hbc hid hnz => ?_, by unfold UidsDistinct; rw [huids]; exact h.distinct, fun m hm => ?_⟩
  · unfold State.upd at ha hb
    simp only [List.mem_map] at ha hb
    obtain ⟨a0, ha0, rfl⟩ := ha
    obtain ⟨b0, hb0, rfl⟩ := hb
    have hau : a0.uid ≠ u := by
      intro e
      have hf := find_of_mem h.distinct ha0
      rw [e] at hf
      simp only [e, beq_self_eq_true, if_true, hc] at hac
      rw [hun a0 hf] at hac; cases hac
    have hbu : b0.uid ≠ u := by
      intro e
      have hf := find_of_mem h.distinct hb0
      rw [e] at hf
      simp only [e, beq_self_eq_true, if_true, hc] at hbc
      rw [hun b0 hf] at hbc; cases hbc
    have ea : (a0.uid == u) = false := by simpa using hau
    have eb : (b0.uid == u) = false := by simpa using hbu
    simp only [ea, eb, Bool.false_eq_true, if_false] at *
    exact h.ids a0 b0 ha0 hb0 hne hac hbc hid hnz
  · have : m.uid ∈ (s.upd u f).mods.map (·.uid) := List.mem_map.mpr ⟨m, hm, rfl⟩
    rw [huids] at this
    obtain ⟨m0, hm0, e⟩ := List.mem_map.mp this
    show m.uid ≤ s.nextUid
    rw [← e]; exact h.bound m0 hm0

theorem clash_false_id {me o : Module} (h : clash me o = false) (hid : o.modId = me.modId) :
    o.unique = false ∧ me.unique = false := by
  unfold clash at h
  simp only [Bool.or_eq_false_iff, Bool.and_eq_false_iff, beq_eq_false_iff_ne, ne_eq] at h
  rcases h.1 with h1 | h1
  · exact absurd hid h1
  · exact ⟨h1.1, h1.2⟩

/-- marking `u` connected when every *other* connected module with `u`'s id is compatible with it -/
theorem K_connect {s : State} (h : K s) (u : Nat) (g : Module → Module) (hu : ∀ m, (g m).uid = m.uid)
    (hq : ∀ m, (g m).unique = m.unique)
    (hok : ∀ mu b, s.find u = some mu → b ∈ s.mods → b.uid ≠ u → b.connected = true → b.modId = (g mu).modId →
      (g mu).modId ≠ 0 → b.unique = false ∧ mu.unique = false) : K (s.upd u g) := by
  have huids := uids_upd s u g hu
  refine ⟨fun a b ha hb hne hac hbc hid hnz => ?_, by unfold UidsDistinct; rw [huids]; exact h.distinct, fun m hm => ?_⟩
  · unfold State.upd at ha hb
    simp only [List.mem_map] at ha hb
    obtain ⟨a0, ha0, rfl⟩ := ha
    obtain ⟨b0, hb0, rfl⟩ := hb
    by_cases hau : a0.uid = u <;> by_cases hbu : b0.uid = u
    · simp [hau, hbu, hu] at hne
    · have eb : (b0.uid == u) = false := by simpa using hbu
      simp only [hau, beq_self_eq_true, if_true, eb, Bool.false_eq_true, if_false, hq] at hac hbc hid hnz ⊢
      have hf := find_of_mem h.distinct ha0; rw [hau] at hf
      have := hok a0 b0 hf hb0 hbu hbc hid.symm hnz
      exact ⟨this.2, this.1⟩
    · have ea : (a0.uid == u) = false := by simpa using hau
      simp only [hbu, beq_self_eq_true, if_true, ea, Bool.false_eq_true, if_false, hq] at hac hbc hid hnz ⊢
      have hf := find_of_mem h.distinct hb0; rw [hbu] at hf
      exact hok b0 a0 hf ha0 hau hac hid (by rw [← hid]; exact hnz)
    · have ea : (a0.uid == u) = false := by simpa using hau
      have eb : (b0.uid == u) = false := by simpa using hbu
      simp only [ea, eb, Bool.false_eq_true, if_false] at *
      exact h.ids a0 b0 ha0 hb0 hne hac hbc hid hnz
  · have : m.uid ∈ (s.upd u g).mods.map (·.uid) := List.mem_map.mpr ⟨m, hm, rfl⟩
    rw [huids] at this
    obtain ⟨m0, hm0, e⟩ := List.mem_map.mp this
    show m.uid ≤ s.nextUid
    rw [← e]; exact h.bound m0 hm0

theorem assignLoop_notin (ds : Int) (md : Nat) (used : List Int) :
    ∀ (n off : Nat) (id : Int) (off' : Nat), assignLoop ds md used n off = some (id, off') → id ∉ used
  | 0, _, _, _, h => by simp [assignLoop] at h
  | n + 1, off, id, off', h => by
    unfold assignLoop at h
    dsimp only at h
    split at h
    · exact assignLoop_notin ds md used n _ id off' h
    · rename_i hu
      simp only [Option.some.injEq, Prod.mk.injEq] at h
      obtain ⟨rfl, _⟩ := h
      simpa using hu

theorem K_same {s s' : State} (h : K s) (hm : s'.mods = s.mods) (hn : s'.nextUid = s.nextUid) : K s' :=
  K_of_R h (R_same hm hn)

theorem setReq_fields (cfg : Cfg) (buf : List Nat) (hd : Hdr) (x : Module) :
    (setReq cfg buf hd x).uid = x.uid ∧ (setReq cfg buf hd x).connected = x.connected := by
  unfold setReq; split <;> exact ⟨rfl, rfl⟩

theorem setAll_fields (cfg : Cfg) (buf : List Nat) (hd : Hdr) (nm : List Nat) (x : Module) :
    (setAll cfg buf hd nm x).uid = x.uid ∧ (setAll cfg buf hd nm x).connected = x.connected := by
  unfold setAll; exact setReq_fields cfg buf hd x

theorem connect_K (cfg : Cfg) {s : State} (h : K s) (u : Nat) (hd : Hdr) : K (connectModule cfg s u hd).1 := by
  unfold connectModule
  dsimp only
  cases hcn : (lookupMod s u).connected with
  | true => simp only [if_true]; exact h
  | false =>
    simp only [Bool.false_eq_true, if_false]
    have hun : ∀ m, s.find u = some m → m.connected = false := by
      intro m hm; unfold lookupMod at hcn; rw [hm] at hcn; exact hcn
    split
    · exact K_of_R (K_upd_unconnected h u _ (fun m => (setReq_fields cfg _ _ m).1) (fun m => (setReq_fields cfg _ _ m).2) hun)
        ((logAt_R cfg 40 _).trans (removeModule_R cfg _ u))
    · rename_i nm _
      have h1 : K (s.upd u (setAll cfg s.buf hd nm)) :=
        K_upd_unconnected h u _ (fun m => (setAll_fields cfg _ _ _ m).1) (fun m => (setAll_fields cfg _ _ _ m).2) hun
      have refuse : ∀ s', R (s.upd u (setAll cfg s.buf hd nm)) s' →
          K (removeModule cfg (fwdTop cfg) (logAt cfg (fwdTop cfg) 40 s') u) :=
        fun s' r => K_of_R h1 ((r.trans (logAt_R cfg 40 _)).trans (removeModule_R cfg _ u))
      -- the record of `u` after the field update
      have hrec : ∀ mu, (s.upd u (setAll cfg s.buf hd nm)).find u = some mu →
          mu = setAll cfg s.buf hd nm (lookupMod s u) := by
        intro mu hmu
        rw [find_upd s u u _ (fun m => (setAll_fields cfg _ _ _ m).1)] at hmu
        cases h0 : s.find u with
        | none => simp [h0] at hmu
        | some m0 =>
          have hu0 := find_uid h0
          simp only [h0, Option.map_some, hu0, beq_self_eq_true, if_true, Option.some.injEq] at hmu
          unfold lookupMod; rw [h0]; exact hmu.symm
      split
      · split
        · exact refuse _ (R.refl _)
        · obtain ⟨rl, hno⟩ := clashLoop_R cfg (setAll cfg s.buf hd nm (lookupMod s u))
            ((s.upd u (setAll cfg s.buf hd nm)).mods.filter (·.uid != u)) (s.upd u (setAll cfg s.buf hd nm))
          generalize clashLoop cfg (setAll cfg s.buf hd nm (lookupMod s u))
            ((s.upd u (setAll cfg s.buf hd nm)).mods.filter (·.uid != u)) (s.upd u (setAll cfg s.buf hd nm)) = r at rl hno
          obtain ⟨s2, cl⟩ := r
          dsimp only at rl hno ⊢
          cases cl with
          | true => simp only [if_true]; exact refuse s2 rl
          | false =>
            simp only [Bool.false_eq_true, if_false]
            have h2 : K s2 := K_of_R h1 rl
            refine K_same (s := s2.upd u (fun m => { m with connected := true })) ?_ rfl rfl
            refine K_connect h2 u _ (fun _ => rfl) (fun _ => rfl) (fun mu b hmu hb hbu hbc hid hnz => ?_)
            -- `b` and `mu` come from the state the loop started in
            obtain ⟨b0, hb0, ib, qb, _⟩ := rl.shr b.uid b (find_of_mem h2.distinct hb)
            obtain ⟨mu0, hmu0, im, qm, _⟩ := rl.shr u mu hmu
            have hmu0' := hrec mu0 hmu0
            have hcl := hno rfl b0 (List.mem_filter.mpr ⟨mem_of_find hb0, by
              have := find_uid hb0; simp [this]; exact hbu⟩)
            have := clash_false_id hcl (by rw [← ib, ← hmu0', ← im]; exact hid)
            rw [qb, qm, hmu0']; exact this
      · split
        · exact refuse _ (R.refl _)
        · rename_i id off hass
          have h2 : K ({ (s.upd u (setAll cfg s.buf hd nm)) with nextDyn := off } : State) := K_same h1 rfl rfl
          refine K_same (s := State.upd _ u (fun m => { m with modId := id, connected := true })) ?_ rfl rfl
          have hfresh := assignLoop_notin _ _ _ _ _ _ _ hass
          refine K_connect h2 u _ (fun _ => rfl) (fun _ => rfl) (fun mu b _ hb _ _ hid _ => ?_)
          exfalso; apply hfresh
          exact List.mem_map.mpr ⟨b, hb, hid⟩

theorem accept_K (cfg : Cfg) {s : State} (h : K s) : K (acceptStep cfg s) := by
  unfold acceptStep
  have h1 := K_of_R h (logAt_R cfg 20 s)
  generalize logAt cfg (fwdTop cfg) 20 s = s1 at h1
  dsimp only
  refine ⟨fun a b ha hb hne hac hbc hid hnz => ?_, ?_, fun m hm => ?_⟩
  · have ha' : a ∈ s1.mods ++ [({ uid := s1.nextUid + 1 } : Module)] := ha
    have hb' : b ∈ s1.mods ++ [({ uid := s1.nextUid + 1 } : Module)] := hb
    rcases List.mem_append.mp ha' with ha1 | ha1
    · rcases List.mem_append.mp hb' with hb1 | hb1
      · exact h1.ids a b ha1 hb1 hne hac hbc hid hnz
      · simp at hb1; subst hb1; simp at hbc
    · simp at ha1; subst ha1; simp at hac
  · show ((s1.mods ++ [({ uid := s1.nextUid + 1 } : Module)]).map (·.uid)).Nodup
    rw [List.map_append, List.nodup_append]
    refine ⟨h1.distinct, by simp, fun x hx y hy => ?_⟩
    simp at hy; subst hy
    obtain ⟨m0, hm0, e⟩ := List.mem_map.mp hx
    have := h1.bound m0 hm0
    omega
  · have hm' : m ∈ s1.mods ++ [({ uid := s1.nextUid + 1 } : Module)] := hm
    show m.uid ≤ s1.nextUid + 1
    rcases List.mem_append.mp hm' with h2 | h2
    · have := h1.bound m h2; omega
    · simp at h2; subst h2; exact Nat.le_refl _

/-! ## top level -/

theorem process_K (cfg : Cfg) {s : State} (h : K s) (u : Nat) (hd : Hdr) : K (processMessage cfg s u hd) := by
  unfold processMessage
  dsimp only
  split
  · have hc := connect_K cfg h u hd
    generalize connectModule cfg s u hd = r at hc
    obtain ⟨s1, okb⟩ := r
    dsimp only at hc ⊢
    split
    · exact K_of_R hc (((sendAck_R cfg s1 u).trans (infoOf_R cfg _ _)).trans (logAt_R cfg 20 _))
    · exact hc
  · split
    · exact K_of_R h ((removeModule_R cfg s u).trans (logAt_R cfg 20 _))
    · split
      · exact K_of_R h ((addSub_R cfg s u _).trans (sendAck_R cfg _ u))
      · split
        · exact K_of_R h ((removeSub_R cfg s u _).trans (sendAck_R cfg _ u))
        · split
          · split
            · exact K_of_R h ((logAt_R cfg 40 s).trans (removeModule_R cfg _ u))
            · rename_i nm _
              exact K_of_R h (((R_upd s u (fun m => { m with name := nm }) (fun _ => rfl) (fun _ => rfl) (fun _ => rfl)
                (fun _ x => x)).trans (logAt_R cfg 20 _)).trans (infoOf_R cfg _ _))
          · split
            · exact K_of_R h ((R_upd s u (fun m => { m with pid := bufI32 s.buf 0 }) (fun _ => rfl) (fun _ => rfl)
                (fun _ => rfl) (fun _ x => x)).trans (sendInfo_R cfg _ u))
            · exact K_of_R h ((logAt_R cfg 10 s).trans (fwdTop_R cfg _ _))

theorem readOne_K (cfg : Cfg) {s : State} (h : K s) (r : Read) : K (readOne cfg s r) := by
  unfold readOne
  split
  · exact h
  · cases s.find r.uid with
    | none => exact h
    | some m =>
      dsimp only
      have h1 : K (s.emit (.rd r.uid)) := K_same h rfl rfl
      have hb : ∀ b, K { (s.emit (.rd r.uid)) with buf := b } := fun b => K_same h1 rfl rfl
      have rm : ∀ (s' : State), K s' → ∀ lvl, K (logAt cfg (fwdTop cfg) lvl (removeModule cfg (fwdTop cfg) s' r.uid)) :=
        fun s' h' lvl => K_of_R h' ((removeModule_R cfg s' r.uid).trans (logAt_R cfg lvl _))
      split
      · exact rm _ h1 40
      · split
        · exact rm _ h1 30
        · split
          · exact rm _ h1 30
          · split
            · split
              · exact rm _ h1 40
              · split
                · exact rm _ (hb _) 30
                · exact process_K cfg (hb _) _ _
            · exact process_K cfg h1 _ _

theorem readAll_K (cfg : Cfg) : ∀ (rs : List Read) {s : State}, K s → K (readAll cfg rs s)
  | [], _, h => h
  | r :: rest, s, h => by unfold readAll; exact readAll_K cfg rest (readOne_K cfg h r)

theorem foldl_fwd_R (cfg : Cfg) : ∀ (fs : List Frame) (s : State), R s (fs.foldl (fwdTop cfg) s)
  | [], s => R.refl s
  | f :: rest, s => by simp only [List.foldl_cons]; exact (fwdTop_R cfg s f).trans (foldl_fwd_R cfg rest _)

theorem infoAll_R (cfg : Cfg) : ∀ (ms : List Module) (s : State), R s (infoAll cfg ms s)
  | [], s => R.refl s
  | m :: rest, s => by unfold infoAll; exact (infoOf_R cfg s _).trans (infoAll_R cfg rest _)

theorem io_K (cfg : Cfg) {s : State} (h : K s) (a : Bool) (w : List Nat) (rs : List Read) : K (ioStep cfg s a w rs) := by
  unfold ioStep
  split
  · dsimp only
    apply readAll_K
    cases a with
    | true => simp only [if_true]; exact K_same (accept_K cfg h) rfl rfl
    | false => simp only [Bool.false_eq_true, if_false]; exact K_same h rfl rfl
  · exact h

theorem ticks_K (cfg : Cfg) {s : State} (h : K s) : K (ticks cfg s) := by
  unfold ticks
  have h1 : K (if cfg.timing && s.now - s.tTiming > cfg.pTiming then { sendTiming cfg s with tTiming := s.now } else s) := by
    split
    · unfold sendTiming
      have a1 : K ({ s with counts := [], inTraffic := true } : State) := K_same h rfl rfl
      exact K_same (K_of_R a1 (fwdTop_R cfg _ _)) rfl rfl
    · exact h
  generalize (if cfg.timing && s.now - s.tTiming > cfg.pTiming then { sendTiming cfg s with tTiming := s.now } else s) = s1 at h1
  dsimp only
  have h2 : K (if s1.now - s1.tTraffic > cfg.pTraffic then sendTraffic cfg s1 else s1) := by
    split
    · unfold sendTraffic
      have a1 : K ({ s1 with inTraffic := true } : State) := K_same h1 rfl rfl
      exact K_same (K_of_R a1 ((logAt_R cfg 10 _).trans (foldl_fwd_R cfg _ _))) rfl rfl
    · exact h1
  generalize (if s1.now - s1.tTraffic > cfg.pTraffic then sendTraffic cfg s1 else s1) = s2 at h2
  split
  · unfold sendActive
    exact K_same (K_of_R h2 (((logAt_R cfg 10 s2).trans (infoAll_R cfg _ _)).trans (fwdTop_R cfg _ _))) rfl rfl
  · exact h2

theorem step_K (cfg : Cfg) {s : State} (h : K s) (r : Round) : K (step cfg s r) := by
  unfold step
  split
  · exact h
  · exact ticks_K cfg (io_K cfg (K_same (s' := envStep s r) h rfl rfl) _ _ _)

theorem init_K (cfg : Cfg) : K (init cfg) := by
  unfold init
  refine K_of_R ?_ (logAt_R cfg 20 _)
  refine ⟨fun a b ha hb hne _ _ _ _ => ?_, by simp [UidsDistinct], fun m hm => ?_⟩
  · simp at ha hb; subst ha hb; exact absurd rfl hne
  · simp at hm; subst hm; exact Nat.le_refl _

theorem run_K (cfg : Cfg) (rs : List Round) : K (run cfg rs) := by
  unfold run
  have : ∀ (rs : List Round) (s : State), K s → K (rs.foldl (step cfg) s) := by
    intro rs; induction rs with
    | nil => intro s h; exact h
    | cons r rest ih => intro s h; exact ih _ (step_K cfg h r)
  exact this rs _ (init_K cfg)

end Pyrtma.Mgr
