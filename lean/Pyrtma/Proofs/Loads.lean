import Pyrtma.Proofs.Scoped
/-!
# Loading the emitted programs (C15): generic facts about `loadEager` / `loadJs`

`Stmt.refs` / `Stmt.defd`: what a statement needs / provides; `loadEager` succeeds iff every statement's references
are provided by the initial definitions or by an earlier statement.
-/
namespace Pyrtma.Emit

def Stmt.refs : Stmt → List (Space × Name)
  | .aliasR _ sp t => [(sp, t)]
  | .defn _ _ _ _ _ fs => fieldRefs fs
  | .use sp n => [(sp, n)]
  | _ => []

def Stmt.defd : Stmt → List (Space × Name)
  | .aliasN n _ => [(.alias, n)]
  | .aliasJ n _ _ => [(.alias, n)]
  | .aliasR n _ _ => [(.alias, n)]
  | .defn sp n _ _ _ _ => [(sp, n)]
  | _ => []

/-- the definitions in force after the statements `p` (as `loadEager` accumulates them) -/
def defsAfter : List Stmt → List (Space × Name) → List (Space × Name)
  | [], d => d
  | s :: r, d => defsAfter r (s.defd ++ d)

theorem mem_defsAfter {x : Space × Name} : ∀ {p : List Stmt} {d : List (Space × Name)},
    x ∈ defsAfter p d ↔ x ∈ d ∨ ∃ s ∈ p, x ∈ s.defd
  | [], d => by simp [defsAfter]
  | s :: r, d => by
    simp only [defsAfter, mem_defsAfter (p := r), List.mem_append, List.mem_cons, exists_eq_or_imp]
    constructor
    · rintro ((h | h) | h)
      · exact .inr (.inl h)
      · exact .inl h
      · exact .inr (.inr h)
    · rintro (h | h | h)
      · exact .inl (.inr h)
      · exact .inl (.inl h)
      · exact .inr h

theorem defsAfter_append (p1 p2 : List Stmt) (d : List (Space × Name)) :
    defsAfter (p1 ++ p2) d = defsAfter p2 (defsAfter p1 d) := by
  induction p1 generalizing d with
  | nil => rfl
  | cons s r ih => simp [defsAfter, ih]

theorem isDef_mono {l : Lang} {d d' : List (Space × Name)} {r : Space × Name} (h : isDef l d r = true)
    (hs : ∀ x ∈ d, x ∈ d') : isDef l d' r = true := by
  simp only [isDef, List.any_eq_true] at h ⊢
  obtain ⟨x, hx, hxr⟩ := h
  exact ⟨x, hs x hx, hxr⟩

theorem isDef_of_mem {l : Lang} {d : List (Space × Name)} {r : Space × Name} (h : r ∈ d) : isDef l d r = true := by
  simp only [isDef, List.any_eq_true]
  exact ⟨r, h, by simp [sameSlot]⟩

/-- one step of `loadEager` -/
theorem loadEager_cons (l : Lang) (s : Stmt) (r : List Stmt) (d : List (Space × Name)) :
    loadEager l (s :: r) d =
      match s.refs.find? (fun x => !isDef l d x) with
      | some x => some x
      | none => loadEager l r (s.defd ++ d) := by
  cases s with
  | aliasR n sp t =>
    simp only [loadEager, Stmt.refs, Stmt.defd, List.find?_cons, List.find?_nil]
    cases isDef l d (sp, t) <;> simp
  | use sp n =>
    simp only [loadEager, Stmt.refs, Stmt.defd, List.find?_cons, List.find?_nil]
    cases isDef l d (sp, n) <;> simp
  | defn sp n id h sz fs => simp only [loadEager, Stmt.refs, Stmt.defd]; rfl
  | _ => simp [loadEager, Stmt.refs, Stmt.defd]

theorem loadEager_cons_ok {l : Lang} {s : Stmt} {r : List Stmt} {d : List (Space × Name)}
    (h : ∀ x ∈ s.refs, isDef l d x = true) : loadEager l (s :: r) d = loadEager l r (s.defd ++ d) := by
  rw [loadEager_cons]
  have : s.refs.find? (fun x => !isDef l d x) = none := by
    apply List.find?_eq_none.mpr
    intro x hx; simp [h x hx]
  rw [this]

theorem loadEager_cons_bad {l : Lang} {s : Stmt} {r : List Stmt} {d : List (Space × Name)} {x : Space × Name}
    (hx : x ∈ s.refs) (h : isDef l d x = false) : loadEager l (s :: r) d ≠ none := by
  rw [loadEager_cons]
  cases hf : s.refs.find? (fun x => !isDef l d x) with
  | some y => simp
  | none =>
    have := List.find?_eq_none.mp hf x hx
    simp [h] at this

/-- a block all of whose references are already provided loads, and provides its definitions -/
theorem loadEager_block {l : Lang} : ∀ (p tail : List Stmt) (d : List (Space × Name)),
    (∀ s ∈ p, ∀ x ∈ s.refs, isDef l d x = true) → loadEager l (p ++ tail) d = loadEager l tail (defsAfter p d)
  | [], _, _, _ => rfl
  | s :: r, tail, d, h => by
    rw [List.cons_append, loadEager_cons_ok (h s (by simp))]
    exact loadEager_block r tail _ (fun t ht x hx => isDef_mono (h t (by simp [ht]) x hx)
      (fun y hy => List.mem_append.mpr (.inr hy)))

/-- if the whole program loads, every reference of every statement is provided by what precedes it -/
theorem loadEager_none_split {l : Lang} : ∀ {p1 : List Stmt} {s : Stmt} {p2 : List Stmt} {d : List (Space × Name)},
    loadEager l (p1 ++ s :: p2) d = none → ∀ x ∈ s.refs, isDef l (defsAfter p1 d) x = true
  | [], s, p2, d, h, x, hx => by
    cases hd : isDef l d x with
    | true => exact hd
    | false => exact absurd h (loadEager_cons_bad hx hd)
  | t :: p1, s, p2, d, h, x, hx => by
    rw [List.cons_append, loadEager_cons] at h
    cases hf : t.refs.find? (fun x => !isDef l d x) with
    | some y => rw [hf] at h; simp at h
    | none =>
      rw [hf] at h
      exact loadEager_none_split (p1 := p1) h x hx

end Pyrtma.Emit

namespace Pyrtma.Emit

/-- a block of definitions printed in registry order: each may refer to what `B` guarantees and to the kept
definitions printed before it -/
theorem loadEager_defs {l : Lang} {sp : Space} {ok : List DefR → DefR → Prop} {keep : DefR → Bool}
    {g : DefR → List Stmt} (B : List (Space × Name) → Prop)
    (hB : ∀ d d', B d → (∀ x ∈ d, x ∈ d') → B d')
    (hg : ∀ pre d defs, ok pre d → (∀ s ∈ pre, keep s = true → isDef l defs (sp, s.name) = true) → B defs →
      ∀ s ∈ g d, ∀ x ∈ s.refs, isDef l defs x = true)
    (hk : ∀ pre d defs, ok pre d → keep d = true → B defs → isDef l (defsAfter (g d) defs) (sp, d.name) = true) :
    ∀ (rest pre : List DefR) (defs : List (Space × Name)) (tail : List Stmt), defsOk ok pre rest →
      (∀ s ∈ pre, keep s = true → isDef l defs (sp, s.name) = true) → B defs →
      loadEager l (rest.flatMap g ++ tail) defs = loadEager l tail (defsAfter (rest.flatMap g) defs)
  | [], _, _, _, _, _, _ => rfl
  | d :: r, pre, defs, tail, hok, hpre, hb => by
    have hsub : ∀ x ∈ defs, x ∈ defsAfter (g d) defs := fun x hx => mem_defsAfter.mpr (.inl hx)
    rw [List.flatMap_cons, List.append_assoc, loadEager_block (g d) _ defs (hg pre d defs hok.1 hpre hb),
      loadEager_defs B hB hg hk r (pre ++ [d]) (defsAfter (g d) defs) tail hok.2 ?_ (hB _ _ hb hsub),
      defsAfter_append]
    intro s hs hks
    rcases List.mem_append.mp hs with h | h
    · exact isDef_mono (hpre s h hks) hsub
    · simp only [List.mem_singleton] at h; subst h; exact hk pre s defs hok.1 hks hb

/-! ## the native-type tables of the back ends cover exactly the native type names -/

def keysCover {β γ} (a : List (Name × β)) (b : List (Name × γ)) : Bool :=
  a.all (fun r => b.any (fun q => q.1 == r.1)) && b.all (fun q => a.any (fun r => r.1 == q.1))

/-- decidable: every back-end table has exactly the keys of `supported_types` (`Props/C04.lean: tables_total`,
`no_stray_keys` say the same of the generated strings), `char` is a native type -/
def tablesTotalB (T : Tables) : Bool :=
  keysCover T.natives T.c && keysCover T.natives T.m && keysCover T.natives T.pyCt && keysCover T.natives T.js &&
  T.natives.all (fun r => T.pyDesc.any (fun q => q.1 == r.1)) && isNative T T.charName

theorem assoc_isSome {β} (l : List (Name × β)) (k : Name) : (assoc l k).isSome = l.any (fun p => p.1 == k) := by
  simp only [assoc, Option.isSome_map]
  induction l with
  | nil => rfl
  | cons x r ih => simp only [List.find?_cons, List.any_cons]; cases x.1 == k <;> simp [ih]

theorem keysCover_spec {β γ} {a : List (Name × β)} {b : List (Name × γ)} (h : keysCover a b = true) (k : Name) :
    (assoc b k).isSome = (assoc a k).isSome := by
  simp only [keysCover, Bool.and_eq_true, List.all_eq_true, List.any_eq_true, beq_iff_eq] at h
  rw [assoc_isSome, assoc_isSome]
  apply Bool.eq_iff_iff.mpr
  simp only [List.any_eq_true, beq_iff_eq]
  constructor
  · rintro ⟨q, hq, rfl⟩
    obtain ⟨r, hr, hrq⟩ := h.2 q hq
    exact ⟨r, hr, hrq⟩
  · rintro ⟨r, hr, rfl⟩
    obtain ⟨q, hq, hqr⟩ := h.1 r hr
    exact ⟨q, hq, hqr⟩

structure TablesTotal (T : Tables) : Prop where
  c : ∀ k, (assoc T.c k).isSome = isNative T k
  m : ∀ k, (assoc T.m k).isSome = isNative T k
  pyCt : ∀ k, (assoc T.pyCt k).isSome = isNative T k
  js : ∀ k, (assoc T.js k).isSome = isNative T k
  pyDesc : ∀ k, isNative T k = true → (assoc T.pyDesc k).isSome = true
  char : isNative T T.charName = true

theorem tablesTotal_of {T : Tables} (h : tablesTotalB T = true) : TablesTotal T := by
  simp only [tablesTotalB, Bool.and_eq_true] at h
  obtain ⟨⟨⟨⟨⟨hc, hm⟩, hp⟩, hj⟩, hd⟩, hch⟩ := h
  refine ⟨keysCover_spec hc, keysCover_spec hm, keysCover_spec hp, keysCover_spec hj, ?_, hch⟩
  intro k hk
  rw [assoc_isSome]
  simp only [isNative, assoc_isSome, List.any_eq_true, beq_iff_eq] at hk
  obtain ⟨r, hr, rfl⟩ := hk
  simp only [List.all_eq_true] at hd
  exact hd r hr

end Pyrtma.Emit

namespace Pyrtma.Emit

/-! ## what each back end prints for a field, by the kind the parser recorded -/

theorem mem_names_find {l : List DefR} {n : Name} : n ∈ l.map (·.name) ↔ (l.find? (fun d => d.name == n)).isSome = true := by
  simp [List.find?_isSome, List.mem_map]

theorem mem_aliasNames_find {R : Reg} {n : Name} : n ∈ aliasNames R ↔ (findAlias R n).isSome = true := by
  simp [aliasNames, findAlias, List.find?_isSome, List.mem_map]

theorem not_mem_find_none {l : List DefR} {n : Name} (h : n ∉ l.map (·.name)) : l.find? (fun d => d.name == n) = none := by
  cases hf : l.find? (fun d => d.name == n) with
  | none => rfl
  | some d => exact absurd (mem_names_find.mpr (by rw [hf]; rfl)) h

theorem goodMsgs_sub {l : List DefR} {n : Name} (h : n ∈ goodMsgs l) : n ∈ l.map (·.name) := by
  obtain ⟨d, hd, _, rfl⟩ := mem_goodMsgs.mp h
  exact List.mem_map.mpr ⟨d, hd, rfl⟩

/-- the space a field of that kind refers to -/
def kindSpace : Kind → Space
  | .alias => .alias
  | .struct => .sdf
  | .message => .mdf
  | .native => .alias

/-- `refTy` (the `elif` chain message → struct → alias of the back ends) agrees with the kind the parser recorded -/
theorem refTy_kind {T : Tables} {R : Reg} (hD : Disj R) {sn mn : List Name} {f : FieldR}
    (hsn : ∀ x ∈ sn, x ∈ structNames R) (hmn : ∀ x ∈ mn, x ∈ R.msgs.map (·.name))
    (h : FieldOk T (aliasNames R) sn mn f) (hk : f.kind ≠ .native) : refTy R f.ty = .ref (kindSpace f.kind) f.ty := by
  unfold FieldOk at h
  unfold refTy
  cases hkd : f.kind with
  | native => exact absurd hkd hk
  | alias =>
    simp only [hkd] at h
    have h1 : findMsg R f.ty = none := not_mem_find_none (hD.am _ h.1)
    have h2 : findStruct R f.ty = none := not_mem_find_none (hD.as _ h.1)
    have h3 := mem_aliasNames_find.mp h.1
    simp [h1, h2, h3, kindSpace]
  | struct =>
    simp only [hkd] at h
    have hs := hsn _ h.1
    have h1 : findMsg R f.ty = none := not_mem_find_none (hD.sm _ hs)
    have h2 : (findStruct R f.ty).isSome = true := mem_names_find.mp hs
    simp [h1, h2, kindSpace]
  | message =>
    simp only [hkd] at h
    have h1 : (findMsg R f.ty).isSome = true := mem_names_find.mp (hmn _ h.1)
    simp [h1, kindSpace]

theorem fieldOk_native {T : Tables} {an sn mn : List Name} {f : FieldR} (h : FieldOk T an sn mn f) :
    isNative T f.ty = (f.kind == .native) := by
  unfold FieldOk at h
  cases hk : f.kind <;> simp only [hk] at h <;> simp [h]

/-- C / MATLAB: the table entry for a native type, a reference for the rest -/
theorem tblTy_kind {T : Tables} {R : Reg} (hD : Disj R) {tbl : List (Name × Den)}
    (htbl : ∀ k, (assoc tbl k).isSome = isNative T k) {sn mn : List Name} {f : FieldR}
    (hsn : ∀ x ∈ sn, x ∈ structNames R) (hmn : ∀ x ∈ mn, x ∈ R.msgs.map (·.name))
    (h : FieldOk T (aliasNames R) sn mn f) :
    (f.kind = .native ∧ ∃ d, tblTy tbl R f.ty = .nat d) ∨
    (f.kind ≠ .native ∧ tblTy tbl R f.ty = .ref (kindSpace f.kind) f.ty) := by
  have hn := fieldOk_native h
  unfold tblTy
  cases hk : f.kind == .native with
  | true =>
    have : (assoc tbl f.ty).isSome = true := by rw [htbl, hn, hk]
    obtain ⟨d, hd⟩ := Option.isSome_iff_exists.mp this
    exact .inl ⟨by simpa using hk, d, by simp [hd]⟩
  | false =>
    have : assoc tbl f.ty = none := by
      have : (assoc tbl f.ty).isSome = false := by rw [htbl, hn, hk]
      simpa using this
    have hkn : f.kind ≠ .native := by simpa using hk
    exact .inr ⟨hkn, by simp [this, refTy_kind hD hsn hmn h hkn]⟩

theorem mem_fieldRefs {fs : List FieldS} {x : Space × Name} : x ∈ fieldRefs fs ↔ ∃ f ∈ fs, f.ty = .ref x.1 x.2 := by
  simp only [fieldRefs, List.mem_filterMap]
  constructor
  · rintro ⟨f, hf, h⟩
    refine ⟨f, hf, ?_⟩
    cases hty : f.ty <;> simp [hty] at h
    subst h; rfl
  · rintro ⟨f, hf, h⟩
    exact ⟨f, hf, by simp [h]⟩

end Pyrtma.Emit

namespace Pyrtma.Emit

theorem defsOk_strengthen {ok : List DefR → DefR → Prop} (L : List DefR) : ∀ {pre l : List DefR},
    (∀ y ∈ pre ++ l, y ∈ L) → defsOk ok pre l → defsOk (fun p d => ok p d ∧ d ∈ L ∧ ∀ y ∈ p, y ∈ L) pre l
  | _, [], _, _ => trivial
  | pre, d :: r, hL, h =>
    ⟨⟨h.1, hL d (by simp), fun y hy => hL y (by simp [hy])⟩,
     defsOk_strengthen L (fun y hy => hL y (by simpa using hy)) h.2⟩

/-- what a field printer may refer to: for a field of kind alias / struct / message nothing but that name in its space -/
def FieldPrinterOk (T : Tables) (R : Reg) (pf : FieldR → FieldS) : Prop :=
  ∀ (f : FieldR) (sn mn : List Name) (x : Space × Name), (∀ y ∈ sn, y ∈ structNames R) →
    (∀ y ∈ mn, y ∈ R.msgs.map (·.name)) → FieldOk T (aliasNames R) sn mn f → (pf f).ty = .ref x.1 x.2 →
    f.kind ≠ .native ∧ x = (kindSpace f.kind, f.ty)

/-- **the shape shared by the Python, C and MATLAB outputs loads**: inert lines, the alias block (no references), inert
lines, the structs in registry order, the messages in registry order, a tail that only refers to structs — provided no
struct has a message-typed field; definitions the output omits (C: `core_defs/`) must be provided by `pre` -/
theorem eager_loads {T : Tables} {R : Reg} (l : Lang) (hR : RegOK T R)
    (hnoM : ∀ d ∈ R.structs, ∀ f ∈ d.fields, f.kind ≠ .message)
    (pf : FieldR → FieldS) (hpf : FieldPrinterOk T R pf)
    (I1 A I2 I3 : List Stmt) (S M : DefR → List Stmt) (pre : List (Space × Name))
    (hI1 : ∀ s ∈ I1, s.refs = []) (hA : ∀ s ∈ A, s.refs = [])
    (hAd : ∀ a ∈ R.aliases, isDef l (defsAfter A (defsAfter I1 pre)) (.alias, a.name) = true)
    (hI2 : ∀ s ∈ I2, s.refs = [])
    (hS : ∀ d, S d = [] ∨ ∃ id h sz, S d = [.defn .sdf d.name id h sz (d.fields.map pf)])
    (hSd : ∀ d ∈ R.structs, S d = [] → isDef l pre (.sdf, d.name) = true)
    (hM : ∀ d, M d = [] ∨ ∃ id h sz, M d = [.defn .mdf d.name id h sz (d.fields.map pf)])
    (hMd : ∀ d ∈ R.msgs, d.fields.isEmpty = false → M d = [] → isDef l pre (.mdf, d.name) = true)
    (hI3 : ∀ s ∈ I3, ∀ x ∈ s.refs, ∃ d ∈ R.structs, x = (.sdf, d.name)) :
    loadEager l (I1 ++ (A ++ (I2 ++ (R.structs.flatMap S ++ (R.msgs.flatMap M ++ I3))))) pre = none := by
  have noref : ∀ {p : List Stmt} {d : List (Space × Name)}, (∀ s ∈ p, s.refs = []) →
      ∀ s ∈ p, ∀ x ∈ s.refs, isDef l d x = true := by
    intro p d h s hs x hx; rw [h s hs] at hx; simp at hx
  rw [loadEager_block I1 _ pre (noref hI1), loadEager_block A _ _ (noref hA), loadEager_block I2 _ _ (noref hI2)]
  generalize hd3 : defsAfter I2 (defsAfter A (defsAfter I1 pre)) = d3
  have hpre3 : ∀ x ∈ pre, x ∈ d3 := by
    intro x hx; rw [← hd3]
    exact mem_defsAfter.mpr (.inl (mem_defsAfter.mpr (.inl (mem_defsAfter.mpr (.inl hx)))))
  have hal3 : ∀ a ∈ R.aliases, isDef l d3 (.alias, a.name) = true := by
    intro a ha; rw [← hd3]; exact isDef_mono (hAd a ha) (fun x hx => mem_defsAfter.mpr (.inl hx))
  -- the structs
  have hst := defsOk_strengthen (ok := fun pre d => ∀ f ∈ d.fields,
    FieldOk T (aliasNames R) (pre.map (·.name)) (goodMsgs R.msgs) f) R.structs (pre := []) (l := R.structs)
    (by simp) hR.st
  rw [loadEager_defs (sp := .sdf) (keep := fun _ => true) (fun defs => ∀ x ∈ d3, x ∈ defs)
    (fun d d' hb hs x hx => hs x (hb x hx)) ?hgS ?hkS R.structs [] d3 _ hst (by simp) (fun x hx => hx)]
  case hgS =>
    intro p d defs hok hp hb s hs x hx
    obtain ⟨hf, hdm, hpm⟩ := hok
    rcases hS d with h0 | ⟨id, hh, sz, h1⟩
    · rw [h0] at hs; simp at hs
    · rw [h1] at hs; simp only [List.mem_singleton] at hs; subst hs
      simp only [Stmt.refs] at hx
      obtain ⟨g, hg, hgt⟩ := mem_fieldRefs.mp hx
      obtain ⟨f, hfm, rfl⟩ := List.mem_map.mp hg
      have hsn : ∀ y ∈ p.map (·.name), y ∈ structNames R := by
        intro y hy; obtain ⟨s', hs', rfl⟩ := List.mem_map.mp hy
        exact List.mem_map.mpr ⟨s', hpm s' hs', rfl⟩
      obtain ⟨hkn, hxe⟩ := hpf f _ _ x hsn (fun y hy => goodMsgs_sub hy) (hf f hfm) hgt
      have hfo := hf f hfm
      unfold FieldOk at hfo
      cases hk : f.kind with
      | native => exact absurd hk hkn
      | message => exact absurd hk (hnoM d hdm f hfm)
      | alias =>
        simp only [hk] at hfo
        obtain ⟨a, ha, han⟩ := List.mem_map.mp hfo.1
        rw [hxe, hk, kindSpace, ← han]
        exact isDef_mono (hal3 a ha) hb
      | struct =>
        simp only [hk] at hfo
        obtain ⟨s', hs', hsn'⟩ := List.mem_map.mp hfo.1
        rw [hxe, hk, kindSpace, ← hsn']
        exact hp s' hs' rfl
  case hkS =>
    intro p d defs hok _ hb
    rcases hS d with h0 | ⟨id, hh, sz, h1⟩
    · rw [h0]; exact isDef_mono (hSd d hok.2.1 h0) (fun x hx => hb x (hpre3 x hx))
    · rw [h1]; exact isDef_of_mem (mem_defsAfter.mpr (.inr ⟨.defn .sdf d.name id hh sz (d.fields.map pf), by simp, by simp [Stmt.defd]⟩))
  generalize hd4 : defsAfter (R.structs.flatMap S) d3 = d4
  have h34 : ∀ x ∈ d3, x ∈ d4 := fun x hx => by rw [← hd4]; exact mem_defsAfter.mpr (.inl hx)
  have hst4 : ∀ d ∈ R.structs, isDef l d4 (.sdf, d.name) = true := by
    intro d hd
    rcases hS d with h0 | ⟨id, hh, sz, h1⟩
    · exact isDef_mono (hSd d hd h0) (fun x hx => h34 x (hpre3 x hx))
    · rw [← hd4]
      exact isDef_of_mem (mem_defsAfter.mpr (.inr ⟨.defn .sdf d.name id hh sz (d.fields.map pf),
        List.mem_flatMap.mpr ⟨d, hd, by rw [h1]; simp⟩, by simp [Stmt.defd]⟩))
  -- the messages
  have hms := defsOk_strengthen (ok := fun pre d => ∀ f ∈ d.fields,
    FieldOk T (aliasNames R) (structNames R) (goodMsgs pre) f) R.msgs (pre := []) (l := R.msgs) (by simp) hR.ms
  rw [loadEager_defs (sp := .mdf) (keep := fun d => !d.fields.isEmpty) (fun defs => ∀ x ∈ d4, x ∈ defs)
    (fun d d' hb hs x hx => hs x (hb x hx)) ?hgM ?hkM R.msgs [] d4 _ hms (by simp) (fun x hx => hx)]
  case hgM =>
    intro p d defs hok hp hb s hs x hx
    obtain ⟨hf, hdm, hpm⟩ := hok
    rcases hM d with h0 | ⟨id, hh, sz, h1⟩
    · rw [h0] at hs; simp at hs
    · rw [h1] at hs; simp only [List.mem_singleton] at hs; subst hs
      simp only [Stmt.refs] at hx
      obtain ⟨g, hg, hgt⟩ := mem_fieldRefs.mp hx
      obtain ⟨f, hfm, rfl⟩ := List.mem_map.mp hg
      have hmn : ∀ y ∈ goodMsgs p, y ∈ R.msgs.map (·.name) := by
        intro y hy; obtain ⟨s', hs', _, rfl⟩ := mem_goodMsgs.mp hy
        exact List.mem_map.mpr ⟨s', hpm s' hs', rfl⟩
      obtain ⟨hkn, hxe⟩ := hpf f _ _ x (fun y hy => hy) hmn (hf f hfm) hgt
      have hfo := hf f hfm
      unfold FieldOk at hfo
      cases hk : f.kind with
      | native => exact absurd hk hkn
      | alias =>
        simp only [hk] at hfo
        obtain ⟨a, ha, han⟩ := List.mem_map.mp hfo.1
        rw [hxe, hk, kindSpace, ← han]
        exact isDef_mono (hal3 a ha) (fun y hy => hb y (h34 y hy))
      | struct =>
        simp only [hk] at hfo
        obtain ⟨s', hs', hsn'⟩ := List.mem_map.mp hfo.1
        rw [hxe, hk, kindSpace, ← hsn']
        exact isDef_mono (hst4 s' hs') hb
      | message =>
        simp only [hk] at hfo
        obtain ⟨s', hs', hne, hsn'⟩ := mem_goodMsgs.mp hfo.1
        rw [hxe, hk, kindSpace, ← hsn']
        exact hp s' hs' (by simp [hne])
  case hkM =>
    intro p d defs hok hkeep hb
    rcases hM d with h0 | ⟨id, hh, sz, h1⟩
    · rw [h0]
      exact isDef_mono (hMd d hok.2.1 (by simpa using hkeep) h0) (fun x hx => hb x (h34 x (hpre3 x hx)))
    · rw [h1]; exact isDef_of_mem (mem_defsAfter.mpr (.inr ⟨.defn .mdf d.name id hh sz (d.fields.map pf), by simp, by simp [Stmt.defd]⟩))
  -- the tail
  have := loadEager_block (l := l) I3 [] (defsAfter (R.msgs.flatMap M) d4) (by
    intro s hs x hx
    obtain ⟨d, hd, rfl⟩ := hI3 s hs x hx
    exact isDef_mono (hst4 d hd) (fun y hy => mem_defsAfter.mpr (.inl hy)))
  rw [List.append_nil] at this
  rw [this]; rfl

end Pyrtma.Emit

namespace Pyrtma.Emit

/-! ## the printers of the four back ends meet `FieldPrinterOk` -/

theorem tblField_ok {T : Tables} {R : Reg} (hD : Disj R) {tbl : List (Name × Den)}
    (htbl : ∀ k, (assoc tbl k).isSome = isNative T k) :
    FieldPrinterOk T R (fun f => { name := f.name, ty := tblTy tbl R f.ty, len := f.len }) := by
  intro f sn mn x hsn hmn hf hty
  rcases tblTy_kind hD htbl hsn hmn hf with ⟨_, d, hd⟩ | ⟨hk, hr⟩
  · simp only [hd] at hty; cases hty
  · simp only [hr, TyS.ref.injEq] at hty
    exact ⟨hk, by rw [hty.1, hty.2]⟩

theorem cField_ok {T : Tables} {R : Reg} (hD : Disj R) (hT : TablesTotal T) : FieldPrinterOk T R (cField T R) :=
  tblField_ok hD hT.c

theorem mField_ok {T : Tables} {R : Reg} (hD : Disj R) (hT : TablesTotal T) : FieldPrinterOk T R (mField T R) :=
  tblField_ok hD hT.m

theorem jsTy_kind {T : Tables} {R : Reg} (hD : Disj R) (hT : TablesTotal T) {sn mn : List Name} {f : FieldR}
    (hsn : ∀ x ∈ sn, x ∈ structNames R) (hmn : ∀ x ∈ mn, x ∈ R.msgs.map (·.name))
    (h : FieldOk T (aliasNames R) sn mn f) :
    (f.kind = .native ∧ jsTy T R f.ty = .jsNat f.ty) ∨
    (f.kind ≠ .native ∧ jsTy T R f.ty = .ref (kindSpace f.kind) f.ty) := by
  have hn := fieldOk_native h
  unfold jsTy
  cases hk : f.kind == .native with
  | true =>
    have : (assoc T.js f.ty).isSome = true := by rw [hT.js, hn, hk]
    obtain ⟨d, hd⟩ := Option.isSome_iff_exists.mp this
    exact .inl ⟨by simpa using hk, by simp [hd]⟩
  | false =>
    have : assoc T.js f.ty = none := by
      have : (assoc T.js f.ty).isSome = false := by rw [hT.js, hn, hk]
      simpa using this
    have hkn : f.kind ≠ .native := by simpa using hk
    exact .inr ⟨hkn, by simp [this, refTy_kind hD hsn hmn h hkn]⟩

theorem jsField_ok {T : Tables} {R : Reg} (hD : Disj R) (hT : TablesTotal T) : FieldPrinterOk T R (jsField T R) := by
  intro f sn mn x hsn hmn hf hty
  have hj := jsTy_kind hD hT hsn hmn hf
  unfold jsField at hty
  split at hty
  · split at hty
    · simp at hty
    · rcases hj with ⟨_, hd⟩ | ⟨hk, hr⟩
      · simp only [hd] at hty; cases hty
      · simp only [hr, TyS.ref.injEq] at hty; exact ⟨hk, by rw [hty.1, hty.2]⟩
  · rcases hj with ⟨_, hd⟩ | ⟨hk, hr⟩
    · simp only [hd] at hty; cases hty
    · simp only [hr, TyS.ref.injEq] at hty; exact ⟨hk, by rw [hty.1, hty.2]⟩

/-- Python resolves an alias in place: what a field of each kind is printed as -/
theorem pyField_kind {T : Tables} {R : Reg} (hR : RegOK T R) (hD : Disj R) (hT : TablesTotal T) {sn mn : List Name}
    {f : FieldR} (hsn : ∀ x ∈ sn, x ∈ structNames R) (hmn : ∀ x ∈ mn, x ∈ R.msgs.map (·.name))
    (h : FieldOk T (aliasNames R) sn mn f) :
    match f.kind with
    | .native => ∃ d, (pyField T R f).ty = .nat d
    | .struct => (pyField T R f).ty = .ref .sdf f.ty
    | .message => (pyField T R f).ty = .ref .mdf f.ty
    | .alias => ∃ a ∈ R.aliases, a.name = f.ty ∧
        ((a.isStruct = false ∧ ∃ d, (pyField T R f).ty = .nat d) ∨
         (a.isStruct = true ∧ (pyField T R f).ty = .ref .sdf a.target)) := by
  have base_native : ∀ ty flen, isNative T ty = true → ∃ d r, pyDescBase T R ty flen = some (.nat d, r) := by
    intro ty flen hn
    have h1 : (assoc T.pyCt ty).isSome = true := by rw [hT.pyCt, hn]
    have h2 := hT.pyDesc ty hn
    obtain ⟨c, hc⟩ := Option.isSome_iff_exists.mp h1
    obtain ⟨d, hd⟩ := Option.isSome_iff_exists.mp h2
    exact ⟨d, if flen ≤ 1 then none else some flen, by simp [pyDescBase, hc, hd]⟩
  have base_struct : ∀ ty flen, isNative T ty = false → ty ∈ structNames R →
      ∃ r, pyDescBase T R ty flen = some (.ref .sdf ty, r) := by
    intro ty flen hn hs
    have h1 : assoc T.pyCt ty = none := by
      have : (assoc T.pyCt ty).isSome = false := by rw [hT.pyCt, hn]
      simpa using this
    have h2 : findMsg R ty = none := not_mem_find_none (hD.sm _ hs)
    have h3 : (findStruct R ty).isSome = true := mem_names_find.mp hs
    exact ⟨if flen = 0 then none else some flen, by simp [pyDescBase, h1, h2, h3]⟩
  have hn := fieldOk_native h
  unfold FieldOk at h
  cases hk : f.kind with
  | native =>
    simp only [hk] at h ⊢
    obtain ⟨d, r, hb⟩ := base_native f.ty (f.len.getD 0) h
    exact ⟨d, by simp [pyField, pyDescriptor, hb]⟩
  | struct =>
    simp only [hk] at h ⊢
    obtain ⟨r, hb⟩ := base_struct f.ty (f.len.getD 0) h.2 (hsn _ h.1)
    simp [pyField, pyDescriptor, hb]
  | message =>
    simp only [hk] at h ⊢
    have h1 : assoc T.pyCt f.ty = none := by
      have : (assoc T.pyCt f.ty).isSome = false := by rw [hT.pyCt, h.2]
      simpa using this
    have h2 : (findMsg R f.ty).isSome = true := mem_names_find.mp (hmn _ h.1)
    simp [pyField, pyDescriptor, pyDescBase, h1, h2]
  | alias =>
    simp only [hk] at h ⊢
    have h1 : assoc T.pyCt f.ty = none := by
      have : (assoc T.pyCt f.ty).isSome = false := by rw [hT.pyCt, h.2]
      simpa using this
    have h2 : findMsg R f.ty = none := not_mem_find_none (hD.am _ h.1)
    have h3 : findStruct R f.ty = none := not_mem_find_none (hD.as _ h.1)
    obtain ⟨a, ha⟩ := Option.isSome_iff_exists.mp (mem_aliasNames_find.mp h.1)
    have ham := find_name (nm := fun a : AliasR => a.name) ha
    have hbase : pyDescBase T R f.ty (f.len.getD 0) = none := by simp [pyDescBase, h1, h2, h3]
    refine ⟨a, ham.1, ham.2, ?_⟩
    have hal := hR.al a ham.1
    cases hs : a.isStruct with
    | false =>
      obtain ⟨d, r, hb⟩ := base_native a.target (f.len.getD 0) (hal.2 hs)
      exact .inl ⟨rfl, d, by simp [pyField, pyDescriptor, hbase, ha, hb]⟩
    | true =>
      obtain ⟨r, hb⟩ := base_struct a.target (f.len.getD 0) (hal.1 hs).2 (hal.1 hs).1
      exact .inr ⟨rfl, by simp [pyField, pyDescriptor, hbase, ha, hb]⟩

theorem pyField_ok {T : Tables} {R : Reg} (hR : RegOK T R) (hD : Disj R) (hT : TablesTotal T)
    (hnoA : ∀ a ∈ R.aliases, a.isStruct = false) : FieldPrinterOk T R (pyField T R) := by
  intro f sn mn x hsn hmn hf hty
  have := pyField_kind hR hD hT hsn hmn hf
  cases hk : f.kind with
  | native => simp only [hk] at this; obtain ⟨d, hd⟩ := this; rw [hd] at hty; cases hty
  | struct =>
    simp only [hk] at this; rw [this] at hty; simp only [TyS.ref.injEq] at hty
    exact ⟨by simp, (Prod.ext hty.1 hty.2).symm⟩
  | message =>
    simp only [hk] at this; rw [this] at hty; simp only [TyS.ref.injEq] at hty
    exact ⟨by simp, (Prod.ext hty.1 hty.2).symm⟩
  | alias =>
    simp only [hk] at this
    obtain ⟨a, ha, _, h1 | h1⟩ := this
    · obtain ⟨_, d, hd⟩ := h1; rw [hd] at hty; cases hty
    · rw [hnoA a ha] at h1; exact absurd h1.1 (by simp)

end Pyrtma.Emit

namespace Pyrtma.Emit

/-! ## the Python, MATLAB and C outputs load -/

theorem flatMap_single {α β} (l : List α) (f : α → β) : l.flatMap (fun d => [f d]) = l.map f := by
  induction l with
  | nil => rfl
  | cons x r ih => simp [List.flatMap_cons, ih]

theorem flatten_map_noCore {α β} (l : List α) (core : α → Bool) (g : α → List β) :
    ((noCore l core).map g).flatten = l.flatMap (fun d => if core d then [] else g d) := by
  induction l with
  | nil => rfl
  | cons x r ih =>
    simp only [noCore, List.filter_cons, List.flatMap_cons] at ih ⊢
    cases core x <;> simp [ih]

theorem map_noCore {α β} (l : List α) (core : α → Bool) (g : α → β) :
    (noCore l core).map g = l.flatMap (fun d => if core d then [] else [g d]) := by
  induction l with
  | nil => rfl
  | cons x r ih =>
    simp only [noCore, List.filter_cons, List.flatMap_cons] at ih ⊢
    cases core x <;> simp [ih]

/-- the alias line of a native-target alias, in the C / MATLAB / Python style -/
theorem tblAlias_native {T : Tables} {R : Reg} {tbl : List (Name × Den)} (htbl : ∀ k, (assoc tbl k).isSome = isNative T k)
    {a : AliasR} (h : isNative T a.target = true) : ∃ d, tblAlias tbl R a = .aliasN a.name d := by
  have : (assoc tbl a.target).isSome = true := by rw [htbl, h]
  obtain ⟨d, hd⟩ := Option.isSome_iff_exists.mp this
  exact ⟨d, by simp [tblAlias, hd]⟩

theorem pyAlias_native {T : Tables} (hT : TablesTotal T) {a : AliasR} (h : isNative T a.target = true) :
    ∃ d, pyAlias T a = .aliasN a.name d := by
  have : (assoc T.pyCt a.target).isSome = true := by rw [hT.pyCt, h]
  obtain ⟨d, hd⟩ := Option.isSome_iff_exists.mp this
  exact ⟨d, by simp [pyAlias, hd]⟩

/-- **Python**: with no alias of a struct and no struct using a message, the module body only mentions what it has
already defined -/
theorem py_loads {T : Tables} {R : Reg} (hR : RegOK T R) (hD : Disj R) (hT : TablesTotal T)
    (hnoA : ∀ a ∈ R.aliases, a.isStruct = false)
    (hnoM : ∀ d ∈ R.structs, ∀ f ∈ d.fields, f.kind ≠ .message) : loads .py (emitPy T R) = true := by
  have hshape : emitPy T R =
      (R.consts.map (fun c => Stmt.const c.1 c.2.1) ++ R.strs.map (fun c => Stmt.strConst c.1 c.2.1)) ++
      (R.aliases.map (pyAlias T) ++
      ((R.hosts.map (fun c => Stmt.host c.1 c.2.1) ++ R.mods.map (fun c => Stmt.mod c.1 c.2.1) ++
          R.msgIds.map (fun c => Stmt.mt c.1 c.2.1)) ++
      (R.structs.flatMap (fun d => [pyDef T R .sdf d]) ++ (R.msgs.flatMap (fun d => [pyDef T R .mdf d]) ++ [])))) := by
    simp [emitPy, flatMap_single, List.append_assoc]
  have hal : ∀ a ∈ R.aliases, ∃ d, pyAlias T a = .aliasN a.name d :=
    fun a ha => pyAlias_native hT ((hR.al a ha).2 (hnoA a ha))
  simp only [loads, Option.isNone_iff_eq_none]
  rw [hshape]
  apply eager_loads .py hR hnoM (pyField T R) (pyField_ok hR hD hT hnoA)
  · intro s hs
    simp only [List.mem_append, List.mem_map] at hs
    rcases hs with ⟨c, _, rfl⟩ | ⟨c, _, rfl⟩ <;> rfl
  · intro s hs
    obtain ⟨a, ha, rfl⟩ := List.mem_map.mp hs
    obtain ⟨d, hd⟩ := hal a ha
    rw [hd]; rfl
  · intro a ha
    obtain ⟨d, hd⟩ := hal a ha
    exact isDef_of_mem (mem_defsAfter.mpr (.inr ⟨_, List.mem_map.mpr ⟨a, ha, rfl⟩, by rw [hd]; simp [Stmt.defd]⟩))
  · intro s hs
    simp only [List.mem_append, List.mem_map] at hs
    rcases hs with (⟨c, _, rfl⟩ | ⟨c, _, rfl⟩) | ⟨c, _, rfl⟩ <;> rfl
  · intro d; exact .inr ⟨d.id, some d.hash, some d.size, rfl⟩
  · intro d _ h; simp at h
  · intro d; exact .inr ⟨d.id, some d.hash, some d.size, rfl⟩
  · intro d _ _ h; simp at h
  · intro s hs; simp at hs

/-- **MATLAB**: the same, and the trailer `RTMA.MESSAGE_HEADER = RTMA.typedefs.RTMA_MSG_HEADER` needs that struct -/
theorem m_loads {T : Tables} {R : Reg} (hR : RegOK T R) (hD : Disj R) (hT : TablesTotal T)
    (hnoA : ∀ a ∈ R.aliases, a.isStruct = false)
    (hnoM : ∀ d ∈ R.structs, ∀ f ∈ d.fields, f.kind ≠ .message) (hhdr : T.hdrName ∈ structNames R) :
    loads .m (emitM T R) = true := by
  have hshape : emitM T R =
      (R.consts.map (fun c => Stmt.const c.1 c.2.1) ++ R.strs.map (fun c => Stmt.strConst c.1 c.2.1)) ++
      (R.aliases.map (tblAlias T.m R) ++
      ((R.hosts.map (fun c => Stmt.host c.1 c.2.1) ++ R.mods.map (fun c => Stmt.mod c.1 c.2.1) ++
          R.msgIds.map (fun c => Stmt.mt c.1 c.2.1)) ++
      (R.structs.flatMap (fun d => [mDef T R .sdf d]) ++ (R.msgs.flatMap (fun d => [mDef T R .mdf d]) ++
        (R.msgs.map (fun d => Stmt.hash d.name d.hash) ++ [.use .sdf T.hdrName]))))) := by
    simp [emitM, flatMap_single, List.append_assoc]
  have hal : ∀ a ∈ R.aliases, ∃ d, tblAlias T.m R a = .aliasN a.name d :=
    fun a ha => tblAlias_native hT.m ((hR.al a ha).2 (hnoA a ha))
  simp only [loads, Option.isNone_iff_eq_none]
  rw [hshape]
  apply eager_loads .m hR hnoM (mField T R) (mField_ok hD hT)
  · intro s hs
    simp only [List.mem_append, List.mem_map] at hs
    rcases hs with ⟨c, _, rfl⟩ | ⟨c, _, rfl⟩ <;> rfl
  · intro s hs
    obtain ⟨a, ha, rfl⟩ := List.mem_map.mp hs
    obtain ⟨d, hd⟩ := hal a ha
    rw [hd]; rfl
  · intro a ha
    obtain ⟨d, hd⟩ := hal a ha
    exact isDef_of_mem (mem_defsAfter.mpr (.inr ⟨_, List.mem_map.mpr ⟨a, ha, rfl⟩, by rw [hd]; simp [Stmt.defd]⟩))
  · intro s hs
    simp only [List.mem_append, List.mem_map] at hs
    rcases hs with (⟨c, _, rfl⟩ | ⟨c, _, rfl⟩) | ⟨c, _, rfl⟩ <;> rfl
  · intro d; exact .inr ⟨none, none, none, rfl⟩
  · intro d _ h; simp at h
  · intro d; exact .inr ⟨none, none, none, rfl⟩
  · intro d _ _ h; simp at h
  · intro s hs x hx
    simp only [List.mem_append, List.mem_map, List.mem_singleton] at hs
    rcases hs with ⟨c, _, rfl⟩ | rfl
    · simp [Stmt.refs] at hx
    · simp only [Stmt.refs, List.mem_singleton] at hx
      obtain ⟨d, hd, hdn⟩ := List.mem_map.mp hhdr
      exact ⟨d, hd, by rw [hx, hdn]⟩

end Pyrtma.Emit

namespace Pyrtma.Emit

/-- what `RTMA.h` declares for a C client: the aliases, structs and messages of `core_defs/` (the header omits them) -/
def cPre (R : Reg) : List (Space × Name) :=
  (R.aliases.filter (·.core)).map (fun a => (.alias, a.name)) ++
  (R.structs.filter (·.core)).map (fun d => (.sdf, d.name)) ++
  (R.msgs.filter (·.core)).map (fun d => (.mdf, d.name))

/-- **C**: the header compiles after `RTMA.h` under the same side condition (`hne`: the parser never stores a struct
without fields — `validate_msg_def` asserts it) -/
theorem c_loads {T : Tables} {R : Reg} (hR : RegOK T R) (hD : Disj R) (hT : TablesTotal T)
    (hnoA : ∀ a ∈ R.aliases, a.isStruct = false)
    (hnoM : ∀ d ∈ R.structs, ∀ f ∈ d.fields, f.kind ≠ .message)
    (hne : ∀ d ∈ R.structs, d.fields.isEmpty = false) : loads .c (emitC T R) (cPre R) = true := by
  have hshape : emitC T R =
      ((noCore R.consts (·.2.2)).map (fun c => Stmt.const c.1 c.2.1) ++
        (noCore R.strs (·.2.2)).map (fun c => Stmt.strConst c.1 c.2.1)) ++
      ((noCore R.aliases (·.core)).map (tblAlias T.c R) ++
      (((noCore R.hosts (·.2.2)).map (fun c => Stmt.host c.1 c.2.1) ++
          (noCore R.mods (·.2.2)).map (fun c => Stmt.mod c.1 c.2.1) ++
          (noCore R.msgIds (·.2.2)).map (fun c => Stmt.mt c.1 c.2.1)) ++
      (R.structs.flatMap (fun d => if d.core then [] else cDef T R .sdf d) ++
        (R.msgs.flatMap (fun d => if d.core then [] else cDef T R .mdf d) ++
          (noCore R.msgs (·.core)).map (fun d => Stmt.hash d.name d.hash))))) := by
    simp [emitC, flatten_map_noCore, List.append_assoc]
  have hal : ∀ a ∈ R.aliases, ∃ d, tblAlias T.c R a = .aliasN a.name d :=
    fun a ha => tblAlias_native hT.c ((hR.al a ha).2 (hnoA a ha))
  have hcd : ∀ sp d, (if d.core then [] else cDef T R sp d) = [] ∨
      ∃ id h sz, (if d.core then [] else cDef T R sp d) = [.defn sp d.name id h sz (d.fields.map (cField T R))] := by
    intro sp d
    cases d.core
    · simp only [Bool.false_eq_true, if_false, cDef]
      cases d.fields.isEmpty
      · exact .inr ⟨none, none, none, by simp⟩
      · exact .inl (by simp)
    · exact .inl (by simp)
  simp only [loads, Option.isNone_iff_eq_none]
  rw [hshape]
  apply eager_loads .c hR hnoM (cField T R) (cField_ok hD hT)
  · intro s hs
    simp only [List.mem_append, List.mem_map] at hs
    rcases hs with ⟨c, _, rfl⟩ | ⟨c, _, rfl⟩ <;> rfl
  · intro s hs
    obtain ⟨a, ha, rfl⟩ := List.mem_map.mp hs
    obtain ⟨d, hd⟩ := hal a (List.mem_filter.mp ha).1
    rw [hd]; rfl
  · intro a ha
    cases hc : a.core with
    | true =>
      apply isDef_of_mem
      refine mem_defsAfter.mpr (.inl (mem_defsAfter.mpr (.inl ?_)))
      simp only [cPre, List.mem_append, List.mem_map, List.mem_filter]
      exact .inl (.inl ⟨a, ⟨ha, hc⟩, rfl⟩)
    | false =>
      obtain ⟨d, hd⟩ := hal a ha
      exact isDef_of_mem (mem_defsAfter.mpr (.inr ⟨_, List.mem_map.mpr ⟨a, by simp [noCore, ha, hc], rfl⟩,
        by rw [hd]; simp [Stmt.defd]⟩))
  · intro s hs
    simp only [List.mem_append, List.mem_map] at hs
    rcases hs with (⟨c, _, rfl⟩ | ⟨c, _, rfl⟩) | ⟨c, _, rfl⟩ <;> rfl
  · exact hcd .sdf
  · intro d hd h
    have hc : d.core = true := by
      cases hc : d.core with
      | true => rfl
      | false => simp [hc, cDef, hne d hd] at h
    apply isDef_of_mem
    simp only [cPre, List.mem_append, List.mem_map, List.mem_filter]
    exact .inl (.inr ⟨d, ⟨hd, hc⟩, rfl⟩)
  · exact hcd .mdf
  · intro d hd hnem h
    have hc : d.core = true := by
      cases hc : d.core with
      | true => rfl
      | false => simp [hc, cDef, hnem] at h
    apply isDef_of_mem
    simp only [cPre, List.mem_append, List.mem_map, List.mem_filter]
    exact .inr ⟨d, ⟨hd, hc⟩, rfl⟩
  · intro s hs x hx
    obtain ⟨d, _, rfl⟩ := List.mem_map.mp hs
    simp [Stmt.refs] at hx

end Pyrtma.Emit

namespace Pyrtma.Emit

/-! ## JavaScript -/

/-- the name space a line stores into (it must have been initialised: `RTMA.<space> = {}`) -/
def Stmt.needs : Stmt → Option Space
  | .aliasJ _ _ _ => some .alias
  | .aliasN _ _ => some .alias
  | .aliasR _ sp _ => some sp
  | .defn sp _ _ _ _ _ => some sp
  | _ => none

def Stmt.isInit : Stmt → Bool
  | .init _ => true
  | _ => false

theorem loadJs_defs_irrel : ∀ (p : List Stmt) (inits : List Space) (d1 d2 : List (Space × Name)),
    loadJs p inits d1 = loadJs p inits d2
  | [], _, _, _ => rfl
  | s :: r, inits, d1, d2 => by
    cases s <;> simp only [loadJs] <;> first
      | exact loadJs_defs_irrel r _ _ _
      | (split <;> first | exact loadJs_defs_irrel r _ _ _ | rfl)

theorem loadJs_step_ok {s : Stmt} {r : List Stmt} {inits : List Space} {defs : List (Space × Name)}
    (hi : s.isInit = false) (hn : ∀ sp, s.needs = some sp → inits.contains sp = true) :
    loadJs (s :: r) inits defs = loadJs r inits defs := by
  cases s with
  | init sp => simp [Stmt.isInit] at hi
  | aliasJ n t c =>
    simp only [loadJs, hn .alias rfl, if_true]; exact loadJs_defs_irrel _ _ _ _
  | aliasN n d =>
    simp only [loadJs, hn .alias rfl, if_true]; exact loadJs_defs_irrel _ _ _ _
  | aliasR n sp t =>
    simp only [loadJs, hn sp rfl, if_true]; exact loadJs_defs_irrel _ _ _ _
  | defn sp n id h sz fs =>
    simp only [loadJs, hn sp rfl, if_true]; exact loadJs_defs_irrel _ _ _ _
  | _ => rfl

theorem loadJs_step_bad {s : Stmt} {r : List Stmt} {inits : List Space} {defs : List (Space × Name)} {sp : Space}
    (hn : s.needs = some sp) (hc : inits.contains sp = false) : loadJs (s :: r) inits defs ≠ none := by
  have hc' : ¬ (sp ∈ inits) := by simpa using hc
  cases s with
  | aliasJ n t c => simp only [Stmt.needs, Option.some.injEq] at hn; subst hn; simp [loadJs, hc']
  | aliasN n d => simp only [Stmt.needs, Option.some.injEq] at hn; subst hn; simp [loadJs, hc']
  | aliasR n sp' t => simp only [Stmt.needs, Option.some.injEq] at hn; subst hn; simp [loadJs, hc']
  | defn sp' n id h sz fs => simp only [Stmt.needs, Option.some.injEq] at hn; subst hn; simp [loadJs, hc']
  | _ => simp [Stmt.needs] at hn

theorem loadJs_block : ∀ (p tail : List Stmt) (inits : List Space) (defs : List (Space × Name)),
    (∀ s ∈ p, s.isInit = false ∧ ∀ sp, s.needs = some sp → inits.contains sp = true) →
    loadJs (p ++ tail) inits defs = loadJs tail inits defs
  | [], _, _, _, _ => rfl
  | s :: r, tail, inits, defs, h => by
    rw [List.cons_append, loadJs_step_ok (h s (by simp)).1 (h s (by simp)).2]
    exact loadJs_block r tail inits defs (fun t ht => h t (by simp [ht]))

end Pyrtma.Emit

namespace Pyrtma.Emit

theorem jsAlias_native {T : Tables} {R : Reg} (hT : TablesTotal T) {a : AliasR} (h : isNative T a.target = true) :
    jsAlias T R a = .aliasJ a.name a.target true := by
  have : (assoc T.js a.target).isSome = true := by rw [hT.js, h]
  obtain ⟨d, hd⟩ := Option.isSome_iff_exists.mp this
  simp [jsAlias, hd]

/-- an alias of a struct is printed as `RTMA.SDF.<name> = RTMA.SDF.<target>` (in the alias section) -/
theorem jsAlias_struct {T : Tables} {R : Reg} (hD : Disj R) (hT : TablesTotal T) {a : AliasR}
    (ht : a.target ∈ structNames R) (hn : isNative T a.target = false) :
    jsAlias T R a = .aliasR a.name .sdf a.target := by
  have h0 : assoc T.js a.target = none := by
    have : (assoc T.js a.target).isSome = false := by rw [hT.js, hn]
    simpa using this
  have h1 : findAlias R a.target = none := by
    cases hf : findAlias R a.target with
    | none => rfl
    | some b => exact absurd ht (hD.as _ (mem_aliasNames_find.mpr (by rw [hf]; rfl)))
  have h2 : (findStruct R a.target).isSome = true := mem_names_find.mp ht
  simp [jsAlias, h0, refAlias, h1, h2]

theorem jsShape (T : Tables) (R : Reg) : emitJs T R =
    (R.consts.map (fun c => Stmt.const c.1 c.2.1) ++ R.strs.map (fun c => Stmt.strConst c.1 c.2.1)) ++
    (.init .alias :: ((R.aliases.map (jsAlias T R) ++ (R.hosts.map (fun c => Stmt.host c.1 c.2.1) ++
        (R.mods.map (fun c => Stmt.mod c.1 c.2.1) ++ R.msgIds.map (fun c => Stmt.mt c.1 c.2.1)))) ++
    (.init .sdf :: (R.structs.map (jsDef T R .sdf) ++
    (.init .mdf :: (R.msgs.map (jsDef T R .mdf) ++ R.msgs.map (fun d => Stmt.hash d.name d.hash))))))) := by
  simp [emitJs, List.append_assoc]

theorem defsOk_field {ok : List DefR → DefR → Prop} {l : List DefR} (h : defsOk ok [] l) {d : DefR} (hd : d ∈ l) :
    ∃ p q, l = p ++ d :: q ∧ ok p d := by
  obtain ⟨p, q, hpq, hok⟩ := defsOk_mem h d hd
  exact ⟨p, q, by simpa using hpq, hok⟩

/-- every factory of the JavaScript module refers to callables only, provided no alias targets a struct -/
theorem js_factories {T : Tables} {R : Reg} (hR : RegOK T R) (hD : Disj R) (hT : TablesTotal T)
    (hnoA : ∀ a ∈ R.aliases, a.isStruct = false) : jsFactoriesOk (emitJs T R) = true := by
  have hcall : ∀ (d : DefR) (sn mn : List Name), (∀ y ∈ sn, y ∈ structNames R) → (∀ y ∈ mn, y ∈ R.msgs.map (·.name)) →
      (∀ f ∈ d.fields, FieldOk T (aliasNames R) sn mn f) →
      ∀ x ∈ fieldRefs (d.fields.map (jsField T R)), jsCallable (emitJs T R) x = true := by
    intro d sn mn hsn hmn hf x hx
    obtain ⟨g, hg, hgt⟩ := mem_fieldRefs.mp hx
    obtain ⟨f, hfm, rfl⟩ := List.mem_map.mp hg
    obtain ⟨hkn, hxe⟩ := jsField_ok hD hT f sn mn x hsn hmn (hf f hfm) hgt
    have hfo := hf f hfm
    unfold FieldOk at hfo
    simp only [jsCallable, List.any_eq_true]
    cases hk : f.kind with
    | native => exact absurd hk hkn
    | alias =>
      simp only [hk] at hfo
      obtain ⟨a, ha, han⟩ := List.mem_map.mp hfo.1
      refine ⟨.aliasJ a.name a.target true, ?_, ?_⟩
      · rw [← jsAlias_native (R := R) hT ((hR.al a ha).2 (hnoA a ha)), jsShape]
        simp only [List.mem_append, List.mem_cons, List.mem_map]
        exact .inr (.inr (.inl (.inl ⟨a, ha, rfl⟩)))
      · rw [hxe, hk]; simp [kindSpace, han]
    | struct =>
      simp only [hk] at hfo
      obtain ⟨s', hs', hsn'⟩ := List.mem_map.mp (hsn _ hfo.1)
      refine ⟨jsDef T R .sdf s', ?_, ?_⟩
      · rw [jsShape]
        simp only [List.mem_append, List.mem_cons, List.mem_map]
        exact .inr (.inr (.inr (.inr (.inl ⟨s', hs', rfl⟩))))
      · rw [hxe, hk]; simp [jsDef, kindSpace, hsn']
    | message =>
      simp only [hk] at hfo
      obtain ⟨s', hs', hsn'⟩ := List.mem_map.mp (hmn _ hfo.1)
      refine ⟨jsDef T R .mdf s', ?_, ?_⟩
      · rw [jsShape]
        simp only [List.mem_append, List.mem_cons, List.mem_map]
        exact .inr (.inr (.inr (.inr (.inr (.inr (.inl ⟨s', hs', rfl⟩))))))
      · rw [hxe, hk]; simp [jsDef, kindSpace, hsn']
  simp only [jsFactoriesOk, List.all_eq_true]
  intro s hs
  rw [jsShape] at hs
  simp only [List.mem_append, List.mem_cons, List.mem_map] at hs
  rcases hs with (⟨c, _, rfl⟩ | ⟨c, _, rfl⟩) | rfl | (⟨a, ha, rfl⟩ | ⟨c, _, rfl⟩ | ⟨c, _, rfl⟩ | ⟨c, _, rfl⟩) | rfl |
    ⟨d, hd, rfl⟩ | rfl | ⟨d, hd, rfl⟩ | ⟨d, _, rfl⟩
  all_goals try rfl
  · rw [jsAlias_native hT ((hR.al a ha).2 (hnoA a ha))]
  · obtain ⟨p, q, hpq, hok⟩ := defsOk_field hR.st hd
    simp only [jsDef, List.all_eq_true]
    intro x hx
    exact hcall d _ _ (fun y hy => by
      obtain ⟨s', hs', rfl⟩ := List.mem_map.mp hy
      exact List.mem_map.mpr ⟨s', by rw [hpq]; simp [hs'], rfl⟩) (fun y hy => goodMsgs_sub hy) hok x hx
  · obtain ⟨p, q, hpq, hok⟩ := defsOk_field hR.ms hd
    simp only [jsDef, List.all_eq_true]
    intro x hx
    exact hcall d _ _ (fun y hy => hy) (fun y hy => by
      obtain ⟨s', hs', _, rfl⟩ := mem_goodMsgs.mp hy
      exact List.mem_map.mpr ⟨s', by rw [hpq]; simp [hs'], rfl⟩) hok x hx

/-- **JavaScript**: the module loads (every name space is initialised before it is written) and every factory can
be called, provided no alias targets a struct — a struct using a message is fine: factories resolve names when called -/
theorem js_loads {T : Tables} {R : Reg} (hR : RegOK T R) (hD : Disj R) (hT : TablesTotal T)
    (hnoA : ∀ a ∈ R.aliases, a.isStruct = false) : loads .js (emitJs T R) = true := by
  simp only [loads, Bool.and_eq_true, Option.isNone_iff_eq_none]
  refine ⟨?_, js_factories hR hD hT hnoA⟩
  rw [jsShape]
  rw [loadJs_block _ _ [] [] (by
    intro s hs
    simp only [List.mem_append, List.mem_map] at hs
    rcases hs with ⟨c, _, rfl⟩ | ⟨c, _, rfl⟩ <;> exact ⟨rfl, by simp [Stmt.needs]⟩)]
  simp only [loadJs]
  rw [loadJs_block _ _ [.alias] [] (by
    intro s hs
    simp only [List.mem_append, List.mem_map] at hs
    rcases hs with ⟨a, ha, rfl⟩ | ⟨c, _, rfl⟩ | ⟨c, _, rfl⟩ | ⟨c, _, rfl⟩
    · rw [jsAlias_native hT ((hR.al a ha).2 (hnoA a ha))]; exact ⟨rfl, by simp [Stmt.needs]⟩
    all_goals exact ⟨rfl, by simp [Stmt.needs]⟩)]
  simp only [loadJs]
  rw [loadJs_block _ _ [.sdf, .alias] [] (by
    intro s hs
    obtain ⟨d, _, rfl⟩ := List.mem_map.mp hs
    exact ⟨rfl, by simp [Stmt.needs, jsDef]⟩)]
  simp only [loadJs]
  have := loadJs_block (R.msgs.map (jsDef T R .mdf) ++ R.msgs.map (fun d => Stmt.hash d.name d.hash)) []
    [.mdf, .sdf, .alias] [] (by
    intro s hs
    simp only [List.mem_append, List.mem_map] at hs
    rcases hs with ⟨d, _, rfl⟩ | ⟨d, _, rfl⟩
    · exact ⟨rfl, by simp [Stmt.needs, jsDef]⟩
    · exact ⟨rfl, by simp [Stmt.needs]⟩)
  rw [List.append_nil] at this
  rw [this]; rfl

end Pyrtma.Emit

namespace Pyrtma.Emit

/-! ## necessity: outside the side conditions the outputs do not load -/

theorem isDef_elim {l : Lang} {d : List (Space × Name)} {r : Space × Name} (h : isDef l d r = true) :
    ∃ x ∈ d, sameSlot l r x = true := by
  simpa [isDef, List.any_eq_true] using h

/-- the shape shared by the Python and MATLAB outputs (nothing omitted, nothing provided from outside): if it
loads, no alias targets a struct and no struct has a message-typed field -/
theorem eager_necessary {T : Tables} {R : Reg} (l : Lang) (hD : Disj R) (hR : RegOK T R)
    (pa : AliasR → Stmt) (pf : FieldR → FieldS) (I1 I2 rest : List Stmt) (mk : DefR → Stmt)
    (hI1 : ∀ s ∈ I1, s.defd = []) (hI2 : ∀ s ∈ I2, s.defd = [])
    (hpa : ∀ a ∈ R.aliases, (pa a).defd = [(.alias, a.name)] ∧
      (a.isStruct = true → pa a = .aliasR a.name .sdf a.target))
    (hmk : ∀ d, ∃ id h sz, mk d = .defn .sdf d.name id h sz (d.fields.map pf))
    (hpf : ∀ d ∈ R.structs, ∀ f ∈ d.fields, f.kind = .message → (pf f).ty = .ref .mdf f.ty)
    (h : loadEager l (I1 ++ (R.aliases.map pa ++ (I2 ++ (R.structs.map mk ++ rest)))) [] = none) :
    (∀ a ∈ R.aliases, a.isStruct = false) ∧ (∀ d ∈ R.structs, ∀ f ∈ d.fields, f.kind ≠ .message) := by
  constructor
  · intro a ha
    cases hs : a.isStruct with
    | false => rfl
    | true =>
      exfalso
      obtain ⟨l1, l2, hl12⟩ := List.append_of_mem ha
      have hsplit : I1 ++ (R.aliases.map pa ++ (I2 ++ (R.structs.map mk ++ rest))) =
          (I1 ++ l1.map pa) ++ pa a :: (l2.map pa ++ (I2 ++ (R.structs.map mk ++ rest))) := by
        rw [hl12]; simp [List.append_assoc]
      rw [hsplit] at h
      have := loadEager_none_split h (.sdf, a.target) (by rw [(hpa a ha).2 hs]; simp [Stmt.refs])
      obtain ⟨x, hx, hxs⟩ := isDef_elim this
      rcases mem_defsAfter.mp hx with h0 | ⟨s, hs', hxd⟩
      · simp at h0
      · rcases List.mem_append.mp hs' with h1 | h1
        · rw [hI1 s h1] at hxd; simp at hxd
        · obtain ⟨b, hb, rfl⟩ := List.mem_map.mp h1
          have hbm : b ∈ R.aliases := by rw [hl12]; simp [hb]
          rw [(hpa b hbm).1] at hxd
          simp only [List.mem_singleton] at hxd
          subst hxd
          simp only [sameSlot, Bool.and_eq_true, beq_iff_eq] at hxs
          have hst := ((hR.al a ha).1 hs).1
          exact hD.as _ (List.mem_map.mpr ⟨b, hbm, rfl⟩) (hxs.1 ▸ hst)
  · intro d hd f hf hk
    obtain ⟨l1, l2, hl12⟩ := List.append_of_mem hd
    have hsplit : I1 ++ (R.aliases.map pa ++ (I2 ++ (R.structs.map mk ++ rest))) =
        (I1 ++ (R.aliases.map pa ++ (I2 ++ l1.map mk))) ++ mk d :: (l2.map mk ++ rest) := by
      rw [hl12]; simp [List.append_assoc]
    rw [hsplit] at h
    obtain ⟨id, hh, sz, hmkd⟩ := hmk d
    have := loadEager_none_split h (.mdf, f.ty) (by
      rw [hmkd]; simp only [Stmt.refs]
      exact mem_fieldRefs.mpr ⟨pf f, List.mem_map.mpr ⟨f, hf, rfl⟩, hpf d hd f hf hk⟩)
    obtain ⟨x, hx, hxs⟩ := isDef_elim this
    have hx1 : x.1 ≠ .mdf := by
      rcases mem_defsAfter.mp hx with h0 | ⟨s, hs', hxd⟩
      · simp at h0
      · simp only [List.mem_append, List.mem_map] at hs'
        rcases hs' with h1 | ⟨b, hb, rfl⟩ | h1 | ⟨b, hb, rfl⟩
        · rw [hI1 s h1] at hxd; simp at hxd
        · rw [(hpa b hb).1] at hxd; simp only [List.mem_singleton] at hxd; subst hxd; simp
        · rw [hI2 s h1] at hxd; simp at hxd
        · obtain ⟨id', h', sz', hb'⟩ := hmk b
          rw [hb'] at hxd; simp only [Stmt.defd, List.mem_singleton] at hxd; subst hxd; simp
    simp only [sameSlot, Bool.and_eq_true, beq_iff_eq, Bool.or_eq_true, bne_iff_ne, ne_eq] at hxs
    rcases hxs.2 with h1 | h1
    · exact hx1 h1.symm
    · simp at h1

end Pyrtma.Emit

namespace Pyrtma.Emit

theorem struct_field_ok {T : Tables} {R : Reg} (hR : RegOK T R) {d : DefR} (hd : d ∈ R.structs) {f : FieldR}
    (hf : f ∈ d.fields) : ∃ sn, (∀ y ∈ sn, y ∈ structNames R) ∧ FieldOk T (aliasNames R) sn (goodMsgs R.msgs) f := by
  obtain ⟨p, q, hpq, hok⟩ := defsOk_field hR.st hd
  exact ⟨p.map (·.name), fun y hy => by
    obtain ⟨s', hs', rfl⟩ := List.mem_map.mp hy
    exact List.mem_map.mpr ⟨s', by rw [hpq]; simp [hs'], rfl⟩, hok f hf⟩

theorem tblAlias_struct {T : Tables} {R : Reg} (hD : Disj R) {tbl : List (Name × Den)}
    (htbl : ∀ k, (assoc tbl k).isSome = isNative T k) {a : AliasR}
    (ht : a.target ∈ structNames R) (hn : isNative T a.target = false) :
    tblAlias tbl R a = .aliasR a.name .sdf a.target := by
  have h0 : assoc tbl a.target = none := by
    have : (assoc tbl a.target).isSome = false := by rw [htbl, hn]
    simpa using this
  have h1 : findAlias R a.target = none := by
    cases hf : findAlias R a.target with
    | none => rfl
    | some b => exact absurd ht (hD.as _ (mem_aliasNames_find.mpr (by rw [hf]; rfl)))
  have h2 : (findStruct R a.target).isSome = true := mem_names_find.mp ht
  simp [tblAlias, h0, refAlias, h1, h2]

theorem pyAlias_struct {T : Tables} (hT : TablesTotal T) {a : AliasR} (hn : isNative T a.target = false) :
    pyAlias T a = .aliasR a.name .sdf a.target := by
  have h0 : assoc T.pyCt a.target = none := by
    have : (assoc T.pyCt a.target).isSome = false := by rw [hT.pyCt, hn]
    simpa using this
  simp [pyAlias, h0]

/-- **Python, exactly**: the generated module imports iff no alias targets a struct and no struct has a
message-typed field (the classes of the open findings C15-F3 and C15-F4) -/
theorem py_loads_iff {T : Tables} {R : Reg} (hR : RegOK T R) (hD : Disj R) (hT : TablesTotal T) :
    loads .py (emitPy T R) = true ↔
      (∀ a ∈ R.aliases, a.isStruct = false) ∧ (∀ d ∈ R.structs, ∀ f ∈ d.fields, f.kind ≠ .message) := by
  constructor
  · intro h
    simp only [loads, Option.isNone_iff_eq_none] at h
    have hshape : emitPy T R =
        (R.consts.map (fun c => Stmt.const c.1 c.2.1) ++ R.strs.map (fun c => Stmt.strConst c.1 c.2.1)) ++
        (R.aliases.map (pyAlias T) ++
        ((R.hosts.map (fun c => Stmt.host c.1 c.2.1) ++ R.mods.map (fun c => Stmt.mod c.1 c.2.1) ++
            R.msgIds.map (fun c => Stmt.mt c.1 c.2.1)) ++
        (R.structs.map (pyDef T R .sdf) ++ R.msgs.map (pyDef T R .mdf)))) := by
      simp [emitPy, List.append_assoc]
    rw [hshape] at h
    refine eager_necessary .py hD hR (pyAlias T) (pyField T R) _ _ _ (pyDef T R .sdf) ?_ ?_ ?_ ?_ ?_ h
    · intro s hs
      simp only [List.mem_append, List.mem_map] at hs
      rcases hs with ⟨c, _, rfl⟩ | ⟨c, _, rfl⟩ <;> rfl
    · intro s hs
      simp only [List.mem_append, List.mem_map] at hs
      rcases hs with (⟨c, _, rfl⟩ | ⟨c, _, rfl⟩) | ⟨c, _, rfl⟩ <;> rfl
    · intro a ha
      have hal := hR.al a ha
      cases hs : a.isStruct with
      | false =>
        obtain ⟨d, hd⟩ := pyAlias_native hT (hal.2 hs)
        exact ⟨by rw [hd]; rfl, by simp⟩
      | true =>
        have := pyAlias_struct hT (hal.1 hs).2
        exact ⟨by rw [this]; rfl, fun _ => this⟩
    · intro d; exact ⟨d.id, some d.hash, some d.size, rfl⟩
    · intro d hd f hf hk
      obtain ⟨sn, hsn, hfo⟩ := struct_field_ok hR hd hf
      have := pyField_kind hR hD hT hsn (fun y hy => goodMsgs_sub hy) hfo
      simpa [hk] using this
  · rintro ⟨h1, h2⟩; exact py_loads hR hD hT h1 h2

/-- **MATLAB, exactly** (for a closure that defines `RTMA_MSG_HEADER`, which the trailer of the script reads) -/
theorem m_loads_iff {T : Tables} {R : Reg} (hR : RegOK T R) (hD : Disj R) (hT : TablesTotal T)
    (hhdr : T.hdrName ∈ structNames R) :
    loads .m (emitM T R) = true ↔
      (∀ a ∈ R.aliases, a.isStruct = false) ∧ (∀ d ∈ R.structs, ∀ f ∈ d.fields, f.kind ≠ .message) := by
  constructor
  · intro h
    simp only [loads, Option.isNone_iff_eq_none] at h
    have hshape : emitM T R =
        (R.consts.map (fun c => Stmt.const c.1 c.2.1) ++ R.strs.map (fun c => Stmt.strConst c.1 c.2.1)) ++
        (R.aliases.map (tblAlias T.m R) ++
        ((R.hosts.map (fun c => Stmt.host c.1 c.2.1) ++ R.mods.map (fun c => Stmt.mod c.1 c.2.1) ++
            R.msgIds.map (fun c => Stmt.mt c.1 c.2.1)) ++
        (R.structs.map (mDef T R .sdf) ++ (R.msgs.map (mDef T R .mdf) ++
          (R.msgs.map (fun d => Stmt.hash d.name d.hash) ++ [.use .sdf T.hdrName]))))) := by
      simp [emitM, List.append_assoc]
    rw [hshape] at h
    refine eager_necessary .m hD hR (tblAlias T.m R) (mField T R) _ _ _ (mDef T R .sdf) ?_ ?_ ?_ ?_ ?_ h
    · intro s hs
      simp only [List.mem_append, List.mem_map] at hs
      rcases hs with ⟨c, _, rfl⟩ | ⟨c, _, rfl⟩ <;> rfl
    · intro s hs
      simp only [List.mem_append, List.mem_map] at hs
      rcases hs with (⟨c, _, rfl⟩ | ⟨c, _, rfl⟩) | ⟨c, _, rfl⟩ <;> rfl
    · intro a ha
      have hal := hR.al a ha
      cases hs : a.isStruct with
      | false =>
        obtain ⟨d, hd⟩ := tblAlias_native (R := R) hT.m (hal.2 hs)
        exact ⟨by rw [hd]; rfl, by simp⟩
      | true =>
        have := tblAlias_struct hD hT.m (hal.1 hs).1 (hal.1 hs).2
        exact ⟨by rw [this]; rfl, fun _ => this⟩
    · intro d; exact ⟨none, none, none, rfl⟩
    · intro d hd f hf hk
      obtain ⟨sn, hsn, hfo⟩ := struct_field_ok hR hd hf
      rcases tblTy_kind hD hT.m hsn (fun y hy => goodMsgs_sub hy) hfo with ⟨hkn, _⟩ | ⟨_, hr⟩
      · rw [hk] at hkn; cases hkn
      · simp only [mField]; rw [hr, hk]; rfl
  · rintro ⟨h1, h2⟩; exact m_loads hR hD hT h1 h2 hhdr

/-- **JavaScript, exactly**: the module loads and its factories can be called iff no alias targets a struct -/
theorem js_loads_iff {T : Tables} {R : Reg} (hR : RegOK T R) (hD : Disj R) (hT : TablesTotal T) :
    loads .js (emitJs T R) = true ↔ ∀ a ∈ R.aliases, a.isStruct = false := by
  constructor
  · intro h a ha
    cases hs : a.isStruct with
    | false => rfl
    | true =>
      exfalso
      simp only [loads, Bool.and_eq_true, Option.isNone_iff_eq_none] at h
      have h1 := h.1
      obtain ⟨l1, l2, hl12⟩ := List.append_of_mem ha
      -- take the first alias of a struct: everything before it passes, it does not
      have key : ∀ (l1 : List AliasR) (tail : List Stmt), (∀ b ∈ l1, b ∈ R.aliases) →
          loadJs (l1.map (jsAlias T R) ++ jsAlias T R a :: tail) [.alias] [] ≠ none := by
        intro l1
        induction l1 with
        | nil =>
          intro tail _
          rw [List.map_nil, List.nil_append, jsAlias_struct hD hT ((hR.al a ha).1 hs).1 ((hR.al a ha).1 hs).2]
          exact loadJs_step_bad (sp := .sdf) rfl (by decide)
        | cons b r ih =>
          intro tail hb
          have hbm := hb b (by simp)
          rw [List.map_cons, List.cons_append]
          cases hbs : b.isStruct with
          | false =>
            rw [jsAlias_native hT ((hR.al b hbm).2 hbs),
              loadJs_step_ok (by rfl) (by intro sp hsp; simp only [Stmt.needs, Option.some.injEq] at hsp; subst hsp; decide)]
            exact ih tail (fun c hc => hb c (by simp [hc]))
          | true =>
            rw [jsAlias_struct hD hT ((hR.al b hbm).1 hbs).1 ((hR.al b hbm).1 hbs).2]
            exact loadJs_step_bad (sp := .sdf) rfl (by decide)
      rw [jsShape, loadJs_block _ _ [] [] (by
        intro s hs'
        simp only [List.mem_append, List.mem_map] at hs'
        rcases hs' with ⟨c, _, rfl⟩ | ⟨c, _, rfl⟩ <;> exact ⟨rfl, by simp [Stmt.needs]⟩)] at h1
      simp only [loadJs] at h1
      rw [hl12, List.map_append, List.map_cons, List.append_assoc, List.append_assoc, List.cons_append] at h1
      exact key l1 _ (fun b hb => by rw [hl12]; simp [hb]) h1
  · exact js_loads hR hD hT

end Pyrtma.Emit

namespace Pyrtma.Emit

/-! ## no back end raises while printing a well-scoped registry -/

def stmtBad : Stmt → Bool
  | .bad => true
  | .defn _ _ _ _ _ fs => fs.any FieldS.isBad
  | _ => false

theorem progBad_eq (prog : List Stmt) : progBad prog = prog.any stmtBad := by
  simp only [progBad]
  congr 1

theorem fields_notBad {fs : List FieldR} {pf : FieldR → FieldS} (h : ∀ f ∈ fs, (pf f).ty ≠ .bad) :
    (fs.map pf).any FieldS.isBad = false := by
  rw [List.any_eq_false]
  intro g hg
  obtain ⟨f, hf, rfl⟩ := List.mem_map.mp hg
  simpa [FieldS.isBad] using h f hf

theorem def_field_ok {T : Tables} {R : Reg} (hR : RegOK T R) {d : DefR} (hd : d ∈ R.structs ∨ d ∈ R.msgs) {f : FieldR}
    (hf : f ∈ d.fields) : ∃ sn mn, (∀ y ∈ sn, y ∈ structNames R) ∧ (∀ y ∈ mn, y ∈ R.msgs.map (·.name)) ∧
      FieldOk T (aliasNames R) sn mn f := by
  rcases hd with hd | hd
  · obtain ⟨sn, hsn, hfo⟩ := struct_field_ok hR hd hf
    exact ⟨sn, _, hsn, fun y hy => goodMsgs_sub hy, hfo⟩
  · obtain ⟨p, q, hpq, hok⟩ := defsOk_field hR.ms hd
    exact ⟨_, goodMsgs p, fun y hy => hy, fun y hy => by
      obtain ⟨s', hs', _, rfl⟩ := mem_goodMsgs.mp hy
      exact List.mem_map.mpr ⟨s', by rw [hpq]; simp [hs'], rfl⟩, hok f hf⟩

theorem tblField_notBad {T : Tables} {R : Reg} (hR : RegOK T R) (hD : Disj R) {tbl : List (Name × Den)}
    (htbl : ∀ k, (assoc tbl k).isSome = isNative T k) {d : DefR} (hd : d ∈ R.structs ∨ d ∈ R.msgs) :
    ∀ f ∈ d.fields, tblTy tbl R f.ty ≠ .bad := by
  intro f hf
  obtain ⟨sn, mn, hsn, hmn, hfo⟩ := def_field_ok hR hd hf
  rcases tblTy_kind hD htbl hsn hmn hfo with ⟨_, x, hx⟩ | ⟨_, hr⟩
  · rw [hx]; simp
  · rw [hr]; simp

theorem tblAlias_notBad {T : Tables} {R : Reg} (hR : RegOK T R) (hD : Disj R) {tbl : List (Name × Den)}
    (htbl : ∀ k, (assoc tbl k).isSome = isNative T k) {a : AliasR} (ha : a ∈ R.aliases) :
    stmtBad (tblAlias tbl R a) = false := by
  have hal := hR.al a ha
  cases hs : a.isStruct with
  | false => obtain ⟨d, hd⟩ := tblAlias_native (R := R) htbl (hal.2 hs); rw [hd]; rfl
  | true => rw [tblAlias_struct hD htbl (hal.1 hs).1 (hal.1 hs).2]; rfl

theorem py_notBad {T : Tables} {R : Reg} (hR : RegOK T R) (hD : Disj R) (hT : TablesTotal T) :
    progBad (emitPy T R) = false := by
  rw [progBad_eq, List.any_eq_false]
  intro s hs
  have hdef : ∀ sp d, (d ∈ R.structs ∨ d ∈ R.msgs) → stmtBad (pyDef T R sp d) = false := by
    intro sp d hd
    simp only [pyDef, stmtBad]
    apply fields_notBad
    intro f hf
    obtain ⟨sn, mn, hsn, hmn, hfo⟩ := def_field_ok hR hd hf
    have := pyField_kind hR hD hT hsn hmn hfo
    cases hk : f.kind <;> simp only [hk] at this
    · obtain ⟨x, hx⟩ := this; rw [hx]; simp
    · obtain ⟨a, _, _, ⟨_, x, hx⟩ | ⟨_, hx⟩⟩ := this <;> rw [hx] <;> simp
    · rw [this]; simp
    · rw [this]; simp
  simp only [emitPy, List.mem_append, List.mem_map] at hs
  rcases hs with ((((((⟨c, _, rfl⟩ | ⟨c, _, rfl⟩) | ⟨a, ha, rfl⟩) | ⟨c, _, rfl⟩) | ⟨c, _, rfl⟩) | ⟨c, _, rfl⟩) |
    ⟨d, hd, rfl⟩) | ⟨d, hd, rfl⟩
  all_goals try (simp [stmtBad]; done)
  · have hal := hR.al a ha
    cases hsa : a.isStruct with
    | false => obtain ⟨d, hd⟩ := pyAlias_native hT (hal.2 hsa); rw [hd]; simp [stmtBad]
    | true => rw [pyAlias_struct hT (hal.1 hsa).2]; simp [stmtBad]
  · simpa using hdef .sdf d (.inl hd)
  · simpa using hdef .mdf d (.inr hd)

theorem m_notBad {T : Tables} {R : Reg} (hR : RegOK T R) (hD : Disj R) (hT : TablesTotal T) :
    progBad (emitM T R) = false := by
  rw [progBad_eq, List.any_eq_false]
  intro s hs
  simp only [emitM, List.mem_append, List.mem_map, List.mem_singleton] at hs
  rcases hs with ((((((((⟨c, _, rfl⟩ | ⟨c, _, rfl⟩) | ⟨a, ha, rfl⟩) | ⟨c, _, rfl⟩) | ⟨c, _, rfl⟩) | ⟨c, _, rfl⟩) |
    ⟨d, hd, rfl⟩) | ⟨d, hd, rfl⟩) | ⟨d, _, rfl⟩) | rfl
  all_goals try (simp [stmtBad]; done)
  · simpa using tblAlias_notBad hR hD hT.m ha
  · simp only [mDef, stmtBad, Bool.not_eq_true]
    exact fields_notBad (pf := mField T R) (tblField_notBad hR hD hT.m (.inl hd))
  · simp only [mDef, stmtBad, Bool.not_eq_true]
    exact fields_notBad (pf := mField T R) (tblField_notBad hR hD hT.m (.inr hd))

end Pyrtma.Emit

namespace Pyrtma.Emit

theorem c_notBad {T : Tables} {R : Reg} (hR : RegOK T R) (hD : Disj R) (hT : TablesTotal T) :
    progBad (emitC T R) = false := by
  rw [progBad_eq, List.any_eq_false]
  intro s hs
  simp only [emitC, List.mem_append, List.mem_map, List.mem_flatten] at hs
  rcases hs with (((((((⟨c, _, rfl⟩ | ⟨c, _, rfl⟩) | ⟨a, ha, rfl⟩) | ⟨c, _, rfl⟩) | ⟨c, _, rfl⟩) | ⟨c, _, rfl⟩) |
    ⟨l, ⟨d, hd, rfl⟩, hsl⟩) | ⟨l, ⟨d, hd, rfl⟩, hsl⟩) | ⟨d, _, rfl⟩
  all_goals try (simp [stmtBad]; done)
  · simpa using tblAlias_notBad hR hD hT.c (List.mem_filter.mp ha).1
  · simp only [cDef] at hsl
    split at hsl
    · simp at hsl
    · simp only [List.mem_singleton] at hsl; subst hsl
      simp only [stmtBad, Bool.not_eq_true]
      exact fields_notBad (pf := cField T R) (tblField_notBad hR hD hT.c (.inl (List.mem_filter.mp hd).1))
  · simp only [cDef] at hsl
    split at hsl
    · simp at hsl
    · simp only [List.mem_singleton] at hsl; subst hsl
      simp only [stmtBad, Bool.not_eq_true]
      exact fields_notBad (pf := cField T R) (tblField_notBad hR hD hT.c (.inr (List.mem_filter.mp hd).1))

theorem js_notBad {T : Tables} {R : Reg} (hR : RegOK T R) (hD : Disj R) (hT : TablesTotal T) :
    progBad (emitJs T R) = false := by
  rw [progBad_eq, List.any_eq_false]
  intro s hs
  have hdef : ∀ sp d, (d ∈ R.structs ∨ d ∈ R.msgs) → stmtBad (jsDef T R sp d) = false := by
    intro sp d hd
    simp only [jsDef, stmtBad]
    apply fields_notBad
    intro f hf
    obtain ⟨sn, mn, hsn, hmn, hfo⟩ := def_field_ok hR hd hf
    have hj := jsTy_kind hD hT hsn hmn hfo
    unfold jsField
    split
    · split
      · simp
      · rcases hj with ⟨_, hx⟩ | ⟨_, hx⟩ <;> simp [hx]
    · rcases hj with ⟨_, hx⟩ | ⟨_, hx⟩ <;> simp [hx]
  rw [jsShape] at hs
  simp only [List.mem_append, List.mem_cons, List.mem_map] at hs
  rcases hs with (⟨c, _, rfl⟩ | ⟨c, _, rfl⟩) | rfl | (⟨a, ha, rfl⟩ | ⟨c, _, rfl⟩ | ⟨c, _, rfl⟩ | ⟨c, _, rfl⟩) | rfl |
    ⟨d, hd, rfl⟩ | rfl | ⟨d, hd, rfl⟩ | ⟨d, _, rfl⟩
  all_goals try (simp [stmtBad]; done)
  · have hal := hR.al a ha
    cases hsa : a.isStruct with
    | false => rw [jsAlias_native hT (hal.2 hsa)]; simp [stmtBad]
    | true => rw [jsAlias_struct hD hT (hal.1 hsa).1 (hal.1 hsa).2]; simp [stmtBad]
  · simpa using hdef .sdf d (.inl hd)
  · simpa using hdef .mdf d (.inr hd)

end Pyrtma.Emit

namespace Pyrtma.Emit
open Pyrtma.Layout in
theorem layoutDef_out_nonempty {T : Tables} {R : Reg} {ap : Bool} {fs fs' : List FieldR} {al sz : Nat}
    (hf : ∀ x ∈ fs, AlDiv x.align x.esize) (h : layoutDef T R ap fs = .ok (fs', al, sz)) : fs'.isEmpty = false := by
  unfold layoutDef at h
  split at h
  · simp at h
  · rename_i hne
    split at h
    · simp at h
    · simp at h
    · rename_i o hc
      split at h
      · simp at h
      · split at h
        · simp at h
        · rename_i hs
          simp at h
          obtain ⟨rfl, _, _⟩ := h
          have hw := toFld_wf hf
          have hne' : (fs.map FieldR.toFld).isEmpty = false := by cases fs <;> simp_all
          have hv := validate_of_check hne' hc hs
          obtain ⟨_, _, _, _, _, _, _, hus, hpd, _, hon⟩ := C11.accepted_facts hw hv
          have := congrArg List.length (rebuild_toFld T o.fields fs 0 hus hpd)
          simp only [List.length_map] at this
          cases hr : rebuild T o.fields fs 0 with
          | nil => rw [hr] at this; simp at this; exact absurd (List.length_eq_zero_iff.mp this.symm) hon
          | cons _ _ => rfl

/-- the parser never stores a struct without fields -/
def StructsNE (R : Reg) : Prop := ∀ d ∈ R.structs, d.fields.isEmpty = false

theorem elabItem_structsNE {T : Tables} (hT : TablesWf T) {ap c : Bool} {R R' : Reg} {it : Item} (hW : RegWf R)
    (hN : StructsNE R) (h : elabItem T ap c R it = .ok R') : StructsNE R' := by
  obtain ⟨e, he, rfl⟩ := elabItem_ok h
  cases it with
  | struct n hs f =>
    simp only [delta, deltaDef] at he
    cases hsf : specFields T R f with
    | error e' => simp [hsf] at he
    | ok fs =>
      simp only [hsf] at he
      cases hl : layoutDef T R ap fs with
      | error e' => simp [hl] at he
      | ok v =>
        obtain ⟨fs', al, sz⟩ := v
        simp only [hl, Except.ok.injEq] at he
        subst he
        intro d hd
        simp only [Reg.push, List.mem_append, List.mem_singleton] at hd
        rcases hd with hd | rfl
        · exact hN d hd
        · exact layoutDef_out_nonempty (specFields_wf hT hW hsf) hl
  | alias n t =>
    intro d hd
    simp only [delta, deltaAlias] at he
    split at he
    · simp at he; subst he; exact hN d hd
    · split at he
      · simp at he; subst he; exact hN d hd
      · split at he
        · simp at he; subst he; exact hN d hd
        · simp at he
  | message n id hs f =>
    intro d hd
    simp only [delta] at he
    split at he
    · simp at he
    · split at he
      · simp at he
      · simp at he; subst he; exact hN d hd
  | signal n id hs =>
    intro d hd
    simp only [delta] at he
    split at he
    · simp at he
    · simp at he; subst he; exact hN d hd
  | reserved n id hs =>
    intro d hd
    simp only [delta] at he
    split at he
    · simp at he
    · simp at he; subst he; exact hN d hd
  | const n v => simp [delta] at he; subst he; exact hN
  | strConst n v => simp [delta] at he; subst he; exact hN
  | hostId n v => simp [delta] at he; subst he; exact hN
  | moduleId n v => simp [delta] at he; subst he; exact hN

theorem elaborate_structsNE {T : Tables} (hT : TablesWf T) {ap : Bool} :
    ∀ (l : List (Bool × Item)) {R R' : Reg}, RegWf R → StructsNE R → elaborate T ap l R = .ok R' → StructsNE R'
  | [], R, R', _, hN, h => by simp [elaborate] at h; subst h; exact hN
  | x :: l, R, R', hW, hN, h => by
    obtain ⟨R1, hx, hl⟩ := elaborate_cons_ok.mp h
    exact elaborate_structsNE hT l (elabItem_wf hT hW hx) (elabItem_structsNE hT hW hN hx) hl

end Pyrtma.Emit
