import Pyrtma.Proofs.ManagerSimOwed
import Pyrtma.Proofs.ManagerSimSeg
/-!
# The counted lower bound of `Spec.checkData` (C14) on the model's events of one data frame

From the simulation relation at the start of the segment to the hypotheses of `fwdTop_owed`
(`ManagerSimOwed.lean`): the observers of the Spec are stable to the end of the forward (they are not failing: `Pres.keep`),
the subscribers that are not ready and are no loggers are never written to (`NW`), the failing ones that hear none of the
manager's notices are untouched until their turn (`NoSub`).
-/
namespace Pyrtma.Mgr
open Spec

theorem fcnt_sends (o : Nat) (B : Body) (evs : List Ev) :
    ((sends evs).filter (fun p => p.1 == o && p.2.2.body == B)).length = fcnt o B evs := by
  unfold fcnt sends
  induction evs with
  | nil => rfl
  | cons e rest ih =>
    cases e with
    | send o' c f =>
      simp only [List.filterMap_cons, List.filter_cons, List.countP_cons]
      split <;> simp_all
    | _ => simpa [List.filterMap_cons, List.countP_cons] using ih

theorem fwdTop_KOK {cfg : Cfg} (hsub : OrdSub cfg) (u : Nat) : KOK cfg u (fwdTop cfg) :=
  fun s g hq => forward_KOK hsub u _ s g hq

theorem fwdTop_owed {cfg : Cfg} (ok : CfgOK cfg) (hall : OrdAll cfg) (hsub : OrdSub cfg) (hfuel : cfg.fuel = 0)
    {s : State} (h : Good cfg s) (g : Frame) (hg : inGuard cfg g.mtype = false) (hin : oor cfg g = false) :
    ∃ ext, (fwdTop cfg s g).out = s.out ++ ext ∧
      ∀ o d (U : List Nat), StableF cfg (fwdTop cfg s g) o → U.Nodup →
        (∀ u ∈ U, Owed cfg g.mtype d (fwdTop cfg s g) u ∨ (FailOwed cfg g d s u ∧ u ∈ idxGet s.idx g.mtype)) →
        U.length ≤ fcnt o (.failed d g.mtype g.src g.dest) ext :=
  fwdTop_FOK ok hall hsub hfuel (need cfg s g) s g h (Nat.le_refl _) hg hin

theorem ordSub_of_perm {cfg : Cfg} (h : OrdPerm cfg) : OrdSub cfg := fun l _ hx => (h l).subset hx

/-- who can take a FAILED_MESSAGE and is not failing still can after nested activity -/
theorem stableF_keep {cfg : Cfg} {s s' : State} (p : Pres s s') (n : Nest s s') (o : Nat) (h : StableF cfg s o) :
    StableF cfg s' o := by
  obtain ⟨m, hm, hc, hf, hi, hw⟩ := h
  have hk := p.keep o hf
  rw [hm] at hk
  cases hm' : s'.find o with
  | none => rw [hm'] at hk; cases hk
  | some m' =>
    rw [hm'] at hk
    have e : m'.core = m.core := by simpa using hk
    obtain ⟨e1, _, e3, _⟩ := core_fields e
    have hop : openIn s' o := ⟨m', hm', by rw [e1]; exact hc⟩
    refine ⟨m', hm', by rw [e1]; exact hc, by rw [failOf_congr n.fail]; exact hf, ?_, ?_⟩
    · exact hi.imp (fun x => n.idxKeep _ _ x hop) (fun x => n.idxKeep _ _ x hop)
    · rw [n.wlist, e3]; exact hw

section link
variable {cfg : Cfg} {A0 : A} {s0 : State} (hs0 : SimM cfg A0 s0)
include hs0

/-- the table entry of a module the Spec considers alive -/
theorem sim_entry {am : AMod} (hmem : am ∈ A0.mods) (hal : am.alive = true) :
    am.uid ≠ 0 ∧ A0.live am.uid = some am ∧ ∃ mm, s0.find am.uid = some mm ∧ SimMod cfg am mm := by
  have h0 := uid_pos hs0.uids hmem
  have hl := live_of_mem (uids_nodup hs0.uids) hmem hal
  have := (hs0.live am.uid h0).mp (by simp [hl])
  cases hf : s0.find am.uid with
  | none => simp [hf] at this
  | some mm => exact ⟨h0, hl, mm, rfl, hs0.mods am.uid am mm hl hf⟩

theorem sim_sub {am : AMod} {mm : Module} (hf : s0.find am.uid = some mm) (hsm : SimMod cfg am mm) (t : Int)
    (hsb : subscribed am t = true) : am.uid ∈ idxGet s0.idx t ∨ am.uid ∈ idxGet s0.idx cfg.allTypes := by
  unfold subscribed at hsb
  have hs := hsm.subs
  cases hall : am.subAll with
  | true =>
    rw [hall] at hs
    exact Or.inr (hs0.idxIn am.uid mm cfg.allTypes hf (by rw [hs]; simp))
  | false =>
    rw [hall] at hs hsb
    simp only [Bool.false_or, Bool.false_eq_true, if_false] at hs hsb
    exact Or.inl (hs0.idxIn am.uid mm t hf (by rw [hs]; simpa using hsb))

theorem sim_wlist {am : AMod} (hl : A0.live am.uid = some am) : A0.w.contains am.uid = true ↔ am.uid ∈ s0.wlist := by
  rw [List.contains_iff_mem]
  exact hs0.w am.uid (by simp [hl])

end link

section c5
variable {cfg : Cfg} (ok : CfgOK cfg) (hfuel : cfg.fuel = 0) (hperm : OrdPerm cfg)
include ok hfuel hperm

/-- **the counted clause of `Spec.checkData`** on the events of a data frame: DEBUG log line, forward, then nested
    activity only -/
theorem data_c5 {A0 : A} {s0 : State} (hs0 : SimM cfg A0 s0) (t0 : Top cfg s0) (h : Hdr) (fr : Frame)
    (hft : fr.mtype = h.mtype) (hfs : fr.src = h.src) (hfd : fr.dest = h.dest) (hfh : fr.destHost = h.destHost)
    (s2 : State) (evs : List Ev) (he : s2.out = s0.out ++ evs)
    (n2 : Nest (fwdTop cfg (logAt cfg (fwdTop cfg) 10 s0) fr) s2)
    (hin : inRangeH cfg h = true) (hg : inGuard cfg h.mtype = false) :
    ∀ o ∈ dobservers cfg A0, ∀ m ∈ dundeliv cfg A0 h,
      ((dundeliv cfg A0 h).filter (·.modId == m.modId)).length ≤
        ((sends evs).filter (fun p => p.1 == o.uid && p.2.2.body == .failed m.modId h.mtype h.src h.dest)).length := by
  intro o ho m _
  have hall : OrdAll cfg := OrdAll_of_perm hperm
  have hsub : OrdSub cfg := ordSub_of_perm hperm
  have nL := logTop_nest cfg 10 s0
  have pL : Pres s0 (logAt cfg (fwdTop cfg) 10 s0) := logAt_presAny cfg 10 s0
  have tL : Top cfg (logAt cfg (fwdTop cfg) 10 s0) := top_log ok hfuel t0 10
  have kL : ∀ u, QU cfg s0 u → CE (logAt cfg (fwdTop cfg) 10 s0) s0 u := fun u hq => k_logAt (fwdTop_KOK hsub u) 10 s0 hq
  generalize logAt cfg (fwdTop cfg) 10 s0 = sL at nL pL tL kL n2
  have nF := fwdTop_nest cfg sL fr
  have pF : Pres sL (fwdTop cfg sL fr) := fwdTop_presAny cfg sL fr
  have hoor : oor cfg fr = false := by
    unfold oor; rw [hfd, hfh]
    unfold inRangeH at hin
    simp only [Bool.not_eq_true', Bool.or_eq_false_iff] at hin
    simp only [Bool.or_eq_false_iff]
    exact ⟨⟨hin.1.1.1, hin.1.1.2⟩, hin.1.2, hin.2⟩
  obtain ⟨eF, oF, x⟩ := fwdTop_owed ok hall hsub hfuel tL.good fr (by rw [hft]; exact hg) hoor
  have kF : ∀ u, NW sL u → CE (fwdTop cfg sL fr) sL u := fun u hq => fwdTop_KOK hsub u sL fr (Or.inr hq)
  generalize fwdTop cfg sL fr = sF at nF pF oF x kF n2
  obtain ⟨eL, oL, _, _⟩ := nL.ext
  obtain ⟨eQ, oQ, _, _⟩ := n2.ext
  have hevs : evs = eL ++ eF ++ eQ := by
    have : s0.out ++ evs = s0.out ++ (eL ++ eF ++ eQ) := by rw [← he, oQ, oF, oL]; simp
    exact List.append_cancel_left this
  rw [fcnt_sends, hevs, fcnt_append, fcnt_append, ← hft, ← hfs, ← hfd]
  -- the subscribers the clause counts
  have hsl : ((dundeliv cfg A0 h).filter (·.modId == m.modId)).Sublist A0.mods := by
    unfold dundeliv
    exact (List.filter_sublist.trans List.filter_sublist).trans List.filter_sublist
  have hnd : (((dundeliv cfg A0 h).filter (·.modId == m.modId)).map (·.uid)).Nodup :=
    (uids_nodup hs0.uids).sublist (hsl.map _)
  have hlen : (((dundeliv cfg A0 h).filter (·.modId == m.modId)).map (·.uid)).length =
      ((dundeliv cfg A0 h).filter (·.modId == m.modId)).length := List.length_map _
  rw [← hlen]
  refine Nat.le_trans (x o.uid m.modId _ ?_ hnd ?_) (by omega)
  · -- the observer
    obtain ⟨homem, hoc⟩ := List.mem_filter.mp ho
    simp only [Bool.and_eq_true, Bool.not_eq_true'] at hoc
    obtain ⟨⟨⟨hoal, hosb⟩, hord⟩, hofl⟩ := hoc
    obtain ⟨_, hol, mo, hmo, hsm⟩ := sim_entry hs0 homem hoal
    have st0 : StableF cfg s0 o.uid := by
      refine ⟨mo, hmo, t0.aopen _ _ hmo, (failing_iff hs0.fail _).mp hofl, sim_sub hs0 hmo hsm _ hosb, ?_⟩
      unfold ready at hord
      rcases Bool.or_eq_true _ _ |>.mp hord with hw | hlg
      · exact Or.inl ((sim_wlist hs0 hol).mp hw)
      · exact Or.inr (by rw [← hsm.isLogger]; exact hlg)
    exact stableF_keep pF nF _ (stableF_keep pL nL _ st0)
  · -- the subscribers
    intro u hu
    obtain ⟨am, ham, rfl⟩ := List.mem_map.mp hu
    obtain ⟨hamU, hamd⟩ := List.mem_filter.mp ham
    have hamd' : am.modId = m.modId := by simpa using hamd
    unfold dundeliv at hamU
    obtain ⟨hamS, hcond⟩ := List.mem_filter.mp hamU
    obtain ⟨hamem, hsa⟩ := List.mem_filter.mp hamS
    simp only [Bool.and_eq_true] at hsa
    obtain ⟨haal, hasb⟩ := hsa
    obtain ⟨_, hal, mm, hmm, hsm⟩ := sim_entry hs0 hamem haal
    have hcl : mm.closed = false := t0.aopen _ _ hmm
    have hmd : mm.modId = m.modId := by rw [← hsm.modId]; exact hamd'
    simp only [Bool.and_eq_true, Bool.or_eq_true] at hcond
    obtain ⟨hdst, hkind⟩ := hcond
    rcases hkind with hnw | hfl
    · -- not ready to accept data, no logger: never written to
      left
      simp only [Bool.not_eq_true'] at hnw
      have hnl : mm.isLogger = false := by rw [← hsm.isLogger]; exact hnw.1
      have hnwl : am.uid ∉ s0.wlist := fun hx => by
        have := (sim_wlist hs0 hal).mpr hx
        rw [hnw.2] at this; cases this
      have nw0 : NW s0 am.uid := ⟨hnwl, fun x hx => by rw [hmm] at hx; cases hx; exact hnl⟩
      have c1 := kL am.uid (Or.inr nw0)
      have nw1 := nw_ce nw0 c1 nL.wlist
      have c2 := (kF am.uid nw1).trans c1
      obtain ⟨m2, hm2, e⟩ := ce_some c2 hmm
      obtain ⟨e1, e2, e3, _⟩ := core_fields e
      have hop : openIn sF am.uid := ⟨m2, hm2, by rw [e1]; exact hcl⟩
      refine ⟨m2, hm2, by rw [e1]; exact hcl, by rw [e2]; exact hmd, by rw [e3]; exact hnl,
        by rw [nF.wlist, nL.wlist]; exact hnwl, ?_⟩
      rw [hft]
      exact (sim_sub hs0 hmm hsm _ hasb).imp (fun y => nF.idxKeep _ _ (nL.idxKeep _ _ y (nF.stay _ hop)) hop)
        (fun y => nF.idxKeep _ _ (nL.idxKeep _ _ y (nF.stay _ hop)) hop)
    · -- its connection fails and it hears none of the manager's notices: untouched until its turn
      right
      simp only [Bool.not_eq_true'] at hfl
      obtain ⟨⟨hrd, hfa⟩, hhn⟩ := hfl
      unfold hearsNotices at hhn
      simp only [Bool.or_eq_false_iff] at hhn
      obtain ⟨hsAll, htys⟩ := hhn
      have hsubs : mm.subs = am.types := by rw [hsm.subs, hsAll]; rfl
      have hns : NoSub cfg s0 am.uid := by
        have key : ∀ t, am.uid ∈ idxGet s0.idx t → t ∈ am.types := by
          intro t ht
          obtain ⟨m', hm', hts⟩ := t0.good.inv.sub t _ ht
          rw [hmm] at hm'; cases hm'
          rw [← hsubs]; exact hts
        refine ⟨fun t ht hmem => ?_, fun hmem => hsm.noAll (key _ hmem)⟩
        have := List.any_eq_false.mp htys t (key t hmem)
        simp only [Bool.or_eq_true, not_or, Bool.not_eq_true] at this
        rcases ht with ht | ht
        · rw [ht] at this; exact absurd this.2 (by simp)
        · rw [ht] at this; simp at this
      have hff : failOf s0 am.uid ≠ none := fun hx => by
        have := (failing_iff hs0.fail am.uid).mpr hx
        rw [hfa] at this; cases this
      have hdl : (am.uid ∈ s0.wlist ∧ (fr.dest = 0 ∨ mm.modId = fr.dest ∨ mm.isLogger = true)) ∨
          (am.uid ∉ s0.wlist ∧ mm.isLogger = true) := by
        by_cases hw : am.uid ∈ s0.wlist
        · left
          refine ⟨hw, ?_⟩
          rw [hfd, ← hsm.modId]
          rcases hdst with y | y
          · exact Or.inl (by simpa using y)
          · exact Or.inr (Or.inl (by simpa using y))
        · right
          refine ⟨hw, ?_⟩
          unfold ready at hrd
          rcases Bool.or_eq_true _ _ |>.mp hrd with y | y
          · exact absurd ((sim_wlist hs0 hal).mp y) hw
          · rw [← hsm.isLogger]; exact y
      have fo0 : FailOwed cfg fr m.modId s0 am.uid := ⟨mm, hmm, hcl, hmd, hff, hdl, hns⟩
      have c1 := kL am.uid (Or.inl hns)
      refine ⟨failOwed_same fo0 c1 nL.fail nL.wlist (hns.nest nL), ?_⟩
      obtain ⟨m1, hm1, e⟩ := ce_some c1 hmm
      have hop : openIn sL am.uid := ⟨m1, hm1, by rw [(core_fields e).1]; exact hcl⟩
      rw [hft]
      have hty : h.mtype ∈ am.types := by
        unfold subscribed at hasb
        rw [hsAll] at hasb
        simpa using hasb
      exact nL.idxKeep _ _ (hs0.idxIn am.uid mm h.mtype hmm (by rw [hsubs]; exact hty)) hop

end c5

end Pyrtma.Mgr
