import Pyrtma.Proofs.Loads
/-!
# The four outputs denote the same wire format (C04), for every registry the parser can produce

* `LensPos`: no stored field has the array length 0 (user lengths are ≥ 1, inserted padding is ≥ 1 byte);
* per field, by the kind the parser recorded: the element types the four back ends print — resolved through the
  alias lines of the same output — are the same reference or denote compatible native types; the element counts agree;
* the id / hash / constant projections of the four programs are the registry's lists.
-/
namespace Pyrtma.Emit
open Pyrtma.Layout

/-! ## array lengths are never 0 -/

theorem lead_lens (ap : Bool) : ∀ (fs : List Fld) (ptr : Nat) (r : List (Fld × Nat)) (e : Nat),
    lead ap fs ptr = .ok (r, e) → (∀ f ∈ fs, f.len ≠ some 0 ∧ 0 < f.align) → ∀ q ∈ r, q.1.len ≠ some 0
  | [], _, r, e, h, _, q, hq => by simp [lead] at h; rw [h.1] at hq; simp at hq
  | f :: fs, ptr, r, e, h, hf, q, hq => by
    unfold lead at h
    have hf0 := hf f (by simp)
    have hfs : ∀ g ∈ fs, g.len ≠ some 0 ∧ 0 < g.align := fun g hg => hf g (by simp [hg])
    split at h
    · split at h
      · rename_i r' e' hl
        simp at h; obtain ⟨rfl, rfl⟩ := h
        simp only [List.mem_cons] at hq
        rcases hq with rfl | hq
        · exact hf0.1
        · exact lead_lens ap fs _ r' e' hl hfs q hq
      · simp at h
    · rename_i hmod
      split at h
      · simp at h
      · simp only [] at h
        split at h
        · rename_i r' e' hl
          simp at h; obtain ⟨rfl, rfl⟩ := h
          simp only [List.mem_cons] at hq
          rcases hq with rfl | rfl | hq
          · simp only [padFld, ne_eq, Option.some.injEq]
            have := Nat.mod_lt ptr hf0.2
            omega
          · exact hf0.1
          · exact lead_lens ap fs _ r' e' hl hfs q hq
        · simp at h

theorem checkAlignment_lens {ap : Bool} {fs : List Fld} {o : Out} (h : checkAlignment ap fs = .ok o)
    (hf : ∀ f ∈ fs, f.len ≠ some 0 ∧ 0 < f.align) : ∀ q ∈ o.fields, q.1.len ≠ some 0 := by
  unfold checkAlignment at h
  split at h
  · simp at h
  · rename_i lf ptr hl
    have hlf := lead_lens ap fs 0 lf ptr hl hf
    split at h
    · simp at h
    · unfold finish at h
      split at h
      · simp at h; subst h; exact hlf
      · simp at h
    · rename_i p _
      split at h
      · simp at h
      · unfold finish at h
        split at h
        · simp at h; subst h
          intro q hq
          simp only [List.mem_append, List.mem_singleton] at hq
          rcases hq with hq | rfl
          · exact hlf q hq
          · simp [trailPad]
        · simp at h

theorem rebuild_lens (T : Tables) : ∀ (l : List (Fld × Nat)) (us : List FieldR) (k : Nat),
    (∀ q ∈ l, q.1.len ≠ some 0) → (∀ u ∈ us, u.len ≠ some 0) → ∀ x ∈ rebuild T l us k, x.len ≠ some 0
  | [], _, _, _, _, x, hx => by simp [rebuild] at hx
  | (fl, o) :: r, us, k, hl, hu, x, hx => by
    unfold rebuild at hx
    have hr : ∀ q ∈ r, q.1.len ≠ some 0 := fun q hq => hl q (by simp [hq])
    split at hx
    · simp only [List.mem_cons] at hx
      rcases hx with rfl | hx
      · exact hl (fl, o) (by simp)
      · exact rebuild_lens T r us (k + 1) hr hu x hx
    · split at hx
      · rename_i u us'
        simp only [List.mem_cons] at hx
        rcases hx with rfl | hx
        · exact hu _ (by simp)
        · exact rebuild_lens T r us' k hr (fun v hv => hu v (by simp [hv])) x hx
      · exact rebuild_lens T r [] k hr (by simp) x hx

theorem layoutDef_lens {T : Tables} {R : Reg} {ap : Bool} {fs fs' : List FieldR} {al sz : Nat}
    (hf : ∀ x ∈ fs, AlDiv x.align x.esize) (hl : ∀ x ∈ fs, x.len ≠ some 0)
    (h : layoutDef T R ap fs = .ok (fs', al, sz)) : ∀ x ∈ fs', x.len ≠ some 0 := by
  unfold layoutDef at h
  split at h
  · simp at h
  · split at h
    · simp at h
    · simp at h
    · rename_i o hc
      split at h
      · simp at h
      · split at h
        · simp at h
        · simp at h
          obtain ⟨rfl, _, _⟩ := h
          apply rebuild_lens T _ _ _ _ hl
          apply checkAlignment_lens hc
          intro g hg
          obtain ⟨x, hx, rfl⟩ := List.mem_map.mp hg
          refine ⟨by simpa [FieldR.toFld] using hl x hx, ?_⟩
          have := (hf x hx).1
          unfold Al at this
          simp only [FieldR.toFld]; omega

end Pyrtma.Emit

namespace Pyrtma.Emit

def LensPos (R : Reg) : Prop :=
  (∀ d ∈ R.structs, ∀ f ∈ d.fields, f.len ≠ some 0) ∧ (∀ d ∈ R.msgs, ∀ f ∈ d.fields, f.len ≠ some 0)

theorem elabFields_lens {T : Tables} {R : Reg} : ∀ {fs : List (Name × Name × Option Int)} {xs : List FieldR},
    elabFields T R fs = .ok xs → ∀ x ∈ xs, x.len ≠ some 0
  | [], xs, h, x, hx => by simp [elabFields] at h; subst h; simp at hx
  | f :: fs, xs, h, x, hx => by
    unfold elabFields at h
    split at h
    · simp at h
    · rename_i y hy
      split at h
      · simp at h
      · rename_i ys hys
        simp at h; subst h
        simp only [List.mem_cons] at hx
        rcases hx with rfl | hx
        · unfold elabField at hy
          split at hy
          · simp at hy
          · split at hy
            · simp at hy
            · split at hy
              · simp at hy; subst hy; simp
              · split at hy
                · simp at hy
                · rename_i l _ hl
                  simp at hy; subst hy
                  simp only [ne_eq, Option.some.injEq]
                  omega
        · exact elabFields_lens hys x hx

theorem specFields_lens {T : Tables} {R : Reg} (hL : LensPos R) {sp : FieldsSpec} {fs : List FieldR}
    (h : specFields T R sp = .ok fs) : ∀ x ∈ fs, x.len ≠ some 0 := by
  cases sp with
  | list l => exact elabFields_lens h
  | reuse m =>
    simp only [specFields] at h
    split at h
    · rename_i d hd
      simp at h; subst h
      exact hL.2 d (find_name (nm := fun a : DefR => a.name) hd).1
    · split at h
      · rename_i d hd
        simp at h; subst h
        exact hL.1 d (find_name (nm := fun a : DefR => a.name) hd).1
      · simp at h

theorem elabItem_lens {T : Tables} (hT : TablesWf T) {ap c : Bool} {R R' : Reg} {it : Item} (hW : RegWf R)
    (hL : LensPos R) (h : elabItem T ap c R it = .ok R') : LensPos R' := by
  obtain ⟨e, he, rfl⟩ := elabItem_ok h
  have hdef : ∀ {f : FieldsSpec} {fs' al sz}, deltaDef T ap R f = .ok (fs', al, sz) → ∀ x ∈ fs', x.len ≠ some 0 := by
    intro f fs' al sz hd
    simp only [deltaDef] at hd
    cases hsf : specFields T R f with
    | error e' => simp [hsf] at hd
    | ok fs =>
      simp only [hsf] at hd
      exact layoutDef_lens (specFields_wf hT hW hsf) (specFields_lens hL hsf) hd
  cases it with
  | struct n hs f =>
    simp only [delta] at he
    split at he
    · simp at he
    · rename_i fs' al sz hd
      simp at he; subst he
      refine ⟨?_, hL.2⟩
      intro d hdm
      simp only [Reg.push, List.mem_append, List.mem_singleton] at hdm
      rcases hdm with hdm | rfl
      · exact hL.1 d hdm
      · exact hdef hd
  | message n id hs f =>
    simp only [delta] at he
    split at he
    · simp at he
    · split at he
      · simp at he
      · rename_i fs' al sz hd
        simp at he; subst he
        refine ⟨hL.1, ?_⟩
        intro d hdm
        simp only [Reg.push, List.mem_append, List.mem_singleton] at hdm
        rcases hdm with hdm | rfl
        · exact hL.2 d hdm
        · exact hdef hd
  | signal n id hs =>
    simp only [delta] at he
    split at he
    · simp at he
    · simp at he; subst he
      refine ⟨hL.1, ?_⟩
      intro d hdm
      simp only [Reg.push, List.mem_append, List.mem_singleton] at hdm
      rcases hdm with hdm | rfl
      · exact hL.2 d hdm
      · simp
  | reserved n id hs =>
    simp only [delta] at he
    split at he
    · simp at he
    · simp at he; subst he
      refine ⟨hL.1, ?_⟩
      intro d hdm
      simp only [Reg.push, List.mem_append, List.mem_singleton] at hdm
      rcases hdm with hdm | rfl
      · exact hL.2 d hdm
      · simp
  | alias n t =>
    simp only [delta, deltaAlias] at he
    split at he
    · simp at he; subst he; exact hL
    · split at he
      · simp at he; subst he; exact hL
      · split at he
        · simp at he; subst he; exact hL
        · simp at he
  | const n v => simp [delta] at he; subst he; exact hL
  | strConst n v => simp [delta] at he; subst he; exact hL
  | hostId n v => simp [delta] at he; subst he; exact hL
  | moduleId n v => simp [delta] at he; subst he; exact hL

theorem elaborate_lens {T : Tables} (hT : TablesWf T) {ap : Bool} :
    ∀ (l : List (Bool × Item)) {R R' : Reg}, RegWf R → LensPos R → elaborate T ap l R = .ok R' → LensPos R'
  | [], R, R', _, hL, h => by simp [elaborate] at h; subst h; exact hL
  | x :: l, R, R', hW, hL, h => by
    obtain ⟨R1, hx, hl⟩ := elaborate_cons_ok.mp h
    exact elaborate_lens hT l (elabItem_wf hT hW hx) (elabItem_lens hT hW hL hx) hl

end Pyrtma.Emit

namespace Pyrtma.Emit

/-! ## element counts -/

theorem cnt_native (l : Option Nat) (hl : l ≠ some 0) :
    (if l.getD 0 ≤ 1 then (none : Option Nat) else some (l.getD 0)).getD 1 = l.getD 1 := by
  cases l with
  | none => simp
  | some n =>
    have : n ≠ 0 := by intro h; exact hl (by rw [h])
    simp only [Option.getD_some]
    by_cases h1 : n ≤ 1
    · simp [h1]; omega
    · simp [h1]

theorem cnt_struct (l : Option Nat) (hl : l ≠ some 0) :
    (if l.getD 0 = 0 then (none : Option Nat) else some (l.getD 0)).getD 1 = l.getD 1 := by
  cases l with
  | none => simp
  | some n =>
    have : n ≠ 0 := by intro h; exact hl (by rw [h])
    simp [this]

theorem pyBase_count (T : Tables) (R : Reg) (ty : Name) (l : Option Nat) (hl : l ≠ some 0) (r : TyS × Option Nat)
    (hr : pyDescBase T R ty (l.getD 0) = some r) (hb : r.1 ≠ .bad) : r.2.getD 1 = l.getD 1 := by
  unfold pyDescBase at hr
  split at hr
  · split at hr
    · simp at hr; subst hr; exact cnt_native l hl
    · simp at hr; subst hr; simp at hb
  · split at hr
    · simp at hr; subst hr; exact cnt_struct l hl
    · split at hr
      · simp at hr; subst hr; exact cnt_struct l hl
      · simp at hr

theorem pyDesc_count (T : Tables) (R : Reg) (l : Option Nat) (hl : l ≠ some 0) :
    ∀ (fuel : Nat) (ty : Name), (pyDescriptor T R (l.getD 0) fuel ty).1 ≠ .bad →
      (pyDescriptor T R (l.getD 0) fuel ty).2.getD 1 = l.getD 1
  | 0, ty, hb => by
    unfold pyDescriptor at hb ⊢
    cases hr : pyDescBase T R ty (l.getD 0) with
    | none => simp [hr] at hb
    | some r => simp [hr] at hb ⊢; exact pyBase_count T R ty l hl r hr hb
  | n + 1, ty, hb => by
    unfold pyDescriptor at hb ⊢
    cases hr : pyDescBase T R ty (l.getD 0) with
    | some r => simp [hr] at hb ⊢; exact pyBase_count T R ty l hl r hr hb
    | none =>
      simp only [hr] at hb ⊢
      split at hb
      · exact pyDesc_count T R l hl n _ hb
      · exact absurd rfl hb

theorem py_count (T : Tables) (R : Reg) (f : FieldR) (hl : f.len ≠ some 0) (h : (pyField T R f).ty ≠ .bad) :
    (pyField T R f).len.getD 1 = f.len.getD 1 := by
  unfold pyField at h ⊢
  exact pyDesc_count T R f.len hl 2 f.ty h


end Pyrtma.Emit

namespace Pyrtma.Emit

/-! ## the native tables agree -/

/-- decidable: for every native type name the Python descriptor, the C type, the MATLAB type and the JavaScript
denotation (`natTbl`: what `supported_types` says the name is) are compatible; `char` is a 1-byte character -/
def tablesAgreeB (T : Tables) (natTbl : List (Name × Den)) : Bool :=
  T.natives.all (fun r =>
    match assoc T.pyDesc r.1, assoc T.c r.1, assoc T.m r.1, assoc natTbl r.1 with
    | some p, some c, some m, some j => p.compat c && p.compat m && p.compat j
    | _, _, _, _ => false) &&
  (match assoc T.pyDesc T.charName with
   | some p => p.compat ⟨1, .char⟩
   | none => false)

structure TablesAgree (T : Tables) (nat : Name → Option Den) : Prop where
  row : ∀ k, isNative T k = true → ∃ p c m j, assoc T.pyDesc k = some p ∧ assoc T.c k = some c ∧ assoc T.m k = some m ∧
    nat k = some j ∧ p.compat c = true ∧ p.compat m = true ∧ p.compat j = true
  char : ∃ p, assoc T.pyDesc T.charName = some p ∧ p.compat ⟨1, .char⟩ = true

theorem tablesAgree_of {T : Tables} {natTbl : List (Name × Den)} (h : tablesAgreeB T natTbl = true) :
    TablesAgree T (assoc natTbl) := by
  simp only [tablesAgreeB, Bool.and_eq_true, List.all_eq_true] at h
  constructor
  · intro k hk
    simp only [isNative, assoc_isSome, List.any_eq_true, beq_iff_eq] at hk
    obtain ⟨r, hr, rfl⟩ := hk
    have := h.1 r hr
    split at this
    · rename_i p c m j hp hc hm hj
      simp only [Bool.and_eq_true] at this
      exact ⟨p, c, m, j, hp, hc, hm, hj, this.1.1, this.1.2, this.2⟩
    · simp at this
  · have := h.2
    split at this
    · rename_i p hp; exact ⟨p, hp, this⟩
    · simp at this

/-! ## resolving an alias reference through the alias lines of the same output -/

/-- what one alias line says about the alias `a` -/
def aliasLine (nat : Name → Option Den) (a : Name) : Stmt → Option WTy
  | .aliasN n d => if n == a then some (.den d) else none
  | .aliasJ n t _ => if n == a then some (match nat t with | some d => .den d | none => .unknown) else none
  | .aliasR n sp t => if n == a then some (.ref sp t) else none
  | _ => none

theorem aliasInfo_eq (nat : Name → Option Den) (prog : List Stmt) (a : Name) :
    aliasInfo nat prog a = prog.findSome? (aliasLine nat a) := by
  simp only [aliasInfo]
  congr 1

theorem findSome_skip {α β} {g : α → Option β} : ∀ {pre rest : List α}, (∀ s ∈ pre, g s = none) →
    (pre ++ rest).findSome? g = rest.findSome? g
  | [], _, _ => rfl
  | x :: pre, rest, h => by
    simp only [List.cons_append, List.findSome?_cons, h x (by simp)]
    exact findSome_skip (fun s hs => h s (by simp [hs]))

/-- the alias block of an output: the first line about `n` is the line of the first alias named `n` -/
theorem findSome_aliasBlock {nat : Name → Option Den} {pa : AliasR → Stmt} {n : Name} :
    ∀ {l : List AliasR} {post : List Stmt} {a : AliasR},
      (∀ b ∈ l, (b.name = n → (aliasLine nat n (pa b)).isSome = true) ∧ (b.name ≠ n → aliasLine nat n (pa b) = none)) →
      l.find? (fun b => b.name == n) = some a →
      (l.map pa ++ post).findSome? (aliasLine nat n) = aliasLine nat n (pa a)
  | [], _, _, _, h => by simp at h
  | b :: l, post, a, hl, h => by
    simp only [List.find?_cons] at h
    simp only [List.map_cons, List.cons_append, List.findSome?_cons]
    by_cases hb : b.name = n
    · simp only [hb, beq_self_eq_true] at h
      simp only [Option.some.injEq] at h
      subst h
      obtain ⟨v, hv⟩ := Option.isSome_iff_exists.mp ((hl b (by simp)).1 hb)
      simp [hv]
    · have hbn : (b.name == n) = false := by simpa using hb
      simp only [hbn] at h
      rw [(hl b (by simp)).2 hb]
      exact findSome_aliasBlock (fun c hc => hl c (by simp [hc])) h

end Pyrtma.Emit

namespace Pyrtma.Emit

/-! ## the resolved element type of a field in each output -/

/-- the wire type of a registry field, from the registry alone (the Python descriptor table as the reference) -/
def regWTy (T : Tables) (R : Reg) (f : FieldR) : WTy :=
  match f.kind with
  | .native => match assoc T.pyDesc f.ty with | some p => .den p | none => .unknown
  | .struct => .ref .sdf f.ty
  | .message => .ref .mdf f.ty
  | .alias =>
    match findAlias R f.ty with
    | some a => if a.isStruct then .ref .sdf a.target
                else match assoc T.pyDesc a.target with | some p => .den p | none => .unknown
    | none => .unknown

theorem pyDescBase_native {T : Tables} (hT : TablesTotal T) (R : Reg) {ty : Name} (flen : Nat) (hn : isNative T ty = true) :
    ∃ p r, assoc T.pyDesc ty = some p ∧ pyDescBase T R ty flen = some (.nat p, r) := by
  have h1 : (assoc T.pyCt ty).isSome = true := by rw [hT.pyCt, hn]
  obtain ⟨c, hc⟩ := Option.isSome_iff_exists.mp h1
  obtain ⟨p, hp⟩ := Option.isSome_iff_exists.mp (hT.pyDesc ty hn)
  exact ⟨p, if flen ≤ 1 then none else some flen, hp, by simp [pyDescBase, hc, hp]⟩

/-- Python prints exactly the registry's wire type (aliases resolved in place) -/
theorem py_resolved {T : Tables} {R : Reg} (hR : RegOK T R) (hD : Disj R) (hT : TablesTotal T)
    (nat : Name → Option Den) (prog : List Stmt) {sn mn : List Name} {f : FieldR}
    (hsn : ∀ x ∈ sn, x ∈ structNames R) (hmn : ∀ x ∈ mn, x ∈ R.msgs.map (·.name))
    (h : FieldOk T (aliasNames R) sn mn f) : resolveTy nat prog (pyField T R f).ty = regWTy T R f := by
  have hk0 := pyField_kind hR hD hT hsn hmn h
  unfold FieldOk at h
  unfold regWTy
  cases hk : f.kind with
  | native =>
    simp only [hk] at h ⊢
    obtain ⟨p, r, hp, hb⟩ := pyDescBase_native hT R (f.len.getD 0) h
    simp [pyField, pyDescriptor, hb, hp, resolveTy]
  | struct => simp only [hk] at hk0 ⊢; rw [hk0]; rfl
  | message => simp only [hk] at hk0 ⊢; rw [hk0]; rfl
  | alias =>
    simp only [hk] at h ⊢
    have h1 : assoc T.pyCt f.ty = none := by
      have : (assoc T.pyCt f.ty).isSome = false := by rw [hT.pyCt, h.2]
      simpa using this
    have h2 : findMsg R f.ty = none := not_mem_find_none (hD.am _ h.1)
    have h3 : findStruct R f.ty = none := not_mem_find_none (hD.as _ h.1)
    obtain ⟨a, ha⟩ := Option.isSome_iff_exists.mp (mem_aliasNames_find.mp h.1)
    have ham := find_name (nm := fun a : AliasR => a.name) ha
    have hbase : pyDescBase T R f.ty (f.len.getD 0) = none := by simp [pyDescBase, h1, h2, h3]
    have hal := hR.al a ham.1
    simp only [ha]
    cases hs : a.isStruct with
    | false =>
      obtain ⟨p, r, hp, hb⟩ := pyDescBase_native hT R (f.len.getD 0) (hal.2 hs)
      simp [pyField, pyDescriptor, hbase, ha, hb, hp, resolveTy]
    | true =>
      have hn := (hal.1 hs).2
      have hst := (hal.1 hs).1
      have g1 : assoc T.pyCt a.target = none := by
        have : (assoc T.pyCt a.target).isSome = false := by rw [hT.pyCt, hn]
        simpa using this
      have g2 : findMsg R a.target = none := not_mem_find_none (hD.sm _ hst)
      have g3 : (findStruct R a.target).isSome = true := mem_names_find.mp hst
      have hb2 : pyDescBase T R a.target (f.len.getD 0) =
          some (.ref .sdf a.target, if f.len.getD 0 = 0 then none else some (f.len.getD 0)) := by
        simp [pyDescBase, g1, g2, g3]
      simp [pyField, pyDescriptor, hbase, ha, hb2, resolveTy]

/-- what an alias line says, for the three outputs that print one line per alias -/
theorem aliasLine_tbl {T : Tables} {R : Reg} (hR : RegOK T R) (hD : Disj R) {tbl : List (Name × Den)}
    (htbl : ∀ k, (assoc tbl k).isSome = isNative T k) (nat : Name → Option Den) {a : AliasR} (ha : a ∈ R.aliases)
    (n : Name) :
    aliasLine nat n (tblAlias tbl R a) =
      if a.name == n then some (if a.isStruct then .ref .sdf a.target
        else match assoc tbl a.target with | some d => .den d | none => .unknown) else none := by
  have hal := hR.al a ha
  cases hs : a.isStruct with
  | false =>
    have : (assoc tbl a.target).isSome = true := by rw [htbl, hal.2 hs]
    obtain ⟨d, hd⟩ := Option.isSome_iff_exists.mp this
    simp [tblAlias, hd, aliasLine]
  | true =>
    rw [tblAlias_struct hD htbl (hal.1 hs).1 (hal.1 hs).2]
    simp [aliasLine]

theorem aliasLine_js {T : Tables} {R : Reg} (hR : RegOK T R) (hD : Disj R) (hT : TablesTotal T)
    (nat : Name → Option Den) {a : AliasR} (ha : a ∈ R.aliases) (n : Name) :
    aliasLine nat n (jsAlias T R a) =
      if a.name == n then some (if a.isStruct then .ref .sdf a.target
        else match nat a.target with | some d => .den d | none => .unknown) else none := by
  have hal := hR.al a ha
  cases hs : a.isStruct with
  | false => rw [jsAlias_native hT (hal.2 hs)]; simp [aliasLine]
  | true => rw [jsAlias_struct hD hT (hal.1 hs).1 (hal.1 hs).2]; simp [aliasLine]

end Pyrtma.Emit

namespace Pyrtma.Emit

theorem mShape (T : Tables) (R : Reg) : emitM T R =
    (R.consts.map (fun c => Stmt.const c.1 c.2.1) ++ R.strs.map (fun c => Stmt.strConst c.1 c.2.1)) ++
    (R.aliases.map (tblAlias T.m R) ++
    ((R.hosts.map (fun c => Stmt.host c.1 c.2.1) ++ R.mods.map (fun c => Stmt.mod c.1 c.2.1) ++
        R.msgIds.map (fun c => Stmt.mt c.1 c.2.1)) ++
    (R.structs.map (mDef T R .sdf) ++ (R.msgs.map (mDef T R .mdf) ++
      (R.msgs.map (fun d => Stmt.hash d.name d.hash) ++ [.use .sdf T.hdrName]))))) := by
  simp [emitM, List.append_assoc]

theorem aliasInfo_m {T : Tables} {R : Reg} (hR : RegOK T R) (hD : Disj R) (hT : TablesTotal T)
    (nat : Name → Option Den) {n : Name} {a : AliasR} (ha : findAlias R n = some a) :
    aliasInfo nat (emitM T R) n = some (if a.isStruct then .ref .sdf a.target
      else match assoc T.m a.target with | some d => .den d | none => .unknown) := by
  have ham := find_name (nm := fun a : AliasR => a.name) ha
  rw [aliasInfo_eq, mShape, findSome_skip (by
    intro s hs
    simp only [List.mem_append, List.mem_map] at hs
    rcases hs with ⟨c, _, rfl⟩ | ⟨c, _, rfl⟩ <;> rfl),
    findSome_aliasBlock (a := a) (by
      intro b hb
      rw [aliasLine_tbl hR hD hT.m nat hb n]
      constructor
      · intro h; simp [h]
      · intro h; simp [h]) ha, aliasLine_tbl hR hD hT.m nat ham.1 n]
  simp [ham.2]

theorem aliasInfo_js {T : Tables} {R : Reg} (hR : RegOK T R) (hD : Disj R) (hT : TablesTotal T)
    (nat : Name → Option Den) {n : Name} {a : AliasR} (ha : findAlias R n = some a) :
    aliasInfo nat (emitJs T R) n = some (if a.isStruct then .ref .sdf a.target
      else match nat a.target with | some d => .den d | none => .unknown) := by
  have ham := find_name (nm := fun a : AliasR => a.name) ha
  have hsh : emitJs T R = (R.consts.map (fun c => Stmt.const c.1 c.2.1) ++ R.strs.map (fun c => Stmt.strConst c.1 c.2.1) ++
      [.init .alias]) ++ (R.aliases.map (jsAlias T R) ++ ((R.hosts.map (fun c => Stmt.host c.1 c.2.1) ++
        (R.mods.map (fun c => Stmt.mod c.1 c.2.1) ++ R.msgIds.map (fun c => Stmt.mt c.1 c.2.1))) ++
      (.init .sdf :: (R.structs.map (jsDef T R .sdf) ++
      (.init .mdf :: (R.msgs.map (jsDef T R .mdf) ++ R.msgs.map (fun d => Stmt.hash d.name d.hash))))))) := by
    rw [jsShape]; simp [List.append_assoc]
  rw [aliasInfo_eq, hsh, findSome_skip (by
    intro s hs
    simp only [List.mem_append, List.mem_map, List.mem_singleton] at hs
    rcases hs with (⟨c, _, rfl⟩ | ⟨c, _, rfl⟩) | rfl <;> rfl),
    findSome_aliasBlock (a := a) (by
      intro b hb
      rw [aliasLine_js hR hD hT nat hb n]
      constructor
      · intro h; simp [h]
      · intro h; simp [h]) ha, aliasLine_js hR hD hT nat ham.1 n]
  simp [ham.2]

theorem WTy.compat_refl_ref (sp : Space) (n : Name) : (WTy.ref sp n).compat (.ref sp n) = true := by
  simp [WTy.compat]

/-- MATLAB against Python, one field -/
theorem m_field_compat {T : Tables} {R : Reg} (hR : RegOK T R) (hD : Disj R) (hT : TablesTotal T)
    {nat : Name → Option Den} (hA : TablesAgree T nat) {sn mn : List Name} {f : FieldR}
    (hsn : ∀ x ∈ sn, x ∈ structNames R) (hmn : ∀ x ∈ mn, x ∈ R.msgs.map (·.name))
    (h : FieldOk T (aliasNames R) sn mn f) :
    (regWTy T R f).compat (resolveTy nat (emitM T R) (mField T R f).ty) = true := by
  have hk0 := tblTy_kind hD hT.m hsn hmn h
  have hfo := h
  unfold FieldOk at hfo
  cases hk : f.kind with
  | native =>
    simp only [hk] at hfo
    obtain ⟨p, c, m, j, hp, _, hm, _, _, hpm, _⟩ := hA.row f.ty hfo
    simp [regWTy, hk, mField, tblTy, hm, hp, resolveTy, WTy.compat, hpm]
  | struct =>
    rcases hk0 with ⟨hkn, _⟩ | ⟨_, hr⟩
    · rw [hk] at hkn; cases hkn
    · simp [regWTy, mField, hr, hk, kindSpace, resolveTy, WTy.compat]
  | message =>
    rcases hk0 with ⟨hkn, _⟩ | ⟨_, hr⟩
    · rw [hk] at hkn; cases hkn
    · simp [regWTy, mField, hr, hk, kindSpace, resolveTy, WTy.compat]
  | alias =>
    simp only [hk] at hfo
    rcases hk0 with ⟨hkn, _⟩ | ⟨_, hr⟩
    · rw [hk] at hkn; cases hkn
    · obtain ⟨a, ha⟩ := Option.isSome_iff_exists.mp (mem_aliasNames_find.mp hfo.1)
      have ham := find_name (nm := fun a : AliasR => a.name) ha
      simp only [regWTy, mField, hr, hk, kindSpace, resolveTy, aliasInfo_m hR hD hT nat ha, ha, Option.getD_some]
      cases hs : a.isStruct with
      | true => simp [WTy.compat]
      | false =>
        obtain ⟨p, c, m, j, hp, _, hm, _, _, hpm, _⟩ := hA.row a.target ((hR.al a ham.1).2 hs)
        simp [hp, hm, WTy.compat, hpm]

theorem jsField_ty (T : Tables) (R : Reg) (f : FieldR) :
    (jsField T R f).ty = jsTy T R f.ty ∨ ((jsField T R f).ty = .jsStr ∧ f.ty = T.charName) := by
  unfold jsField
  split
  · split
    · rename_i hc
      simp only [Bool.and_eq_true, beq_iff_eq] at hc
      exact .inr ⟨rfl, hc.1⟩
    · exact .inl rfl
  · exact .inl rfl

/-- JavaScript against Python, one field -/
theorem js_field_compat {T : Tables} {R : Reg} (hR : RegOK T R) (hD : Disj R) (hT : TablesTotal T)
    {nat : Name → Option Den} (hA : TablesAgree T nat) {sn mn : List Name} {f : FieldR}
    (hsn : ∀ x ∈ sn, x ∈ structNames R) (hmn : ∀ x ∈ mn, x ∈ R.msgs.map (·.name))
    (h : FieldOk T (aliasNames R) sn mn f) :
    (regWTy T R f).compat (resolveTy nat (emitJs T R) (jsField T R f).ty) = true := by
  have hk0 := jsTy_kind hD hT hsn hmn h
  have hnn : f.kind ≠ .native → (jsField T R f).ty = jsTy T R f.ty := by
    intro hkn
    rcases jsField_ty T R f with h1 | ⟨_, hc⟩
    · exact h1
    · have := fieldOk_native h
      rw [hc, hT.char] at this
      exact absurd (by simpa using this.symm) hkn
  cases hk : f.kind with
  | native =>
    have hnat : isNative T f.ty = true := by have := fieldOk_native h; rw [hk] at this; simpa using this
    obtain ⟨p, c, m, j, hp, _, _, hj, _, _, hpj⟩ := hA.row f.ty hnat
    simp only [regWTy, hk, hp]
    rcases hk0 with ⟨_, hr⟩ | ⟨hkn, _⟩
    · rcases jsField_ty T R f with h1 | ⟨h1, hc⟩
      · rw [h1, hr]; simp [resolveTy, hj, WTy.compat, hpj]
      · obtain ⟨q, hq, hqc⟩ := hA.char
        rw [hc] at hp; rw [hq] at hp; cases hp
        rw [h1]; simp [resolveTy, WTy.compat, hqc]
    · exact absurd hk hkn
  | struct =>
    rcases hk0 with ⟨hkn, _⟩ | ⟨hkn, hr⟩
    · rw [hk] at hkn; cases hkn
    · rw [hnn hkn, hr]; simp [regWTy, hk, kindSpace, resolveTy, WTy.compat]
  | message =>
    rcases hk0 with ⟨hkn, _⟩ | ⟨hkn, hr⟩
    · rw [hk] at hkn; cases hkn
    · rw [hnn hkn, hr]; simp [regWTy, hk, kindSpace, resolveTy, WTy.compat]
  | alias =>
    rcases hk0 with ⟨hkn, _⟩ | ⟨hkn, hr⟩
    · rw [hk] at hkn; cases hkn
    · have hfo := h
      unfold FieldOk at hfo
      simp only [hk] at hfo
      obtain ⟨a, ha⟩ := Option.isSome_iff_exists.mp (mem_aliasNames_find.mp hfo.1)
      have ham := find_name (nm := fun a : AliasR => a.name) ha
      rw [hnn hkn, hr]
      simp only [regWTy, hk, kindSpace, resolveTy, aliasInfo_js hR hD hT nat ha, ha, Option.getD_some]
      cases hs : a.isStruct with
      | true => simp [WTy.compat]
      | false =>
        obtain ⟨p, c, m, j, hp, _, _, hj, _, _, hpj⟩ := hA.row a.target ((hR.al a ham.1).2 hs)
        simp [hp, hj, WTy.compat, hpj]

end Pyrtma.Emit

namespace Pyrtma.Emit

/-! ## from fields to programs -/

theorem listCompat_map {α β} {r : β → β → Bool} {p q : α → β} : ∀ {l : List α}, (∀ x ∈ l, r (p x) (q x) = true) →
    listCompat r (l.map p) (l.map q) = true
  | [], _ => rfl
  | x :: l, h => by
    simp only [List.map_cons, listCompat, Bool.and_eq_true]
    exact ⟨h x (by simp), listCompat_map (fun y hy => h y (by simp [hy]))⟩

theorem listCompat_append {β} {r : β → β → Bool} : ∀ {a b c d : List β}, listCompat r a b = true →
    listCompat r c d = true → listCompat r (a ++ c) (b ++ d) = true
  | [], [], _, _, _, h => h
  | [], _ :: _, _, _, h, _ => by simp [listCompat] at h
  | _ :: _, [], _, _, h, _ => by simp [listCompat] at h
  | x :: a, y :: b, c, d, h, h' => by
    simp only [listCompat, Bool.and_eq_true, List.cons_append] at h ⊢
    exact ⟨h.1, listCompat_append h.2 h'⟩

theorem listCompat_filterMap {α β} {r : β → β → Bool} {p q : α → Option β} : ∀ {l : List α},
    (∀ x ∈ l, (p x = none ∧ q x = none) ∨ ∃ a b, p x = some a ∧ q x = some b ∧ r a b = true) →
    listCompat r (l.filterMap p) (l.filterMap q) = true
  | [], _ => rfl
  | x :: l, h => by
    have ih := listCompat_filterMap (r := r) (p := p) (q := q) (l := l) (fun y hy => h y (by simp [hy]))
    rcases h x (by simp) with ⟨h1, h2⟩ | ⟨a, b, h1, h2, h3⟩
    · simp [h1, h2, ih]
    · simp [h1, h2, listCompat, h3, ih]

theorem filterMap_congr' {α β} {f g : α → Option β} : ∀ {l : List α}, (∀ x ∈ l, f x = g x) → l.filterMap f = l.filterMap g
  | [], _ => rfl
  | x :: l, h => by
    have ih : l.filterMap f = l.filterMap g := filterMap_congr' (fun y hy => h y (by simp [hy]))
    simp only [List.filterMap_cons, h x (by simp), ih]

theorem filterMap_map_none {α β γ} {g : β → Option γ} {h : α → β} {l : List α} (hn : ∀ x ∈ l, g (h x) = none) :
    (l.map h).filterMap g = [] := by
  rw [List.filterMap_map]
  exact List.filterMap_eq_nil_iff.mpr (fun x hx => hn x hx)

/-- the definition a `defn` line contributes to the wire signature -/
def defProj (nat : Name → Option Den) (prog : List Stmt) : Stmt → Option WDef
  | .defn sp n _ _ _ fs => if fs.isEmpty then none else some { sp, name := n, fields := fs.map (wField nat prog) }
  | _ => none

theorem wire_defs (nat : Name → Option Den) (prog : List Stmt) :
    (wireOf nat prog).defs = prog.filterMap (defProj nat prog) := by
  simp only [wireOf]
  congr 1

theorem defProj_tblAlias (nat : Name → Option Den) (prog : List Stmt) (tbl : List (Name × Den)) (R : Reg) (a : AliasR) :
    defProj nat prog (tblAlias tbl R a) = none := by
  unfold tblAlias refAlias
  split
  · rfl
  · split
    · rfl
    · split
      · rfl
      · split <;> rfl

theorem defProj_jsAlias (nat : Name → Option Den) (prog : List Stmt) (T : Tables) (R : Reg) (a : AliasR) :
    defProj nat prog (jsAlias T R a) = none := by
  unfold jsAlias refAlias
  split
  · rfl
  · split
    · rfl
    · split
      · rfl
      · split <;> rfl

theorem defProj_pyAlias (nat : Name → Option Den) (prog : List Stmt) (T : Tables) (a : AliasR) :
    defProj nat prog (pyAlias T a) = none := by
  unfold pyAlias
  split <;> rfl

/-- what the definitions of a registry contribute, given how one is printed -/
def regDefs (nat : Name → Option Den) (prog : List Stmt) (pf : FieldR → FieldS) (R : Reg) : List WDef :=
  R.structs.filterMap (fun d => if d.fields.isEmpty then none
    else some { sp := .sdf, name := d.name, fields := (d.fields.map pf).map (wField nat prog) }) ++
  R.msgs.filterMap (fun d => if d.fields.isEmpty then none
    else some { sp := .mdf, name := d.name, fields := (d.fields.map pf).map (wField nat prog) })

theorem py_defs' (nat : Name → Option Den) (T : Tables) (R : Reg) (prog : List Stmt) :
    (emitPy T R).filterMap (defProj nat prog) = regDefs nat prog (pyField T R) R := by
  simp only [emitPy, List.filterMap_append]
  rw [filterMap_map_none (by intro x _; rfl), filterMap_map_none (by intro x _; rfl),
    filterMap_map_none (fun x _ => defProj_pyAlias nat prog T x), filterMap_map_none (by intro x _; rfl),
    filterMap_map_none (by intro x _; rfl), filterMap_map_none (by intro x _; rfl)]
  simp only [List.nil_append, regDefs, List.filterMap_map]
  congr 1 <;> (apply filterMap_congr'; intro d _; simp [defProj, pyDef, Function.comp])

theorem py_defs (nat : Name → Option Den) (T : Tables) (R : Reg) :
    (wireOf nat (emitPy T R)).defs = regDefs nat (emitPy T R) (pyField T R) R := by
  rw [wire_defs]; exact py_defs' nat T R _

theorem m_defs' (nat : Name → Option Den) (T : Tables) (R : Reg) (prog : List Stmt) :
    (emitM T R).filterMap (defProj nat prog) = regDefs nat prog (mField T R) R := by
  simp only [emitM, List.filterMap_append]
  rw [filterMap_map_none (by intro x _; rfl), filterMap_map_none (by intro x _; rfl),
    filterMap_map_none (fun x _ => defProj_tblAlias nat prog T.m R x), filterMap_map_none (by intro x _; rfl),
    filterMap_map_none (by intro x _; rfl), filterMap_map_none (by intro x _; rfl),
    filterMap_map_none (l := R.msgs) (h := fun d => Stmt.hash d.name d.hash) (by intro x _; rfl)]
  simp only [List.nil_append, List.append_nil, regDefs, List.filterMap_map, List.filterMap_cons, List.filterMap_nil, defProj]
  congr 1 <;> (apply filterMap_congr'; intro d _; simp [defProj, mDef, Function.comp])

theorem m_defs (nat : Name → Option Den) (T : Tables) (R : Reg) :
    (wireOf nat (emitM T R)).defs = regDefs nat (emitM T R) (mField T R) R := by
  rw [wire_defs]; exact m_defs' nat T R _

theorem js_defs' (nat : Name → Option Den) (T : Tables) (R : Reg) (prog : List Stmt) :
    (emitJs T R).filterMap (defProj nat prog) = regDefs nat prog (jsField T R) R := by
  simp only [emitJs, List.filterMap_append]
  rw [filterMap_map_none (by intro x _; rfl), filterMap_map_none (by intro x _; rfl),
    filterMap_map_none (fun x _ => defProj_jsAlias nat prog T R x), filterMap_map_none (by intro x _; rfl),
    filterMap_map_none (by intro x _; rfl), filterMap_map_none (by intro x _; rfl),
    filterMap_map_none (l := R.msgs) (h := fun d => Stmt.hash d.name d.hash) (by intro x _; rfl)]
  simp only [List.nil_append, List.append_nil, regDefs, List.filterMap_map, List.filterMap_cons, List.filterMap_nil, defProj]
  congr 1 <;> (apply filterMap_congr'; intro d _; simp [defProj, jsDef, Function.comp])

theorem js_defs (nat : Name → Option Den) (T : Tables) (R : Reg) :
    (wireOf nat (emitJs T R)).defs = regDefs nat (emitJs T R) (jsField T R) R := by
  rw [wire_defs]; exact js_defs' nat T R _

end Pyrtma.Emit

namespace Pyrtma.Emit

theorem regDefs_compat {nat : Name → Option Den} {R : Reg} {p1 p2 : List Stmt} {f1 f2 : FieldR → FieldS}
    (h : ∀ d, (d ∈ R.structs ∨ d ∈ R.msgs) → ∀ f ∈ d.fields,
      WField.compat (wField nat p1 (f1 f)) (wField nat p2 (f2 f)) = true) :
    listCompat WDef.compat (regDefs nat p1 f1 R) (regDefs nat p2 f2 R) = true := by
  unfold regDefs
  apply listCompat_append
  · apply listCompat_filterMap
    intro d hd
    cases hde : d.fields.isEmpty
    · refine .inr ⟨{ sp := .sdf, name := d.name, fields := (d.fields.map f1).map (wField nat p1) },
        { sp := .sdf, name := d.name, fields := (d.fields.map f2).map (wField nat p2) }, by simp, by simp, ?_⟩
      simp only [WDef.compat, beq_self_eq_true, Bool.true_and, List.map_map]
      exact listCompat_map (fun f hf => h d (.inl hd) f hf)
    · exact .inl ⟨by simp, by simp⟩
  · apply listCompat_filterMap
    intro d hd
    cases hde : d.fields.isEmpty
    · refine .inr ⟨{ sp := .mdf, name := d.name, fields := (d.fields.map f1).map (wField nat p1) },
        { sp := .mdf, name := d.name, fields := (d.fields.map f2).map (wField nat p2) }, by simp, by simp, ?_⟩
      simp only [WDef.compat, beq_self_eq_true, Bool.true_and, List.map_map]
      exact listCompat_map (fun f hf => h d (.inr hd) f hf)
    · exact .inl ⟨by simp, by simp⟩

theorem pyField_notBad {T : Tables} {R : Reg} (hR : RegOK T R) (hD : Disj R) (hT : TablesTotal T) {sn mn : List Name}
    {f : FieldR} (hsn : ∀ x ∈ sn, x ∈ structNames R) (hmn : ∀ x ∈ mn, x ∈ R.msgs.map (·.name))
    (h : FieldOk T (aliasNames R) sn mn f) : (pyField T R f).ty ≠ .bad := by
  have := pyField_kind hR hD hT hsn hmn h
  cases hk : f.kind <;> simp only [hk] at this
  · obtain ⟨x, hx⟩ := this; rw [hx]; simp
  · obtain ⟨a, _, _, ⟨_, x, hx⟩ | ⟨_, hx⟩⟩ := this <;> rw [hx] <;> simp
  · rw [this]; simp
  · rw [this]; simp

theorem lens_of {R : Reg} (hL : LensPos R) {d : DefR} (hd : d ∈ R.structs ∨ d ∈ R.msgs) {f : FieldR} (hf : f ∈ d.fields) :
    f.len ≠ some 0 := by
  rcases hd with hd | hd
  · exact hL.1 d hd f hf
  · exact hL.2 d hd f hf

/-- **Python and JavaScript describe the same structs and messages**: same definitions in the same order, same field
names in order, compatible element types (aliases resolved through each output's own alias lines), same element counts -/
theorem fields_py_js {T : Tables} {R : Reg} (hR : RegOK T R) (hD : Disj R) (hT : TablesTotal T) {nat : Name → Option Den}
    (hA : TablesAgree T nat) (hL : LensPos R) :
    listCompat WDef.compat (wireOf nat (emitPy T R)).defs (wireOf nat (emitJs T R)).defs = true := by
  rw [py_defs, js_defs]
  apply regDefs_compat
  intro d hd f hf
  obtain ⟨sn, mn, hsn, hmn, hfo⟩ := def_field_ok hR hd hf
  simp only [WField.compat, wField, Bool.and_eq_true, beq_iff_eq]
  refine ⟨⟨?_, ?_⟩, ?_⟩
  · rcases jsField_ty T R f with _ | _ <;> (unfold jsField pyField; split <;> (try split) <;> rfl)
  · rw [py_resolved hR hD hT nat _ hsn hmn hfo]; exact js_field_compat hR hD hT hA hsn hmn hfo
  · rw [py_count T R f (lens_of hL hd hf) (pyField_notBad hR hD hT hsn hmn hfo)]
    unfold jsField; split <;> (try split) <;> simp_all

theorem fields_py_m {T : Tables} {R : Reg} (hR : RegOK T R) (hD : Disj R) (hT : TablesTotal T) {nat : Name → Option Den}
    (hA : TablesAgree T nat) (hL : LensPos R) :
    listCompat WDef.compat (wireOf nat (emitPy T R)).defs (wireOf nat (emitM T R)).defs = true := by
  rw [py_defs, m_defs]
  apply regDefs_compat
  intro d hd f hf
  obtain ⟨sn, mn, hsn, hmn, hfo⟩ := def_field_ok hR hd hf
  simp only [WField.compat, wField, Bool.and_eq_true, beq_iff_eq]
  refine ⟨⟨rfl, ?_⟩, ?_⟩
  · rw [py_resolved hR hD hT nat _ hsn hmn hfo]; exact m_field_compat hR hD hT hA hsn hmn hfo
  · rw [py_count T R f (lens_of hL hd hf) (pyField_notBad hR hD hT hsn hmn hfo)]; rfl

end Pyrtma.Emit

namespace Pyrtma.Emit

/-! ## C: only what does not come from `core_defs/` is printed; core aliases stay references to `RTMA.h` -/

theorem find_filter_some {α} {p q : α → Bool} : ∀ {l : List α} {a : α}, l.find? q = some a → p a = true →
    (l.filter p).find? q = some a
  | [], _, h, _ => by simp at h
  | x :: l, a, h, hp => by
    simp only [List.find?_cons] at h
    cases hq : q x with
    | true =>
      simp only [hq] at h; cases h
      simp [hp, hq]
    | false =>
      simp only [hq] at h
      have ih := find_filter_some (p := p) h hp
      cases hpx : p x <;> simp [hpx, hq, ih]

theorem find_filter_none {l : List AliasR} {n : Name} {a : AliasR} {p : AliasR → Bool}
    (hnd : (l.map (·.name)).Nodup) (h : l.find? (fun b => b.name == n) = some a) (hp : p a = false) :
    (l.filter p).find? (fun b => b.name == n) = none := by
  apply List.find?_eq_none.mpr
  intro b hb
  simp only [List.mem_filter] at hb
  intro hbn
  simp only [beq_iff_eq] at hbn
  have ham := find_name (nm := fun a : AliasR => a.name) h
  -- two aliases with the same name in a list without duplicate names are the same element
  have : b = a := by
    have hinj : ∀ {l : List AliasR}, (l.map (·.name)).Nodup → ∀ {x y : AliasR}, x ∈ l → y ∈ l → x.name = y.name → x = y := by
      intro l
      induction l with
      | nil => intro _ x y hx; simp at hx
      | cons z r ih =>
        intro hnd x y hx hy hxy
        simp only [List.map_cons, List.nodup_cons, List.mem_map, not_exists, not_and] at hnd
        simp only [List.mem_cons] at hx hy
        rcases hx with rfl | hx <;> rcases hy with rfl | hy
        · rfl
        · exact absurd hxy.symm (hnd.1 y hy)
        · exact absurd hxy (hnd.1 x hx)
        · exact ih hnd.2 hx hy hxy
    exact hinj hnd hb.1 ham.1 (hbn.trans ham.2.symm)
  rw [this, hp] at hb
  exact absurd hb.2 (by simp)

theorem cShape (T : Tables) (R : Reg) : emitC T R =
    ((noCore R.consts (·.2.2)).map (fun c => Stmt.const c.1 c.2.1) ++
      (noCore R.strs (·.2.2)).map (fun c => Stmt.strConst c.1 c.2.1)) ++
    ((noCore R.aliases (·.core)).map (tblAlias T.c R) ++
    (((noCore R.hosts (·.2.2)).map (fun c => Stmt.host c.1 c.2.1) ++
        (noCore R.mods (·.2.2)).map (fun c => Stmt.mod c.1 c.2.1) ++
        (noCore R.msgIds (·.2.2)).map (fun c => Stmt.mt c.1 c.2.1)) ++
    (((noCore R.structs (·.core)).map (cDef T R .sdf)).flatten ++
      (((noCore R.msgs (·.core)).map (cDef T R .mdf)).flatten ++
        (noCore R.msgs (·.core)).map (fun d => Stmt.hash d.name d.hash))))) := by
  simp [emitC, List.append_assoc]

/-- resolving an alias reference in the C header: the line of the alias if it is printed, nothing if it is a core alias -/
theorem aliasInfo_c {T : Tables} {R : Reg} (hR : RegOK T R) (hD : Disj R) (hT : TablesTotal T)
    (hnd : (aliasNames R).Nodup) (nat : Name → Option Den) {n : Name} {a : AliasR} (ha : findAlias R n = some a) :
    aliasInfo nat (emitC T R) n = if a.core then none else some (if a.isStruct then .ref .sdf a.target
      else match assoc T.c a.target with | some d => .den d | none => .unknown) := by
  have ham := find_name (nm := fun a : AliasR => a.name) ha
  have hblock : ∀ b ∈ noCore R.aliases (·.core),
      (b.name = n → (aliasLine nat n (tblAlias T.c R b)).isSome = true) ∧
      (b.name ≠ n → aliasLine nat n (tblAlias T.c R b) = none) := by
    intro b hb
    rw [aliasLine_tbl hR hD hT.c nat (List.mem_filter.mp hb).1 n]
    constructor
    · intro h; simp [h]
    · intro h; simp [h]
  rw [aliasInfo_eq, cShape, findSome_skip (by
    intro s hs
    simp only [List.mem_append, List.mem_map] at hs
    rcases hs with ⟨c, _, rfl⟩ | ⟨c, _, rfl⟩ <;> rfl)]
  cases hc : a.core with
  | false =>
    have hf : (noCore R.aliases (·.core)).find? (fun b => b.name == n) = some a :=
      find_filter_some (p := fun x : AliasR => !x.core) (l := R.aliases) ha (by simp [hc])
    rw [findSome_aliasBlock (a := a) hblock hf, aliasLine_tbl hR hD hT.c nat ham.1 n]
    simp [ham.2]
  | true =>
    have hf : (noCore R.aliases (·.core)).find? (fun b => b.name == n) = none :=
      find_filter_none (p := fun x : AliasR => !x.core) (l := R.aliases) hnd ha (by simp [hc])
    simp only [if_true]
    -- no line of the header mentions the alias
    apply List.findSome?_eq_none_iff.mpr
    intro s hs
    simp only [List.mem_append, List.mem_map, List.mem_flatten] at hs
    rcases hs with ⟨b, hb, rfl⟩ | ((⟨c, _, rfl⟩ | ⟨c, _, rfl⟩) | ⟨c, _, rfl⟩) | ⟨l, ⟨d, _, rfl⟩, hsl⟩ | ⟨l, ⟨d, _, rfl⟩, hsl⟩ |
      ⟨d, _, rfl⟩
    · rw [aliasLine_tbl hR hD hT.c nat (List.mem_filter.mp hb).1 n]
      have := List.find?_eq_none.mp hf b hb
      simpa using this
    all_goals try rfl
    · simp only [cDef] at hsl; split at hsl
      · simp at hsl
      · simp only [List.mem_singleton] at hsl; subst hsl; rfl
    · simp only [cDef] at hsl; split at hsl
      · simp at hsl
      · simp only [List.mem_singleton] at hsl; subst hsl; rfl

end Pyrtma.Emit

namespace Pyrtma.Emit

/-- the part of the registry the C header prints -/
def userReg (R : Reg) : Reg := { R with structs := noCore R.structs (·.core), msgs := noCore R.msgs (·.core) }

theorem flatten_cDef_filterMap (nat : Name → Option Den) (prog : List Stmt) (T : Tables) (R : Reg) (sp : Space) :
    ∀ (l : List DefR), ((l.map (cDef T R sp)).flatten).filterMap (defProj nat prog) =
      l.filterMap (fun d => if d.fields.isEmpty then none
        else some { sp := sp, name := d.name, fields := (d.fields.map (cField T R)).map (wField nat prog) })
  | [] => rfl
  | d :: l => by
    simp only [List.map_cons, List.flatten_cons, List.filterMap_append, List.filterMap_cons,
      flatten_cDef_filterMap nat prog T R sp l]
    cases hde : d.fields.isEmpty <;> simp [cDef, hde, defProj]

theorem c_defs' (nat : Name → Option Den) (T : Tables) (R : Reg) (prog : List Stmt) :
    (emitC T R).filterMap (defProj nat prog) = regDefs nat prog (cField T R) (userReg R) := by
  simp only [emitC, List.filterMap_append]
  rw [filterMap_map_none (by intro x _; rfl), filterMap_map_none (by intro x _; rfl),
    filterMap_map_none (fun x _ => defProj_tblAlias nat prog T.c R x), filterMap_map_none (by intro x _; rfl),
    filterMap_map_none (by intro x _; rfl), filterMap_map_none (by intro x _; rfl),
    filterMap_map_none (l := noCore R.msgs (·.core)) (h := fun d => Stmt.hash d.name d.hash) (by intro x _; rfl),
    flatten_cDef_filterMap, flatten_cDef_filterMap]
  simp [regDefs, userReg]

theorem c_defs (nat : Name → Option Den) (T : Tables) (R : Reg) :
    (wireOf nat (emitC T R)).defs = regDefs nat (emitC T R) (cField T R) (userReg R) := by
  rw [wire_defs]; exact c_defs' nat T R _

theorem regDefs_compatC {nat : Name → Option Den} {R : Reg} {k : Core} {p1 p2 : List Stmt} {f1 f2 : FieldR → FieldS}
    (h : ∀ d, (d ∈ R.structs ∨ d ∈ R.msgs) → ∀ f ∈ d.fields,
      WField.compatC k (wField nat p1 (f1 f)) (wField nat p2 (f2 f)) = true) :
    listCompat (WDef.compatC k) (regDefs nat p1 f1 R) (regDefs nat p2 f2 R) = true := by
  unfold regDefs
  apply listCompat_append
  · apply listCompat_filterMap
    intro d hd
    cases hde : d.fields.isEmpty
    · refine .inr ⟨{ sp := .sdf, name := d.name, fields := (d.fields.map f1).map (wField nat p1) },
        { sp := .sdf, name := d.name, fields := (d.fields.map f2).map (wField nat p2) }, by simp, by simp, ?_⟩
      simp only [WDef.compatC, beq_self_eq_true, Bool.true_and, List.map_map]
      exact listCompat_map (fun f hf => h d (.inl hd) f hf)
    · exact .inl ⟨by simp, by simp⟩
  · apply listCompat_filterMap
    intro d hd
    cases hde : d.fields.isEmpty
    · refine .inr ⟨{ sp := .mdf, name := d.name, fields := (d.fields.map f1).map (wField nat p1) },
        { sp := .mdf, name := d.name, fields := (d.fields.map f2).map (wField nat p2) }, by simp, by simp, ?_⟩
      simp only [WDef.compatC, beq_self_eq_true, Bool.true_and, List.map_map]
      exact listCompat_map (fun f hf => h d (.inr hd) f hf)
    · exact .inl ⟨by simp, by simp⟩

/-- C against Python, one field (a reference to an alias of `core_defs/` stays a reference: `RTMA.h` resolves it) -/
theorem c_field_compat {T : Tables} {R : Reg} (hR : RegOK T R) (hD : Disj R) (hT : TablesTotal T)
    (hnd : (aliasNames R).Nodup) {nat : Name → Option Den} (hA : TablesAgree T nat) {k : Core}
    (hkc : ∀ a ∈ R.aliases, a.core = true → k.aliases.contains a.name = true) {sn mn : List Name} {f : FieldR}
    (hsn : ∀ x ∈ sn, x ∈ structNames R) (hmn : ∀ x ∈ mn, x ∈ R.msgs.map (·.name))
    (h : FieldOk T (aliasNames R) sn mn f) :
    WTy.compatC k (regWTy T R f) (resolveTy nat (emitC T R) (cField T R f).ty) = true := by
  have hk0 := tblTy_kind hD hT.c hsn hmn h
  have hfo := h
  unfold FieldOk at hfo
  cases hk : f.kind with
  | native =>
    simp only [hk] at hfo
    obtain ⟨p, c, m, j, hp, hc, _, _, hpc, _, _⟩ := hA.row f.ty hfo
    simp [regWTy, hk, cField, tblTy, hc, hp, resolveTy, WTy.compatC, WTy.compat, hpc]
  | struct =>
    rcases hk0 with ⟨hkn, _⟩ | ⟨_, hr⟩
    · rw [hk] at hkn; cases hkn
    · simp [regWTy, cField, hr, hk, kindSpace, resolveTy, WTy.compatC, WTy.compat]
  | message =>
    rcases hk0 with ⟨hkn, _⟩ | ⟨_, hr⟩
    · rw [hk] at hkn; cases hkn
    · simp [regWTy, cField, hr, hk, kindSpace, resolveTy, WTy.compatC, WTy.compat]
  | alias =>
    simp only [hk] at hfo
    rcases hk0 with ⟨hkn, _⟩ | ⟨_, hr⟩
    · rw [hk] at hkn; cases hkn
    · obtain ⟨a, ha⟩ := Option.isSome_iff_exists.mp (mem_aliasNames_find.mp hfo.1)
      have ham := find_name (nm := fun a : AliasR => a.name) ha
      simp only [regWTy, cField, hr, hk, kindSpace, resolveTy, aliasInfo_c hR hD hT hnd nat ha, ha]
      cases hc : a.core with
      | true =>
        have := hkc a ham.1 hc
        rw [ham.2] at this
        have hm : f.ty ∈ k.aliases := by simpa using this
        simp [WTy.compatC, hm]
      | false =>
        cases hs : a.isStruct with
        | true => simp [WTy.compatC, WTy.compat]
        | false =>
          obtain ⟨p, c, m, j, hp, hcc, _, _, hpc, _, _⟩ := hA.row a.target ((hR.al a ham.1).2 hs)
          simp [hp, hcc, WTy.compatC, WTy.compat, hpc]

/-- **Python and C describe the same structs and messages** (those the header prints: everything that does not
come from `core_defs/`) -/
theorem fields_py_c {T : Tables} {R : Reg} (hR : RegOK T R) (hD : Disj R) (hT : TablesTotal T)
    (hnd : (aliasNames R).Nodup) {nat : Name → Option Den} (hA : TablesAgree T nat) (hL : LensPos R) {k : Core}
    (hkc : ∀ a ∈ R.aliases, a.core = true → k.aliases.contains a.name = true) :
    listCompat (WDef.compatC k) (regDefs nat (emitPy T R) (pyField T R) (userReg R)) (wireOf nat (emitC T R)).defs = true := by
  rw [c_defs]
  apply regDefs_compatC
  intro d hd f hf
  have hd' : d ∈ R.structs ∨ d ∈ R.msgs := by
    rcases hd with hd | hd
    · exact .inl (List.mem_filter.mp hd).1
    · exact .inr (List.mem_filter.mp hd).1
  obtain ⟨sn, mn, hsn, hmn, hfo⟩ := def_field_ok hR hd' hf
  simp only [WField.compatC, wField, Bool.and_eq_true, beq_iff_eq]
  refine ⟨⟨rfl, ?_⟩, ?_⟩
  · rw [py_resolved hR hD hT nat _ hsn hmn hfo]; exact c_field_compat hR hD hT hnd hA hkc hsn hmn hfo
  · rw [py_count T R f (lens_of hL hd' hf) (pyField_notBad hR hD hT hsn hmn hfo)]; rfl

end Pyrtma.Emit

namespace Pyrtma.Emit

/-! ## ids, hashes and constants: each output lists the registry's -/

def pConst : Stmt → Option (Name × Val)
  | .const n v => some (n, v)
  | _ => none

def pStr : Stmt → Option (Name × Nat)
  | .strConst n v => some (n, v)
  | _ => none

def pHost : Stmt → Option (Name × Int)
  | .host n v => some (n, v)
  | _ => none

def pMod : Stmt → Option (Name × Int)
  | .mod n v => some (n, v)
  | _ => none

def pMt : Stmt → Option (Name × Int)
  | .mt n v => some (n, v)
  | _ => none

def pHash : Stmt → Option (Name × Nat)
  | .hash n h => some (n, h)
  | .defn .mdf n _ (some h) _ _ => some (n, h)
  | _ => none

theorem wire_consts (nat : Name → Option Den) (prog : List Stmt) : (wireOf nat prog).consts = prog.filterMap pConst := by
  simp only [wireOf]; congr 1

theorem wire_strs (nat : Name → Option Den) (prog : List Stmt) : (wireOf nat prog).strs = prog.filterMap pStr := by
  simp only [wireOf]; congr 1

theorem wire_hosts (nat : Name → Option Den) (prog : List Stmt) : (wireOf nat prog).hosts = prog.filterMap pHost := by
  simp only [wireOf]; congr 1

theorem wire_mods (nat : Name → Option Den) (prog : List Stmt) : (wireOf nat prog).mods = prog.filterMap pMod := by
  simp only [wireOf]; congr 1

theorem wire_mts (nat : Name → Option Den) (prog : List Stmt) : (wireOf nat prog).mts = prog.filterMap pMt := by
  simp only [wireOf]; congr 1

theorem wire_hashes (nat : Name → Option Den) (prog : List Stmt) : (wireOf nat prog).hashes = prog.filterMap pHash := by
  simp only [wireOf]; congr 1

theorem pConst_pyAlias (T : Tables) (a : AliasR) : pConst (pyAlias T a) = none := by
  unfold pyAlias; split <;> rfl

theorem pConst_tblAlias (tbl : List (Name × Den)) (R : Reg) (a : AliasR) : pConst (tblAlias tbl R a) = none := by
  unfold tblAlias refAlias; split
  · rfl
  · split
    · rfl
    · split
      · rfl
      · split <;> rfl

theorem pConst_jsAlias (T : Tables) (R : Reg) (a : AliasR) : pConst (jsAlias T R a) = none := by
  unfold jsAlias refAlias; split
  · rfl
  · split
    · rfl
    · split
      · rfl
      · split <;> rfl

theorem pConst_cDef (T : Tables) (R : Reg) (sp : Space) (l : List DefR) :
    ((l.map (cDef T R sp)).flatten).filterMap pConst = [] := by
  induction l with
  | nil => rfl
  | cons d l ih =>
    simp only [List.map_cons, List.flatten_cons, List.filterMap_append, ih, List.append_nil]
    unfold cDef; split <;> rfl

theorem pStr_pyAlias (T : Tables) (a : AliasR) : pStr (pyAlias T a) = none := by
  unfold pyAlias; split <;> rfl

theorem pStr_tblAlias (tbl : List (Name × Den)) (R : Reg) (a : AliasR) : pStr (tblAlias tbl R a) = none := by
  unfold tblAlias refAlias; split
  · rfl
  · split
    · rfl
    · split
      · rfl
      · split <;> rfl

theorem pStr_jsAlias (T : Tables) (R : Reg) (a : AliasR) : pStr (jsAlias T R a) = none := by
  unfold jsAlias refAlias; split
  · rfl
  · split
    · rfl
    · split
      · rfl
      · split <;> rfl

theorem pStr_cDef (T : Tables) (R : Reg) (sp : Space) (l : List DefR) :
    ((l.map (cDef T R sp)).flatten).filterMap pStr = [] := by
  induction l with
  | nil => rfl
  | cons d l ih =>
    simp only [List.map_cons, List.flatten_cons, List.filterMap_append, ih, List.append_nil]
    unfold cDef; split <;> rfl

theorem pHost_pyAlias (T : Tables) (a : AliasR) : pHost (pyAlias T a) = none := by
  unfold pyAlias; split <;> rfl

theorem pHost_tblAlias (tbl : List (Name × Den)) (R : Reg) (a : AliasR) : pHost (tblAlias tbl R a) = none := by
  unfold tblAlias refAlias; split
  · rfl
  · split
    · rfl
    · split
      · rfl
      · split <;> rfl

theorem pHost_jsAlias (T : Tables) (R : Reg) (a : AliasR) : pHost (jsAlias T R a) = none := by
  unfold jsAlias refAlias; split
  · rfl
  · split
    · rfl
    · split
      · rfl
      · split <;> rfl

theorem pHost_cDef (T : Tables) (R : Reg) (sp : Space) (l : List DefR) :
    ((l.map (cDef T R sp)).flatten).filterMap pHost = [] := by
  induction l with
  | nil => rfl
  | cons d l ih =>
    simp only [List.map_cons, List.flatten_cons, List.filterMap_append, ih, List.append_nil]
    unfold cDef; split <;> rfl

theorem pMod_pyAlias (T : Tables) (a : AliasR) : pMod (pyAlias T a) = none := by
  unfold pyAlias; split <;> rfl

theorem pMod_tblAlias (tbl : List (Name × Den)) (R : Reg) (a : AliasR) : pMod (tblAlias tbl R a) = none := by
  unfold tblAlias refAlias; split
  · rfl
  · split
    · rfl
    · split
      · rfl
      · split <;> rfl

theorem pMod_jsAlias (T : Tables) (R : Reg) (a : AliasR) : pMod (jsAlias T R a) = none := by
  unfold jsAlias refAlias; split
  · rfl
  · split
    · rfl
    · split
      · rfl
      · split <;> rfl

theorem pMod_cDef (T : Tables) (R : Reg) (sp : Space) (l : List DefR) :
    ((l.map (cDef T R sp)).flatten).filterMap pMod = [] := by
  induction l with
  | nil => rfl
  | cons d l ih =>
    simp only [List.map_cons, List.flatten_cons, List.filterMap_append, ih, List.append_nil]
    unfold cDef; split <;> rfl

theorem pMt_pyAlias (T : Tables) (a : AliasR) : pMt (pyAlias T a) = none := by
  unfold pyAlias; split <;> rfl

theorem pMt_tblAlias (tbl : List (Name × Den)) (R : Reg) (a : AliasR) : pMt (tblAlias tbl R a) = none := by
  unfold tblAlias refAlias; split
  · rfl
  · split
    · rfl
    · split
      · rfl
      · split <;> rfl

theorem pMt_jsAlias (T : Tables) (R : Reg) (a : AliasR) : pMt (jsAlias T R a) = none := by
  unfold jsAlias refAlias; split
  · rfl
  · split
    · rfl
    · split
      · rfl
      · split <;> rfl

theorem pMt_cDef (T : Tables) (R : Reg) (sp : Space) (l : List DefR) :
    ((l.map (cDef T R sp)).flatten).filterMap pMt = [] := by
  induction l with
  | nil => rfl
  | cons d l ih =>
    simp only [List.map_cons, List.flatten_cons, List.filterMap_append, ih, List.append_nil]
    unfold cDef; split <;> rfl

theorem pHash_pyAlias (T : Tables) (a : AliasR) : pHash (pyAlias T a) = none := by
  unfold pyAlias; split <;> rfl

theorem pHash_tblAlias (tbl : List (Name × Den)) (R : Reg) (a : AliasR) : pHash (tblAlias tbl R a) = none := by
  unfold tblAlias refAlias; split
  · rfl
  · split
    · rfl
    · split
      · rfl
      · split <;> rfl

theorem pHash_jsAlias (T : Tables) (R : Reg) (a : AliasR) : pHash (jsAlias T R a) = none := by
  unfold jsAlias refAlias; split
  · rfl
  · split
    · rfl
    · split
      · rfl
      · split <;> rfl

theorem pHash_cDef (T : Tables) (R : Reg) (sp : Space) (l : List DefR) :
    ((l.map (cDef T R sp)).flatten).filterMap pHash = [] := by
  induction l with
  | nil => rfl
  | cons d l ih =>
    simp only [List.map_cons, List.flatten_cons, List.filterMap_append, ih, List.append_nil]
    unfold cDef; split
    · rfl
    · cases sp <;> rfl

end Pyrtma.Emit

namespace Pyrtma.Emit

set_option linter.unusedSimpArgs false

theorem pConst_init (sp : Space) : pConst (.init sp) = none := rfl
theorem pConst_use (sp : Space) (n : Name) : pConst (.use sp n) = none := rfl

theorem pStr_init (sp : Space) : pStr (.init sp) = none := rfl
theorem pStr_use (sp : Space) (n : Name) : pStr (.use sp n) = none := rfl

theorem pHost_init (sp : Space) : pHost (.init sp) = none := rfl
theorem pHost_use (sp : Space) (n : Name) : pHost (.use sp n) = none := rfl

theorem pMod_init (sp : Space) : pMod (.init sp) = none := rfl
theorem pMod_use (sp : Space) (n : Name) : pMod (.use sp n) = none := rfl

theorem pMt_init (sp : Space) : pMt (.init sp) = none := rfl
theorem pMt_use (sp : Space) (n : Name) : pMt (.use sp n) = none := rfl

theorem pHash_init (sp : Space) : pHash (.init sp) = none := rfl
theorem pHash_use (sp : Space) (n : Name) : pHash (.use sp n) = none := rfl

theorem filterMap_fun_none {α β} (l : List α) : l.filterMap (fun _ => (none : Option β)) = [] := by
  induction l <;> simp_all

theorem py_consts (nat : Name → Option Den) (T : Tables) (R : Reg) :
    (wireOf nat (emitPy T R)).consts = R.consts.map (fun c => (c.1, c.2.1)) := by
  rw [wire_consts]
  simp only [emitPy, List.filterMap_append, List.filterMap_map, Function.comp_def, pConst_pyAlias]
  simp [pConst, pyDef, filterMap_fun_none, pConst_init, pConst_use, List.filterMap_cons, List.filterMap_nil]

theorem py_strs (nat : Name → Option Den) (T : Tables) (R : Reg) :
    (wireOf nat (emitPy T R)).strs = R.strs.map (fun c => (c.1, c.2.1)) := by
  rw [wire_strs]
  simp only [emitPy, List.filterMap_append, List.filterMap_map, Function.comp_def, pStr_pyAlias]
  simp [pStr, pyDef, filterMap_fun_none, pStr_init, pStr_use, List.filterMap_cons, List.filterMap_nil]

theorem py_hosts (nat : Name → Option Den) (T : Tables) (R : Reg) :
    (wireOf nat (emitPy T R)).hosts = R.hosts.map (fun c => (c.1, c.2.1)) := by
  rw [wire_hosts]
  simp only [emitPy, List.filterMap_append, List.filterMap_map, Function.comp_def, pHost_pyAlias]
  simp [pHost, pyDef, filterMap_fun_none, pHost_init, pHost_use, List.filterMap_cons, List.filterMap_nil]

theorem py_mods (nat : Name → Option Den) (T : Tables) (R : Reg) :
    (wireOf nat (emitPy T R)).mods = R.mods.map (fun c => (c.1, c.2.1)) := by
  rw [wire_mods]
  simp only [emitPy, List.filterMap_append, List.filterMap_map, Function.comp_def, pMod_pyAlias]
  simp [pMod, pyDef, filterMap_fun_none, pMod_init, pMod_use, List.filterMap_cons, List.filterMap_nil]

theorem py_mts (nat : Name → Option Den) (T : Tables) (R : Reg) :
    (wireOf nat (emitPy T R)).mts = R.msgIds.map (fun c => (c.1, c.2.1)) := by
  rw [wire_mts]
  simp only [emitPy, List.filterMap_append, List.filterMap_map, Function.comp_def, pMt_pyAlias]
  simp [pMt, pyDef, filterMap_fun_none, pMt_init, pMt_use, List.filterMap_cons, List.filterMap_nil]

theorem py_hashes (nat : Name → Option Den) (T : Tables) (R : Reg) :
    (wireOf nat (emitPy T R)).hashes = R.msgs.map (fun d => (d.name, d.hash)) := by
  rw [wire_hashes]
  simp only [emitPy, List.filterMap_append, List.filterMap_map, Function.comp_def, pHash_pyAlias]
  simp [pHash, pyDef, filterMap_fun_none, pHash_init, pHash_use, List.filterMap_cons, List.filterMap_nil]

theorem js_consts (nat : Name → Option Den) (T : Tables) (R : Reg) :
    (wireOf nat (emitJs T R)).consts = R.consts.map (fun c => (c.1, c.2.1)) := by
  rw [wire_consts]
  simp only [emitJs, List.filterMap_append, List.filterMap_map, Function.comp_def, pConst_jsAlias]
  simp [pConst, jsDef, filterMap_fun_none, pConst_init, pConst_use, List.filterMap_cons, List.filterMap_nil]

theorem js_strs (nat : Name → Option Den) (T : Tables) (R : Reg) :
    (wireOf nat (emitJs T R)).strs = R.strs.map (fun c => (c.1, c.2.1)) := by
  rw [wire_strs]
  simp only [emitJs, List.filterMap_append, List.filterMap_map, Function.comp_def, pStr_jsAlias]
  simp [pStr, jsDef, filterMap_fun_none, pStr_init, pStr_use, List.filterMap_cons, List.filterMap_nil]

theorem js_hosts (nat : Name → Option Den) (T : Tables) (R : Reg) :
    (wireOf nat (emitJs T R)).hosts = R.hosts.map (fun c => (c.1, c.2.1)) := by
  rw [wire_hosts]
  simp only [emitJs, List.filterMap_append, List.filterMap_map, Function.comp_def, pHost_jsAlias]
  simp [pHost, jsDef, filterMap_fun_none, pHost_init, pHost_use, List.filterMap_cons, List.filterMap_nil]

theorem js_mods (nat : Name → Option Den) (T : Tables) (R : Reg) :
    (wireOf nat (emitJs T R)).mods = R.mods.map (fun c => (c.1, c.2.1)) := by
  rw [wire_mods]
  simp only [emitJs, List.filterMap_append, List.filterMap_map, Function.comp_def, pMod_jsAlias]
  simp [pMod, jsDef, filterMap_fun_none, pMod_init, pMod_use, List.filterMap_cons, List.filterMap_nil]

theorem js_mts (nat : Name → Option Den) (T : Tables) (R : Reg) :
    (wireOf nat (emitJs T R)).mts = R.msgIds.map (fun c => (c.1, c.2.1)) := by
  rw [wire_mts]
  simp only [emitJs, List.filterMap_append, List.filterMap_map, Function.comp_def, pMt_jsAlias]
  simp [pMt, jsDef, filterMap_fun_none, pMt_init, pMt_use, List.filterMap_cons, List.filterMap_nil]

theorem js_hashes (nat : Name → Option Den) (T : Tables) (R : Reg) :
    (wireOf nat (emitJs T R)).hashes = R.msgs.map (fun d => (d.name, d.hash)) := by
  rw [wire_hashes]
  simp only [emitJs, List.filterMap_append, List.filterMap_map, Function.comp_def, pHash_jsAlias]
  simp [pHash, jsDef, filterMap_fun_none, pHash_init, pHash_use, List.filterMap_cons, List.filterMap_nil]

theorem m_consts (nat : Name → Option Den) (T : Tables) (R : Reg) :
    (wireOf nat (emitM T R)).consts = R.consts.map (fun c => (c.1, c.2.1)) := by
  rw [wire_consts]
  simp only [emitM, List.filterMap_append, List.filterMap_map, Function.comp_def, pConst_tblAlias]
  simp [pConst, mDef, filterMap_fun_none, pConst_init, pConst_use, List.filterMap_cons, List.filterMap_nil]

theorem m_strs (nat : Name → Option Den) (T : Tables) (R : Reg) :
    (wireOf nat (emitM T R)).strs = R.strs.map (fun c => (c.1, c.2.1)) := by
  rw [wire_strs]
  simp only [emitM, List.filterMap_append, List.filterMap_map, Function.comp_def, pStr_tblAlias]
  simp [pStr, mDef, filterMap_fun_none, pStr_init, pStr_use, List.filterMap_cons, List.filterMap_nil]

theorem m_hosts (nat : Name → Option Den) (T : Tables) (R : Reg) :
    (wireOf nat (emitM T R)).hosts = R.hosts.map (fun c => (c.1, c.2.1)) := by
  rw [wire_hosts]
  simp only [emitM, List.filterMap_append, List.filterMap_map, Function.comp_def, pHost_tblAlias]
  simp [pHost, mDef, filterMap_fun_none, pHost_init, pHost_use, List.filterMap_cons, List.filterMap_nil]

theorem m_mods (nat : Name → Option Den) (T : Tables) (R : Reg) :
    (wireOf nat (emitM T R)).mods = R.mods.map (fun c => (c.1, c.2.1)) := by
  rw [wire_mods]
  simp only [emitM, List.filterMap_append, List.filterMap_map, Function.comp_def, pMod_tblAlias]
  simp [pMod, mDef, filterMap_fun_none, pMod_init, pMod_use, List.filterMap_cons, List.filterMap_nil]

theorem m_mts (nat : Name → Option Den) (T : Tables) (R : Reg) :
    (wireOf nat (emitM T R)).mts = R.msgIds.map (fun c => (c.1, c.2.1)) := by
  rw [wire_mts]
  simp only [emitM, List.filterMap_append, List.filterMap_map, Function.comp_def, pMt_tblAlias]
  simp [pMt, mDef, filterMap_fun_none, pMt_init, pMt_use, List.filterMap_cons, List.filterMap_nil]

theorem m_hashes (nat : Name → Option Den) (T : Tables) (R : Reg) :
    (wireOf nat (emitM T R)).hashes = R.msgs.map (fun d => (d.name, d.hash)) := by
  rw [wire_hashes]
  simp only [emitM, List.filterMap_append, List.filterMap_map, Function.comp_def, pHash_tblAlias]
  simp [pHash, mDef, filterMap_fun_none, pHash_init, pHash_use, List.filterMap_cons, List.filterMap_nil]

theorem c_consts (nat : Name → Option Den) (T : Tables) (R : Reg) :
    (wireOf nat (emitC T R)).consts = (noCore R.consts (·.2.2)).map (fun c => (c.1, c.2.1)) := by
  rw [wire_consts]
  simp only [emitC, List.filterMap_append, List.filterMap_map, Function.comp_def, pConst_tblAlias, pConst_cDef]
  simp [pConst, filterMap_fun_none, pConst_init, pConst_use, List.filterMap_cons, List.filterMap_nil]

theorem c_strs (nat : Name → Option Den) (T : Tables) (R : Reg) :
    (wireOf nat (emitC T R)).strs = (noCore R.strs (·.2.2)).map (fun c => (c.1, c.2.1)) := by
  rw [wire_strs]
  simp only [emitC, List.filterMap_append, List.filterMap_map, Function.comp_def, pStr_tblAlias, pStr_cDef]
  simp [pStr, filterMap_fun_none, pStr_init, pStr_use, List.filterMap_cons, List.filterMap_nil]

theorem c_hosts (nat : Name → Option Den) (T : Tables) (R : Reg) :
    (wireOf nat (emitC T R)).hosts = (noCore R.hosts (·.2.2)).map (fun c => (c.1, c.2.1)) := by
  rw [wire_hosts]
  simp only [emitC, List.filterMap_append, List.filterMap_map, Function.comp_def, pHost_tblAlias, pHost_cDef]
  simp [pHost, filterMap_fun_none, pHost_init, pHost_use, List.filterMap_cons, List.filterMap_nil]

theorem c_mods (nat : Name → Option Den) (T : Tables) (R : Reg) :
    (wireOf nat (emitC T R)).mods = (noCore R.mods (·.2.2)).map (fun c => (c.1, c.2.1)) := by
  rw [wire_mods]
  simp only [emitC, List.filterMap_append, List.filterMap_map, Function.comp_def, pMod_tblAlias, pMod_cDef]
  simp [pMod, filterMap_fun_none, pMod_init, pMod_use, List.filterMap_cons, List.filterMap_nil]

theorem c_mts (nat : Name → Option Den) (T : Tables) (R : Reg) :
    (wireOf nat (emitC T R)).mts = (noCore R.msgIds (·.2.2)).map (fun c => (c.1, c.2.1)) := by
  rw [wire_mts]
  simp only [emitC, List.filterMap_append, List.filterMap_map, Function.comp_def, pMt_tblAlias, pMt_cDef]
  simp [pMt, filterMap_fun_none, pMt_init, pMt_use, List.filterMap_cons, List.filterMap_nil]

theorem c_hashes (nat : Name → Option Den) (T : Tables) (R : Reg) :
    (wireOf nat (emitC T R)).hashes = (noCore R.msgs (·.core)).map (fun d => (d.name, d.hash)) := by
  rw [wire_hashes]
  simp only [emitC, List.filterMap_append, List.filterMap_map, Function.comp_def, pHash_tblAlias, pHash_cDef]
  simp [pHash, filterMap_fun_none, pHash_init, pHash_use, List.filterMap_cons, List.filterMap_nil]

end Pyrtma.Emit
