import Pyrtma.Proofs.ValidatorsArr
/-!
# `get (set x v) = canon v` as a consequence of the Spec (non-float kinds)

`spec_readback_canon`: **any** observation (model or implementation) that satisfies the Spec's `inDom` and `postOk` has
read back exactly `canonVal ty key v`.  So the Spec's byte-level clause really pins the value down: integers exactly, strings up
to the NUL, structs byte for byte.
-/
namespace Pyrtma.Validators

theorem sameRead_eq_nonflt (a b : Scalar) (hb : ∀ x, b ≠ .flt x) (h : sameRead a b = true) : a = b := by
  cases a <;> cases b <;> simp_all [sameRead]

theorem bool_in_range (k : IK) (b : Bool) : k.lo ≤ (if b then 1 else 0 : Int) ∧ (if b then 1 else 0 : Int) ≤ k.hi := by
  cases k <;> cases b <;> simp [IK.lo, IK.hi, IK.signed, IK.size]

theorem encU8 (n : Int) (h0 : 0 ≤ n) (h1 : n ≤ 255) : encInt .u8 n = [n.toNat] := by
  have := encInt_u8_byte n.toNat (by omega)
  rwa [Int.toNat_of_nonneg h0] at this

/-- how element bytes come back: through an array object (`ByteArray` wraps in a `bytearray`) or a scalar descriptor -/
def readAs (vk : VK) (inArr : Bool) (c : Bytes) : Scalar :=
  match vk, inArr with
  | .byte, true => Scalar.bytes c
  | _, _ => readElem vk c

/-- one element: domain + "the bytes represent the value" + "the read-back decodes the bytes" ⇒ canonical value -/
theorem elem_canon (vk : VK) (hnf : ∀ k, vk ≠ .flt k) (inArr : Bool) (x : Scalar) (c : Bytes) (r : Scalar)
    (hw : scalarWF vk x = true) (hdom : elemDomOne vk x = true) (hh : holds1 vk x c = true)
    (hr : r = readAs vk inArr c) :
    r = canonOne vk inArr x := by
  subst hr
  cases vk with
  | flt k => exact absurd rfl (hnf k)
  | int k =>
    have e : readAs (.int k) inArr c = .int (decInt k c) := by cases inArr <;> rfl
    rw [e]
    cases x with
    | int n =>
      simp only [elemDomOne, elemDomSeq, intDom, Bool.or_false, decide_eq_true_eq] at hdom
      simp only [holds1, intVal, beq_iff_eq] at hh
      subst hh
      simp [canonOne, decInt_encInt k n hdom.1 hdom.2]
    | bool b =>
      simp only [holds1, intVal, beq_iff_eq] at hh
      subst hh
      have := bool_in_range k b
      simp [canonOne, decInt_encInt k _ this.1 this.2]
    | cdata t raw =>
      simp only [holds1, beq_iff_eq] at hh
      subst hh
      simp [canonOne]
    | _ => simp [elemDomOne, elemDomSeq, intDom] at hdom
  | strct tid sz =>
    have e : readAs (.strct tid sz) inArr c = .strct tid c := by cases inArr <;> rfl
    rw [e]
    cases x with
    | strct t raw =>
      simp only [holds1, beq_iff_eq] at hh
      subst hh
      simp [canonOne]
    | _ => simp [elemDomOne, elemDomSeq] at hdom
  | byte =>
    have e : readAs .byte inArr c = (if inArr then Scalar.bytes c else .int (fromLE c : Nat)) := by
      cases inArr <;> rfl
    rw [e]
    cases x with
    | int n =>
      simp only [elemDomOne, elemDomSeq, intDom, Bool.or_false, decide_eq_true_eq] at hdom
      simp only [holds1, intVal, beq_iff_eq] at hh
      subst hh
      rw [encU8 n hdom.1 hdom.2]
      cases inArr <;> simp [canonOne, fromLE]
    | bool b =>
      simp only [holds1, intVal, beq_iff_eq] at hh
      subst hh
      cases b <;> cases inArr <;> simp [canonOne, fromLE, encU8]
    | bytes bs =>
      match bs, hdom with
      | [b], _ =>
        simp only [holds1, beq_iff_eq] at hh
        subst hh
        cases inArr <;> simp [canonOne, fromLE]
      | [], hdom => simp [elemDomOne, elemDomSeq, intDom] at hdom
      | _ :: _ :: _, hdom => simp [elemDomOne, elemDomSeq, intDom] at hdom
    | cdata t raw =>
      simp only [holds1, beq_iff_eq] at hh
      subst hh
      simp only [scalarWF, Bool.and_eq_true, beq_iff_eq] at hw
      cases t with
      | int k' =>
        cases k' <;> simp [elemDomOne, elemDomSeq, intDom] at hdom
        simp only [CT.size, IK.size] at hw
        match c, hw with
        | [r0], hw => cases inArr <;> simp [canonOne, fromLE]
      | _ => simp [elemDomOne, elemDomSeq, intDom] at hdom
    | _ => simp [elemDomOne, elemDomSeq, intDom] at hdom



theorem elemDomOne_of_seq (vk : VK) (x : Scalar) (h : elemDomSeq vk x = true) : elemDomOne vk x = true := by
  simp [elemDomOne, h]

theorem rbElemOk_readAs (vk : VK) (hnf : ∀ k, vk ≠ .flt k) (post : Bytes) (q : (Nat × Scalar) × Scalar)
    (h : rbElemOk vk post q = true) : q.2 = readAs vk true (elemBytes post q.1.1 vk.esize) := by
  cases vk with
  | flt k => exact absurd rfl (hnf k)
  | byte => simpa [rbElemOk, readAs, elemAt_eq] using h
  | int k =>
    simp only [rbElemOk, elemAt_eq] at h
    exact sameRead_eq_nonflt _ _ (by intro x hx; cases hx) h
  | strct t z =>
    simp only [rbElemOk, elemAt_eq] at h
    exact sameRead_eq_nonflt _ _ (by intro x hx; cases hx) h

/-- the array clause of `postOk` pins the read-back down -/
theorem pairs_canon (vk : VK) (hnf : ∀ k, vk ≠ .flt k) (post : Bytes) :
    ∀ (ps : List (Nat × Scalar)) (rb : List Scalar),
      (∀ p ∈ ps, scalarWF vk p.2 = true ∧ elemDomOne vk p.2 = true) →
      (ps.all (fun p => holds1 vk p.2 (elemAt post p.1 vk.esize)) && rb.length == ps.length &&
        (ps.zip rb).all (rbElemOk vk post)) = true →
      rb = ps.map (fun p => canonOne vk true p.2)
  | [], rb, _, h => by
    simp only [List.all_nil, List.length_nil, Bool.true_and, List.zip_nil_left, Bool.and_true, beq_iff_eq,
      List.length_eq_zero_iff] at h
    simp [h]
  | p :: ps, [], _, h => by simp at h
  | p :: ps, r :: rb, hel, h => by
    simp only [List.all_cons, List.length_cons, List.zip_cons_cons, Bool.and_eq_true, beq_iff_eq] at h
    obtain ⟨⟨⟨hh, hall⟩, hlen⟩, hr, hrest⟩ := h
    have ih := pairs_canon vk hnf post ps rb (fun q hq => hel q (by simp [hq]))
      (by simp only [Bool.and_eq_true, beq_iff_eq]; exact ⟨⟨hall, by omega⟩, hrest⟩)
    have hp := hel p (by simp)
    have hr' := rbElemOk_readAs vk hnf post _ hr
    simp only at hr'
    rw [elemAt_eq] at hh
    have := elem_canon vk hnf true p.2 _ r hp.1 hp.2 hh hr'
    simp [this, ih]




theorem items_of_seqItems (v : PyVal) (xs : List Scalar) (h : seqItems v = some xs) : items v = .ok xs := by
  cases v with
  | sc s => cases s <;> simp [seqItems] at h <;> subst h <;> rfl
  | seq k ys => cases k <;> simp [seqItems] at h <;> subst h <;> rfl
  | arr c vk n b =>
    cases b with
    | none => simp [seqItems] at h
    | some raw => simp only [seqItems, Option.some.injEq] at h; subst h; rfl

theorem floatOK_of_nonfloat (vk : VK) (hnf : ∀ k, vk ≠ .flt k) : FloatOK vk := fun k hk => absurd hk (hnf k)

theorem decInt_range (k : IK) (c : Bytes) (hl : c.length = k.size) (hb : ∀ b ∈ c, b < 256) :
    k.lo ≤ decInt k c ∧ decInt k c ≤ k.hi := by
  have hlt := fromLE_lt c hb
  rw [hl, pow256] at hlt
  unfold decInt
  generalize fromLE c = u at *
  cases k <;> simp [IK.size, IK.signed, IK.lo, IK.hi] at hlt ⊢ <;> omega

/-- an element decoded from well-formed raw bytes is a value of the element's domain -/
theorem decodeOne_dom (vk : VK) (hnf : ∀ k, vk ≠ .flt k) (c : Bytes) (hl : c.length = vk.esize)
    (hb : ∀ b ∈ c, b < 256) : scalarWF vk (decodeOne vk c) = true ∧ elemDomOne vk (decodeOne vk c) = true := by
  cases vk with
  | flt k => exact absurd rfl (hnf k)
  | int k =>
    have := decInt_range k c hl hb
    simp [decodeOne, scalarWF, elemDomOne, elemDomSeq, intDom, this]
  | byte =>
    simp only [VK.esize] at hl
    refine ⟨by simpa [decodeOne, scalarWF] using hb, by simp [decodeOne, elemDomOne, elemDomSeq, intDom, hl]⟩
  | strct t z =>
    simp only [VK.esize] at hl
    simp [decodeOne, scalarWF, elemDomOne, elemDomSeq, hl]

theorem map_snd_zip_eq (idxs : List Nat) (xs : List Scalar) (f : Scalar → Scalar) (h : xs.length = idxs.length) :
    (idxs.zip xs).map (fun p => f p.2) = xs.map f := by
  have : xs = (idxs.zip xs).map Prod.snd := by rw [List.map_snd_zip]; omega
  conv => rhs; rw [this]
  rw [List.map_map]; rfl

/-- generic sequence shape of the array clause -/
theorem seq_canon (cls : ArrCls) (vk : VK) (hnf : ∀ k, vk ≠ .flt k) (n : Nat) (key : Key) (v : PyVal) (post : Bytes)
    (rb : List Scalar) (idxs : List Nat) (xs : List Scalar) (hw : valWF vk v = true)
    (hseq : seqItems v = some xs) (hlen : xs.length = idxs.length)
    (hall : ∀ x ∈ xs, elemDomSeq vk x = true) (hpairs : pairsOf vk n key v = some (idxs.zip xs))
    (hp : postOk (.arr cls vk n) key v post rb = true) : rb = xs.map (canonOne vk true) := by
  rw [postOk_arr, hpairs] at hp
  have hwf := items_wf vk (floatOK_of_nonfloat vk hnf) v xs hw (items_of_seqItems v xs hseq)
  have := pairs_canon vk hnf post (idxs.zip xs) rb
    (fun p hp' => by
      have hx : p.2 ∈ xs := (List.of_mem_zip hp').2
      exact ⟨hwf _ hx, elemDomOne_of_seq vk _ (hall _ hx)⟩) hp
  rw [this, map_snd_zip_eq idxs xs _ hlen]




theorem canonVal_arr (cls : ArrCls) (vk : VK) (hnf : ∀ k, vk ≠ .flt k) (n : Nat) (key : Key) (v : PyVal) :
    canonVal (.arr cls vk n) key v = canonArr vk n key v := by
  cases vk with
  | flt k => exact absurd rfl (hnf k)
  | _ => rfl

theorem arr_canon (cls : ArrCls) (vk : VK) (hnf : ∀ k, vk ≠ .flt k) (n : Nat) (key : Key) (v : PyVal) (post : Bytes)
    (rb : List Scalar) (hw : valWF vk v = true)
    (hraw : ∀ c k m r, key = .whole → v = .arr c k m (some r) → r.length = vk.esize * n)
    (hd : inDom (.arr cls vk n) key v = true) (hp : postOk (.arr cls vk n) key v post rb = true) :
    ∀ l, canonVal (.arr cls vk n) key v = some l → rb = l := by
  intro l hl
  -- the generic (sequence) ending
  have gen : ∀ idxs xs, keyIndices n key = some idxs → seqItems v = some xs →
      (xs.length == idxs.length && xs.all (elemDomSeq vk)) = true →
      pairsOf vk n key v = some (idxs.zip xs) → rb = xs.map (canonOne vk true) := by
    intro idxs xs hki hseq hc hpairs
    simp only [Bool.and_eq_true, beq_iff_eq, List.all_eq_true] at hc
    exact seq_canon cls vk hnf n key v post rb idxs xs hw hseq hc.1 hc.2 hpairs hp
  rw [canonVal_arr cls vk hnf n key v] at hl
  unfold canonArr at hl
  cases key with
  | bad => cases v <;> simp [inDom] at hd
  | idx i =>
    cases v with
    | sc s =>
      simp only [Option.some.injEq] at hl; subst hl
      rw [inDom_arr_idx] at hd
      simp only [Bool.and_eq_true, Option.isSome_iff_exists] at hd
      obtain ⟨⟨idxs, hki⟩, hdom⟩ := hd
      rw [postOk_arr] at hp
      have hpairs : pairsOf vk n (.idx i) (.sc s) = some (idxs.map fun j => (j, s)) := by simp [pairsOf, hki]
      rw [hpairs] at hp
      -- exactly one index
      have h1 : ∃ j, idxs = [j] := by
        simp only [keyIndices] at hki
        generalize (if i < 0 then i + (n : Int) else i) = j at hki
        split at hki
        · simp only [Option.some.injEq] at hki; exact ⟨_, hki.symm⟩
        · cases hki
      obtain ⟨j, rfl⟩ := h1
      have hws : scalarWF vk s = true := by simpa [valWF] using hw
      have := pairs_canon vk hnf post [(j, s)] rb (by simp [hws, hdom]) (by simpa using hp)
      simpa using this
    | seq k ys => simp [inDom] at hd
    | arr c k m r => simp [inDom] at hd
  | slice a b c =>
    have hl' : (seqItems v).map (fun xs => xs.map (canonOne vk true)) = some l := by
      cases v <;> exact hl
    rw [inDom_arr_slice] at hd
    cases hki : keyIndices n (.slice a b c) with
    | none => simp [hki] at hd
    | some idxs =>
      cases hseq : seqItems v with
      | none => simp [hki, hseq] at hd
      | some xs =>
        simp only [hki, hseq] at hd
        simp only [hseq, Option.map_some, Option.some.injEq] at hl'
        subst hl'
        apply gen idxs xs hki hseq hd
        cases v with
        | sc s => simp [pairsOf, hki, hseq]
        | seq k ys => simp [pairsOf, hki, hseq]
        | arr c k m r =>
          cases r with
          | none => simp [seqItems] at hseq
          | some raw => simp [pairsOf, hki, hseq]
  | whole =>
    have hki : keyIndices n .whole = some (List.range n) := rfl
    cases v with
    | sc s =>
      simp only at hl
      rw [inDom_arr_whole_sc, hki] at hd
      cases hseq : seqItems (.sc s) with
      | none => simp [hseq] at hd
      | some xs =>
        simp only [hseq] at hd
        simp only [hseq, Option.map_some, Option.some.injEq] at hl
        subst hl
        exact gen _ xs hki hseq hd (by simp [pairsOf, hki, hseq])
    | seq k ys =>
      simp only at hl
      rw [inDom_arr_whole_seq, hki] at hd
      cases hseq : seqItems (.seq k ys) with
      | none => simp [hseq] at hd
      | some xs =>
        simp only [hseq] at hd
        simp only [hseq, Option.map_some, Option.some.injEq] at hl
        subst hl
        exact gen _ xs hki hseq hd (by simp [pairsOf, hki, hseq])
    | arr c k m r =>
      cases r with
      | none => simp [inDom_arr_whole_arr, seqItems] at hd
      | some raw =>
        simp only [Option.some.injEq] at hl; subst hl
        have hrl := hraw c k m raw rfl rfl
        simp only [valWF, Bool.and_eq_true, List.all_eq_true, decide_eq_true_eq] at hw
        have hbytes : ∀ b ∈ raw, b < 256 := hw.1.1.2
        rw [postOk_arr] at hp
        have hpairs : pairsOf vk n .whole (.arr c k m (some raw)) = some ((List.range n).zip (decodeItems vk n raw)) := by
          simp [pairsOf]
        rw [hpairs] at hp
        have hlen : (decodeItems vk n raw).length = (List.range n).length := by rw [decodeItems_eq]; simp
        have := pairs_canon vk hnf post _ rb
          (fun p hp' => by
            have hx : p.2 ∈ decodeItems vk n raw := (List.of_mem_zip hp').2
            rw [decodeItems_eq] at hx
            simp only [List.mem_map, List.mem_range] at hx
            obtain ⟨i, hi, hx⟩ := hx
            rw [← hx]
            exact decodeOne_dom vk hnf _
              (elemBytes_length raw i vk.esize (by rw [hrl]; exact idx_in_range hi))
              (elemBytes_bytes raw i vk.esize hbytes)) hp
        rw [this, map_snd_zip_eq _ _ _ hlen]


theorem scalar_canon (vk : VK) (hnf : ∀ k, vk ≠ .flt k) (s : Scalar) (post : Bytes) (rb : List Scalar)
    (hw : scalarWF vk s = true) (hd : elemDomOne vk s = true) (hh : holds1 vk s post = true)
    (hrb : rb = [readElem vk post]) : rb = [canonOne vk false s] := by
  subst hrb
  have : readElem vk post = readAs vk false post := by cases vk <;> rfl
  rw [elem_canon vk hnf false s post _ hw hd hh this]

/-- **`get (set x v) = canon v`, from the Spec alone**: every observation that satisfies `inDom` and `postOk` has read
back the canonical value (non-float kinds; `hraw`: when a whole array is assigned from another message's array object,
that object has the field's size - in the model this is what `validate_array` checks). -/
theorem spec_readback_canon (ty : FTy) (hnf : ∀ k, ty.vk ≠ .flt k) (key : Key) (v : PyVal) (post : Bytes)
    (rb : List Scalar) (hw : valWF ty.vk v = true)
    (hraw : ∀ cls vk n, ty = .arr cls vk n → ∀ c k m r, key = .whole → v = .arr c k m (some r) →
      r.length = vk.esize * n)
    (hd : inDom ty key v = true) (hp : postOk ty key v post rb = true) :
    ∀ l, canonVal ty key v = some l → rb = l := by
  intro l hl
  cases ty with
  | arr cls vk n => exact arr_canon cls vk hnf n key v post rb hw (hraw cls vk n rfl) hd hp l hl
  | flt k => exact absurd rfl (hnf k)
  | int k =>
    cases key <;> cases v <;> simp [inDom] at hd
    rename_i s
    simp only [canonVal, Option.some.injEq] at hl; subst hl
    simp only [postOk, Bool.and_eq_true, beq_iff_eq] at hp
    exact scalar_canon (.int k) hnf s post rb (by simpa [valWF, FTy.vk] using hw) hd hp.1 hp.2
  | byte =>
    cases key <;> cases v <;> simp [inDom] at hd
    rename_i s
    simp only [canonVal, Option.some.injEq] at hl; subst hl
    simp only [postOk, Bool.and_eq_true, beq_iff_eq] at hp
    exact scalar_canon .byte hnf s post rb (by simpa [valWF, FTy.vk] using hw) hd hp.1 hp.2
  | strct t z =>
    cases key <;> cases v <;> simp [inDom] at hd
    rename_i s
    simp only [canonVal, Option.some.injEq] at hl; subst hl
    simp only [postOk, Bool.and_eq_true, beq_iff_eq] at hp
    exact scalar_canon (.strct t z) hnf s post rb (by simpa [valWF, FTy.vk] using hw) hd hp.1 hp.2
  | char =>
    cases v with
    | sc s =>
      cases s <;> simp [canonVal] at hl
      subst hl
      simp only [postOk, Bool.and_eq_true, beq_iff_eq] at hp
      exact hp.2
    | _ => simp [canonVal] at hl
  | str n =>
    cases v with
    | sc s =>
      cases s <;> simp [canonVal] at hl
      subst hl
      simp only [postOk, Bool.and_eq_true, beq_iff_eq] at hp
      exact hp.2
    | _ => simp [canonVal] at hl



/-- an accepted `msg.arr = other.arr` hands over exactly as many bytes as the field has -/
theorem accepted_raw_size (cls : ArrCls) (vk : VK) (hF : FloatOK vk) (n : Nat) (old : Bytes) (c : ArrCls) (k : VK)
    (m : Nat) (r : Bytes) (post : Bytes) (hc : clsOK cls vk = true) (hw : valWF vk (.arr c k m (some r)) = true)
    (h : setField true (.arr cls vk n) old .whole (.arr c k m (some r)) = (post, none)) :
    r.length = vk.esize * n := by
  have hrl : r.length = k.esize * m := by
    simp only [valWF, Bool.and_eq_true, beq_iff_eq] at hw; exact hw.1.1.1
  unfold setField at h
  simp only at h
  split at h
  · have hs := lift_ok _ _ _ h
    unfold setArrObj at hs
    simp only [if_true] at hs
    split at hs
    · cases hs
    · rename_i hva
      unfold validateArray at hva
      split at hva; · cases hva
      split at hva; · cases hva
      rename_i hvk
      split at hva; · cases hva
      rename_i hvn
      have hvk : k = vk := by simpa using hvk
      have hvn : m = n := by simpa using hvn
      rw [hrl, hvk, hvn]
  · rename_i hm
    obtain ⟨idxs, xs, hsel, hseq, hlen, hel, hsm⟩ :=
      setItem_seq_core vk hF n old .whole _ post (Or.inl rfl) hw h
    simp only [selIndices, Except.ok.injEq] at hsel; subst hsel
    simp only [seqItems, Option.some.injEq] at hseq; subst hseq
    have hc2 : clsOK c k = true := by
      simp only [valWF, Bool.and_eq_true] at hw; exact hw.1.2
    have hxs : decodeItems k m r = [] := by
      cases hd : decodeItems k m r with
      | nil => rfl
      | cons x t =>
        exfalso
        have hx : x ∈ decodeItems k m r := by rw [hd]; simp
        have hdom := (hel x hx).2.1
        rw [decodeItems_eq] at hx
        simp only [List.mem_map] at hx
        obtain ⟨i, _, rfl⟩ := hx
        rw [mismatch_no_items cls c vk k _ hc hc2 (by simpa using hm)] at hdom
        cases hdom
    rw [hxs] at hlen
    have hn : n = 0 := by simpa using hlen.symm
    have hm0 : m = 0 := by
      rw [decodeItems_eq] at hxs
      simpa using hxs
    rw [hrl, hn, hm0]; simp




/-- **frame inside an array**: an accepted assignment leaves every element it does not select untouched -/
theorem arr_frame (cls : ArrCls) (vk : VK) (hF : FloatOK vk) (n : Nat) (old : Bytes) (key : Key) (v : PyVal)
    (post : Bytes) (hold : old.length = vk.esize * n) (hw : valWF vk v = true)
    (h : setField true (.arr cls vk n) old key v = (post, none)) :
    ∀ idxs, selIndices n key = .ok idxs → ∀ j, j < n → j ∉ idxs →
      elemBytes post j vk.esize = elemBytes old j vk.esize := by
  intro idxs hsel j hj hnot
  cases key with
  | bad => cases hsel
  | whole =>
    simp only [selIndices, Except.ok.injEq] at hsel; subst hsel
    exact absurd (List.mem_range.mpr hj) hnot
  | idx i =>
    have h' : setItem true vk n old (.idx i) v = (post, none) := by
      unfold setField at h; simpa using h
    unfold setItem at h'
    simp only [if_true, Bool.true_and] at h'
    cases hchk : itemCheck vk (.idx i) v with
    | error e => simp [hchk] at h'
    | ok u =>
      simp only [hchk] at h'
      obtain ⟨s', b, hv', hj0, hjn, hst, hpost⟩ := storeIdx_ok _ _ _ _ _ _ (lift_ok _ _ _ h')
      simp only [selIndices] at hsel
      generalize (if i < 0 then i + (n : Int) else i) = j0 at hj0 hjn hpost hsel
      have : ¬ (j0 < 0 ∨ j0 ≥ n) := by omega
      simp only [this, if_false, Except.ok.injEq] at hsel
      subst hsel
      have hws : scalarWF vk s' = true := by
        by_cases hby : vk = .byte ∧ ∃ bs, v = .sc (.bytes bs)
        · obtain ⟨rfl, bs, rfl⟩ := hby
          simp only [beq_self_eq_true, if_true] at hv'
          match bs, hv' with
          | [], hv' => simp [byteConv] at hv'
          | [b0], hv' => simp only [byteConv, PyVal.sc.injEq] at hv'; subst hv'; rfl
          | _ :: _ :: _, hv' => simp [byteConv] at hv'
        · have hvv : (if (vk == VK.byte) = true then byteConv v else v) = v := by
            by_cases hvk : vk = .byte
            · subst hvk
              simp only [beq_self_eq_true, if_true]
              exact byteConv_id v (fun hbs => hby ⟨rfl, hbs⟩)
            · have : (vk == VK.byte) = false := by simpa using hvk
              simp [this]
          rw [hvv] at hv'; subst hv'
          simpa [valWF] using hw
      have hbl := elemStore_length vk s' b hws hst
      have hin : j0.toNat * vk.esize + vk.esize ≤ old.length := by
        rw [hold]; exact idx_in_range (by omega)
      rw [hpost, elemBytes_writeAt_other _ _ _ _ _ hbl hin (by simpa using (fun e => hnot (by simp [e])))]
  | slice a b c =>
    have h' : setItem true vk n old (.slice a b c) v = (post, none) := by
      unfold setField at h; simpa using h
    obtain ⟨idxs', xs, hsel', hseq, hlen, hel, hsm⟩ :=
      setItem_seq_core vk hF n old _ v post (Or.inr ⟨a, b, c, rfl⟩) hw h'
    rw [hsel] at hsel'
    simp only [Except.ok.injEq] at hsel'; subst hsel'
    have hsp := sliceIndices_spec n a b c idxs hsel
    obtain ⟨_, _, h3⟩ := storeMany_spec vk n idxs xs old post hold hsp.1 hsp.2 hlen
      (fun x hx b hb => elemStore_length vk x b (hel x hx).1 hb) hsm
    exact h3 j hnot


end Pyrtma.Validators
