import Pyrtma.Proofs.ManagerSim
import Pyrtma.Proofs.ManagerNotice
import Pyrtma.Proofs.ManagerSpecDep
/-!
# Refinement of the history-based Spec by the manager model M1 — the departure clauses (C07), model side

What a stretch of manager activity guarantees about the departures it contains, in the terms of `Spec.checkDepartures`:

* `just`  — every `close v` has a reason: a failed write to `v` in the same stretch (or `v` is the connection the stretch
            is about: it said DISCONNECT, its frame was broken, its connect request was refused);
* `adj`   — a failed write to `v` is followed *immediately* by `close v`;
* `ntc`   — a CLIENT_CLOSED frame about `v` is only written in a stretch that closes `v`;
* `lb`    — every connection that can take a CLIENT_CLOSED frame at the end of the stretch (`Stable`: in the table,
            socket open, not failing, subscribed to CLIENT_CLOSED, writable or a logger) has been written one about
            every `v` closed in the stretch.

The upper bound (at most one notice per observer and departure) is `T` of `ManagerNotice.lean`.
As there, the induction through the nested `forward` rides on crash-freedom (`Good`, `Safe`): a delivery that runs out
of fuel, or writes to a closed socket, would cut the notices short.
-/
namespace Pyrtma.Mgr

/-- `o` can be handed a CLIENT_CLOSED frame in state `s` -/
def Stable (cfg : Cfg) (s : State) (o : Nat) : Prop :=
  ∃ m, s.find o = some m ∧ m.closed = false ∧ failOf s o = none ∧
    (o ∈ idxGet s.idx cfg.mtClosed ∨ o ∈ idxGet s.idx cfg.allTypes) ∧ (o ∈ s.wlist ∨ m.isLogger = true)

/-- who is stable after was stable before -/
def Back (cfg : Cfg) (s s' : State) : Prop := ∀ o, Stable cfg s' o → Stable cfg s o

theorem Back.refl (cfg : Cfg) (s : State) : Back cfg s s := fun _ h => h
theorem Back.trans {cfg : Cfg} {a b c : State} (h1 : Back cfg a b) (h2 : Back cfg b c) : Back cfg a c :=
  fun o h => h1 o (h2 o h)

theorem Nest.back {s s' : State} (cfg : Cfg) (h : Nest s s') : Back cfg s s' := by
  intro o ⟨m', hm', hc', hf', hi', hw'⟩
  obtain ⟨m, hm, he⟩ := h.surv o m' hm' hc'
  obtain ⟨e1, _, e3, _⟩ := core_fields he
  refine ⟨m, hm, by rw [← e1]; exact hc', by rw [← failOf_congr h.fail]; exact hf', ?_, ?_⟩
  · rcases hi' with hi | hi
    · exact Or.inl (h.idxSub _ _ hi)
    · exact Or.inr (h.idxSub _ _ hi)
  · rcases hw' with hw | hw
    · exact Or.inl (by rw [← h.wlist]; exact hw)
    · exact Or.inr (by rw [← e3]; exact hw)

/-- a failed write is followed at once by the close of the connection -/
def Adj : List Ev → Prop
  | [] => True
  | .wfail v :: rest => (∃ l3, rest = .close v :: l3) ∧ Adj rest
  | _ :: rest => Adj rest

theorem adj_cons (e : Ev) (rest : List Ev) (he : ∀ v, e ≠ .wfail v) (h : Adj rest) : Adj (e :: rest) := by
  cases e with
  | wfail v => exact absurd rfl (he v)
  | _ => exact h

theorem adj_wfail (v : Nat) (rest : List Ev) (h : Adj (.close v :: rest)) : Adj (.wfail v :: .close v :: rest) :=
  ⟨⟨rest, rfl⟩, h⟩

theorem adj_tail (e : Ev) (rest : List Ev) (h : Adj (e :: rest)) : Adj rest := by
  cases e with
  | wfail v => exact h.2
  | _ => exact h

theorem adj_append : ∀ (a b : List Ev), Adj a → Adj b → Adj (a ++ b)
  | [], _, _, hb => hb
  | e :: rest, b, ha, hb => by
    have ih := adj_append rest b (adj_tail e rest ha) hb
    cases e with
    | wfail v =>
      obtain ⟨⟨l3, hl⟩, _⟩ := ha
      exact ⟨⟨l3 ++ b, by rw [hl]; rfl⟩, ih⟩
    | _ => exact ih

theorem adj_suffix : ∀ (a b : List Ev), Adj (a ++ b) → Adj b
  | [], _, h => h
  | e :: rest, b, h => adj_suffix rest b (adj_tail e _ h)

structure DepE (cfg : Cfg) (jx nx : Option Nat) (s' : State) (ext : List Ev) : Prop where
  just : ∀ v, Ev.close v ∈ ext → jx = some v ∨ Ev.wfail v ∈ ext
  adj : Adj ext
  ntc : ∀ o c f v, Ev.send o c f ∈ ext → aboutClosed v f.body = true → nx = some v ∨ Ev.close v ∈ ext
  lb : ∀ v, Ev.close v ∈ ext → ∀ o, Stable cfg s' o → o ≠ v → ∃ c f, Ev.send o c f ∈ ext ∧ aboutClosed v f.body = true

theorem depE_nil (cfg : Cfg) (jx nx : Option Nat) (s' : State) : DepE cfg jx nx s' [] :=
  { just := fun _ h => (by cases h), adj := trivial, ntc := fun _ _ _ _ h _ => (by cases h), lb := fun _ h => (by cases h) }

theorem DepE.back {cfg : Cfg} {jx nx : Option Nat} {b c : State} {e : List Ev} (h : DepE cfg jx nx b e) (bk : Back cfg b c) :
    DepE cfg jx nx c e :=
  ⟨h.just, h.adj, h.ntc, fun v hv o ho hne => h.lb v hv o (bk o ho) hne⟩

theorem DepE.append {cfg : Cfg} {jx nx : Option Nat} {b c : State} {e1 e2 : List Ev} (h1 : DepE cfg jx nx b e1)
    (h2 : DepE cfg jx nx c e2) (bk : Back cfg b c) : DepE cfg jx nx c (e1 ++ e2) := by
  refine ⟨fun v hv => ?_, adj_append _ _ h1.adj h2.adj, fun o c f v hm hb => ?_, fun v hv o ho hne => ?_⟩
  · rcases List.mem_append.mp hv with h | h
    · exact (h1.just v h).imp id (fun x => List.mem_append.mpr (Or.inl x))
    · exact (h2.just v h).imp id (fun x => List.mem_append.mpr (Or.inr x))
  · rcases List.mem_append.mp hm with h | h
    · exact (h1.ntc o c f v h hb).imp id (fun x => List.mem_append.mpr (Or.inl x))
    · exact (h2.ntc o c f v h hb).imp id (fun x => List.mem_append.mpr (Or.inr x))
  · rcases List.mem_append.mp hv with h | h
    · obtain ⟨c', f, hm, hb⟩ := h1.lb v h o (bk o ho) hne
      exact ⟨c', f, List.mem_append.mpr (Or.inl hm), hb⟩
    · obtain ⟨c', f, hm, hb⟩ := h2.lb v h o ho hne
      exact ⟨c', f, List.mem_append.mpr (Or.inr hm), hb⟩

theorem DepE.anyJ {cfg : Cfg} {nx : Option Nat} {s' : State} {e : List Ev} (h : DepE cfg none nx s' e) (jx : Option Nat) :
    DepE cfg jx nx s' e :=
  ⟨fun v hv => (h.just v hv).elim (fun x => by cases x) Or.inr, h.adj, h.ntc, h.lb⟩

theorem DepE.anyN {cfg : Cfg} {jx : Option Nat} {s' : State} {e : List Ev} (h : DepE cfg jx none s' e) (nx : Option Nat) :
    DepE cfg jx nx s' e :=
  ⟨h.just, h.adj, fun o c f v hm hb => (h.ntc o c f v hm hb).elim (fun x => by cases x) Or.inr, h.lb⟩

/-- one more event in front that is neither a write, nor a failed write, nor a close -/
theorem DepE.consP {cfg : Cfg} {jx nx : Option Nat} {s' : State} {e : List Ev} (h : DepE cfg jx nx s' e) (u : Nat) :
    DepE cfg jx nx s' (Ev.partialW u :: e) := by
  refine ⟨fun v hv => ?_, adj_cons _ _ (by intro _ x; cases x) h.adj, fun o c f v hm hb => ?_, fun v hv o ho hne => ?_⟩
  · rcases List.mem_cons.mp hv with x | x
    · cases x
    · exact (h.just v x).imp id (List.mem_cons_of_mem _)
  · rcases List.mem_cons.mp hm with x | x
    · cases x
    · exact (h.ntc o c f v x hb).imp id (List.mem_cons_of_mem _)
  · rcases List.mem_cons.mp hv with x | x
    · cases x
    · obtain ⟨c', f, hm, hb⟩ := h.lb v x o ho hne
      exact ⟨c', f, List.mem_cons_of_mem _ hm, hb⟩

/-- the failed write that justifies the removal -/
theorem DepE.wf {cfg : Cfg} {nx : Option Nat} {s' : State} {u : Nat} {rest : List Ev}
    (h : DepE cfg (some u) nx s' (Ev.close u :: rest)) : DepE cfg none nx s' (Ev.wfail u :: Ev.close u :: rest) := by
  refine ⟨fun v hv => ?_, adj_wfail u rest h.adj, fun o c f v hm hb => ?_, fun v hv o ho hne => ?_⟩
  · rcases List.mem_cons.mp hv with x | x
    · cases x
    · rcases h.just v x with y | y
      · cases y; exact Or.inr (by simp)
      · exact Or.inr (List.mem_cons_of_mem _ y)
  · rcases List.mem_cons.mp hm with x | x
    · cases x
    · exact (h.ntc o c f v x hb).imp id (List.mem_cons_of_mem _)
  · rcases List.mem_cons.mp hv with x | x
    · cases x
    · obtain ⟨c', f, hm, hb⟩ := h.lb v x o ho hne
      exact ⟨c', f, List.mem_cons_of_mem _ hm, hb⟩

def Dep (cfg : Cfg) (jx nx : Option Nat) (s s' : State) : Prop :=
  ∃ ext, s'.out = s.out ++ ext ∧ DepE cfg jx nx s' ext

theorem Dep.refl (cfg : Cfg) (jx nx : Option Nat) (s : State) : Dep cfg jx nx s s := ⟨[], by simp, depE_nil _ _ _ _⟩

theorem dep_same {cfg : Cfg} {jx nx : Option Nat} {s s' : State} (ho : s'.out = s.out) : Dep cfg jx nx s s' :=
  ⟨[], by simp [ho], depE_nil _ _ _ _⟩

theorem Dep.trans {cfg : Cfg} {jx nx : Option Nat} {a b c : State} (h1 : Dep cfg jx nx a b) (h2 : Dep cfg jx nx b c)
    (bk : Back cfg b c) : Dep cfg jx nx a c := by
  obtain ⟨e1, o1, d1⟩ := h1
  obtain ⟨e2, o2, d2⟩ := h2
  exact ⟨e1 ++ e2, by rw [o2, o1, List.append_assoc], d1.append d2 bk⟩

theorem Dep.anyJ {cfg : Cfg} {nx : Option Nat} {s s' : State} (h : Dep cfg none nx s s') (jx : Option Nat) :
    Dep cfg jx nx s s' := by
  obtain ⟨e, o, d⟩ := h; exact ⟨e, o, d.anyJ jx⟩

theorem Dep.anyN {cfg : Cfg} {jx : Option Nat} {s s' : State} (h : Dep cfg jx none s s') (nx : Option Nat) :
    Dep cfg jx nx s s' := by
  obtain ⟨e, o, d⟩ := h; exact ⟨e, o, d.anyN nx⟩

theorem Dep.back {cfg : Cfg} {jx nx : Option Nat} {a b c : State} (h : Dep cfg jx nx a b) (ho : c.out = b.out)
    (bk : Back cfg b c) : Dep cfg jx nx a c := by
  obtain ⟨e, o, d⟩ := h; exact ⟨e, by rw [ho, o], d.back bk⟩

/-! ## `sendRaw` -/

theorem sendRaw_ext (s : State) (u : Nat) (f : Frame) (m : Module) (hm : s.find u = some m) (hc : m.closed = false) :
    (failOf s u = none ∧ (sendRaw s u f).2 = true ∧ (sendRaw s u f).1.out = s.out ++ [Ev.send u (m.msgCount + 1) f]) ∨
    (failOf s u ≠ none ∧ (sendRaw s u f).2 = false ∧
      ((sendRaw s u f).1.out = s.out ++ [Ev.wfail u] ∨ (sendRaw s u f).1.out = s.out ++ [Ev.partialW u, Ev.wfail u])) := by
  unfold sendRaw
  simp only [hm, hc, Bool.false_eq_true, if_false]
  have hfo : failOf (s.upd u fun m => { m with msgCount := m.msgCount + 1 }) u = failOf s u := rfl
  rw [hfo]
  cases hf : failOf s u with
  | none => exact Or.inl ⟨rfl, rfl, rfl⟩
  | some fm =>
    cases fm with
    | hdr => exact Or.inr ⟨by simp, rfl, Or.inl rfl⟩
    | pay => exact Or.inr ⟨by simp, rfl, Or.inr (by simp [State.emit, State.upd])⟩

/-- the module a frame is about, if it is a CLIENT_CLOSED frame -/
def aboutOf (g : Frame) : Option Nat :=
  match g.body with
  | .closed v _ _ _ _ _ => some v
  | _ => none

theorem aboutOf_iff (g : Frame) (v : Nat) : aboutClosed v g.body = true ↔ aboutOf g = some v := by
  unfold aboutOf aboutClosed
  cases g.body <;> simp

/-- forwarding a CLIENT_CLOSED frame reaches everybody who can take it -/
def All (cfg : Cfg) (g : Frame) (s' : State) (ext : List Ev) : Prop :=
  g.mtype = cfg.mtClosed → g.dest = 0 → g.destHost = 0 → ∀ o, Stable cfg s' o → ∃ c, Ev.send o c g ∈ ext

/-- the nested-forward contract -/
def DOK (cfg : Cfg) (fwd : Fwd) (n : Nat) : Prop :=
  ∀ s g, Good cfg s → need cfg s g ≤ n →
    ∃ ext, (fwd s g).out = s.out ++ ext ∧ DepE cfg none (aboutOf g) (fwd s g) ext ∧ All cfg g (fwd s g) ext

section chain
variable {cfg : Cfg} (ok : CfgOK cfg) {fwd : Fwd} {n : Nat}
  (hs : Safe cfg fwd n) (hnest : NestOK fwd) (hd : DOK cfg fwd n)
include ok hs hnest hd

omit hs hnest in
theorem logAt_dep (lvl : Nat) {s : State} (h : Good cfg s) (hb : 2 * live s + 1 ≤ n) :
    Dep cfg none none s (logAt cfg fwd lvl s) := by
  unfold logAt; split
  · obtain ⟨e, o, d, _⟩ := hd s (logFrame cfg lvl) h (by rw [need_log cfg ok]; exact hb)
    exact ⟨e, o, d⟩
  · exact Dep.refl _ _ _ s

omit hs hnest in
theorem failedMsg_dep {s : State} (h : Good cfg s) (d : Int) (f : Frame) (hb : 2 * live s + gcost cfg f ≤ n) :
    Dep cfg none none s (failedMsg cfg fwd s d f) := by
  unfold failedMsg; split
  · exact Dep.refl _ _ _ s
  · rename_i hg
    have : gcost cfg f = 1 := by unfold gcost; simp [hg]
    obtain ⟨e, o, dd, _⟩ := hd s (failedFrame cfg d f) h (by rw [need_failed cfg ok]; omega)
    exact ⟨e, o, dd⟩

theorem removeModule_dep {s : State} (h : Good cfg s) (u : Nat) (m : Module) (hm : s.find u = some m)
    (hcl : m.closed = false) (hb : 2 * live s ≤ n) :
    ∃ rest, (removeModule cfg fwd s u).out = s.out ++ Ev.close u :: rest ∧
      DepE cfg (some u) none (removeModule cfg fwd s u) (Ev.close u :: rest) := by
  unfold removeModule
  simp only [hm]
  obtain ⟨g1, hl1, _, _, _⟩ := removePrep_good h u m hm hcl
  have o1 : (removePrep s u m).out = s.out ++ [Ev.close u] := by rw [removePrep_out, hcl]; rfl
  obtain ⟨g2, st2⟩ := logAt_safe ok hs 10 g1 (by omega)
  have hl2 := st2.live
  obtain ⟨e2, o2, d2⟩ := logAt_dep ok hd 10 g1 (by omega)
  have hneed : need cfg (logAt cfg fwd 10 (removePrep s u m)) (closedFrame cfg { m with connected := false }) ≤ n := by
    rw [need_closed cfg ok]; omega
  obtain ⟨e3, o3, d3, a3⟩ := hd _ (closedFrame cfg { m with connected := false }) g2 hneed
  have hab : aboutOf (closedFrame cfg { m with connected := false }) = some u := by
    have := find_uid hm
    simp [closedFrame, mgrFrame, aboutOf, this]
  rw [hab] at d3
  generalize hs3 : fwd (logAt cfg fwd 10 (removePrep s u m)) (closedFrame cfg { m with connected := false }) = s3
    at o3 d3 a3
  have n3 : Nest (logAt cfg fwd 10 (removePrep s u m)) s3 := by rw [← hs3]; exact hnest _ _
  have hno : ¬ openIn s3 u := fun ho =>
    removePrep_notOpen s u m (((logAt_nest (cfg := cfg) hnest 10 (removePrep s u m)).trans n3).stay u ho)
  have n4 : Nest s3 { s3 with mods := s3.mods.filter (·.uid != u) } := nest_dropMod s3 u hno
  have b3 := n3.back cfg
  have b4 := n4.back cfg
  refine ⟨e2 ++ e3, ?_, ?_⟩
  · show s3.out = _
    rw [o3, o2, o1]; simp
  · have d23 : DepE cfg none (some u) s3 (e2 ++ e3) := (d2.anyN _).append d3 b3
    refine ⟨fun v hv => ?_, adj_cons _ _ (by intro _ x; cases x) d23.adj, fun o c f v hm' hb' => ?_,
      fun v hv o ho hne => ?_⟩
    · rcases List.mem_cons.mp hv with x | x
      · cases x; exact Or.inl rfl
      · exact Or.inr (List.mem_cons_of_mem _ ((d23.just v x).resolve_left (by simp)))
    · rcases List.mem_cons.mp hm' with x | x
      · cases x
      · rcases d23.ntc o c f v x hb' with y | y
        · cases y; exact Or.inr (by simp)
        · exact Or.inr (List.mem_cons_of_mem _ y)
    · have ho3 := b4 o ho
      rcases List.mem_cons.mp hv with x | x
      · cases x
        obtain ⟨c, hc⟩ := a3 rfl rfl rfl o ho3
        exact ⟨c, _, List.mem_cons_of_mem _ (List.mem_append.mpr (Or.inr hc)),
          (aboutOf_iff _ _).mpr hab⟩
      · obtain ⟨c, f, hm', hb'⟩ := d23.lb v x o ho3 hne
        exact ⟨c, f, List.mem_cons_of_mem _ hm', hb'⟩

theorem trySend_dep {s : State} (h : Good cfg s) (u : Nat) (f : Frame) (m : Module)
    (hm : s.find u = some m) (hcl : m.closed = false) (hb : 2 * live s + gcost cfg f ≤ n) :
    ∃ ext, (trySend cfg fwd s u f).out = s.out ++ ext ∧ DepE cfg none (aboutOf f) (trySend cfg fwd s u f) ext ∧
      (failOf s u = none → ∃ c, Ev.send u c f ∈ ext) := by
  unfold trySend
  dsimp only
  obtain ⟨g1, st1⟩ := sendRaw_good h u f m hm hcl
  obtain ⟨m1, hm1, hc1, _⟩ := sendRaw_find (s := s) u f m hm hcl
  have hx := sendRaw_ext s u f m hm hcl
  generalize hsr : sendRaw s u f = r at g1 st1 hm1 hx
  obtain ⟨s1, okb⟩ := r
  simp only at g1 st1 hm1 hx ⊢
  rcases hx with ⟨hf, hok, ho⟩ | ⟨hf, hok, ho⟩
  · subst hok
    simp only [if_true]
    refine ⟨[Ev.send u (m.msgCount + 1) f], by show s1.out = _; exact ho, ?_, fun _ => ⟨m.msgCount + 1, by simp⟩⟩
    refine ⟨fun v hv => by simp at hv, trivial, fun o c f' v hm' hb' => ?_, fun v hv => by simp at hv⟩
    simp only [List.mem_singleton] at hm'
    injection hm' with _ _ e3
    subst e3
    exact Or.inl ((aboutOf_iff _ _).mp hb')
  · subst hok
    simp only [Bool.false_eq_true, if_false]
    have hcr : s1.crashed.isSome = false := by rw [g1.ok]; rfl
    simp only [hcr, Bool.false_eq_true, if_false]
    have hl1 := st1.live
    obtain ⟨g2, st2, hl2⟩ := removeModule_safe ok hs g1 u m1 hm1 hc1 (by omega)
    obtain ⟨rest, o2, d2⟩ := removeModule_dep ok hs hnest hd g1 u m1 hm1 hc1 (by omega)
    obtain ⟨g3, st3⟩ := logAt_safe ok hs 40 g2 (by omega)
    obtain ⟨e3, o3, d3⟩ := logAt_dep ok hd 40 g2 (by omega)
    have hl3 := st3.live
    obtain ⟨e4, o4, d4⟩ := failedMsg_dep ok hd g3 (match s.find u with | some m => m.modId | none => 0) f (by omega)
    have b3 := (logAt_nest (cfg := cfg) hnest 40 (removeModule cfg fwd s1 u)).back cfg
    have b4 := (failedMsg_nest (cfg := cfg) hnest (logAt cfg fwd 40 (removeModule cfg fwd s1 u))
      (match s.find u with | some m => m.modId | none => 0) f).back cfg
    have dw := d2.wf
    have d234 := ((dw.append d3 b3).append d4 b4).anyN (aboutOf f)
    rcases ho with ho | ho
    · refine ⟨(Ev.wfail u :: Ev.close u :: rest ++ e3) ++ e4, o4.trans ?_, d234, fun x => absurd x hf⟩
      rw [o3, o2, ho]; simp
    · refine ⟨Ev.partialW u :: ((Ev.wfail u :: Ev.close u :: rest ++ e3) ++ e4), o4.trans ?_, d234.consP u,
        fun x => absurd x hf⟩
      rw [o3, o2, ho]; simp

theorem deliverOne_dep {s : State} (h : Good cfg s) (f : Frame) (u : Nat)
    (hopen : ∀ m, s.find u = some m → m.closed = false) (hb : 2 * live s + gcost cfg f ≤ n) :
    ∃ ext, (deliverOne cfg fwd f s u).out = s.out ++ ext ∧ DepE cfg none (aboutOf f) (deliverOne cfg fwd f s u) ext ∧
      (f.dest = 0 → Stable cfg s u → ∃ c, Ev.send u c f ∈ ext) := by
  have hnone : ∀ s' : State, s'.out = s.out → (¬ Stable cfg s u) →
      ∃ ext, s'.out = s.out ++ ext ∧ DepE cfg none (aboutOf f) s' ext ∧ (f.dest = 0 → Stable cfg s u → ∃ c, Ev.send u c f ∈ ext) :=
    fun s' ho hn => ⟨[], by simp [ho], depE_nil _ _ _ _, fun _ x => absurd x hn⟩
  unfold deliverOne
  cases hm : s.find u with
  | none => exact hnone s rfl (fun ⟨m, hm', _⟩ => by rw [hm] at hm'; cases hm')
  | some m =>
    simp only
    have hcl := hopen m hm
    have ts := trySend_dep ok hs hnest hd h u f m hm hcl hb
    have tsx : ∃ ext, (trySend cfg fwd s u f).out = s.out ++ ext ∧ DepE cfg none (aboutOf f) (trySend cfg fwd s u f) ext ∧
        (f.dest = 0 → Stable cfg s u → ∃ c, Ev.send u c f ∈ ext) := by
      obtain ⟨e, o, d, x⟩ := ts
      exact ⟨e, o, d, fun _ ⟨_, _, _, hf, _⟩ => x hf⟩
    split
    · rename_i hw
      split
      · exact tsx
      · rename_i hdst
        refine ⟨[], by simp, depE_nil _ _ _ _, fun hd0 _ => ?_⟩
        simp [hd0] at hdst
    · rename_i hw
      split
      · exact tsx
      · rename_i hlg
        have h1 := good_upd h u (fun m => { m with drops := m.drops + 1 }) (fun _ => rfl) (fun _ => rfl) (fun _ => rfl)
        have hl := h1.2.live
        obtain ⟨e, o, d⟩ := failedMsg_dep ok hd h1.1 m.modId f (by omega)
        refine ⟨e, by rw [o]; rfl, d.anyN _, fun _ ⟨m', hm', _, _, _, hwl⟩ => ?_⟩
        rw [hm] at hm'; cases hm'
        rcases hwl with x | x
        · exact absurd x hw
        · exact absurd x hlg

theorem deliver_dep (f : Frame) : ∀ (rs : List Nat) {s : State}, Good cfg s →
    (∀ u ∈ rs, ∀ m, s.find u = some m → m.closed = false) → 2 * live s + gcost cfg f ≤ n →
    ∃ ext, (deliver cfg fwd f rs s).out = s.out ++ ext ∧ DepE cfg none (aboutOf f) (deliver cfg fwd f rs s) ext ∧
      (f.dest = 0 → ∀ o ∈ rs, Stable cfg (deliver cfg fwd f rs s) o → ∃ c, Ev.send o c f ∈ ext)
  | [], s, _, _, _ => ⟨[], by simp [deliver], depE_nil _ _ _ _, fun _ _ h => by cases h⟩
  | u :: rest, s, h, hopen, hb => by
    unfold deliver
    obtain ⟨g1, st1⟩ := deliverOne_safe ok hs h f u (hopen u (by simp)) hb
    obtain ⟨e1, o1, d1, x1⟩ := deliverOne_dep ok hs hnest hd h f u (hopen u (by simp)) hb
    have hl := st1.live
    have hopen' : ∀ w ∈ rest, ∀ m, (deliverOne cfg fwd f s u).find w = some m → m.closed = false := by
      intro w hw m' hm'
      cases hcl : m'.closed with
      | false => rfl
      | true =>
        obtain ⟨m0, hm0, c0⟩ := st1.nnc w m' hm' hcl
        have := hopen w (by simp [hw]) m0 hm0
        rw [this] at c0; cases c0
    obtain ⟨e2, o2, d2, x2⟩ := deliver_dep f rest g1 hopen' (by omega)
    have bk2 := (deliver_nest (cfg := cfg) hnest f rest (deliverOne cfg fwd f s u)).back cfg
    have bk1 := (deliverOne_nest (cfg := cfg) hnest f s u).back cfg
    refine ⟨e1 ++ e2, by rw [o2, o1, List.append_assoc], d1.append d2 bk2, fun hd0 o ho hst => ?_⟩
    by_cases hou : o = u
    · subst hou
      obtain ⟨c, hc⟩ := x1 hd0 (bk1 o (bk2 o hst))
      exact ⟨c, List.mem_append.mpr (Or.inl hc)⟩
    · have : o ∈ rest := by
        rcases List.mem_cons.mp ho with x | x
        · exact absurd x hou
        · exact x
      obtain ⟨c, hc⟩ := x2 hd0 o this hst
      exact ⟨c, List.mem_append.mpr (Or.inr hc)⟩

end chain

/-- every element of a list is visited by the iteration order -/
def OrdAll (cfg : Cfg) : Prop := ∀ (l : List Nat) x, x ∈ l → x ∈ cfg.order l

theorem forward_DOK {cfg : Cfg} (ok : CfgOK cfg) (hall : OrdAll cfg) : ∀ n, DOK cfg (forward cfg n) n
  | 0 => fun s g _ hn => by unfold need at hn; omega
  | n + 1 => fun s g h hneed => by
    have ih := forward_DOK ok hall n
    have ihs := forward_safe ok n
    have ihn := forward_nest cfg n
    obtain ⟨gc, stc⟩ := good_count h g.mtype
    have hlc : live (countMsg cfg s g.mtype) = live s := by unfold live countMsg; split <;> rfl
    have oc : (countMsg cfg s g.mtype).out = s.out := countMsg_out cfg s g.mtype
    have hoor : oor cfg g = ((g.dest < 0 || g.dest > cfg.maxModules) || (g.destHost < 0 || g.destHost > cfg.maxHosts)) := rfl
    unfold need at hneed
    have hlog : oor cfg g = true →
        ∃ ext, (logAt cfg (forward cfg n) 40 (countMsg cfg s g.mtype)).out = s.out ++ ext ∧
          DepE cfg none (aboutOf g) (logAt cfg (forward cfg n) 40 (countMsg cfg s g.mtype)) ext := by
      intro ho
      rw [ho] at hneed
      obtain ⟨e, o, d⟩ := logAt_dep ok ih 40 gc (by rw [hlc]; simp at hneed; omega)
      exact ⟨e, by rw [o, oc], d.anyN _⟩
    have hin : g.dest = 0 → g.destHost = 0 → oor cfg g = false := by
      intro h1 h2
      rw [hoor, h1, h2]
      have := ok.modsNonneg; have := ok.hostsNonneg
      simp; omega
    unfold forward
    simp only [h.ok, Option.isSome_none, Bool.false_eq_true, if_false]
    by_cases h1 : (g.dest < 0 || g.dest > cfg.maxModules) = true
    · simp only [h1, if_true]
      have ho : oor cfg g = true := by rw [hoor, h1]; rfl
      obtain ⟨e, o, d⟩ := hlog ho
      exact ⟨e, o, d, fun _ a b => by rw [hin a b] at ho; cases ho⟩
    · have h1' : (g.dest < 0 || g.dest > cfg.maxModules) = false := by simpa using h1
      simp only [h1', Bool.false_eq_true, if_false]
      by_cases h2 : (g.destHost < 0 || g.destHost > cfg.maxHosts) = true
      · simp only [h2, if_true]
        have ho : oor cfg g = true := by rw [hoor, h1', h2]; rfl
        obtain ⟨e, o, d⟩ := hlog ho
        exact ⟨e, o, d, fun _ a b => by rw [hin a b] at ho; cases ho⟩
      · have h2' : (g.destHost < 0 || g.destHost > cfg.maxHosts) = false := by simpa using h2
        simp only [h2', Bool.false_eq_true, if_false]
        obtain ⟨e, o, d, x⟩ := deliver_dep ok ihs ihn ih g (recipients cfg (countMsg cfg s g.mtype) g.mtype) gc
          (recipients_open ok gc g.mtype) (by rw [hlc]; omega)
        refine ⟨e, by rw [o, oc], d, fun hty hd0 _ o' hst => x hd0 o' ?_ hst⟩
        have bk := (deliver_nest (cfg := cfg) ihn g (recipients cfg (countMsg cfg s g.mtype) g.mtype)
          (countMsg cfg s g.mtype)).back cfg
        obtain ⟨_, _, _, _, hidx, _⟩ := bk o' hst
        have e : idxGet (countMsg cfg s g.mtype).idx g.mtype = idxGet (countMsg cfg s g.mtype).idx cfg.mtClosed :=
          congrArg _ hty
        unfold recipients
        rw [e]
        rcases hidx with y | y
        · exact List.mem_append.mpr (Or.inl (hall _ _ y))
        · exact List.mem_append.mpr (Or.inr (hall _ _ y))

theorem fwdTop_DOK {cfg : Cfg} (ok : CfgOK cfg) (hall : OrdAll cfg) (hfuel : cfg.fuel = 0) (n : Nat) :
    DOK cfg (fwdTop cfg) n := by
  intro s g h _
  unfold fwdTop fuelOf autoFuel
  simp only [hfuel, beq_self_eq_true, if_true]
  refine forward_DOK ok hall _ s g h ?_
  unfold need gcost
  have := live_le_length s
  split <;> split <;> omega

/-! ## top level -/

/-- a top-level operation: crash-freedom is kept, the departure facts hold for its events, nobody becomes stable -/
structure DT (cfg : Cfg) (jx : Option Nat) (s s' : State) : Prop where
  top : Top cfg s'
  dep : Dep cfg jx none s s'
  bk : Back cfg s s'

theorem DT.refl {cfg : Cfg} {s : State} (h : Top cfg s) (jx : Option Nat) : DT cfg jx s s :=
  ⟨h, Dep.refl _ _ _ s, Back.refl _ s⟩

theorem DT.bind {cfg : Cfg} {jx : Option Nat} {a b c : State} (h1 : DT cfg jx a b) (f : Top cfg b → DT cfg jx b c) :
    DT cfg jx a c :=
  ⟨(f h1.top).top, h1.dep.trans (f h1.top).dep (f h1.top).bk, h1.bk.trans (f h1.top).bk⟩

theorem DT.anyJ {cfg : Cfg} {s s' : State} (h : DT cfg none s s') (jx : Option Nat) : DT cfg jx s s' :=
  ⟨h.top, h.dep.anyJ jx, h.bk⟩

section top
variable {cfg : Cfg} (ok : CfgOK cfg) (hall : OrdAll cfg) (hfuel : cfg.fuel = 0)
include ok hall hfuel

omit hall in
theorem dt_same {jx : Option Nat} {s : State} (h : Top cfg s) (s' : State) (hm : s'.mods = s.mods) (hi : s'.idx = s.idx)
    (hc : s'.crashed = s.crashed) (hw : s'.wlist = s.wlist) (hf : s'.fail = s.fail) (ho : s'.out = s.out) :
    DT cfg jx s s' := by
  refine ⟨top_same ok hfuel h s' hm hi hc, dep_same ho, ?_⟩
  intro o ⟨m, hm', hc', hf', hi', hw'⟩
  have hfind : s'.find o = s.find o := by unfold State.find; rw [hm]
  exact ⟨m, by rw [← hfind]; exact hm', hc', by rw [← failOf_congr hf]; exact hf', by rw [← hi]; exact hi',
    by rw [← hw]; exact hw'⟩

theorem dt_fwd {s : State} (h : Top cfg s) (g : Frame) (hg : aboutOf g = none) : DT cfg none s (fwdTop cfg s g) := by
  obtain ⟨e, o, d, _⟩ := fwdTop_DOK ok hall hfuel (need cfg s g) s g h.good (Nat.le_refl _)
  rw [hg] at d
  exact ⟨top_fwd ok hfuel h g, ⟨e, o, d⟩, (fwdTop_nest cfg s g).back cfg⟩

theorem dt_log {s : State} (h : Top cfg s) (lvl : Nat) : DT cfg none s (logAt cfg (fwdTop cfg) lvl s) := by
  unfold logAt; split
  · exact dt_fwd ok hall hfuel h _ rfl
  · exact DT.refl h _

theorem dt_remove {s : State} (h : Top cfg s) (u : Nat) : DT cfg (some u) s (removeModule cfg (fwdTop cfg) s u) := by
  refine ⟨top_remove ok hfuel h u, ?_, (removeTop_nest cfg s u).back cfg⟩
  cases hm : s.find u with
  | none =>
    have : removeModule cfg (fwdTop cfg) s u = s := by unfold removeModule; simp only [hm]
    rw [this]; exact Dep.refl _ _ _ s
  | some m =>
    obtain ⟨rest, o, d⟩ := removeModule_dep ok (fwdTop_Safe ok hfuel (2 * live s)) (fwdTop_nest cfg)
      (fwdTop_DOK ok hall hfuel (2 * live s)) h.good u m hm (h.aopen u m hm) (Nat.le_refl _)
    exact ⟨_, o, d⟩

/-- the removal of a module that is in the table starts with the close of its socket -/
theorem remove_head {s : State} (h : Top cfg s) (u : Nat) (m : Module) (hm : s.find u = some m) :
    ∃ rest, (removeModule cfg (fwdTop cfg) s u).out = s.out ++ Ev.close u :: rest := by
  obtain ⟨rest, o, _⟩ := removeModule_dep ok (fwdTop_Safe ok hfuel (2 * live s)) (fwdTop_nest cfg)
    (fwdTop_DOK ok hall hfuel (2 * live s)) h.good u m hm (h.aopen u m hm) (Nat.le_refl _)
  exact ⟨rest, o⟩

theorem dt_trySend {s : State} (h : Top cfg s) (u : Nat) (f : Frame) (m : Module) (hm : s.find u = some m)
    (hf : aboutOf f = none) : DT cfg none s (trySend cfg (fwdTop cfg) s u f) := by
  obtain ⟨e, o, d, _⟩ := trySend_dep ok (fwdTop_Safe ok hfuel (2 * live s + gcost cfg f)) (fwdTop_nest cfg)
    (fwdTop_DOK ok hall hfuel (2 * live s + gcost cfg f)) h.good u f m hm (h.aopen u m hm) (Nat.le_refl _)
  rw [hf] at d
  exact ⟨top_trySend ok hfuel h u f m hm, ⟨e, o, d⟩, (trySend_nest (fwdTop_nest cfg) s u f).back cfg⟩

theorem dt_toLoggers (f : Frame) (hf : aboutOf f = none) : ∀ (ls : List Nat) {s : State}, Top cfg s →
    DT cfg none s (toLoggers cfg f ls s)
  | [], _, h => DT.refl h _
  | u :: rest, s, h => by
    unfold toLoggers
    have h1 : DT cfg none s (loggerOne cfg f s u) := by
      unfold loggerOne
      cases hm : s.find u with
      | none => exact DT.refl h _
      | some m => exact dt_trySend ok hall hfuel h u f m hm hf
    exact h1.bind (fun h' => dt_toLoggers f hf rest h')

theorem dt_sendAck {s : State} (h : Top cfg s) (u : Nat) : DT cfg none s (sendAck cfg s u) := by
  unfold sendAck
  cases hm : s.find u with
  | none => exact DT.refl h _
  | some m =>
    exact (dt_trySend ok hall hfuel h u _ m hm rfl).bind (fun h' => dt_toLoggers ok hall hfuel _ rfl _ h')

theorem dt_infoOf {s : State} (h : Top cfg s) (m : Module) : DT cfg none s (infoOf cfg s m) := by
  unfold infoOf
  exact (dt_log ok hall hfuel h 10).bind (fun h' => dt_fwd ok hall hfuel h' _ rfl)

theorem dt_sendInfo {s : State} (h : Top cfg s) (u : Nat) : DT cfg none s (sendInfo cfg s u) := by
  unfold sendInfo
  cases s.find u with
  | none => exact DT.refl h _
  | some m => exact dt_infoOf ok hall hfuel h m

theorem dt_clashLoop (me : Module) : ∀ (os : List Module) {s : State}, Top cfg s →
    DT cfg none s (clashLoop cfg me os s).1
  | [], _, h => DT.refl h _
  | o :: rest, s, h => by
    unfold clashLoop
    split
    · exact DT.refl h _
    · have h1 : DT cfg none s (if me.name.isEmpty then s else logAt cfg (fwdTop cfg) 10 s) := by
        split
        · exact DT.refl h _
        · exact dt_log ok hall hfuel h 10
      exact h1.bind (fun h' => dt_clashLoop me rest h')

theorem dt_foldl_fwd : ∀ (fs : List Frame) {s : State}, (∀ f ∈ fs, aboutOf f = none) → Top cfg s →
    DT cfg none s (fs.foldl (fwdTop cfg) s)
  | [], _, _, h => DT.refl h _
  | f :: rest, s, hf, h =>
    (dt_fwd ok hall hfuel h f (hf f (by simp))).bind (fun h' => dt_foldl_fwd rest (fun g hg => hf g (by simp [hg])) h')

theorem dt_infoAll : ∀ (ms : List Module) {s : State}, Top cfg s → DT cfg none s (infoAll cfg ms s)
  | [], _, h => DT.refl h _
  | m :: rest, s, h => by
    unfold infoAll
    exact (dt_infoOf ok hall hfuel h _).bind (fun h' => dt_infoAll rest h')

theorem dt_ticks {s : State} (h : Top cfg s) : DT cfg none s (ticks cfg s) := by
  unfold ticks
  have h1 : DT cfg none s (if cfg.timing && s.now - s.tTiming > cfg.pTiming then { sendTiming cfg s with tTiming := s.now } else s) := by
    split
    · unfold sendTiming
      have a1 : DT cfg none s ({ s with counts := [], inTraffic := true } : State) :=
        dt_same ok hfuel h _ rfl rfl rfl rfl rfl rfl
      exact (a1.bind (fun h' => dt_fwd ok hall hfuel h' _ rfl)).bind
        (fun h' => dt_same ok hfuel h' _ rfl rfl rfl rfl rfl rfl)
    · exact DT.refl h _
  generalize (if cfg.timing && s.now - s.tTiming > cfg.pTiming then { sendTiming cfg s with tTiming := s.now } else s) = s1 at h1
  dsimp only
  have h2 : DT cfg none s (if s1.now - s1.tTraffic > cfg.pTraffic then sendTraffic cfg s1 else s1) := by
    split
    · unfold sendTraffic
      have a1 : DT cfg none s ({ s1 with inTraffic := true } : State) :=
        h1.bind (fun h' => dt_same ok hfuel h' _ rfl rfl rfl rfl rfl rfl)
      refine ((a1.bind (fun h' => dt_log ok hall hfuel h' 10)).bind
        (fun h' => dt_foldl_fwd ok hall hfuel _ ?_ h')).bind (fun h' => dt_same ok hfuel h' _ rfl rfl rfl rfl rfl rfl)
      intro f hf
      unfold trafficFrames at hf
      obtain ⟨p, _, rfl⟩ := List.mem_map.mp hf
      rfl
    · exact h1
  generalize (if s1.now - s1.tTraffic > cfg.pTraffic then sendTraffic cfg s1 else s1) = s2 at h2
  split
  · unfold sendActive
    exact (((h2.bind (fun h' => dt_log ok hall hfuel h' 10)).bind (fun h' => dt_infoAll ok hall hfuel _ h')).bind
      (fun h' => dt_fwd ok hall hfuel h' _ rfl)).bind (fun h' => dt_same ok hfuel h' _ rfl rfl rfl rfl rfl rfl)
  · exact h2

end top

/-! ## the Spec's departure clauses through the simulation -/

open Spec (A AMod)

theorem uids_nodup {a : A} {n : Nat} (h : a.mods.map (·.uid) = (List.range n).map (· + 1)) :
    (a.mods.map (·.uid)).Nodup := by
  rw [h]
  unfold List.Nodup
  rw [List.pairwise_map]
  exact (List.nodup_range (n := n)).imp (fun h e => h (by omega))

theorem uid_pos {a : A} {n : Nat} (h : a.mods.map (·.uid) = (List.range n).map (· + 1)) {l : AMod} (hl : l ∈ a.mods) :
    l.uid ≠ 0 := by
  have : l.uid ∈ a.mods.map (·.uid) := List.mem_map.mpr ⟨l, hl, rfl⟩
  rw [h] at this
  obtain ⟨k, _, hk⟩ := List.mem_map.mp this
  omega

theorem get_of_mem : ∀ (l : List AMod), (l.map (·.uid)).Nodup → ∀ x ∈ l, l.find? (·.uid == x.uid) = some x
  | [], _, _, hx => by cases hx
  | y :: rest, hn, x, hx => by
    simp only [List.map_cons, List.nodup_cons] at hn
    simp only [List.find?_cons]
    cases hx with
    | head => simp
    | tail _ hx' =>
      have : y.uid ≠ x.uid := fun e => hn.1 (e ▸ List.mem_map.mpr ⟨x, hx', rfl⟩)
      have : (y.uid == x.uid) = false := by simpa using this
      simp only [this]
      exact get_of_mem rest hn.2 x hx'

theorem live_of_mem {a : A} (hn : (a.mods.map (·.uid)).Nodup) {l : AMod} (hl : l ∈ a.mods) (hal : l.alive = true) :
    a.live l.uid = some l :=
  Spec.live_some.mpr ⟨get_of_mem a.mods hn l hl, hal⟩

theorem failing_iff {a : Spec.A} {s : State} (h : a.fail = s.fail) (u : Nat) : a.failing u = false ↔ failOf s u = none := by
  unfold Spec.A.failing failOf
  rw [h]
  cases hf : s.fail.find? (·.1 == u) with
  | none =>
    simp only [Option.map_none, iff_true]
    rw [List.find?_eq_none] at hf
    rw [List.any_eq_false]; exact hf
  | some p =>
    simp only [Option.map_some, reduceCtorEq, iff_false, Bool.not_eq_false]
    rw [List.any_eq_true]
    exact ⟨p, List.mem_of_find?_eq_some hf, List.find?_some (p := fun q : Nat × FailMode => q.1 == u) hf⟩


theorem adj_mem : ∀ (ext : List Ev) (v : Nat), Adj ext → Ev.wfail v ∈ ext → Ev.close v ∈ ext
  | [], _, _, h => by cases h
  | e :: rest, v, ha, hm => by
    rcases List.mem_cons.mp hm with x | x
    · subst x
      obtain ⟨⟨l3, hl⟩, _⟩ := ha
      rw [hl]; simp
    · exact List.mem_cons_of_mem _ (adj_mem rest v (adj_tail e rest ha) x)

theorem nTo_append (a b : List Ev) (o v : Nat) : nTo (a ++ b) o v = nTo a o v + nTo b o v := by
  unfold nTo; rw [List.countP_append]

theorem closeCnt_app (a b : List Ev) (v : Nat) : closeCnt (a ++ b) v = closeCnt a v + closeCnt b v := by
  unfold closeCnt; rw [List.countP_append]

/-- a connection the Spec counts as an observer of the departures in `evs` can take a CLIENT_CLOSED frame when the
    events are over: it is simulated by a table entry before, it is not failing, and it is not closed in between -/
theorem obs_stable {cfg : Cfg} {a0 X : A} {s0 s2 : State} (hs : SimM cfg a0 s0) (ao : AllOpen s0) (n : Nest s0 s2)
    (evs : List Ev) (he : s2.out = s0.out ++ evs) (hm : X.mods = a0.mods) (hw : X.w = a0.w) (hf : X.fail = a0.fail)
    (o : AMod) (ho : o ∈ X.mods) (hob : Spec.isObserver cfg X evs o = true) : Stable cfg s2 o.uid := by
  unfold Spec.isObserver at hob
  simp only [Bool.and_eq_true, Bool.not_eq_eq_eq_not, Bool.not_true] at hob
  obtain ⟨⟨⟨⟨hal, hsub⟩, hrdy⟩, hnf⟩, hnc⟩ := hob
  rw [hm] at ho
  have hnd := uids_nodup hs.uids
  have hlive := live_of_mem hnd ho hal
  have hu0 := uid_pos hs.uids ho
  obtain ⟨m, hfm⟩ := Option.isSome_iff_exists.mp ((hs.live o.uid hu0).mp (by simp [hlive]))
  have hsm := hs.mods o.uid o m hlive hfm
  have hop0 : openIn s0 o.uid := ⟨m, hfm, ao o.uid m hfm⟩
  obtain ⟨ext', he', _, hcl⟩ := n.ext
  have hee : ext' = evs := List.append_cancel_left (he'.symm.trans he)
  subst hee
  have hop2 : openIn s2 o.uid := by
    by_cases h : openIn s2 o.uid
    · exact h
    · have := hcl o.uid hop0 h
      have : o.uid ∈ Spec.closes ext' := (mem_closes ext' o.uid).mpr this
      rw [← List.contains_iff_mem] at this
      rw [this] at hnc; cases hnc
  obtain ⟨m2, hm2, hc2⟩ := hop2
  obtain ⟨m0, hm0, hcore⟩ := n.surv o.uid m2 hm2 hc2
  rw [hfm] at hm0; cases hm0
  obtain ⟨_, _, hlg, _⟩ := core_fields hcore
  refine ⟨m2, hm2, hc2, ?_, ?_, ?_⟩
  · rw [failOf_congr n.fail]
    exact (failing_iff hs.fail o.uid).mp (by unfold Spec.A.failing at hnf ⊢; rw [← hf]; exact hnf)
  · unfold Spec.subscribed at hsub
    have hsubs := hsm.subs
    cases hall : o.subAll with
    | true =>
      rw [hall] at hsubs
      exact Or.inr (n.idxKeep _ _ (hs.idxIn o.uid m _ hfm (by rw [hsubs]; simp)) ⟨m2, hm2, hc2⟩)
    | false =>
      rw [hall] at hsubs hsub
      simp only [Bool.false_or] at hsub
      exact Or.inl (n.idxKeep _ _ (hs.idxIn o.uid m _ hfm (by
        rw [hsubs]; simpa using hsub)) ⟨m2, hm2, hc2⟩)
  · unfold Spec.ready at hrdy
    rw [Bool.or_eq_true] at hrdy
    rcases hrdy with h | h
    · left
      rw [n.wlist]
      exact (hs.w o.uid (by simp [hlive])).mp (by rw [← hw]; exact List.contains_iff_mem.mp h)
    · right
      rw [hlg, ← hsm.isLogger]; exact h

/-- **The C07 clauses of `checkDepartures` hold on what the model does in one stretch of events.** -/
theorem dep_ext_core {cfg : Cfg} {a0 X : A} {s0 s2 : State} (hs : SimM cfg a0 s0) (ao : AllOpen s0) (n : Nest s0 s2)
    (j : J s2) (t : T s2) (evs : List Ev) (he : s2.out = s0.out ++ evs)
    (hm : X.mods = a0.mods) (hw : X.w = a0.w) (hf : X.fail = a0.fail)
    (md : Option Nat) (d : DepE cfg md none s2 evs) (hmd : ∀ u, md = some u → Ev.close u ∈ evs) :
    Spec.ErrExt ["C14"] X (Spec.checkDepartures cfg X md evs) := by
  refine Spec.checkDepartures_c07 cfg X md evs hmd d.just (fun v hv => adj_mem evs v d.adj hv) (fun v => ?_)
    (fun o c f v hm' hb => (d.ntc o c f v hm' hb).resolve_left (by simp)) (fun v hv o ho hob hne => ?_)
  · have := j.phi v
    unfold phi at this
    rw [he, closeCnt_app] at this
    omega
  · have hst := obs_stable hs ao n evs he hm hw hf o ho hob
    obtain ⟨c, f, hmem, hb⟩ := d.lb v hv o.uid hst hne
    have hge : 1 ≤ nTo evs o.uid v := by
      unfold nTo
      exact List.countP_pos_iff.mpr ⟨_, hmem, by simp [isNotice, hb]⟩
    have hle := t o.uid v
    rw [he, nTo_append] at hle
    omega

theorem removeModule_none (cfg : Cfg) (fwd : Fwd) (s : State) (u : Nat) : (removeModule cfg fwd s u).find u = none := by
  unfold removeModule
  split
  · assumption
  · exact find_filter_eq _ _

/-- nested activity cannot bring back a connection that is not in the table -/
theorem nest_gone {s s' : State} (n : Nest s s') (ao' : AllOpen s') (u : Nat) (h : s.find u = none) : s'.find u = none := by
  cases h' : s'.find u with
  | none => rfl
  | some m' =>
    obtain ⟨m, hm, _⟩ := n.surv u m' h' (ao' u m' h')
    rw [h] at hm; cases hm


/-- a connection that was in the table with an open socket and is not in the table afterwards was closed in between -/
theorem closed_of_gone {s0 s2 : State} (n : Nest s0 s2) (evs : List Ev) (he : s2.out = s0.out ++ evs) (u : Nat)
    (ho : openIn s0 u) (hg : s2.find u = none) : Ev.close u ∈ evs := by
  obtain ⟨ext', he', _, hcl⟩ := n.ext
  have hee : ext' = evs := List.append_cancel_left (he'.symm.trans he)
  subst hee
  exact hcl u ho (fun ⟨m, hm, _⟩ => by rw [hg] at hm; cases hm)

/-- nothing is written to (or attempted on) a connection after its close -/
theorem untouched_after_close {s2 : State} (j : J s2) (pre R : List Ev) (u : Nat) (he : s2.out = pre ++ Ev.close u :: R) :
    ∀ e ∈ Ev.close u :: R, touches u e = false := by
  intro e hm
  rcases List.mem_cons.mp hm with x | x
  · subst x; rfl
  · have hns := j.ns u
    refine NS_split hns (pre ++ [Ev.close u]) R (by rw [he]; simp) ?_ e x
    rw [closeCnt_app]
    have : 0 < closeCnt [Ev.close u] u := by unfold closeCnt; simp [isClose]
    omega

theorem OrdAll_of_perm {cfg : Cfg} (h : ∀ l : List Nat, (cfg.order l).Perm l) : OrdAll cfg :=
  fun l x hx => (h l).mem_iff.mpr hx

/-- the same, from the simulation at the *end* of the stretch; `X` may count fewer connections as ready than `A2` -/
theorem obs_stable_end {cfg : Cfg} {X A2 : A} {s2 : State} (hs : SimM cfg A2 s2) (ao : AllOpen s2) (evs : List Ev)
    (hlive : ∀ o ∈ X.mods, o.alive = true → Spec.subscribed o cfg.mtClosed = true →
      (Spec.closes evs).contains o.uid = false → A2.live o.uid = some o)
    (hw : ∀ u, u ∈ X.w → u ∈ A2.w) (hf : A2.fail = X.fail)
    (o : AMod) (ho : o ∈ X.mods) (hob : Spec.isObserver cfg X evs o = true) : Stable cfg s2 o.uid := by
  unfold Spec.isObserver at hob
  simp only [Bool.and_eq_true, Bool.not_eq_eq_eq_not, Bool.not_true] at hob
  obtain ⟨⟨⟨⟨hal, hsub⟩, hrdy⟩, hnf⟩, hnc⟩ := hob
  have hlv := hlive o ho hal hsub hnc
  obtain ⟨hg, _⟩ := Spec.live_some.mp hlv
  have hu0 : o.uid ≠ 0 := uid_pos hs.uids (Spec.get_mem hg)
  obtain ⟨m, hfm⟩ := Option.isSome_iff_exists.mp ((hs.live o.uid hu0).mp (by simp [hlv]))
  have hsm := hs.mods o.uid o m hlv hfm
  refine ⟨m, hfm, ao o.uid m hfm, ?_, ?_, ?_⟩
  · exact (failing_iff hs.fail o.uid).mp (by unfold Spec.A.failing at hnf ⊢; rw [hf]; exact hnf)
  · unfold Spec.subscribed at hsub
    have hsubs := hsm.subs
    cases hall : o.subAll with
    | true =>
      rw [hall] at hsubs
      exact Or.inr (hs.idxIn o.uid m _ hfm (by rw [hsubs]; simp))
    | false =>
      rw [hall] at hsubs hsub
      simp only [Bool.false_or] at hsub
      exact Or.inl (hs.idxIn o.uid m _ hfm (by rw [hsubs]; simpa using hsub))
  · unfold Spec.ready at hrdy
    rw [Bool.or_eq_true] at hrdy
    rcases hrdy with h | h
    · left
      exact (hs.w o.uid (by simp [hlv])).mp (hw _ (List.contains_iff_mem.mp h))
    · right
      rw [← hsm.isLogger]; exact h

theorem dep_ext_end {cfg : Cfg} {X A2 : A} {s2 : State} (hs : SimM cfg A2 s2) (ao : AllOpen s2) (j : J s2) (t : T s2)
    (pre evs : List Ev) (he : s2.out = pre ++ evs)
    (hlive : ∀ o ∈ X.mods, o.alive = true → Spec.subscribed o cfg.mtClosed = true →
      (Spec.closes evs).contains o.uid = false → A2.live o.uid = some o)
    (hw : ∀ u, u ∈ X.w → u ∈ A2.w) (hf : A2.fail = X.fail)
    (md : Option Nat) (d : DepE cfg md none s2 evs) (hmd : ∀ u, md = some u → Ev.close u ∈ evs) :
    Spec.ErrExt ["C14"] X (Spec.checkDepartures cfg X md evs) := by
  refine Spec.checkDepartures_c07 cfg X md evs hmd d.just (fun v hv => adj_mem evs v d.adj hv) (fun v => ?_)
    (fun o c f v hm' hb => (d.ntc o c f v hm' hb).resolve_left (by simp)) (fun v hv o ho hob hne => ?_)
  · have := j.phi v
    unfold phi at this
    rw [he, closeCnt_app] at this
    omega
  · have hst := obs_stable_end hs ao evs hlive hw hf o ho hob
    obtain ⟨c, f, hmem, hb⟩ := d.lb v hv o.uid hst hne
    have hge : 1 ≤ nTo evs o.uid v := by
      unfold nTo
      exact List.countP_pos_iff.mpr ⟨_, hmem, by simp [isNotice, hb]⟩
    have hle := t o.uid v
    rw [he, nTo_append] at hle
    omega

/-- the abstract state at the end is the one `applyDepartures` computes from a state with the same table as `X` -/
theorem dep_ext_fin {cfg : Cfg} {T' : List String} {X0 X : A} {s2 : State} (pre evs : List Ev)
    (hs : SimM cfg (Spec.applyDepartures X0 evs) s2) (ao : AllOpen s2) (j : J s2) (t : T s2) (he : s2.out = pre ++ evs)
    (hX : Spec.CoreExt T' X0 X)
    (md : Option Nat) (d : DepE cfg md none s2 evs) (hmd : ∀ u, md = some u → Ev.close u ∈ evs) :
    Spec.ErrExt ["C14"] X (Spec.checkDepartures cfg X md evs) := by
  obtain ⟨_, c2, c3, _, _⟩ := Spec.applyDepartures_core X0 evs
  refine dep_ext_end hs ao j t pre evs he (fun o ho hal _ hnc => ?_) (fun u hu => by rw [c3, ← hX.w]; exact hu)
    (by rw [c2, hX.fail]) md d hmd
  rw [Spec.applyDepartures_live, hnc]
  simp only [Bool.false_eq_true, if_false]
  have hnd : (X0.mods.map (·.uid)).Nodup := by
    have := uids_nodup hs.uids
    rw [Spec.applyDepartures_uids] at this; exact this
  exact live_of_mem hnd (by rw [← hX.mods]; exact ho) hal

/-- a stretch of events in two parts (the accept branch, then — after the poll — the periodic section), each with its own
    simulation at its end; `X` counts as ready only what both count as ready -/
theorem dep_ext_two {cfg : Cfg} {X A1 A2 : A} {s1 s2 : State} (pre0 e1 e2 : List Ev)
    (hs1 : SimM cfg A1 s1) (ao1 : AllOpen s1) (hs2 : SimM cfg A2 s2) (ao2 : AllOpen s2) (j2 : J s2) (t2 : T s2)
    (he2 : s2.out = pre0 ++ (e1 ++ e2))
    (hlive1 : ∀ o ∈ X.mods, o.alive = true → Spec.subscribed o cfg.mtClosed = true →
      (Spec.closes (e1 ++ e2)).contains o.uid = false → A1.live o.uid = some o)
    (hlive2 : ∀ o ∈ X.mods, o.alive = true → Spec.subscribed o cfg.mtClosed = true →
      (Spec.closes (e1 ++ e2)).contains o.uid = false → A2.live o.uid = some o)
    (hw1 : ∀ u, u ∈ X.w → u ∈ A1.w) (hw2 : ∀ u, u ∈ X.w → u ∈ A2.w) (hf1 : A1.fail = X.fail) (hf2 : A2.fail = X.fail)
    (d1 : DepE cfg none none s1 e1) (d2 : DepE cfg none none s2 e2) :
    Spec.ErrExt ["C14"] X (Spec.checkDepartures cfg X none (e1 ++ e2)) := by
  refine Spec.checkDepartures_c07 cfg X none (e1 ++ e2) (fun u hu => by cases hu) (fun v hv => ?_)
    (fun v hv => adj_mem _ v (adj_append _ _ d1.adj d2.adj) hv) (fun v => ?_) (fun o c f v hm' hb => ?_)
    (fun v hv o ho hob hne => ?_)
  · rcases List.mem_append.mp hv with h | h
    · exact Or.inr (List.mem_append.mpr (Or.inl ((d1.just v h).resolve_left (by simp))))
    · exact Or.inr (List.mem_append.mpr (Or.inr ((d2.just v h).resolve_left (by simp))))
  · have := j2.phi v
    unfold phi at this
    rw [he2, closeCnt_app] at this
    omega
  · rcases List.mem_append.mp hm' with h | h
    · exact List.mem_append.mpr (Or.inl ((d1.ntc o c f v h hb).resolve_left (by simp)))
    · exact List.mem_append.mpr (Or.inr ((d2.ntc o c f v h hb).resolve_left (by simp)))
  · have hge : 1 ≤ nTo (e1 ++ e2) o.uid v := by
      rcases List.mem_append.mp hv with h | h
      · have hst := obs_stable_end hs1 ao1 (e1 ++ e2) hlive1 hw1 hf1 o ho hob
        obtain ⟨c, f, hmem, hb⟩ := d1.lb v h o.uid hst hne
        unfold nTo
        exact List.countP_pos_iff.mpr ⟨_, List.mem_append.mpr (Or.inl hmem), by simp [isNotice, hb]⟩
      · have hst := obs_stable_end hs2 ao2 (e1 ++ e2) hlive2 hw2 hf2 o ho hob
        obtain ⟨c, f, hmem, hb⟩ := d2.lb v h o.uid hst hne
        unfold nTo
        exact List.countP_pos_iff.mpr ⟨_, List.mem_append.mpr (Or.inr hmem), by simp [isNotice, hb]⟩
    have hle := t2 o.uid v
    rw [he2, nTo_append] at hle
    omega

end Pyrtma.Mgr
