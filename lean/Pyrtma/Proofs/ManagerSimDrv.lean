import Pyrtma.Proofs.ManagerSimRun
import Pyrtma.Proofs.ManagerSimOut
import Pyrtma.Drv.Manager
/-!
# Refinement of the history-based Spec by the manager model M1 — part 7: the driver's view

`Drv/Manager.lean: modelRun` (what `finishCase` hands to `Spec.checkAll` in the `specModel` lines) is the observation
`modelObs` the refinement theorem is about; so the `specModel` test of the driver is, for the proved properties, a
theorem.
-/
namespace Pyrtma.Mgr

/-- the per-round event lists the driver computes for the model — each round is run on the state with the log emptied —
    are the model's observation: what each round appends to the cumulative log of `run` (`step_reset`: the model never
    reads its log); its final state is that of `run`, up to the log -/
theorem modelRun_obsM (cfg : Cfg) (rs : List Round) :
    (Pyrtma.Drv.Manager.modelRun cfg rs).1 = modelObs cfg rs ∧
    ∃ o, (Pyrtma.Drv.Manager.modelRun cfg rs).2 = setOut (run cfg rs) o := by
  have key : ∀ (rs : List Round) (acc : List (List Ev)) (sC : State) (o0 : List Ev), ∃ o',
      rs.foldl (fun (p : List (List Ev) × State) r =>
        let s' := step cfg { p.2 with out := [] } r
        (p.1 ++ [s'.out], s')) (acc, setOut sC o0) = (acc ++ modelRounds cfg sC rs, setOut (rs.foldl (step cfg) sC) o') := by
    intro rs
    induction rs with
    | nil => intro acc sC o0; exact ⟨o0, by simp [modelRounds]⟩
    | cons r rs ih =>
      intro acc sC o0
      have h1 : step cfg ({ (setOut sC o0) with out := [] } : State) r =
          setOut (step cfg sC r) (roundEvents cfg sC r) := step_reset cfg sC r
      obtain ⟨o', ho'⟩ := ih (acc ++ [roundEvents cfg sC r]) (step cfg sC r) (roundEvents cfg sC r)
      refine ⟨o', ?_⟩
      rw [List.foldl_cons]
      dsimp only
      rw [h1]
      simp only [setOut_out]
      rw [ho']
      simp [modelRounds]
  obtain ⟨o', ho'⟩ := key rs [(init cfg).out] (init cfg) (init cfg).out
  have hinit : setOut (init cfg) (init cfg).out = init cfg := rfl
  rw [hinit] at ho'
  unfold Pyrtma.Drv.Manager.modelRun modelObs run
  simp only []
  rw [ho']
  exact ⟨rfl, o', rfl⟩

/-- **The model meets the Spec, for the proved properties** — in the driver's terms: the verdict `Spec.runSpec` computes
from a well-formed history and the events the driver's `modelRun` produces for it has no entry for a property in
`provenCore` (for C05: on histories whose frames carry their serial numbers in processing order, `IncRounds`). -/
theorem spec_passes_on_model {cfg : Cfg} (ok : CfgOK cfg) (hfuel : cfg.fuel = 0) (hperm : OrdPerm cfg)
    (hmt : cfg.mtClosed ≠ cfg.allTypes) (rs : List Round)
    (hwf : RoundsWF rs) (p : String) (hp : p ∈ provenCore) (hinc : p = "C05" → IncRounds 0 rs) :
    (Spec.runSpec cfg rs (Pyrtma.Drv.Manager.modelRun cfg rs).1 none).errs.filter (·.1 == p) = [] := by
  rw [(modelRun_obsM cfg rs).1]
  exact (Spec.noErr_iff_filter p _).mp (model_meets_spec_core ok hfuel hperm hmt rs hwf p hp hinc)

/-- the driver's verdict line for such a property is `ok` -/
theorem checkAll_ok_on_model {cfg : Cfg} (ok : CfgOK cfg) (hfuel : cfg.fuel = 0) (hperm : OrdPerm cfg)
    (hmt : cfg.mtClosed ≠ cfg.allTypes) (rs : List Round)
    (hwf : RoundsWF rs) (p : String) (hp : p ∈ provenCore) (hinc : p = "C05" → IncRounds 0 rs) :
    (Spec.runSpec cfg rs (Pyrtma.Drv.Manager.modelRun cfg rs).1 none).errs.find? (·.1 == p) = none := by
  have h := spec_passes_on_model ok hfuel hperm hmt rs hwf p hp hinc
  rw [List.find?_eq_none]
  intro e he hpe
  have : e ∈ (Spec.runSpec cfg rs (Pyrtma.Drv.Manager.modelRun cfg rs).1 none).errs.filter (·.1 == p) :=
    List.mem_filter.mpr ⟨he, hpe⟩
  rw [h] at this; cases this

end Pyrtma.Mgr
