import Pyrtma.Proofs.ManagerSimRun
import Pyrtma.Drv.Manager
/-!
# Refinement of the history-based Spec by the manager model M1 — part 7: the driver's view

`Drv/Manager.lean: modelRun` (what `finishCase` hands to `Spec.checkAll` in the `specModel` lines) is the observation
`modelObs` the refinement theorem is about; so the `specModel` test of the driver is, for the proved properties, a
theorem.
-/
namespace Pyrtma.Mgr

/-- the per-round event lists the driver computes for the model are the model's observation, and its final state is `run` -/
theorem modelRun_obs (cfg : Cfg) (rs : List Round) :
    (Pyrtma.Drv.Manager.modelRun cfg rs).1 = modelObs cfg rs ∧ (Pyrtma.Drv.Manager.modelRun cfg rs).2 = run cfg rs := by
  have key : ∀ (rs : List Round) (acc : List (List Ev)) (s : State),
      rs.foldl (fun (p : List (List Ev) × State) r => (p.1 ++ [(step cfg p.2 r).out.drop p.2.out.length], step cfg p.2 r))
        (acc, s) = (acc ++ modelRounds cfg s rs, rs.foldl (step cfg) s) := by
    intro rs
    induction rs with
    | nil => intro acc s; simp [modelRounds]
    | cons r rs ih =>
      intro acc s
      rw [List.foldl_cons, ih]
      simp [modelRounds, roundEvents]
  unfold Pyrtma.Drv.Manager.modelRun modelObs run
  simp only []
  rw [key]
  exact ⟨rfl, rfl⟩

/-- **The model meets the Spec, for the proved properties** — in the driver's terms: the verdict `Spec.runSpec` computes
from a well-formed history and the events the driver's `modelRun` produces for it has no entry for a property in
`proven` (for C07: on histories in which a round that accepts a connection delivers no frame, `AccAlone`). -/
theorem spec_passes_on_model {cfg : Cfg} (ok : CfgOK cfg) (hfuel : cfg.fuel = 0) (hperm : OrdPerm cfg)
    (hmt : cfg.mtClosed ≠ cfg.allTypes) (rs : List Round)
    (hwf : RoundsWF rs) (p : String) (hp : p ∈ proven) (hacc : p = "C07" → AccAlone rs) :
    (Spec.runSpec cfg rs (Pyrtma.Drv.Manager.modelRun cfg rs).1 none).errs.filter (·.1 == p) = [] := by
  rw [(modelRun_obs cfg rs).1]
  exact (Spec.noErr_iff_filter p _).mp (model_meets_spec_proven ok hfuel hperm hmt rs hwf p hp hacc)

/-- the driver's verdict line for such a property is `ok` -/
theorem checkAll_ok_on_model {cfg : Cfg} (ok : CfgOK cfg) (hfuel : cfg.fuel = 0) (hperm : OrdPerm cfg)
    (hmt : cfg.mtClosed ≠ cfg.allTypes) (rs : List Round)
    (hwf : RoundsWF rs) (p : String) (hp : p ∈ proven) (hacc : p = "C07" → AccAlone rs) :
    (Spec.runSpec cfg rs (Pyrtma.Drv.Manager.modelRun cfg rs).1 none).errs.find? (·.1 == p) = none := by
  have h := spec_passes_on_model ok hfuel hperm hmt rs hwf p hp hacc
  rw [List.find?_eq_none]
  intro e he hpe
  have : e ∈ (Spec.runSpec cfg rs (Pyrtma.Drv.Manager.modelRun cfg rs).1 none).errs.filter (·.1 == p) :=
    List.mem_filter.mpr ⟨he, hpe⟩
  rw [h] at this; cases this

end Pyrtma.Mgr
