import Pyrtma.Spec.ValidatorsExt
/-!
# The validation switch over programs (`Stmt`, `execStmt`, `execList` of `Model/ValidatorsExt.lean`)

`execList_ok`: for every program (any nesting of `with disable_message_validation(ignore)` blocks, `try/except`, `raise`,
raising assignments, binding of views anywhere) run from a state whose flag agrees with the lexical depth:

* the flag afterwards is the flag before (whether the program ended normally or by an exception);
* every assignment the run executed was recorded honestly (`RecOK`: its result is `setAt` under the flag of that moment,
  applied to the message as it was at that moment - `Chain`);
* the flag of that moment was on **iff** the assignment stands outside every disabling block (`depth = 0`).
-/
namespace Pyrtma.Validators

/-- a log record is an honest record of one `__set__` / `__setitem__` call -/
def RecOK (r : AssignRec) : Prop :=
  (r.post, r.err) = setAt r.flag r.pre r.loc.off r.loc.ty r.key r.val

/-- the records (oldest first) thread the message from `m0` to `m` -/
def Chain (m0 : Bytes) : List AssignRec → Bytes → Prop
  | [], m => m = m0
  | r :: rs, m => r.pre = m0 ∧ Chain r.post rs m

theorem Chain.append {m0 m1 m2 : Bytes} : ∀ {l1 l2 : List AssignRec}, Chain m0 l1 m1 → Chain m1 l2 m2 →
    Chain m0 (l1 ++ l2) m2
  | [], _, h1, h2 => by simp only [Chain] at h1; subst h1; exact h2
  | r :: rs, _, h1, h2 => by
    simp only [Chain, List.cons_append] at h1 ⊢
    exact ⟨h1.1, Chain.append h1.2 h2⟩

/-- what a run adds to the log, and what it does to the flag -/
def RunOK (s : PState) (r : PState × Bool) : Prop :=
  r.1.flag = s.flag ∧
  ∃ new, r.1.log = new ++ s.log ∧ Chain s.msg new.reverse r.1.msg ∧
    ∀ rec ∈ new, rec.flag = decide (rec.depth = 0) ∧ RecOK rec

theorem runOK_nothing (s : PState) (s' : PState) (b : Bool) (hf : s'.flag = s.flag) (hl : s'.log = s.log)
    (hm : s'.msg = s.msg) : RunOK s (s', b) :=
  ⟨hf, [], by simp [hl], by simp [Chain, hm], by simp⟩

theorem record_ok (d : Nat) (s : PState) (l : Loc) (key : Key) (v : PyVal) (h : s.flag = decide (d = 0)) :
    RunOK s (s.record d l key v) := by
  refine ⟨rfl, [_], rfl, ?_, ?_⟩
  · simp [Chain, PState.record]
  · intro rec hrec
    simp only [List.mem_singleton] at hrec
    subst hrec
    exact ⟨h, rfl⟩

mutual
theorem execStmt_ok (d : Nat) (s : PState) (h : s.flag = decide (d = 0)) : (st : Stmt) → RunOK s (execStmt d s st)
  | .bind i l => by
    simp only [execStmt]
    exact runOK_nothing s _ _ rfl rfl rfl
  | .assign .fresh l key v => by
    simp only [execStmt]
    exact record_ok d s l key v h
  | .assign (.view i) l key v => by
    simp only [execStmt]
    split
    · exact record_ok d s _ key v h
    · exact runOK_nothing s _ _ rfl rfl rfl
  | .block true body => by
    simp only [execStmt]
    exact execList_ok d s h body
  | .block false body => by
    simp only [execStmt]
    have := execList_ok (d + 1) { s with flag := false } (by simp) body
    obtain ⟨_, new, hlog, hch, hall⟩ := this
    exact ⟨rfl, new, hlog, hch, hall⟩
  | .tryCatch body => by
    simp only [execStmt]
    exact execList_ok d s h body
  | .raise => by
    simp only [execStmt]
    exact runOK_nothing s _ _ rfl rfl rfl
theorem execList_ok (d : Nat) (s : PState) (h : s.flag = decide (d = 0)) : (l : List Stmt) → RunOK s (execList d s l)
  | [] => by
    simp only [execList]
    exact runOK_nothing s _ _ rfl rfl rfl
  | st :: rest => by
    simp only [execList]
    have h1 := execStmt_ok d s h st
    split
    · exact h1
    · obtain ⟨hf, new1, hl1, hc1, ha1⟩ := h1
      have h2 := execList_ok d (execStmt d s st).1 (by rw [hf]; exact h) rest
      obtain ⟨hf2, new2, hl2, hc2, ha2⟩ := h2
      refine ⟨by rw [hf2, hf], new2 ++ new1, by rw [hl2, hl1, List.append_assoc], ?_, ?_⟩
      · rw [List.reverse_append]; exact Chain.append hc1 hc2
      · intro rec hrec
        simp only [List.mem_append] at hrec
        rcases hrec with hr | hr
        · exact ha2 rec hr
        · exact ha1 rec hr
end

/-! ## flat event histories: the Spec's `ctxOk` holds on the model's trace -/


def enOf (st : List Bool) : Bool := (st.filter id).length == 0

/-- the Spec's stack of "this block really disables" against the model's stack of restore tokens -/
def RelS : List Bool → List (Option Bool) → Prop
  | [], [] => True
  | false :: st, none :: cs => RelS st cs
  | true :: st, some old :: cs => old = enOf st ∧ RelS st cs
  | _, _ => False

theorem enOf_false (st : List Bool) : enOf (false :: st) = enOf st := by simp [enOf]
theorem enOf_true (st : List Bool) : enOf (true :: st) = false := by simp [enOf]

theorem rel_exit (b : Bool) (st : List Bool) (c : Ctx) (hr : RelS (b :: st) c.stack) (he : c.enabled = enOf (b :: st)) :
    RelS st (c.step .exitNormal).stack ∧ (c.step .exitNormal).enabled = enOf st := by
  obtain ⟨en, stack⟩ := c
  match b, stack, hr with
  | false, none :: cs, hr =>
    simp only [RelS] at hr
    exact ⟨by simpa [Ctx.step] using hr, by simpa [Ctx.step, enOf_false] using he⟩
  | true, some old :: cs, hr =>
    simp only [RelS] at hr
    exact ⟨by simpa [Ctx.step] using hr.2, by simpa [Ctx.step] using hr.1⟩
  | false, [], hr => simp [RelS] at hr
  | true, [], hr => simp [RelS] at hr
  | false, some _ :: _, hr => simp [RelS] at hr
  | true, none :: _, hr => simp [RelS] at hr

theorem trace_openDisables : ∀ (evs : List CtxEv) (st : List Bool) (c : Ctx) (ds : List Nat),
    RelS st c.stack → c.enabled = enOf st → openDisables st evs = some ds →
    Ctx.trace c evs = ds.map (· == 0)
  | [], st, c, ds, _, _, h => by
    simp only [openDisables, Option.some.injEq] at h; subst h; rfl
  | .enter ig :: es, st, c, ds, hr, he, h => by
    simp only [openDisables, Option.map_eq_some_iff] at h
    obtain ⟨r, hr', rfl⟩ := h
    cases ig with
    | true =>
      have ih := trace_openDisables es (false :: st) (c.step (.enter true)) r
        (by simpa [Ctx.step, RelS] using hr) (by simpa [Ctx.step, enOf_false] using he) (by simpa using hr')
      simp only [Ctx.trace, List.map_cons, ih]
      congr 1
    | false =>
      have ih := trace_openDisables es (true :: st) (c.step (.enter false)) r
        (by simp only [Ctx.step, RelS]; exact ⟨he, hr⟩) (by simp [Ctx.step, enOf_true]) (by simpa using hr')
      simp only [Ctx.trace, List.map_cons, ih]
      congr 1
  | .exitNormal :: es, [], c, ds, _, _, h => by simp [openDisables] at h
  | .exitExc :: es, [], c, ds, _, _, h => by simp [openDisables] at h
  | .exitNormal :: es, b :: st, c, ds, hr, he, h => by
    simp only [openDisables, Option.map_eq_some_iff] at h
    obtain ⟨r, hr', rfl⟩ := h
    obtain ⟨h1, h2⟩ := rel_exit b st c hr he
    have ih := trace_openDisables es st (c.step .exitNormal) r h1 h2 hr'
    simp only [Ctx.trace, List.map_cons, ih]
    congr 1
  | .exitExc :: es, b :: st, c, ds, hr, he, h => by
    simp only [openDisables, Option.map_eq_some_iff] at h
    obtain ⟨r, hr', rfl⟩ := h
    obtain ⟨h1, h2⟩ := rel_exit b st c hr he
    have e : c.step .exitExc = c.step .exitNormal := rfl
    have ih := trace_openDisables es st (c.step .exitNormal) r h1 h2 hr'
    simp only [Ctx.trace, List.map_cons, e, ih]
    congr 1

/-- the Spec's clause about the switch holds on the model's trace of every event history -/
theorem trace_meets_ctxOk (evs : List CtxEv) : ctxOk evs (Ctx.trace {} evs) = true := by
  unfold ctxOk
  cases h : openDisables [] evs with
  | none => rfl
  | some ds =>
    simp only
    rw [trace_openDisables evs [] {} ds (by simp [RelS]) (by simp [enOf]) h]
    simp
theorem zip_flags_in_force : ∀ ds : List Nat, ((ds.zip (ds.map (· == 0))).all fun p => p.1 != 0 || p.2) = true
  | [] => rfl
  | d :: ds => by
    have ih := zip_flags_in_force ds
    simp only [List.map_cons, List.zip_cons_cons, List.all_cons, ih, Bool.and_true]
    cases h : d == 0 <;> simp [bne, h]

/-- the exact clause implies the direction the property states -/
theorem ctxOk_imp_ctxInForce (evs : List CtxEv) (flags : List Bool) (h : ctxOk evs flags = true) :
    ctxInForce evs flags = true := by
  unfold ctxOk at h
  unfold ctxInForce
  cases hd : openDisables [] evs with
  | none => rfl
  | some ds =>
    simp only [hd, beq_iff_eq] at h
    subst h
    simp [zip_flags_in_force]

end Pyrtma.Validators
