import Pyrtma.Spec.ValidatorsExt
/-!
# The validation switch over programs (`Stmt`, `execStmt`, `execList` of `Model/ValidatorsExt.lean`)

`execList_ok`: for every program (any nesting of `with disable_message_validation(ignore)` blocks, `try/except`, `raise`,
raising assignments, binding of views anywhere) run from a state whose flag agrees with the lexical depth:

* the flag afterwards is the flag before (whether the program ended normally or by an exception);
* every assignment the run executed was recorded honestly (`RecOK`: its result is `setAt` under the flag of that moment,
  applied to the message as it was at that moment - `Chain`);
* the flag of that moment was on **iff** the assignment stands outside every disabling block (`depth = 0`).
-/
namespace Pyrtma.Validators

/-- a log record is an honest record of one `__set__` / `__setitem__` call -/
def RecOK (r : AssignRec) : Prop :=
  (r.post, r.err) = setAt r.flag r.pre r.loc.off r.loc.ty r.key r.val

/-- the records (oldest first) thread the message from `m0` to `m` -/
def Chain (m0 : Bytes) : List AssignRec → Bytes → Prop
  | [], m => m = m0
  | r :: rs, m => r.pre = m0 ∧ Chain r.post rs m

theorem Chain.append {m0 m1 m2 : Bytes} : ∀ {l1 l2 : List AssignRec}, Chain m0 l1 m1 → Chain m1 l2 m2 →
    Chain m0 (l1 ++ l2) m2
  | [], _, h1, h2 => by simp only [Chain] at h1; subst h1; exact h2
  | r :: rs, _, h1, h2 => by
    simp only [Chain, List.cons_append] at h1 ⊢
    exact ⟨h1.1, Chain.append h1.2 h2⟩

/-- what a run adds to the log, and what it does to the flag -/
def RunOK (s : PState) (r : PState × Bool) : Prop :=
  r.1.flag = s.flag ∧
  ∃ new, r.1.log = new ++ s.log ∧ Chain s.msg new.reverse r.1.msg ∧
    ∀ rec ∈ new, rec.flag = decide (rec.depth = 0) ∧ RecOK rec

theorem runOK_nothing (s : PState) (s' : PState) (b : Bool) (hf : s'.flag = s.flag) (hl : s'.log = s.log)
    (hm : s'.msg = s.msg) : RunOK s (s', b) :=
  ⟨hf, [], by simp [hl], by simp [Chain, hm], by simp⟩

theorem record_ok (d : Nat) (s : PState) (l : Loc) (key : Key) (v : PyVal) (h : s.flag = decide (d = 0)) :
    RunOK s (s.record d l key v) := by
  refine ⟨rfl, [_], rfl, ?_, ?_⟩
  · simp [Chain, PState.record]
  · intro rec hrec
    simp only [List.mem_singleton] at hrec
    subst hrec
    exact ⟨h, rfl⟩

mutual
theorem execStmt_ok (d : Nat) (s : PState) (h : s.flag = decide (d = 0)) : (st : Stmt) → RunOK s (execStmt d s st)
  | .bind i l => by
    simp only [execStmt]
    exact runOK_nothing s _ _ rfl rfl rfl
  | .assign .fresh l key v => by
    simp only [execStmt]
    exact record_ok d s l key v h
  | .assign (.view i) l key v => by
    simp only [execStmt]
    split
    · exact record_ok d s _ key v h
    · exact runOK_nothing s _ _ rfl rfl rfl
  | .block true body => by
    simp only [execStmt]
    exact execList_ok d s h body
  | .block false body => by
    simp only [execStmt]
    have := execList_ok (d + 1) { s with flag := false } (by simp) body
    obtain ⟨_, new, hlog, hch, hall⟩ := this
    exact ⟨rfl, new, hlog, hch, hall⟩
  | .tryCatch body => by
    simp only [execStmt]
    exact execList_ok d s h body
  | .raise => by
    simp only [execStmt]
    exact runOK_nothing s _ _ rfl rfl rfl
theorem execList_ok (d : Nat) (s : PState) (h : s.flag = decide (d = 0)) : (l : List Stmt) → RunOK s (execList d s l)
  | [] => by
    simp only [execList]
    exact runOK_nothing s _ _ rfl rfl rfl
  | st :: rest => by
    simp only [execList]
    have h1 := execStmt_ok d s h st
    split
    · exact h1
    · obtain ⟨hf, new1, hl1, hc1, ha1⟩ := h1
      have h2 := execList_ok d (execStmt d s st).1 (by rw [hf]; exact h) rest
      obtain ⟨hf2, new2, hl2, hc2, ha2⟩ := h2
      refine ⟨by rw [hf2, hf], new2 ++ new1, by rw [hl2, hl1, List.append_assoc], ?_, ?_⟩
      · rw [List.reverse_append]; exact Chain.append hc1 hc2
      · intro rec hrec
        simp only [List.mem_append] at hrec
        rcases hrec with hr | hr
        · exact ha2 rec hr
        · exact ha1 rec hr
end

end Pyrtma.Validators
