import Pyrtma.Spec.ClientLife
import Pyrtma.Proofs.ClientSub
/-! Lemmas for the session life cycle (second layer of M2).  Core Lean only. -/
namespace Pyrtma.ClientSub

/-! ### the connection table -/

theorem find_filter_of_imp (q p : MConn → Bool) (h : ∀ r, p r = true → q r = true) (l : List MConn) :
    (l.filter q).find? p = l.find? p := by
  induction l with
  | nil => rfl
  | cons r l ih =>
    by_cases hq : q r = true
    · simp only [List.filter_cons, hq, if_true, List.find?_cons, ih]
    · have hp : p r = false := by
        cases hp : p r with
        | false => rfl
        | true => exact absurd (h r hp) hq
      simp only [List.filter_cons, hq, Bool.false_eq_true, if_false, List.find?_cons, hp, ih]

theorem find_drop_ne (g : Mgr) {c cid : Nat} (h : cid ≠ c) : (g.drop c).find cid = g.find cid := by
  unfold Mgr.drop Mgr.find
  apply find_filter_of_imp
  intro r hr
  have : r.cid = cid := by simpa using hr
  simp [this, h]

theorem find_drop_self (g : Mgr) (c : Nat) : (g.drop c).find c = none := by
  unfold Mgr.drop Mgr.find
  rw [List.find?_eq_none]
  intro r hr
  have := (List.mem_filter.1 hr).2
  simpa using this

theorem find_upd (g : Mgr) (cid c : Nat) (f : MConn → MConn) (hf : ∀ r, (f r).cid = r.cid) :
    (g.upd cid f).find c = (g.find c).map (fun r => if r.cid == cid then f r else r) := by
  unfold Mgr.upd Mgr.find
  simp only
  induction g.conns with
  | nil => rfl
  | cons r l ih =>
    simp only [List.map_cons, List.find?_cons]
    cases h1 : (r.cid == cid) with
    | true =>
      simp only [if_true, hf]
      cases h2 : (r.cid == c) with
      | true =>
        have h1' : r.cid = cid := by simpa using h1
        simp [h1']
      | false => simpa using ih
    | false =>
      simp only [Bool.false_eq_true, if_false]
      cases h2 : (r.cid == c) with
      | true =>
        have h1' : ¬ r.cid = cid := by simpa using h1
        simp [h1']
      | false => simpa using ih

theorem mem_upd {g : Mgr} {cid : Nat} {f : MConn → MConn} {r' : MConn} (h : r' ∈ (g.upd cid f).conns) :
    ∃ r ∈ g.conns, r' = if r.cid == cid then f r else r := by
  unfold Mgr.upd at h
  obtain ⟨r, hr, rfl⟩ := List.mem_map.1 h
  exact ⟨r, hr, rfl⟩

theorem mem_drop {g : Mgr} {c : Nat} {r : MConn} (h : r ∈ (g.drop c).conns) : r ∈ g.conns :=
  (List.mem_filter.1 h).1

theorem find_mem {g : Mgr} {c : Nat} {r : MConn} (h : g.find c = some r) : r ∈ g.conns ∧ r.cid = c := by
  unfold Mgr.find at h
  exact ⟨List.mem_of_find?_eq_some h, by simpa using List.find?_some h⟩

theorem find_accept_new (g : Mgr) (own : Bool) (hb : ∀ r ∈ g.conns, r.cid < g.next) :
    (g.accept own).1.find g.next = some ⟨g.next, own, 0, true, false, MState.init⟩ := by
  unfold Mgr.accept Mgr.find
  simp only [List.find?_append]
  have : g.conns.find? (fun r => r.cid == g.next) = none := by
    rw [List.find?_eq_none]
    intro r hr
    have := hb r hr
    simp; omega
  simp [this]

theorem ite_drop_mem {g : Mgr} {b : Bool} {c : Nat} {r : MConn} (h : r ∈ (if b = true then g.drop c else g).conns) :
    r ∈ g.conns := by
  cases b
  · simpa using h
  · exact mem_drop (by simpa using h)

theorem ite_drop_next (g : Mgr) (b : Bool) (c : Nat) : (if b = true then g.drop c else g).next = g.next := by
  cases b <;> rfl

theorem ite_drop_cursor (g : Mgr) (b : Bool) (c : Nat) : (if b = true then g.drop c else g).cursor = g.cursor := by
  cases b <;> rfl

/-! ### dynamic ids -/

/-- whatever `assign_module_id` returns is held by no record and lies in the dynamic range -/
theorem assignLoop_fresh (ds : Int) (md : Nat) (used : List Int) :
    ∀ (n off : Nat) (id : Int) (off' : Nat), off < md → assignLoop ds md used n off = some (id, off') →
      id ∉ used ∧ ds ≤ id ∧ id < ds + (md : Int) ∧ off' < md
  | 0, _, _, _, _, h => by simp [assignLoop] at h
  | n + 1, off, id, off', hlt, h => by
    unfold assignLoop at h
    simp only at h
    split at h
    · have hlt' : (if off + 1 == md then 0 else off + 1) < md := by
        by_cases h1 : off + 1 = md
        · simp [h1]; omega
        · simp [h1]; omega
      exact assignLoop_fresh ds md used n _ id off' hlt' h
    · rename_i hnot
      simp only [Option.some.injEq, Prod.mk.injEq] at h
      obtain ⟨rfl, rfl⟩ := h
      refine ⟨by simpa using hnot, by omega, by omega, ?_⟩
      by_cases h1 : off + 1 = md
      · simp [h1]; omega
      · simp [h1]; omega

/-! ### the invariant -/

/-- what holds of every reachable state of the client object and the manager's table -/
structure LInv (cfg : IdCfg) (s : LSys) : Prop where
  cinv : CInv s.cl.sub
  minv : ∀ r ∈ s.mg.conns, MInv r.m
  /-- the current connection of a connected client is known at the manager, under the id the client reports, and
      the two sides agree on the subscription set -/
  cur : s.cl.connected = true →
    ∃ r, s.mg.find s.cl.conn = some r ∧ r.live = true ∧ r.modId = s.cl.modId ∧ Agree s.cl.sub r.m
  /-- a client created with an explicit id never reports another one -/
  static : s.cl.created ≠ 0 → s.cl.modId = s.cl.created
  bound : ∀ r ∈ s.mg.conns, r.cid < s.mg.next
  /-- `next_dynamic_mod_id_offset` stays inside the dynamic range -/
  cursor : s.mg.cursor < cfg.maxDyn

theorem mkOthers_bound : ∀ (o : List (Int × Bool)) (i : Nat), ∀ r ∈ mkOthers i o, r.cid < i + o.length ∧ MInv r.m
  | [], _, r, h => by simp [mkOthers] at h
  | (id, u) :: o, i, r, h => by
    simp only [mkOthers, List.mem_cons] at h
    rcases h with rfl | h
    · exact ⟨by simp, minv_init⟩
    · have := mkOthers_bound o (i + 1) r h
      exact ⟨by simp only [List.length_cons]; omega, this.2⟩

theorem mkOthers_low : ∀ (o : List (Int × Bool)) (i : Nat), ∀ r ∈ mkOthers i o, i ≤ r.cid
  | [], _, r, h => by simp [mkOthers] at h
  | (id, u) :: o, i, r, h => by
    simp only [mkOthers, List.mem_cons] at h
    rcases h with rfl | h
    · exact Nat.le_refl _
    · have := mkOthers_low o (i + 1) r h; omega

theorem linv_init (cfg : IdCfg) (created : Int) (others : List (Int × Bool)) (cursor : Nat)
    (hc : cursor < cfg.maxDyn) : LInv cfg (LSys.init created others cursor) := by
  refine ⟨cinv_init, ?_, ?_, ?_, ?_, hc⟩
  · intro r hr; exact (mkOthers_bound others 1 r hr).2
  · intro h; simp [LSys.init, Cl.new] at h
  · intro _; rfl
  · intro r hr
    have := (mkOthers_bound others 1 r hr).1
    simp only [LSys.init]; omega

/-! ### the steps -/

theorem disconnectOp_inv {cfg : IdCfg} {s : LSys} (h : LInv cfg s) :
    LInv cfg ⟨(disconnectOp s).1.cl, (disconnectOp s).2⟩ := by
  unfold disconnectOp
  refine ⟨cinv_init, ?_, ?_, h.static, ?_, ?_⟩
  · intro r hr; exact h.minv r (ite_drop_mem hr)
  · intro hc; simp [okPhase] at hc
  · intro r hr
    have := h.bound r (ite_drop_mem hr)
    simpa only [ite_drop_next] using this
  · simpa only [ite_drop_cursor] using h.cursor

theorem loseConn_inv {cfg : IdCfg} {s : LSys} (h : LInv cfg s) (n : Bool) :
    LInv cfg ⟨(loseConn s n).1.cl, (loseConn s n).2⟩ := by
  unfold loseConn
  refine ⟨h.cinv, ?_, ?_, h.static, ?_, ?_⟩
  · intro r hr; exact h.minv r (ite_drop_mem hr)
  · intro hc; simp at hc
  · intro r hr
    have := h.bound r (ite_drop_mem hr)
    simpa only [ite_drop_next] using this
  · simpa only [ite_drop_cursor] using h.cursor

/-- what `connect_module` answers -/
theorem hello_cases (cfg : IdCfg) (g : Mgr) (cid : Nat) (req : Int) (allow : Bool) (hc : g.cursor < cfg.maxDyn) :
    (∃ id off, off < cfg.maxDyn ∧ g.hello cfg cid req allow =
        ({ g.upd cid (fun r => { r with modId := id, unique := !allow, live := true }) with cursor := off }, some id) ∧
        (req ≠ 0 → id = req) ∧
        (req = 0 → id ∉ g.conns.map (·.modId) ∧ cfg.dynStart ≤ id ∧ id < cfg.dynStart + (cfg.maxDyn : Int))) ∨
    (∃ off, off < cfg.maxDyn ∧ g.hello cfg cid req allow = ({ g.drop cid with cursor := off }, none)) := by
  unfold Mgr.hello
  by_cases h0 : req = 0
  · subst h0
    simp only [bne_self_eq_false, Bool.false_eq_true, if_false]
    cases ha : assignLoop cfg.dynStart cfg.maxDyn (g.conns.map (·.modId)) cfg.maxDyn g.cursor with
    | none => exact .inr ⟨g.cursor, hc, rfl⟩
    | some p =>
      obtain ⟨id, off⟩ := p
      obtain ⟨h1, h2, h3, h4⟩ := assignLoop_fresh _ _ _ _ _ _ _ hc ha
      exact .inl ⟨id, off, h4, rfl, fun h => absurd rfl h, fun _ => ⟨h1, h2, h3⟩⟩
  · have h0' : (req != 0) = true := by simpa using h0
    simp only [h0', if_true]
    split
    · exact .inr ⟨g.cursor, hc, rfl⟩
    · split
      · exact .inr ⟨g.cursor, hc, rfl⟩
      · exact .inl ⟨req, g.cursor, hc, rfl, fun _ => rfl, fun h => absurd h h0⟩

theorem maxModules_of_cursor {cfg : IdCfg} {n : Nat} (h : n < cfg.maxDyn) :
    cfg.dynStart + (cfg.maxDyn : Int) = cfg.maxModules := by
  unfold IdCfg.maxDyn at h ⊢
  omega

/-- what a handshake does, from any state that satisfies the invariant -/
theorem handshake_spec {cfg : IdCfg} {cl : Cl} {g : Mgr} (h : LInv cfg ⟨cl, g⟩) (allow : Bool) :
    LInv cfg ⟨(handshake cfg cl g allow).1.cl, (handshake cfg cl g allow).2⟩ ∧
    (handshake cfg cl g allow).1.req = some cl.created ∧ (handshake cfg cl g allow).1.frames = [] ∧
    (handshake cfg cl g allow).1.cl.created = cl.created ∧
    (((handshake cfg cl g allow).1.status = .ok ∧ (handshake cfg cl g allow).1.cl.connected = true ∧
        (handshake cfg cl g allow).1.cl.sub = CState.init ∧
        (handshake cfg cl g allow).1.ack = some (handshake cfg cl g allow).1.cl.modId ∧
        (∃ r, (handshake cfg cl g allow).2.find (handshake cfg cl g allow).1.cl.conn = some r ∧ r.m = MState.init) ∧
        (cl.created = 0 →
          (handshake cfg cl g allow).1.cl.modId ∉ lheld (handshake cfg cl g allow).1.cl (handshake cfg cl g allow).2 ∧
          cfg.dynStart ≤ (handshake cfg cl g allow).1.cl.modId ∧
          (handshake cfg cl g allow).1.cl.modId < cfg.maxModules)) ∨
     ((handshake cfg cl g allow).1.status = .lost ∧ (handshake cfg cl g allow).1.cl.connected = false ∧
        (handshake cfg cl g allow).1.ack = none)) := by
  have hreq : (if cl.created == 0 then 0 else cl.modId) = cl.created := by
    by_cases hc : cl.created = 0
    · simp [hc]
    · have := h.static hc
      simp only at this
      simp [hc, this]
  have hbA : ∀ r ∈ (g.accept true).1.conns, r.cid < (g.accept true).1.next := by
    intro r hr
    simp only [Mgr.accept, List.mem_append, List.mem_singleton] at hr ⊢
    rcases hr with hr | rfl
    · have := h.bound r hr; simp only at this; omega
    · simp
  have hmA : ∀ r ∈ (g.accept true).1.conns, MInv r.m := by
    intro r hr
    simp only [Mgr.accept, List.mem_append, List.mem_singleton] at hr
    rcases hr with hr | rfl
    · exact h.minv r hr
    · exact minv_init
  have hfind := find_accept_new g true (fun r hr => h.bound r hr)
  have hcurA : (g.accept true).1.cursor < cfg.maxDyn := h.cursor
  unfold handshake
  simp only [hreq]
  rcases hello_cases cfg (g.accept true).1 (g.accept true).2 cl.created allow hcurA with
    ⟨id, off, hoff, he, hid1, hid0⟩ | ⟨off, hoff, he⟩
  · -- accepted
    rw [he]
    simp only
    have hfinal : (if (cl.created == 0) = true then id else cl.created) = id := by
      by_cases hc : cl.created = 0
      · simp [hc]
      · simp [hc, hid1 hc]
    simp only [hfinal]
    have hf : ∀ r : MConn, ({ r with modId := id, unique := !allow, live := true } : MConn).cid = r.cid := fun _ => rfl
    have hfindN : (Mgr.find { (g.accept true).1.upd (g.accept true).2
          (fun r => { r with modId := id, unique := !allow, live := true }) with cursor := off } (g.accept true).2) =
        some ⟨g.next, true, id, !allow, true, MState.init⟩ := by
      have := find_upd (g.accept true).1 (g.accept true).2 (g.accept true).2 _ hf
      have h2 : (g.accept true).2 = g.next := rfl
      simp only [Mgr.find] at this hfind ⊢
      rw [h2] at this ⊢
      rw [this, hfind]
      simp
    refine ⟨⟨cinv_init, ?_, ?_, ?_, ?_, hoff⟩, (by first | trivial | rfl), (by first | trivial | rfl), (by first | trivial | rfl), .inl ⟨(by first | trivial | rfl), (by first | trivial | rfl), (by first | trivial | rfl), (by first | trivial | rfl), ⟨_, hfindN, rfl⟩, ?_⟩⟩
    · intro r hr
      obtain ⟨r0, hr0, rfl⟩ := mem_upd (g := (g.accept true).1) hr
      split
      · exact hmA r0 hr0
      · exact hmA r0 hr0
    · intro _
      exact ⟨_, hfindN, rfl, rfl, agree_init⟩
    · intro hc
      simp only at hc ⊢
      exact (hid1 hc).symm ▸ rfl
    · intro r hr
      obtain ⟨r0, hr0, rfl⟩ := mem_upd (g := (g.accept true).1) hr
      have := hbA r0 hr0
      split <;> simpa [Mgr.upd] using this
    · intro hc
      obtain ⟨hfresh, hlo, hhi⟩ := hid0 hc
      refine ⟨?_, hlo, ?_⟩
      · intro hmem
        simp only [lheld, List.mem_map, List.mem_filter] at hmem
        obtain ⟨r, ⟨hr, hne⟩, hrid⟩ := hmem
        obtain ⟨r0, hr0, rfl⟩ := mem_upd (g := (g.accept true).1) hr
        by_cases hcid : r0.cid = (g.accept true).2
        · simp [hcid] at hne
        · have hcid' : (r0.cid == (g.accept true).2) = false := by simpa using hcid
          simp only [hcid', Bool.false_eq_true, if_false] at hrid
          exact hfresh (List.mem_map.2 ⟨r0, hr0, hrid⟩)
      · have := maxModules_of_cursor hcurA
        omega
  · -- refused
    rw [he]
    simp only
    refine ⟨⟨h.cinv, ?_, ?_, ?_, ?_, hoff⟩, (by first | trivial | rfl), (by first | trivial | rfl), (by first | trivial | rfl), .inr ⟨(by first | trivial | rfl), (by first | trivial | rfl), (by first | trivial | rfl)⟩⟩
    · intro r hr; exact hmA r (mem_drop hr)
    · intro hc; simp at hc
    · intro _; rfl
    · intro r hr
      have := hbA r (mem_drop hr)
      simpa [Mgr.drop] using this

theorem chain_all {c : CState} {m : MState} {xs : List (Phase × MState)} (h : ChainOk c m xs) :
    ∀ x ∈ xs, Agree x.1.st x.2 := by
  induction h with
  | nil => intro x hx; simp at hx
  | cons hx _ ih =>
    intro y hy
    simp only [List.mem_cons] at hy
    rcases hy with rfl | hy
    · exact hx.agree
    · exact ih y hy

/-- after every phase of a first-layer call the two sides agree; and there is at least one phase -/
theorem agree_chain_all {c : CState} {m : MState} (h : Agree c m) (op : Op) :
    (∀ x ∈ sysStep ⟨c, m⟩ op, Agree x.1.st x.2) ∧ sysStep ⟨c, m⟩ op ≠ [] := by
  obtain ⟨hch, hne⟩ := sysStep_chain (s := ⟨c, m⟩) h op
  exact ⟨chain_all hch, hne⟩

/-! ### every phase of every call -/

/-- what the Spec needs to know about a phase, beyond the invariant: only a handshake writes a CONNECT_V2, it asks
for the id the object was created with, and an accepted one leaves a connected client with empty sets, the id of
the ACK, an empty record at the manager and (dynamic) an id nobody else holds -/
structure PhaseFacts (cfg : IdCfg) (cr : Int) (x : LPhase × Mgr) : Prop where
  inv : LInv cfg ⟨x.1.cl, x.2⟩
  same : x.1.cl.created = cr
  req : ∀ q, x.1.req = some q → q = cr ∧ (x.1.status = .ok →
    x.1.cl.connected = true ∧ x.1.cl.sub = CState.init ∧ x.1.ack = some x.1.cl.modId ∧
    (∃ r, x.2.find x.1.cl.conn = some r ∧ r.m = MState.init) ∧
    (cr = 0 → x.1.cl.modId ∉ lheld x.1.cl x.2 ∧ cfg.dynStart ≤ x.1.cl.modId ∧ x.1.cl.modId < cfg.maxModules))

theorem facts_of_inv {cfg : IdCfg} {x : LPhase × Mgr} (h : LInv cfg ⟨x.1.cl, x.2⟩) (hr : x.1.req = none) :
    PhaseFacts cfg x.1.cl.created x :=
  ⟨h, rfl, fun q hq => by rw [hr] at hq; cases hq⟩

theorem handshake_facts {cfg : IdCfg} {cl : Cl} {g : Mgr} (h : LInv cfg ⟨cl, g⟩) (allow : Bool) :
    PhaseFacts cfg cl.created (handshake cfg cl g allow) ∧ (handshake cfg cl g allow).1.req.isSome = true := by
  obtain ⟨hinv, hreq, _, hcr, hcase⟩ := handshake_spec h allow
  refine ⟨⟨hinv, hcr, ?_⟩, by simp [hreq]⟩
  intro q hq
  rw [hreq] at hq
  cases hq
  refine ⟨rfl, fun hok => ?_⟩
  rcases hcase with ⟨_, h2, h3, h4, h5, h6⟩ | ⟨hl, _, _⟩
  · exact ⟨h2, h3, h4, h5, h6⟩
  · rw [hl] at hok; cases hok

theorem connectOp_facts {cfg : IdCfg} {s : LSys} (h : LInv cfg s) (allow : Bool) :
    PhaseFacts cfg s.cl.created (connectOp cfg s allow) ∧ (connectOp cfg s allow).1.req.isSome = true := by
  unfold connectOp
  by_cases hc : s.cl.connected = true
  · simp only [hc, if_true]
    exact handshake_facts (disconnectOp_inv h) allow
  · simp only [hc, Bool.false_eq_true, if_false]
    exact handshake_facts (cl := s.cl) (g := s.mg) h allow

/-- a handshake the manager answers too late: the client ends disconnected (fix 5d9f32d), whatever the manager then
does with the CONNECT_V2 -/
theorem lateHandshake_facts {cfg : IdCfg} {cl : Cl} {g : Mgr} (h : LInv cfg ⟨cl, g⟩) (allow : Bool) :
    PhaseFacts cfg cl.created
      (⟨{ cl with conn := (g.accept true).2, connected := false, modId := if cl.created == 0 then 0 else cl.modId }, [],
        .ackTimeout, some (if cl.created == 0 then 0 else cl.modId),
        ((g.accept true).1.hello cfg (g.accept true).2 (if cl.created == 0 then 0 else cl.modId) allow).2⟩,
       ((g.accept true).1.hello cfg (g.accept true).2 (if cl.created == 0 then 0 else cl.modId) allow).1) := by
  have hreq : (if cl.created == 0 then 0 else cl.modId) = cl.created := by
    by_cases hc : cl.created = 0
    · simp [hc]
    · have := h.static hc
      simp only at this
      simp [hc, this]
  have hbA : ∀ r ∈ (g.accept true).1.conns, r.cid < (g.accept true).1.next := by
    intro r hr
    simp only [Mgr.accept, List.mem_append, List.mem_singleton] at hr ⊢
    rcases hr with hr | rfl
    · have := h.bound r hr; simp only at this; omega
    · simp
  have hmA : ∀ r ∈ (g.accept true).1.conns, MInv r.m := by
    intro r hr
    simp only [Mgr.accept, List.mem_append, List.mem_singleton] at hr
    rcases hr with hr | rfl
    · exact h.minv r hr
    · exact minv_init
  have hcurA : (g.accept true).1.cursor < cfg.maxDyn := h.cursor
  simp only [hreq]
  refine ⟨⟨h.cinv, ?_, ?_, ?_, ?_, ?_⟩, rfl, ?_⟩
  · intro r hr
    rcases hello_cases cfg (g.accept true).1 (g.accept true).2 cl.created allow hcurA with
      ⟨id, off, _, he, _, _⟩ | ⟨off, _, he⟩
    · rw [he] at hr
      obtain ⟨r0, hr0, rfl⟩ := mem_upd (g := (g.accept true).1) hr
      split <;> exact hmA r0 hr0
    · rw [he] at hr
      exact hmA r (mem_drop hr)
  · intro hc; simp at hc
  · intro _; rfl
  · intro r hr
    rcases hello_cases cfg (g.accept true).1 (g.accept true).2 cl.created allow hcurA with
      ⟨id, off, _, he, _, _⟩ | ⟨off, _, he⟩
    · rw [he] at hr ⊢
      obtain ⟨r0, hr0, rfl⟩ := mem_upd (g := (g.accept true).1) hr
      have := hbA r0 hr0
      split <;> simpa [Mgr.upd] using this
    · rw [he] at hr ⊢
      have := hbA r (mem_drop hr)
      simpa [Mgr.drop] using this
  · rcases hello_cases cfg (g.accept true).1 (g.accept true).2 cl.created allow hcurA with
      ⟨id, off, hoff, he, _, _⟩ | ⟨off, hoff, he⟩ <;> (rw [he]; exact hoff)
  · intro q hq
    simp only [Option.some.injEq] at hq
    exact ⟨hq.symm, fun hok => by cases hok⟩

theorem connectLate_facts {cfg : IdCfg} {s : LSys} (h : LInv cfg s) (allow : Bool) :
    PhaseFacts cfg s.cl.created (connectLateOp cfg s allow) ∧ (connectLateOp cfg s allow).1.req.isSome = true := by
  unfold connectLateOp
  by_cases hc : s.cl.connected = true
  · simp only [hc, if_true]
    exact ⟨lateHandshake_facts (disconnectOp_inv h) allow, rfl⟩
  · simp only [hc, Bool.false_eq_true, if_false]
    exact ⟨lateHandshake_facts (cl := s.cl) (g := s.mg) h allow, rfl⟩

/-- the subscription tables of the current connection replaced by tables that agree with the client's new sets -/
theorem setM_inv {cfg : IdCfg} {s : LSys} (h : LInv cfg s) (hc : s.cl.connected = true) {c : CState} {m : MState}
    (ha : Agree c m) : LInv cfg ⟨{ s.cl with sub := c }, s.mg.setM s.cl.conn m⟩ := by
  obtain ⟨r, hf, hlive, hid, _⟩ := h.cur hc
  have hcid := (find_mem hf).2
  refine ⟨ha.cinv, ?_, ?_, h.static, ?_, h.cursor⟩
  · intro r' hr'
    obtain ⟨r0, hr0, rfl⟩ := mem_upd (g := s.mg) hr'
    split
    · exact ha.minv
    · exact h.minv r0 hr0
  · intro _
    refine ⟨{ r with m := m }, ?_, hlive, hid, ha⟩
    have := find_upd s.mg s.cl.conn s.cl.conn (fun r => { r with m := m }) (fun _ => rfl)
    simp only [Mgr.setM]
    rw [this, hf]
    simp [hcid]
  · intro r' hr'
    obtain ⟨r0, hr0, rfl⟩ := mem_upd (g := s.mg) hr'
    have := h.bound r0 hr0
    split <;> simpa [Mgr.setM, Mgr.upd] using this

theorem subPhases_eq {s : LSys} {r : MConn} (hf : s.mg.find s.cl.conn = some r) (op : Op) :
    subPhases s op = (sysStep ⟨s.cl.sub, r.m⟩ op).map
      (fun x => (⟨{ s.cl with sub := x.1.st }, x.1.frames, toL x.1.status, none, none⟩, s.mg.setM s.cl.conn x.2)) := by
  simp [subPhases, hf]

theorem subPhases_facts {cfg : IdCfg} {s : LSys} (h : LInv cfg s) (hc : s.cl.connected = true) (op : Op) :
    (∀ x ∈ subPhases s op, PhaseFacts cfg s.cl.created x) ∧ subPhases s op ≠ [] := by
  obtain ⟨r, hf, _, _, hag⟩ := h.cur hc
  rw [subPhases_eq hf]
  have hstep := agree_chain_all hag op
  refine ⟨?_, ?_⟩
  · intro x hx
    obtain ⟨y, hy, rfl⟩ := List.mem_map.1 hx
    exact facts_of_inv (x := (⟨{ s.cl with sub := y.1.st }, y.1.frames, toL y.1.status, none, none⟩,
      s.mg.setM s.cl.conn y.2)) (setM_inv h hc (hstep.1 y hy)) rfl
  · intro h0
    exact hstep.2 (List.map_eq_nil_iff.1 h0)

theorem nc_facts {cfg : IdCfg} {s : LSys} (h : LInv cfg s) : PhaseFacts cfg s.cl.created (ncPhase s.cl, s.mg) :=
  facts_of_inv (x := (ncPhase s.cl, s.mg)) h rfl

theorem ctlLost_inv {cfg : IdCfg} {s : LSys} (h : LInv cfg s) (k : Ctl) (l : List Int) (n : Bool) :
    LInv cfg ⟨{ s.cl with sub := (control s.cl.sub k l).st, connected := false },
      if n = true then s.mg.drop s.cl.conn else s.mg⟩ := by
  refine ⟨control_inv h.cinv k l, ?_, ?_, h.static, ?_, ?_⟩
  · intro r hr; exact h.minv r (ite_drop_mem hr)
  · intro hc; simp at hc
  · intro r hr
    have := h.bound r (ite_drop_mem hr)
    simpa only [ite_drop_next] using this
  · simpa only [ite_drop_cursor] using h.cursor

theorem mgrNotices_inv {cfg : IdCfg} {s : LSys} (h : LInv cfg s) :
    LInv cfg ⟨s.cl,
      { s.mg with conns := s.mg.conns.filter (fun r => !r.own || (s.cl.connected && r.cid == s.cl.conn)) }⟩ := by
  refine ⟨h.cinv, ?_, ?_, h.static, ?_, h.cursor⟩
  · intro r hr; exact h.minv r (List.mem_filter.1 hr).1
  · intro hc
    obtain ⟨r, hf, rest⟩ := h.cur hc
    refine ⟨r, ?_, rest⟩
    unfold Mgr.find at hf ⊢
    simp only
    rw [find_filter_of_imp _ _ _ s.mg.conns]
    · exact hf
    · intro r' hr'
      simp only at hc
      simp [hc, hr']
  · intro r hr; exact h.bound r (List.mem_filter.1 hr).1

/-- **Every phase of every call** keeps the invariant and satisfies `PhaseFacts`; every call has a phase; a
`connect` writes a CONNECT_V2 in each of its phases. -/
theorem lstep_facts {cfg : IdCfg} {s : LSys} (h : LInv cfg s) (op : LOp) :
    (∀ x ∈ lstep cfg s op, PhaseFacts cfg s.cl.created x) ∧ lstep cfg s op ≠ [] ∧
    (op.isConnect = true → ∀ x ∈ lstep cfg s op, x.1.req.isSome = true) := by
  have hsub : ∀ sop : Op, (∀ x ∈ (if s.cl.connected = true then subPhases s sop else [(ncPhase s.cl, s.mg)]),
      PhaseFacts cfg s.cl.created x) ∧
      (if s.cl.connected = true then subPhases s sop else [(ncPhase s.cl, s.mg)]) ≠ [] := by
    intro sop
    by_cases hc : s.cl.connected = true
    · simp only [hc, if_true]; exact subPhases_facts h hc sop
    · simp only [hc, Bool.false_eq_true, if_false]
      exact ⟨fun x hx => by rw [List.mem_singleton.1 hx]; exact nc_facts h, by simp⟩
  have hlose : ∀ n : Bool, (∀ x ∈ (if s.cl.connected = true then [loseConn s n] else [(ncPhase s.cl, s.mg)]),
      PhaseFacts cfg s.cl.created x) ∧
      (if s.cl.connected = true then [loseConn s n] else [(ncPhase s.cl, s.mg)]) ≠ [] := by
    intro n
    by_cases hc : s.cl.connected = true
    · simp only [hc, if_true]
      exact ⟨fun x hx => by rw [List.mem_singleton.1 hx]; exact facts_of_inv (loseConn_inv h n) rfl, by simp⟩
    · simp only [hc, Bool.false_eq_true, if_false]
      exact ⟨fun x hx => by rw [List.mem_singleton.1 hx]; exact nc_facts h, by simp⟩
  cases op with
  | sub sop =>
    refine (fun (p : _ ∧ _) => ⟨p.1, p.2, fun ha => by simp [LOp.isConnect] at ha⟩) ?_
    cases sop with
    | reconnect =>
      simp only [lstep]
      have hd := disconnectOp_inv h
      refine ⟨?_, by simp⟩
      intro x hx
      simp only [List.mem_cons, List.not_mem_nil, or_false] at hx
      rcases hx with rfl | rfl
      · exact facts_of_inv hd rfl
      · exact (connectOp_facts hd false).1
    | ctl k l => exact hsub _
    | unsubAll => exact hsub _
    | pauseAll => exact hsub _
    | resumeAll => exact hsub _
    | subCtx l => exact hsub _
    | pauseCtx l => exact hsub _
  | connect a =>
    simp only [lstep]
    have := connectOp_facts h a
    exact ⟨fun x hx => by rw [List.mem_singleton.1 hx]; exact this.1, by simp,
      fun _ x hx => by rw [List.mem_singleton.1 hx]; exact this.2⟩
  | disconnect =>
    simp only [lstep]
    exact ⟨fun x hx => by rw [List.mem_singleton.1 hx]; exact facts_of_inv (disconnectOp_inv h) rfl, by simp,
      fun ha => by simp [LOp.isConnect] at ha⟩
  | lostRead n => exact ⟨(hlose n).1, (hlose n).2, fun ha => by simp [LOp.isConnect] at ha⟩
  | lostSend n => exact ⟨(hlose n).1, (hlose n).2, fun ha => by simp [LOp.isConnect] at ha⟩
  | connectLate a =>
    simp only [lstep]
    have := connectLate_facts h a
    exact ⟨fun x hx => by rw [List.mem_singleton.1 hx]; exact this.1, by simp,
      fun _ x hx => by rw [List.mem_singleton.1 hx]; exact this.2⟩
  | ctlLost k l n =>
    refine (fun (p : _ ∧ _) => ⟨p.1, p.2, fun ha => by simp [LOp.isConnect] at ha⟩) ?_
    simp only [lstep]
    by_cases hc : s.cl.connected = true
    · simp only [hc, if_true]
      by_cases he : (control s.cl.sub k l).frames.isEmpty = true
      · simp only [he, if_true]; exact subPhases_facts h hc _
      · simp only [he, Bool.false_eq_true, if_false]
        exact ⟨fun x hx => by
          rw [List.mem_singleton.1 hx]
          exact facts_of_inv (x := (⟨{ s.cl with sub := (control s.cl.sub k l).st, connected := false }, [], .lost,
            none, none⟩, if n = true then s.mg.drop s.cl.conn else s.mg)) (ctlLost_inv h k l n) rfl, by simp⟩
    · simp only [hc, Bool.false_eq_true, if_false]
      exact ⟨fun x hx => by rw [List.mem_singleton.1 hx]; exact nc_facts h, by simp⟩
  | mgrNotices =>
    simp only [lstep]
    exact ⟨fun x hx => by
      rw [List.mem_singleton.1 hx]
      exact facts_of_inv (x := (okPhase s.cl, _)) (mgrNotices_inv h) rfl, by simp,
      fun ha => by simp [LOp.isConnect] at ha⟩

/-- the state a call leaves behind is the state after its last phase -/
theorem lafter_mem (s : LSys) : ∀ (xs : List (LPhase × Mgr)), xs ≠ [] →
    ∃ x ∈ xs, lafter s xs = ⟨x.1.cl, x.2⟩
  | [], h => absurd rfl h
  | [x], _ => ⟨x, by simp, rfl⟩
  | _ :: y :: r, _ => by
    obtain ⟨x, hx, he⟩ := lafter_mem s (y :: r) (by simp)
    exact ⟨x, by simp [hx], by simpa [lafter] using he⟩

theorem lstep_inv {cfg : IdCfg} {s : LSys} (h : LInv cfg s) (op : LOp) :
    LInv cfg (lafter s (lstep cfg s op)) ∧ (lafter s (lstep cfg s op)).cl.created = s.cl.created := by
  obtain ⟨hf, hne, _⟩ := lstep_facts h op
  obtain ⟨x, hx, he⟩ := lafter_mem s _ hne
  rw [he]
  exact ⟨(hf x hx).inv, (hf x hx).same⟩

theorem lrun_inv {cfg : IdCfg} : ∀ (ops : List LOp) {s : LSys}, LInv cfg s →
    LInv cfg (lrun cfg s ops) ∧ (lrun cfg s ops).cl.created = s.cl.created
  | [], _, h => ⟨h, rfl⟩
  | op :: ops, s, h => by
    obtain ⟨h1, h2⟩ := lstep_inv h op
    obtain ⟨h3, h4⟩ := lrun_inv ops h1
    exact ⟨h3, by rw [← h2]; exact h4⟩

/-! ### from the invariant to what can be observed -/

theorem filter_delivered_init (U : List Int) : U.filter (delivered MState.init) = [] := by
  simp [delivered, MState.init]

theorem lview_of_find (U : List Int) {cl : Cl} {g : Mgr} {r : MConn} (hf : g.find cl.conn = some r) :
    lview U cl g = viewOf U cl.sub r.m := by
  simp [lview, viewOf, hf]

/-- the C02 clauses of one phase -/
theorem lifeC02_ok (U : List Int) {cfg : IdCfg} {cr : Int} {x : LPhase × Mgr} (hx : PhaseFacts cfg cr x) :
    ∀ c ∈ lifeC02 U (lobs U x), c.2 = true := by
  have h1 : (!(lobs U x).connected || (agreeOk U (lobs U x).view && pausedOk (lobs U x).view)) = true := by
    by_cases hc : x.1.cl.connected = true
    · obtain ⟨r, hf, _, _, hag⟩ := hx.inv.cur hc
      have hv : (lobs U x).view = viewOf U x.1.cl.sub r.m := lview_of_find U hf
      rw [hv, agreeOk_of_agree U hag, pausedOk_of_agree U hag]
      simp
    · have : (lobs U x).connected = false := by simpa [lobs] using hc
      simp [this]
  have h2 : (!(lobs U x).joined || ((lobs U x).connected && (lobs U x).view.sub.isEmpty &&
      (lobs U x).view.paused.isEmpty && (lobs U x).view.delivered.isEmpty)) = true := by
    by_cases hj : (lobs U x).joined = true
    · simp only [LObs.joined, lobs, Bool.and_eq_true, Option.isSome_iff_exists, beq_iff_eq, Option.some.injEq] at hj
      obtain ⟨⟨q, hq⟩, hst⟩ := hj
      obtain ⟨_, hrest⟩ := hx.req q hq
      obtain ⟨hc, hs, _, ⟨r, hf, hm⟩, _⟩ := hrest hst
      have hv : (lobs U x).view = viewOf U x.1.cl.sub r.m := lview_of_find U hf
      have hcn : (lobs U x).connected = true := hc
      rw [hv, hcn, hs, hm]
      simp [viewOf, CState.init, filter_delivered_init]
    · have : (lobs U x).joined = false := by simpa using hj
      simp [this]
  intro c hc
  simp only [lifeC02, List.mem_cons, List.not_mem_nil, or_false] at hc
  rcases hc with rfl | rfl
  · exact h1
  · exact h2

/-- the C06 clauses of one phase -/
theorem lifeC06_ok (U : List Int) {cfg : IdCfg} {cr : Int} {x : LPhase × Mgr} (hx : PhaseFacts cfg cr x) (op : LOp)
    (hop : op.isConnect = true → x.1.req.isSome = true) :
    ∀ c ∈ lifeC06 cfg cr op (lobs U x), c.2 = true := by
  have h1 : ((!op.isConnect || (lobs U x).req.isSome) &&
      ((lobs U x).req.isNone || (lobs U x).req == some cr)) = true := by
    have ha : (!op.isConnect || (lobs U x).req.isSome) = true := by
      by_cases hc : op.isConnect = true
      · simp only [hc, Bool.not_true, Bool.false_or]; exact hop hc
      · have : op.isConnect = false := by simpa using hc
        simp [this]
    have hb : ((lobs U x).req.isNone || (lobs U x).req == some cr) = true := by
      cases hq : x.1.req with
      | none => simp [lobs, hq]
      | some q => simp [lobs, hq, (hx.req q hq).1]
    rw [ha, hb]; rfl
  have hjoin : (lobs U x).joined = true → x.1.ack = some x.1.cl.modId ∧
      (cr = 0 → x.1.cl.modId ∉ lheld x.1.cl x.2 ∧ cfg.dynStart ≤ x.1.cl.modId ∧ x.1.cl.modId < cfg.maxModules) := by
    intro hj
    simp only [LObs.joined, lobs, Bool.and_eq_true, Option.isSome_iff_exists, beq_iff_eq, Option.some.injEq] at hj
    obtain ⟨⟨q, hq⟩, hst⟩ := hj
    obtain ⟨_, _, hack, _, hdyn⟩ := (hx.req q hq).2 hst
    exact ⟨hack, hdyn⟩
  have h2 : (!(lobs U x).joined || (lobs U x).ack == some (lobs U x).modId) = true := by
    by_cases hj : (lobs U x).joined = true
    · have := (hjoin hj).1
      simp [lobs, this]
    · have : (lobs U x).joined = false := by simpa using hj
      simp [this]
  have h3 : (!((lobs U x).joined && cr == 0) ||
      (decide (cfg.dynStart ≤ (lobs U x).modId) && decide ((lobs U x).modId < cfg.maxModules) &&
        !(lobs U x).held.contains (lobs U x).modId)) = true := by
    by_cases hj : ((lobs U x).joined && cr == 0) = true
    · simp only [Bool.and_eq_true, beq_iff_eq] at hj
      obtain ⟨hf, hlo, hhi⟩ := (hjoin hj.1).2 hj.2
      simp [lobs, hlo, hhi, hf]
    · have : ((lobs U x).joined && cr == 0) = false := by simpa using hj
      simp [this]
  intro c hc
  simp only [lifeC06, List.mem_cons, List.not_mem_nil, or_false] at hc
  rcases hc with rfl | rfl | rfl
  · exact h1
  · exact h2
  · exact h3

theorem find_none_of_all {α : Type} (l : List α) (p : α → Bool) (h : ∀ a ∈ l, p a = false) : l.find? p = none := by
  rw [List.find?_eq_none]
  intro a ha
  simp [h a ha]

/-- what the Spec passes from call to call is what the model's state shows -/
theorem lastObs_lafter (U : List Int) (pre : LObs) (s : LSys) : ∀ (xs : List (LPhase × Mgr)), xs ≠ [] →
    (lastObs pre (xs.map (lobs U))).view = lview U (lafter s xs).cl (lafter s xs).mg ∧
    (lastObs pre (xs.map (lobs U))).connected = (lafter s xs).cl.connected
  | [], h => absurd rfl h
  | [_], _ => ⟨rfl, rfl⟩
  | _ :: y :: r, _ => by
    have := lastObs_lafter U pre s (y :: r) (by simp)
    simpa [lastObs, lafter] using this

/-- the phases of a first-layer call, seen through the first layer's Spec -/
theorem subPhases_obs (U : List Int) {s : LSys} {r : MConn} (hf : s.mg.find s.cl.conn = some r) (op : Op) :
    ((subPhases s op).map (lobs U)).map LObs.toPhase = obsOfPhases U (sysStep ⟨s.cl.sub, r.m⟩ op) := by
  rw [subPhases_eq hf]
  have hcid := (find_mem hf).2
  generalize sysStep ⟨s.cl.sub, r.m⟩ op = ys
  induction ys with
  | nil => rfl
  | cons y ys ih =>
    obtain ⟨p, m⟩ := y
    simp only [List.map_cons, obsOfPhases, ih, List.cons.injEq, and_true]
    have hfind : (s.mg.setM s.cl.conn m).find s.cl.conn = some { r with m := m } := by
      have := find_upd s.mg s.cl.conn s.cl.conn (fun r => { r with m := m }) (fun _ => rfl)
      simp only [Mgr.setM]
      rw [this, hf]
      simp [hcid]
    have hv : lview U { s.cl with sub := p.st } (s.mg.setM s.cl.conn m) = viewOf U p.st m :=
      lview_of_find U (cl := { s.cl with sub := p.st }) hfind
    simp only [LObs.toPhase, lobs, hv]
    cases p.status <;> rfl

end Pyrtma.ClientSub
