import Pyrtma.Proofs.ManagerSafe
import Pyrtma.Proofs.ManagerClose
import Pyrtma.Proofs.ManagerId
import Pyrtma.Proofs.ManagerSpecFrame
/-!
# Refinement of the history-based Spec by the manager model M1 — part 1: the model side

`Nest s s'` — what *nested* manager activity (everything that happens inside `forward_message`: deliveries, failed
writes, removals, CLIENT_CLOSED / FAILED_MESSAGE / RTMA_LOG notices, to any depth) does to the tables, stated so that it
can be replayed against the abstract table of `Spec/Manager.lean`:

* the receive buffer, the writable set, the failure environment and the uid counter are untouched;
* the event log only grows, never by an `rd` marker, and a module whose socket was open before and is not open
  afterwards (dropped from the table, or half-removed) has a `close` event in the extension;
* a module that is in the table with an open socket afterwards was there before with the same record (counters aside),
  is still listed under every type it was listed under, and is still in the logger set if it was;
* nothing is added to a subscriber list, to the logger set or to the table; the dynamic-id cursor is untouched.

No side condition (neither the index invariant nor fuel adequacy): a contract-based induction through the nested
`forward`, like `Pres`.
-/
namespace Pyrtma.Mgr

/-- `u` is in the table and its socket is open -/
def openIn (s : State) (u : Nat) : Prop := ∃ m, s.find u = some m ∧ m.closed = false

structure Nest (s s' : State) : Prop where
  buf : s'.buf = s.buf
  wlist : s'.wlist = s.wlist
  fail : s'.fail = s.fail
  nuid : s'.nextUid = s.nextUid
  ext : ∃ ext, s'.out = s.out ++ ext ∧ (∀ u, Ev.rd u ∉ ext) ∧ (∀ u, openIn s u → ¬ openIn s' u → Ev.close u ∈ ext)
  surv : ∀ u m', s'.find u = some m' → m'.closed = false → ∃ m, s.find u = some m ∧ m'.core = m.core
  idxKeep : ∀ t u, u ∈ idxGet s.idx t → openIn s' u → u ∈ idxGet s'.idx t
  idxSub : ∀ t u, u ∈ idxGet s'.idx t → u ∈ idxGet s.idx t
  logKeep : ∀ u, u ∈ s.loggers → openIn s' u → u ∈ s'.loggers
  logSub : s'.loggers.Sublist s.loggers
  uids : (s'.mods.map (·.uid)).Sublist (s.mods.map (·.uid))
  ndyn : s'.nextDyn = s.nextDyn

theorem core_closed {a b : Module} (h : a.core = b.core) : a.closed = b.closed := (core_fields h).1

theorem Nest.stay {s s' : State} (h : Nest s s') (u : Nat) (ho : openIn s' u) : openIn s u := by
  obtain ⟨m', hm', hc'⟩ := ho
  obtain ⟨m, hm, he⟩ := h.surv u m' hm' hc'
  exact ⟨m, hm, by rw [← core_closed he]; exact hc'⟩

theorem Nest.refl (s : State) : Nest s s :=
  ⟨rfl, rfl, rfl, rfl, ⟨[], by simp, by simp, fun u h1 h2 => absurd h1 h2⟩, fun _ m h _ => ⟨m, h, rfl⟩,
   fun _ _ h _ => h, fun _ _ h => h, fun _ h _ => h, List.Sublist.refl _, List.Sublist.refl _, rfl⟩

theorem Nest.trans {a b c : State} (h1 : Nest a b) (h2 : Nest b c) : Nest a c := by
  refine ⟨h2.buf.trans h1.buf, h2.wlist.trans h1.wlist, h2.fail.trans h1.fail, h2.nuid.trans h1.nuid, ?_, ?_, ?_, ?_, ?_, ?_,
    h2.uids.trans h1.uids, h2.ndyn.trans h1.ndyn⟩
  · obtain ⟨e1, o1, r1, c1⟩ := h1.ext
    obtain ⟨e2, o2, r2, c2⟩ := h2.ext
    refine ⟨e1 ++ e2, by rw [o2, o1, List.append_assoc], fun u hu => ?_, fun u ha hc => ?_⟩
    · rcases List.mem_append.mp hu with h | h
      · exact r1 u h
      · exact r2 u h
    · by_cases hb : openIn b u
      · exact List.mem_append.mpr (Or.inr (c2 u hb hc))
      · exact List.mem_append.mpr (Or.inl (c1 u ha hb))
  · intro u m'' hm'' hc''
    obtain ⟨m', hm', e'⟩ := h2.surv u m'' hm'' hc''
    obtain ⟨m, hm, e⟩ := h1.surv u m' hm' (by rw [← core_closed e']; exact hc'')
    exact ⟨m, hm, e'.trans e⟩
  · intro t u hu ho
    exact h2.idxKeep t u (h1.idxKeep t u hu (h2.stay u ho)) ho
  · intro t u hu; exact h1.idxSub t u (h2.idxSub t u hu)
  · intro u hu ho
    exact h2.logKeep u (h1.logKeep u hu (h2.stay u ho)) ho
  · exact h2.logSub.trans h1.logSub

/-- same tables, log extended by events that are not `rd` markers -/
theorem nest_same {s s' : State} (hm : s'.mods = s.mods) (hi : s'.idx = s.idx) (hl : s'.loggers = s.loggers)
    (hb : s'.buf = s.buf) (hw : s'.wlist = s.wlist) (hf : s'.fail = s.fail) (hn : s'.nextUid = s.nextUid)
    (hd : s'.nextDyn = s.nextDyn)
    (ho : ∃ ext, s'.out = s.out ++ ext ∧ ∀ u, Ev.rd u ∉ ext) : Nest s s' := by
  have hfind : ∀ u, s'.find u = s.find u := fun u => by unfold State.find; rw [hm]
  obtain ⟨ext, he, hr⟩ := ho
  refine ⟨hb, hw, hf, hn, ⟨ext, he, hr, fun u h1 h2 => ?_⟩, fun u m' h _ => ⟨m', by rw [← hfind]; exact h, rfl⟩,
    fun _ _ h _ => by rw [hi]; exact h, fun _ _ h => by rw [← hi]; exact h, fun _ h _ => by rw [hl]; exact h,
    by rw [hl]; exact List.Sublist.refl _, by rw [hm]; exact List.Sublist.refl _, hd⟩
  exact absurd (by obtain ⟨m, hm', hc⟩ := h1; exact ⟨m, by rw [hfind]; exact hm', hc⟩) h2

theorem nest_emit (s : State) (e : Ev) (he : ∀ u, e ≠ .rd u) : Nest s (s.emit e) :=
  nest_same rfl rfl rfl rfl rfl rfl rfl rfl ⟨[e], rfl, fun u hu => by simp at hu; exact he u hu.symm⟩

theorem nest_crash (s : State) (w : String) : Nest s (s.crash w) := by
  unfold State.crash; split
  · exact Nest.refl s
  · exact nest_same rfl rfl rfl rfl rfl rfl rfl rfl ⟨[], by simp, by simp⟩

theorem nest_count (cfg : Cfg) (s : State) (t : Int) : Nest s (countMsg cfg s t) := by
  unfold countMsg; split
  · exact nest_same rfl rfl rfl rfl rfl rfl rfl rfl ⟨[], by simp, by simp⟩
  · exact nest_same rfl rfl rfl rfl rfl rfl rfl rfl ⟨[], by simp, by simp⟩

/-- an update that leaves everything but the two counters alone -/
theorem nest_upd_core (s : State) (u : Nat) (f : Module → Module) (hu : ∀ m, (f m).uid = m.uid)
    (hc : ∀ m, (f m).core = m.core) : Nest s (s.upd u f) := by
  have hfind : ∀ v, (s.upd u f).find v = (s.find v).map (fun m => if m.uid == u then f m else m) :=
    fun v => find_upd s u v f hu
  have hopen : ∀ v, openIn s v → openIn (s.upd u f) v := by
    intro v ⟨m, hm, hcl⟩
    refine ⟨if m.uid == u then f m else m, by rw [hfind, hm]; rfl, ?_⟩
    split
    · rw [core_closed (hc m)]; exact hcl
    · exact hcl
  refine ⟨rfl, rfl, rfl, rfl, ⟨[], by simp [State.upd], by simp, fun v h1 h2 => absurd (hopen v h1) h2⟩, ?_,
    fun _ _ h _ => h, fun _ _ h => h, fun _ h _ => h, List.Sublist.refl _,
    by rw [uids_upd s u f hu]; exact List.Sublist.refl _, rfl⟩
  intro v m' hm' _
  rw [hfind] at hm'
  cases h0 : s.find v with
  | none => simp [h0] at hm'
  | some m =>
    simp only [h0, Option.map_some, Option.some.injEq] at hm'
    refine ⟨m, rfl, ?_⟩
    subst hm'
    split
    · exact hc m
    · rfl

theorem sendRaw_nest (s : State) (u : Nat) (f : Frame) : Nest s (sendRaw s u f).1 := by
  unfold sendRaw
  split
  · exact nest_crash _ _
  · split
    · exact nest_crash _ _
    · have hp : Nest s (s.upd u fun m => { m with msgCount := m.msgCount + 1 }) :=
        nest_upd_core s u _ (fun _ => rfl) (fun _ => rfl)
      dsimp only
      split
      · exact hp.trans (nest_emit _ _ (by intro _ h; cases h))
      · exact hp.trans ((nest_emit _ _ (by intro _ h; cases h)).trans (nest_emit _ _ (by intro _ h; cases h)))
      · exact hp.trans (nest_emit _ _ (by intro _ h; cases h))

theorem removePrep_out (s : State) (u : Nat) (m : Module) :
    (removePrep s u m).out = s.out ++ (if m.closed then [] else [Ev.close u]) := by
  unfold removePrep; dsimp only; split <;> simp [State.upd, State.emit]

theorem removePrep_misc (s : State) (u : Nat) (m : Module) :
    (removePrep s u m).buf = s.buf ∧ (removePrep s u m).wlist = s.wlist ∧ (removePrep s u m).fail = s.fail ∧
    (removePrep s u m).nextUid = s.nextUid := by
  unfold removePrep; dsimp only; split <;> exact ⟨rfl, rfl, rfl, rfl⟩

theorem removePrep_notOpen (s : State) (u : Nat) (m : Module) : ¬ openIn (removePrep s u m) u := by
  intro ⟨x, hx, hc⟩
  rw [removePrep_find] at hx
  cases h0 : s.find u with
  | none => simp [h0] at hx
  | some m0 =>
    have := find_uid h0
    simp only [h0, Option.map_some, Option.some.injEq] at hx
    subst hx
    simp [this] at hc

theorem removePrep_nest (s : State) (u : Nat) (m : Module) (hm : s.find u = some m) : Nest s (removePrep s u m) := by
  obtain ⟨h1, h2, h3, h4⟩ := removePrep_misc s u m
  have hother : ∀ v, v ≠ u → (removePrep s u m).find v = s.find v := by
    intro v hv
    rw [removePrep_find]
    cases h0 : s.find v with
    | none => rfl
    | some x =>
      have := find_uid h0
      simp only [Option.map_some, Option.some.injEq]
      have : (x.uid == u) = false := by simp [this, hv]
      simp [this]
  refine ⟨h1, h2, h3, h4, ⟨_, removePrep_out s u m, ?_, ?_⟩, ?_, ?_, ?_, ?_, ?_, ?_, ?_⟩
  · intro v hv; split at hv <;> simp at hv
  · intro v ⟨x, hx, hc⟩ hno
    by_cases hv : v = u
    · subst hv
      rw [hm] at hx; cases hx
      simp [hc]
    · exact absurd ⟨x, by rw [hother v hv]; exact hx, hc⟩ hno
  · intro v m' hm' hc'
    by_cases hv : v = u
    · subst hv; exact absurd ⟨m', hm', hc'⟩ (removePrep_notOpen s v m)
    · rw [hother v hv] at hm'; exact ⟨m', hm', rfl⟩
  · intro t v hv ho
    have hvu : v ≠ u := fun e => removePrep_notOpen s u m (e ▸ ho)
    rw [removePrep_idx, mem_discards]
    exact ⟨hv, fun h => hvu h.2⟩
  · intro t v hv
    rw [removePrep_idx, mem_discards] at hv; exact hv.1
  · intro v hv ho
    have hvu : v ≠ u := fun e => removePrep_notOpen s u m (e ▸ ho)
    rw [removePrep_loggers]; exact List.mem_filter.mpr ⟨hv, by simpa using hvu⟩
  · rw [removePrep_loggers]; exact List.filter_sublist
  · have : (removePrep s u m).mods.map (·.uid) = s.mods.map (·.uid) := by
      unfold removePrep; dsimp only; split <;> exact uids_upd _ u _ (fun _ => rfl)
    rw [this]; exact List.Sublist.refl _
  · unfold removePrep; dsimp only; split <;> rfl

/-- dropping the table entry of a module whose socket is already closed -/
theorem nest_dropMod (s : State) (u : Nat) (hno : ¬ openIn s u) :
    Nest s { s with mods := s.mods.filter (·.uid != u) } := by
  have hother : ∀ v, v ≠ u → ({ s with mods := s.mods.filter (·.uid != u) } : State).find v = s.find v :=
    fun v hv => find_filter_ne _ _ _ hv
  have hself : ({ s with mods := s.mods.filter (·.uid != u) } : State).find u = none := find_filter_eq _ _
  refine ⟨rfl, rfl, rfl, rfl, ⟨[], by simp, by simp, ?_⟩, ?_, fun _ _ h _ => h, fun _ _ h => h, fun _ h _ => h,
    List.Sublist.refl _, List.Sublist.map _ List.filter_sublist, rfl⟩
  · intro v ⟨x, hx, hc⟩ hn
    by_cases hv : v = u
    · subst hv; exact absurd ⟨x, hx, hc⟩ hno
    · exact absurd ⟨x, by rw [hother v hv]; exact hx, hc⟩ hn
  · intro v m' hm' _
    by_cases hv : v = u
    · subst hv; rw [hself] at hm'; cases hm'
    · rw [hother v hv] at hm'; exact ⟨m', hm', rfl⟩

/-! ## the nested operations -/

def NestOK (fwd : Fwd) : Prop := ∀ s g, Nest s (fwd s g)

section nested
variable {cfg : Cfg} {fwd : Fwd} (hf : NestOK fwd)
include hf

theorem logAt_nest (lvl : Nat) (s : State) : Nest s (logAt cfg fwd lvl s) := by
  unfold logAt; split
  · exact hf s _
  · exact Nest.refl s

theorem failedMsg_nest (s : State) (d : Int) (f : Frame) : Nest s (failedMsg cfg fwd s d f) := by
  unfold failedMsg; split
  · exact Nest.refl s
  · exact hf s _

theorem removeModule_nest (s : State) (u : Nat) : Nest s (removeModule cfg fwd s u) := by
  unfold removeModule
  cases hm : s.find u with
  | none => exact Nest.refl s
  | some m =>
    dsimp only
    have n1 := removePrep_nest s u m hm
    have n2 : Nest (removePrep s u m) (fwd (logAt cfg fwd 10 (removePrep s u m)) (closedFrame cfg { m with connected := false })) :=
      (logAt_nest hf 10 _).trans (hf _ _)
    have hno : ¬ openIn (fwd (logAt cfg fwd 10 (removePrep s u m)) (closedFrame cfg { m with connected := false })) u :=
      fun ho => removePrep_notOpen s u m (n2.stay u ho)
    exact (n1.trans n2).trans (nest_dropMod _ u hno)

theorem trySend_nest (s : State) (u : Nat) (f : Frame) : Nest s (trySend cfg fwd s u f) := by
  unfold trySend
  dsimp only
  have hp := sendRaw_nest s u f
  generalize sendRaw s u f = r at hp
  obtain ⟨s1, ok⟩ := r
  simp only at hp ⊢
  cases ok with
  | true =>
    simp only [if_true]
    exact hp.trans (nest_upd_core s1 u _ (fun _ => rfl) (fun _ => rfl))
  | false =>
    simp only [Bool.false_eq_true, if_false]
    split
    · exact hp
    · exact ((hp.trans (removeModule_nest hf s1 u)).trans (logAt_nest hf 40 _)).trans (failedMsg_nest hf _ _ _)

theorem deliverOne_nest (f : Frame) (s : State) (u : Nat) : Nest s (deliverOne cfg fwd f s u) := by
  unfold deliverOne
  cases s.find u with
  | none => exact Nest.refl s
  | some m =>
    simp only
    split
    · split
      · exact trySend_nest hf s u f
      · exact Nest.refl s
    · split
      · exact trySend_nest hf s u f
      · exact (nest_upd_core s u (fun m => { m with drops := m.drops + 1 }) (fun _ => rfl) (fun _ => rfl)).trans
          (failedMsg_nest hf _ _ _)

theorem deliver_nest (f : Frame) : ∀ (rs : List Nat) (s : State), Nest s (deliver cfg fwd f rs s)
  | [], s => Nest.refl s
  | u :: rest, s => by
    unfold deliver
    exact (deliverOne_nest hf f s u).trans (deliver_nest f rest _)

end nested

theorem forward_nest (cfg : Cfg) : ∀ fuel, NestOK (forward cfg fuel)
  | 0 => fun s g => by unfold forward; exact nest_crash _ _
  | fuel + 1 => fun s g => by
    have ih := forward_nest cfg fuel
    unfold forward
    split
    · exact Nest.refl s
    · dsimp only
      have hc := nest_count cfg s g.mtype
      split
      · exact hc.trans (logAt_nest ih 40 _)
      · split
        · exact hc.trans (logAt_nest ih 40 _)
        · exact hc.trans (deliver_nest ih g _ _)

theorem fwdTop_nest (cfg : Cfg) : NestOK (fwdTop cfg) := fun s g => forward_nest cfg _ s g

/-! ## the top-level operations that are made of nested activity only -/

theorem logTop_nest (cfg : Cfg) (lvl : Nat) (s : State) : Nest s (logAt cfg (fwdTop cfg) lvl s) :=
  logAt_nest (fwdTop_nest cfg) lvl s

theorem removeTop_nest (cfg : Cfg) (s : State) (u : Nat) : Nest s (removeModule cfg (fwdTop cfg) s u) :=
  removeModule_nest (fwdTop_nest cfg) s u

theorem toLoggers_nest (cfg : Cfg) (f : Frame) : ∀ (ls : List Nat) (s : State), Nest s (toLoggers cfg f ls s)
  | [], s => Nest.refl s
  | u :: rest, s => by
    unfold toLoggers
    refine Nest.trans ?_ (toLoggers_nest cfg f rest _)
    unfold loggerOne
    cases s.find u with
    | none => exact Nest.refl s
    | some _ => exact trySend_nest (fwdTop_nest cfg) s u f

theorem sendAck_nest (cfg : Cfg) (s : State) (u : Nat) : Nest s (sendAck cfg s u) := by
  unfold sendAck
  cases s.find u with
  | none => exact Nest.refl s
  | some m => exact (trySend_nest (fwdTop_nest cfg) s u _).trans (toLoggers_nest cfg _ _ _)

theorem infoOf_nest (cfg : Cfg) (s : State) (m : Module) : Nest s (infoOf cfg s m) := by
  unfold infoOf; exact (logTop_nest cfg 10 s).trans (fwdTop_nest cfg _ _)

theorem sendInfo_nest (cfg : Cfg) (s : State) (u : Nat) : Nest s (sendInfo cfg s u) := by
  unfold sendInfo
  cases s.find u with
  | none => exact Nest.refl s
  | some m => exact infoOf_nest cfg s m

theorem clashLoop_nest (cfg : Cfg) (me : Module) : ∀ (os : List Module) (s : State), Nest s (clashLoop cfg me os s).1
  | [], s => Nest.refl s
  | o :: rest, s => by
    unfold clashLoop
    split
    · exact Nest.refl s
    · refine Nest.trans ?_ (clashLoop_nest cfg me rest _)
      split
      · exact Nest.refl s
      · exact logTop_nest cfg 10 s

theorem foldl_fwd_nest (cfg : Cfg) : ∀ (fs : List Frame) (s : State), Nest s (fs.foldl (fwdTop cfg) s)
  | [], s => Nest.refl s
  | f :: rest, s => (fwdTop_nest cfg s f).trans (foldl_fwd_nest cfg rest _)

theorem infoAll_nest (cfg : Cfg) : ∀ (ms : List Module) (s : State), Nest s (infoAll cfg ms s)
  | [], s => Nest.refl s
  | m :: rest, s => by
    unfold infoAll; exact (infoOf_nest cfg s _).trans (infoAll_nest cfg rest _)

/-- a change of the statistics / timer fields only -/
theorem nest_stats {s s' : State} (hm : s'.mods = s.mods) (hi : s'.idx = s.idx) (hl : s'.loggers = s.loggers)
    (hb : s'.buf = s.buf) (hw : s'.wlist = s.wlist) (hf : s'.fail = s.fail) (hn : s'.nextUid = s.nextUid)
    (ho : s'.out = s.out) (hd : s'.nextDyn = s.nextDyn := by rfl) : Nest s s' :=
  nest_same hm hi hl hb hw hf hn hd ⟨[], by simp [ho], by simp⟩

theorem sendTiming_nest (cfg : Cfg) (s : State) : Nest s (sendTiming cfg s) := by
  unfold sendTiming
  dsimp only
  have n1 : Nest s ({ s with counts := [], inTraffic := true } : State) := nest_stats rfl rfl rfl rfl rfl rfl rfl rfl
  exact (n1.trans (fwdTop_nest cfg _ _)).trans (nest_stats rfl rfl rfl rfl rfl rfl rfl rfl)

theorem sendTraffic_nest (cfg : Cfg) (s : State) : Nest s (sendTraffic cfg s) := by
  unfold sendTraffic
  dsimp only
  have n1 : Nest s ({ s with inTraffic := true } : State) := nest_stats rfl rfl rfl rfl rfl rfl rfl rfl
  exact ((n1.trans (logTop_nest cfg 10 _)).trans (foldl_fwd_nest cfg _ _)).trans (nest_stats rfl rfl rfl rfl rfl rfl rfl rfl)

theorem sendActive_nest (cfg : Cfg) (s : State) : Nest s (sendActive cfg s) := by
  unfold sendActive
  dsimp only
  exact (((logTop_nest cfg 10 s).trans (infoAll_nest cfg _ _)).trans (fwdTop_nest cfg _ _)).trans
    (nest_stats rfl rfl rfl rfl rfl rfl rfl rfl)

theorem ticks_nest (cfg : Cfg) (s : State) : Nest s (ticks cfg s) := by
  unfold ticks
  have h1 : Nest s (if cfg.timing && s.now - s.tTiming > cfg.pTiming then { sendTiming cfg s with tTiming := s.now } else s) := by
    split
    · exact (sendTiming_nest cfg s).trans (nest_stats rfl rfl rfl rfl rfl rfl rfl rfl)
    · exact Nest.refl s
  generalize (if cfg.timing && s.now - s.tTiming > cfg.pTiming then { sendTiming cfg s with tTiming := s.now } else s) = s1 at h1
  dsimp only
  have h2 : Nest s (if s1.now - s1.tTraffic > cfg.pTraffic then sendTraffic cfg s1 else s1) := by
    split
    · exact h1.trans (sendTraffic_nest cfg s1)
    · exact h1
  generalize (if s1.now - s1.tTraffic > cfg.pTraffic then sendTraffic cfg s1 else s1) = s2 at h2
  split
  · exact h2.trans (sendActive_nest cfg s2)
  · exact h2

/-! ## the simulation relation -/

/-- the name of the manager's own table entry -/
def mmName : List Nat := "message_manager".toList.map (·.toNat)

/-- facts about the model's tables alone that the connect decision (C06) rests on, for the connections satisfying `P`:
    table entries have distinct uids; the manager's own entry keeps id 0 and its name; a module that is not connected
    holds no id; the dynamic-id cursor stays inside its range -/
structure MInvOn (P : Nat → Prop) (cfg : Cfg) (s : State) : Prop where
  distinct : (s.mods.map (·.uid)).Nodup
  mgr : ∀ m0, s.find 0 = some m0 → m0.modId = 0 ∧ m0.name = mmName ∧ m0.isLogger = false
  unconn : ∀ u m, P u → s.find u = some m → m.connected = false → m.modId = 0
  ndyn : maxDyn cfg = 0 ∨ s.nextDyn < maxDyn cfg

theorem MInvOn.mono {P Q : Nat → Prop} {cfg : Cfg} {s : State} (h : MInvOn P cfg s) (hq : ∀ u, Q u → P u) : MInvOn Q cfg s :=
  ⟨h.distinct, h.mgr, fun u m hu => h.unconn u m (hq u hu), h.ndyn⟩

theorem core_more {a b : Module} (h : a.core = b.core) :
    a.modId = b.modId ∧ a.name = b.name ∧ a.connected = b.connected := by
  unfold Module.core at h; cases a; cases b; simp_all

/-- nested activity keeps them -/
theorem minv_nest {P : Nat → Prop} {cfg : Cfg} {s s' : State} (h : MInvOn P cfg s) (n : Nest s s') (ao' : AllOpen s') :
    MInvOn P cfg s' := by
  refine ⟨n.uids.nodup h.distinct, fun m0 hm0 => ?_, fun u m' hp hm' hc => ?_, by rw [n.ndyn]; exact h.ndyn⟩
  · obtain ⟨m, hm, e⟩ := n.surv 0 m0 hm0 (ao' 0 m0 hm0)
    obtain ⟨e1, e2, _⟩ := core_more e
    rw [e1, e2, (core_fields e).2.2.1]; exact h.mgr m hm
  · obtain ⟨m, hm, e⟩ := n.surv u m' hm' (ao' u m' hm')
    obtain ⟨e1, _, e3⟩ := core_more e
    rw [e1]; exact h.unconn u m hp hm (by rw [← e3]; exact hc)

/-- a step that keeps the table and the cursor -/
theorem minvOn_same {P : Nat → Prop} {cfg : Cfg} {s s' : State} (h : MInvOn P cfg s) (hm : s'.mods = s.mods)
    (hd : s'.nextDyn = s.nextDyn) : MInvOn P cfg s' := by
  have hfind : ∀ u, s'.find u = s.find u := fun u => by unfold State.find; rw [hm]
  exact ⟨by rw [hm]; exact h.distinct, fun m0 h0 => h.mgr m0 (by rw [← hfind]; exact h0),
    fun u m hp hu => h.unconn u m hp (by rw [← hfind]; exact hu), by rw [hd]; exact h.ndyn⟩

/-- a rewrite of fields of the table entry of `u ≠ 0`, described through `find` -/
theorem minv_find {P : Nat → Prop} {cfg : Cfg} {s s' : State} {u : Nat} {fm : Module → Module} (h : MInvOn P cfg s)
    (hu0 : u ≠ 0) (huids : s'.mods.map (·.uid) = s.mods.map (·.uid))
    (hfind : ∀ v, s'.find v = (s.find v).map (fun m => if m.uid == u then fm m else m))
    (hd : s'.nextDyn = s.nextDyn) :
    MInvOn (fun v => P v ∧ v ≠ u) cfg s' := by
  refine ⟨by rw [huids]; exact h.distinct, fun m0 hm0 => ?_, fun v m' hp hm' hc => ?_, by rw [hd]; exact h.ndyn⟩
  · rw [hfind] at hm0
    cases h0 : s.find 0 with
    | none => simp [h0] at hm0
    | some x =>
      have hx : (x.uid == u) = false := by rw [find_uid h0]; simpa using fun e => hu0 e.symm
      simp only [h0, Option.map_some, hx, Bool.false_eq_true, if_false, Option.some.injEq] at hm0
      subst hm0; exact h.mgr x h0
  · rw [hfind] at hm'
    cases h0 : s.find v with
    | none => simp [h0] at hm'
    | some x =>
      have hx : (x.uid == u) = false := by rw [find_uid h0]; simpa using hp.2
      simp only [h0, Option.map_some, hx, Bool.false_eq_true, if_false, Option.some.injEq] at hm'
      subst hm'; exact h.unconn v x hp.1 h0 hc

/-- the requester's own entry satisfies the clause again (or is gone) -/
theorem minv_close {P : Nat → Prop} {cfg : Cfg} {s : State} {u : Nat} (h : MInvOn (fun v => P v ∧ v ≠ u) cfg s)
    (hu : ∀ m, s.find u = some m → m.connected = false → m.modId = 0) : MInvOn P cfg s :=
  ⟨h.distinct, h.mgr, fun v m hp hm hc => by
    by_cases hv : v = u
    · subst hv; exact hu m hm hc
    · exact h.unconn v m ⟨hp, hv⟩ hm hc, h.ndyn⟩


open Spec in
/-- one live entry of the abstract table against the module record the manager keeps for the same connection -/
structure SimMod (cfg : Cfg) (am : AMod) (m : Module) : Prop where
  connected : am.connected = m.connected
  modId : am.modId = m.modId
  unique : am.unique = m.unique
  isLogger : am.isLogger = m.isLogger
  isDaemon : am.isDaemon = m.isDaemon
  name : am.name = m.name
  pid : am.pid = m.pid
  subs : m.subs = if am.subAll then [cfg.allTypes] else am.types
  noAll : cfg.allTypes ∉ am.types

/-- **The simulation relation** between the Spec's abstract state (after replaying a history and the model's events for
it) and the model's state (after running the same history): the connections the Spec considers alive are exactly the
table entries other than the manager's own; for each, identity, flags, name, pid and subscriptions agree; the receive
buffer, the failure environment, the accept counter and — on live connections — the writable set agree.  The statistics
fields of `A` are not constrained.  The last clauses are facts about the model alone: the members of the logger set
that are in the table are exactly the modules with the logger flag, each listed once, and those are connected; no uid
that was not handed out yet is in the logger set; a module is listed in the subscription index under every type of its own
`subs` (the converse of `SubInv.sub`), and the manager's own table entry is listed nowhere. -/
structure SimM (cfg : Cfg) (a : Spec.A) (s : State) : Prop where
  uids : a.mods.map (·.uid) = (List.range a.nAccepted).map (· + 1)
  nacc : a.nAccepted = s.nextUid
  fail : a.fail = s.fail
  buf : a.buf = s.buf
  live : ∀ u, u ≠ 0 → ((a.live u).isSome ↔ (s.find u).isSome)
  mods : ∀ u am m, a.live u = some am → s.find u = some m → SimMod cfg am m
  w : ∀ u, (a.live u).isSome → (u ∈ a.w ↔ u ∈ s.wlist)
  logIn : ∀ u m, s.find u = some m → m.isLogger = true → u ∈ s.loggers
  logOut : ∀ u m, u ∈ s.loggers → s.find u = some m → m.isLogger = true
  logConn : ∀ u m, s.find u = some m → m.isLogger = true → m.connected = true
  logNodup : s.loggers.Nodup
  logBound : ∀ u, u ∈ s.loggers → u ≤ s.nextUid
  idxIn : ∀ u m t, s.find u = some m → t ∈ m.subs → u ∈ idxGet s.idx t
  idxPos : ∀ t u, u ∈ idxGet s.idx t → u ≠ 0
  minv : MInvOn (fun _ => True) cfg s

theorem mem_closes (evs : List Ev) (u : Nat) : u ∈ Spec.closes evs ↔ Ev.close u ∈ evs := by
  unfold Spec.closes
  rw [List.mem_filterMap]
  constructor
  · rintro ⟨e, he, h⟩
    cases e <;> simp at h
    subst h; exact he
  · intro h; exact ⟨_, h, rfl⟩

theorem closeCnt_pos {evs : List Ev} {u : Nat} (h : Ev.close u ∈ evs) : 0 < closeCnt evs u := by
  unfold closeCnt
  exact List.countP_pos_iff.mpr ⟨_, h, by simp [isClose]⟩

theorem core_subs {a b : Module} (h : a.core = b.core) : a.subs = b.subs := by
  unfold Module.core at h; cases a; cases b; simp_all

theorem simMod_core {cfg : Cfg} {am : Spec.AMod} {m m' : Module} (h : SimMod cfg am m) (e : m'.core = m.core) :
    SimMod cfg am m' := by
  have : m'.connected = m.connected ∧ m'.modId = m.modId ∧ m'.unique = m.unique ∧ m'.isLogger = m.isLogger ∧
      m'.isDaemon = m.isDaemon ∧ m'.name = m.name ∧ m'.pid = m.pid ∧ m'.subs = m.subs := by
    unfold Module.core at e; cases m; cases m'; simp_all
  obtain ⟨e1, e2, e3, e4, e5, e6, e7, e8⟩ := this
  exact ⟨by rw [e1]; exact h.connected, by rw [e2]; exact h.modId, by rw [e3]; exact h.unique, by rw [e4]; exact h.isLogger,
    by rw [e5]; exact h.isDaemon, by rw [e6]; exact h.name, by rw [e7]; exact h.pid, by rw [e8]; exact h.subs, h.noAll⟩

/-- a connection closed in an extension of the log is not in the table afterwards (no module half-removed) -/
theorem closed_gone {s s' : State} (ao' : AllOpen s') (j : J s') (ext : List Ev) (he : s'.out = s.out ++ ext) (u : Nat)
    (hu : Ev.close u ∈ ext) : s'.find u = none := by
  cases hf : s'.find u with
  | none => rfl
  | some m' =>
    have h1 := isOpen_of_find hf (ao' u m' hf)
    have h2 := j.phi u
    have h3 : 0 < closeCnt s'.out u := by
      rw [he]; unfold closeCnt; rw [List.countP_append]
      have := closeCnt_pos hu; unfold closeCnt at this; omega
    unfold phi at h2; rw [h1] at h2; simp at h2; omega

/-- **Nested activity is replayed by `applyDepartures`.**  If the abstract state simulates the model state `s`, and the
model moves to `s'` by nested manager activity only (between two points where no module is half-removed), then marking
as departed exactly the connections closed in the events of that move restores the simulation. -/
theorem sim_quiet {cfg : Cfg} {a : Spec.A} {s s' : State} (hs : SimM cfg a s) (ao : AllOpen s) (ao' : AllOpen s')
    (n : Nest s s') (j : J s') (ext : List Ev) (he : s'.out = s.out ++ ext) :
    SimM cfg (Spec.applyDepartures a ext) s' := by
  obtain ⟨hb, hfl, hw, hna, herr⟩ := Spec.applyDepartures_core a ext
  obtain ⟨ext', he', _, hcl⟩ := n.ext
  have hee : ext' = ext := List.append_cancel_left (he'.symm.trans he)
  subst hee
  -- a connection closed in the extension is not in the table afterwards
  have closed_gone : ∀ u, Ev.close u ∈ ext' → s'.find u = none := by
    intro u hu
    cases hf : s'.find u with
    | none => rfl
    | some m' =>
      have h1 := isOpen_of_find hf (ao' u m' hf)
      have h2 := j.phi u
      have h3 : 0 < closeCnt s'.out u := by
        rw [he]; unfold closeCnt; rw [List.countP_append]
        have := closeCnt_pos hu; unfold closeCnt at this; omega
      unfold phi at h2; rw [h1] at h2; simp at h2; omega
  have live' : ∀ u, (Spec.applyDepartures a ext').live u = if (Spec.closes ext').contains u then none else a.live u :=
    Spec.applyDepartures_live a ext'
  refine ⟨by rw [Spec.applyDepartures_uids, hna]; exact hs.uids, by rw [hna, n.nuid]; exact hs.nacc,
    by rw [hfl, n.fail]; exact hs.fail, by rw [hb, n.buf]; exact hs.buf, ?_, ?_, ?_, ?_, ?_, ?_, ?_, ?_, ?_, ?_, minv_nest hs.minv n ao'⟩
  · intro u hu
    rw [live']
    by_cases hc : (Spec.closes ext').contains u = true
    · have := closed_gone u ((mem_closes ext' u).mp (by simpa using hc))
      simp only [hc, if_true, this, Option.isSome_none]
    · simp only [hc, Bool.false_eq_true, if_false]
      rw [hs.live u hu]
      constructor
      · intro h
        obtain ⟨m, hm⟩ := Option.isSome_iff_exists.mp h
        have hop : openIn s u := ⟨m, hm, ao u m hm⟩
        by_cases ho' : openIn s' u
        · obtain ⟨m', hm', _⟩ := ho'; simp [hm']
        · exact absurd ((mem_closes ext' u).mpr (hcl u hop ho')) (by simpa using hc)
      · intro h
        obtain ⟨m', hm'⟩ := Option.isSome_iff_exists.mp h
        obtain ⟨m, hm, _⟩ := n.surv u m' hm' (ao' u m' hm')
        simp [hm]
  · intro u am m' hl hm'
    rw [live'] at hl
    split at hl
    · cases hl
    · obtain ⟨m, hm, e⟩ := n.surv u m' hm' (ao' u m' hm')
      exact simMod_core (hs.mods u am m hl hm) e
  · intro u hl
    rw [live'] at hl
    split at hl
    · cases hl
    · rw [hw, n.wlist]; exact hs.w u hl
  · intro u m' hm' h1
    obtain ⟨m, hm, e⟩ := n.surv u m' hm' (ao' u m' hm')
    have e' : m'.isLogger = m.isLogger := (core_fields e).2.2.1
    exact n.logKeep u (hs.logIn u m hm (by rw [← e']; exact h1)) ⟨m', hm', ao' u m' hm'⟩
  · intro u m' hu hm'
    obtain ⟨m, hm, e⟩ := n.surv u m' hm' (ao' u m' hm')
    have e' : m'.isLogger = m.isLogger := (core_fields e).2.2.1
    rw [e']; exact hs.logOut u m (n.logSub.subset hu) hm
  · intro u m' hm' h1
    obtain ⟨m, hm, e⟩ := n.surv u m' hm' (ao' u m' hm')
    have e' : m'.isLogger = m.isLogger ∧ m'.connected = m.connected := by
      unfold Module.core at e; cases m; cases m'; simp_all
    rw [e'.2]; exact hs.logConn u m hm (by rw [← e'.1]; exact h1)
  · exact n.logSub.nodup hs.logNodup
  · intro u hu; rw [n.nuid]; exact hs.logBound u (n.logSub.subset hu)
  · intro u m' t hm' ht
    obtain ⟨m, hm, e⟩ := n.surv u m' hm' (ao' u m' hm')
    exact n.idxKeep t u (hs.idxIn u m t hm (by rw [← core_subs e]; exact ht)) ⟨m', hm', ao' u m' hm'⟩
  · intro t u hu; exact hs.idxPos t u (n.idxSub t u hu)

/-! ## the simulation on a set of connections

While a CONNECT request is handled the record of the requesting connection is rewritten step by step (fields first,
`connected` and the logger set last) with nested activity in between; the relation then holds for every *other*
connection, and is re-established for the requester at the end. -/

/-- `SimM` with the per-connection clauses restricted to the connections satisfying `P` -/
structure SimOn (P : Nat → Prop) (cfg : Cfg) (a : Spec.A) (s : State) : Prop where
  uids : a.mods.map (·.uid) = (List.range a.nAccepted).map (· + 1)
  nacc : a.nAccepted = s.nextUid
  fail : a.fail = s.fail
  buf : a.buf = s.buf
  live : ∀ u, P u → u ≠ 0 → ((a.live u).isSome ↔ (s.find u).isSome)
  mods : ∀ u am m, P u → a.live u = some am → s.find u = some m → SimMod cfg am m
  w : ∀ u, P u → (a.live u).isSome → (u ∈ a.w ↔ u ∈ s.wlist)
  logIn : ∀ u m, P u → s.find u = some m → m.isLogger = true → u ∈ s.loggers
  logOut : ∀ u m, P u → u ∈ s.loggers → s.find u = some m → m.isLogger = true
  logConn : ∀ u m, P u → s.find u = some m → m.isLogger = true → m.connected = true
  logNodup : s.loggers.Nodup
  logBound : ∀ u, u ∈ s.loggers → u ≤ s.nextUid
  idxIn : ∀ u m t, P u → s.find u = some m → t ∈ m.subs → u ∈ idxGet s.idx t
  idxPos : ∀ t u, u ∈ idxGet s.idx t → u ≠ 0
  minv : MInvOn P cfg s

theorem SimM.on {cfg : Cfg} {a : Spec.A} {s : State} (h : SimM cfg a s) (P : Nat → Prop) : SimOn P cfg a s :=
  ⟨h.uids, h.nacc, h.fail, h.buf, fun u _ => h.live u, fun u am m _ => h.mods u am m, fun u _ => h.w u,
   fun u m _ => h.logIn u m, fun u m _ => h.logOut u m, fun u m _ => h.logConn u m, h.logNodup, h.logBound,
   fun u m t _ => h.idxIn u m t, h.idxPos, h.minv.mono (fun _ _ => trivial)⟩

theorem SimOn.all {cfg : Cfg} {a : Spec.A} {s : State} (h : SimOn (fun _ => True) cfg a s) : SimM cfg a s :=
  ⟨h.uids, h.nacc, h.fail, h.buf, fun u => h.live u trivial, fun u am m => h.mods u am m trivial, fun u => h.w u trivial,
   fun u m => h.logIn u m trivial, fun u m => h.logOut u m trivial, fun u m => h.logConn u m trivial, h.logNodup, h.logBound,
   fun u m t => h.idxIn u m t trivial, h.idxPos, h.minv⟩

/-- `sim_quiet` on a set of connections -/
theorem simOn_quiet {P : Nat → Prop} {cfg : Cfg} {a : Spec.A} {s s' : State} (hs : SimOn P cfg a s) (ao : AllOpen s)
    (ao' : AllOpen s') (n : Nest s s') (j : J s') (ext : List Ev) (he : s'.out = s.out ++ ext) :
    SimOn P cfg (Spec.applyDepartures a ext) s' := by
  obtain ⟨hb, hfl, hw, hna, herr⟩ := Spec.applyDepartures_core a ext
  obtain ⟨ext', he', _, hcl⟩ := n.ext
  have hee : ext' = ext := List.append_cancel_left (he'.symm.trans he)
  subst hee
  have gone := closed_gone ao' j ext' he
  have live' : ∀ u, (Spec.applyDepartures a ext').live u = if (Spec.closes ext').contains u then none else a.live u :=
    Spec.applyDepartures_live a ext'
  refine ⟨by rw [Spec.applyDepartures_uids, hna]; exact hs.uids, by rw [hna, n.nuid]; exact hs.nacc,
    by rw [hfl, n.fail]; exact hs.fail, by rw [hb, n.buf]; exact hs.buf, ?_, ?_, ?_, ?_, ?_, ?_, ?_, ?_, ?_, ?_, minv_nest hs.minv n ao'⟩
  · intro u hp hu
    rw [live']
    by_cases hc : (Spec.closes ext').contains u = true
    · have := gone u ((mem_closes ext' u).mp (by simpa using hc))
      simp only [hc, if_true, this, Option.isSome_none]
    · simp only [hc, Bool.false_eq_true, if_false]
      rw [hs.live u hp hu]
      constructor
      · intro h
        obtain ⟨m, hm⟩ := Option.isSome_iff_exists.mp h
        have hop : openIn s u := ⟨m, hm, ao u m hm⟩
        by_cases ho' : openIn s' u
        · obtain ⟨m', hm', _⟩ := ho'; simp [hm']
        · exact absurd ((mem_closes ext' u).mpr (hcl u hop ho')) (by simpa using hc)
      · intro h
        obtain ⟨m', hm'⟩ := Option.isSome_iff_exists.mp h
        obtain ⟨m, hm, _⟩ := n.surv u m' hm' (ao' u m' hm')
        simp [hm]
  · intro u am m' hp hl hm'
    rw [live'] at hl
    split at hl
    · cases hl
    · obtain ⟨m, hm, e⟩ := n.surv u m' hm' (ao' u m' hm')
      exact simMod_core (hs.mods u am m hp hl hm) e
  · intro u hp hl
    rw [live'] at hl
    split at hl
    · cases hl
    · rw [hw, n.wlist]; exact hs.w u hp hl
  · intro u m' hp hm' h1
    obtain ⟨m, hm, e⟩ := n.surv u m' hm' (ao' u m' hm')
    have e' : m'.isLogger = m.isLogger := (core_fields e).2.2.1
    exact n.logKeep u (hs.logIn u m hp hm (by rw [← e']; exact h1)) ⟨m', hm', ao' u m' hm'⟩
  · intro u m' hp hu hm'
    obtain ⟨m, hm, e⟩ := n.surv u m' hm' (ao' u m' hm')
    have e' : m'.isLogger = m.isLogger := (core_fields e).2.2.1
    rw [e']; exact hs.logOut u m hp (n.logSub.subset hu) hm
  · intro u m' hp hm' h1
    obtain ⟨m, hm, e⟩ := n.surv u m' hm' (ao' u m' hm')
    have e' : m'.isLogger = m.isLogger ∧ m'.connected = m.connected := by
      unfold Module.core at e; cases m; cases m'; simp_all
    rw [e'.2]; exact hs.logConn u m hp hm (by rw [← e'.1]; exact h1)
  · exact n.logSub.nodup hs.logNodup
  · intro u hu; rw [n.nuid]; exact hs.logBound u (n.logSub.subset hu)
  · intro u m' t hp hm' ht
    obtain ⟨m, hm, e⟩ := n.surv u m' hm' (ao' u m' hm')
    exact n.idxKeep t u (hs.idxIn u m t hp hm (by rw [← core_subs e]; exact ht)) ⟨m', hm', ao' u m' hm'⟩
  · intro t u hu; exact hs.idxPos t u (n.idxSub t u hu)

/-- the event part of `Nest` (and "the table only shrinks"): also satisfied by steps that rewrite fields of a table entry
    without opening or closing anything -/
def Evt (s s' : State) : Prop :=
  (∃ ext, s'.out = s.out ++ ext ∧ (∀ u, Ev.rd u ∉ ext) ∧ (∀ u, openIn s u → ¬ openIn s' u → Ev.close u ∈ ext)) ∧
  (s'.mods.map (·.uid)).Sublist (s.mods.map (·.uid))

theorem Nest.evt {s s' : State} (h : Nest s s') : Evt s s' := ⟨h.ext, h.uids⟩

theorem Evt.trans {a b c : State} (h1 : Evt a b) (h2 : Evt b c) : Evt a c := by
  obtain ⟨⟨e1, o1, r1, c1⟩, u1⟩ := h1
  obtain ⟨⟨e2, o2, r2, c2⟩, u2⟩ := h2
  refine ⟨⟨e1 ++ e2, by rw [o2, o1, List.append_assoc], fun u hu => ?_, fun u ha hc => ?_⟩, u2.trans u1⟩
  · rcases List.mem_append.mp hu with h | h
    · exact r1 u h
    · exact r2 u h
  · by_cases hb : openIn b u
    · exact List.mem_append.mpr (Or.inr (c2 u hb hc))
    · exact List.mem_append.mpr (Or.inl (c1 u ha hb))

/-- a step that keeps the log, the uids of the table and the set of open connections -/
theorem evt_same {s s' : State} (ho : s'.out = s.out) (hop : ∀ u, openIn s u → openIn s' u)
    (hu : s'.mods.map (·.uid) = s.mods.map (·.uid) := by rfl) : Evt s s' :=
  ⟨⟨[], by simp [ho], by simp, fun u h1 h2 => absurd (hop u h1) h2⟩, by rw [hu]; exact List.Sublist.refl _⟩

end Pyrtma.Mgr
