import Pyrtma.Proofs.ManagerSim
/-!
# Refinement of the history-based Spec by the manager model M1 — CLIENT_INFO frames (C06)

`InfoTo base E s s'`: every CLIENT_INFO frame written between `s` and `s'` describes a module exactly as the table of
`base` has it (uid, pid, module id, logger flag, uniqueness, name) — connections in `E` excepted.  Nested manager activity
never originates such a frame and never changes the identity fields of a table entry, so the frames the periodic section
sends (`send_active_clients`) and the ones a control frame triggers describe the table as it was when the frame was read.
-/
namespace Pyrtma.Mgr

def isInfo : Body → Bool
  | .info .. => true
  | _ => false

theorem tag_isInfo (cfg : Cfg) : Tag cfg isInfo := ⟨by intros; rfl, by intros; rfl, by intros; rfl⟩

/-- the payload of the CLIENT_INFO frame about a module record -/
def infoBody (m : Module) : Body := .info m.uid m.pid m.modId m.isLogger m.unique m.name

theorem infoFrame_body (cfg : Cfg) (m : Module) : (infoFrame cfg m).body = infoBody m := rfl

theorem infoBody_ident {a b : Module} (h : a.ident = b.ident) : infoBody a = infoBody b := by
  unfold Module.ident at h
  simp only [Prod.mk.injEq] at h
  obtain ⟨h1, h2, h3, h4, h5, h6, _⟩ := h
  unfold infoBody; rw [h1, h2, h3, h4, h5, h6]

def InfoTo (base : State) (E : Nat → Prop) (s s' : State) : Prop :=
  (∃ ext, s'.out = s.out ++ ext) ∧
  ∀ ext, s'.out = s.out ++ ext → ∀ p ∈ dataSends isInfo ext, ∀ v pid mid lg uq nm,
    p.2.body = Body.info v pid mid lg uq nm → E v ∨ ∃ m, base.find v = some m ∧ infoBody m = p.2.body

theorem infoTo_refl (base : State) (E : Nat → Prop) (s : State) : InfoTo base E s s :=
  ⟨⟨[], by simp⟩, fun ext he p hp => by
    have : ext = [] := List.append_right_eq_self.mp he.symm
    subst this; cases hp⟩

theorem infoTo_trans {base : State} {E : Nat → Prop} {a b c : State} (h1 : InfoTo base E a b) (h2 : InfoTo base E b c) :
    InfoTo base E a c := by
  obtain ⟨⟨e1, o1⟩, r1⟩ := h1
  obtain ⟨⟨e2, o2⟩, r2⟩ := h2
  refine ⟨⟨e1 ++ e2, by rw [o2, o1, List.append_assoc]⟩, fun ext he p hp => ?_⟩
  have : ext = e1 ++ e2 := by
    have : a.out ++ ext = a.out ++ (e1 ++ e2) := by rw [← he, o2, o1, List.append_assoc]
    exact List.append_cancel_left this
  subst this
  rw [dataSends_append] at hp
  rcases List.mem_append.mp hp with h | h
  · exact r1 e1 o1 p h
  · exact r2 e2 o2 p h

/-- a stretch that writes no CLIENT_INFO frame at all -/
theorem infoTo_quiet {base : State} {E : Nat → Prop} {s s' : State} (hp : Pres s s') (hq : Quiet isInfo s s') :
    InfoTo base E s s' := by
  refine ⟨hp.out, fun ext he p hpm => ?_⟩
  have : dataSends isInfo ext = [] := by
    unfold Quiet at hq
    rw [he, dataSends_append] at hq
    exact List.append_right_eq_self.mp hq
  rw [this] at hpm; cases hpm

theorem infoTo_same {base : State} {E : Nat → Prop} {s s' : State} (ho : s'.out = s.out) : InfoTo base E s s' :=
  ⟨⟨[], by simp [ho]⟩, fun ext he p hp => by
    have : ext = [] := by
      rw [ho] at he; exact List.append_right_eq_self.mp he.symm
    subst this; cases hp⟩

theorem infoTo_mono {base : State} {E E' : Nat → Prop} {s s' : State} (h : InfoTo base E s s') (hE : ∀ v, E v → E' v) :
    InfoTo base E' s s' :=
  ⟨h.1, fun ext he p hp v pid mid lg uq nm hb => (h.2 ext he p hp v pid mid lg uq nm hb).imp (hE v) id⟩

/-- the same frames against an earlier table: identities never change under `Pres` -/
theorem infoTo_rebase {base sA : State} {E : Nat → Prop} {s s' : State} (h : InfoTo sA E s s') (hp : Pres base sA) :
    InfoTo base E s s' := by
  refine ⟨h.1, fun ext he p hpm v pid mid lg uq nm hb => ?_⟩
  rcases h.2 ext he p hpm v pid mid lg uq nm hb with hE | ⟨m, hm, hbody⟩
  · exact Or.inl hE
  · obtain ⟨m0, hm0, hid, _⟩ := hp.sub v m hm
    exact Or.inr ⟨m0, hm0, by rw [← hbody]; exact (infoBody_ident hid).symm⟩

/-- every entry of the later table `sA` is an entry of `base` with the same identity (connections in `E` excepted) -/
def IdBack (base sA : State) (E : Nat → Prop) : Prop :=
  ∀ u m', sA.find u = some m' → E u ∨ ∃ m, base.find u = some m ∧ infoBody m = infoBody m'

theorem idBack_refl (s : State) (E : Nat → Prop) : IdBack s s E := fun _ m' h => Or.inr ⟨m', h, rfl⟩

theorem idBack_trans {a b c : State} {E : Nat → Prop} (h1 : IdBack a b E) (h2 : IdBack b c E) : IdBack a c E := by
  intro u m'' hm''
  rcases h2 u m'' hm'' with h | ⟨m', hm', e'⟩
  · exact Or.inl h
  · rcases h1 u m' hm' with h | ⟨m, hm, e⟩
    · exact Or.inl h
    · exact Or.inr ⟨m, hm, e.trans e'⟩

theorem idBack_pres {s s' : State} (E : Nat → Prop) (h : Pres s s') : IdBack s s' E := by
  intro u m' hm'
  obtain ⟨m, hm, hid, _⟩ := h.sub u m' hm'
  exact Or.inr ⟨m, hm, (infoBody_ident hid).symm⟩

/-- the later table is the earlier one with entries dropped and the entry of `u` rewritten -/
theorem idBack_find {s s' : State} {u : Nat} (E : Nat → Prop) (hE : E u)
    (h : ∀ v, v ≠ u → ∀ m', s'.find v = some m' → s.find v = some m') : IdBack s s' E := by
  intro v m' hm'
  by_cases hv : v = u
  · subst hv; exact Or.inl hE
  · exact Or.inr ⟨m', h v hv m' hm', rfl⟩

theorem infoTo_rebaseE {base sA : State} {E : Nat → Prop} {s s' : State} (h : InfoTo sA E s s') (hb : IdBack base sA E) :
    InfoTo base E s s' := by
  refine ⟨h.1, fun ext he p hpm v pid mid lg uq nm hbody => ?_⟩
  rcases h.2 ext he p hpm v pid mid lg uq nm hbody with hE | ⟨m, hm, hbd⟩
  · exact Or.inl hE
  · rcases hb v m hm with hE | ⟨m0, hm0, e⟩
    · exact Or.inl hE
    · exact Or.inr ⟨m0, hm0, e.trans hbd⟩

section ops
variable (cfg : Cfg)

theorem fwdTop_presAny (s : State) (g : Frame) : Pres s (fwdTop cfg s g) := by
  cases hb : g.body with
  | data j => exact (fwdTop_ok cfg (tag_data cfg (j + 1)) s g (by simp [hb])).1
  | _ => exact (fwdTop_ok cfg (tag_data cfg 0) s g (by simp [hb])).1

theorem logAt_presAny (lvl : Nat) (s : State) : Pres s (logAt cfg (fwdTop cfg) lvl s) :=
  (logAt_ok cfg (tag_isInfo cfg) (fwdTop_ok cfg (tag_isInfo cfg)) lvl s).1

theorem infoTo_log (base : State) (E : Nat → Prop) (lvl : Nat) (s : State) :
    InfoTo base E s (logAt cfg (fwdTop cfg) lvl s) :=
  let h := logAt_ok cfg (tag_isInfo cfg) (fwdTop_ok cfg (tag_isInfo cfg)) lvl s
  infoTo_quiet h.1 h.2

theorem infoTo_fwd (base : State) (E : Nat → Prop) (s : State) (g : Frame) (hg : isInfo g.body = false) :
    InfoTo base E s (fwdTop cfg s g) :=
  let h := fwdTop_ok cfg (tag_isInfo cfg) s g hg
  infoTo_quiet h.1 h.2

theorem infoTo_remove (base : State) (E : Nat → Prop) (s : State) (u : Nat) :
    InfoTo base E s (removeModule cfg (fwdTop cfg) s u) := by
  have hq := removeModule_quiet cfg (tag_isInfo cfg) (fwdTop_ok cfg (tag_isInfo cfg)) s u
  have hout : ∃ ext, (removeModule cfg (fwdTop cfg) s u).out = s.out ++ ext := by
    unfold removeModule
    cases s.find u with
    | none => exact ⟨[], by simp⟩
    | some m =>
      dsimp only
      have h1 : ∃ e, (removePrep s u m).out = s.out ++ e := by
        unfold removePrep; dsimp only; split
        · exact ⟨[], by simp [State.upd]⟩
        · exact ⟨[Ev.close u], by simp [State.upd, State.emit]⟩
      obtain ⟨e1, o1⟩ := h1
      obtain ⟨e2, o2⟩ := (logAt_presAny cfg 10 (removePrep s u m)).out
      obtain ⟨e3, o3⟩ := (fwdTop_presAny cfg (logAt cfg (fwdTop cfg) 10 (removePrep s u m))
        (closedFrame cfg { m with connected := false })).out
      exact ⟨e1 ++ e2 ++ e3, by show (fwdTop cfg _ _).out = _; rw [o3, o2, o1]; simp⟩
  refine ⟨hout, fun ext he p hpm => ?_⟩
  have : dataSends isInfo ext = [] := by
    unfold Quiet at hq
    rw [he, dataSends_append] at hq
    exact List.append_right_eq_self.mp hq
  rw [this] at hpm; cases hpm

/-- `remove_module` (of any module): what is left in the table was there before, unchanged in its identity -/
theorem idBack_remove (E : Nat → Prop) (s : State) (u : Nat) : IdBack s (removeModule cfg (fwdTop cfg) s u) E := by
  unfold removeModule
  cases hm : s.find u with
  | none => exact idBack_refl s E
  | some m =>
    dsimp only
    have h1 : IdBack s (removePrep s u m) E := by
      intro v m' hm'
      rw [removePrep_find] at hm'
      cases h0 : s.find v with
      | none => simp [h0] at hm'
      | some x =>
        simp only [h0, Option.map_some, Option.some.injEq] at hm'
        refine Or.inr ⟨x, rfl, ?_⟩
        subst hm'; split <;> rfl
    have h2 := idBack_pres E ((logAt_presAny cfg 10 (removePrep s u m)).trans
      (fwdTop_presAny cfg _ (closedFrame cfg { m with connected := false })))
    have h3 : IdBack (fwdTop cfg (logAt cfg (fwdTop cfg) 10 (removePrep s u m)) (closedFrame cfg { m with connected := false }))
        ({ (fwdTop cfg (logAt cfg (fwdTop cfg) 10 (removePrep s u m)) (closedFrame cfg { m with connected := false })) with
          mods := (fwdTop cfg (logAt cfg (fwdTop cfg) 10 (removePrep s u m))
            (closedFrame cfg { m with connected := false })).mods.filter (·.uid != u) } : State) E := by
      intro v m' hm'
      by_cases hv : v = u
      · subst hv
        have := find_filter_eq (fwdTop cfg (logAt cfg (fwdTop cfg) 10 (removePrep s v m))
          (closedFrame cfg { m with connected := false })).mods v
        have hm'' : (List.filter (fun x => x.uid != v) (fwdTop cfg (logAt cfg (fwdTop cfg) 10 (removePrep s v m))
          (closedFrame cfg { m with connected := false })).mods).find? (·.uid == v) = some m' := hm'
        rw [this] at hm''; cases hm''
      · have hm'' : (List.filter (fun x => x.uid != u) (fwdTop cfg (logAt cfg (fwdTop cfg) 10 (removePrep s u m))
          (closedFrame cfg { m with connected := false })).mods).find? (·.uid == v) = some m' := hm'
        rw [find_filter_ne _ _ _ hv] at hm''
        exact Or.inr ⟨m', hm'', rfl⟩
    exact idBack_trans (idBack_trans h1 h2) h3

/-- forwarding the CLIENT_INFO frame about a record that the base table has -/
theorem infoTo_infoFrame (base : State) (E : Nat → Prop) (s : State) (mrec : Module)
    (hrec : E mrec.uid ∨ ∃ m, base.find mrec.uid = some m ∧ infoBody m = infoBody mrec) :
    InfoTo base E s (fwdTop cfg s (infoFrame cfg mrec)) := by
  have hB : Tag cfg (fun b => isInfo b && b != infoBody mrec) := ⟨by intros; rfl, by intros; rfl, by intros; rfl⟩
  have h := fwdTop_ok cfg hB s (infoFrame cfg mrec) (by simp [infoFrame_body])
  refine ⟨h.1.out, fun ext he p hp v pid mid lg uq nm hb => ?_⟩
  have hq : dataSends (fun b => isInfo b && b != infoBody mrec) ext = [] := by
    have := h.2; unfold Quiet at this
    rw [he, dataSends_append] at this
    exact List.append_right_eq_self.mp this
  -- the frame is a copy of the one forwarded
  have hpb : p.2.body = infoBody mrec := by
    cases hc : (p.2.body != infoBody mrec) with
    | false => simpa using hc
    | true =>
      have : p ∈ dataSends (fun b => isInfo b && b != infoBody mrec) ext := by
        unfold dataSends at hp ⊢
        obtain ⟨e, he1, he2⟩ := List.mem_filterMap.mp hp
        refine List.mem_filterMap.mpr ⟨e, he1, ?_⟩
        cases e with
        | send u c f =>
          simp only at he2 ⊢
          split at he2
          · rename_i hi
            simp only [Option.some.injEq] at he2
            subst he2
            simp only at hc
            simp [hi, hc]
          · cases he2
        | _ => simp at he2
      rw [hq] at this; cases this
  rw [hpb] at hb
  unfold infoBody at hb
  simp only [Body.info.injEq] at hb
  obtain ⟨hv, _⟩ := hb
  subst hv
  rcases hrec with h1 | ⟨m, hm, hbody⟩
  · exact Or.inl h1
  · exact Or.inr ⟨m, hm, by rw [hbody, hpb]⟩

theorem infoTo_infoOf (base : State) (E : Nat → Prop) (s : State) (mrec : Module)
    (hrec : E mrec.uid ∨ ∃ m, base.find mrec.uid = some m ∧ infoBody m = infoBody mrec) :
    InfoTo base E s (infoOf cfg s mrec) := by
  unfold infoOf
  exact infoTo_trans (infoTo_log cfg base E 10 s) (infoTo_infoFrame cfg base E _ mrec hrec)

/-- `send_client_info` about a table entry (or nothing) -/
theorem infoTo_sendInfo (base : State) (E : Nat → Prop) (s : State) (u : Nat) (hp : Pres base s) :
    InfoTo base E s (sendInfo cfg s u) := by
  unfold sendInfo
  cases hm : s.find u with
  | none => exact infoTo_refl base E s
  | some m =>
    obtain ⟨m0, hm0, hid, _⟩ := hp.sub u m hm
    have hu := find_uid hm
    exact infoTo_infoOf cfg base E s m (Or.inr ⟨m0, by rw [hu]; exact hm0, (infoBody_ident hid).symm⟩)

theorem infoOf_presAny (s : State) (m : Module) : Pres s (infoOf cfg s m) := by
  unfold infoOf; exact (logAt_presAny cfg 10 s).trans (fwdTop_presAny cfg _ _)

/-- the loop of `send_active_clients`: every frame describes the record the table had when the loop started -/
theorem infoTo_infoAll (sA : State) (hd : (sA.mods.map (·.uid)).Nodup) (E : Nat → Prop) :
    ∀ (ms : List Module) (s : State), (∀ m ∈ ms, m ∈ sA.mods) → Pres sA s →
      InfoTo sA E s (infoAll cfg ms s) ∧ Pres sA (infoAll cfg ms s)
  | [], s, _, hp => ⟨infoTo_refl sA E s, hp⟩
  | m :: rest, s, hms, hp => by
    unfold infoAll
    have hm : m ∈ sA.mods := hms m (by simp)
    have hrec : ∃ m0, sA.find ((s.find m.uid).getD m).uid = some m0 ∧ infoBody m0 = infoBody ((s.find m.uid).getD m) := by
      cases hf : s.find m.uid with
      | none => exact ⟨m, by simp only [Option.getD_none]; exact find_of_mem (s := sA) hd hm, rfl⟩
      | some m' =>
        obtain ⟨m0, hm0, hid, _⟩ := hp.sub m.uid m' hf
        refine ⟨m0, by simp only [Option.getD_some]; rw [find_uid hf]; exact hm0, (infoBody_ident hid).symm⟩
    have h1 := infoTo_infoOf cfg sA E s ((s.find m.uid).getD m) (Or.inr hrec)
    have hp1 := hp.trans (infoOf_presAny cfg s ((s.find m.uid).getD m))
    obtain ⟨h2, hp2⟩ := infoTo_infoAll sA hd E rest _ (fun x hx => hms x (by simp [hx])) hp1
    exact ⟨infoTo_trans h1 h2, hp2⟩

theorem foldl_fwd_info (base : State) (E : Nat → Prop) : ∀ (fs : List Frame) (s : State), (∀ f ∈ fs, isInfo f.body = false) →
    InfoTo base E s (fs.foldl (fwdTop cfg) s)
  | [], s, _ => infoTo_refl base E s
  | f :: rest, s, h =>
    infoTo_trans (infoTo_fwd cfg base E s f (h f (by simp))) (foldl_fwd_info base E rest _ (fun g hg => h g (by simp [hg])))

theorem foldl_fwd_presAny : ∀ (fs : List Frame) (s : State), Pres s (fs.foldl (fwdTop cfg) s)
  | [], s => Pres.refl s
  | f :: rest, s => (fwdTop_presAny cfg s f).trans (foldl_fwd_presAny rest _)

theorem pres_stats {s s' : State} (hm : s'.mods = s.mods) (hi : s'.idx = s.idx) (hl : s'.loggers = s.loggers)
    (hw : s'.wlist = s.wlist) (hf : s'.fail = s.fail) (hn : s'.nextUid = s.nextUid) (ho : s'.out = s.out) : Pres s s' := by
  have hfind : ∀ u, s'.find u = s.find u := fun u => by unfold State.find; rw [hm]
  exact ⟨hw, hf, fun u _ => by rw [hfind], fun u h => by rw [hfind]; exact h, fun u m h => ⟨m, by rw [← hfind]; exact h, rfl, id⟩,
    fun t u h => by rw [← hi]; exact h, fun u h => by rw [← hl]; exact h, ⟨[], by simp [ho]⟩,
    by rw [hm]; exact List.Sublist.refl _, hn⟩

/-- the periodic section: the CLIENT_INFO frames of `send_active_clients` describe the table as it was before -/
theorem ticks_info (s : State) (hd : (s.mods.map (·.uid)).Nodup) :
    InfoTo s (fun _ => False) s (ticks cfg s) := by
  unfold ticks
  have h1 : InfoTo s (fun _ => False) s
        (if cfg.timing && s.now - s.tTiming > cfg.pTiming then { sendTiming cfg s with tTiming := s.now } else s) ∧
      Pres s (if cfg.timing && s.now - s.tTiming > cfg.pTiming then { sendTiming cfg s with tTiming := s.now } else s) := by
    split
    · unfold sendTiming
      dsimp only
      have p1 : Pres s ({ s with counts := [], inTraffic := true } : State) := pres_stats rfl rfl rfl rfl rfl rfl rfl
      have i1 : InfoTo s (fun _ => False) s ({ s with counts := [], inTraffic := true } : State) := infoTo_same rfl
      refine ⟨infoTo_trans (infoTo_trans i1 (infoTo_fwd cfg s _ _ _ (by simp [mgrFrame, isInfo]))) (infoTo_same rfl),
        (p1.trans (fwdTop_presAny cfg _ _)).trans (pres_stats rfl rfl rfl rfl rfl rfl rfl)⟩
    · exact ⟨infoTo_refl _ _ s, Pres.refl s⟩
  generalize (if cfg.timing && s.now - s.tTiming > cfg.pTiming then { sendTiming cfg s with tTiming := s.now } else s) = s1 at h1
  obtain ⟨i1, p1⟩ := h1
  dsimp only
  have h2 : InfoTo s (fun _ => False) s1 (if s1.now - s1.tTraffic > cfg.pTraffic then sendTraffic cfg s1 else s1) ∧
      Pres s1 (if s1.now - s1.tTraffic > cfg.pTraffic then sendTraffic cfg s1 else s1) := by
    split
    · unfold sendTraffic
      dsimp only
      have pa : Pres s1 ({ s1 with inTraffic := true } : State) := pres_stats rfl rfl rfl rfl rfl rfl rfl
      refine ⟨infoTo_trans (infoTo_trans (infoTo_trans (infoTo_same (s' := { s1 with inTraffic := true }) rfl)
          (infoTo_log cfg s _ 10 _)) (foldl_fwd_info cfg s _ _ _ ?_)) (infoTo_same rfl),
        ((pa.trans (logAt_presAny cfg 10 _)).trans (foldl_fwd_presAny cfg _ _)).trans (pres_stats rfl rfl rfl rfl rfl rfl rfl)⟩
      intro f hf
      unfold trafficFrames at hf
      obtain ⟨p, _, rfl⟩ := List.mem_map.mp hf
      simp [mgrFrame, trafficBody, isInfo]
    · exact ⟨infoTo_refl _ _ s1, Pres.refl s1⟩
  generalize (if s1.now - s1.tTraffic > cfg.pTraffic then sendTraffic cfg s1 else s1) = s2 at h2
  obtain ⟨i2, p2⟩ := h2
  refine infoTo_trans (infoTo_trans i1 i2) ?_
  split
  · unfold sendActive
    dsimp only
    -- the snapshot is the table after the DEBUG log line
    have pL := logAt_presAny cfg 10 s2
    generalize hsA : logAt cfg (fwdTop cfg) 10 s2 = sA at pL
    have pA : Pres s sA := (p1.trans p2).trans pL
    have hdA : (sA.mods.map (·.uid)).Nodup := List.Sublist.nodup pA.uids hd
    obtain ⟨iA, _⟩ := infoTo_infoAll cfg sA hdA (fun _ => False) sA.mods sA (fun _ h => h) (Pres.refl sA)
    have iL : InfoTo s (fun _ => False) s2 sA := by rw [← hsA]; exact infoTo_log cfg s _ 10 s2
    refine infoTo_trans (infoTo_trans (infoTo_trans iL (infoTo_rebase iA pA)) (infoTo_fwd cfg s _ _ _ (by simp [mgrFrame, isInfo])))
      (infoTo_same rfl)
  · exact infoTo_refl _ _ s2

end ops

end Pyrtma.Mgr
