import Pyrtma.Spec.Manager
import Pyrtma.Proofs.ManagerStats
/-!
# The Spec side of the C18 link theorems

What `Spec.round` does to the abstract state `A`, separated from what it *checks*: every check function only appends
errors (`noErr`: the state without its error list; `e18`: its `"C18"` errors), and none but `checkTiming` / `checkTraffic`
appends a `"C18"` error.  `segCore` is the meaning of one frame read (the update of `Spec.segment` without the checks).
-/
namespace Pyrtma.Mgr.Spec
open Pyrtma.Mgr

/-- the `"C18"` errors -/
def A.e18 (a : A) : List (String × String) := a.errs.filter (·.1 == "C18")

/-- the abstract state without its error list -/
def A.noErr (a : A) : A := { a with errs := [] }

@[simp] theorem noErr_noErr (a : A) : a.noErr.noErr = a.noErr := rfl
@[simp] theorem e18_noErr (a : A) : a.noErr.e18 = [] := rfl

/-- `a'` is `a` with (possibly) more errors, none of them `"C18"` -/
def Q18 (a a' : A) : Prop := a'.noErr = a.noErr ∧ a'.e18 = a.e18

theorem Q18.refl (a : A) : Q18 a a := ⟨rfl, rfl⟩
theorem Q18.trans {a b c : A} (h1 : Q18 a b) (h2 : Q18 b c) : Q18 a c := ⟨h2.1.trans h1.1, h2.2.trans h1.2⟩

theorem q18_err (a : A) (p c : String) (hp : (p == "C18") = false) : Q18 a (a.err p c) := by
  refine ⟨rfl, ?_⟩
  unfold A.err A.e18
  simp [List.filter_append, hp]

theorem q18_chk (a : A) (ok : Bool) (p c : String) (hp : (p == "C18") = false) : Q18 a (a.chk ok p c) := by
  unfold A.chk; split
  · exact Q18.refl a
  · exact q18_err a p c hp

theorem q18_foldl {β : Type} (f : A → β → A) (hf : ∀ a x, Q18 a (f a x)) : ∀ (l : List β) (a : A), Q18 a (l.foldl f a)
  | [], a => Q18.refl a
  | x :: l, a => by simp only [List.foldl_cons]; exact (hf a x).trans (q18_foldl f hf l _)

/-- a fold whose step function may depend on the (fixed) starting state -/
theorem q18_ite {c : Prop} [Decidable c] {a x y : A} (hx : Q18 a x) (hy : Q18 a y) : Q18 a (if c then x else y) := by
  split <;> assumption

theorem Q18.foldl {β : Type} {a b : A} (h : Q18 a b) (f : A → β → A) (hf : ∀ a x, Q18 a (f a x)) (l : List β) :
    Q18 a (l.foldl f b) := h.trans (q18_foldl f hf l b)

theorem Q18.chk {a b : A} (h : Q18 a b) (ok : Bool) (p c : String) (hp : (p == "C18") = false) : Q18 a (b.chk ok p c) :=
  h.trans (q18_chk b ok p c hp)

/-- peel a nest of `chk` / `foldl` / `if` / `match` off a `Q18` goal -/
macro "q18" : tactic => `(tactic| repeat' (first
  | exact Q18.refl _
  | exact q18_chk _ _ _ _ rfl
  | exact q18_err _ _ _ rfl
  | (refine Q18.chk ?_ _ _ _ rfl)
  | (refine Q18.foldl ?_ _ (fun _ _ => ?_) _)
  | split))

theorem q18_checkDepartures (cfg : Cfg) (a : A) (md : Option Nat) (evs : List Ev) : Q18 a (checkDepartures cfg a md evs) := by
  unfold checkDepartures
  dsimp only
  q18

theorem q18_checkAcks (cfg : Cfg) (a : A) (u : Nat) (expect : Bool) (evs : List Ev) : Q18 a (checkAcks cfg a u expect evs) := by
  unfold checkAcks
  dsimp only
  q18

theorem q18_checkData (cfg : Cfg) (a : A) (h : Hdr) (evs : List Ev) : Q18 a (checkData cfg a h evs) := by
  unfold checkData
  dsimp only
  q18

theorem q18_checkInfos (a : A) (evs : List Ev) : Q18 a (checkInfos a evs) := by
  unfold checkInfos
  q18

theorem q18_checkNoticeOrigin (cfg : Cfg) (a : A) (rd : Option Read) (evs : List Ev) : Q18 a (checkNoticeOrigin cfg a rd evs) := by
  unfold checkNoticeOrigin
  q18

theorem q18_foldl_chk {β : Type} (l : List β) (ok : A → β → Bool) (c : β → String) (a : A) :
    Q18 a (l.foldl (fun a x => a.chk (ok a x) "C14" (c x)) a) := by
  induction l generalizing a with
  | nil => exact Q18.refl a
  | cons x xs ih => exact (q18_chk a _ "C14" _ rfl).trans (ih _)

theorem q18_checkLoggerWaited (cfg : Cfg) (a : A) (rd : Read) (evs : List Ev) : Q18 a (checkLoggerWaited cfg a rd evs) := by
  unfold checkLoggerWaited
  split
  · exact Q18.refl a
  · simp only
    split
    · exact Q18.refl a
    · exact q18_foldl_chk _ _ _ a

/-! ## state updates of the Spec in explicit form -/

def depOne (ms : List AMod) (v : Nat) : List AMod :=
  ms.map (fun m => if m.uid == v then { m with alive := false, connected := false } else m)

/-- the table after the departures `xs` -/
def depMods (ms : List AMod) (xs : List Nat) : List AMod := xs.foldl depOne ms

theorem applyDepartures_eq (a : A) (evs : List Ev) :
    applyDepartures a evs = { a with mods := depMods a.mods (closes evs) } := by
  unfold applyDepartures depMods
  generalize closes evs = xs
  induction xs generalizing a with
  | nil => rfl
  | cons v xs ih => simp only [List.foldl_cons]; rw [ih]; rfl

theorem q18_upd {a b : A} (h : Q18 a b) (u : Nat) (f : AMod → AMod) : Q18 (a.upd u f) (b.upd u f) := by
  obtain ⟨h1, h2⟩ := h
  refine ⟨?_, h2⟩
  have e1 : (b.upd u f).noErr = b.noErr.upd u f := rfl
  have e2 : (a.upd u f).noErr = a.noErr.upd u f := rfl
  rw [e1, e2, h1]

theorem q18_dep {a b : A} (h : Q18 a b) (evs : List Ev) : Q18 (applyDepartures a evs) (applyDepartures b evs) := by
  obtain ⟨h1, h2⟩ := h
  rw [applyDepartures_eq, applyDepartures_eq]
  have hm : b.mods = a.mods := by have := congrArg A.mods h1; exact this
  refine ⟨?_, h2⟩
  show ({ b.noErr with mods := depMods b.mods (closes evs) } : A) = { a.noErr with mods := depMods a.mods (closes evs) }
  rw [h1, hm]

/-- the acknowledgements among the events -/
def acksOf (evs : List Ev) : List (Nat × Nat × Frame) := (sends evs).filter (fun p => p.2.2.body == .ack)

/-- the meaning of an accepted connect request (`checkConnect` without the checks) -/
def connCore (cfg : Cfg) (a : A) (u : Nat) (m : AMod) (h : Hdr) (acks : List (Nat × Nat × Frame)) : A :=
  let r := reqOf cfg m h a.buf
  if acks.isEmpty && a.failing u then a else
  match r.name with
  | none => a
  | some nm =>
    if r.modId != 0 then
      if !acks.isEmpty then
        a.upd u (fun m => { m with connected := true, modId := r.modId, unique := r.unique, isLogger := r.isLogger,
                                    isDaemon := r.isDaemon, pid := r.pid, name := nm })
      else a
    else
      if !acks.isEmpty then
        let id := match acks.head? with | some p => p.2.2.dest | none => -1
        a.upd u (fun m => { m with connected := true, modId := id, unique := r.unique, isLogger := r.isLogger,
                                    isDaemon := r.isDaemon, pid := r.pid, name := nm })
      else a

theorem q18_checkConnect (cfg : Cfg) (a : A) (u : Nat) (m : AMod) (h : Hdr) (evs : List Ev) :
    Q18 (connCore cfg a u m h (acksOf evs)) (checkConnect cfg a u m h evs).1 := by
  unfold checkConnect connCore acksOf
  dsimp only
  generalize List.filter (fun p => p.2.2.body == Body.ack) (sends evs) = acks
  generalize reqOf cfg m h a.buf = r
  by_cases h1 : (acks.isEmpty && a.failing u) = true
  · simp only [h1, if_true]; exact Q18.refl a
  · simp only [h1, Bool.false_eq_true, if_false]
    cases hn : r.name with
    | none => simp only; q18
    | some nm =>
      simp only
      by_cases h2 : (r.modId != 0) = true
      · simp only [h2, if_true]
        by_cases h3 : (!acks.isEmpty) = true
        · simp only [h3, if_true]; refine q18_upd ?_ _ _; q18
        · simp only [h3, Bool.false_eq_true, if_false]; q18
      · simp only [h2, Bool.false_eq_true, if_false]
        by_cases h3 : (!acks.isEmpty) = true
        · simp only [h3, if_true]; refine q18_upd ?_ _ _; q18
        · simp only [h3, Bool.false_eq_true, if_false]; q18

/-- the subscription update a (un)subscribe request means -/
def subUpd (cfg : Cfg) (t ty : Int) (m : AMod) : AMod :=
  if ty == cfg.allTypes then
    (if t == cfg.mtSubscribe || t == cfg.mtResume then { m with subAll := true, types := [] } else { m with subAll := false, types := [] })
  else if m.subAll then m
  else if t == cfg.mtSubscribe || t == cfg.mtResume then { m with types := if m.types.contains ty then m.types else m.types ++ [ty] }
  else { m with types := m.types.filter (· != ty) }

/-- the meaning of one frame read from a live connection: `Spec.segment` without the checks and before the departures -/
def segCore (cfg : Cfg) (a : A) (rd : Read) (m : AMod) (acks : List (Nat × Nat × Frame)) : A :=
  let u := rd.uid
  let h := rd.h
  let broken := rd.hdrErr || !rd.hdrOk || h.nbytes < 0 || h.nbytes > cfg.bufMax ||
                (h.nbytes > 0 && (rd.payErr || (rd.avail : Int) < h.nbytes))
  let a := if rd.hdrErr || !rd.hdrOk || h.nbytes ≤ 0 || h.nbytes > cfg.bufMax || rd.payErr then a
           else { a with buf := bufWrite a.buf rd.pay (min rd.avail h.nbytes.toNat) }
  if broken then a else
  let t := h.mtype
  if t == cfg.mtConnect || t == cfg.mtConnectV2 then
    if m.connected then a else connCore cfg a u m h acks
  else if t == cfg.mtDisconnect then a
  else if t == cfg.mtSubscribe || t == cfg.mtResume || t == cfg.mtUnsubscribe || t == cfg.mtPause then
    let ty := bufI32 a.buf 0
    let add := t == cfg.mtSubscribe || t == cfg.mtResume
    a.upd u (fun m =>
      if ty == cfg.allTypes then (if add then { m with subAll := true, types := [] } else { m with subAll := false, types := [] })
      else if m.subAll then m
      else if add then { m with types := if m.types.contains ty then m.types else m.types ++ [ty] }
      else { m with types := m.types.filter (· != ty) })
  else if t == cfg.mtSetName then
    match cstr a.buf 0 32 with
    | none => a
    | some nm => a.upd u (fun m => { m with name := nm })
  else if t == cfg.mtModuleReady then a.upd u (fun m => { m with pid := bufI32 a.buf 0 })
  else if isMgrType cfg t then a else { a with pubT := ctrBump a.pubT t, pubR := ctrBump a.pubR t }

theorem Q18.checkAcks {a b : A} (h : Q18 a b) (cfg : Cfg) (u : Nat) (e : Bool) (evs : List Ev) :
    Q18 a (Spec.checkAcks cfg b u e evs) := h.trans (q18_checkAcks cfg b u e evs)
theorem Q18.checkDepartures {a b : A} (h : Q18 a b) (cfg : Cfg) (md : Option Nat) (evs : List Ev) :
    Q18 a (Spec.checkDepartures cfg b md evs) := h.trans (q18_checkDepartures cfg b md evs)
theorem q18_checkDeparturesAny (cfg : Cfg) (b : A) (o : Option (List Nat)) (md : Option Nat) (evs : List Ev) :
    Q18 b (Spec.checkDeparturesAny cfg b o md evs) := by
  cases o with
  | none => exact q18_checkDepartures cfg b md evs
  | some v =>
    obtain ⟨h1, h2⟩ := q18_checkDepartures cfg { b with wAny := v } md evs
    refine ⟨?_, h2⟩
    show ({ Spec.checkDepartures cfg { b with wAny := v } md evs with wAny := b.wAny } : A).noErr = b.noErr
    have : ({ Spec.checkDepartures cfg { b with wAny := v } md evs with wAny := b.wAny } : A).noErr =
        ({ (Spec.checkDepartures cfg { b with wAny := v } md evs).noErr with wAny := b.wAny } : A) := rfl
    rw [this, h1]; rfl
theorem Q18.checkDeparturesAny {a b : A} (h : Q18 a b) (cfg : Cfg) (o : Option (List Nat)) (md : Option Nat) (evs : List Ev) :
    Q18 a (Spec.checkDeparturesAny cfg b o md evs) := h.trans (q18_checkDeparturesAny cfg b o md evs)
theorem Q18.checkData {a b : A} (h : Q18 a b) (cfg : Cfg) (hd : Hdr) (evs : List Ev) :
    Q18 a (Spec.checkData cfg b hd evs) := h.trans (q18_checkData cfg b hd evs)
theorem Q18.checkInfos {a b : A} (h : Q18 a b) (evs : List Ev) :
    Q18 a (Spec.checkInfos b evs) := h.trans (q18_checkInfos b evs)

/-- peel the check functions off a `Q18` goal -/
macro "q18s" : tactic => `(tactic| repeat' (first
  | exact Q18.refl _
  | (refine Q18.chk ?_ _ _ _ rfl)
  | (refine Q18.checkAcks ?_ _ _ _ _)
  | (refine Q18.checkDepartures ?_ _ _ _)
  | (refine Q18.checkData ?_ _ _ _)
  | (refine Q18.checkInfos ?_ _)))

theorem q18_pub {a b : A} (h : Q18 a b) (t : Int) :
    Q18 { a with pubT := ctrBump a.pubT t, pubR := ctrBump a.pubR t } { b with pubT := ctrBump b.pubT t, pubR := ctrBump b.pubR t } := by
  obtain ⟨h1, h2⟩ := h
  have hT : b.pubT = a.pubT := by have := congrArg A.pubT h1; exact this
  have hR : b.pubR = a.pubR := by have := congrArg A.pubR h1; exact this
  refine ⟨?_, h2⟩
  show ({ b.noErr with pubT := ctrBump b.pubT t, pubR := ctrBump b.pubR t } : A) =
    { a.noErr with pubT := ctrBump a.pubT t, pubR := ctrBump a.pubR t }
  rw [h1, hT, hR]

/-- **`Spec.segment` = its meaning, then the departures, plus errors none of which is `"C18"`** -/
theorem q18_segment (cfg : Cfg) (a : A) (rd : Read) (evs : List Ev) (m : AMod) (hm : a.get rd.uid = some m)
    (ha : m.alive = true) :
    Q18 (applyDepartures (segCore cfg a rd m (acksOf evs)) evs) (segment cfg a rd evs) := by
  unfold segment segCore
  simp only [hm, ha, Bool.not_true, Bool.false_eq_true, if_false]
  generalize (if (rd.hdrErr || !rd.hdrOk || decide (rd.h.nbytes ≤ 0) || decide (rd.h.nbytes > cfg.bufMax) || rd.payErr) = true then a
      else { a with buf := bufWrite a.buf rd.pay (min rd.avail rd.h.nbytes.toNat) }) = a1
  split
  · refine q18_dep ?_ _; q18s
  · split
    · split
      · refine q18_dep ?_ _; q18s
      · have hc := q18_checkConnect cfg a1 rd.uid m rd.h evs
        generalize checkConnect cfg a1 rd.uid m rd.h evs = r at hc
        obtain ⟨a2, d⟩ := r
        cases d with
        | none => exact q18_dep (hc.trans (by q18s)) _
        | some ok => exact q18_dep (hc.trans (by dsimp only; q18s)) _
    · split
      · refine q18_dep ?_ _; q18s
      · split
        · refine q18_dep ?_ _; q18s
        · split
          · cases cstr a1.buf 0 32 with
            | none => exact q18_dep (by q18s) _
            | some nm => exact q18_dep (by q18s) _
          · split
            · refine q18_dep ?_ _; q18s
            · refine q18_dep ?_ _
              refine Q18.checkDepartures ?_ _ _ _
              split
              · q18s
              · exact q18_pub (by q18s) _

/-- what an accepted connect request writes into the record of the requester (identity when nothing is accepted) -/
def connF (cfg : Cfg) (buf : List Nat) (failing : Bool) (m : AMod) (h : Hdr) (acks : List (Nat × Nat × Frame)) : AMod → AMod :=
  let r := reqOf cfg m h buf
  if acks.isEmpty && failing then id else
  match r.name with
  | none => id
  | some nm =>
    if r.modId != 0 then
      if !acks.isEmpty then
        (fun m => { m with connected := true, modId := r.modId, unique := r.unique, isLogger := r.isLogger,
                            isDaemon := r.isDaemon, pid := r.pid, name := nm })
      else id
    else
      if !acks.isEmpty then
        (fun m => { m with connected := true, modId := (match acks.head? with | some p => p.2.2.dest | none => -1),
                            unique := r.unique, isLogger := r.isLogger, isDaemon := r.isDaemon, pid := r.pid, name := nm })
      else id

theorem upd_id (a : A) (u : Nat) : a.upd u id = a := by
  unfold A.upd
  have : (fun m : AMod => if (m.uid == u) = true then id m else m) = id := by funext m; simp
  rw [this, List.map_id]

theorem connCore_eq (cfg : Cfg) (a : A) (u : Nat) (m : AMod) (h : Hdr) (acks : List (Nat × Nat × Frame)) :
    connCore cfg a u m h acks = a.upd u (connF cfg a.buf (a.failing u) m h acks) := by
  unfold connCore connF
  dsimp only
  by_cases h1 : (acks.isEmpty && a.failing u) = true
  · simp only [h1, if_true, upd_id]
  · simp only [h1, Bool.false_eq_true, if_false]
    cases hn : (reqOf cfg m h a.buf).name with
    | none => simp only [upd_id]
    | some nm =>
      simp only
      by_cases h2 : ((reqOf cfg m h a.buf).modId != 0) = true
      · simp only [h2, if_true]
        by_cases h3 : (!acks.isEmpty) = true
        · simp only [h3, if_true]
        · simp only [h3, Bool.false_eq_true, if_false, upd_id]
      · simp only [h2, Bool.false_eq_true, if_false]
        by_cases h3 : (!acks.isEmpty) = true
        · simp only [h3, if_true] <;> rfl
        · simp only [h3, Bool.false_eq_true, if_false, upd_id]

/-- what the frame read from connection `rd.uid` (record `m`) writes into that record; `buf` is the buffer after the read -/
def segF (cfg : Cfg) (buf : List Nat) (failing : Bool) (rd : Read) (m : AMod) (acks : List (Nat × Nat × Frame)) : AMod → AMod :=
  if readBroken cfg rd then id else
  let t := rd.h.mtype
  if t == cfg.mtConnect || t == cfg.mtConnectV2 then
    if m.connected then id else connF cfg buf failing m rd.h acks
  else if t == cfg.mtDisconnect then id
  else if t == cfg.mtSubscribe || t == cfg.mtResume || t == cfg.mtUnsubscribe || t == cfg.mtPause then
    let ty := bufI32 buf 0
    let add := t == cfg.mtSubscribe || t == cfg.mtResume
    (fun m =>
      if ty == cfg.allTypes then (if add then { m with subAll := true, types := [] } else { m with subAll := false, types := [] })
      else if m.subAll then m
      else if add then { m with types := if m.types.contains ty then m.types else m.types ++ [ty] }
      else { m with types := m.types.filter (· != ty) })
  else if t == cfg.mtSetName then
    match cstr buf 0 32 with
    | none => id
    | some nm => (fun m => { m with name := nm })
  else if t == cfg.mtModuleReady then (fun m => { m with pid := bufI32 buf 0 })
  else id

/-- a client frame that is forwarded and counted by the Spec: read whole, not a control frame, not of a manager type -/
def clientData (cfg : Cfg) (rd : Read) : Bool :=
  !readBroken cfg rd && !isControl cfg rd.h.mtype && !isMgrType cfg rd.h.mtype

def segPub (cfg : Cfg) (rd : Read) (c : List (Int × Nat)) : List (Int × Nat) :=
  if clientData cfg rd then ctrBump c rd.h.mtype else c

/-- `segCore` in explicit form: the buffer, one table entry and the two tallies -/
def segX (cfg : Cfg) (a : A) (rd : Read) (m : AMod) (acks : List (Nat × Nat × Frame)) : A :=
  { a with buf := bufAfter cfg a.buf rd,
           mods := a.mods.map (fun x => if x.uid == rd.uid then segF cfg (bufAfter cfg a.buf rd) (a.failing rd.uid) rd m acks x else x),
           pubT := segPub cfg rd a.pubT, pubR := segPub cfg rd a.pubR }

theorem map_upd_id (l : List AMod) (u : Nat) : l.map (fun x => if x.uid == u then id x else x) = l := by
  have : (fun x : AMod => if (x.uid == u) = true then id x else x) = id := by funext m; simp
  rw [this, List.map_id]

theorem segCore_eq (cfg : Cfg) (a : A) (rd : Read) (m : AMod) (acks : List (Nat × Nat × Frame)) :
    segCore cfg a rd m acks = segX cfg a rd m acks := by
  have hbuf : (if (rd.hdrErr || !rd.hdrOk || decide (rd.h.nbytes ≤ 0) || decide (rd.h.nbytes > cfg.bufMax) || rd.payErr) = true then a
      else { a with buf := bufWrite a.buf rd.pay (min rd.avail rd.h.nbytes.toNat) }) = { a with buf := bufAfter cfg a.buf rd } := by
    unfold bufAfter; split <;> rfl
  unfold segCore segX segF segPub clientData
  dsimp only
  rw [hbuf]
  have hbr : (rd.hdrErr || !rd.hdrOk || decide (rd.h.nbytes < 0) || decide (rd.h.nbytes > cfg.bufMax) ||
      decide (rd.h.nbytes > 0) && (rd.payErr || decide ((rd.avail : Int) < rd.h.nbytes))) = readBroken cfg rd := rfl
  rw [hbr]
  generalize bufAfter cfg a.buf rd = b
  by_cases h0 : readBroken cfg rd = true
  · simp only [h0, if_true, Bool.not_true, Bool.false_and, Bool.false_eq_true, if_false, map_upd_id]
  · have h0' : readBroken cfg rd = false := by simpa using h0
    simp only [h0', Bool.false_eq_true, if_false, Bool.not_false, Bool.true_and]
    by_cases h1 : (rd.h.mtype == cfg.mtConnect || rd.h.mtype == cfg.mtConnectV2) = true
    · have hctl : isControl cfg rd.h.mtype = true := by unfold isControl; simp [h1]
      simp only [h1, if_true, hctl, Bool.not_true, Bool.false_and, Bool.false_eq_true, if_false]
      by_cases hcn : m.connected = true
      · simp only [hcn, if_true, map_upd_id]
      · simp only [hcn, Bool.false_eq_true, if_false]
        rw [connCore_eq]; rfl
    · simp only [h1, Bool.false_eq_true, if_false]
      by_cases h2 : (rd.h.mtype == cfg.mtDisconnect) = true
      · have hctl : isControl cfg rd.h.mtype = true := by unfold isControl; simp [h2]
        simp only [h2, if_true, hctl, Bool.not_true, Bool.false_and, Bool.false_eq_true, if_false, map_upd_id]
      · simp only [h2, Bool.false_eq_true, if_false]
        by_cases h3 : (rd.h.mtype == cfg.mtSubscribe || rd.h.mtype == cfg.mtResume || rd.h.mtype == cfg.mtUnsubscribe ||
            rd.h.mtype == cfg.mtPause) = true
        · have hctl : isControl cfg rd.h.mtype = true := by
            unfold isControl
            simp only [Bool.or_eq_true, beq_iff_eq] at h3 ⊢
            rcases h3 with ((h | h) | h) | h <;> simp [h]
          simp only [h3, if_true, hctl, Bool.not_true, Bool.false_and, Bool.false_eq_true, if_false]
          rfl
        · simp only [h3, Bool.false_eq_true, if_false]
          by_cases h4 : (rd.h.mtype == cfg.mtSetName) = true
          · have hctl : isControl cfg rd.h.mtype = true := by unfold isControl; simp [h4]
            simp only [h4, if_true, hctl, Bool.not_true, Bool.false_and, Bool.false_eq_true, if_false]
            cases cstr b 0 32 with
            | none => simp only [map_upd_id]
            | some nm => rfl
          · simp only [h4, Bool.false_eq_true, if_false]
            by_cases h5 : (rd.h.mtype == cfg.mtModuleReady) = true
            · have hctl : isControl cfg rd.h.mtype = true := by unfold isControl; simp [h5]
              simp only [h5, if_true, hctl, Bool.not_true, Bool.false_and, Bool.false_eq_true, if_false]
              rfl
            · simp only [h5, Bool.false_eq_true, if_false]
              have hctl : isControl cfg rd.h.mtype = false := by
                unfold isControl
                simp only [Bool.or_eq_true, beq_iff_eq, not_or] at h1 h2 h3 h4 h5
                simp [h1, h2, h3, h4, h5]
              simp only [hctl, Bool.not_false, Bool.true_and]
              by_cases h6 : isMgrType cfg rd.h.mtype = true
              · simp only [h6, if_true, Bool.not_true, Bool.false_eq_true, if_false, map_upd_id]
              · simp only [h6, Bool.false_eq_true, if_false, Bool.not_false, if_true, map_upd_id]


theorem q18_mods {a b : A} (h : Q18 a b) : b.mods = a.mods := by have := congrArg A.mods h.1; exact this

theorem q18_segX {a b : A} (h : Q18 a b) (cfg : Cfg) (rd : Read) (m : AMod) (acks : List (Nat × Nat × Frame)) :
    Q18 (segX cfg a rd m acks) (segX cfg b rd m acks) := by
  refine ⟨?_, h.2⟩
  have e1 : (segX cfg b rd m acks).noErr = segX cfg b.noErr rd m acks := rfl
  have e2 : (segX cfg a rd m acks).noErr = segX cfg a.noErr rd m acks := rfl
  rw [e1, e2, h.1]

/-- `Spec.round.go` without the checks: frames are matched with the segments of the event log in order; a frame whose
    connection has departed earlier in the round is skipped -/
def goCore (cfg : Cfg) : A → List Read → List (Nat × List Ev) → A
  | a, [], _ => a
  | a, rd :: rest, segs =>
    match a.get rd.uid with
    | some m =>
      if !m.alive then goCore cfg a rest segs
      else match segs with
        | (u, evs) :: segs' =>
          if u != rd.uid then a else goCore cfg (applyDepartures (segX cfg a rd m (acksOf evs)) evs) rest segs'
        | [] => a
    | none => goCore cfg a rest segs

theorem q18_go (cfg : Cfg) : ∀ (reads : List Read) (a b : A) (segs : List (Nat × List Ev)) (fuel : Nat),
    Q18 a b → reads.length < fuel → Q18 (goCore cfg a reads segs) (roundBody.go cfg b reads segs fuel)
  | [], a, b, segs, fuel, h, hf => by
    cases fuel with
    | zero => cases hf
    | succ n =>
      unfold goCore roundBody.go
      cases segs with
      | nil => exact h
      | cons sg rest => exact h.trans (q18_err _ _ _ rfl)
  | rd :: rest, a, b, segs, fuel, h, hf => by
    cases fuel with
    | zero => cases hf
    | succ n =>
      have hf' : rest.length < n := by simp at hf; omega
      have hget : b.get rd.uid = a.get rd.uid := by unfold A.get; rw [q18_mods h]
      unfold goCore roundBody.go
      rw [hget]
      cases hm : a.get rd.uid with
      | none => exact q18_go cfg rest a b segs n h hf'
      | some m =>
        simp only
        cases hal : m.alive with
        | false => simp only [Bool.not_false, if_true]; exact q18_go cfg rest a b segs n h hf'
        | true =>
          simp only [Bool.not_true, Bool.false_eq_true, if_false]
          cases segs with
          | nil => exact h.trans (q18_err _ _ _ rfl)
          | cons sg segs' =>
            obtain ⟨u, evs⟩ := sg
            simp only
            split
            · exact h.trans (q18_err _ _ _ rfl)
            · refine q18_go cfg rest _ _ segs' n ?_ hf'
              have hq := (q18_checkNoticeOrigin cfg b (some rd) evs).trans
                (q18_checkLoggerWaited cfg (checkNoticeOrigin cfg b (some rd) evs) rd evs)
              have hmb : (checkLoggerWaited cfg (checkNoticeOrigin cfg b (some rd) evs) rd evs).get rd.uid = some m := by
                unfold A.get; rw [q18_mods hq]; unfold A.get at hget; rw [hget]; exact hm
              have h1 := q18_segment cfg (checkLoggerWaited cfg (checkNoticeOrigin cfg b (some rd) evs) rd evs) rd evs m hmb hal
              rw [segCore_eq] at h1
              exact (q18_dep (q18_segX (h.trans hq) cfg rd m (acksOf evs)) evs).trans h1

/-! ### the tally of manager-originated frames -/

def noteRecv (c : List ((Nat × Int) × Nat)) (evs : List Ev) : List ((Nat × Int) × Nat) :=
  (sends evs).foldl (fun c p =>
    match p.2.2.body with
    | .data _ | .ack | .timing .. | .traffic .. => c
    | _ => bumpRecv c (p.1, p.2.2.mtype)) c

theorem noteMgrFrames_eq (cfg : Cfg) (a : A) (evs : List Ev) :
    noteMgrFrames cfg a evs = { a with recvT := noteRecv a.recvT evs, recvR := noteRecv a.recvR evs } := by
  unfold noteMgrFrames noteRecv
  generalize sends evs = l
  induction l generalizing a with
  | nil => rfl
  | cons p l ih =>
    simp only [List.foldl_cons]
    rw [ih]
    cases p.2.2.body <;> rfl

theorem q18_note {a b : A} (h : Q18 a b) (cfg : Cfg) (evs : List Ev) : Q18 (noteMgrFrames cfg a evs) (noteMgrFrames cfg b evs) := by
  rw [noteMgrFrames_eq, noteMgrFrames_eq]
  have hT : b.recvT = a.recvT := by have := congrArg A.recvT h.1; exact this
  have hR : b.recvR = a.recvR := by have := congrArg A.recvR h.1; exact this
  refine ⟨?_, h.2⟩
  show ({ b.noErr with recvT := noteRecv b.recvT evs, recvR := noteRecv b.recvR evs } : A) =
    { a.noErr with recvT := noteRecv a.recvT evs, recvR := noteRecv a.recvR evs }
  rw [h.1, hT, hR]

theorem q18_noteAll (cfg : Cfg) : ∀ (l : List (List Ev)) {a b : A}, Q18 a b →
    Q18 (l.foldl (noteMgrFrames cfg) a) (l.foldl (noteMgrFrames cfg) b)
  | [], _, _, h => h
  | e :: l, _, _, h => by simp only [List.foldl_cons]; exact q18_noteAll cfg l (q18_note h cfg e)

/-! ### one round -/

/-- the abstract state when the round's `select` returns: clock, socket failures, the accepted connection, the
    writable set -/
def roundEnv (a : A) (r : Round) : A :=
  let a : A := { a with now := a.now + r.dt,
                        fail := (r.failSet.filter (·.1 ≤ a.nAccepted)).foldl (fun fl (p : Nat × Option FailMode) => setFail fl p.1 p.2) a.fail }
  let liveBefore := (a.mods.filter (·.alive)).map (·.uid)
  let reads := r.reads.filter (fun rd => liveBefore.contains rd.uid)
  let a := if r.accept then { a with nAccepted := a.nAccepted + 1, mods := a.mods ++ [{ uid := a.nAccepted + 1 }] } else a
  let live := (a.mods.filter (·.alive)).map (·.uid)
  if r.accept || !reads.isEmpty then { a with w := if reads.isEmpty then [] else r.writable.filter (live.contains ·) } else a

/-- the frames of the round that are pending on a live connection -/
def roundReads (a : A) (r : Round) : List Read :=
  r.reads.filter (fun rd => ((a.mods.filter (·.alive)).map (·.uid)).contains rd.uid)

/-- `Spec.round` up to (not including) the periodic section -/
def roundPre (cfg : Cfg) (a : A) (r : Round) (evs : List Ev) : A := (roundBody cfg a r evs).1

/-- the events the periodic section is looked for in: the last stretch of the round -/
def lastEvs (evs : List Ev) : List Ev :=
  match (splitRd evs).2.getLast? with | some s => s.2 | none => (splitRd evs).1

theorem roundBody_snd (cfg : Cfg) (a : A) (r : Round) (evs : List Ev) : (roundBody cfg a r evs).2 = lastEvs evs := by
  unfold roundBody lastEvs
  rcases splitRd evs with ⟨pre, segs⟩
  rfl

theorem round_eq (cfg : Cfg) (a : A) (r : Round) (evs : List Ev) :
    round cfg a r evs = tail cfg (roundPre cfg a r evs) (lastEvs evs) := by
  unfold round roundPre
  rw [← roundBody_snd cfg a r evs]

/-- the abstract state after clock, socket failures and the accepted connection — the writable set is still the one the
    previous poll left -/
def roundAcc (a : A) (r : Round) : A :=
  let a : A := { a with now := a.now + r.dt,
                        fail := (r.failSet.filter (·.1 ≤ a.nAccepted)).foldl (fun fl (p : Nat × Option FailMode) => setFail fl p.1 p.2) a.fail }
  if r.accept then { a with nAccepted := a.nAccepted + 1, mods := a.mods ++ [{ uid := a.nAccepted + 1 }] } else a

/-- the writable set this round's poll leaves -/
def roundW (a : A) (r : Round) : List Nat :=
  let a : A := { a with now := a.now + r.dt,
                        fail := (r.failSet.filter (·.1 ≤ a.nAccepted)).foldl (fun fl (p : Nat × Option FailMode) => setFail fl p.1 p.2) a.fail }
  let liveBefore := (a.mods.filter (·.alive)).map (·.uid)
  let reads := r.reads.filter (fun rd => liveBefore.contains rd.uid)
  let a := if r.accept then { a with nAccepted := a.nAccepted + 1, mods := a.mods ++ [{ uid := a.nAccepted + 1 }] } else a
  let live := (a.mods.filter (·.alive)).map (·.uid)
  if r.accept || !reads.isEmpty then (if reads.isEmpty then [] else r.writable.filter (live.contains ·)) else a.w

theorem roundEnv_eq (a : A) (r : Round) : roundEnv a r = { roundAcc a r with w := roundW a r } := by
  unfold roundEnv roundAcc roundW
  dsimp only
  split <;> rfl

/-- the state the stretch before the first frame read is judged in: the accept branch runs before this round's poll; when
    no frame is read the stretch also holds the periodic section (after the poll): ready = ready by both polls -/
def roundPreSt (a : A) (r : Round) (segs : List (Nat × List Ev)) : A :=
  if segs.isEmpty then { roundAcc a r with w := (roundAcc a r).w.filter ((roundW a r).contains ·) } else roundAcc a r

theorem roundPre_eq (cfg : Cfg) (a : A) (r : Round) (evs : List Ev) :
    roundPre cfg a r evs =
      (let reads := roundReads a r
       let pre := (splitRd evs).1
       let segs := (splitRd evs).2
       let aP := (roundPreSt a r segs).chk ((closes pre).isEmpty || !(wfails pre).isEmpty) "C07" "a connection was closed before any frame was read in this round"
       let aP := applyDepartures (checkDeparturesAny cfg (checkNoticeOrigin cfg aP none pre)
         (if segs.isEmpty then some ((roundAcc a r).w ++ roundW a r) else none) none pre) pre
       let a : A := { aP with w := roundW a r }
       let a := roundBody.go cfg a reads segs (reads.length + segs.length + 1)
       if segs.isEmpty then a else (pre :: (segs.dropLast.map (·.2))).foldl (noteMgrFrames cfg) a) := by
  unfold roundPre roundBody roundPreSt roundAcc roundW roundReads
  rcases splitRd evs with ⟨pre, segs⟩
  rfl

/-- `roundPre` without the checks -/
def roundCore (cfg : Cfg) (a : A) (r : Round) (evs : List Ev) : A :=
  let pre := (splitRd evs).1
  let segs := (splitRd evs).2
  let a := goCore cfg (applyDepartures (roundEnv a r) pre) (roundReads a r) segs
  if segs.isEmpty then a else (pre :: (segs.dropLast.map (·.2))).foldl (noteMgrFrames cfg) a

theorem q18_setW {a b : A} (h : Q18 a b) (w : List Nat) : Q18 ({ a with w := w } : A) ({ b with w := w } : A) := by
  obtain ⟨h1, h2⟩ := h
  refine ⟨?_, h2⟩
  have : ({ b with w := w } : A).noErr = ({ b.noErr with w := w } : A) := rfl
  rw [this, h1]; rfl

theorem applyDepartures_setW (a : A) (w : List Nat) (evs : List Ev) :
    applyDepartures ({ a with w := w } : A) evs = ({ applyDepartures a evs with w := w } : A) := by
  rw [applyDepartures_eq, applyDepartures_eq]

theorem q18_roundPre (cfg : Cfg) (a : A) (r : Round) (evs : List Ev) : Q18 (roundCore cfg a r evs) (roundPre cfg a r evs) := by
  rw [roundPre_eq]
  unfold roundCore
  dsimp only
  have hst : ({ roundPreSt a r (splitRd evs).2 with w := roundW a r } : A) = roundEnv a r := by
    rw [roundEnv_eq]; unfold roundPreSt; split <;> rfl
  have h4 : Q18 (applyDepartures (roundPreSt a r (splitRd evs).2) (splitRd evs).1)
      (applyDepartures (checkDeparturesAny cfg (checkNoticeOrigin cfg ((roundPreSt a r (splitRd evs).2).chk ((closes (splitRd evs).1).isEmpty || !(wfails (splitRd evs).1).isEmpty) "C07"
        "a connection was closed before any frame was read in this round") none (splitRd evs).1)
        (if (splitRd evs).2.isEmpty then some ((roundAcc a r).w ++ roundW a r) else none) none (splitRd evs).1) (splitRd evs).1) :=
    q18_dep (Q18.checkDeparturesAny ((q18_chk _ _ _ _ rfl).trans (q18_checkNoticeOrigin _ _ _ _)) _ _ _ _) _
  have h5 := q18_setW h4 (roundW a r)
  rw [← applyDepartures_setW, hst] at h5
  have h6 := q18_go cfg (roundReads a r) _ _ (splitRd evs).2 ((roundReads a r).length + (splitRd evs).2.length + 1) h5 (by omega)
  split
  · rename_i hc; rw [if_pos hc] at h6; exact h6
  · rename_i hc; rw [if_neg hc] at h6; exact q18_noteAll cfg _ h6

/-! ### the periodic section -/

theorem eq_of_noErr {a b : A} (h : b.noErr = a.noErr) : b = { a with errs := b.errs } := by
  cases a; cases b
  simp only [A.noErr, A.mk.injEq] at h ⊢
  obtain ⟨h1, h2, h3, h4, h5, h6, h7, h8, h9, h10, h11, h12, h13, h14, h15, _⟩ := h
  exact ⟨h1, h2, h3, h4, h5, h6, h7, h8, h9, h10, h11, h12, h13, h14, h15, trivial⟩

/-- `b` is `a` with (possibly) more errors of any kind -/
def QN (a b : A) : Prop := b.noErr = a.noErr

theorem QN.refl (a : A) : QN a a := rfl
theorem QN.trans {a b c : A} (h1 : QN a b) (h2 : QN b c) : QN a c := Eq.trans h2 h1
theorem qn_chk (a : A) (ok : Bool) (p c : String) : QN a (a.chk ok p c) := by
  unfold A.chk; split <;> rfl
theorem QN.chk {a b : A} (h : QN a b) (ok : Bool) (p c : String) : QN a (b.chk ok p c) := h.trans (qn_chk b ok p c)
theorem qn_foldl {β : Type} (f : A → β → A) (hf : ∀ a x, QN a (f a x)) : ∀ (l : List β) (a : A), QN a (l.foldl f a)
  | [], a => QN.refl a
  | x :: l, a => by simp only [List.foldl_cons]; exact (hf a x).trans (qn_foldl f hf l _)
theorem QN.foldl {β : Type} {a b : A} (h : QN a b) (f : A → β → A) (hf : ∀ a x, QN a (f a x)) (l : List β) :
    QN a (l.foldl f b) := h.trans (qn_foldl f hf l b)

macro "qn" : tactic => `(tactic| repeat' (first
  | exact QN.refl _
  | exact qn_chk _ _ _ _
  | (refine QN.chk ?_ _ _ _)
  | (refine QN.foldl ?_ _ (fun _ _ => ?_) _)
  | split))

theorem qn_checkTiming (cfg : Cfg) (a : A) (evs : List Ev) : QN a (checkTiming cfg a evs) := by
  unfold checkTiming
  qn

theorem qn_checkTraffic (cfg : Cfg) (a : A) (evs : List Ev) : QN a (checkTraffic cfg a evs) := by
  unfold checkTraffic
  dsimp only
  qn

/-- the periodic section of `Spec.round` without the checks: the resets and the clocks -/
def tailU (cfg : Cfg) (a : A) : A :=
  let a := if cfg.timing && a.now - a.tTiming > cfg.pTiming then { a with pubT := [], recvT := [], tTiming := a.now } else a
  let a := if a.now - a.tTraffic > cfg.pTraffic then { a with pubR := [], recvR := [], tTraffic := a.now, seq := a.seq + 1 } else a
  if a.now - a.tInfo > cfg.pInfo then { a with tInfo := a.now } else a

/-- the TIMING_MESSAGE clause of `Spec.tail`: the report is checked when the period has elapsed, and there must be no
    report before -/
def timingPart (cfg : Cfg) (a : A) (evs : List Ev) : A :=
  if cfg.timing && a.now - a.tTiming > cfg.pTiming then checkTiming cfg a evs
  else a.chk (!(sends evs).any (fun p => match p.2.2.body with | .timing .. => true | _ => false)) "C18"
    "TIMING_MESSAGE sent before its period elapsed"

/-- …then the tallies of the TIMING interval start afresh (`a0`: the state before the clause) -/
def timingReset (cfg : Cfg) (a0 a : A) : A :=
  if cfg.timing && a0.now - a0.tTiming > cfg.pTiming then { a with pubT := [], recvT := [], tTiming := a.now } else a

/-- the MESSAGE_TRAFFIC clause of `Spec.tail` -/
def trafficPart (cfg : Cfg) (a : A) (evs : List Ev) : A :=
  if a.now - a.tTraffic > cfg.pTraffic then checkTraffic cfg a evs else a

def trafficReset (cfg : Cfg) (a0 a : A) : A :=
  if a0.now - a0.tTraffic > cfg.pTraffic then { a with pubR := [], recvR := [], tTraffic := a.now, seq := a.seq + 1 } else a

def infoReset (cfg : Cfg) (a : A) : A := if a.now - a.tInfo > cfg.pInfo then { a with tInfo := a.now } else a

/-- `Spec.tail` in pieces -/
theorem tail_parts (cfg : Cfg) (a : A) (evs : List Ev) :
    tail cfg a evs =
      infoReset cfg (trafficReset cfg (timingReset cfg a (timingPart cfg a evs))
        (trafficPart cfg (timingReset cfg a (timingPart cfg a evs)) evs)) := rfl

theorem tailU_fields (cfg : Cfg) (a : A) :
    (tailU cfg a).now = a.now ∧ (tailU cfg a).mods = a.mods ∧ (tailU cfg a).nAccepted = a.nAccepted ∧
    (tailU cfg a).fail = a.fail ∧ (tailU cfg a).buf = a.buf ∧ (tailU cfg a).w = a.w ∧ (tailU cfg a).errs = a.errs ∧
    (tailU cfg a).tTiming = (if (cfg.timing && decide (a.now - a.tTiming > cfg.pTiming)) = true then a.now else a.tTiming) ∧
    (tailU cfg a).tTraffic = (if a.now - a.tTraffic > cfg.pTraffic then a.now else a.tTraffic) ∧
    (tailU cfg a).seq = (if a.now - a.tTraffic > cfg.pTraffic then a.seq + 1 else a.seq) ∧
    (tailU cfg a).tInfo = (if a.now - a.tInfo > cfg.pInfo then a.now else a.tInfo) ∧
    (tailU cfg a).pubT = (if (cfg.timing && decide (a.now - a.tTiming > cfg.pTiming)) = true then [] else a.pubT) ∧
    (tailU cfg a).recvT = (if (cfg.timing && decide (a.now - a.tTiming > cfg.pTiming)) = true then [] else a.recvT) ∧
    (tailU cfg a).pubR = (if a.now - a.tTraffic > cfg.pTraffic then [] else a.pubR) ∧
    (tailU cfg a).recvR = (if a.now - a.tTraffic > cfg.pTraffic then [] else a.recvR) := by
  by_cases h1 : (cfg.timing && decide (a.now - a.tTiming > cfg.pTiming)) = true <;>
  by_cases h2 : a.now - a.tTraffic > cfg.pTraffic <;>
  by_cases h3 : a.now - a.tInfo > cfg.pInfo <;>
  simp [tailU, h1, h2, h3]

theorem tailU_errs (cfg : Cfg) (a : A) (e : List (String × String)) :
    tailU cfg { a with errs := e } = { tailU cfg a with errs := e } := by
  by_cases h1 : (cfg.timing && decide (a.now - a.tTiming > cfg.pTiming)) = true <;>
  by_cases h2 : a.now - a.tTraffic > cfg.pTraffic <;>
  by_cases h3 : a.now - a.tInfo > cfg.pInfo <;>
  simp [tailU, h1, h2, h3]

theorem tailU_noErr_congr (cfg : Cfg) {a b : A} (h : b.noErr = a.noErr) : (tailU cfg b).noErr = (tailU cfg a).noErr := by
  rw [eq_of_noErr h, tailU_errs]; rfl

theorem noteAll_eq (cfg : Cfg) : ∀ (l : List (List Ev)) (a : A),
    l.foldl (noteMgrFrames cfg) a = { a with recvT := l.foldl noteRecv a.recvT, recvR := l.foldl noteRecv a.recvR }
  | [], _ => rfl
  | e :: l, a => by
    simp only [List.foldl_cons]
    rw [noteAll_eq cfg l, noteMgrFrames_eq]

theorem tail_noErr (cfg : Cfg) (a : A) (evs : List Ev) : (tail cfg a evs).noErr = (tailU cfg a).noErr := by
  unfold tail tailU
  dsimp only
  have h8 : QN a (if (cfg.timing && decide (a.now - a.tTiming > cfg.pTiming)) = true then checkTiming cfg a evs
      else a.chk (!(sends evs).any (fun p => match p.2.2.body with | .timing .. => true | _ => false)) "C18"
        "TIMING_MESSAGE sent before its period elapsed") := by
    split
    · exact qn_checkTiming cfg a evs
    · exact qn_chk _ _ _ _
  generalize (if (cfg.timing && decide (a.now - a.tTiming > cfg.pTiming)) = true then checkTiming cfg a evs
      else a.chk (!(sends evs).any (fun p => match p.2.2.body with | .timing .. => true | _ => false)) "C18"
        "TIMING_MESSAGE sent before its period elapsed") = a8 at h8
  rw [eq_of_noErr h8]
  generalize a8.errs = e8
  by_cases h1 : (cfg.timing && decide (a.now - a.tTiming > cfg.pTiming)) = true
  · simp only [h1, if_true]
    have h10 := qn_checkTraffic cfg ({ a with errs := e8, pubT := [], recvT := [], tTiming := a.now } : A) evs
    by_cases h2 : a.now - a.tTraffic > cfg.pTraffic
    · simp only [h2, if_true]
      rw [eq_of_noErr h10]
      split <;> rfl
    · simp only [h2, if_false]
      split <;> rfl
  · simp only [h1, Bool.false_eq_true, if_false]
    have h10 := qn_checkTraffic cfg ({ a with errs := e8 } : A) evs
    by_cases h2 : a.now - a.tTraffic > cfg.pTraffic
    · simp only [h2, if_true]
      rw [eq_of_noErr h10]
      split <;> rfl
    · simp only [h2, if_false]
      split <;> rfl

end Pyrtma.Mgr.Spec
