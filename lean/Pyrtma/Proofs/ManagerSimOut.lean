import Pyrtma.Proofs.Manager
/-!
# The manager model never reads its event log

`OI f`: the function `f : State → State` appends the same events to the log whatever the log holds, and the rest of its
result does not depend on the log.  Every function of the model M1 is such (`step_oi`), so running a round on a state
whose log was emptied (what the driver's `modelRun` does) yields the events the round appends to the cumulative log of
`run` (`step_reset`).
-/
namespace Pyrtma.Mgr

/-- replace the log -/
def setOut (s : State) (o : List Ev) : State := { s with out := o }

@[simp] theorem setOut_out (s : State) (o : List Ev) : (setOut s o).out = o := rfl
@[simp] theorem setOut_find (s : State) (o : List Ev) (u : Nat) : (setOut s o).find u = s.find u := rfl
@[simp] theorem setOut_setOut (s : State) (o o' : List Ev) : setOut (setOut s o) o' = setOut s o' := rfl
theorem setOut_self (s : State) : setOut s s.out = s := rfl

def OI (f : State → State) : Prop :=
  ∀ s o, ∃ ext, (f s).out = s.out ++ ext ∧ f (setOut s o) = setOut (f s) (o ++ ext)

theorem oi_id : OI (fun s => s) := fun s o => ⟨[], by simp, by simp⟩

theorem oi_bind {f g : State → State} (hf : OI f) (hg : OI g) : OI (fun s => g (f s)) := by
  intro s o
  obtain ⟨e1, h1, h1'⟩ := hf s o
  obtain ⟨e2, h2, h2'⟩ := hg (f s) (o ++ e1)
  refine ⟨e1 ++ e2, by rw [h2, h1, List.append_assoc], ?_⟩
  show g (f (setOut s o)) = _
  rw [h1', h2', List.append_assoc]

theorem oi_congr {f g : State → State} (h : ∀ s, f s = g s) (hg : OI g) : OI f := by
  have : f = g := funext h
  rw [this]; exact hg

/-- a change of fields other than the log, computed from fields other than the log -/
theorem oi_same (f : State → State) (ho : ∀ s, (f s).out = s.out) (hf : ∀ s o, f (setOut s o) = setOut (f s) o) : OI f :=
  fun s o => ⟨[], by simp [ho], by rw [hf]; simp⟩

theorem oi_emit (e : Ev) : OI (fun s => s.emit e) := fun s o => ⟨[e], rfl, rfl⟩

theorem oi_upd (u : Nat) (f : Module → Module) : OI (fun s => s.upd u f) := oi_same _ (fun _ => rfl) (fun _ _ => rfl)

theorem oi_crash (w : String) : OI (fun s => s.crash w) := by
  refine oi_same _ (fun s => ?_) (fun s o => ?_)
  · unfold State.crash; split <;> rfl
  · unfold State.crash
    have : (setOut s o).crashed = s.crashed := rfl
    simp only [this]
    cases s.crashed <;> rfl

/-- a test that does not read the log -/
theorem oi_ite (c : State → Bool) (hc : ∀ s o, c (setOut s o) = c s) {f g : State → State} (hf : OI f) (hg : OI g) :
    OI (fun s => if c s then f s else g s) := by
  intro s o
  simp only [hc]
  split
  · exact hf s o
  · exact hg s o

theorem oi_iteP (c : State → Prop) [∀ s, Decidable (c s)] (hc : ∀ s o, c (setOut s o) ↔ c s) {f g : State → State}
    (hf : OI f) (hg : OI g) : OI (fun s => if c s then f s else g s) := by
  intro s o
  by_cases h : c s
  · simp only [h, (hc s o).mpr h, if_true]; exact hf s o
  · simp only [h, mt (hc s o).mp h, if_false]; exact hg s o

/-- a look-up in the module table -/
theorem oi_find (u : Nat) {F : Module → State → State} {G : State → State} (hF : ∀ m, OI (F m)) (hG : OI G) :
    OI (fun s => match s.find u with | some m => F m s | none => G s) := by
  intro s o
  simp only [setOut_find]
  cases s.find u with
  | none => exact hG s o
  | some m => exact hF m s o

theorem oi_foldl {α : Type} (F : State → α → State) (hF : ∀ a, OI (fun s => F s a)) : ∀ (l : List α), OI (fun s => l.foldl F s)
  | [] => oi_id
  | a :: rest => oi_bind (hF a) (oi_foldl F hF rest)

/-! ## `sendRaw` and the nested operations -/

theorem sendRaw_oi (u : Nat) (f : Frame) : OI (fun s => (sendRaw s u f).1) ∧
    ∀ s o, (sendRaw (setOut s o) u f).2 = (sendRaw s u f).2 := by
  constructor
  · intro s o
    unfold sendRaw
    simp only [setOut_find]
    cases s.find u with
    | none => exact oi_crash _ s o
    | some m =>
      simp only
      split
      · exact oi_crash _ s o
      · have e1 : failOf ((setOut s o).upd u fun m => { m with msgCount := m.msgCount + 1 }) u =
            failOf (s.upd u fun m => { m with msgCount := m.msgCount + 1 }) u := rfl
        rw [e1]
        cases failOf (s.upd u fun m => { m with msgCount := m.msgCount + 1 }) u with
        | none => exact ⟨[_], rfl, rfl⟩
        | some fm =>
          cases fm with
          | hdr => exact ⟨[_], rfl, rfl⟩
          | pay => exact ⟨[.partialW u, .wfail u], by simp [State.emit, State.upd], by simp [State.emit, State.upd, setOut]⟩
  · intro s o
    unfold sendRaw
    simp only [setOut_find]
    cases s.find u with
    | none => rfl
    | some m =>
      simp only
      split
      · rfl
      · have e1 : failOf ((setOut s o).upd u fun m => { m with msgCount := m.msgCount + 1 }) u =
            failOf (s.upd u fun m => { m with msgCount := m.msgCount + 1 }) u := rfl
        rw [e1]
        cases failOf (s.upd u fun m => { m with msgCount := m.msgCount + 1 }) u with
        | none => rfl
        | some fm => cases fm <;> rfl

theorem removePrep_oi (u : Nat) (m : Module) : OI (fun s => removePrep s u m) := by
  intro s o
  unfold removePrep
  dsimp only
  cases m.closed with
  | true => simp only [if_true]; exact ⟨[], by simp [State.upd], by rw [List.append_nil]; rfl⟩
  | false => simp only [Bool.false_eq_true, if_false]; exact ⟨[.close u], by simp [State.upd, State.emit], rfl⟩

/-- the nested-forward contract -/
def OIfwd (fwd : Fwd) : Prop := ∀ g, OI (fun s => fwd s g)

section nested
variable {cfg : Cfg} {fwd : Fwd} (hf : OIfwd fwd)
include hf

theorem logAt_oi (lvl : Nat) : OI (fun s => logAt cfg fwd lvl s) := by
  unfold logAt
  by_cases h : lvl ≥ cfg.logLevel
  · simp only [h, if_true]; exact hf _
  · simp only [h, if_false]; exact oi_id

theorem failedMsg_oi (d : Int) (f : Frame) : OI (fun s => failedMsg cfg fwd s d f) := by
  unfold failedMsg
  cases inGuard cfg f.mtype with
  | true => simp only [if_true]; exact oi_id
  | false => simp only [Bool.false_eq_true, if_false]; exact hf _

theorem removeModule_oi (u : Nat) : OI (fun s => removeModule cfg fwd s u) := by
  refine oi_congr (g := fun s => match s.find u with
    | some m => (fun s2 : State => { s2 with mods := s2.mods.filter (·.uid != u) })
        (fwd (logAt cfg fwd 10 (removePrep s u m)) (closedFrame cfg { m with connected := false }))
    | none => s) (fun s => ?_) ?_
  · unfold removeModule; cases s.find u <;> rfl
  · exact oi_find u (fun m => oi_bind (oi_bind (oi_bind (removePrep_oi u m) (logAt_oi (cfg := cfg) hf 10)) (hf _))
      (oi_same (fun s2 : State => { s2 with mods := s2.mods.filter (·.uid != u) }) (fun _ => rfl) (fun _ _ => rfl))) oi_id

theorem trySend_core (u : Nat) (f : Frame) (mid : Int) :
    OI (fun s => if (sendRaw s u f).2 = true then (sendRaw s u f).1.upd u (fun m => { m with drops := 0 })
      else if (sendRaw s u f).1.crashed.isSome = true then (sendRaw s u f).1
      else failedMsg cfg fwd (logAt cfg fwd 40 (removeModule cfg fwd (sendRaw s u f).1 u)) mid f) := by
  intro s o
  obtain ⟨e1, h1, h1'⟩ := (sendRaw_oi u f).1 s o
  have hb := (sendRaw_oi u f).2 s o
  simp only at h1 h1'
  show ∃ ext, _ ∧ _
  dsimp only
  rw [hb, h1']
  generalize sendRaw s u f = r at h1
  obtain ⟨s1, okb⟩ := r
  simp only at h1 ⊢
  cases okb with
  | true =>
    simp only [if_true]
    exact ⟨e1, h1, rfl⟩
  | false =>
    simp only [Bool.false_eq_true, if_false]
    have hc : (setOut s1 (o ++ e1)).crashed = s1.crashed := rfl
    rw [hc]
    split
    · exact ⟨e1, h1, rfl⟩
    · have hrest := oi_bind (oi_bind (removeModule_oi (cfg := cfg) hf u) (logAt_oi (cfg := cfg) hf 40)) (failedMsg_oi (cfg := cfg) hf mid f)
      obtain ⟨e2, h2, h2'⟩ := hrest s1 (o ++ e1)
      dsimp only at h2 h2'
      refine ⟨e1 ++ e2, by rw [h2, h1, List.append_assoc], ?_⟩
      rw [h2', List.append_assoc]

theorem trySend_oi (u : Nat) (f : Frame) : OI (fun s => trySend cfg fwd s u f) := by
  intro s o
  unfold trySend
  dsimp only
  simp only [setOut_find]
  cases s.find u with
  | none => exact trySend_core hf u f 0 s o
  | some m => exact trySend_core hf u f m.modId s o

theorem deliverOne_oi (f : Frame) (u : Nat) : OI (fun s => deliverOne cfg fwd f s u) := by
  intro s o
  unfold deliverOne
  simp only [setOut_find]
  cases s.find u with
  | none => exact oi_id s o
  | some m =>
    simp only
    have hw : (setOut s o).wlist = s.wlist := rfl
    rw [hw]
    split
    · split
      · exact trySend_oi hf u f s o
      · exact oi_id s o
    · split
      · exact trySend_oi hf u f s o
      · exact oi_bind (oi_upd u _) (failedMsg_oi (cfg := cfg) hf m.modId f) s o

theorem deliver_oi (f : Frame) : ∀ (rs : List Nat), OI (fun s => deliver cfg fwd f rs s)
  | [] => oi_id
  | u :: rest => by
    refine oi_congr (g := fun s => deliver cfg fwd f rest (deliverOne cfg fwd f s u)) (fun s => rfl) ?_
    exact oi_bind (deliverOne_oi hf f u) (deliver_oi f rest)

end nested

theorem countMsg_oi (cfg : Cfg) (t : Int) : OI (fun s => countMsg cfg s t) := by
  refine oi_same _ (fun s => ?_) (fun s o => ?_)
  · unfold countMsg; split <;> rfl
  · unfold countMsg
    show (if s.inTraffic then _ else _) = _
    split <;> rfl

theorem forward_oi (cfg : Cfg) : ∀ fuel, OIfwd (forward cfg fuel)
  | 0 => fun g => by
    refine oi_congr (g := fun s => s.crash "out of fuel") (fun s => by unfold forward; rfl) (oi_crash _)
  | fuel + 1 => fun g => by
    have ih := forward_oi cfg fuel
    intro s o
    show ∃ ext, (forward cfg (fuel + 1) s g).out = s.out ++ ext ∧
      forward cfg (fuel + 1) (setOut s o) g = setOut (forward cfg (fuel + 1) s g) (o ++ ext)
    unfold forward
    have hc : (setOut s o).crashed = s.crashed := rfl
    rw [hc]
    split
    · exact oi_id s o
    · dsimp only
      obtain ⟨e0, h0, h0'⟩ := countMsg_oi cfg g.mtype s o
      dsimp only at h0 h0'
      rw [h0']
      have e0nil : e0 = [] := by
        have : (countMsg cfg s g.mtype).out = s.out := countMsg_out cfg s g.mtype
        rw [this] at h0
        exact (List.append_right_eq_self.mp h0.symm)
      subst e0nil
      rw [List.append_nil]
      have hout : (countMsg cfg s g.mtype).out = s.out := countMsg_out cfg s g.mtype
      split
      · obtain ⟨e, h, h'⟩ := logAt_oi (cfg := cfg) ih 40 (countMsg cfg s g.mtype) o
        dsimp only at h h'
        exact ⟨e, by rw [h, hout], h'⟩
      · split
        · obtain ⟨e, h, h'⟩ := logAt_oi (cfg := cfg) ih 40 (countMsg cfg s g.mtype) o
          dsimp only at h h'
          exact ⟨e, by rw [h, hout], h'⟩
        · have hrec : recipients cfg (setOut (countMsg cfg s g.mtype) o) g.mtype =
              recipients cfg (countMsg cfg s g.mtype) g.mtype := rfl
          rw [hrec]
          obtain ⟨e, h, h'⟩ := deliver_oi (cfg := cfg) ih g (recipients cfg (countMsg cfg s g.mtype) g.mtype)
            (countMsg cfg s g.mtype) o
          dsimp only at h h'
          exact ⟨e, by rw [h, hout], h'⟩

theorem fwdTop_oi (cfg : Cfg) : OIfwd (fwdTop cfg) := by
  intro g s o
  unfold fwdTop
  dsimp only
  have : fuelOf cfg (setOut s o) = fuelOf cfg s := rfl
  rw [this]
  exact forward_oi cfg _ g s o

/-! ## the top-level operations -/

/-- a parameter computed from fields other than the log -/
theorem oi_param {α : Type} (p : State → α) (hp : ∀ s o, p (setOut s o) = p s) {F : α → State → State}
    (hF : ∀ a, OI (F a)) : OI (fun s => F (p s) s) := by
  intro s o
  show ∃ ext, (F (p s) s).out = s.out ++ ext ∧ F (p (setOut s o)) (setOut s o) = setOut (F (p s) s) (o ++ ext)
  rw [hp]
  exact hF (p s) s o

theorem logTop_oi (cfg : Cfg) (lvl : Nat) : OI (fun s => logAt cfg (fwdTop cfg) lvl s) := logAt_oi (fwdTop_oi cfg) lvl
theorem removeTop_oi (cfg : Cfg) (u : Nat) : OI (fun s => removeModule cfg (fwdTop cfg) s u) :=
  removeModule_oi (fwdTop_oi cfg) u

theorem toLoggers_oi (cfg : Cfg) (f : Frame) : ∀ (ls : List Nat), OI (fun s => toLoggers cfg f ls s)
  | [] => oi_id
  | u :: rest => by
    refine oi_congr (g := fun s => toLoggers cfg f rest (loggerOne cfg f s u)) (fun s => rfl) ?_
    refine oi_bind ?_ (toLoggers_oi cfg f rest)
    refine oi_congr (g := fun s => match s.find u with
      | some _ => trySend cfg (fwdTop cfg) s u f
      | none => s) (fun s => by unfold loggerOne; cases s.find u <;> rfl) ?_
    exact oi_find u (fun _ => trySend_oi (fwdTop_oi cfg) u f) oi_id

theorem sendAck_oi (cfg : Cfg) (u : Nat) : OI (fun s => sendAck cfg s u) := by
  refine oi_congr (g := fun s => match s.find u with
    | some m => (fun s1 : State => toLoggers cfg (ackFrame cfg m.modId) (cfg.order s1.loggers) s1)
        (trySend cfg (fwdTop cfg) s u (ackFrame cfg m.modId))
    | none => s) (fun s => by unfold sendAck; cases s.find u <;> rfl) ?_
  exact oi_find u (fun m => oi_bind (g := fun s1 : State => toLoggers cfg (ackFrame cfg m.modId) (cfg.order s1.loggers) s1)
    (trySend_oi (fwdTop_oi cfg) u _)
    (oi_param (fun s1 => cfg.order s1.loggers) (fun _ _ => rfl) (fun ls => toLoggers_oi cfg _ ls))) oi_id

theorem infoOf_oi (cfg : Cfg) (m : Module) : OI (fun s => infoOf cfg s m) :=
  oi_bind (logTop_oi cfg 10) (fwdTop_oi cfg _)

theorem sendInfo_oi (cfg : Cfg) (u : Nat) : OI (fun s => sendInfo cfg s u) := by
  refine oi_congr (g := fun s => match s.find u with
    | some m => infoOf cfg s m
    | none => s) (fun s => by unfold sendInfo; cases s.find u <;> rfl) ?_
  exact oi_find u (fun m => infoOf_oi cfg m) oi_id

theorem clashLoop_oi (cfg : Cfg) (me : Module) : ∀ (os : List Module),
    OI (fun s => (clashLoop cfg me os s).1) ∧ ∀ s o, (clashLoop cfg me os (setOut s o)).2 = (clashLoop cfg me os s).2
  | [] => ⟨oi_id, fun _ _ => rfl⟩
  | x :: rest => by
    obtain ⟨ih1, ih2⟩ := clashLoop_oi cfg me rest
    have hstep : OI (fun s => if me.name.isEmpty then s else logAt cfg (fwdTop cfg) 10 s) := by
      cases me.name.isEmpty with
      | true => simp only [if_true]; exact oi_id
      | false => simp only [Bool.false_eq_true, if_false]; exact logTop_oi cfg 10
    constructor
    · intro s o
      unfold clashLoop
      cases clash me x with
      | true => simp only [if_true]; exact oi_id s o
      | false =>
        simp only [Bool.false_eq_true, if_false]
        exact oi_bind hstep ih1 s o
    · intro s o
      unfold clashLoop
      cases clash me x with
      | true => rfl
      | false =>
        simp only [Bool.false_eq_true, if_false]
        obtain ⟨e, _, h'⟩ := hstep s o
        dsimp only at h'
        rw [h', ih2]

theorem setSubs_oi (i : State → List (Int × List Nat)) (hi : ∀ s o, i (setOut s o) = i s) (u : Nat) (l : List Int) :
    OI (fun s => ({ s with idx := i s } : State).setSubs u l) :=
  oi_same _ (fun _ => rfl) (fun s o => by
    show (({ (setOut s o) with idx := i (setOut s o) } : State).setSubs u l) = _
    rw [hi]; rfl)

theorem addSubCore_oi (cfg : Cfg) (u : Nat) (t : Int) : OI (fun s => addSubCore cfg s u t) := by
  refine oi_same _ (fun s => ?_) (fun s o => ?_)
  · unfold addSubCore; dsimp only; split
    · rfl
    · split <;> rfl
  · unfold addSubCore
    have hl : lookupMod (setOut s o) u = lookupMod s u := rfl
    simp only [hl]
    split
    · rfl
    · split <;> rfl

theorem removeSubCore_oi (cfg : Cfg) (u : Nat) (t : Int) : OI (fun s => removeSubCore cfg s u t) := by
  refine oi_same _ (fun s => ?_) (fun s o => ?_)
  · unfold removeSubCore; dsimp only; split
    · rfl
    · split <;> rfl
  · unfold removeSubCore
    have hl : lookupMod (setOut s o) u = lookupMod s u := rfl
    simp only [hl]
    split
    · rfl
    · split <;> rfl

theorem addSub_oi (cfg : Cfg) (u : Nat) (t : Int) : OI (fun s => addSub cfg s u t) :=
  oi_congr (g := fun s => if subLogs cfg (lookupMod s u) t then logAt cfg (fwdTop cfg) 10 (addSubCore cfg s u t)
      else addSubCore cfg s u t) (fun s => by unfold addSub; rfl)
    (oi_ite (fun s => subLogs cfg (lookupMod s u) t) (fun _ _ => rfl)
      (oi_bind (addSubCore_oi cfg u t) (logTop_oi cfg 10)) (addSubCore_oi cfg u t))

theorem removeSub_oi (cfg : Cfg) (u : Nat) (t : Int) : OI (fun s => removeSub cfg s u t) :=
  oi_congr (g := fun s => if subLogs cfg (lookupMod s u) t then logAt cfg (fwdTop cfg) 10 (removeSubCore cfg s u t)
      else removeSubCore cfg s u t) (fun s => by unfold removeSub; rfl)
    (oi_ite (fun s => subLogs cfg (lookupMod s u) t) (fun _ _ => rfl)
      (oi_bind (removeSubCore_oi cfg u t) (logTop_oi cfg 10)) (removeSubCore_oi cfg u t))

theorem refuse_oi (cfg : Cfg) (u : Nat) : OI (fun s => removeModule cfg (fwdTop cfg) (logAt cfg (fwdTop cfg) 40 s) u) :=
  oi_bind (logTop_oi cfg 40) (removeTop_oi cfg u)

theorem connect_oi (cfg : Cfg) (u : Nat) (h : Hdr) : OI (fun s => (connectModule cfg s u h).1) ∧
    ∀ s o, (connectModule cfg (setOut s o) u h).2 = (connectModule cfg s u h).2 := by
  have key : ∀ s o, ∃ ext, (connectModule cfg s u h).1.out = s.out ++ ext ∧
      connectModule cfg (setOut s o) u h = (setOut (connectModule cfg s u h).1 (o ++ ext), (connectModule cfg s u h).2) := by
    intro s o
    unfold connectModule
    have hl : lookupMod (setOut s o) u = lookupMod s u := rfl
    have hb : (setOut s o).buf = s.buf := rfl
    simp only [hl, hb]
    split
    · exact ⟨[], by simp, by simp⟩
    · split
      · -- the name does not decode
        obtain ⟨e, h1, h2⟩ := oi_bind (oi_upd u (setReq cfg s.buf h)) (refuse_oi cfg u) s o
        dsimp only at h1 h2
        exact ⟨e, h1, by rw [← h2]⟩
      · rename_i nm _
        split
        · split
          · obtain ⟨e, h1, h2⟩ := oi_bind (oi_upd u (setAll cfg s.buf h nm)) (refuse_oi cfg u) s o
            dsimp only at h1 h2
            exact ⟨e, h1, by rw [← h2]⟩
          · -- the clash loop
            obtain ⟨c1, c2⟩ := clashLoop_oi cfg (setAll cfg s.buf h nm (lookupMod s u))
              ((s.upd u (setAll cfg s.buf h nm)).mods.filter (·.uid != u))
            obtain ⟨e1, k1, k2⟩ := c1 (s.upd u (setAll cfg s.buf h nm)) o
            have k3 := c2 (s.upd u (setAll cfg s.buf h nm)) o
            dsimp only at k1 k2
            have hpair : clashLoop cfg (setAll cfg s.buf h nm (lookupMod s u))
                (((setOut s o).upd u (setAll cfg s.buf h nm)).mods.filter (·.uid != u))
                ((setOut s o).upd u (setAll cfg s.buf h nm)) =
                (setOut (clashLoop cfg (setAll cfg s.buf h nm (lookupMod s u))
                  ((s.upd u (setAll cfg s.buf h nm)).mods.filter (·.uid != u)) (s.upd u (setAll cfg s.buf h nm))).1 (o ++ e1),
                 (clashLoop cfg (setAll cfg s.buf h nm (lookupMod s u))
                  ((s.upd u (setAll cfg s.buf h nm)).mods.filter (·.uid != u)) (s.upd u (setAll cfg s.buf h nm))).2) :=
              Prod.ext k2 k3
            rw [hpair]
            generalize clashLoop cfg (setAll cfg s.buf h nm (lookupMod s u))
              ((s.upd u (setAll cfg s.buf h nm)).mods.filter (·.uid != u)) (s.upd u (setAll cfg s.buf h nm)) = r at k1
            obtain ⟨s2, cl⟩ := r
            dsimp only at k1 ⊢
            have k1' : s2.out = s.out ++ e1 := k1
            split
            · obtain ⟨e, h1, h2⟩ := refuse_oi cfg u s2 (o ++ e1)
              dsimp only at h1 h2
              exact ⟨e1 ++ e, by rw [h1, k1', List.append_assoc], by rw [h2, List.append_assoc]⟩
            · exact ⟨e1, k1', rfl⟩
        · have ha : assignId cfg ((setOut s o).upd u (setAll cfg s.buf h nm)) =
              assignId cfg (s.upd u (setAll cfg s.buf h nm)) := rfl
          rw [ha]
          cases assignId cfg (s.upd u (setAll cfg s.buf h nm)) with
          | none =>
            obtain ⟨e, h1, h2⟩ := oi_bind (oi_upd u (setAll cfg s.buf h nm)) (refuse_oi cfg u) s o
            dsimp only at h1 h2
            exact ⟨e, h1, by dsimp only; rw [← h2]⟩
          | some p =>
            obtain ⟨id, off⟩ := p
            exact ⟨[], by simp [State.upd], by simp [State.upd, setOut]⟩
  constructor
  · intro s o
    obtain ⟨e, h1, h2⟩ := key s o
    exact ⟨e, h1, by show (connectModule cfg (setOut s o) u h).1 = _; rw [h2]⟩
  · intro s o
    obtain ⟨e, _, h2⟩ := key s o
    rw [h2]

theorem process_oi (cfg : Cfg) (u : Nat) (h : Hdr) : OI (fun s => processMessage cfg s u h) := by
  intro s o
  show ∃ ext, (processMessage cfg s u h).out = _ ∧ processMessage cfg (setOut s o) u h = _
  unfold processMessage
  have hb : (setOut s o).buf = s.buf := rfl
  have hcr : connectRecord cfg (setOut s o) u h = connectRecord cfg s u h := rfl
  simp only [hb, hcr]
  split
  · -- CONNECT
    obtain ⟨c1, c2⟩ := connect_oi cfg u h
    obtain ⟨e1, k1, k2⟩ := c1 s o
    have k3 := c2 s o
    dsimp only at k1 k2
    have hpair : connectModule cfg (setOut s o) u h =
        (setOut (connectModule cfg s u h).1 (o ++ e1), (connectModule cfg s u h).2) := Prod.ext k2 k3
    rw [hpair]
    generalize connectModule cfg s u h = r at k1
    obtain ⟨s1, okb⟩ := r
    dsimp only at k1 ⊢
    have k1' : s1.out = s.out ++ e1 := k1
    split
    · obtain ⟨e, h1, h2⟩ := oi_bind (oi_bind (sendAck_oi cfg u) (infoOf_oi cfg (connectRecord cfg s u h)))
        (logTop_oi cfg 20) s1 (o ++ e1)
      dsimp only at h1 h2
      exact ⟨e1 ++ e, by rw [h1, k1', List.append_assoc], by rw [h2, List.append_assoc]⟩
    · exact ⟨e1, k1', rfl⟩
  · split
    · exact oi_bind (removeTop_oi cfg u) (logTop_oi cfg 20) s o
    · split
      · exact oi_bind (addSub_oi cfg u (bufI32 s.buf 0)) (sendAck_oi cfg u) s o
      · split
        · exact oi_bind (removeSub_oi cfg u (bufI32 s.buf 0)) (sendAck_oi cfg u) s o
        · split
          · split
            · exact oi_bind (logTop_oi cfg 40) (removeTop_oi cfg u) s o
            · rename_i nm _
              have hl : lookupMod ((setOut s o).upd u fun m => { m with name := nm }) u =
                  lookupMod (s.upd u fun m => { m with name := nm }) u := rfl
              rw [hl]
              exact oi_bind (oi_bind (oi_upd u _) (logTop_oi cfg 20)) (infoOf_oi cfg _) s o
          · split
            · exact oi_bind (oi_upd u _) (sendInfo_oi cfg u) s o
            · exact oi_bind (logTop_oi cfg 10) (fwdTop_oi cfg _) s o

theorem readOne_oi (cfg : Cfg) (r : Read) : OI (fun s => readOne cfg s r) := by
  intro s o
  show ∃ ext, (readOne cfg s r).out = _ ∧ readOne cfg (setOut s o) r = _
  unfold readOne
  have hc : (setOut s o).crashed = s.crashed := rfl
  have hb : ∀ e, ((setOut s o).emit e).buf = s.buf := fun _ => rfl
  simp only [hc, setOut_find]
  split
  · exact oi_id s o
  · cases s.find r.uid with
    | none => exact oi_id s o
    | some m =>
      dsimp only
      have rm : ∀ lvl, OI (fun s => logAt cfg (fwdTop cfg) lvl (removeModule cfg (fwdTop cfg) (s.emit (.rd r.uid)) r.uid)) :=
        fun lvl => oi_bind (oi_bind (oi_emit _) (removeTop_oi cfg r.uid)) (logTop_oi cfg lvl)
      have sb : ∀ b : List Nat, OI (fun s => ({ (s.emit (.rd r.uid)) with buf := b } : State)) := fun b =>
        oi_bind (oi_emit _) (oi_same (fun x : State => ({ x with buf := b } : State)) (fun _ => rfl) (fun _ _ => rfl))
      split
      · exact rm 40 s o
      · split
        · exact rm 30 s o
        · split
          · exact rm 30 s o
          · split
            · split
              · exact rm 40 s o
              · split
                · exact oi_bind (oi_bind (oi_param (fun s => bufWrite s.buf r.pay r.avail) (fun _ _ => rfl) sb)
                    (removeTop_oi cfg r.uid)) (logTop_oi cfg 30) s o
                · exact oi_bind (oi_param (fun s => bufWrite s.buf r.pay r.h.nbytes.toNat) (fun _ _ => rfl) sb)
                    (process_oi cfg r.uid r.h) s o
            · exact oi_bind (oi_emit _) (process_oi cfg r.uid r.h) s o

theorem readAll_oi (cfg : Cfg) : ∀ (rs : List Read), OI (fun s => readAll cfg rs s)
  | [] => oi_id
  | r :: rest => by
    refine oi_congr (g := fun s => readAll cfg rest (readOne cfg s r)) (fun s => rfl) ?_
    exact oi_bind (readOne_oi cfg r) (readAll_oi cfg rest)

/-! ## the periodic section and one round -/

theorem OI.congr {f g : State → State} (hg : OI g) (h : ∀ s, f s = g s) : OI f := oi_congr h hg

/-- an update of fields other than the log by values that do not depend on the log -/
theorem oi_set (k : State → State) (ho : ∀ s, (k s).out = s.out) (hk : ∀ s o, k (setOut s o) = setOut (k s) o) : OI k :=
  oi_same k ho hk

theorem sendTiming_oi (cfg : Cfg) : OI (fun s => sendTiming cfg s) := by
  have hA : ∀ fr : Frame, OI (fun s : State => fwdTop cfg ({ s with counts := [], inTraffic := true } : State) fr) := fun fr =>
    oi_bind (f := fun s : State => ({ s with counts := [], inTraffic := true } : State)) (g := fun s => fwdTop cfg s fr)
      (oi_set _ (fun _ => rfl) (fun _ _ => rfl)) (fwdTop_oi cfg fr)
  have hB : OI (fun s : State => fwdTop cfg ({ s with counts := [], inTraffic := true } : State)
      (mgrFrame cfg.mtTiming 0 cfg.szTiming (Body.timing (timingEntries cfg s.counts) (pidEntries s.mods)))) :=
    oi_param (fun s => mgrFrame cfg.mtTiming 0 cfg.szTiming (Body.timing (timingEntries cfg s.counts) (pidEntries s.mods)))
      (fun _ _ => rfl) (F := fun fr s => fwdTop cfg ({ s with counts := [], inTraffic := true } : State) fr) hA
  have hC : OI (fun s2 : State => ({ s2 with inTraffic := false, hist := Mark.timingTick :: s2.hist } : State)) :=
    oi_set _ (fun _ => rfl) (fun _ _ => rfl)
  exact (oi_bind hB hC).congr (fun s => rfl)

theorem foldl_fwd_oi (cfg : Cfg) (fs : List Frame) : OI (fun s => fs.foldl (fwdTop cfg) s) :=
  oi_foldl (fwdTop cfg) (fun g => fwdTop_oi cfg g) fs

theorem sendTraffic_oi (cfg : Cfg) : OI (fun s => sendTraffic cfg s) := by
  have hA : OI (fun s : State => logAt cfg (fwdTop cfg) 10 ({ s with inTraffic := true } : State)) :=
    oi_bind (f := fun s : State => ({ s with inTraffic := true } : State)) (g := fun s => logAt cfg (fwdTop cfg) 10 s)
      (oi_set _ (fun _ => rfl) (fun _ _ => rfl)) (logTop_oi cfg 10)
  have hB : OI (fun s2 : State => (trafficFrames cfg s2.trafficSeq s2.traffic).foldl (fwdTop cfg) s2) :=
    oi_param (fun s2 => trafficFrames cfg s2.trafficSeq s2.traffic) (fun _ _ => rfl)
      (F := fun fs s2 => fs.foldl (fwdTop cfg) s2) (fun fs => foldl_fwd_oi cfg fs)
  have hC : OI (fun s3 : State => ({ s3 with inTraffic := false, traffic := [], tTraffic := s3.now, trafficSeq := s3.trafficSeq + 1, hist := Mark.trafficTick :: s3.hist } : State)) :=
    oi_set _ (fun _ => rfl) (fun _ _ => rfl)
  exact (oi_bind (oi_bind hA hB) hC).congr (fun s => rfl)

theorem infoAll_oi (cfg : Cfg) : ∀ (ms : List Module), OI (fun s => infoAll cfg ms s)
  | [] => oi_id
  | m :: rest => by
    have hA : OI (fun s : State => infoOf cfg s ((s.find m.uid).getD m)) :=
      oi_param (fun s => (s.find m.uid).getD m) (fun _ _ => rfl) (F := fun x s => infoOf cfg s x) (fun x => infoOf_oi cfg x)
    exact (oi_bind hA (infoAll_oi cfg rest)).congr (fun s => rfl)

theorem sendActive_oi (cfg : Cfg) : OI (fun s => sendActive cfg s) := by
  -- everything after the log line, with the snapshot `snap` as a parameter
  have hRest : ∀ snap : List Module, OI (fun s1 : State =>
      ({ (fwdTop cfg (infoAll cfg snap s1) (mgrFrame cfg.mtActive 0 cfg.szActive
          (Body.active (((infoAll cfg snap s1).mods.length : Int) - 1) (trimZeros ((snap.take cfg.maxActive).map (·.modId)))
            (trimZeros ((snap.take cfg.maxActive).map (·.pid)))))) with
         tInfo := (fwdTop cfg (infoAll cfg snap s1) (mgrFrame cfg.mtActive 0 cfg.szActive
          (Body.active (((infoAll cfg snap s1).mods.length : Int) - 1) (trimZeros ((snap.take cfg.maxActive).map (·.modId)))
            (trimZeros ((snap.take cfg.maxActive).map (·.pid)))))).now } : State)) := by
    intro snap
    have hF : OI (fun s3 : State => fwdTop cfg s3 (mgrFrame cfg.mtActive 0 cfg.szActive
        (Body.active ((s3.mods.length : Int) - 1) (trimZeros ((snap.take cfg.maxActive).map (·.modId)))
          (trimZeros ((snap.take cfg.maxActive).map (·.pid)))))) :=
      oi_param (fun s3 => mgrFrame cfg.mtActive 0 cfg.szActive
        (Body.active ((s3.mods.length : Int) - 1) (trimZeros ((snap.take cfg.maxActive).map (·.modId)))
          (trimZeros ((snap.take cfg.maxActive).map (·.pid))))) (fun _ _ => rfl)
        (F := fun fr s3 => fwdTop cfg s3 fr) (fun fr => fwdTop_oi cfg fr)
    have hT : OI (fun s2 : State => ({ s2 with tInfo := s2.now } : State)) := oi_set _ (fun _ => rfl) (fun _ _ => rfl)
    exact (oi_bind (oi_bind (infoAll_oi cfg snap) hF) hT).congr (fun s => rfl)
  have hSnap := oi_param (fun s1 : State => s1.mods) (fun _ _ => rfl) (F := fun snap s1 =>
      ({ (fwdTop cfg (infoAll cfg snap s1) (mgrFrame cfg.mtActive 0 cfg.szActive
          (Body.active (((infoAll cfg snap s1).mods.length : Int) - 1) (trimZeros ((snap.take cfg.maxActive).map (·.modId)))
            (trimZeros ((snap.take cfg.maxActive).map (·.pid)))))) with
         tInfo := (fwdTop cfg (infoAll cfg snap s1) (mgrFrame cfg.mtActive 0 cfg.szActive
          (Body.active (((infoAll cfg snap s1).mods.length : Int) - 1) (trimZeros ((snap.take cfg.maxActive).map (·.modId)))
            (trimZeros ((snap.take cfg.maxActive).map (·.pid)))))).now } : State)) hRest
  exact (oi_bind (logTop_oi cfg 10) hSnap).congr (fun s => rfl)

theorem ticks_oi (cfg : Cfg) : OI (fun s => ticks cfg s) := by
  have hT : OI (fun s : State => if cfg.timing && decide (s.now - s.tTiming > cfg.pTiming) then
      ({ sendTiming cfg s with tTiming := s.now } : State) else s) := by
    refine oi_ite (fun s => cfg.timing && decide (s.now - s.tTiming > cfg.pTiming)) (fun _ _ => rfl) ?_ oi_id
    have h1 : ∀ n : Nat, OI (fun s : State => ({ sendTiming cfg s with tTiming := n } : State)) := fun n =>
      (oi_bind (sendTiming_oi cfg) (g := fun x : State => ({ x with tTiming := n } : State))
        (oi_set _ (fun _ => rfl) (fun _ _ => rfl))).congr (fun s => rfl)
    exact oi_param (fun s => s.now) (fun _ _ => rfl) (F := fun n s => ({ sendTiming cfg s with tTiming := n } : State)) h1
  have hR : OI (fun s1 : State => if s1.now - s1.tTraffic > cfg.pTraffic then sendTraffic cfg s1 else s1) :=
    oi_iteP (fun s1 => s1.now - s1.tTraffic > cfg.pTraffic) (fun _ _ => Iff.rfl) (sendTraffic_oi cfg) oi_id
  have hI : OI (fun s2 : State => if s2.now - s2.tInfo > cfg.pInfo then sendActive cfg s2 else s2) :=
    oi_iteP (fun s2 => s2.now - s2.tInfo > cfg.pInfo) (fun _ _ => Iff.rfl) (sendActive_oi cfg) oi_id
  exact (oi_bind (oi_bind hT hR) hI).congr (fun s => rfl)

theorem envStep_oi (r : Round) : OI (fun s => envStep s r) := oi_set _ (fun _ => rfl) (fun _ _ => rfl)

theorem accept_oi (cfg : Cfg) : OI (fun s => acceptStep cfg s) := by
  have hK : OI (fun s1 : State =>
      ({ s1 with nextUid := s1.nextUid + 1, mods := s1.mods ++ [{ uid := s1.nextUid + 1 }] } : State)) :=
    oi_set _ (fun _ => rfl) (fun _ _ => rfl)
  exact (oi_bind (logTop_oi cfg 20) hK).congr (fun s => rfl)

theorem ioStep_oi (cfg : Cfg) (acc : Bool) (w : List Nat) (reads : List Read) : OI (fun s => ioStep cfg s acc w reads) := by
  have hA : OI (fun s : State => if acc then acceptStep cfg s else s) := by
    cases acc with
    | true => simp only [if_true]; exact accept_oi cfg
    | false => simp only [Bool.false_eq_true, if_false]; exact oi_id
  have hW : OI (fun s2 : State => ({ s2 with wlist := if reads.isEmpty then [] else w.filter (fun x => (s2.mods.map (·.uid)).contains x) } : State)) :=
    oi_set _ (fun _ => rfl) (fun _ _ => rfl)
  have hAll := oi_bind (oi_bind hA hW) (readAll_oi cfg reads)
  cases hc : (acc || !reads.isEmpty) with
  | false => exact oi_id.congr (fun s => by unfold ioStep; simp only [hc, Bool.false_eq_true, if_false])
  | true => exact hAll.congr (fun s => by unfold ioStep; simp only [hc, if_true])

theorem step_oi (cfg : Cfg) (r : Round) : OI (fun s => step cfg s r) := by
  have hmain : ∀ reads, OI (fun s => ticks cfg (ioStep cfg (envStep s r) r.accept r.writable reads)) := fun reads =>
    oi_bind (oi_bind (envStep_oi r) (ioStep_oi cfg r.accept r.writable reads)) (ticks_oi cfg)
  have hf : ∀ (s : State) (o : List Ev) (u : Nat), (envStep (setOut s o) r).find u = (envStep s r).find u := fun _ _ _ => rfl
  intro s o
  show ∃ ext, (step cfg s r).out = s.out ++ ext ∧ step cfg (setOut s o) r = setOut (step cfg s r) (o ++ ext)
  have hc : (setOut s o).crashed = s.crashed := rfl
  cases hcr : s.crashed.isSome with
  | true =>
    have e1 : step cfg s r = s := by unfold step; simp only [hcr, if_true]
    have e2 : step cfg (setOut s o) r = setOut s o := by unfold step; simp only [hc, hcr, if_true]
    rw [e1, e2]
    exact ⟨[], by simp, by simp⟩
  | false =>
    have e1 : step cfg s r = ticks cfg (ioStep cfg (envStep s r) r.accept r.writable
        (r.reads.filter (fun rd => ((envStep s r).find rd.uid).isSome))) := by
      unfold step; simp only [hcr, Bool.false_eq_true, if_false]
    have e2 : step cfg (setOut s o) r = ticks cfg (ioStep cfg (envStep (setOut s o) r) r.accept r.writable
        (r.reads.filter (fun rd => ((envStep s r).find rd.uid).isSome))) := by
      unfold step; simp only [hc, hcr, Bool.false_eq_true, if_false, hf]
    rw [e1, e2]
    exact hmain _ s o

/-- **A round appends the same events whatever the log holds**: running it on the state with the log emptied yields exactly
    what it appends to the cumulative log -/
theorem step_reset (cfg : Cfg) (s : State) (r : Round) :
    step cfg { s with out := [] } r = setOut (step cfg s r) ((step cfg s r).out.drop s.out.length) := by
  obtain ⟨e, h1, h2⟩ := step_oi cfg r s []
  dsimp only at h1 h2
  have hd : (step cfg s r).out.drop s.out.length = e := by rw [h1, List.drop_left]
  rw [hd]
  have : ({ s with out := [] } : State) = setOut s [] := rfl
  rw [this, h2]; simp

end Pyrtma.Mgr
