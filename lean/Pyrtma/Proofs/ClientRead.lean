import Pyrtma.Spec.ClientRead
/-! Helper lemmas for C08: the byte-level socket code of `Model/ClientRead.lean` refines a frame-level
reference (`ref`), whose outcomes are characterised by `Outcome`.  Core Lean only. -/
namespace Pyrtma.ClientRead

/-! ### sockets and byte strings -/

theorem recv_append (a b : Bytes) (e : End) : recv ⟨a ++ b, e⟩ a.length = .full a ⟨b, e⟩ := by
  simp [recv]

theorem recv_append' (a b : Bytes) (e : End) (n : Nat) (h : a.length = n) :
    recv ⟨a ++ b, e⟩ n = .full a ⟨b, e⟩ := by
  subst h; exact recv_append a b e

theorem framesBytes_length (fs : List Frame) : (framesBytes fs).length = framesLen fs := by
  induction fs with
  | nil => rfl
  | cons f fs ih => simp [framesBytes, framesLen, Frame.bytes, Frame.len, ih]; omega

theorem streamOf_length (fs : List Frame) (tail : Bytes) :
    (streamOf fs tail).length = framesLen fs + tail.length := by
  simp [streamOf, framesBytes_length]

theorem streamOf_cons (f : Frame) (fs : List Frame) (tail : Bytes) :
    streamOf (f :: fs) tail = f.hdr ++ (f.payload ++ streamOf fs tail) := by
  simp [streamOf, framesBytes, Frame.bytes]

theorem framesLen_append (a b : List Frame) : framesLen (a ++ b) = framesLen a + framesLen b := by
  induction a with
  | nil => simp [framesLen]
  | cons f a ih => simp [framesLen, ih]; omega

/-! ### one whole frame -/

/-- the outcome a whole frame produces when it stops the call -/
def resOfFrame (cfg : Cfg) (sync : Bool) (f : Frame) : Res :=
  match kind cfg sync f.hdr with
  | .good => .msg f.hdr f.payload
  | .unknown => .unknownType f.hdr f.payload
  | .wrongSize => .invalidDef
  | .wrongVersion => .invalidDef

theorem wf_hdr {cfg : Cfg} {f : Frame} (h : f.wf cfg = true) : f.hdr.length = cfg.hsize := by
  simp [Frame.wf] at h; exact h.1

theorem wf_len {cfg : Cfg} {f : Frame} (h : f.wf cfg = true) : hLen f.hdr = (f.payload.length : Int) := by
  simp [Frame.wf] at h; exact h.2

theorem wf_len_pos {cfg : Cfg} {f : Frame} (hs : 48 ≤ cfg.hsize) (h : f.wf cfg = true) : 0 < f.len := by
  have := wf_hdr h; unfold Frame.len; omega

/-- `_read_message` on a stream that starts with a whole frame: consumes exactly that frame, whatever it returns. -/
theorem readRaw_frame (cfg : Cfg) (tmo : Tmo) (sync : Bool) (f : Frame) (rest : Bytes) (e : End)
    (hs : 48 ≤ cfg.hsize) (hw : f.wf cfg = true) :
    readRaw cfg tmo sync ⟨f.hdr ++ (f.payload ++ rest), e⟩ = (resOfFrame cfg sync f, ⟨rest, e⟩) := by
  have hh := wf_hdr hw
  have hl := wf_len hw
  have hne : (f.hdr ++ (f.payload ++ rest)).isEmpty = false := by
    cases hf : f.hdr with
    | nil => simp [hf] at hh; omega
    | cons _ _ => simp
  unfold readRaw
  simp only [readable, hne, Bool.not_false, Bool.true_or, Bool.not_true, Bool.and_false]
  rw [recv_append' f.hdr _ e cfg.hsize hh]
  simp only [resOfFrame]
  cases hk : kind cfg sync f.hdr <;> simp only [Bool.false_eq_true, if_false]
  · -- good
    by_cases h0 : hLen f.hdr = 0
    · have : f.payload = [] := by
        have : (f.payload.length : Int) = 0 := by omega
        exact List.eq_nil_of_length_eq_zero (by omega)
      simp [h0, this]
    · simp only [h0, if_false]
      rw [recv_append' f.payload rest e _ (by omega)]
  all_goals
    simp only [drain, hl]
    have : ¬ ((f.payload.length : Int) < 0) := by omega
    simp only [this, if_false]
    rw [recv_append' f.payload rest e _ (by omega)]

/-! ### the frame-level reference of `read_message` -/

def ref (cfg : Cfg) (sub : Sub) (a : Args) (tail : Bytes) (e : End) : List Frame → Res × Sock
  | [] => readRaw cfg a.tmo a.sync ⟨tail, e⟩
  | f :: fs =>
    if skipF cfg sub a f then
      (if a.tmo == .zero then (.none, ⟨streamOf fs tail, e⟩) else ref cfg sub a tail e fs)
    else (resOfFrame cfg a.sync f, ⟨streamOf fs tail, e⟩)

theorem resOfFrame_msg {cfg : Cfg} {sync : Bool} {f : Frame} {h p : Bytes}
    (hr : resOfFrame cfg sync f = .msg h p) : kind cfg sync f.hdr = .good ∧ h = f.hdr ∧ p = f.payload := by
  unfold resOfFrame at hr
  cases hk : kind cfg sync f.hdr <;> simp [hk] at hr
  exact ⟨rfl, hr.1.symm, hr.2.symm⟩


/-! ### the incomplete tail -/

/-- what `_read_message` can do on a stream that holds no whole frame -/
inductive TailOut (cfg : Cfg) (a : Args) (tail : Bytes) (e : End) : Res × Sock → Prop
  | none : tail = [] → e = .idle → (a.tmo = .zero ∨ a.tmo = .pos) → TailOut cfg a tail e (.none, ⟨tail, e⟩)
  | blocked (s : Sock) : e = .idle → s.data.length ≤ tail.length → TailOut cfg a tail e (.blocked, s)
  | lost : e ≠ .idle → TailOut cfg a tail e (.lost, Sock.dead)
  | drainErr (r : Res) : e = .fin → tailHasHeader cfg tail = true → r.isDecided = true → (∀ h p, r ≠ .msg h p) →
      resMatchesKind r (kind cfg a.sync (tail.take cfg.hsize)) = true → TailOut cfg a tail e (r, Sock.dead)

theorem recv_not_full {s : Sock} {n : Nat} (h : s.data.length < n) :
    recv s n = match s.tail with | .fin => .short s.data | .rst => .reset | .idle => .block := by
  unfold recv
  have : ¬ n ≤ s.data.length := by omega
  simp only [this, if_false]
  cases s.tail <;> rfl

theorem drain_tail {cfg : Cfg} {a : Args} {tail : Bytes} {e : End} (s1 : Sock) (n : Int) (err : Bytes → Res)
    (he : s1.tail = e) (hn : 0 ≤ n) (hlt : (s1.data.length : Int) < n) (hle : s1.data.length ≤ tail.length)
    (hh : tailHasHeader cfg tail = true)
    (herr : ∀ raw, (err raw).isDecided = true ∧ (∀ h p, err raw ≠ .msg h p) ∧
      resMatchesKind (err raw) (kind cfg a.sync (tail.take cfg.hsize)) = true) :
    TailOut cfg a tail e (drain s1 n err) := by
  unfold drain
  have : ¬ n < 0 := by omega
  simp only [this, if_false]
  rw [recv_not_full (by omega)]
  subst he
  cases ht : s1.tail <;> simp only
  · exact .blocked s1 rfl hle
  · have := herr s1.data
    exact .drainErr _ rfl hh this.1 this.2.1 this.2.2
  · exact .lost (by simp)

theorem readRaw_tail (cfg : Cfg) (a : Args) (tail : Bytes) (e : End)
    (hi : tailIncomplete cfg tail = true) (hb : tailBadLen cfg tail = false) :
    TailOut cfg a tail e (readRaw cfg a.tmo a.sync ⟨tail, e⟩) := by
  unfold readRaw
  split
  · rename_i hsel
    simp only [readable, Bool.and_eq_true, bne_iff_ne, ne_eq, Bool.not_eq_true', Bool.or_eq_false_iff,
      Bool.not_eq_false', List.isEmpty_iff] at hsel
    obtain ⟨htm, hnil, hidle⟩ := hsel
    have hidle : e = .idle := by simpa using hidle
    split
    · exact .blocked _ hidle (by simp)
    · rename_i hneg
      refine .none hnil hidle ?_
      cases ht : a.tmo <;> simp_all
  · by_cases hh : tailHasHeader cfg tail = true
    · -- header complete
      have hle : cfg.hsize ≤ tail.length := by simpa [tailHasHeader] using hh
      have hrecv : recv ⟨tail, e⟩ cfg.hsize = .full (tail.take cfg.hsize) ⟨tail.drop cfg.hsize, e⟩ := by
        simp [recv, hle]
      rw [hrecv]
      simp only
      have hnn : 0 ≤ hLen (tail.take cfg.hsize) := by
        simp only [tailBadLen, hh, Bool.true_and, decide_eq_false_iff_not] at hb; omega
      have hlt : (((tail.drop cfg.hsize).length : Nat) : Int) < hLen (tail.take cfg.hsize) := by
        simp only [tailIncomplete, hh, Bool.not_true, Bool.false_or, Bool.or_eq_true, decide_eq_true_eq] at hi
        rcases hi with hi | hi
        · omega
        · simpa using hi
      have hdl : (tail.drop cfg.hsize).length ≤ tail.length := by simp
      cases hk : kind cfg a.sync (tail.take cfg.hsize) <;> simp only
      · -- good: the payload read comes up short
        have h0 : hLen (tail.take cfg.hsize) ≠ 0 := by omega
        simp only [h0, if_false]
        rw [recv_not_full (by simp only; omega)]
        cases e <;> simp only
        · exact .blocked _ rfl hdl
        · exact .lost (by simp)
        · exact .lost (by simp)
      · exact drain_tail _ _ _ rfl hnn hlt hdl hh (fun raw => by simp [Res.isDecided, resMatchesKind, hk])
      · exact drain_tail _ _ _ rfl hnn hlt hdl hh (fun raw => by simp [Res.isDecided, resMatchesKind, hk])
      · exact drain_tail _ _ _ rfl hnn hlt hdl hh (fun raw => by simp [Res.isDecided, resMatchesKind, hk])
    · -- header incomplete
      have hlt : tail.length < cfg.hsize := by
        simp only [tailHasHeader, decide_eq_true_eq] at hh; omega
      rw [recv_not_full (by simpa using hlt)]
      cases e <;> simp only
      · exact .blocked _ rfl (by simp)
      · exact .lost (by simp)
      · exact .lost (by simp)


theorem tail_not_msg {cfg : Cfg} {a : Args} {tail : Bytes} {e : End} {r : Res} {s : Sock}
    (h : TailOut cfg a tail e (r, s)) (hd : Bytes) (p : Bytes) : r ≠ .msg hd p := by
  cases h with
  | none => simp
  | blocked => simp
  | lost => simp
  | drainErr _ _ _ _ hm _ => exact hm hd p

/-! ### refinement: the socket-level loop computes the frame-level reference -/

theorem readLoop_eq_ref (cfg : Cfg) (sub : Sub) (a : Args) (tail : Bytes) (e : End) (hs : 48 ≤ cfg.hsize)
    (hi : tailIncomplete cfg tail = true) (hb : tailBadLen cfg tail = false) :
    ∀ (fs : List Frame) (fuel : Nat), fs.all (Frame.wf cfg) = true → fs.length < fuel →
      readLoop cfg sub a.tmo a.ack a.sync fuel ⟨streamOf fs tail, e⟩ = ref cfg sub a tail e fs
  | [], fuel, _, hf => by
    obtain ⟨k, rfl⟩ : ∃ k, fuel = k + 1 := ⟨fuel - 1, by simp at hf; omega⟩
    have ht := readRaw_tail cfg a tail e hi hb
    simp only [streamOf, framesBytes, List.nil_append, readLoop, ref]
    generalize readRaw cfg a.tmo a.sync ⟨tail, e⟩ = r at ht
    obtain ⟨res, s⟩ := r
    cases res <;> first | rfl | exact absurd rfl (tail_not_msg ht _ _)
  | f :: fs, fuel, hw, hf => by
    obtain ⟨k, rfl⟩ : ∃ k, fuel = k + 1 := ⟨fuel - 1, by simp at hf; omega⟩
    have hwf : f.wf cfg = true ∧ fs.all (Frame.wf cfg) = true := by simpa using hw
    have ih := readLoop_eq_ref cfg sub a tail e hs hi hb fs k hwf.2 (by simp at hf; omega)
    rw [streamOf_cons]
    unfold readLoop
    rw [readRaw_frame cfg a.tmo a.sync f _ e hs hwf.1]
    unfold ref
    cases hk : kind cfg a.sync f.hdr
    · -- good
      have hr : resOfFrame cfg a.sync f = .msg f.hdr f.payload := by simp [resOfFrame, hk]
      simp only [hr, skipF, hk, beq_self_eq_true, Bool.true_and]
      by_cases hwant : wanted cfg sub a.ack (hType f.hdr) = true
      · simp [hwant]
      · simp only [hwant, Bool.false_eq_true, if_false, Bool.not_false, if_true]
        by_cases hz : a.tmo = .zero
        · simp [hz]
        · have : (a.tmo == Tmo.zero) = false := by simpa using hz
          simp only [this, Bool.false_eq_true, if_false]
          exact ih
    all_goals simp [resOfFrame, skipF, hk]

/-- the loop never runs out of fuel: any fuel above the number of queued frames gives the same result -/
theorem readLoop_fuel (cfg : Cfg) (sub : Sub) (a : Args) (tail : Bytes) (e : End) (hs : 48 ≤ cfg.hsize)
    (hi : tailIncomplete cfg tail = true) (hb : tailBadLen cfg tail = false) (fs : List Frame)
    (hw : fs.all (Frame.wf cfg) = true) :
    readLoop cfg sub a.tmo a.ack a.sync ((streamOf fs tail).length + 1) ⟨streamOf fs tail, e⟩ =
      ref cfg sub a tail e fs := by
  apply readLoop_eq_ref cfg sub a tail e hs hi hb fs _ hw
  rw [streamOf_length]
  have : fs.length ≤ framesLen fs := by
    clear hi hb
    induction fs with
    | nil => simp [framesLen]
    | cons f fs ih =>
      have hwf : f.wf cfg = true ∧ fs.all (Frame.wf cfg) = true := by simpa using hw
      have := wf_len_pos hs hwf.1
      have := ih hwf.2
      simp [framesLen]; omega
  omega


/-! ### frame boundaries -/

theorem takeFrames_cons (f : Frame) (fs : List Frame) (c : Nat) :
    takeFrames (f :: fs) c =
      if c = 0 then some ([], f :: fs)
      else if c < f.len then none
      else (takeFrames fs (c - f.len)).map (fun r => (f :: r.1, r.2)) := by
  cases c with
  | zero => simp [takeFrames]
  | succ c => simp [takeFrames]

def allPos (fs : List Frame) : Prop := ∀ f ∈ fs, 0 < f.len

theorem allPos_of_wf {cfg : Cfg} (hs : 48 ≤ cfg.hsize) {fs : List Frame} (hw : fs.all (Frame.wf cfg) = true) :
    allPos fs := by
  intro f hf
  exact wf_len_pos hs (List.all_eq_true.mp hw f hf)

theorem takeFrames_prefix : ∀ (t rest : List Frame), allPos t →
    takeFrames (t ++ rest) (framesLen t) = some (t, rest)
  | [], rest, _ => by cases rest <;> simp [takeFrames, framesLen]
  | f :: t, rest, hp => by
    have hf : 0 < f.len := hp f (by simp)
    have ih := takeFrames_prefix t rest (fun g hg => hp g (by simp [hg]))
    rw [List.cons_append, takeFrames_cons]
    have h1 : ¬ framesLen (f :: t) = 0 := by simp [framesLen]; omega
    have h2 : ¬ framesLen (f :: t) < f.len := by simp [framesLen]
    have h3 : framesLen (f :: t) - f.len = framesLen t := by simp [framesLen]
    simp [h1, h2, h3, ih]

theorem takeFrames_some : ∀ (fs : List Frame) (c : Nat) (t r : List Frame),
    takeFrames fs c = some (t, r) → fs = t ++ r
  | [], c, t, r, h => by
    cases c with
    | zero => simp [takeFrames] at h; simp [h.1, h.2]
    | succ c => simp [takeFrames] at h
  | f :: fs, c, t, r, h => by
    rw [takeFrames_cons] at h
    split at h
    · simp at h; simp [← h.1, ← h.2]
    · split at h
      · simp at h
      · cases hq : takeFrames fs (c - f.len) with
        | none => simp [hq] at h
        | some q =>
          obtain ⟨t', r'⟩ := q
          simp [hq] at h
          have := takeFrames_some fs _ t' r' hq
          simp [← h.1, ← h.2, this]

theorem takeFrames_beyond : ∀ (fs : List Frame) (c : Nat), framesLen fs < c → takeFrames fs c = none
  | [], c, h => by
    cases c with
    | zero => simp [framesLen] at h
    | succ c => simp [takeFrames]
  | f :: fs, c, h => by
    rw [takeFrames_cons]
    simp only [framesLen] at h
    have h1 : ¬ c = 0 := by omega
    have h2 : ¬ c < f.len := by omega
    simp [h1, h2, takeFrames_beyond fs (c - f.len) (by omega)]

theorem framesLen_zero {fs : List Frame} (hp : allPos fs) (h : framesLen fs = 0) : fs = [] := by
  cases fs with
  | nil => rfl
  | cons f fs => have := hp f (by simp); simp [framesLen] at h; omega

/-! ### what the reference does, as a case distinction -/

inductive Outcome (cfg : Cfg) (sub : Sub) (a : Args) (tail : Bytes) (e : End) : List Frame → Res × Sock → Prop
  | decided (init : List Frame) (f : Frame) (rest : List Frame) :
      init.all (skipF cfg sub a) = true → skipF cfg sub a f = false → (a.tmo = .zero → init = []) →
      Outcome cfg sub a tail e (init ++ f :: rest) (resOfFrame cfg a.sync f, ⟨streamOf rest tail, e⟩)
  | zeroSkip (f : Frame) (rest : List Frame) : a.tmo = .zero → skipF cfg sub a f = true →
      Outcome cfg sub a tail e (f :: rest) (.none, ⟨streamOf rest tail, e⟩)
  | atTail (fs : List Frame) (r : Res × Sock) : fs.all (skipF cfg sub a) = true → (a.tmo = .zero → fs = []) →
      TailOut cfg a tail e r → Outcome cfg sub a tail e fs r

theorem ref_outcome (cfg : Cfg) (sub : Sub) (a : Args) (tail : Bytes) (e : End)
    (hi : tailIncomplete cfg tail = true) (hb : tailBadLen cfg tail = false) :
    ∀ fs : List Frame, Outcome cfg sub a tail e fs (ref cfg sub a tail e fs)
  | [] => by
    unfold ref
    exact .atTail [] _ (by simp) (fun _ => rfl) (readRaw_tail cfg a tail e hi hb)
  | f :: fs => by
    unfold ref
    by_cases hsk : skipF cfg sub a f = true
    · simp only [hsk, if_true]
      by_cases hz : a.tmo = .zero
      · simp only [hz, beq_self_eq_true, if_true]
        exact .zeroSkip f fs hz hsk
      · have hz' : (a.tmo == Tmo.zero) = false := by simpa using hz
        simp only [hz', Bool.false_eq_true, if_false]
        have ih := ref_outcome cfg sub a tail e hi hb fs
        generalize ref cfg sub a tail e fs = r at ih
        cases ih with
        | decided init g rest h1 h2 h3 =>
          have := Outcome.decided (cfg := cfg) (sub := sub) (a := a) (tail := tail) (e := e) (f :: init) g rest
            (by simp [hsk, h1]) h2 (fun h => absurd h hz)
          simpa using this
        | zeroSkip g rest h1 _ => exact absurd h1 hz
        | atTail _ _ h1 _ h3 => exact .atTail _ _ (by simp [hsk, h1]) (fun h => absurd h hz) h3
    · have hsk' : skipF cfg sub a f = false := by simpa using hsk
      simp only [hsk', Bool.false_eq_true, if_false]
      exact .decided [] f fs (by simp) hsk' (fun _ => rfl)


/-! ### every outcome of the reference satisfies every clause of the Spec -/

theorem resOfFrame_facts (cfg : Cfg) (sync : Bool) (f : Frame) :
    (resOfFrame cfg sync f).isDecided = true ∧ (resOfFrame cfg sync f).isNormal = true ∧
    resMatchesKind (resOfFrame cfg sync f) (kind cfg sync f.hdr) = true ∧
    resOfFrame cfg sync f ≠ .lost ∧ resOfFrame cfg sync f ≠ .none ∧ resOfFrame cfg sync f ≠ .crash ∧
    resOfFrame cfg sync f ≠ .blocked ∧ resOfFrame cfg sync f ≠ .notConnected := by
  unfold resOfFrame
  cases kind cfg sync f.hdr <;> simp [Res.isDecided, Res.isNormal, resMatchesKind]

theorem spec_decided (cfg : Cfg) (p : Pre) (a : Args) (hw : p.wf cfg = true) (hc : p.connected = true)
    (init : List Frame) (f : Frame) (rest : List Frame) (hfs : p.fs = init ++ f :: rest)
    (h1 : init.all (skipF cfg p.sub a) = true) (h2 : skipF cfg p.sub a f = false) :
    specOk cfg p a ⟨resOfFrame cfg a.sync f, p.total - (streamOf rest p.tail).length,
      resOfFrame cfg a.sync f != .lost⟩ = true := by
  simp only [Pre.wf, Bool.and_eq_true, decide_eq_true_eq] at hw
  obtain ⟨⟨⟨hs, hwf⟩, _⟩, _⟩ := hw
  have hpos := allPos_of_wf hs hwf
  have hfs' : p.fs = (init ++ [f]) ++ rest := by simp [hfs]
  have hcons : p.total - (streamOf rest p.tail).length = framesLen (init ++ [f]) := by
    simp only [Pre.total, streamOf_length, hfs', framesLen_append]; omega
  have htf : takeFrames p.fs (framesLen (init ++ [f])) = some (init ++ [f], rest) := by
    rw [hfs']; apply takeFrames_prefix
    intro g hg; exact hpos g (by rw [hfs']; simp at hg ⊢; rcases hg with hg | hg <;> simp [hg])
  obtain ⟨hd, hn, hm, hl, hno, hcr, hbl, hnc⟩ := resOfFrame_facts cfg a.sync f
  have hwant : ∀ h pl, resOfFrame cfg a.sync f = .msg h pl → wanted cfg p.sub a.ack (hType h) = true := by
    intro h pl hr
    obtain ⟨hk, rfl, rfl⟩ := resOfFrame_msg hr
    simpa [skipF, hk] using h2
  simp only [specOk, clauses, hcons, htf, hc, List.all_cons, List.all_nil, Bool.and_true, Bool.and_eq_true]
  refine ⟨?_, ?_, ?_, ?_, ?_, ?_, ?_, ?_, ?_⟩
  · simp [hnc]
  · simp
  · cases hr : resOfFrame cfg a.sync f <;> simp
    obtain ⟨_, rfl, rfl⟩ := resOfFrame_msg hr
    simp
  · cases hr : resOfFrame cfg a.sync f <;> simp
    exact hwant _ _ hr
  · simp [hd, h1]
  · simp [hd, hm]
  · simp [hl, hn]
  · simp [hno]
  · simp [hcr, hbl]


theorem spec_zeroSkip (cfg : Cfg) (p : Pre) (a : Args) (hw : p.wf cfg = true) (hc : p.connected = true)
    (f : Frame) (rest : List Frame) (hfs : p.fs = f :: rest) (h2 : skipF cfg p.sub a f = true) :
    specOk cfg p a ⟨.none, p.total - (streamOf rest p.tail).length, true⟩ = true := by
  simp only [Pre.wf, Bool.and_eq_true, decide_eq_true_eq] at hw
  obtain ⟨⟨⟨hs, hwf⟩, _⟩, _⟩ := hw
  have hpos := allPos_of_wf hs hwf
  have hfs' : p.fs = [f] ++ rest := by simp [hfs]
  have hcons : p.total - (streamOf rest p.tail).length = framesLen [f] := by
    simp only [Pre.total, streamOf_length, hfs', framesLen_append]; omega
  have htf : takeFrames p.fs (framesLen [f]) = some ([f], rest) := by
    rw [hfs']; apply takeFrames_prefix
    intro g hg; exact hpos g (by rw [hfs']; simp at hg ⊢; simp [hg])
  have hfl : 0 < f.len := hpos f (by simp [hfs])
  have hne : ¬ framesLen [f] = 0 := by simp [framesLen]; omega
  simp [specOk, clauses, hcons, htf, hc, Res.isNormal, Res.isDecided, h2, hne]

/-- outcomes that neither return nor raise a decode error and consumed some prefix of skipped frames -/
theorem prefix_all_skip {cfg : Cfg} {sub : Sub} {a : Args} {fs : List Frame} {c : Nat}
    (h : fs.all (skipF cfg sub a) = true) :
    (match takeFrames fs c with
     | some (taken, _) => taken.all (skipF cfg sub a)
     | none => true) = true := by
  cases ht : takeFrames fs c with
  | none => rfl
  | some q =>
    obtain ⟨t, r⟩ := q
    have := takeFrames_some fs c t r ht
    subst this
    simp only [List.all_append, Bool.and_eq_true] at h
    exact h.1

theorem spec_atTail (cfg : Cfg) (p : Pre) (a : Args) (hw : p.wf cfg = true) (hc : p.connected = true)
    (r : Res × Sock) (h1 : p.fs.all (skipF cfg p.sub a) = true) (hz : a.tmo = .zero → p.fs = [])
    (ht : TailOut cfg a p.tail p.e r) :
    specOk cfg p a ⟨r.1, p.total - r.2.data.length, r.1 != .lost⟩ = true := by
  simp only [Pre.wf, Bool.and_eq_true, decide_eq_true_eq] at hw
  obtain ⟨⟨⟨hs, hwf⟩, _⟩, _⟩ := hw
  have hpos := allPos_of_wf hs hwf
  have hpre := fun c => prefix_all_skip (c := c) h1
  cases ht with
  | none htl he htm =>
    have hcons : p.total - p.tail.length = framesLen p.fs := by simp [Pre.total]
    have htf : takeFrames p.fs (framesLen p.fs) = some (p.fs, []) := by
      have := takeFrames_prefix p.fs [] hpos
      simpa using this
    have h0 : framesLen p.fs = 0 → p.fs = [] := framesLen_zero hpos
    simp only [specOk, clauses, hcons, htf, hc, List.all_cons, List.all_nil, Bool.and_true, Bool.and_eq_true]
    refine ⟨?_, ?_, ?_, ?_, ?_, ?_, ?_, ?_, ?_⟩ <;> simp [Res.isNormal, Res.isDecided, h1, htl, he]
    by_cases hh : framesLen p.fs = 0
    · right; exact h0 hh
    · left; exact hh
  | blocked s he hle =>
    have := hpre (p.total - s.data.length)
    simp only [specOk, clauses, hc, List.all_cons, List.all_nil, Bool.and_true, Bool.and_eq_true]
    refine ⟨?_, ?_, ?_, ?_, ?_, ?_, ?_, ?_, ?_⟩ <;> simp [Res.isNormal, Res.isDecided, he]
    exact this
  | lost he =>
    have := hpre (p.total - 0)
    simp only [specOk, clauses, hc, Sock.dead, List.length_nil, List.all_cons, List.all_nil, Bool.and_true,
      Bool.and_eq_true]
    refine ⟨?_, ?_, ?_, ?_, ?_, ?_, ?_, ?_, ?_⟩ <;> simp [Res.isNormal, Res.isDecided, he, h1]
    exact this
  | drainErr res he hh hd hnm hm =>
    have hle : cfg.hsize ≤ p.tail.length := by simpa [tailHasHeader] using hh
    have htf : takeFrames p.fs (p.total - 0) = none := by
      apply takeFrames_beyond; simp only [Pre.total]; omega
    have hzz : (a.tmo != Tmo.zero || p.fs.isEmpty) = true := by
      by_cases h : a.tmo = .zero
      · simp [hz h]
      · simp [h]
    have hexc : drainExc cfg p a ⟨res, p.total - 0, res != .lost⟩ = true := by
      simp only [drainExc, Bool.and_eq_true]
      refine ⟨⟨⟨⟨⟨⟨?_, by simp [he]⟩, by simp⟩, h1⟩, hzz⟩, hh⟩, hm⟩
      cases res <;> simp_all [Res.isDecided]
    have hres : (∃ h r, res = .unknownType h r) ∨ res = .invalidDef := by
      cases res <;> simp_all [Res.isDecided]
    simp only [specOk, clauses, hc, Sock.dead, List.length_nil, htf, hexc, List.all_cons, List.all_nil,
      Bool.and_true, Bool.and_eq_true]
    rcases hres with ⟨h, r, rfl⟩ | rfl <;>
      (refine ⟨?_, ?_, ?_, ?_, ?_, ?_, ?_, ?_, ?_⟩ <;> simp [Res.isNormal, Res.isDecided])


/-! ### determinism: the first frame that cannot be discarded decides the call -/

theorem ref_skip_prefix (cfg : Cfg) (sub : Sub) (a : Args) (tail : Bytes) (e : End) (hz : a.tmo ≠ .zero) :
    ∀ (init l : List Frame), init.all (skipF cfg sub a) = true →
      ref cfg sub a tail e (init ++ l) = ref cfg sub a tail e l
  | [], l, _ => rfl
  | f :: init, l, h => by
    have h' : skipF cfg sub a f = true ∧ init.all (skipF cfg sub a) = true := by simpa using h
    have hz' : (a.tmo == Tmo.zero) = false := by simpa using hz
    rw [List.cons_append]
    conv => lhs; unfold ref
    simp only [h'.1, if_true, hz', Bool.false_eq_true, if_false]
    exact ref_skip_prefix cfg sub a tail e hz init l h'.2

theorem ref_decided (cfg : Cfg) (sub : Sub) (a : Args) (tail : Bytes) (e : End)
    (init : List Frame) (f : Frame) (rest : List Frame) (h1 : init.all (skipF cfg sub a) = true)
    (h2 : skipF cfg sub a f = false) (hz : a.tmo = .zero → init = []) :
    ref cfg sub a tail e (init ++ f :: rest) = (resOfFrame cfg a.sync f, ⟨streamOf rest tail, e⟩) := by
  have hhead : ref cfg sub a tail e (f :: rest) = (resOfFrame cfg a.sync f, ⟨streamOf rest tail, e⟩) := by
    conv => lhs; unfold ref
    simp [h2]
  by_cases h : a.tmo = .zero
  · simp [hz h, hhead]
  · rw [ref_skip_prefix cfg sub a tail e h init _ h1, hhead]


/-! ### the pre-state of the next call -/

theorem wf_parts {cfg : Cfg} {p : Pre} (hw : p.wf cfg = true) :
    48 ≤ cfg.hsize ∧ p.fs.all (Frame.wf cfg) = true ∧ tailIncomplete cfg p.tail = true ∧
      tailBadLen cfg p.tail = false := by
  simp only [Pre.wf, Bool.and_eq_true, decide_eq_true_eq, Bool.not_eq_true'] at hw
  exact ⟨hw.1.1.1, hw.1.1.2, hw.1.2, hw.2⟩

theorem wf_empty_tail {cfg : Cfg} (hs : 48 ≤ cfg.hsize) :
    tailIncomplete cfg [] = true ∧ tailBadLen cfg [] = false := by
  have : ¬ cfg.hsize ≤ 0 := by omega
  simp [tailIncomplete, tailBadLen, tailHasHeader, this]

/-- after a call that stopped at a frame boundary -/
theorem advance_frames (cfg : Cfg) (p : Pre) (hw : p.wf cfg = true) (taken rest : List Frame)
    (hfs : p.fs = taken ++ rest) (res : Res) (c : Bool) (hl : res ≠ .lost) :
    ∃ p', p.advance ⟨res, p.total - (streamOf rest p.tail).length, c⟩ = some p' ∧ p'.wf cfg = true ∧
      p'.st = ⟨⟨streamOf rest p.tail, p.e⟩, c, p.sub⟩ := by
  obtain ⟨hs, hwf, hi, hb⟩ := wf_parts hw
  have hpos := allPos_of_wf hs hwf
  have hcons : p.total - (streamOf rest p.tail).length = framesLen taken := by
    simp only [Pre.total, streamOf_length, hfs, framesLen_append]; omega
  have hrest : rest.all (Frame.wf cfg) = true := by
    rw [hfs] at hwf; simp only [List.all_append, Bool.and_eq_true] at hwf; exact hwf.2
  have hl' : (res == Res.lost) = false := by simpa using hl
  unfold Pre.advance
  simp only [hcons, hl', Bool.false_or]
  by_cases hall : framesLen taken = p.total
  · have h0 : framesLen rest = 0 ∧ p.tail.length = 0 := by
      simp only [Pre.total, hfs, framesLen_append] at hall; omega
    have hr0 : rest = [] := framesLen_zero (fun f hf => hpos f (by rw [hfs]; simp [hf])) h0.1
    have ht0 : p.tail = [] := List.eq_nil_of_length_eq_zero h0.2
    refine ⟨{ p with fs := [], tail := [], e := p.e, connected := c }, ?_, ?_, ?_⟩
    · simp [hall, h0.2]
    · simp [Pre.wf, hs, wf_empty_tail hs]
    · simp [Pre.st, Pre.sock, hr0, ht0]
  · have hne : (framesLen taken == p.total) = false := by simpa using hall
    have htf : takeFrames p.fs (framesLen taken) = some (taken, rest) := by
      rw [hfs]; exact takeFrames_prefix taken rest (fun f hf => hpos f (by rw [hfs]; simp [hf]))
    refine ⟨{ p with fs := rest, connected := c }, ?_, ?_, ?_⟩
    · simp only [hne, Bool.false_eq_true, if_false, htf]
    · simp [Pre.wf, hs, hrest, hi, hb]
    · simp [Pre.st, Pre.sock]

/-- after a call that found the peer gone -/
theorem advance_dead (cfg : Cfg) (p : Pre) (hw : p.wf cfg = true) (res : Res) (c : Bool)
    (h : res = .lost ∨ p.tail.length ≠ 0) :
    ∃ p', p.advance ⟨res, p.total - 0, c⟩ = some p' ∧ p'.wf cfg = true ∧ p'.st = ⟨Sock.dead, c, p.sub⟩ := by
  obtain ⟨hs, _, _, _⟩ := wf_parts hw
  have he : (res == Res.lost || p.tail.length != 0) = true := by
    rcases h with h | h
    · simp [h]
    · simp [h]
  unfold Pre.advance
  refine ⟨{ p with fs := [], tail := [], e := .fin, connected := c }, ?_, ?_, ?_⟩
  · simp only [Nat.sub_zero, beq_self_eq_true, Bool.or_true, if_true, he]
  · simp [Pre.wf, hs, wf_empty_tail hs]
  · simp [Pre.st, Pre.sock, Sock.dead, streamOf, framesBytes]

end Pyrtma.ClientRead
