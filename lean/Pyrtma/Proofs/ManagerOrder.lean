import Pyrtma.Proofs.Manager
/-! Order of delivery in the manager model M1, globally: copies of input frame `k` are written only while frame `k` is
    being processed, so every receiver sees the data frames in processing order, and any two receivers see the frames
    they both get in the same relative order.  No side condition. -/
namespace Pyrtma.Mgr

/-- "is the copy of input frame `j`" -/
def cp (j : Nat) : Body → Bool := fun b => b == .data j

/-- a body predicate that is false on the frames the manager originates outside failure handling (the ones `Tag` does
    not already cover): acknowledgements, CLIENT_INFO, the three statistics messages -/
structure Ctl (B : Body → Bool) : Prop where
  ack : B .ack = false
  info : ∀ a b c d e f, B (.info a b c d e f) = false
  timing : ∀ a b, B (.timing a b) = false
  traffic : ∀ a b c d, B (.traffic a b c d) = false
  active : ∀ a b c, B (.active a b c) = false

theorem ctl_cp (j : Nat) : Ctl (cp j) := ⟨rfl, fun _ _ _ _ _ _ => rfl, fun _ _ => rfl, fun _ _ _ _ => rfl, fun _ _ _ => rfl⟩
theorem ctl_guardNotice (cfg : Cfg) : Ctl (guardNotice cfg) :=
  ⟨rfl, fun _ _ _ _ _ _ => rfl, fun _ _ => rfl, fun _ _ _ _ => rfl, fun _ _ _ => rfl⟩

/-- the log of `s'` extends the log of `s` by events none of which is a `B`-frame -/
def QE (B : Body → Bool) (s s' : State) : Prop := ∃ ext, s'.out = s.out ++ ext ∧ dataSends B ext = []

theorem QE.refl (B : Body → Bool) (s : State) : QE B s s := ⟨[], by simp, rfl⟩

theorem QE.trans {B : Body → Bool} {a b c : State} (h1 : QE B a b) (h2 : QE B b c) : QE B a c := by
  obtain ⟨e1, o1, q1⟩ := h1
  obtain ⟨e2, o2, q2⟩ := h2
  exact ⟨e1 ++ e2, by rw [o2, o1, List.append_assoc], by rw [dataSends_append, q1, q2]; rfl⟩

theorem QE_of {B : Body → Bool} {s s' : State} (hp : Pres s s') (hq : Quiet B s s') : QE B s s' := by
  obtain ⟨ext, ho⟩ := hp.out
  refine ⟨ext, ho, ?_⟩
  unfold Quiet at hq
  rw [ho, dataSends_append] at hq
  exact List.append_right_eq_self.mp hq

theorem QE_same {B : Body → Bool} {s s' : State} (ho : s'.out = s.out) : QE B s s' := ⟨[], by simp [ho], rfl⟩

theorem QE_emit (B : Body → Bool) (s : State) (e : Ev) (he : ∀ u c f, e ≠ .send u c f) : QE B s (s.emit e) := by
  refine ⟨[e], rfl, ?_⟩
  unfold dataSends
  cases e <;> simp_all

theorem tag_cp (cfg : Cfg) (j : Nat) : Tag cfg (cp j) := tag_data cfg j

section top
variable (cfg : Cfg) {B : Body → Bool} (hB : Tag cfg B) (hc : Ctl B)
include hB hc

theorem fwdTop_QE (s : State) (g : Frame) (hg : B g.body = false) : QE B s (fwdTop cfg s g) :=
  let h := fwdTop_ok cfg (hB) s g hg
  QE_of h.1 h.2

theorem logAt_QE (lvl : Nat) (s : State) : QE B s (logAt cfg (fwdTop cfg) lvl s) := by
  unfold logAt; split
  · exact fwdTop_QE cfg hB hc s _ (hB.2.1 lvl)
  · exact QE.refl B s

theorem trySend_QE (s : State) (u : Nat) (f : Frame) (hf : B f.body = false) : QE B s (trySend cfg (fwdTop cfg) s u f) := by
  have h := trySend_ok cfg (hB) (fwdTop_ok cfg (hB)) s u f
  refine QE_of h.1 ?_
  unfold Quiet
  rw [h.2, hf]; simp

theorem removeModule_QE (s : State) (u : Nat) : QE B s (removeModule cfg (fwdTop cfg) s u) := by
  unfold removeModule
  cases s.find u with
  | none => exact QE.refl B s
  | some m =>
    dsimp only
    have h1 : QE B s (removePrep s u m) := by
      unfold removePrep; dsimp only
      split
      · exact QE_same rfl
      · refine ⟨[.close u], rfl, rfl⟩
    exact ((h1.trans (logAt_QE cfg hB hc 10 _)).trans (fwdTop_QE cfg hB hc _ _ (by simp [closedFrame, mgrFrame, hB.1]))).trans (QE_same rfl)

theorem toLoggers_QE (f : Frame) (hf : B f.body = false) : ∀ (ls : List Nat) (s : State), QE B s (toLoggers cfg f ls s)
  | [], s => QE.refl B s
  | u :: rest, s => by
    unfold toLoggers
    refine QE.trans ?_ (toLoggers_QE f hf rest _)
    unfold loggerOne
    cases s.find u with
    | none => exact QE.refl B s
    | some _ => exact trySend_QE cfg hB hc s u f hf

theorem sendAck_QE (s : State) (u : Nat) : QE B s (sendAck cfg s u) := by
  unfold sendAck
  cases s.find u with
  | none => exact QE.refl B s
  | some m => exact (trySend_QE cfg hB hc s u _ hc.ack).trans (toLoggers_QE cfg hB hc _ hc.ack _ _)

theorem infoOf_QE (s : State) (m : Module) : QE B s (infoOf cfg s m) := by
  unfold infoOf; exact (logAt_QE cfg hB hc 10 s).trans (fwdTop_QE cfg hB hc _ _ (hc.info _ _ _ _ _ _))

theorem sendInfo_QE (s : State) (u : Nat) : QE B s (sendInfo cfg s u) := by
  unfold sendInfo
  cases s.find u with
  | none => exact QE.refl B s
  | some m => exact infoOf_QE cfg hB hc s m

theorem addSub_QE (s : State) (u : Nat) (t : Int) : QE B s (addSub cfg s u t) := by
  have hcore : QE B s (addSubCore cfg s u t) := by
    unfold addSubCore State.setSubs; dsimp only
    split
    · exact QE_same rfl
    · split <;> exact QE_same rfl
  unfold addSub; split
  · exact hcore.trans (logAt_QE cfg hB hc 10 _)
  · exact hcore

theorem removeSub_QE (s : State) (u : Nat) (t : Int) : QE B s (removeSub cfg s u t) := by
  have hcore : QE B s (removeSubCore cfg s u t) := by
    unfold removeSubCore State.setSubs; dsimp only
    split
    · exact QE_same rfl
    · split <;> exact QE_same rfl
  unfold removeSub; split
  · exact hcore.trans (logAt_QE cfg hB hc 10 _)
  · exact hcore

theorem clashLoop_QE (me : Module) : ∀ (os : List Module) (s : State), QE B s (clashLoop cfg me os s).1
  | [], s => QE.refl B s
  | o :: rest, s => by
    unfold clashLoop
    split
    · exact QE.refl B s
    · refine QE.trans ?_ (clashLoop_QE me rest _)
      split
      · exact QE.refl B s
      · exact logAt_QE cfg hB hc 10 s

theorem connect_QE (s : State) (u : Nat) (hd : Hdr) : QE B s (connectModule cfg s u hd).1 := by
  unfold connectModule
  dsimp only
  have refuse : ∀ s0 : State, QE B s s0 → QE B s (removeModule cfg (fwdTop cfg) (logAt cfg (fwdTop cfg) 40 s0) u) :=
    fun s0 h0 => (h0.trans (logAt_QE cfg hB hc 40 _)).trans (removeModule_QE cfg hB hc _ u)
  split
  · exact QE.refl B s
  · split
    · exact refuse _ (QE_same rfl)
    · rename_i nm _
      have h1 : QE B s (s.upd u (setAll cfg s.buf hd nm)) := QE_same rfl
      split
      · split
        · exact refuse _ h1
        · have hl := clashLoop_QE cfg hB hc (setAll cfg s.buf hd nm (lookupMod s u))
            ((s.upd u (setAll cfg s.buf hd nm)).mods.filter (·.uid != u)) (s.upd u (setAll cfg s.buf hd nm))
          generalize clashLoop cfg (setAll cfg s.buf hd nm (lookupMod s u))
            ((s.upd u (setAll cfg s.buf hd nm)).mods.filter (·.uid != u)) (s.upd u (setAll cfg s.buf hd nm)) = r at hl
          obtain ⟨s2, cl⟩ := r
          dsimp only at hl ⊢
          split
          · exact refuse _ (h1.trans hl)
          · exact (h1.trans hl).trans (QE_same rfl)
      · split
        · exact refuse _ h1
        · exact h1.trans (QE_same rfl)

/-- **processing a frame writes copies of that frame only** -/
theorem process_QE (s : State) (u : Nat) (hd : Hdr) (hj : B (.data hd.k) = false) : QE B s (processMessage cfg s u hd) := by
  unfold processMessage
  dsimp only
  split
  · have hcn := connect_QE cfg hB hc s u hd
    generalize connectModule cfg s u hd = r at hcn
    obtain ⟨s1, okb⟩ := r
    dsimp only at hcn ⊢
    split
    · exact ((hcn.trans (sendAck_QE cfg hB hc s1 u)).trans (infoOf_QE cfg hB hc _ _)).trans (logAt_QE cfg hB hc 20 _)
    · exact hcn
  · split
    · exact (removeModule_QE cfg hB hc s u).trans (logAt_QE cfg hB hc 20 _)
    · split
      · exact (addSub_QE cfg hB hc s u _).trans (sendAck_QE cfg hB hc _ u)
      · split
        · exact (removeSub_QE cfg hB hc s u _).trans (sendAck_QE cfg hB hc _ u)
        · split
          · split
            · exact (logAt_QE cfg hB hc 40 s).trans (removeModule_QE cfg hB hc _ u)
            · exact ((QE_same (s' := s.upd u _) rfl).trans (logAt_QE cfg hB hc 20 _)).trans (infoOf_QE cfg hB hc _ _)
          · split
            · exact (QE_same (s' := s.upd u _) rfl).trans (sendInfo_QE cfg hB hc _ u)
            · exact (logAt_QE cfg hB hc 10 s).trans (fwdTop_QE cfg hB hc _ _ hj)

theorem readOne_QE (s : State) (r : Read) (hj : B (.data r.h.k) = false) : QE B s (readOne cfg s r) := by
  unfold readOne
  split
  · exact QE.refl B s
  · cases s.find r.uid with
    | none => exact QE.refl B s
    | some m =>
      dsimp only
      have h1 : QE B s (s.emit (.rd r.uid)) := QE_emit B s _ (by intro _ _ _ h; cases h)
      have hb : ∀ b, QE B s { (s.emit (.rd r.uid)) with buf := b } := fun b => h1.trans (QE_same rfl)
      have rm : ∀ (s' : State), QE B s s' → ∀ lvl, QE B s (logAt cfg (fwdTop cfg) lvl (removeModule cfg (fwdTop cfg) s' r.uid)) :=
        fun s' h' lvl => (h'.trans (removeModule_QE cfg hB hc s' r.uid)).trans (logAt_QE cfg hB hc lvl _)
      split
      · exact rm _ h1 40
      · split
        · exact rm _ h1 30
        · split
          · exact rm _ h1 30
          · split
            · split
              · exact rm _ h1 40
              · split
                · exact rm _ (hb _) 30
                · exact (hb _).trans (process_QE cfg hB hc _ _ _ hj)
            · exact h1.trans (process_QE cfg hB hc _ _ _ hj)

theorem foldl_fwd_QE : ∀ (fs : List Frame) (s : State), (∀ f ∈ fs, B f.body = false) → QE B s (fs.foldl (fwdTop cfg) s)
  | [], s, _ => QE.refl B s
  | f :: rest, s, h => by
    simp only [List.foldl_cons]
    exact (fwdTop_QE cfg hB hc s f (h f (by simp))).trans (foldl_fwd_QE rest _ (fun g hg => h g (by simp [hg])))

theorem infoAll_QE : ∀ (ms : List Module) (s : State), QE B s (infoAll cfg ms s)
  | [], s => QE.refl B s
  | m :: rest, s => by unfold infoAll; exact (infoOf_QE cfg hB hc s _).trans (infoAll_QE rest _)

theorem accept_QE (s : State) : QE B s (acceptStep cfg s) := by
  unfold acceptStep
  exact (logAt_QE cfg hB hc 20 s).trans (QE_same rfl)

theorem ticks_QE (s : State) : QE B s (ticks cfg s) := by
  unfold ticks
  have h1 : QE B s (if cfg.timing && s.now - s.tTiming > cfg.pTiming then { sendTiming cfg s with tTiming := s.now } else s) := by
    split
    · unfold sendTiming
      exact ((QE_same (s' := { s with counts := [], inTraffic := true }) rfl).trans (fwdTop_QE cfg hB hc _ _ (hc.timing _ _))).trans (QE_same rfl)
    · exact QE.refl B s
  generalize (if cfg.timing && s.now - s.tTiming > cfg.pTiming then { sendTiming cfg s with tTiming := s.now } else s) = s1 at h1
  dsimp only
  have h2 : QE B s1 (if s1.now - s1.tTraffic > cfg.pTraffic then sendTraffic cfg s1 else s1) := by
    split
    · unfold sendTraffic
      refine (((QE_same (s' := { s1 with inTraffic := true }) rfl).trans (logAt_QE cfg hB hc 10 _)).trans
        (foldl_fwd_QE cfg hB hc _ _ ?_)).trans (QE_same rfl)
      intro f hf
      unfold trafficFrames at hf
      obtain ⟨p, _, rfl⟩ := List.mem_map.mp hf
      exact hc.traffic _ _ _ _
    · exact QE.refl B s1
  generalize (if s1.now - s1.tTraffic > cfg.pTraffic then sendTraffic cfg s1 else s1) = s2 at h2
  refine (h1.trans h2).trans ?_
  split
  · unfold sendActive
    exact (((logAt_QE cfg hB hc 10 s2).trans (infoAll_QE cfg hB hc _ _)).trans (fwdTop_QE cfg hB hc _ _ (hc.active _ _ _))).trans (QE_same rfl)
  · exact QE.refl B s2

end top

/-! ## the per-receiver sequence of data frames -/

/-- serial numbers (provenance) of the data frames written to `u`, in order -/
def dataKs (evs : List Ev) (u : Nat) : List Nat :=
  evs.filterMap (fun e => match e with
    | .send v _ f => if v == u then (match f.body with | .data k => some k | _ => none) else none
    | _ => none)

theorem dataKs_append (a b : List Ev) (u : Nat) : dataKs (a ++ b) u = dataKs a u ++ dataKs b u := by
  simp [dataKs, List.filterMap_append]

/-- a serial in the per-receiver sequence witnesses a copy of that frame in the log -/
theorem dataKs_mem {evs : List Ev} {u k : Nat} (h : k ∈ dataKs evs u) : dataSends (cp k) evs ≠ [] := by
  induction evs with
  | nil => simp [dataKs] at h
  | cons e rest ih =>
    have : dataKs (e :: rest) u = dataKs [e] u ++ dataKs rest u := dataKs_append [e] rest u
    rw [this] at h
    have hs : dataSends (cp k) (e :: rest) = dataSends (cp k) [e] ++ dataSends (cp k) rest := dataSends_append _ [e] rest
    rw [hs]
    rcases List.mem_append.mp h with h1 | h1
    · have hne : dataSends (cp k) [e] ≠ [] := by
        cases e with
        | send v c f =>
          by_cases hvu : v = u
          · subst hvu
            cases hb : f.body with
            | data k' =>
              have hk : k = k' := by simpa [dataKs, hb] using h1
              subst hk
              simp [dataSends, cp, hb]
            | _ => simp [dataKs, hb] at h1
          · simp [dataKs] at h1
            exact absurd h1.1 hvu
        | _ => simp [dataKs] at h1
      intro hnil
      exact hne (List.append_eq_nil_iff.mp hnil).1
    · intro hnil
      exact ih h1 (List.append_eq_nil_iff.mp hnil).2

/-- the state-level invariant: every receiver's data frames are in non-decreasing serial order and below the bound -/
def Ordered (s : State) (b : Nat) : Prop :=
  ∀ u, (dataKs s.out u).Pairwise (· ≤ ·) ∧ ∀ k ∈ dataKs s.out u, k < b

theorem ordered_mono {s : State} {b b' : Nat} (h : Ordered s b) (hb : b ≤ b') : Ordered s b' :=
  fun u => ⟨(h u).1, fun k hk => Nat.lt_of_lt_of_le ((h u).2 k hk) hb⟩

/-- an operation that writes no copy of any frame keeps the invariant -/
theorem ordered_quiet {s s' : State} {b : Nat} (h : Ordered s b) (hq : ∀ j, QE (cp j) s s') : Ordered s' b := by
  intro u
  obtain ⟨ext, ho, _⟩ := hq 0
  have hnone : dataKs ext u = [] := by
    cases hd : dataKs ext u with
    | nil => rfl
    | cons k rest =>
      exfalso
      obtain ⟨ext', ho', hq'⟩ := hq k
      have : ext' = ext := List.append_cancel_left (ho'.symm.trans ho)
      subst this
      exact dataKs_mem (u := u) (by rw [hd]; simp) hq'
  rw [ho, dataKs_append, hnone, List.append_nil]
  exact h u

/-- an operation that writes copies of frame `k` only, `k` at or above the bound, keeps the invariant with bound `k+1` -/
theorem ordered_step {s s' : State} {b k : Nat} (h : Ordered s b) (hk : b ≤ k) (hq : ∀ j, j ≠ k → QE (cp j) s s') :
    Ordered s' (k + 1) := by
  intro u
  obtain ⟨ext, ho, _⟩ := hq (k + 1) (by omega)
  have hall : ∀ x ∈ dataKs ext u, x = k := by
    intro x hx
    apply Classical.byContradiction
    intro hne
    obtain ⟨ext', ho', hq'⟩ := hq x hne
    have : ext' = ext := List.append_cancel_left (ho'.symm.trans ho)
    subst this
    exact dataKs_mem hx hq'
  rw [ho, dataKs_append]
  refine ⟨List.pairwise_append.mpr ⟨(h u).1, ?_, fun a ha c hc => ?_⟩, fun x hx => ?_⟩
  · exact List.pairwise_of_forall_mem_list (fun a ha c hc => by rw [hall a ha, hall c hc]; exact Nat.le_refl _)
  · rw [hall c hc]; have := (h u).2 a ha; omega
  · rcases List.mem_append.mp hx with h1 | h1
    · have := (h u).2 x h1; omega
    · rw [hall x h1]; exact Nat.lt_succ_self _

/-! ## rounds whose frames carry increasing serial numbers -/

/-- the serials of the frames of `reads`, in processing order, are strictly increasing and at least `b` -/
def IncFrom : Nat → List Read → Prop
  | _, [] => True
  | b, r :: rest => b ≤ r.h.k ∧ IncFrom (r.h.k + 1) rest

def lastBound : Nat → List Read → Nat
  | b, [] => b
  | _, r :: rest => lastBound (r.h.k + 1) rest

theorem readAll_ordered (cfg : Cfg) : ∀ (rs : List Read) (s : State) (b : Nat), Ordered s b → IncFrom b rs →
    Ordered (readAll cfg rs s) (lastBound b rs)
  | [], _, _, h, _ => h
  | r :: rest, s, b, h, hi => by
    unfold readAll
    exact readAll_ordered cfg rest _ _ (ordered_step h hi.1 (fun j hj => readOne_QE cfg (tag_cp cfg j) (ctl_cp j) s r (by show (Body.data r.h.k == Body.data j) = false; simp; exact fun e => hj e.symm))) hi.2

theorem IncFrom_filter (p : Read → Bool) : ∀ (rs : List Read) (b : Nat), IncFrom b rs → IncFrom b (rs.filter p)
  | [], _, _ => trivial
  | r :: rest, b, h => by
    rw [List.filter_cons]
    split
    · exact ⟨h.1, IncFrom_filter p rest _ h.2⟩
    · have : IncFrom b rest := by
        cases rest with
        | nil => trivial
        | cons r2 rest2 => exact ⟨by have h1 := h.1; have h2 := h.2.1; omega, h.2.2⟩
      exact IncFrom_filter p rest b this

theorem lastBound_ge : ∀ (rs : List Read) (b : Nat), IncFrom b rs → b ≤ lastBound b rs
  | [], _, _ => Nat.le_refl _
  | r :: rest, b, h => by
    have := lastBound_ge rest (r.h.k + 1) h.2
    show b ≤ lastBound (r.h.k + 1) rest
    have := h.1; omega

theorem lastBound_filter_le (p : Read → Bool) : ∀ (rs : List Read) (b : Nat), IncFrom b rs →
    lastBound b (rs.filter p) ≤ lastBound b rs
  | [], _, _ => Nat.le_refl _
  | r :: rest, b, h => by
    rw [List.filter_cons]
    split
    · exact lastBound_filter_le p rest _ h.2
    · have hrest : IncFrom b rest := by
        cases rest with
        | nil => trivial
        | cons r2 rest2 => exact ⟨by have h1 := h.1; have h2 := h.2.1; omega, h.2.2⟩
      refine Nat.le_trans (lastBound_filter_le p rest b hrest) ?_
      show lastBound b rest ≤ lastBound (r.h.k + 1) rest
      clear hrest
      cases rest with
      | nil => show b ≤ r.h.k + 1; have := h.1; omega
      | cons r2 rest2 => exact Nat.le_refl _

/-- the frames of all rounds, in processing order -/
def IncRounds : Nat → List Round → Prop
  | _, [] => True
  | b, r :: rest => IncFrom b r.reads ∧ IncRounds (lastBound b r.reads) rest

def roundsBound : Nat → List Round → Nat
  | b, [] => b
  | b, r :: rest => roundsBound (lastBound b r.reads) rest

theorem step_ordered (cfg : Cfg) (s : State) (r : Round) (b : Nat) (h : Ordered s b) (hi : IncFrom b r.reads) :
    Ordered (step cfg s r) (lastBound b r.reads) := by
  have hge := lastBound_ge r.reads b hi
  unfold step
  split
  · exact ordered_mono h hge
  · dsimp only
    refine ordered_quiet ?_ (fun j => ticks_QE cfg (tag_cp cfg j) (ctl_cp j) _)
    unfold ioStep
    have h0 : Ordered (envStep s r) b := ordered_quiet h (fun j => QE_same rfl)
    split
    · dsimp only
      have ha : Ordered (if r.accept then acceptStep cfg (envStep s r) else envStep s r) b := by
        split
        · exact ordered_quiet h0 (fun j => accept_QE cfg (tag_cp cfg j) (ctl_cp j) _)
        · exact h0
      have hw : ∀ w, Ordered { (if r.accept then acceptStep cfg (envStep s r) else envStep s r) with wlist := w } b :=
        fun w => ordered_quiet ha (fun j => QE_same rfl)
      have hf := IncFrom_filter (fun rd => ((envStep s r).find rd.uid).isSome) r.reads b hi
      exact ordered_mono (readAll_ordered cfg _ _ b (hw _) hf) (lastBound_filter_le _ r.reads b hi)
    · exact ordered_mono h0 hge

theorem run_ordered (cfg : Cfg) (rs : List Round) (hi : IncRounds 0 rs) : Ordered (run cfg rs) (roundsBound 0 rs) := by
  unfold run
  have h0 : Ordered (init cfg) 0 := by
    unfold init
    refine ordered_quiet ?_ (fun j => logAt_QE cfg (tag_cp cfg j) (ctl_cp j) 20 _)
    intro u; simp [dataKs]
  have : ∀ (rs : List Round) (s : State) (b : Nat), Ordered s b → IncRounds b rs →
      Ordered (rs.foldl (step cfg) s) (roundsBound b rs) := by
    intro rs
    induction rs with
    | nil => intro s b h _; exact h
    | cons r rest ih => intro s b h hi; exact ih _ _ (step_ordered cfg s r b h hi.1) hi.2
  exact this rs _ 0 h0 hi

/-! ## frames of a kind nothing ever sends -/

/-- a body predicate that is false on every frame the manager originates outside failure handling and on every data
    frame is never satisfied by anything written in any history -/
theorem run_quiet (cfg : Cfg) {B : Body → Bool} (hB : Tag cfg B) (hc : Ctl B) (hd : ∀ k, B (.data k) = false)
    (rs : List Round) : dataSends B (run cfg rs).out = [] := by
  have hstep : ∀ (s : State) (r : Round), QE B s (step cfg s r) := by
    intro s r
    unfold step
    split
    · exact QE.refl B s
    · dsimp only
      refine QE.trans ?_ (ticks_QE cfg hB hc _)
      unfold ioStep
      have h0 : QE B s (envStep s r) := QE_same rfl
      split
      · dsimp only
        have ha : QE B s (if r.accept then acceptStep cfg (envStep s r) else envStep s r) := by
          split
          · exact h0.trans (accept_QE cfg hB hc _)
          · exact h0
        have hw : ∀ w, QE B s { (if r.accept then acceptStep cfg (envStep s r) else envStep s r) with wlist := w } :=
          fun w => ha.trans (QE_same rfl)
        have hr : ∀ (rds : List Read) (s0 : State), QE B s0 (readAll cfg rds s0) := by
          intro rds
          induction rds with
          | nil => intro s0; exact QE.refl B s0
          | cons rd rest ih => intro s0; unfold readAll; exact (readOne_QE cfg hB hc s0 rd (hd _)).trans (ih _)
        exact (hw _).trans (hr _ _)
      · exact h0
  have hall : ∀ (rs : List Round) (s : State), QE B s (rs.foldl (step cfg) s) := by
    intro rs
    induction rs with
    | nil => intro s; exact QE.refl B s
    | cons r rest ih => intro s; exact (hstep s r).trans (ih _)
  have hlog : ∀ s0 : State, s0.out = [] → dataSends B (logAt cfg (fwdTop cfg) 20 s0).out = [] := by
    intro s0 he
    obtain ⟨ext, ho, hq⟩ := logAt_QE cfg hB hc 20 s0
    rw [ho, he]; simpa using hq
  have h0 : dataSends B (init cfg).out = [] := by
    unfold init
    exact hlog _ rfl
  obtain ⟨ext, ho, hq⟩ := hall rs (init cfg)
  unfold run
  rw [ho, dataSends_append, h0, hq]; rfl

end Pyrtma.Mgr
