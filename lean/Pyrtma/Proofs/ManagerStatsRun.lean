import Pyrtma.Proofs.ManagerStatsTraffic
import Pyrtma.Proofs.ManagerStatsHist
/-!
# The whole run: `Spec.runSpec` on the model's own run reports no C18 error
-/
namespace Pyrtma.Mgr
open Spec

theorem q18_checkC05 (a : A) (all : List Ev) (senderOf : Nat → Nat) : Q18 a (checkC05 a all senderOf) := by
  unfold checkC05
  dsimp only
  q18

theorem q18_checkNoNotice (cfg : Cfg) (a : A) (all : List Ev) : Q18 a (checkNoNoticeAboutNotices cfg a all) := by
  unfold checkNoNoticeAboutNotices
  q18

/-- the per-round event logs of the model from state `x` on, the log starting afresh every round -/
def outsFrom (cfg : Cfg) : State → List Round → List (List Ev)
  | _, [] => []
  | x, r :: rs => (stepR cfg x r).out :: outsFrom cfg (stepR cfg x r) rs

theorem outsFrom_length (cfg : Cfg) : ∀ (rs : List Round) (x : State), (outsFrom cfg x rs).length = rs.length
  | [], _ => rfl
  | r :: rs, x => by simp [outsFrom, outsFrom_length cfg rs]

theorem modelRun_fold (cfg : Cfg) : ∀ (rs : List Round) (acc : List (List Ev)) (x : State),
    (rs.foldl (fun (p : List (List Ev) × State) r =>
      let s' := step cfg { p.2 with out := [] } r
      (p.1 ++ [s'.out], s')) (acc, x)).1 = acc ++ outsFrom cfg x rs
  | [], acc, x => by simp [outsFrom]
  | r :: rs, acc, x => by
    simp only [List.foldl_cons]
    rw [modelRun_fold cfg rs]
    simp [outsFrom, stepR]

/-- what the driver's `modelRun` hands the Spec: the log of the start-up, then one log per round -/
theorem modelRun_obs (cfg : Cfg) (rs : List Round) :
    (Pyrtma.Drv.Manager.modelRun cfg rs).1 = (init cfg).out :: outsFrom cfg (init cfg) rs := by
  have hf := modelRun_fold cfg rs [(init cfg).out] (init cfg)
  unfold Pyrtma.Drv.Manager.modelRun
  dsimp only
  generalize (rs.foldl (fun (p : List (List Ev) × State) r =>
      let s' := step cfg { p.2 with out := [] } r
      (p.1 ++ [s'.out], s')) ([(init cfg).out], init cfg)) = q at hf ⊢
  obtain ⟨q1, q2⟩ := q
  exact hf

theorem modelRun_fold_state (cfg : Cfg) : ∀ (rs : List Round) (acc : List (List Ev)) (x : State),
    (rs.foldl (fun (p : List (List Ev) × State) r =>
      let s' := step cfg { p.2 with out := [] } r
      (p.1 ++ [s'.out], s')) (acc, x)).2 = rs.foldl (stepR cfg) x
  | [], _, _ => rfl
  | r :: rs, acc, x => by
    simp only [List.foldl_cons]
    rw [modelRun_fold_state cfg rs]
    rfl

theorem mrPair_fold_state (cfg : Cfg) : ∀ (rs : List Round) (p : State × A),
    (rs.foldl (fun (p : State × A) r => (stepR cfg p.1 r, round cfg p.2 r (stepR cfg p.1 r).out)) p).1 = rs.foldl (stepR cfg) p.1
  | [], _ => rfl
  | r :: rs, p => by
    simp only [List.foldl_cons]
    rw [mrPair_fold_state cfg rs]

/-- the final state of the driver's `modelRun` is the model component of `mrPair` -/
theorem modelRun_state (cfg : Cfg) (rs : List Round) : (Pyrtma.Drv.Manager.modelRun cfg rs).2 = (mrPair cfg rs).1 := by
  have hf := modelRun_fold_state cfg rs [(init cfg).out] (init cfg)
  have hm := mrPair_fold_state cfg rs (init cfg, ({} : A))
  unfold mrPair
  rw [hm]
  unfold Pyrtma.Drv.Manager.modelRun
  dsimp only
  generalize (rs.foldl (fun (p : List (List Ev) × State) r =>
      let s' := step cfg { p.2 with out := [] } r
      (p.1 ++ [s'.out], s')) ([(init cfg).out], init cfg)) = q at hf ⊢
  obtain ⟨q1, q2⟩ := q
  exact hf

/-- `Spec.runSpec`'s fold over the rounds and their logs is the abstract component of `mrPair`'s fold -/
theorem pairs_fold (cfg : Cfg) : ∀ (rs : List Round) (x : State) (a : A),
    (List.zip rs (outsFrom cfg x rs)).foldl (fun a p => round cfg a p.1 p.2) a =
      (rs.foldl (fun (p : State × A) r => (stepR cfg p.1 r, round cfg p.2 r (stepR cfg p.1 r).out)) (x, a)).2
  | [], _, _ => rfl
  | r :: rs, x, a => by
    simp only [outsFrom, List.zip_cons_cons, List.foldl_cons]
    exact pairs_fold cfg rs _ _

theorem noWrap_suffix {cfg : Cfg} {e h : List Mark} (hn : NoWrap cfg (e ++ h)) : NoWrap cfg h := by
  intro t ht
  have := hn t ht
  rw [List.count_append] at this
  omega

theorem fold_grows (cfg : Cfg) : ∀ (rs : List Round) (p : State × A),
    ∃ e, (rs.foldl (fun (p : State × A) r => (stepR cfg p.1 r, round cfg p.2 r (stepR cfg p.1 r).out)) p).1.hist = e ++ p.1.hist
  | [], p => ⟨[], rfl⟩
  | r :: rs, p => by
    simp only [List.foldl_cons]
    obtain ⟨e1, h1⟩ := fold_grows cfg rs (stepR cfg p.1 r, round cfg p.2 r (stepR cfg p.1 r).out)
    obtain ⟨e2, h2⟩ := hist_suffix_step cfg { p.1 with out := [] } r
    exact ⟨e1 ++ e2, by rw [h1]; show e1 ++ (step cfg { p.1 with out := [] } r).hist = _; rw [h2, List.append_assoc]⟩

section withcfg
variable {cfg : Cfg} (ok : CfgOK cfg) (hfuel : cfg.fuel = 0)
include ok hfuel

/-- **one round adds no C18 error**: `Spec.round` on the model's own events of the round -/
theorem round_e18 {x : State} {a : A} (h : RInv cfg x a) (hna : MgrNotAll cfg) (hord : OrderGood cfg)
    (hsz : 0 < cfg.trafficSize) (hneg : mgrType cfg (-1) = false) (r : Round) (hr : RoundOK r)
    (hnw : NoWrap cfg (stepR cfg x r).hist) : (round cfg a r (stepR cfg x r).out).e18 = a.e18 := by
  have ht : timingPart cfg (roundPre cfg a r (stepR cfg x r).out) (lastEvs (stepR cfg x r).out) =
      roundPre cfg a r (stepR cfg x r).out := timing_round ok hfuel h hna hord r hr hnw
  rw [round_eq, tail_parts, ht, traffic_round ok hfuel h hna hord hsz hneg r hr hnw _ rfl]
  obtain ⟨x2, T, a', rT, rR, lastIO, hP, _⟩ := round_pre ok hfuel h hna hord r hr
  rw [← hP.pre18]
  unfold infoReset trafficReset timingReset A.e18
  repeat' split
  all_goals rfl

theorem fold_e18 (hna : MgrNotAll cfg) (hord : OrderGood cfg) (hsz : 0 < cfg.trafficSize) (hneg : mgrType cfg (-1) = false) :
    ∀ (rs : List Round) (p : State × A), RInv cfg p.1 p.2 → (∀ r ∈ rs, RoundOK r) →
      NoWrap cfg (rs.foldl (fun (p : State × A) r => (stepR cfg p.1 r, round cfg p.2 r (stepR cfg p.1 r).out)) p).1.hist →
      (rs.foldl (fun (p : State × A) r => (stepR cfg p.1 r, round cfg p.2 r (stepR cfg p.1 r).out)) p).2.e18 = p.2.e18
  | [], _, _, _, _ => rfl
  | r :: rs, p, h, hr, hnw => by
    simp only [List.foldl_cons] at hnw ⊢
    have hr1 : RoundOK r := hr r (by simp)
    obtain ⟨e, he⟩ := fold_grows cfg rs (stepR cfg p.1 r, round cfg p.2 r (stepR cfg p.1 r).out)
    have hnw1 : NoWrap cfg (stepR cfg p.1 r).hist := by rw [he] at hnw; exact noWrap_suffix hnw
    rw [fold_e18 hna hord hsz hneg rs _ (round_inv ok hfuel h hna hord r hr1) (fun r' hr' => hr r' (by simp [hr'])) hnw]
    exact round_e18 ok hfuel h hna hord hsz hneg r hr1 hnw1

/-- **the whole run**: judged by `Spec.runSpec` on its own events, the model gets no C18 error -/
theorem runSpec_e18 (hna : MgrNotAll cfg) (hord : OrderGood cfg) (hsz : 0 < cfg.trafficSize) (hneg : mgrType cfg (-1) = false)
    (rs : List Round) (hrs : ∀ r ∈ rs, RoundOK r) (hnw : NoWrap cfg (mrPair cfg rs).1.hist) :
    (runSpec cfg rs (Pyrtma.Drv.Manager.modelRun cfg rs).1 none).e18 = [] := by
  rw [modelRun_obs]
  unfold runSpec
  dsimp only
  have hlen : ((((init cfg).out :: outsFrom cfg (init cfg) rs).length == rs.length + 1) || (none : Option String).isSome) = true := by
    simp [outsFrom_length]
  rw [hlen]
  have hchk : ({} : A).chk true "C03" "the manager did not play every round of the script" = ({} : A) := rfl
  rw [hchk]
  have h1 : ∀ (a0 : A) (all : List Ev) (so : Nat → Nat), (checkNoNoticeAboutNotices cfg (checkC05 a0 all so) all).e18 = a0.e18 :=
    fun a0 all so => ((q18_checkC05 a0 all so).trans (q18_checkNoNotice cfg _ all)).2
  rw [h1]
  simp only [List.drop_one, List.tail_cons]
  rw [pairs_fold]
  exact (fold_e18 ok hfuel hna hord hsz hneg rs _ (rinv_init ok hfuel) hrs hnw).trans rfl

end withcfg

end Pyrtma.Mgr
