import Pyrtma.Proofs.ManagerStatsSim
/-!
# The TIMING clause of the Spec on the model's own run (C18)
-/
namespace Pyrtma.Mgr
open Spec

theorem foldl_fix {α β : Type} (f : α → β → α) (a : α) : ∀ l : List β, (∀ q ∈ l, f a q = a) → l.foldl f a = a
  | [], _ => rfl
  | q :: l, h => by
    simp only [List.foldl_cons]
    rw [h q (by simp)]
    exact foldl_fix f a l (fun q' hq' => h q' (by simp [hq']))

theorem chk_true (a : A) (p c : String) : a.chk true p c = a := rfl

theorem chk_of {a : A} {ok : Bool} {p c : String} (h : ok = true) : a.chk ok p c = a := by subst h; rfl

/-- `Counter[t]` of a reported table, as `Spec.checkTiming` reads it -/
theorem got_eq_ctrVal (cs : List (Int × Nat)) (t : Int) :
    (match cs.find? (·.1 == t) with | some e => e.2 | none => 0) = ctrVal cs t := rfl

/-- the four conditions `Spec.checkTiming` checks of one TIMING_MESSAGE `(cs, ps)` -/
structure TimingOK (cfg : Cfg) (a : A) (evs : List Ev) (cs : List (Int × Nat)) (ps : List (Int × Int)) : Prop where
  counts : ∀ q ∈ a.pubT, (decide (0 ≤ q.1) && decide (q.1 < cfg.maxTypes)) = true → ctrVal cs q.1 = q.2 % 65536
  seen : ∀ e ∈ cs, (isMgrType cfg e.1 || isControl cfg e.1) = false → a.pubT.any (·.1 == e.1) = true
  recv : ∀ q ∈ a.recvT, (decide (0 ≤ q.1.2) && decide (q.1.2 < cfg.maxTypes) && decide (q.2 < 65536)) = true → q.2 ≤ ctrVal cs q.1.2
  pids : ∀ m ∈ a.mods, (m.alive && m.connected && m.modId != 0 && m.pid != 0 &&
      ((a.mods.filter (fun o => (o.alive || (closes evs).contains o.uid) && o.modId == m.modId)).length == 1)) = true →
      ps.contains (m.modId, m.pid) = true

theorem checkTiming_fix (cfg : Cfg) (a : A) (evs : List Ev)
    (h : ∀ p ∈ sends evs, ∀ cs ps, p.2.2.body = .timing cs ps → TimingOK cfg a evs cs ps) : checkTiming cfg a evs = a := by
  unfold checkTiming
  apply foldl_fix
  intro p hp
  cases hb : p.2.2.body with
  | timing cs ps =>
    have ht := h p hp cs ps hb
    simp only
    rw [foldl_fix _ a a.pubT, foldl_fix _ a cs, foldl_fix _ a a.recvT, foldl_fix _ a a.mods]
    · intro m hm
      split
      · rename_i hc
        exact chk_of (ht.pids m hm hc)
      · rfl
    · intro q hq
      split
      · rename_i hc
        have := ht.recv q hq hc
        exact chk_of (decide_eq_true (by show q.2 ≤ ctrVal cs q.1.2; exact this))
      · rfl
    · intro e he
      split
      · rfl
      · rename_i hc
        exact chk_of (ht.seen e he (by simpa using hc))
    · intro q hq
      split
      · rename_i hc
        have := ht.counts q hq hc
        exact chk_of (by show (ctrVal cs q.1 == q.2 % 65536) = true; rw [this]; simp)
      · rfl
  | _ => rfl

/-! ## the reported counts against the Spec's tallies -/

theorem nodup_tally (E : List Mark) : (ctrKeys (tallyOn [] E)).Nodup := tallyOn_nodup [] E (by simp [ctrKeys])
theorem pos_tally (E : List Mark) : CtrPos (tallyOn [] E) := tallyOn_pos [] E (fun _ h => by cases h)
theorem val_tally (E : List Mark) (t : Int) : ctrVal (tallyOn [] E) t = handled E t := by
  rw [ctrVal_tallyOn]; simp [ctrVal]

/-- a type the Spec tallied is not a manager type, and its tally is the model's count -/
theorem pub_entry (cfg : Cfg) (E : List Mark) {q : Int × Nat} (hq : q ∈ tallyOn [] (cliMarks cfg E)) :
    mgrType cfg q.1 = false ∧ q.2 = handled E q.1 := by
  have hv := ctrVal_mem (nodup_tally _) hq
  rw [val_tally, handled_cliMarks] at hv
  have hp := pos_tally _ q hq
  by_cases hm : mgrType cfg q.1 = true
  · simp [hm] at hv; omega
  · have hm' : mgrType cfg q.1 = false := by simpa using hm
    simp [hm'] at hv
    exact ⟨hm', hv.symm⟩

/-- **exact counts, modulo 2¹⁶**: for every client type the Spec tallied, the TIMING table built from the model's counter
    reports the tally modulo 65536 -/
theorem timingOK_counts (cfg : Cfg) (E : List Mark) (q : Int × Nat) (hq : q ∈ tallyOn [] (cliMarks cfg E))
    (hr : (decide (0 ≤ q.1) && decide (q.1 < cfg.maxTypes)) = true) :
    ctrVal (timingEntries cfg (tallyOn [] E)) q.1 = q.2 % 65536 := by
  obtain ⟨_, hv⟩ := pub_entry cfg E hq
  rw [timingEntries_val cfg _ (nodup_tally E), val_tally, hv]
  have : 0 ≤ q.1 ∧ q.1 < cfg.maxTypes := by simpa using hr
  simp [this, u16]

theorem mem_timingEntries {cfg : Cfg} {c : List (Int × Nat)} {e : Int × Nat} (h : e ∈ timingEntries cfg c) : e.1 ∈ ctrKeys c := by
  unfold timingEntries at h
  have h1 := (List.mem_filter.mp h).1
  obtain ⟨p, hp, rfl⟩ := List.mem_map.mp h1
  exact List.mem_map.mpr ⟨p, (List.mem_filter.mp hp).1, rfl⟩

/-- **nothing is attributed to a type that was not seen**: a client type in the TIMING table was tallied by the Spec -/
theorem timingOK_seen (cfg : Cfg) (E : List Mark) (e : Int × Nat) (he : e ∈ timingEntries cfg (tallyOn [] E))
    (hn : (isMgrType cfg e.1 || isControl cfg e.1) = false) :
    (tallyOn [] (cliMarks cfg E)).any (·.1 == e.1) = true := by
  have hk := mem_timingEntries he
  have hpos := (ctrVal_pos_iff (pos_tally E) e.1).mp hk
  rw [val_tally] at hpos
  have hm : mgrType cfg e.1 = false := by
    rw [Bool.or_eq_false_iff, isMgrType_eq] at hn; exact hn.1
  have : 0 < ctrVal (tallyOn [] (cliMarks cfg E)) e.1 := by rw [val_tally, handled_cliMarks, hm]; simpa using hpos
  have hk2 := (ctrVal_pos_iff (pos_tally _) e.1).mpr this
  obtain ⟨p, hp, hpe⟩ := List.mem_map.mp hk2
  exact List.any_eq_true.mpr ⟨p, hp, by simp [hpe]⟩

/-- **what one observer received is a lower bound**, as long as the count of manager-originated frames of the type has
    not wrapped around -/
theorem timingOK_recv (cfg : Cfg) (E : List Mark) (t : Int) (n : Nat) (hb : n ≤ hmgr cfg E t) (hw : hmgr cfg E t < 65536)
    (hr : (decide (0 ≤ t) && decide (t < cfg.maxTypes) && decide (n < 65536)) = true) :
    n ≤ ctrVal (timingEntries cfg (tallyOn [] E)) t := by
  rw [timingEntries_val cfg _ (nodup_tally E), val_tally]
  have : (0 ≤ t ∧ t < cfg.maxTypes) ∧ n < 65536 := by simpa using hr
  simp only [this.1, and_self, if_true]
  unfold hmgr at hb hw
  by_cases hm : mgrType cfg t = true
  · simp only [hm, if_true] at hb hw
    unfold u16; omega
  · simp only [hm, Bool.false_eq_true, if_false] at hb
    omega

/-! ## the TIMING_MESSAGE frames of the model -/

def isTimingB : Body → Bool
  | .timing _ _ => true
  | _ => false

theorem tag_timing (cfg : Cfg) : Tag cfg isTimingB := ⟨by intros; rfl, by intros; rfl, by intros; rfl⟩
theorem ctlIO_timing : CtlIO isTimingB := by intro _ _ _ _ _ _; rfl

/-- **every TIMING_MESSAGE frame of the periodic section is the report built from the counter table and the module
    table as they are when the section starts** — and there is one only when the TIMING period has elapsed -/
theorem ticks_timing (cfg : Cfg) (s : State) :
    ∀ p ∈ dataSends isTimingB (ticks cfg s).out, p ∈ dataSends isTimingB s.out ∨
      ((cfg.timing && decide (s.now - s.tTiming > 900)) = true ∧
        p.2.body = .timing (timingEntries cfg s.counts) (pidEntries s.mods)) := by
  unfold ticks
  dsimp only
  have h1 : ∀ p ∈ dataSends isTimingB (if (cfg.timing && decide (s.now - s.tTiming > 900)) = true then
      { sendTiming cfg s with tTiming := s.now } else s).out, p ∈ dataSends isTimingB s.out ∨
      ((cfg.timing && decide (s.now - s.tTiming > 900)) = true ∧
        p.2.body = .timing (timingEntries cfg s.counts) (pidEntries s.mods)) := by
    intro p hp
    by_cases ht : (cfg.timing && decide (s.now - s.tTiming > 900)) = true
    · simp only [ht, if_true] at hp
      unfold sendTiming at hp
      rcases fwdTop_sends_self cfg (tag_timing cfg) ({ s with counts := [], inTraffic := true } : State)
        (mgrFrame cfg.mtTiming 0 cfg.szTiming (Body.timing (timingEntries cfg s.counts) (pidEntries s.mods))) p hp with h | h
      · exact Or.inl h
      · exact Or.inr ⟨ht, by rw [h]; rfl⟩
    · simp only [ht, Bool.false_eq_true, if_false] at hp
      exact Or.inl hp
  generalize (if (cfg.timing && decide (s.now - s.tTiming > 900)) = true then
      { sendTiming cfg s with tTiming := s.now } else s) = s1 at h1 ⊢
  have h2 : QE isTimingB s1 (if s1.now - s1.tTraffic > 1000 then sendTraffic cfg s1 else s1) := by
    split
    · unfold sendTraffic
      refine (((QE_same (s' := { s1 with inTraffic := true }) rfl).trans (logAt_QI cfg (tag_timing cfg) ctlIO_timing 10 _)).trans
        (foldl_fwd_QI cfg (tag_timing cfg) ctlIO_timing _ _ ?_)).trans (QE_same rfl)
      intro f hf
      unfold trafficFrames at hf
      obtain ⟨q, _, rfl⟩ := List.mem_map.mp hf
      rfl
    · exact QE.refl _ s1
  generalize (if s1.now - s1.tTraffic > 1000 then sendTraffic cfg s1 else s1) = s2 at h2 ⊢
  have h3 : QE isTimingB s2 (if s2.now - s2.tInfo > 5000 then sendActive cfg s2 else s2) := by
    split
    · unfold sendActive
      exact (((logAt_QI cfg (tag_timing cfg) ctlIO_timing 10 s2).trans (infoAll_QI cfg (tag_timing cfg) ctlIO_timing _ _)).trans
        (fwdTop_QI cfg (tag_timing cfg) ctlIO_timing _ _ rfl)).trans (QE_same rfl)
    · exact QE.refl _ s2
  intro p hp
  rw [dataSends_of_QE h3, dataSends_of_QE h2] at hp
  exact h1 p hp

/-- the sends the Spec looks at against `dataSends` -/
theorem mem_dataSends_of_sends {B : Body → Bool} {evs : List Ev} {p : Nat × Nat × Frame} (hp : p ∈ sends evs)
    (hb : B p.2.2.body = true) : (p.1, p.2.2) ∈ dataSends B evs := by
  unfold sends at hp
  unfold dataSends
  obtain ⟨e, he, hpe⟩ := List.mem_filterMap.mp hp
  refine List.mem_filterMap.mpr ⟨e, he, ?_⟩
  cases e with
  | send u c f => simp at hpe; subst hpe; simp [hb]
  | _ => simp at hpe

end Pyrtma.Mgr
