import Pyrtma.Proofs.ManagerStatsSim
/-!
# The TIMING clause of the Spec on the model's own run (C18)
-/
namespace Pyrtma.Mgr
open Spec

theorem foldl_fix {α β : Type} (f : α → β → α) (a : α) : ∀ l : List β, (∀ q ∈ l, f a q = a) → l.foldl f a = a
  | [], _ => rfl
  | q :: l, h => by
    simp only [List.foldl_cons]
    rw [h q (by simp)]
    exact foldl_fix f a l (fun q' hq' => h q' (by simp [hq']))

theorem chk_true (a : A) (p c : String) : a.chk true p c = a := rfl

theorem chk_of {a : A} {ok : Bool} {p c : String} (h : ok = true) : a.chk ok p c = a := by subst h; rfl

/-- `Counter[t]` of a reported table, as `Spec.checkTiming` reads it -/
theorem got_eq_ctrVal (cs : List (Int × Nat)) (t : Int) :
    (match cs.find? (·.1 == t) with | some e => e.2 | none => 0) = ctrVal cs t := rfl

/-- the four conditions `Spec.checkTiming` checks of one TIMING_MESSAGE `(cs, ps)` -/
structure TimingOK (cfg : Cfg) (a : A) (evs : List Ev) (cs : List (Int × Nat)) (ps : List (Int × Int)) : Prop where
  counts : ∀ q ∈ a.pubT, (decide (0 ≤ q.1) && decide (q.1 < cfg.maxTypes)) = true → ctrVal cs q.1 = q.2 % 65536
  seen : ∀ e ∈ cs, (isMgrType cfg e.1 || isControl cfg e.1) = false → a.pubT.any (·.1 == e.1) = true
  recv : ∀ q ∈ a.recvT, (decide (0 ≤ q.1.2) && decide (q.1.2 < cfg.maxTypes) && decide (q.2 < 65536)) = true → q.2 ≤ ctrVal cs q.1.2
  pids : ∀ m ∈ a.mods, (m.alive && m.connected && m.modId != 0 && m.pid != 0 &&
      ((a.mods.filter (fun o => (o.alive || (closes evs).contains o.uid) && o.modId == m.modId)).length == 1)) = true →
      ps.contains (m.modId, m.pid) = true

theorem checkTiming_fix (cfg : Cfg) (a : A) (evs : List Ev)
    (h : ∀ p ∈ sends evs, ∀ cs ps, p.2.2.body = .timing cs ps → TimingOK cfg a evs cs ps) : checkTiming cfg a evs = a := by
  unfold checkTiming
  apply foldl_fix
  intro p hp
  cases hb : p.2.2.body with
  | timing cs ps =>
    have ht := h p hp cs ps hb
    simp only
    rw [foldl_fix _ a a.pubT, foldl_fix _ a cs, foldl_fix _ a a.recvT, foldl_fix _ a a.mods]
    · intro m hm
      split
      · rename_i hc
        exact chk_of (ht.pids m hm hc)
      · rfl
    · intro q hq
      split
      · rename_i hc
        have := ht.recv q hq hc
        exact chk_of (decide_eq_true (by show q.2 ≤ ctrVal cs q.1.2; exact this))
      · rfl
    · intro e he
      split
      · rfl
      · rename_i hc
        exact chk_of (ht.seen e he (by simpa using hc))
    · intro q hq
      split
      · rename_i hc
        have := ht.counts q hq hc
        exact chk_of (by show (ctrVal cs q.1 == q.2 % 65536) = true; rw [this]; simp)
      · rfl
  | _ => rfl

/-! ## the reported counts against the Spec's tallies -/

theorem nodup_tally (E : List Mark) : (ctrKeys (tallyOn [] E)).Nodup := tallyOn_nodup [] E (by simp [ctrKeys])
theorem pos_tally (E : List Mark) : CtrPos (tallyOn [] E) := tallyOn_pos [] E (fun _ h => by cases h)
theorem val_tally (E : List Mark) (t : Int) : ctrVal (tallyOn [] E) t = handled E t := by
  rw [ctrVal_tallyOn]; simp [ctrVal]

/-- a type the Spec tallied is not a manager type, and its tally is the model's count -/
theorem pub_entry (cfg : Cfg) (E : List Mark) {q : Int × Nat} (hq : q ∈ tallyOn [] (cliMarks cfg E)) :
    mgrType cfg q.1 = false ∧ q.2 = handled E q.1 := by
  have hv := ctrVal_mem (nodup_tally _) hq
  rw [val_tally, handled_cliMarks] at hv
  have hp := pos_tally _ q hq
  by_cases hm : mgrType cfg q.1 = true
  · simp [hm] at hv; omega
  · have hm' : mgrType cfg q.1 = false := by simpa using hm
    simp [hm'] at hv
    exact ⟨hm', hv.symm⟩

/-- **exact counts, modulo 2¹⁶**: for every client type the Spec tallied, the TIMING table built from the model's counter
    reports the tally modulo 65536 -/
theorem timingOK_counts (cfg : Cfg) (E : List Mark) (q : Int × Nat) (hq : q ∈ tallyOn [] (cliMarks cfg E))
    (hr : (decide (0 ≤ q.1) && decide (q.1 < cfg.maxTypes)) = true) :
    ctrVal (timingEntries cfg (tallyOn [] E)) q.1 = q.2 % 65536 := by
  obtain ⟨_, hv⟩ := pub_entry cfg E hq
  rw [timingEntries_val cfg _ (nodup_tally E), val_tally, hv]
  have : 0 ≤ q.1 ∧ q.1 < cfg.maxTypes := by simpa using hr
  simp [this, u16]

theorem mem_timingEntries {cfg : Cfg} {c : List (Int × Nat)} {e : Int × Nat} (h : e ∈ timingEntries cfg c) : e.1 ∈ ctrKeys c := by
  unfold timingEntries at h
  have h1 := (List.mem_filter.mp h).1
  obtain ⟨p, hp, rfl⟩ := List.mem_map.mp h1
  exact List.mem_map.mpr ⟨p, (List.mem_filter.mp hp).1, rfl⟩

/-- **nothing is attributed to a type that was not seen**: a client type in the TIMING table was tallied by the Spec -/
theorem timingOK_seen (cfg : Cfg) (E : List Mark) (e : Int × Nat) (he : e ∈ timingEntries cfg (tallyOn [] E))
    (hn : (isMgrType cfg e.1 || isControl cfg e.1) = false) :
    (tallyOn [] (cliMarks cfg E)).any (·.1 == e.1) = true := by
  have hk := mem_timingEntries he
  have hpos := (ctrVal_pos_iff (pos_tally E) e.1).mp hk
  rw [val_tally] at hpos
  have hm : mgrType cfg e.1 = false := by
    rw [Bool.or_eq_false_iff, isMgrType_eq] at hn; exact hn.1
  have : 0 < ctrVal (tallyOn [] (cliMarks cfg E)) e.1 := by rw [val_tally, handled_cliMarks, hm]; simpa using hpos
  have hk2 := (ctrVal_pos_iff (pos_tally _) e.1).mpr this
  obtain ⟨p, hp, hpe⟩ := List.mem_map.mp hk2
  exact List.any_eq_true.mpr ⟨p, hp, by simp [hpe]⟩

/-- **what one observer received is a lower bound**, as long as the count of manager-originated frames of the type has
    not wrapped around -/
theorem timingOK_recv (cfg : Cfg) (E : List Mark) (t : Int) (n : Nat) (hb : n ≤ hmgr cfg E t) (hw : hmgr cfg E t < 65536)
    (hr : (decide (0 ≤ t) && decide (t < cfg.maxTypes) && decide (n < 65536)) = true) :
    n ≤ ctrVal (timingEntries cfg (tallyOn [] E)) t := by
  rw [timingEntries_val cfg _ (nodup_tally E), val_tally]
  have : (0 ≤ t ∧ t < cfg.maxTypes) ∧ n < 65536 := by simpa using hr
  simp only [this.1, and_self, if_true]
  unfold hmgr at hb hw
  by_cases hm : mgrType cfg t = true
  · simp only [hm, if_true] at hb hw
    unfold u16; omega
  · simp only [hm, Bool.false_eq_true, if_false] at hb
    omega

/-! ## the process ids -/

theorem mem_insertSortedI_self (p : Int × Int) : ∀ l : List (Int × Int), p ∈ insertSortedI p l
  | [] => by simp [insertSortedI]
  | q :: r => by
    unfold insertSortedI
    split
    · simp
    · split
      · simp
      · exact List.mem_cons_of_mem _ (mem_insertSortedI_self p r)

theorem mem_insertSortedI_other (p q : Int × Int) (hne : q.1 ≠ p.1) : ∀ l : List (Int × Int), q ∈ l → q ∈ insertSortedI p l
  | [], h => by cases h
  | x :: r, h => by
    unfold insertSortedI
    split
    · exact List.mem_cons_of_mem _ h
    · split
      · rename_i heq
        rcases List.mem_cons.mp h with rfl | h'
        · exfalso; apply hne; have : p.1 = q.1 := by simpa using heq
          exact this.symm
        · exact List.mem_cons_of_mem _ h'
      · rcases List.mem_cons.mp h with rfl | h'
        · simp
        · exact List.mem_cons_of_mem _ (mem_insertSortedI_other p q hne r h')

theorem pid_fold (id pid : Int) : ∀ (ms : List Module) (acc : List (Int × Int)),
    (∀ m ∈ ms, m.modId = id → m.pid = pid) → ((id, pid) ∈ acc ∨ ∃ m ∈ ms, m.modId = id) →
    (id, pid) ∈ ms.foldl (fun acc m => insertSortedI (m.modId, m.pid) acc) acc
  | [], acc, _, h => by
    rcases h with h | ⟨m, hm, _⟩
    · exact h
    · cases hm
  | m0 :: ms, acc, hall, h => by
    simp only [List.foldl_cons]
    apply pid_fold id pid ms _ (fun m hm => hall m (by simp [hm]))
    by_cases h0 : m0.modId = id
    · left
      have := hall m0 (by simp) h0
      rw [← h0, ← this]; exact mem_insertSortedI_self _ _
    · rcases h with h | ⟨m, hm, hmi⟩
      · left; exact mem_insertSortedI_other _ _ (fun e => h0 e.symm) _ h
      · rcases List.mem_cons.mp hm with rfl | hm'
        · exact absurd hmi h0
        · right; exact ⟨m, hm', hmi⟩

/-- the process id of a module is reported when every table entry with its module id carries that process id -/
theorem pidEntries_contains (ms : List Module) (m : Module) (hm : m ∈ ms) (hp : m.pid ≠ 0)
    (hall : ∀ m' ∈ ms, m'.modId = m.modId → m'.pid = m.pid) : (pidEntries ms).contains (m.modId, m.pid) = true := by
  unfold pidEntries
  rw [List.contains_iff_mem, List.mem_filter]
  exact ⟨pid_fold m.modId m.pid ms [] hall (Or.inr ⟨m, hm, rfl⟩), by simpa using hp⟩

theorem eq_of_length_one {α : Type} {l : List α} (h : l.length = 1) {x y : α} (hx : x ∈ l) (hy : y ∈ l) : x = y := by
  match l, h with
  | [z], _ => simp at hx hy; rw [hx, hy]

/-! ## the TIMING_MESSAGE frames of the model -/

/-- **every TIMING_MESSAGE frame of the periodic section is the report built from the counter table and the module
    table as they are when the section starts** — and there is one only when the TIMING period has elapsed -/
theorem ticks_timing (cfg : Cfg) (s : State) :
    ∀ p ∈ dataSends isTimingB (ticks cfg s).out, p ∈ dataSends isTimingB s.out ∨
      ((cfg.timing && decide (s.now - s.tTiming > cfg.pTiming)) = true ∧
        p.2.body = .timing (timingEntries cfg s.counts) (pidEntries s.mods)) := by
  unfold ticks
  dsimp only
  have h1 : ∀ p ∈ dataSends isTimingB (if (cfg.timing && decide (s.now - s.tTiming > cfg.pTiming)) = true then
      { sendTiming cfg s with tTiming := s.now } else s).out, p ∈ dataSends isTimingB s.out ∨
      ((cfg.timing && decide (s.now - s.tTiming > cfg.pTiming)) = true ∧
        p.2.body = .timing (timingEntries cfg s.counts) (pidEntries s.mods)) := by
    intro p hp
    by_cases ht : (cfg.timing && decide (s.now - s.tTiming > cfg.pTiming)) = true
    · simp only [ht, if_true] at hp
      unfold sendTiming at hp
      rcases fwdTop_sends_self cfg (tag_timing cfg) ({ s with counts := [], inTraffic := true } : State)
        (mgrFrame cfg.mtTiming 0 cfg.szTiming (Body.timing (timingEntries cfg s.counts) (pidEntries s.mods))) p hp with h | h
      · exact Or.inl h
      · exact Or.inr ⟨ht, by rw [h]; rfl⟩
    · simp only [ht, Bool.false_eq_true, if_false] at hp
      exact Or.inl hp
  generalize (if (cfg.timing && decide (s.now - s.tTiming > cfg.pTiming)) = true then
      { sendTiming cfg s with tTiming := s.now } else s) = s1 at h1 ⊢
  have h2 : QE isTimingB s1 (if s1.now - s1.tTraffic > cfg.pTraffic then sendTraffic cfg s1 else s1) := by
    split
    · unfold sendTraffic
      refine (((QE_same (s' := { s1 with inTraffic := true }) rfl).trans (logAt_QI cfg (tag_timing cfg) ctlIO_timing 10 _)).trans
        (foldl_fwd_QI cfg (tag_timing cfg) ctlIO_timing _ _ ?_)).trans (QE_same rfl)
      intro f hf
      unfold trafficFrames at hf
      obtain ⟨q, _, rfl⟩ := List.mem_map.mp hf
      rfl
    · exact QE.refl _ s1
  generalize (if s1.now - s1.tTraffic > cfg.pTraffic then sendTraffic cfg s1 else s1) = s2 at h2 ⊢
  have h3 : QE isTimingB s2 (if s2.now - s2.tInfo > cfg.pInfo then sendActive cfg s2 else s2) := by
    split
    · unfold sendActive
      exact (((logAt_QI cfg (tag_timing cfg) ctlIO_timing 10 s2).trans (infoAll_QI cfg (tag_timing cfg) ctlIO_timing _ _)).trans
        (fwdTop_QI cfg (tag_timing cfg) ctlIO_timing _ _ rfl)).trans (QE_same rfl)
    · exact QE.refl _ s2
  intro p hp
  rw [dataSends_of_QE h3, dataSends_of_QE h2] at hp
  exact h1 p hp

/-- the sends the Spec looks at against `dataSends` -/
theorem mem_dataSends_of_sends {B : Body → Bool} {evs : List Ev} {p : Nat × Nat × Frame} (hp : p ∈ sends evs)
    (hb : B p.2.2.body = true) : (p.1, p.2.2) ∈ dataSends B evs := by
  unfold sends at hp
  unfold dataSends
  obtain ⟨e, he, hpe⟩ := List.mem_filterMap.mp hp
  refine List.mem_filterMap.mpr ⟨e, he, ?_⟩
  cases e with
  | send u c f => simp at hpe; subst hpe; simp [hb]
  | _ => simp at hpe

/-! ## the TIMING clause holds on the model's own run -/

/-- **process ids**: a live, connected module with a non-zero id and pid that is the only holder of its id (among the
    live connections and those that left during the round's last stretch) is reported with its pid — the report is built
    from the module table as it is before the periodic section -/
theorem timingOK_pids {cfg : Cfg} {x2 : State} {a' : A} (hI : MInv cfg x2) (hS : Sim cfg x2 a') (T lastIO : List Ev) (am7 : AMod)
    (h7 : am7 ∈ depMods a'.mods (closes T))
    (hc : (am7.alive && am7.connected && am7.modId != 0 && am7.pid != 0 &&
      (((depMods a'.mods (closes T)).filter (fun o => (o.alive || (closes (lastIO ++ T)).contains o.uid) && o.modId == am7.modId)).length == 1)) = true) :
    (pidEntries x2.mods).contains (am7.modId, am7.pid) = true := by
  simp only [Bool.and_eq_true, bne_iff_ne, ne_eq, beq_iff_eq] at hc
  obtain ⟨⟨⟨⟨hal, _⟩, hid⟩, hpid⟩, hlen⟩ := hc
  -- `am7` is an untouched entry of `a'`
  have hmap := depMods_eq_map a'.mods (closes T)
  rw [hmap] at h7
  obtain ⟨am, ham, hF⟩ := List.mem_map.mp h7
  have hnc : (closes T).contains am.uid = false := by
    cases hq : (closes T).contains am.uid with
    | false => rfl
    | true => rw [hq] at hF; simp only [if_true] at hF; rw [← hF] at hal; simp [deadOf] at hal
  rw [hnc] at hF
  simp only [Bool.false_eq_true, if_false] at hF
  subst hF
  -- its table entry
  have hop : isOpen x2 am.uid = true := by rw [← hS.alive am ham]; exact hal
  have hfs : (x2.find am.uid).isSome = true := by rw [← isOpen_iff_find hI.top]; exact hop
  obtain ⟨m, hm⟩ := Option.isSome_iff_exists.mp hfs
  have hmu := find_uid hm
  have hu0 : am.uid ≠ 0 := by
    have : am.uid ∈ a'.mods.map (·.uid) := List.mem_map.mpr ⟨am, ham, rfl⟩
    rw [hS.uids] at this
    obtain ⟨i, _, he⟩ := List.mem_map.mp this
    omega
  obtain ⟨am0, ham0, hte0⟩ := hS.tab m (mem_of_find hm) (by rw [hmu]; exact hu0)
  have : am0 = am := sim_unique hS ham0 ham (hte0.1.trans hmu)
  subst this
  rw [hte0.2.1, hte0.2.2.1]
  refine pidEntries_contains x2.mods m (mem_of_find hm) (by rw [← hte0.2.2.1]; exact hpid) ?_
  intro m' hm' hid'
  -- any other entry with the same module id is a second holder
  by_cases hz : m'.uid = 0
  · exfalso
    have := hS.zero m' hm' hz
    rw [this, ← hte0.2.1] at hid'
    exact hid hid'.symm
  · obtain ⟨am', ham', hte'⟩ := hS.tab m' hm' hz
    have hf' := find_of_mem hI.k.distinct hm'
    have hop' : isOpen x2 m'.uid = true := isOpen_of_find hf' (hI.top.aopen _ _ hf')
    have hal' : am'.alive = true := by rw [hS.alive am' ham', hte'.1]; exact hop'
    let am'' : AMod := if (closes T).contains am'.uid then deadOf am' else am'
    have hmem'' : am'' ∈ List.map (fun m => if (closes T).contains m.uid = true then deadOf m else m) a'.mods :=
      List.mem_map.mpr ⟨am', ham', rfl⟩
    have huid'' : am''.uid = am'.uid := by show (if _ then _ else _ : AMod).uid = _; split <;> rfl
    have hmod'' : am''.modId = am'.modId := by show (if _ then _ else _ : AMod).modId = _; split <;> rfl
    have hhold'' : ((am''.alive || (closes (lastIO ++ T)).contains am''.uid) && am''.modId == am0.modId) = true := by
      rw [hmod'', hte'.2.1, hid', ← hte0.2.1]
      simp only [beq_self_eq_true, Bool.and_true, Bool.or_eq_true]
      by_cases hq : (closes T).contains am'.uid = true
      · right
        rw [huid'', closes_append]
        simp only [List.contains_eq_mem, List.mem_append, decide_eq_true_eq] at hq ⊢
        exact Or.inr hq
      · left
        show (if (closes T).contains am'.uid = true then deadOf am' else am').alive = true
        simp only [hq, if_false]; exact hal'
    have hhold0 : ((am0.alive || (closes (lastIO ++ T)).contains am0.uid) && am0.modId == am0.modId) = true := by
      simp [hal]
    rw [hmap] at hlen
    have heq := eq_of_length_one hlen (List.mem_filter.mpr ⟨hmem'', hhold''⟩) (List.mem_filter.mpr ⟨h7, hhold0⟩)
    have hu : m'.uid = m.uid := by rw [← hte'.1, ← huid'', heq, hmu]
    have : m' = m := by
      have h1 := find_of_mem hI.k.distinct hm'
      rw [hu, hmu, hm] at h1
      exact (Option.some.inj h1).symm
    rw [this]

/-- fewer than 65536 manager-originated frames of any one type were handled in the whole history: no TIMING or
    MESSAGE_TRAFFIC counter of a manager type has wrapped around (the Spec's lower-bound clause presupposes it; client
    types may wrap) -/
def NoWrap (cfg : Cfg) (h : List Mark) : Prop := ∀ t, mgrType cfg t = true → h.count (.fwd t false) < 65536

theorem hmgr_lt_of_noWrap {cfg : Cfg} {h h' e : List Mark} (hn : NoWrap cfg h) (he : h = e ++ h') (tick : Mark) (t : Int) :
    hmgr cfg (sinceTick tick h') t < 65536 := by
  unfold hmgr
  split
  · rename_i hm
    have h1 := hn t hm
    have h2 : handled (sinceTick tick h') t ≤ h'.count (.fwd t false) :=
      List.Sublist.count_le _ (List.takeWhile_sublist _)
    have h3 : h'.count (.fwd t false) ≤ h.count (.fwd t false) := by rw [he, List.count_append]; omega
    omega
  · omega

section withcfg
variable {cfg : Cfg} (ok : CfgOK cfg) (hfuel : cfg.fuel = 0)
include ok hfuel

/-- **the TIMING clause of one round**: on the model's own events of the round, what `Spec.tail` does about
    TIMING_MESSAGE — `checkTiming` when the period has elapsed, the "no report before its time" check otherwise — leaves
    the abstract state as it is: no `"C18"` error is added -/
theorem timing_round {x : State} {a : A} (h : RInv cfg x a) (hna : MgrNotAll cfg) (hord : OrderGood cfg) (r : Round)
    (hr : RoundOK r) (hnw : NoWrap cfg (stepR cfg x r).hist) :
    (if (cfg.timing && decide ((roundPre cfg a r (stepR cfg x r).out).now - (roundPre cfg a r (stepR cfg x r).out).tTiming > cfg.pTiming)) = true
      then checkTiming cfg (roundPre cfg a r (stepR cfg x r).out) (lastEvs (stepR cfg x r).out)
      else (roundPre cfg a r (stepR cfg x r).out).chk
        (!(sends (lastEvs (stepR cfg x r).out)).any (fun p => match p.2.2.body with | .timing .. => true | _ => false)) "C18"
        "TIMING_MESSAGE sent before its period elapsed") = roundPre cfg a r (stepR cfg x r).out := by
  obtain ⟨x2, T, a', rT, rR, lastIO, hP, hS2, hrT, _, _⟩ := round_pre ok hfuel h hna hord r hr
  generalize ha7 : roundPre cfg a r (stepR cfg x r).out = a7 at hP ⊢
  have hpre := hP.pre
  rw [ha7] at hpre
  have fnow : a7.now = x2.now := by have := congrArg A.now hpre; exact this.trans hS2.now
  have ftT : a7.tTiming = x2.tTiming := by have := congrArg A.tTiming hpre; exact this.trans hS2.tT
  have fpub : a7.pubT = a'.pubT := by have := congrArg A.pubT hpre; exact this
  have frecv : a7.recvT = rT := by have := congrArg A.recvT hpre; exact this
  have fmods : a7.mods = depMods a'.mods (closes T) := by have := congrArg A.mods hpre; exact this
  rw [hP.last, fnow, ftT]
  -- every TIMING frame of the last stretch is the report of this round's tick
  have hsrc : ∀ p ∈ sends (lastIO ++ T), isTimingB p.2.2.body = true →
      (cfg.timing && decide (x2.now - x2.tTiming > cfg.pTiming)) = true ∧
        p.2.2.body = .timing (timingEntries cfg x2.counts) (pidEntries x2.mods) := by
    intro p hp hb
    have h1 := mem_dataSends_of_sends hp hb
    obtain ⟨pfx, hpfx⟩ := hP.io
    have h2 : (p.1, p.2.2) ∈ dataSends isTimingB (ticks cfg x2).out := by
      rw [hP.ev.out, hpfx, List.append_assoc, dataSends_append]
      exact List.mem_append.mpr (Or.inr h1)
    rcases ticks_timing cfg x2 _ h2 with h3 | h3
    · rw [hP.quietT] at h3; cases h3
    · exact h3
  have hgrow : ∃ e, (stepR cfg x r).hist = e ++ x2.hist := by rw [hP.step]; exact ticks_grows cfg x2
  obtain ⟨eg, heg⟩ := hgrow
  by_cases ht : (cfg.timing && decide (x2.now - x2.tTiming > cfg.pTiming)) = true
  · simp only [ht, if_true]
    apply checkTiming_fix
    intro p hp cs ps hb
    obtain ⟨_, hbody⟩ := hsrc p hp (by rw [hb]; rfl)
    rw [hb] at hbody
    simp only [Body.timing.injEq] at hbody
    obtain ⟨rfl, rfl⟩ := hbody
    have hT : cfg.timing = true := by simp only [Bool.and_eq_true] at ht; exact ht.1
    have hcounts : x2.counts = tallyOn [] (sinceTick .timingTick x2.hist) := by
      have := hP.inv2.stat.counts; rw [hT] at this; simpa using this
    rw [hcounts]
    refine ⟨?_, ?_, ?_, ?_⟩
    · intro q hq hr'
      rw [fpub, hS2.pubT] at hq
      exact timingOK_counts cfg _ q hq hr'
    · intro e he hn
      rw [fpub, hS2.pubT]
      exact timingOK_seen cfg _ e he hn
    · intro q hq hr'
      rw [frecv] at hq
      exact timingOK_recv cfg _ q.1.2 q.2 (hrT q hq) (hmgr_lt_of_noWrap hnw heg _ _) hr'
    · intro m hm hc
      rw [fmods] at hm hc
      exact timingOK_pids hP.inv2 hS2 T lastIO m hm hc
  · simp only [ht, Bool.false_eq_true, if_false]
    refine chk_of ?_
    rw [Bool.not_eq_true', List.any_eq_false]
    intro p hp hcon
    have hb : isTimingB p.2.2.body = true := by
      cases hbd : p.2.2.body <;> simp [hbd] at hcon ⊢ <;> rfl
    exact ht (hsrc p hp hb).1

end withcfg

end Pyrtma.Mgr
