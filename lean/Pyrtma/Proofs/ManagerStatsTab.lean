import Pyrtma.Proofs.Manager
/-!
# What manager activity leaves of a table entry

`RK s s'`: every table entry of `s'` is an entry of `s` with the same module id, process id and logger flag,
and — as long as its socket is open — the same connected flag.  Carried through the nested recursion
(contract `RKOK`, no side condition).  `RKX u` is the same for all entries but `u`'s.
-/
namespace Pyrtma.Mgr

/-- what the statistics and the Spec read of a table entry -/
def Module.tabv (m : Module) : Int × Int × Bool := (m.modId, m.pid, m.isLogger)

/-- entry `m'` is entry `m` as far as `tabv` and (for an open socket) the connected flag go -/
def KeepRec (m m' : Module) : Prop := m'.tabv = m.tabv ∧ (m'.closed = false → m.closed = false ∧ m'.connected = m.connected)

theorem KeepRec.refl (m : Module) : KeepRec m m := ⟨rfl, fun h => ⟨h, rfl⟩⟩
theorem KeepRec.trans {a b c : Module} (h1 : KeepRec a b) (h2 : KeepRec b c) : KeepRec a c :=
  ⟨h2.1.trans h1.1, fun h => by
    obtain ⟨hb, hc⟩ := h2.2 h
    obtain ⟨ha, hc'⟩ := h1.2 hb
    exact ⟨ha, hc.trans hc'⟩⟩

/-- all entries but those selected by `skip` are kept -/
def RKP (skip : Nat → Bool) (s s' : State) : Prop :=
  ∀ u m', skip u = false → s'.find u = some m' → ∃ m, s.find u = some m ∧ KeepRec m m'

abbrev RK (s s' : State) : Prop := RKP (fun _ => false) s s'
abbrev RKX (u : Nat) (s s' : State) : Prop := RKP (fun v => v == u) s s'

theorem RKP.refl (p : Nat → Bool) (s : State) : RKP p s s := fun _ m _ h => ⟨m, h, KeepRec.refl m⟩
theorem RKP.trans {p : Nat → Bool} {a b c : State} (h1 : RKP p a b) (h2 : RKP p b c) : RKP p a c := fun u m'' hp h => by
  obtain ⟨m', hm', k2⟩ := h2 u m'' hp h
  obtain ⟨m, hm, k1⟩ := h1 u m' hp hm'
  exact ⟨m, hm, k1.trans k2⟩
theorem RKP.mono {p q : Nat → Bool} {a b : State} (h : RKP p a b) (hpq : ∀ u, q u = false → p u = false) : RKP q a b :=
  fun u m' hq hm => h u m' (hpq u hq) hm

theorem RK.toX {a b : State} (h : RK a b) (u : Nat) : RKX u a b := h.mono (fun _ _ => rfl)

theorem rkp_same {p : Nat → Bool} {s s' : State} (hm : s'.mods = s.mods) : RKP p s s' := fun u m' _ h => by
  have : s.find u = some m' := by unfold State.find at h ⊢; rw [← hm]; exact h
  exact ⟨m', this, KeepRec.refl m'⟩

theorem rkp_crash (p : Nat → Bool) (s : State) (w : String) : RKP p s (s.crash w) := by
  unfold State.crash; split
  · exact RKP.refl p s
  · exact rkp_same rfl

/-- an update of `u`'s entry that keeps `tabv` and only ever closes / disconnects -/
theorem rkp_upd (p : Nat → Bool) (s : State) (u : Nat) (f : Module → Module) (hu : ∀ m, (f m).uid = m.uid)
    (hk : ∀ m, KeepRec m (f m)) : RKP p s (s.upd u f) := fun v m' _ h => by
  rw [find_upd s u v f hu] at h
  cases h0 : s.find v with
  | none => simp [h0] at h
  | some m =>
    simp only [h0, Option.map_some, Option.some.injEq] at h
    refine ⟨m, rfl, ?_⟩
    subst h
    split
    · exact hk m
    · exact KeepRec.refl m

/-- any update of `u`'s entry keeps all the others -/
theorem rkx_upd (s : State) (u : Nat) (f : Module → Module) (hu : ∀ m, (f m).uid = m.uid) : RKX u s (s.upd u f) :=
  fun v m' hv h => by
    rw [find_upd s u v f hu] at h
    cases h0 : s.find v with
    | none => simp [h0] at h
    | some m =>
      simp only [h0, Option.map_some, Option.some.injEq] at h
      have hmv := find_uid h0
      have : (m.uid == u) = false := by rw [hmv]; exact hv
      simp only [this, Bool.false_eq_true, if_false] at h
      subst h
      exact ⟨m, rfl, KeepRec.refl m⟩

theorem rkp_dropMod (p : Nat → Bool) (s : State) (u : Nat) : RKP p s { s with mods := s.mods.filter (·.uid != u) } :=
  fun v m' _ h => by
    by_cases hvu : v = u
    · subst hvu
      have : (s.mods.filter (·.uid != v)).find? (·.uid == v) = none := find_filter_eq _ _
      have h' : (s.mods.filter (·.uid != v)).find? (·.uid == v) = some m' := h
      rw [this] at h'; cases h'
    · have h' : (s.mods.filter (·.uid != u)).find? (·.uid == v) = some m' := h
      rw [find_filter_ne _ _ _ hvu] at h'
      exact ⟨m', h', KeepRec.refl m'⟩

theorem sendRaw_rk (p : Nat → Bool) (s : State) (u : Nat) (f : Frame) : RKP p s (sendRaw s u f).1 := by
  unfold sendRaw
  split
  · exact rkp_crash _ _ _
  · split
    · exact rkp_crash _ _ _
    · have h1 : RKP p s (s.upd u fun m => { m with msgCount := m.msgCount + 1 }) :=
        rkp_upd p s u _ (fun _ => rfl) (fun m => ⟨rfl, fun h => ⟨h, rfl⟩⟩)
      dsimp only
      split
      · exact h1.trans (rkp_same rfl)
      · exact h1.trans (rkp_same rfl)
      · exact h1.trans (rkp_same rfl)

theorem removePrep_rk (p : Nat → Bool) (s : State) (u : Nat) (m : Module) : RKP p s (removePrep s u m) := by
  unfold removePrep
  dsimp only
  have hk : ∀ x : Module, KeepRec x { x with closed := true, connected := false } :=
    fun x => ⟨rfl, fun h => by simp at h⟩
  split
  · exact (rkp_same (s := s) (s' := { s with idx := _, loggers := _ }) rfl).trans (rkp_upd p _ u _ (fun _ => rfl) hk)
  · exact (rkp_same (s := s) (s' := ({ s with idx := _, loggers := _ } : State).emit (.close u)) rfl).trans
      (rkp_upd p _ u _ (fun _ => rfl) hk)

/-- the contract of the nested forward -/
def RKOK (fwd : Fwd) : Prop := ∀ (p : Nat → Bool) s g, RKP p s (fwd s g)

section chain
variable {cfg : Cfg} {fwd : Fwd} (hf : RKOK fwd)
include hf

theorem logAt_rk (p : Nat → Bool) (lvl : Nat) (s : State) : RKP p s (logAt cfg fwd lvl s) := by
  unfold logAt; split
  · exact hf p s _
  · exact RKP.refl p s

theorem removeModule_rk (p : Nat → Bool) (s : State) (u : Nat) : RKP p s (removeModule cfg fwd s u) := by
  unfold removeModule
  split
  · exact RKP.refl p s
  · rename_i m _
    dsimp only
    exact (((removePrep_rk p s u m).trans (logAt_rk hf p 10 _)).trans (hf p _ _)).trans (rkp_dropMod p _ u)

theorem failedMsg_rk (p : Nat → Bool) (s : State) (d : Int) (f : Frame) : RKP p s (failedMsg cfg fwd s d f) := by
  unfold failedMsg; split
  · exact RKP.refl p s
  · exact hf p s _

theorem trySend_rk (p : Nat → Bool) (s : State) (u : Nat) (f : Frame) : RKP p s (trySend cfg fwd s u f) := by
  unfold trySend
  dsimp only
  have h1 := sendRaw_rk p s u f
  generalize sendRaw s u f = r at h1
  obtain ⟨s1, okb⟩ := r
  simp only at h1 ⊢
  split
  · exact h1.trans (rkp_upd p s1 u _ (fun _ => rfl) (fun m => ⟨rfl, fun h => ⟨h, rfl⟩⟩))
  · split
    · exact h1
    · exact ((h1.trans (removeModule_rk hf p s1 u)).trans (logAt_rk hf p 40 _)).trans (failedMsg_rk hf p _ _ f)

theorem deliverOne_rk (p : Nat → Bool) (f : Frame) (s : State) (u : Nat) : RKP p s (deliverOne cfg fwd f s u) := by
  unfold deliverOne
  split
  · exact RKP.refl p s
  · split
    · split
      · exact trySend_rk hf p s u f
      · exact RKP.refl p s
    · split
      · exact trySend_rk hf p s u f
      · exact (rkp_upd p s u (fun m => { m with drops := m.drops + 1 }) (fun _ => rfl) (fun m => ⟨rfl, fun h => ⟨h, rfl⟩⟩)).trans
          (failedMsg_rk hf p _ _ f)

theorem deliver_rk (p : Nat → Bool) (f : Frame) : ∀ (rs : List Nat) (s : State), RKP p s (deliver cfg fwd f rs s)
  | [], s => RKP.refl p s
  | u :: rest, s => by unfold deliver; exact (deliverOne_rk hf p f s u).trans (deliver_rk p f rest _)

end chain

theorem countMsg_rk (cfg : Cfg) (p : Nat → Bool) (s : State) (t : Int) : RKP p s (countMsg cfg s t) := by
  unfold countMsg; split <;> exact rkp_same rfl

theorem forward_rk (cfg : Cfg) : ∀ n, RKOK (forward cfg n)
  | 0 => fun p s g => by unfold forward; exact rkp_crash p _ _
  | n + 1 => fun p s g => by
    have ih := forward_rk cfg n
    unfold forward
    split
    · exact RKP.refl p s
    · dsimp only
      split
      · exact (countMsg_rk cfg p s _).trans (logAt_rk ih p 40 _)
      · split
        · exact (countMsg_rk cfg p s _).trans (logAt_rk ih p 40 _)
        · exact (countMsg_rk cfg p s _).trans (deliver_rk ih p g _ _)

theorem fwdTop_rk (cfg : Cfg) : RKOK (fwdTop cfg) := fun p s g => forward_rk cfg _ p s g

/-! ## top level -/

section top
variable (cfg : Cfg)

theorem logTop_rk (p : Nat → Bool) (lvl : Nat) (s : State) : RKP p s (logAt cfg (fwdTop cfg) lvl s) :=
  logAt_rk (fwdTop_rk cfg) p lvl s

theorem toLoggers_rk (p : Nat → Bool) (f : Frame) : ∀ (ls : List Nat) (s : State), RKP p s (toLoggers cfg f ls s)
  | [], s => RKP.refl p s
  | u :: rest, s => by
    unfold toLoggers
    refine RKP.trans ?_ (toLoggers_rk p f rest _)
    unfold loggerOne; split
    · exact RKP.refl p s
    · exact trySend_rk (fwdTop_rk cfg) p s u f

theorem sendAck_rk (p : Nat → Bool) (s : State) (u : Nat) : RKP p s (sendAck cfg s u) := by
  unfold sendAck; split
  · exact RKP.refl p s
  · exact (trySend_rk (fwdTop_rk cfg) p s u _).trans (toLoggers_rk cfg p _ _ _)

theorem infoOf_rk (p : Nat → Bool) (s : State) (m : Module) : RKP p s (infoOf cfg s m) := by
  unfold infoOf; exact (logTop_rk cfg p 10 s).trans (fwdTop_rk cfg p _ _)

theorem sendInfo_rk (p : Nat → Bool) (s : State) (u : Nat) : RKP p s (sendInfo cfg s u) := by
  unfold sendInfo; split
  · exact RKP.refl p s
  · exact infoOf_rk cfg p s _

theorem clashLoop_rk (p : Nat → Bool) (me : Module) : ∀ (os : List Module) (s : State), RKP p s (clashLoop cfg me os s).1
  | [], s => RKP.refl p s
  | o :: rest, s => by
    unfold clashLoop
    split
    · exact RKP.refl p s
    · refine RKP.trans ?_ (clashLoop_rk p me rest _)
      split
      · exact RKP.refl p s
      · exact logTop_rk cfg p 10 s

theorem removeTop_rk (p : Nat → Bool) (s : State) (u : Nat) : RKP p s (removeModule cfg (fwdTop cfg) s u) :=
  removeModule_rk (fwdTop_rk cfg) p s u

theorem rkp_setSubs (p : Nat → Bool) (s : State) (i : List (Int × List Nat)) (u : Nat) (l : List Int) :
    RKP p s (({ s with idx := i } : State).setSubs u l) :=
  (rkp_same (s := s) (s' := { s with idx := i }) rfl).trans
    (rkp_upd p _ u _ (fun _ => rfl) (fun m => ⟨rfl, fun h => ⟨h, rfl⟩⟩))

theorem addSub_rk (p : Nat → Bool) (s : State) (u : Nat) (t : Int) : RKP p s (addSub cfg s u t) := by
  have hcore : RKP p s (addSubCore cfg s u t) := by
    unfold addSubCore; dsimp only
    split
    · exact rkp_setSubs p s _ u _
    · split
      · exact RKP.refl p s
      · exact rkp_setSubs p s _ u _
  unfold addSub; split
  · exact hcore.trans (logTop_rk cfg p 10 _)
  · exact hcore

theorem removeSub_rk (p : Nat → Bool) (s : State) (u : Nat) (t : Int) : RKP p s (removeSub cfg s u t) := by
  have hcore : RKP p s (removeSubCore cfg s u t) := by
    unfold removeSubCore; dsimp only
    split
    · exact rkp_setSubs p s _ u _
    · split
      · exact RKP.refl p s
      · exact rkp_setSubs p s _ u _
  unfold removeSub; split
  · exact hcore.trans (logTop_rk cfg p 10 _)
  · exact hcore

theorem setReq_uid (buf : List Nat) (hd : Hdr) (x : Module) : (setReq cfg buf hd x).uid = x.uid := by
  unfold setReq; split <;> rfl

theorem setAll_uid (buf : List Nat) (hd : Hdr) (nm : List Nat) (x : Module) : (setAll cfg buf hd nm x).uid = x.uid := by
  unfold setAll; exact setReq_uid cfg buf hd x

/-- a connect request touches the requester's entry only -/
theorem connect_rkx (s : State) (u : Nat) (h : Hdr) : RKX u s (connectModule cfg s u h).1 := by
  unfold connectModule
  dsimp only
  have refuse : ∀ {s2 : State}, RKX u s s2 → RKX u s (removeModule cfg (fwdTop cfg) (logAt cfg (fwdTop cfg) 40 s2) u) :=
    fun h2 => (h2.trans (logTop_rk cfg _ 40 _)).trans (removeTop_rk cfg _ _ u)
  split
  · exact RKP.refl _ s
  · split
    · exact refuse (rkx_upd s u _ (setReq_uid cfg s.buf h))
    · rename_i nm _
      have h1 : RKX u s (s.upd u (setAll cfg s.buf h nm)) := rkx_upd s u _ (setAll_uid cfg s.buf h nm)
      split
      · split
        · exact refuse h1
        · have hl := clashLoop_rk cfg (fun v => v == u) (setAll cfg s.buf h nm (lookupMod s u))
            ((s.upd u (setAll cfg s.buf h nm)).mods.filter (·.uid != u)) (s.upd u (setAll cfg s.buf h nm))
          generalize clashLoop cfg (setAll cfg s.buf h nm (lookupMod s u))
            ((s.upd u (setAll cfg s.buf h nm)).mods.filter (·.uid != u)) (s.upd u (setAll cfg s.buf h nm)) = r at hl
          obtain ⟨s2, cl⟩ := r
          dsimp only at hl ⊢
          split
          · exact refuse (h1.trans hl)
          · refine RKP.trans ((h1.trans hl).trans (rkx_upd s2 u (fun m => { m with connected := true }) (fun _ => rfl))) ?_
            exact rkp_same rfl
      · split
        · exact refuse h1
        · rename_i id off _
          have h2 : RKX u s ({ (s.upd u (setAll cfg s.buf h nm)) with nextDyn := off } : State) := h1.trans (rkp_same rfl)
          have h3 := h2.trans (rkx_upd _ u (fun m => { m with modId := id, connected := true }) (fun _ => rfl))
          exact h3.trans (rkp_same rfl)

/-- handling a frame read from `u` touches at most `u`'s entry -/
theorem process_rkx (s : State) (u : Nat) (h : Hdr) : RKX u s (processMessage cfg s u h) := by
  unfold processMessage
  dsimp only
  split
  · have hc := connect_rkx cfg s u h
    generalize connectModule cfg s u h = r at hc
    obtain ⟨s1, okb⟩ := r
    simp only at hc ⊢
    split
    · exact ((hc.trans (sendAck_rk cfg _ s1 u)).trans (infoOf_rk cfg _ _ _)).trans (logTop_rk cfg _ 20 _)
    · exact hc
  · split
    · exact (removeTop_rk cfg _ s u).trans (logTop_rk cfg _ 20 _)
    · split
      · exact (addSub_rk cfg _ s u _).trans (sendAck_rk cfg _ _ u)
      · split
        · exact (removeSub_rk cfg _ s u _).trans (sendAck_rk cfg _ _ u)
        · split
          · split
            · exact (logTop_rk cfg _ 40 s).trans (removeTop_rk cfg _ _ u)
            · rename_i nm _
              exact ((rkx_upd s u (fun m => { m with name := nm }) (fun _ => rfl)).trans (logTop_rk cfg _ 20 _)).trans
                (infoOf_rk cfg _ _ _)
          · split
            · exact (rkx_upd s u (fun m => { m with pid := bufI32 s.buf 0 }) (fun _ => rfl)).trans (sendInfo_rk cfg _ _ u)
            · exact (logTop_rk cfg _ 10 s).trans (fwdTop_rk cfg _ _ _)

theorem foldl_fwd_rk (p : Nat → Bool) : ∀ (fs : List Frame) (s : State), RKP p s (fs.foldl (fwdTop cfg) s)
  | [], s => RKP.refl p s
  | f :: rest, s => by simp only [List.foldl_cons]; exact (fwdTop_rk cfg p s f).trans (foldl_fwd_rk p rest _)

theorem infoAll_rk (p : Nat → Bool) : ∀ (ms : List Module) (s : State), RKP p s (infoAll cfg ms s)
  | [], s => RKP.refl p s
  | m :: rest, s => by unfold infoAll; exact (infoOf_rk cfg p s _).trans (infoAll_rk p rest _)

/-- the periodic section keeps every entry -/
theorem ticks_rk (p : Nat → Bool) (s : State) : RKP p s (ticks cfg s) := by
  unfold ticks
  dsimp only
  have h1 : RKP p s (if (cfg.timing && decide (s.now - s.tTiming > cfg.pTiming)) = true then
      { sendTiming cfg s with tTiming := s.now } else s) := by
    split
    · unfold sendTiming; dsimp only
      exact (((rkp_same (s := s) (s' := { s with counts := [], inTraffic := true }) rfl).trans (fwdTop_rk cfg p _ _)).trans
        (rkp_same rfl)).trans (rkp_same rfl)
    · exact RKP.refl p s
  generalize (if (cfg.timing && decide (s.now - s.tTiming > cfg.pTiming)) = true then
      { sendTiming cfg s with tTiming := s.now } else s) = s1 at h1 ⊢
  have h2 : RKP p s1 (if s1.now - s1.tTraffic > cfg.pTraffic then sendTraffic cfg s1 else s1) := by
    split
    · unfold sendTraffic; dsimp only
      exact (((rkp_same (s := s1) (s' := { s1 with inTraffic := true }) rfl).trans (logTop_rk cfg p 10 _)).trans
        (foldl_fwd_rk cfg p _ _)).trans (rkp_same rfl)
    · exact RKP.refl p s1
  generalize (if s1.now - s1.tTraffic > cfg.pTraffic then sendTraffic cfg s1 else s1) = s2 at h2 ⊢
  refine (h1.trans h2).trans ?_
  split
  · unfold sendActive; dsimp only
    exact (((logTop_rk cfg p 10 s2).trans (infoAll_rk cfg p _ _)).trans (fwdTop_rk cfg p _ _)).trans (rkp_same rfl)
  · exact RKP.refl p s2

/-! ## the requester's own entry -/

theorem rkp_gone {p : Nat → Bool} {s s' : State} (h : RKP p s s') {u : Nat} (hp : p u = false) (hg : s.find u = none) :
    s'.find u = none := by
  cases h' : s'.find u with
  | none => rfl
  | some m' => obtain ⟨m, hm, _⟩ := h u m' hp h'; rw [hg] at hm; cases hm

omit cfg in
theorem removeModule_gone (cfg : Cfg) (fwd : Fwd) (s : State) (u : Nat) : (removeModule cfg fwd s u).find u = none := by
  unfold removeModule
  split
  · assumption
  · exact find_filter_eq _ _

/-- the two outcomes of a connect request from a connection that is not yet connected: refused — the requester is
    removed —, or accepted — after the name-clash loop (which keeps every entry) the requester's entry, as the request
    filled it in, is marked connected (and given the dynamic id, if one was asked for) -/
theorem connectModule_cases (s : State) (u : Nat) (h : Hdr) (m : Module) (hm : s.find u = some m) (hnc : m.connected = false) :
    (∃ s2, connectModule cfg s u h = (removeModule cfg (fwdTop cfg) s2 u, false)) ∨
    (∃ nm s2 F, (if h.mtype == cfg.mtConnectV2 then cstr s.buf 12 32 else some m.name) = some nm ∧
      RK (s.upd u (setAll cfg s.buf h nm)) s2 ∧
      (∀ x : Module, (F x).uid = x.uid ∧ (F x).pid = x.pid ∧ (F x).isLogger = x.isLogger ∧ (F x).connected = true ∧
        ((setAll cfg s.buf h nm m).modId ≠ 0 → (F x).modId = x.modId)) ∧
      (connectModule cfg s u h).2 = true ∧ (connectModule cfg s u h).1.mods = (s2.upd u F).mods) := by
  have hl : lookupMod s u = m := by unfold lookupMod; rw [hm]; rfl
  unfold connectModule
  simp only [hl, hnc, Bool.false_eq_true, if_false]
  cases hn : (if (h.mtype == cfg.mtConnectV2) = true then cstr s.buf 12 32 else some m.name) with
  | none => left; exact ⟨_, rfl⟩
  | some nm =>
    simp only
    by_cases hz : ((setAll cfg s.buf h nm m).modId != 0) = true
    · simp only [hz, if_true]
      by_cases hrange : (decide ((setAll cfg s.buf h nm m).modId < 1) || decide ((setAll cfg s.buf h nm m).modId > cfg.dynStart)) = true
      · simp only [hrange, if_true]; left; exact ⟨_, rfl⟩
      · simp only [hrange, Bool.false_eq_true, if_false]
        have hcl := clashLoop_rk cfg (fun _ => false) (setAll cfg s.buf h nm m)
          ((s.upd u (setAll cfg s.buf h nm)).mods.filter (·.uid != u)) (s.upd u (setAll cfg s.buf h nm))
        generalize clashLoop cfg (setAll cfg s.buf h nm m)
          ((s.upd u (setAll cfg s.buf h nm)).mods.filter (·.uid != u)) (s.upd u (setAll cfg s.buf h nm)) = r at hcl ⊢
        obtain ⟨s2, cl⟩ := r
        dsimp only at hcl ⊢
        cases cl with
        | true => simp only [if_true]; left; exact ⟨_, rfl⟩
        | false =>
          simp only [Bool.false_eq_true, if_false]
          right
          exact ⟨nm, s2, fun m => { m with connected := true }, rfl, hcl, fun x => ⟨rfl, rfl, rfl, rfl, fun _ => rfl⟩, by trivial, by trivial⟩
    · simp only [hz, Bool.false_eq_true, if_false]
      cases ha : assignId cfg (s.upd u (setAll cfg s.buf h nm)) with
      | none => simp only; left; exact ⟨_, rfl⟩
      | some idoff =>
        obtain ⟨id, off⟩ := idoff
        simp only
        right
        refine ⟨nm, { (s.upd u (setAll cfg s.buf h nm)) with nextDyn := off }, fun m => { m with modId := id, connected := true },
          rfl, rkp_same rfl, fun x => ⟨rfl, rfl, rfl, rfl, fun hne => ?_⟩, by trivial, by trivial⟩
        exact absurd (by simpa using hz) hne

/-- frames other than connect requests and MODULE_READY leave `tabv` and the connected flag of every entry alone -/
theorem process_rk_plain (s : State) (u : Nat) (h : Hdr)
    (hc : (h.mtype == cfg.mtConnect || h.mtype == cfg.mtConnectV2) = false) (hr : (h.mtype == cfg.mtModuleReady) = false) :
    RK s (processMessage cfg s u h) := by
  unfold processMessage
  simp only [hc, Bool.false_eq_true, if_false, hr]
  split
  · exact (removeTop_rk cfg _ s u).trans (logTop_rk cfg _ 20 _)
  · split
    · exact (addSub_rk cfg _ s u _).trans (sendAck_rk cfg _ _ u)
    · split
      · exact (removeSub_rk cfg _ s u _).trans (sendAck_rk cfg _ _ u)
      · split
        · split
          · exact (logTop_rk cfg _ 40 s).trans (removeTop_rk cfg _ _ u)
          · rename_i nm _
            exact ((rkp_upd _ s u (fun m => { m with name := nm }) (fun _ => rfl) (fun m => ⟨rfl, fun h => ⟨h, rfl⟩⟩)).trans
              (logTop_rk cfg _ 20 _)).trans (infoOf_rk cfg _ _ _)
        · exact (logTop_rk cfg _ 10 s).trans (fwdTop_rk cfg _ _ _)

/-- a connect request from a connection that is already connected is ignored -/
theorem process_connected_noop (s : State) (u : Nat) (h : Hdr) (m : Module) (hm : s.find u = some m) (hcn : m.connected = true)
    (hc : (h.mtype == cfg.mtConnect || h.mtype == cfg.mtConnectV2) = true) : processMessage cfg s u h = s := by
  have hl : lookupMod s u = m := by unfold lookupMod; rw [hm]; rfl
  unfold processMessage connectModule
  simp [hc, hl, hcn]

/-- MODULE_READY: the requester's entry gets the reported process id, nothing else of it changes -/
theorem process_ready_own (s : State) (u : Nat) (h : Hdr) (m : Module) (hm : s.find u = some m)
    (hc : (h.mtype == cfg.mtConnect || h.mtype == cfg.mtConnectV2) = false) (hr : (h.mtype == cfg.mtModuleReady) = true)
    (hnd : (h.mtype == cfg.mtDisconnect) = false)
    (hns : (h.mtype == cfg.mtSubscribe || h.mtype == cfg.mtResume) = false)
    (hnu : (h.mtype == cfg.mtUnsubscribe || h.mtype == cfg.mtPause) = false) (hnn : (h.mtype == cfg.mtSetName) = false)
    (m' : Module) (hm' : (processMessage cfg s u h).find u = some m') :
    m'.modId = m.modId ∧ m'.pid = bufI32 s.buf 0 ∧ m'.isLogger = m.isLogger ∧ (m'.closed = false → m'.connected = m.connected) := by
  unfold processMessage at hm'
  simp only [hc, Bool.false_eq_true, if_false, hnd, hns, hnu, hnn, hr, if_true] at hm'
  have hfu := find_upd_self s u (fun m => { m with pid := bufI32 s.buf 0 }) (fun _ => rfl) hm
  obtain ⟨m0, hm0, hk⟩ := sendInfo_rk cfg (fun _ => false) (s.upd u (fun m => { m with pid := bufI32 s.buf 0 })) u u m' rfl hm'
  rw [hfu] at hm0; cases hm0
  have ht := hk.1
  simp only [Module.tabv, Prod.mk.injEq] at ht
  exact ⟨ht.1, ht.2.1, ht.2.2, fun hcl => (hk.2 hcl).2⟩

end top

end Pyrtma.Mgr
