import Pyrtma.Proofs.ManagerSimDep
/-!
# The counted lower bound of the FAILED_MESSAGE notices (C14), model side

`forward` of a frame `g` outside the recursion guard, in range, from a crash-free state, whatever is nested in it:
every connection that can take a FAILED_MESSAGE at the end (`StableF`: in the table, socket open, not failing, subscribed
to FAILED_MESSAGE, writable or a logger) has been written, for every module id `d`, at least as many notices
`failed d g.mtype g.src g.dest` as there are subscribers of `g`'s type with id `d` that are not writable, are not
loggers and are still in the table at the end (`Owed`) — the model-side core of the counted clauses of
`Spec.checkData` (one data frame) and of `Spec.checkDepartures` (`g` = a CLIENT_CLOSED frame).

As in `ManagerSimDep.lean` the facts are stated about the state at the END of the stretch (who can take a notice / is owed
one at the end could, resp. was, all along: `Nest`), and the induction through the nested `forward` rides on
crash-freedom (`Good`, `Safe`) and on the reach of a broadcast (`DOK`).
-/
namespace Pyrtma.Mgr

/-- `o` can be handed a FAILED_MESSAGE frame in state `s` -/
def StableF (cfg : Cfg) (s : State) (o : Nat) : Prop :=
  ∃ m, s.find o = some m ∧ m.closed = false ∧ failOf s o = none ∧
    (o ∈ idxGet s.idx cfg.mtFailed ∨ o ∈ idxGet s.idx cfg.allTypes) ∧ (o ∈ s.wlist ∨ m.isLogger = true)

/-- `u` (module id `d`) subscribes to type `t`, is not ready to accept data and is not a logger -/
def Owed (cfg : Cfg) (t : Int) (d : Int) (s : State) (u : Nat) : Prop :=
  ∃ m, s.find u = some m ∧ m.closed = false ∧ m.modId = d ∧ m.isLogger = false ∧ u ∉ s.wlist ∧
    (u ∈ idxGet s.idx t ∨ u ∈ idxGet s.idx cfg.allTypes)

theorem Nest.backF {s s' : State} (cfg : Cfg) (h : Nest s s') (o : Nat) (hst : StableF cfg s' o) : StableF cfg s o := by
  obtain ⟨m', hm', hc', hf', hi', hw'⟩ := hst
  obtain ⟨m, hm, he⟩ := h.surv o m' hm' hc'
  obtain ⟨e1, _, e3, _⟩ := core_fields he
  refine ⟨m, hm, by rw [← e1]; exact hc', by rw [← failOf_congr h.fail]; exact hf', ?_, ?_⟩
  · rcases hi' with hi | hi
    · exact Or.inl (h.idxSub _ _ hi)
    · exact Or.inr (h.idxSub _ _ hi)
  · rcases hw' with hw | hw
    · exact Or.inl (by rw [← h.wlist]; exact hw)
    · exact Or.inr (by rw [← e3]; exact hw)

theorem Nest.backO {s s' : State} (cfg : Cfg) (h : Nest s s') (t d : Int) (u : Nat) (ho : Owed cfg t d s' u) :
    Owed cfg t d s u := by
  obtain ⟨m', hm', hc', hd', hl', hw', hi'⟩ := ho
  obtain ⟨m, hm, he⟩ := h.surv u m' hm' hc'
  obtain ⟨e1, e2, e3, _⟩ := core_fields he
  refine ⟨m, hm, by rw [← e1]; exact hc', by rw [← e2]; exact hd', by rw [← e3]; exact hl',
    by rw [← h.wlist]; exact hw', ?_⟩
  rcases hi' with hi | hi
  · exact Or.inl (h.idxSub _ _ hi)
  · exact Or.inr (h.idxSub _ _ hi)

/-- frames with body `B` written to `o` -/
def fcnt (o : Nat) (B : Body) (ext : List Ev) : Nat :=
  ext.countP (fun e => match e with | .send o' _ f => o' == o && f.body == B | _ => false)

theorem fcnt_append (o : Nat) (B : Body) (a b : List Ev) : fcnt o B (a ++ b) = fcnt o B a + fcnt o B b := by
  unfold fcnt; rw [List.countP_append]

theorem fcnt_pos {o : Nat} {B : Body} {ext : List Ev} {c : Nat} {f : Frame} (h : Ev.send o c f ∈ ext) (hb : f.body = B) :
    1 ≤ fcnt o B ext := by
  unfold fcnt
  exact List.countP_pos_iff.mpr ⟨_, h, by simp [hb]⟩

/-! ## a subscriber that hears none of the manager's own notices is untouched until its turn -/

/-- the types of the frames the manager originates inside a delivery: FAILED_MESSAGE, RTMA_LOG*, CLIENT_CLOSED -/
def isN (cfg : Cfg) (t : Int) : Prop := inGuard cfg t = true ∨ t = cfg.mtClosed

/-- `u` subscribes to none of them, nor to everything -/
def NoSub (cfg : Cfg) (s : State) (u : Nat) : Prop :=
  (∀ t, isN cfg t → u ∉ idxGet s.idx t) ∧ u ∉ idxGet s.idx cfg.allTypes

theorem NoSub.nest {cfg : Cfg} {s s' : State} {u : Nat} (h : NoSub cfg s u) (n : Nest s s') : NoSub cfg s' u :=
  ⟨fun t ht hm => h.1 t ht (n.idxSub t u hm), fun hm => h.2 (n.idxSub _ u hm)⟩

/-- `u` is not ready to accept data and is not a logger: nothing is ever written to it -/
def NW (s : State) (u : Nat) : Prop := u ∉ s.wlist ∧ ∀ m, s.find u = some m → m.isLogger = false

/-- the table entry of `u` is the same but for the counters -/
def CE (s' s : State) (u : Nat) : Prop := (s'.find u).map Module.core = (s.find u).map Module.core

theorem CE.trans {a b c : State} {u : Nat} (h1 : CE a b u) (h2 : CE b c u) : CE a c u := Eq.trans h1 h2

theorem ce_of_eq {s' s : State} {u : Nat} (h : s'.find u = s.find u) : CE s' s u := by unfold CE; rw [h]

theorem ce_some {s' s : State} {u : Nat} (h : CE s' s u) {m : Module} (hm : s.find u = some m) :
    ∃ m', s'.find u = some m' ∧ m'.core = m.core := by
  unfold CE at h
  rw [hm] at h
  cases h' : s'.find u with
  | none => rw [h'] at h; cases h
  | some m' => rw [h'] at h; exact ⟨m', rfl, by simpa using h⟩

theorem ce_some_back {s' s : State} {u : Nat} (h : CE s' s u) {m' : Module} (hm : s'.find u = some m') :
    ∃ m, s.find u = some m ∧ m'.core = m.core := by
  unfold CE at h
  rw [hm] at h
  cases h' : s.find u with
  | none => rw [h'] at h; cases h
  | some m => rw [h'] at h; exact ⟨m, rfl, by simpa using h⟩

theorem nw_ce {s' s : State} {u : Nat} (h : NW s u) (hc : CE s' s u) (hw : s'.wlist = s.wlist) : NW s' u := by
  refine ⟨by rw [hw]; exact h.1, fun m' hm' => ?_⟩
  obtain ⟨m, hm, e⟩ := ce_some_back hc hm'
  rw [(core_fields e).2.2.1]; exact h.2 m hm

/-- the nested-forward contract: a forward of one of the manager's own notices leaves the table entry of a module that
    hears none of them alone; any forward leaves that of a module that is never written to alone -/
def KOK (cfg : Cfg) (u : Nat) (fwd : Fwd) : Prop :=
  ∀ s g, ((isN cfg g.mtype ∧ NoSub cfg s u) ∨ NW s u) → CE (fwd s g) s u

/-- what the chain carries about `u` -/
def QU (cfg : Cfg) (s : State) (u : Nat) : Prop := NoSub cfg s u ∨ NW s u

theorem QU.nest {cfg : Cfg} {s s' : State} {u : Nat} (h : QU cfg s u) (n : Nest s s') (hc : CE s' s u) : QU cfg s' u :=
  h.imp (fun x => x.nest n) (fun x => nw_ce x hc n.wlist)

theorem map_find_other (s : State) (u v : Nat) (hne : u ≠ v) (g : Module → Module) :
    (s.find u).map (fun x => if x.uid == v then g x else x) = s.find u := by
  cases h : s.find u with
  | none => rfl
  | some x => have := find_uid h; simp [this, hne]

theorem find_upd_other (s : State) (v u : Nat) (g : Module → Module) (hg : ∀ x, (g x).uid = x.uid) (hne : u ≠ v) :
    (s.upd v g).find u = s.find u := by
  rw [find_upd s v u g hg]; exact map_find_other s u v hne g

theorem ce_upd_core (s : State) (v u : Nat) (g : Module → Module) (hg : ∀ x, (g x).uid = x.uid)
    (hc : ∀ x, (g x).core = x.core) : CE (s.upd v g) s u := by
  unfold CE
  rw [find_upd s v u g hg]
  cases s.find u with
  | none => rfl
  | some x =>
    simp only [Option.map_some]
    split
    · rw [hc]
    · rfl

theorem sendRaw_ce (s : State) (v : Nat) (f : Frame) (u : Nat) : CE (sendRaw s v f).1 s u := by
  unfold sendRaw
  split
  · exact ce_of_eq (by simp)
  · split
    · exact ce_of_eq (by simp)
    · dsimp only
      have h := ce_upd_core s v u (fun m => { m with msgCount := m.msgCount + 1 }) (fun _ => rfl) (fun _ => rfl)
      split <;> exact h

section keep
variable {cfg : Cfg} {u : Nat} {fwd : Fwd} (hnest : NestOK fwd) (hk : KOK cfg u fwd)
include hnest hk

omit hnest in
theorem k_logAt (lvl : Nat) (s : State) (hq : QU cfg s u) : CE (logAt cfg fwd lvl s) s u := by
  unfold logAt; split
  · exact hk s _ (hq.imp (fun h => ⟨Or.inl (guard_log cfg lvl), h⟩) id)
  · rfl

omit hnest in
theorem k_failedMsg (s : State) (d : Int) (f : Frame) (hq : QU cfg s u) : CE (failedMsg cfg fwd s d f) s u := by
  unfold failedMsg; split
  · rfl
  · exact hk s _ (hq.imp (fun h => ⟨Or.inl (by show inGuard cfg cfg.mtFailed = true; unfold inGuard; simp), h⟩) id)

theorem k_removeModule (s : State) (v : Nat) (hv : u ≠ v) (hq : QU cfg s u) : CE (removeModule cfg fwd s v) s u := by
  unfold removeModule
  cases hm : s.find v with
  | none => rfl
  | some m =>
    dsimp only
    have n1 := removePrep_nest s v m hm
    have n2 := logAt_nest (cfg := cfg) hnest 10 (removePrep s v m)
    have e1 : CE (removePrep s v m) s u := ce_of_eq (by rw [removePrep_find]; exact map_find_other s u v hv _)
    have q1 := hq.nest n1 e1
    have e2 := k_logAt hk 10 _ q1
    have q2 := q1.nest n2 e2
    have e3 : CE (fwd (logAt cfg fwd 10 (removePrep s v m)) (closedFrame cfg { m with connected := false })) s u :=
      (hk _ _ (q2.imp (fun h => ⟨Or.inr rfl, h⟩) id)).trans (e2.trans e1)
    unfold CE State.find at e3 ⊢
    dsimp only
    rw [find_filter_ne _ v u hv]; exact e3

theorem k_trySend (s : State) (v : Nat) (hv : u ≠ v) (f : Frame) (hq : QU cfg s u) : CE (trySend cfg fwd s v f) s u := by
  unfold trySend
  dsimp only
  have e0 := sendRaw_ce s v f u
  have n0 := sendRaw_nest s v f
  generalize sendRaw s v f = r at e0 n0
  obtain ⟨s1, okb⟩ := r
  dsimp only at e0 n0 ⊢
  split
  · exact (ce_upd_core s1 v u (fun m => { m with drops := 0 }) (fun _ => rfl) (fun _ => rfl)).trans e0
  · split
    · exact e0
    · have n1 := removeModule_nest (cfg := cfg) hnest s1 v
      have n2 := logAt_nest (cfg := cfg) hnest 40 (removeModule cfg fwd s1 v)
      have q0 := hq.nest n0 e0
      have e1 := k_removeModule hnest hk s1 v hv q0
      have q1 := q0.nest n1 e1
      have e2 := k_logAt hk 40 _ q1
      have q2 := q1.nest n2 e2
      exact (k_failedMsg hk _ _ _ q2).trans (e2.trans (e1.trans e0))

theorem k_deliverOne (f : Frame) (s : State) (v : Nat) (hv : u ≠ v ∨ NW s u) (hq : QU cfg s u) :
    CE (deliverOne cfg fwd f s v) s u := by
  unfold deliverOne
  cases hm : s.find v with
  | none => rfl
  | some m =>
    dsimp only
    have eu := ce_upd_core s v u (fun m => { m with drops := m.drops + 1 }) (fun _ => rfl) (fun _ => rfl)
    have hup : CE (failedMsg cfg fwd (s.upd v (fun m => { m with drops := m.drops + 1 })) m.modId f) s u := by
      have q' : QU cfg (s.upd v (fun m => { m with drops := m.drops + 1 })) u :=
        hq.imp (fun h => h) (fun h => nw_ce h eu rfl)
      exact (k_failedMsg hk _ _ _ q').trans eu
    by_cases huv : u = v
    · have hnw : NW s u := hv.resolve_left (fun h => h huv)
      subst huv
      rw [if_neg hnw.1, hnw.2 m hm]
      exact hup
    · split
      · split
        · exact k_trySend hnest hk s v huv f hq
        · rfl
      · split
        · exact k_trySend hnest hk s v huv f hq
        · exact hup

theorem k_deliver (f : Frame) : ∀ (rs : List Nat) (s : State), QU cfg s u → (u ∈ rs → NW s u) →
    CE (deliver cfg fwd f rs s) s u
  | [], _, _, _ => rfl
  | v :: rest, s, hq, hrs => by
    unfold deliver
    have hv : u ≠ v ∨ NW s u := by
      by_cases h : u = v
      · exact Or.inr (hrs (by simp [h]))
      · exact Or.inl h
    have e1 := k_deliverOne hnest hk f s v hv hq
    have n1 := deliverOne_nest (cfg := cfg) hnest f s v
    exact (k_deliver f rest _ (hq.nest n1 e1) (fun h => nw_ce (hrs (List.mem_cons_of_mem _ h)) e1 n1.wlist)).trans e1

end keep

/-- the iteration order visits subscribers only -/
def OrdSub (cfg : Cfg) : Prop := ∀ (l : List Nat) x, x ∈ cfg.order l → x ∈ l

theorem forward_KOK {cfg : Cfg} (hsub : OrdSub cfg) (u : Nat) : ∀ n, KOK cfg u (forward cfg n)
  | 0 => fun s g _ => by unfold forward; exact ce_of_eq (by simp)
  | n + 1 => fun s g hq => by
    have ih := forward_KOK hsub u n
    have ihn := forward_nest cfg n
    have ec : CE (countMsg cfg s g.mtype) s u := ce_of_eq (by unfold countMsg; split <;> rfl)
    have nc := nest_count cfg s g.mtype
    have hq' : QU cfg s u := hq.imp (fun h => h.2) id
    have qc := hq'.nest nc ec
    unfold forward
    split
    · rfl
    · dsimp only
      split
      · exact (k_logAt ih 40 _ qc).trans ec
      · split
        · exact (k_logAt ih 40 _ qc).trans ec
        · refine (k_deliver ihn ih g _ _ qc (fun hmem => ?_)).trans ec
          rcases hq with ⟨hg, hn⟩ | hnw
          · exfalso
            unfold recipients at hmem
            rcases List.mem_append.mp hmem with h | h
            · exact (hn.nest nc).1 g.mtype hg (hsub _ _ h)
            · exact (hn.nest nc).2 (hsub _ _ h)
          · exact nw_ce hnw ec nc.wlist

/-- a subscriber (module id `d`) whose connection fails, that `f` would be written to, still untouched -/
def FailOwed (cfg : Cfg) (f : Frame) (d : Int) (s : State) (u : Nat) : Prop :=
  ∃ m, s.find u = some m ∧ m.closed = false ∧ m.modId = d ∧ failOf s u ≠ none ∧
    ((u ∈ s.wlist ∧ (f.dest = 0 ∨ m.modId = f.dest ∨ m.isLogger = true)) ∨ (u ∉ s.wlist ∧ m.isLogger = true)) ∧
    NoSub cfg s u

theorem failOwed_same {cfg : Cfg} {f : Frame} {d : Int} {s s' : State} {u : Nat} (h : FailOwed cfg f d s u)
    (hce : CE s' s u) (hfl : s'.fail = s.fail) (hw : s'.wlist = s.wlist) (hn : NoSub cfg s' u) :
    FailOwed cfg f d s' u := by
  obtain ⟨m, hm, hc, hd, hf, hdl, _⟩ := h
  obtain ⟨m', hm', e⟩ := ce_some hce hm
  obtain ⟨e1, e2, e3, _⟩ := core_fields e
  exact ⟨m', hm', by rw [e1]; exact hc, by rw [e2]; exact hd, by rw [failOf_congr hfl]; exact hf,
    by rw [hw, e2, e3]; exact hdl, hn⟩

/-- the nested-forward contract: the count of the notices -/
def FOK (cfg : Cfg) (fwd : Fwd) (n : Nat) : Prop :=
  ∀ s g, Good cfg s → need cfg s g ≤ n → inGuard cfg g.mtype = false → oor cfg g = false →
    ∃ ext, (fwd s g).out = s.out ++ ext ∧
      ∀ o d (U : List Nat), StableF cfg (fwd s g) o → U.Nodup →
        (∀ u ∈ U, Owed cfg g.mtype d (fwd s g) u ∨ (FailOwed cfg g d s u ∧ u ∈ idxGet s.idx g.mtype)) →
        U.length ≤ fcnt o (.failed d g.mtype g.src g.dest) ext

/-- a FAILED_MESSAGE broadcast reaches everybody who can take it -/
def ReachF (cfg : Cfg) (fwd : Fwd) (n : Nat) : Prop :=
  ∀ s d f, Good cfg s → need cfg s (failedFrame cfg d f) ≤ n →
    ∃ ext, (fwd s (failedFrame cfg d f)).out = s.out ++ ext ∧
      ∀ o, StableF cfg (fwd s (failedFrame cfg d f)) o → ∃ c, Ev.send o c (failedFrame cfg d f) ∈ ext

section chain
variable {cfg : Cfg} (ok : CfgOK cfg) {fwd : Fwd} {n : Nat}
  (hs : Safe cfg fwd n) (hnest : NestOK fwd) (hr : ReachF cfg fwd n) (hk : ∀ u, KOK cfg u fwd)
include ok hs hnest hr

/-- one iteration of the loop: a subscriber that is owed a notice has it published -/
theorem deliverOne_ow {s : State} (h : Good cfg s) (f : Frame) (hg : inGuard cfg f.mtype = false) (u : Nat)
    (hb : 2 * live s + gcost cfg f ≤ n) (d : Int) (hu : Owed cfg f.mtype d s u) :
    ∃ ext, (deliverOne cfg fwd f s u).out = s.out ++ ext ∧
      ∀ o, StableF cfg (deliverOne cfg fwd f s u) o → 1 ≤ fcnt o (.failed d f.mtype f.src f.dest) ext := by
  obtain ⟨m, hm, _, hd, hl, hw, _⟩ := hu
  have h1 := good_upd h u (fun m => { m with drops := m.drops + 1 }) (fun _ => rfl) (fun _ => rfl) (fun _ => rfl)
  have hlv := h1.2.live
  have hgc : gcost cfg f = 1 := by unfold gcost; simp [hg]
  have e : deliverOne cfg fwd f s u =
      fwd (s.upd u (fun m => { m with drops := m.drops + 1 })) (failedFrame cfg m.modId f) := by
    unfold deliverOne failedMsg; simp [hm, hw, hl, hg]
  rw [e]
  obtain ⟨ext, ho, hx⟩ := hr _ m.modId f h1.1 (by rw [need_failed cfg ok]; omega)
  refine ⟨ext, by rw [ho]; rfl, fun o hst => ?_⟩
  obtain ⟨c, hc⟩ := hx o hst
  exact fcnt_pos hc (by rw [← hd]; rfl)

/-- a failing write: the notice about it is published -/
theorem trySend_fail_ow {s : State} (h : Good cfg s) (u : Nat) (f : Frame) (hg : inGuard cfg f.mtype = false) (m : Module)
    (hm : s.find u = some m) (hcl : m.closed = false) (hf : failOf s u ≠ none) (hb : 2 * live s + gcost cfg f ≤ n) :
    ∃ ext, (trySend cfg fwd s u f).out = s.out ++ ext ∧
      ∀ o, StableF cfg (trySend cfg fwd s u f) o → 1 ≤ fcnt o (.failed m.modId f.mtype f.src f.dest) ext := by
  obtain ⟨g1, st1⟩ := sendRaw_good h u f m hm hcl
  obtain ⟨m1, hm1, hc1, _⟩ := sendRaw_find (s := s) u f m hm hcl
  have hok : (sendRaw s u f).2 = false := by
    rw [sendRaw_ok]; unfold canTake
    cases hfo : failOf s u with
    | none => exact absurd hfo hf
    | some x => simp [hm]
  have n0 := sendRaw_nest s u f
  have hgc : gcost cfg f = 1 := by unfold gcost; simp [hg]
  unfold trySend
  dsimp only
  generalize sendRaw s u f = r at g1 st1 hm1 hok n0
  obtain ⟨s1, okb⟩ := r
  simp only at g1 st1 hm1 hok n0 ⊢
  subst hok
  simp only [Bool.false_eq_true, if_false]
  have hcr : s1.crashed.isSome = false := by rw [g1.ok]; rfl
  simp only [hcr, Bool.false_eq_true, if_false, hm]
  have hl1 := st1.live
  obtain ⟨g2, st2, hl2⟩ := removeModule_safe ok hs g1 u m1 hm1 hc1 (by omega)
  obtain ⟨g3, st3⟩ := logAt_safe ok hs 40 g2 (by omega)
  have hl3 := st3.live
  have n1 := removeModule_nest (cfg := cfg) hnest s1 u
  have n2 := logAt_nest (cfg := cfg) hnest 40 (removeModule cfg fwd s1 u)
  obtain ⟨eA, oA, _, _⟩ := ((n0.trans n1).trans n2).ext
  unfold failedMsg
  simp only [hg, Bool.false_eq_true, if_false]
  obtain ⟨e4, o4, x4⟩ := hr _ m.modId f g3 (by rw [need_failed cfg ok]; omega)
  refine ⟨eA ++ e4, by rw [o4, oA, List.append_assoc], fun o hst => ?_⟩
  obtain ⟨c, hc⟩ := x4 o hst
  rw [fcnt_append]
  have := fcnt_pos (B := .failed m.modId f.mtype f.src f.dest) hc rfl
  omega

theorem deliverOne_fail_ow {s : State} (h : Good cfg s) (f : Frame) (hg : inGuard cfg f.mtype = false) (u : Nat)
    (hb : 2 * live s + gcost cfg f ≤ n) (d : Int) (hu : FailOwed cfg f d s u) :
    ∃ ext, (deliverOne cfg fwd f s u).out = s.out ++ ext ∧
      ∀ o, StableF cfg (deliverOne cfg fwd f s u) o → 1 ≤ fcnt o (.failed d f.mtype f.src f.dest) ext := by
  obtain ⟨m, hm, hc, hd, hf, hdl, _⟩ := hu
  have e : deliverOne cfg fwd f s u = trySend cfg fwd s u f := by
    unfold deliverOne
    rcases hdl with ⟨hw, h1 | h1 | h1⟩ | ⟨hw, h1⟩
    · simp [hm, hw, h1]
    · simp [hm, hw, h1]
    · simp [hm, hw, h1]
    · simp [hm, hw, h1]
  rw [e, ← hd]
  exact trySend_fail_ow ok hs hnest hr h u f hg m hm hc hf hb

include hk in
theorem deliver_ow (f : Frame) (hg : inGuard cfg f.mtype = false) (d : Int) : ∀ (rs : List Nat) {s : State}, Good cfg s →
    (∀ u ∈ rs, ∀ m, s.find u = some m → m.closed = false) → 2 * live s + gcost cfg f ≤ n →
    ∃ ext, (deliver cfg fwd f rs s).out = s.out ++ ext ∧
      ∀ o (U : List Nat), StableF cfg (deliver cfg fwd f rs s) o → U.Nodup →
        (∀ u ∈ U, u ∈ rs ∧ (Owed cfg f.mtype d (deliver cfg fwd f rs s) u ∨ FailOwed cfg f d s u)) →
        U.length ≤ fcnt o (.failed d f.mtype f.src f.dest) ext
  | [], s, _, _, _ => ⟨[], by simp [deliver], fun o U _ _ hU => by
      cases U with
      | nil => simp
      | cons x _ => exact absurd (hU x (by simp)).1 (by simp)⟩
  | u :: rest, s, h, hopen, hb => by
    unfold deliver
    obtain ⟨g1, st1⟩ := deliverOne_safe ok hs h f u (hopen u (by simp)) hb
    have hl := st1.live
    have hopen' : ∀ w ∈ rest, ∀ m, (deliverOne cfg fwd f s u).find w = some m → m.closed = false := by
      intro w hw m' hm'
      cases hcl : m'.closed with
      | false => rfl
      | true =>
        obtain ⟨m0, hm0, c0⟩ := st1.nnc w m' hm' hcl
        have := hopen w (by simp [hw]) m0 hm0
        rw [this] at c0; cases c0
    obtain ⟨e2, o2, x2⟩ := deliver_ow f hg d rest g1 hopen' (by omega)
    have n2 := deliver_nest (cfg := cfg) hnest f rest (deliverOne cfg fwd f s u)
    have n1 := deliverOne_nest (cfg := cfg) hnest f s u
    obtain ⟨e1, o1, _, _⟩ := n1.ext
    -- a failing subscriber other than `u` is still untouched after `u`'s turn
    have hkeep : ∀ w, w ≠ u → FailOwed cfg f d s w → FailOwed cfg f d (deliverOne cfg fwd f s u) w := by
      intro w hw hfo
      have hns : NoSub cfg s w := by obtain ⟨_, _, _, _, _, _, x⟩ := hfo; exact x
      exact failOwed_same hfo (k_deliverOne hnest (hk w) f s u (Or.inl hw) (Or.inl hns)) n1.fail n1.wlist (hns.nest n1)
    have hrest : ∀ (U' : List Nat), (∀ w ∈ U', w ≠ u ∧ w ∈ u :: rest ∧
        (Owed cfg f.mtype d (deliver cfg fwd f rest (deliverOne cfg fwd f s u)) w ∨ FailOwed cfg f d s w)) →
        ∀ w ∈ U', w ∈ rest ∧ (Owed cfg f.mtype d (deliver cfg fwd f rest (deliverOne cfg fwd f s u)) w ∨
          FailOwed cfg f d (deliverOne cfg fwd f s u) w) := by
      intro U' hU' w hw
      obtain ⟨hne, hin, hk'⟩ := hU' w hw
      refine ⟨?_, hk'.imp id (hkeep w hne)⟩
      rcases List.mem_cons.mp hin with x | x
      · exact absurd x hne
      · exact x
    refine ⟨e1 ++ e2, by rw [o2, o1, List.append_assoc], fun o U hst hnd hU => ?_⟩
    rw [fcnt_append]
    by_cases huU : u ∈ U
    · -- `u` itself is owed: its notice, then the others
      have c1 : 1 ≤ fcnt o (.failed d f.mtype f.src f.dest) e1 := by
        rcases (hU u huU).2 with how | hfo
        · have hou : Owed cfg f.mtype d s u := n1.backO cfg _ _ u (n2.backO cfg _ _ u how)
          obtain ⟨e1', o1', x1⟩ := deliverOne_ow ok hs hnest hr h f hg u hb d hou
          have : e1' = e1 := List.append_cancel_left (o1'.symm.trans o1)
          subst this
          exact x1 o (n2.backF cfg o hst)
        · obtain ⟨e1', o1', x1⟩ := deliverOne_fail_ow ok hs hnest hr h f hg u hb d hfo
          have : e1' = e1 := List.append_cancel_left (o1'.symm.trans o1)
          subst this
          exact x1 o (n2.backF cfg o hst)
      have c2 := x2 o (U.erase u) hst (hnd.erase u) (hrest (U.erase u) (fun w hw => by
        have hw' := (List.Nodup.mem_erase_iff hnd).mp hw
        exact ⟨hw'.1, hU w hw'.2⟩))
      rw [List.length_erase_of_mem huU] at c2
      have : 0 < U.length := List.length_pos_of_mem huU
      omega
    · have c2 := x2 o U hst hnd (hrest U (fun w hw => ⟨fun x => huU (x ▸ hw), hU w hw⟩))
      omega

end chain

/-- the reach of a FAILED_MESSAGE broadcast, from the contract of `ManagerSimDep.lean` restated for that type -/
theorem deliver_reach {cfg : Cfg} (ok : CfgOK cfg) {fwd : Fwd} {n : Nat} (hs : Safe cfg fwd n) (hnest : NestOK fwd)
    (hd : DOK cfg fwd n) (f : Frame) (hd0 : f.dest = 0) : ∀ (rs : List Nat) {s : State}, Good cfg s →
    (∀ u ∈ rs, ∀ m, s.find u = some m → m.closed = false) → 2 * live s + gcost cfg f ≤ n →
    ∃ ext, (deliver cfg fwd f rs s).out = s.out ++ ext ∧
      ∀ o ∈ rs, StableF cfg (deliver cfg fwd f rs s) o → ∃ c, Ev.send o c f ∈ ext
  | [], s, _, _, _ => ⟨[], by simp [deliver], fun _ h => by cases h⟩
  | u :: rest, s, h, hopen, hb => by
    unfold deliver
    obtain ⟨g1, st1⟩ := deliverOne_safe ok hs h f u (hopen u (by simp)) hb
    have hl := st1.live
    have hopen' : ∀ w ∈ rest, ∀ m, (deliverOne cfg fwd f s u).find w = some m → m.closed = false := by
      intro w hw m' hm'
      cases hcl : m'.closed with
      | false => rfl
      | true =>
        obtain ⟨m0, hm0, c0⟩ := st1.nnc w m' hm' hcl
        have := hopen w (by simp [hw]) m0 hm0
        rw [this] at c0; cases c0
    obtain ⟨e2, o2, x2⟩ := deliver_reach ok hs hnest hd f hd0 rest g1 hopen' (by omega)
    have n2 := deliver_nest (cfg := cfg) hnest f rest (deliverOne cfg fwd f s u)
    have n1 := deliverOne_nest (cfg := cfg) hnest f s u
    obtain ⟨e1, o1, _, _⟩ := n1.ext
    refine ⟨e1 ++ e2, by rw [o2, o1, List.append_assoc], fun o ho hst => ?_⟩
    by_cases hou : o = u
    · subst hou
      obtain ⟨m, hm, hc, hf, _, hw⟩ := n1.backF cfg o (n2.backF cfg o hst)
      obtain ⟨e1', o1', _, x1⟩ := trySend_dep ok hs hnest hd h o f m hm hc hb
      have e : deliverOne cfg fwd f s o = trySend cfg fwd s o f := by
        unfold deliverOne
        rcases hw with hw | hw
        · simp [hm, hw, hd0]
        · by_cases hw' : o ∈ s.wlist
          · simp [hm, hw', hd0]
          · simp [hm, hw', hw]
      rw [e] at o1
      have : e1' = e1 := List.append_cancel_left (o1'.symm.trans o1)
      subst this
      obtain ⟨c, hc⟩ := x1 hf
      exact ⟨c, List.mem_append.mpr (Or.inl hc)⟩
    · have : o ∈ rest := by
        rcases List.mem_cons.mp ho with x | x
        · exact absurd x hou
        · exact x
      obtain ⟨c, hc⟩ := x2 o this hst
      exact ⟨c, List.mem_append.mpr (Or.inr hc)⟩

theorem forward_reachF {cfg : Cfg} (ok : CfgOK cfg) (hall : OrdAll cfg) (n : Nat) : ReachF cfg (forward cfg n) n := by
  intro s d f h hneed
  cases n with
  | zero => unfold need at hneed; omega
  | succ n =>
    have ihd := forward_DOK ok hall n
    have ihs := forward_safe ok n
    have ihn := forward_nest cfg n
    obtain ⟨gc, stc⟩ := good_count h (failedFrame cfg d f).mtype
    have hlc : live (countMsg cfg s (failedFrame cfg d f).mtype) = live s := by unfold live countMsg; split <;> rfl
    have oc : (countMsg cfg s (failedFrame cfg d f).mtype).out = s.out := countMsg_out cfg s _
    have hty : (failedFrame cfg d f).mtype = cfg.mtFailed := rfl
    have hd0 : (failedFrame cfg d f).dest = 0 := rfl
    have hh0 : (failedFrame cfg d f).destHost = 0 := rfl
    have h1 : ((failedFrame cfg d f).dest < 0 || (failedFrame cfg d f).dest > cfg.maxModules) = false := by
      rw [hd0]; have := ok.modsNonneg; simp; omega
    have h2 : ((failedFrame cfg d f).destHost < 0 || (failedFrame cfg d f).destHost > cfg.maxHosts) = false := by
      rw [hh0]; have := ok.hostsNonneg; simp; omega
    rw [need_failed cfg ok] at hneed
    have hgc : gcost cfg (failedFrame cfg d f) = 0 := by
      unfold gcost
      have : inGuard cfg cfg.mtFailed = true := by unfold inGuard; simp
      rw [hty, this]; rfl
    unfold forward
    simp only [h.ok, Option.isSome_none, Bool.false_eq_true, if_false, h1, h2]
    obtain ⟨e, o, x⟩ := deliver_reach ok ihs ihn ihd (failedFrame cfg d f) hd0
      (recipients cfg (countMsg cfg s (failedFrame cfg d f).mtype) (failedFrame cfg d f).mtype) gc
      (recipients_open ok gc _) (by rw [hlc, hgc]; omega)
    refine ⟨e, by rw [o, oc], fun o' hst => x o' ?_ hst⟩
    have nd := deliver_nest (cfg := cfg) ihn (failedFrame cfg d f)
      (recipients cfg (countMsg cfg s (failedFrame cfg d f).mtype) (failedFrame cfg d f).mtype)
      (countMsg cfg s (failedFrame cfg d f).mtype)
    obtain ⟨_, _, _, _, hidx, _⟩ := nd.backF cfg o' hst
    unfold recipients
    rw [hty]
    rcases hidx with y | y
    · exact List.mem_append.mpr (Or.inl (hall _ _ y))
    · exact List.mem_append.mpr (Or.inr (hall _ _ y))

theorem forward_FOK {cfg : Cfg} (ok : CfgOK cfg) (hall : OrdAll cfg) (hsub : OrdSub cfg) (n : Nat) : FOK cfg (forward cfg n) n := by
  intro s g h hneed hg hin
  cases n with
  | zero => unfold need at hneed; omega
  | succ n =>
    have ihr := forward_reachF ok hall n
    have ihs := forward_safe ok n
    have ihn := forward_nest cfg n
    obtain ⟨gc, stc⟩ := good_count h g.mtype
    have hlc : live (countMsg cfg s g.mtype) = live s := by unfold live countMsg; split <;> rfl
    have oc : (countMsg cfg s g.mtype).out = s.out := countMsg_out cfg s g.mtype
    have h1 : (g.dest < 0 || g.dest > cfg.maxModules) = false := by
      unfold oor at hin; rw [Bool.or_eq_false_iff] at hin; exact hin.1
    have h2 : (g.destHost < 0 || g.destHost > cfg.maxHosts) = false := by
      unfold oor at hin; rw [Bool.or_eq_false_iff] at hin; exact hin.2
    unfold need at hneed
    unfold forward
    simp only [h.ok, Option.isSome_none, Bool.false_eq_true, if_false, h1, h2]
    have nd := deliver_nest (cfg := cfg) ihn g (recipients cfg (countMsg cfg s g.mtype) g.mtype) (countMsg cfg s g.mtype)
    obtain ⟨e, o, _, _⟩ := nd.ext
    refine ⟨e, by rw [o, oc], fun o' d U hst hnd hU => ?_⟩
    have hgc : gcost cfg g = 1 := by unfold gcost; simp [hg]
    obtain ⟨e', o2, x⟩ := deliver_ow ok ihs ihn ihr (fun u => forward_KOK hsub u n) g hg d
      (recipients cfg (countMsg cfg s g.mtype) g.mtype) gc (recipients_open ok gc g.mtype) (by rw [hlc]; omega)
    have : e' = e := List.append_cancel_left (o2.symm.trans o)
    subst this
    have nc := nest_count cfg s g.mtype
    have ec : ∀ u, CE (countMsg cfg s g.mtype) s u := fun u => ce_of_eq (by unfold countMsg; split <;> rfl)
    have ei : (countMsg cfg s g.mtype).idx = s.idx := by unfold countMsg; split <;> rfl
    refine x o' U hst hnd (fun u hu => ?_)
    rcases hU u hu with how | ⟨hfo, hix⟩
    · refine ⟨?_, Or.inl how⟩
      obtain ⟨_, _, _, _, _, _, hidx⟩ := nd.backO cfg _ _ u how
      unfold recipients
      rcases hidx with y | y
      · exact List.mem_append.mpr (Or.inl (hall _ _ y))
      · exact List.mem_append.mpr (Or.inr (hall _ _ y))
    · refine ⟨?_, Or.inr (failOwed_same hfo (ec u) nc.fail nc.wlist (by obtain ⟨_, _, _, _, _, _, x⟩ := hfo; exact x.nest nc))⟩
      unfold recipients
      rw [ei]
      exact List.mem_append.mpr (Or.inl (hall _ _ hix))

theorem fwdTop_FOK {cfg : Cfg} (ok : CfgOK cfg) (hall : OrdAll cfg) (hsub : OrdSub cfg) (hfuel : cfg.fuel = 0) (n : Nat) :
    FOK cfg (fwdTop cfg) n := by
  intro s g h _ hg hin
  unfold fwdTop fuelOf autoFuel
  simp only [hfuel, beq_self_eq_true, if_true]
  refine forward_FOK ok hall hsub _ s g h ?_ hg hin
  unfold need gcost
  have := live_le_length s
  split <;> split <;> omega

end Pyrtma.Mgr
